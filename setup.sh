#!/bin/bash
# Offline setup: warm the build caches (std, -race runtime, harness deps). Nothing is fetched.
export GOFLAGS=-mod=mod GOPROXY=off GOSUMDB=off GOTOOLCHAIN=local
cd /verif/harness || exit 1
go1.26.8 build -tags verif ./... || exit 1
for p in c11 c17 c18; do
  [ -d "$p" ] && { go1.26.8 build -race -tags verif -o /dev/null ./$p || exit 1; }
done
exit 0
