#!/bin/bash
# Offline setup: warm the build caches (std, -race runtime, harness deps) for the claimed checks.
# Nothing is fetched; every check rebuilds from /repo's working tree when it runs, so a failure
# here only costs time later and is not fatal.
export GOFLAGS=-mod=mod GOPROXY=off GOSUMDB=off GOTOOLCHAIN=local
cd /verif/harness || exit 1
for id in $(cat /verif/BUILT); do
  p=$(echo "$id" | tr 'A-Z' 'a-z')
  [ -d "$p" ] || continue
  race=""
  case "$id" in C11|C17|C18) race="-race";; esac
  go1.26.8 build -tags verif $race -o /dev/null ./$p || echo "setup: warm-up build of $p failed (the check will report it)"
done
# the 32-bit side run of the arithmetic/encoding checks: warm the GOARCH=386 standard library
GOARCH=386 go1.26.8 build -tags verif -o /dev/null ./c19 || echo "setup: 386 warm-up build failed (the side run will report it)"
# the race side run of the value checks: warm the -race build of the library packages they use
for p in c02 c03 c09 c13 c16 c20; do
  go1.26.8 build -tags verif -race -o /dev/null ./$p || echo "setup: race warm-up build of $p failed (the side run will report it)"
done
exit 0
