package main

// Reference arithmetic for C15, carried out in math/big.
//
//	instant(ticks, epoch) = epoch + 100 ns * ticks
//	unix seconds          = floor((ticks - delta) / 10^7),  delta = ticks from epoch to 1970-01-01
//	nanoseconds           = ((ticks - delta) mod 10^7) * 100      (Euclidean modulus, 0 <= m < 10^7)
//	ticks(t)              = t.Unix()*10^7 + floor(t.Nanosecond()/100) + delta

import (
	"fmt"
	"math/big"
	"time"
)

var (
	bigE7  = big.NewInt(10_000_000)
	big100 = big.NewInt(100)
	// ticks between 1601-01-01 / 1582-10-15 and 1970-01-01 (published constants)
	d1601 = big.NewInt(116444736000000000)
	d1582 = big.NewInt(122192928000000000)
)

// refSelfCheck recomputes both offsets from civil day counts.
func refSelfCheck() bool {
	days := func(y, m, d int) int64 { // days from civil date to 1970-01-01, proleptic Gregorian (Fliegel/Van Flandern JDN)
		jdn := func(y, m, d int64) int64 {
			a := (14 - m) / 12
			yy := y + 4800 - a
			mm := m + 12*a - 3
			return d + (153*mm+2)/5 + 365*yy + yy/4 - yy/100 + yy/400 - 32045
		}
		return jdn(1970, 1, 1) - jdn(int64(y), int64(m), int64(d))
	}
	perDay := new(big.Int).Mul(big.NewInt(86400), bigE7)
	a := new(big.Int).Mul(big.NewInt(days(1601, 1, 1)), perDay)
	b := new(big.Int).Mul(big.NewInt(days(1582, 10, 15)), perDay)
	return days(1601, 1, 1) == 134774 && days(1582, 10, 15) == 141427 && a.Cmp(d1601) == 0 && b.Cmp(d1582) == 0
}

// refInstant converts a tick count to (unix seconds, nanoseconds).
func refInstant(ticks, delta *big.Int) (sec, nsec int64, ok bool) {
	d := new(big.Int).Sub(ticks, delta)
	q, m := new(big.Int).DivMod(d, bigE7, new(big.Int))
	if !q.IsInt64() {
		return 0, 0, false
	}
	return q.Int64(), m.Int64() * 100, true
}

// refTicks converts a Go time to the (floored) tick count.
func refTicks(t time.Time, delta *big.Int) *big.Int {
	v := new(big.Int).Mul(big.NewInt(t.Unix()), bigE7)
	v.Add(v, big.NewInt(int64(t.Nanosecond()/100)))
	return v.Add(v, delta)
}

// region says whether the naive "(ticks-delta)*100 as int64 nanoseconds" arithmetic
// would be exact for this value ("ns64": 1677-09-21..2262-04-11) or not ("wide").
func region(ticks, delta *big.Int) string {
	d := new(big.Int).Sub(ticks, delta)
	d.Mul(d, big100)
	if d.IsInt64() {
		return "ns64"
	}
	return "wide"
}

// regionSub is region for a time that lies sub nanoseconds (0..99) after the tick.
func regionSub(ticks, delta *big.Int, sub int64) string {
	if sub == 0 {
		return region(ticks, delta)
	}
	if region(ticks, delta) == "ns64" && region(new(big.Int).Add(ticks, big.NewInt(1)), delta) == "ns64" {
		return "ns64"
	}
	return "wide"
}

func sameInstant(got time.Time, sec, nsec int64) bool {
	return got.Unix() == sec && int64(got.Nanosecond()) == nsec
}

func fmtT(t time.Time) string {
	return fmt.Sprintf("%s (unix %d.%09d)", t.UTC().Format("2006-01-02T15:04:05.999999999Z"), t.Unix(), t.Nanosecond())
}

func fmtRef(sec, nsec int64) string { return fmtT(time.Unix(sec, nsec)) }

func fmtRefTicks(ticks, delta *big.Int) string {
	s, n, ok := refInstant(ticks, delta)
	if !ok {
		return "unrepresentable"
	}
	return fmtRef(s, n)
}
