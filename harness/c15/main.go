// C15: Windows time and duration conversions are exact, inverse and overflow-free.
//
// Every conversion function is run on boundary values first (epochs, the
// int64-nanosecond limits of 1677/2262, type extremes, sentinels) and then on a
// seeded random remainder; every result is compared with the same arithmetic
// carried out in math/big (ref.go).
package main

import (
	"bytes"
	"encoding/binary"
	"fmt"
	"math/big"
	"math/rand/v2"
	"strconv"
	"sync"
	"time"

	"github.com/TheManticoreProject/Manticore/crypto/uuid/uuid_v1"
	"github.com/TheManticoreProject/Manticore/crypto/uuid/uuid_v2"
	"github.com/TheManticoreProject/Manticore/network/ldap"
	kckey "github.com/TheManticoreProject/Manticore/windows/keycredential/key"
	kcutils "github.com/TheManticoreProject/Manticore/windows/keycredential/utils"
	ds "github.com/TheManticoreProject/Manticore/windows/ms_dtyp/common/data_structures"

	"verif/mon"
)

var r *mon.Run

// guard runs f; a panic inside the library is a violation keyed by entry point.
func guard(entry string, cs any, f func()) {
	p, v, st := mon.Guard(f)
	if p {
		r.Violation(entry+":panic:"+mon.PanicClass(v), fmt.Sprintf("panic %v at %s", v, mon.TopLibFrame(st)), cs)
	}
}

// nontrivial records a case that the existing tests' present-day examples do not reach.
func nontrivial(family string, ticks *big.Int, delta *big.Int, boundary bool) {
	sec, _, ok := refInstant(ticks, delta)
	if boundary || !ok || sec < 0 || sec > 4102444800 /* 2100-01-01 */ {
		b := new(big.Int).Rsh(ticks, 48)
		r.Nontrivial(family + "|" + b.String())
	}
}

func sampleEvery(i, every int, v func() any) { r.SampleEvery(i, every, v) }

// ---------------------------------------------------------------------------------
// value sets (boundaries first, deterministic; then seeded random)

func bi(s string) *big.Int {
	v, ok := new(big.Int).SetString(s, 10)
	if !ok {
		panic("bad literal " + s)
	}
	return v
}

func pow2(k uint) *big.Int { return new(big.Int).Lsh(big.NewInt(1), k) }

// boundaryTicks returns the deterministic boundary set clipped to [lo, hi].
func boundaryTicks(lo, hi *big.Int, delta *big.Int) []*big.Int {
	var out []*big.Int
	seen := map[string]bool{}
	add := func(v *big.Int) {
		for d := int64(-2); d <= 2; d++ {
			w := new(big.Int).Add(v, big.NewInt(d))
			if w.Cmp(lo) < 0 || w.Cmp(hi) > 0 || seen[w.String()] {
				continue
			}
			seen[w.String()] = true
			out = append(out, w)
		}
	}
	add(big.NewInt(0))
	add(lo)
	add(hi)
	add(delta)
	nsLimit := bi("92233720368547758") // floor(2^63 / 100): last tick offset whose *100 fits int64
	for k := int64(-3); k <= 3; k++ {
		if k == 0 {
			continue
		}
		// delta +- k * (2^63 ns): where an int64 nanosecond count wraps k times
		add(new(big.Int).Add(delta, new(big.Int).Mul(big.NewInt(k), nsLimit)))
	}
	add(nsLimit)
	add(bi("184467440737095516")) // floor(2^64/100): ticks*100 wraps uint64
	add(new(big.Int).Add(delta, bi("184467440737095516")))
	for k := uint(0); k <= 64; k++ {
		add(pow2(k))
		add(new(big.Int).Neg(pow2(k)))
	}
	// second boundaries around both epochs and some civil dates
	for _, s := range []int64{1, 59, 60, 86399, 86400, 86400 * 365, 253402300799 /* 9999-12-31T23:59:59 */, 32503680000 /* 3000 */, -86400, -1} {
		add(new(big.Int).Add(delta, new(big.Int).Mul(big.NewInt(s), bigE7)))
		add(new(big.Int).Mul(big.NewInt(s), bigE7))
	}
	add(bi("864000000000")) // 1601-01-02 for the 1601 epoch
	add(bi("133920597255298050"))
	return out
}

// randTicks draws from [lo,hi]: half uniform, a quarter log-uniform magnitude, a quarter near delta.
func randTicks(rng *rand.Rand, lo, hi, delta *big.Int) *big.Int {
	span := new(big.Int).Sub(hi, lo)
	span.Add(span, big.NewInt(1))
	var v *big.Int
	switch rng.IntN(4) {
	case 0, 1:
		v = bigUniform(rng, span)
		v.Add(v, lo)
	case 2:
		bits := uint(rng.IntN(span.BitLen() + 1))
		m := pow2(bits)
		v = bigUniform(rng, m)
		if lo.Sign() < 0 && rng.IntN(2) == 0 {
			v.Neg(v)
		}
	default:
		// within +-600 years of the Unix epoch
		m := bi("189345600000000000")
		v = bigUniform(rng, new(big.Int).Lsh(m, 1))
		v.Sub(v, m)
		v.Add(v, delta)
	}
	if v.Cmp(lo) < 0 || v.Cmp(hi) > 0 {
		v = bigUniform(rng, span)
		v.Add(v, lo)
	}
	return v
}

func bigUniform(rng *rand.Rand, n *big.Int) *big.Int {
	// n > 0; rejection sampling on BitLen bits
	bl := n.BitLen()
	buf := make([]byte, (bl+7)/8)
	for {
		for i := range buf {
			buf[i] = byte(rng.UintN(256))
		}
		if ex := uint(len(buf)*8 - bl); ex > 0 {
			buf[0] &= 0xFF >> ex
		}
		v := new(big.Int).SetBytes(buf)
		if v.Cmp(n) < 0 {
			return v
		}
	}
}

var zones = []*time.Location{time.UTC, time.FixedZone("east", 14*3600), time.FixedZone("west", -12*3600), time.FixedZone("odd", 5*3600+45*60)}

// timesFor returns Go times whose tick count (for epoch delta) is tk, in several zones
// and built two ways (time.Unix and time.Date).
// Rounding of sub-tick time: an instant that is not a whole number of 100 ns intervals may be
// converted by flooring, by rounding up or by rounding to nearest — but by ONE rule for every
// instant (before and after 1970, inside and outside the int64-nanosecond range). Each entry
// point keeps the set of rules its observations are still consistent with.
const (
	ruleFloor = 1 << iota
	ruleCeil
	ruleNearest
)

var (
	roundMu    sync.Mutex
	roundRules = map[string]int{}
	roundFirst = map[string]string{}
)

func observeRounding(entry string, sub int64, up bool, what string, cs map[string]any) {
	ok := 0
	if !up {
		ok |= ruleFloor
	}
	if up {
		ok |= ruleCeil
	}
	if up == (sub >= 50) {
		ok |= ruleNearest
	}
	roundMu.Lock()
	prev, seen := roundRules[entry]
	if !seen {
		prev = ruleFloor | ruleCeil | ruleNearest
		roundFirst[entry] = what
	}
	now := prev & ok
	roundRules[entry] = now
	first := roundFirst[entry]
	if now != 0 && now != prev {
		roundFirst[entry] = first + "; " + what
	}
	roundMu.Unlock()
	if now == 0 && prev != 0 {
		r.Violation(entry+":subtick:inconsistent-rounding", fmt.Sprintf("sub-tick instants are not converted by one rule (floor, ceiling or nearest): %s — but earlier: %s", what, first), cs)
	}
}

func goTime(tk *big.Int, delta *big.Int, variant int) (time.Time, bool) {
	sec, nsec, ok := refInstant(tk, delta)
	if !ok {
		return time.Time{}, false
	}
	t := time.Unix(sec, nsec)
	switch variant % 6 {
	case 0:
		return t, true // local zone of the process
	case 1:
		return t.UTC(), true
	case 5:
		u := t.UTC()
		return time.Date(u.Year(), u.Month(), u.Day(), u.Hour(), u.Minute(), u.Second(), u.Nanosecond(), time.UTC), true
	default:
		return t.In(zones[variant%6-1]), true
	}
}

// ---------------------------------------------------------------------------------
// FILETIME

var ftHi = new(big.Int).Sub(pow2(63), big.NewInt(1))

func ftFromTicks(tk *big.Int) *ds.FILETIME {
	u := tk.Uint64()
	return &ds.FILETIME{DwLowDateTime: uint32(u), DwHighDateTime: uint32(u >> 32)}
}

func checkFILETIMETicks(tk *big.Int, boundary bool, i int) {
	cs := map[string]any{"ticks": tk.String()}
	reg := region(tk, d1601)
	wsec, wnsec, _ := refInstant(tk, d1601)
	guard("FILETIME", cs, func() {
		ft := ftFromTicks(tk)
		if got := ft.ToInt64(); big.NewInt(got).Cmp(tk) != 0 {
			r.Violation("FILETIME.ToInt64:value", fmt.Sprintf("ticks %s: ToInt64()=%d", tk, got), cs)
		}
		got := ft.GetTime()
		if !sameInstant(got, wsec, wnsec) {
			r.Violation("FILETIME.GetTime:value:"+reg, fmt.Sprintf("ticks %s: GetTime()=%s want %s", tk, fmtT(got), fmtRef(wsec, wnsec)), cs)
		}
		if u := ft.GetUnixTimestamp(); u != wsec {
			r.Violation("FILETIME.GetUnixTimestamp:value:"+reg, fmt.Sprintf("ticks %s: GetUnixTimestamp()=%d want %d", tk, u, wsec), cs)
		}
		want := time.Unix(wsec, wnsec).UTC().Format("2006-01-02 15:04:05.00000")
		if s := ft.GetTimeString(); s != want {
			r.Violation("FILETIME.GetTimeString:value:"+reg, fmt.Sprintf("ticks %s: GetTimeString()=%q want %q", tk, s, want), cs)
		}
		if s := ft.String(); s != want {
			r.Violation("FILETIME.String:value:"+reg, fmt.Sprintf("ticks %s: String()=%q want %q", tk, s, want), cs)
		}
		r.Eval(5)
		// inverse: time -> FILETIME gives the same structure
		back := ds.NewFILETIMEFromTime(time.Unix(wsec, wnsec))
		if !mon.ExportedEqual(*back, *ft) {
			r.Violation("FILETIME.NewFILETIMEFromTime:value:"+reg, fmt.Sprintf("time %s: got ticks %d want %s", fmtRef(wsec, wnsec), back.ToInt64(), tk), cs)
		}
		// and the library's own composition
		if rt := ds.NewFILETIMEFromTime(got); !mon.ExportedEqual(*rt, *ft) && sameInstant(got, wsec, wnsec) {
			r.Violation("FILETIME.NewFILETIMEFromTime:inverse:"+reg, fmt.Sprintf("NewFILETIMEFromTime(GetTime(%s)) = %d", tk, rt.ToInt64()), cs)
		}
		r.Eval(2)
		// wire form
		b, err := ft.Marshal()
		var wantB [8]byte
		binary.LittleEndian.PutUint64(wantB[:], tk.Uint64())
		if err != nil || !bytes.Equal(b, wantB[:]) {
			r.Violation("FILETIME.Marshal:value", fmt.Sprintf("ticks %s: Marshal()=%x,%v want %x", tk, b, err, wantB), cs)
		}
		var ft2 ds.FILETIME
		n, err := ft2.Unmarshal(wantB[:])
		if err != nil || n != 8 || !mon.ExportedEqual(ft2, *ft) {
			r.Violation("FILETIME.Unmarshal:value", fmt.Sprintf("ticks %s: Unmarshal -> %+v n=%d err=%v", tk, ft2, n, err), cs)
		}
		r.Eval(2)
		// reading a value in all these ways has not changed it
		if orig := ftFromTicks(tk); !mon.ExportedEqual(*ft, *orig) {
			r.Violation("FILETIME:value-changed-by-reading", fmt.Sprintf("ticks %s: after the getters and Marshal the structure holds %d", tk, ft.ToInt64()), cs)
		}
	})
	nontrivial("ft.ticks", tk, d1601, boundary)
	sampleEvery(i, 9973, func() any {
		return map[string]any{"kind": "FILETIME ticks->time", "ticks": tk.String(), "time": fmtRef(wsec, wnsec)}
	})
}

func checkFILETIMETime(tk *big.Int, variant int, sub int64, boundary bool) {
	// tk is the exact tick count; sub (0..99) extra nanoseconds below tick granularity
	t, ok := goTime(tk, d1601, variant)
	if !ok {
		return
	}
	t = t.Add(time.Duration(sub))
	cs := map[string]any{"ticks": tk.String(), "time": t.Format(time.RFC3339Nano), "zone_variant": variant % 6, "subtick_ns": sub}
	reg := regionSub(tk, d1601, sub)
	guard("FILETIME.NewFILETIMEFromTime", cs, func() {
		ft := ds.NewFILETIMEFromTime(t)
		got := new(big.Int).SetUint64(uint64(ft.DwHighDateTime)<<32 | uint64(ft.DwLowDateTime))
		r.Eval(1)
		if sub == 0 {
			if got.Cmp(tk) != 0 {
				r.Violation("FILETIME.NewFILETIMEFromTime:value:"+reg, fmt.Sprintf("time %s: got ticks %s want %s", fmtT(t), got, tk), cs)
				return
			}
			back := ft.GetTime()
			r.Eval(1)
			if !back.Equal(t) {
				r.Violation("FILETIME.GetTime:inverse:"+reg, fmt.Sprintf("GetTime(NewFILETIMEFromTime(%s)) = %s", fmtT(t), fmtT(back)), cs)
			}
		} else {
			up := new(big.Int).Add(tk, big.NewInt(1))
			if got.Cmp(tk) != 0 && got.Cmp(up) != 0 {
				r.Violation("FILETIME.NewFILETIMEFromTime:subtick:"+reg, fmt.Sprintf("time %s: got ticks %s want %s or %s", fmtT(t), got, tk, up), cs)
			}
			observeRounding("FILETIME.NewFILETIMEFromTime", sub, got.Cmp(up) == 0, fmt.Sprintf("%s (+%d ns) -> %s", fmtRefTicks(tk, d1601), sub, got), cs)
		}
	})
	nontrivial("ft.time", tk, d1601, boundary)
}

func familyFILETIME() {
	rng := r.Rand("filetime")
	lo, hi := big.NewInt(0), ftHi
	i := 0
	for _, tk := range boundaryTicks(lo, hi, d1601) {
		checkFILETIMETicks(tk, true, i)
		for v := 0; v < 6; v++ {
			checkFILETIMETime(tk, v, 0, true)
		}
		checkFILETIMETime(tk, 1, 1, true)
		checkFILETIMETime(tk, 1, 99, true)
		i++
	}
	r.Sample(map[string]any{"kind": "FILETIME never-sentinel", "ticks": ftHi.String(), "time": fmtRefTicks(ftHi, d1601)})
	n := r.Pick(150000, 1500000)
	for j := 0; j < n; j++ {
		tk := randTicks(rng, lo, hi, d1601)
		checkFILETIMETicks(tk, false, i+j)
		sub := int64(0)
		if j%5 == 0 {
			sub = int64(1 + rng.IntN(99))
		}
		checkFILETIMETime(tk, j, sub, false)
	}
	// values with the top bit set: ToInt64 is a signed API (not demanded), but nothing may panic
	for _, u := range []uint64{1 << 63, 1<<63 + 1, 1<<64 - 1, 0x8000000080000000, 0xFFFFFFFF00000000, 0xFE624E212AC18000, 0xFFFFFFFFFF676980, 0xF000000000000000, 0xC000000000000001} {
		ft := &ds.FILETIME{DwLowDateTime: uint32(u), DwHighDateTime: uint32(u >> 32)}
		guard("FILETIME.topbit", map[string]any{"raw": fmt.Sprintf("%#x", u)}, func() {
			_ = ft.ToInt64()
			got := ft.GetTime()
			_ = ft.GetUnixTimestamp()
			_ = ft.String()
			// whichever reading of such a value the library takes (a signed count: before 1601; an
			// unsigned one: tens of thousands of years ahead), its two directions take the same one
			back := ds.NewFILETIMEFromTime(got)
			r.Eval(1)
			if !mon.ExportedEqual(*back, *ft) {
				r.Violation("FILETIME.NewFILETIMEFromTime:inverse:topbit", fmt.Sprintf("FILETIME %#x: GetTime()=%s, NewFILETIMEFromTime of that = %#x", u, fmtT(got), uint64(back.DwHighDateTime)<<32|uint64(back.DwLowDateTime)), map[string]any{"raw": fmt.Sprintf("%#x", u)})
			}
		})
		r.Count("filetime_topbit_values", 1)
	}
}

// ---------------------------------------------------------------------------------
// LDAP timestamps and durations

var (
	i64Lo = new(big.Int).Neg(pow2(63))
	i64Hi = new(big.Int).Sub(pow2(63), big.NewInt(1))
)

func checkLDAPStamp(tk *big.Int, boundary bool, i int) {
	s := tk.String()
	cs := map[string]any{"value": s}
	reg := region(tk, d1601)
	wsec, _, _ := refInstant(tk, d1601)
	guard("ldap.ConvertLDAPTimeStampToUnixTimeStamp", cs, func() {
		got := ldap.ConvertLDAPTimeStampToUnixTimeStamp(s)
		r.Eval(1)
		okv := got == wsec
		if tk.Cmp(d1601) < 0 && got == 0 {
			okv = true // documented clamp below the Unix epoch
		}
		if !okv {
			cls := "value"
			if tk.Cmp(d1601) < 0 {
				cls = "pre1970"
			}
			r.Violation("ldap.ConvertLDAPTimeStampToUnixTimeStamp:"+cls+":"+reg, fmt.Sprintf("%q -> %d want %d", s, got, wsec), cs)
		}
	})
	// other decimal spellings of the same number (leading zeros, explicit plus sign)
	if boundary || i%16 == 0 {
		for k, alt := range decimalSpellings(tk) {
			csa := map[string]any{"value": alt}
			guard("ldap.ConvertLDAPTimeStampToUnixTimeStamp", csa, func() {
				got := ldap.ConvertLDAPTimeStampToUnixTimeStamp(alt)
				r.Eval(1)
				if got != wsec && !(tk.Cmp(d1601) < 0 && got == 0) {
					r.Violation("ldap.ConvertLDAPTimeStampToUnixTimeStamp:spelling", fmt.Sprintf("%q -> %d want %d (the same number written %q gives that)", alt, got, wsec, s), csa)
				}
			})
			if boundary {
				r.Nontrivial(fmt.Sprintf("ldap.stamp.spelling|%d|%s", k, s))
			}
		}
	}
	nontrivial("ldap.stamp", tk, d1601, boundary)
	sampleEvery(i, 19997, func() any {
		return map[string]any{"kind": "LDAP timestamp->unix", "value": s, "unix": wsec}
	})
}

func checkLDAPFromTime(tk *big.Int, variant int, sub int64, boundary bool) {
	t, ok := goTime(tk, d1601, variant)
	if !ok {
		return
	}
	t = t.Add(time.Duration(sub))
	cs := map[string]any{"ticks": tk.String(), "time": t.Format(time.RFC3339Nano), "zone_variant": variant % 6}
	reg := region(tk, d1601)
	// documented: whole seconds; the exact tick count is accepted as well
	secTicks := new(big.Int).Mul(big.NewInt(t.Unix()), bigE7)
	secTicks.Add(secTicks, d1601)
	exact := refTicks(t, d1601)
	guard("ldap.ConvertUnixTimeStampToLDAPTimeStamp", cs, func() {
		got := ldap.ConvertUnixTimeStampToLDAPTimeStamp(t)
		r.Eval(1)
		g := big.NewInt(got)
		if g.Cmp(secTicks) != 0 && g.Cmp(exact) != 0 {
			r.Violation("ldap.ConvertUnixTimeStampToLDAPTimeStamp:value:"+reg, fmt.Sprintf("time %s -> %d want %s (whole seconds) or %s", fmtT(t), got, secTicks, exact), cs)
			return
		}
		// inverse composition through the decimal string
		back := ldap.ConvertLDAPTimeStampToUnixTimeStamp(strconv.FormatInt(got, 10))
		r.Eval(1)
		if back != t.Unix() && !(t.Unix() < 0 && back == 0) {
			r.Violation("ldap.ConvertLDAPTimeStampToUnixTimeStamp:inverse:"+reg, fmt.Sprintf("time %s (unix %d) -> %d -> %d", fmtT(t), t.Unix(), got, back), cs)
		}
	})
	nontrivial("ldap.time", tk, d1601, boundary)
}

func checkLDAPDuration(v *big.Int, boundary bool, i int) {
	s := v.String()
	cs := map[string]any{"value": s}
	want := new(big.Int).Abs(v)
	want.Quo(want, bigE7)
	cls := "value"
	if v.Cmp(i64Lo) == 0 {
		cls = "minint64"
	}
	guard("ldap.ConvertLDAPDurationToSeconds", cs, func() {
		got := ldap.ConvertLDAPDurationToSeconds(s)
		r.Eval(1)
		if big.NewInt(got).Cmp(want) != 0 {
			r.Violation("ldap.ConvertLDAPDurationToSeconds:"+cls, fmt.Sprintf("%q -> %d want %s", s, got, want), cs)
		}
	})
	if boundary || i%16 == 0 {
		for _, alt := range decimalSpellings(v) {
			csa := map[string]any{"value": alt}
			guard("ldap.ConvertLDAPDurationToSeconds", csa, func() {
				got := ldap.ConvertLDAPDurationToSeconds(alt)
				r.Eval(1)
				if big.NewInt(got).Cmp(want) != 0 {
					r.Violation("ldap.ConvertLDAPDurationToSeconds:spelling", fmt.Sprintf("%q -> %d want %s (the same number written %q gives that)", alt, got, want, s), csa)
				}
			})
		}
	}
	if boundary || v.Sign() < 0 || v.BitLen() > 40 {
		r.Nontrivial("ldap.dur|" + new(big.Int).Rsh(v, 40).String())
	}
	sampleEvery(i, 19997, func() any {
		return map[string]any{"kind": "LDAP duration->seconds", "value": s, "seconds": want.String()}
	})
}

// decimalSpellings returns other base-10 spellings of v: leading zeros after the optional sign,
// and an explicit plus sign for non-negative numbers.
func decimalSpellings(v *big.Int) []string {
	digits := new(big.Int).Abs(v).String()
	sign := ""
	if v.Sign() < 0 {
		sign = "-"
	}
	out := []string{sign + "0" + digits, sign + "00000" + digits, sign + "00000000000000000000" + digits}
	if v.Sign() >= 0 {
		out = append(out, "+"+digits, "+0"+digits)
	}
	if v.Sign() == 0 {
		out = append(out, "-0", "00")
	}
	return out
}

func checkLDAPSeconds(sec int64, boundary bool) {
	cs := map[string]any{"seconds": sec}
	want := new(big.Int).Mul(big.NewInt(sec), bigE7)
	if !want.IsInt64() {
		// not representable as a 64-bit LDAP interval: nothing is demanded, but it may not panic
		guard("ldap.ConvertSecondsToLDAPDuration", cs, func() { _ = ldap.ConvertSecondsToLDAPDuration(sec) })
		r.Count("ldap_seconds_out_of_domain_panic_only", 1)
		return
	}
	guard("ldap.ConvertSecondsToLDAPDuration", cs, func() {
		got := ldap.ConvertSecondsToLDAPDuration(sec)
		r.Eval(1)
		if got != want.String() {
			r.Violation("ldap.ConvertSecondsToLDAPDuration:value", fmt.Sprintf("%d -> %q want %q", sec, got, want), cs)
			return
		}
		back := ldap.ConvertLDAPDurationToSeconds(got)
		r.Eval(1)
		abs := new(big.Int).Abs(big.NewInt(sec))
		if big.NewInt(back).Cmp(abs) != 0 {
			r.Violation("ldap.ConvertLDAPDurationToSeconds:inverse", fmt.Sprintf("seconds %d -> %q -> %d want %s", sec, got, back, abs), cs)
		}
	})
	if boundary || sec < 0 || sec > 1<<20 {
		r.Nontrivial(fmt.Sprintf("ldap.sec|%d", sec>>16))
	}
}

func familyLDAP() {
	rng := r.Rand("ldap")
	i := 0
	for _, tk := range boundaryTicks(i64Lo, i64Hi, d1601) {
		checkLDAPStamp(tk, true, i)
		checkLDAPDuration(tk, true, i)
		i++
	}
	for _, tk := range boundaryTicks(big.NewInt(0), ftHi, d1601) {
		for v := 0; v < 6; v++ {
			checkLDAPFromTime(tk, v, 0, true)
		}
		checkLDAPFromTime(tk, 1, 1, true)
		checkLDAPFromTime(tk, 1, 99, true)
	}
	r.Sample(map[string]any{"kind": "LDAP never-sentinel", "value": i64Hi.String(), "unix": func() int64 { s, _, _ := refInstant(i64Hi, d1601); return s }()})
	r.Sample(map[string]any{"kind": "LDAP duration min-int64", "value": i64Lo.String(), "seconds": "922337203685"})
	// malformed / out-of-range decimal strings: documented result 0
	for _, s := range []string{"", "abc", "12x", "9223372036854775808", "-9223372036854775809", " 1", "1 ", "1.5", "0x10", "١٢٣", "99999999999999999999999999",
		"+", "-", "+-1", "--1", "1-", "1\x00", "133920597255298050\n"} {
		cs := map[string]any{"value": s}
		guard("ldap.ConvertLDAPTimeStampToUnixTimeStamp", cs, func() {
			if got := ldap.ConvertLDAPTimeStampToUnixTimeStamp(s); got != 0 {
				r.Violation("ldap.ConvertLDAPTimeStampToUnixTimeStamp:malformed", fmt.Sprintf("%q -> %d want 0", s, got), cs)
			}
		})
		guard("ldap.ConvertLDAPDurationToSeconds", cs, func() {
			if got := ldap.ConvertLDAPDurationToSeconds(s); got != 0 {
				r.Violation("ldap.ConvertLDAPDurationToSeconds:malformed", fmt.Sprintf("%q -> %d want 0", s, got), cs)
			}
		})
		r.Eval(2)
		r.Nontrivial("ldap.malformed|" + s)
	}
	// seconds -> duration
	secLim := new(big.Int).Quo(i64Hi, bigE7).Int64() // 922337203685
	for _, base := range []int64{0, 1, 60, 3600, 86400, secLim, -secLim, 1 << 31, 1 << 32, -(1 << 31), -(1 << 32)} {
		for d := int64(-2); d <= 2; d++ {
			checkLDAPSeconds(base+d, true)
		}
	}
	for _, s := range []int64{-1 << 63, 1<<63 - 1, -1<<63 + 1, 1 << 62, -1 << 62} {
		checkLDAPSeconds(s, true)
	}
	n := r.Pick(150000, 1500000)
	for j := 0; j < n; j++ {
		tk := randTicks(rng, i64Lo, i64Hi, d1601)
		checkLDAPStamp(tk, false, i+j)
		checkLDAPDuration(randTicks(rng, i64Lo, i64Hi, big.NewInt(0)), false, i+j)
		sub := int64(0)
		if j%5 == 0 {
			sub = int64(1 + rng.IntN(99))
		}
		checkLDAPFromTime(randTicks(rng, big.NewInt(0), ftHi, d1601), j, sub, false)
		var s int64
		switch j % 3 {
		case 0:
			s = rng.Int64N(2*secLim+1) - secLim
		case 1:
			s = rng.Int64N(1<<uint(1+rng.IntN(40))) * int64(1-2*rng.IntN(2))
		default:
			s = int64(rng.Uint64()) // mostly out of domain: panic-only
			if rng.IntN(2) == 0 {
				s = s >> uint(rng.IntN(40))
			}
		}
		checkLDAPSeconds(s, false)
	}
}

// ---------------------------------------------------------------------------------
// key-credential DateTime

var u64Hi = new(big.Int).Sub(pow2(64), big.NewInt(1))

var kcVersions = []uint32{kckey.KeyCredentialVersion_0, kckey.KeyCredentialVersion_1, kckey.KeyCredentialVersion_2, 0x300}
var kcSources = []kckey.KeySource{kckey.KeySource_AD, kckey.KeySource_AzureAD}

func checkDateTimeTicks(tk *big.Int, boundary bool, i int) {
	u := tk.Uint64()
	cs := map[string]any{"ticks": tk.String()}
	reg := region(tk, d1601)
	wsec, wnsec, _ := refInstant(tk, d1601)
	var raw [8]byte
	binary.LittleEndian.PutUint64(raw[:], u)
	judge := func(entry string, dt kcutils.DateTime) {
		if dt.Ticks != u || dt.ToTicks() != u {
			r.Violation(entry+":ticks", fmt.Sprintf("ticks %s: Ticks=%d ToTicks()=%d", tk, dt.Ticks, dt.ToTicks()), cs)
		}
		if !sameInstant(dt.Time, wsec, wnsec) {
			r.Violation(entry+":time:"+reg, fmt.Sprintf("ticks %s: Time=%s want %s", tk, fmtT(dt.Time), fmtRef(wsec, wnsec)), cs)
		}
		ut := dt.ToUniversalTime()
		if !sameInstant(ut, wsec, wnsec) || ut.Location() != time.UTC {
			r.Violation("DateTime.ToUniversalTime:value:"+reg, fmt.Sprintf("ticks %s: ToUniversalTime()=%s loc=%v want %s", tk, fmtT(ut), ut.Location(), fmtRef(wsec, wnsec)), cs)
		}
		if b := dt.ToBytes(); !bytes.Equal(b, raw[:]) {
			r.Violation("DateTime.ToBytes:value", fmt.Sprintf("ticks %s: ToBytes()=%x want %x", tk, b, raw), cs)
		}
		r.Eval(4)
	}
	guard("keycredential.NewDateTime", cs, func() { judge("keycredential.NewDateTime", kcutils.NewDateTime(u)) })
	vi := i % len(kcVersions)
	si := (i / len(kcVersions)) % len(kcSources)
	guard("keycredential.ConvertFromBinaryTime", cs, func() {
		judge("keycredential.ConvertFromBinaryTime", kcutils.ConvertFromBinaryTime(raw[:], kcSources[si], kckey.KeyCredentialVersion{Value: kcVersions[vi]}))
	})
	// inverse: the reference time converts back to the same 8 bytes
	guard("keycredential.ConvertToBinaryTime", cs, func() {
		b := kcutils.ConvertToBinaryTime(time.Unix(wsec, wnsec), kcSources[si], kckey.KeyCredentialVersion{Value: kcVersions[vi]})
		r.Eval(1)
		if !bytes.Equal(b, raw[:]) {
			r.Violation("keycredential.ConvertToBinaryTime:value:"+reg, fmt.Sprintf("time %s: got %x (LE %d) want %x (ticks %s)", fmtRef(wsec, wnsec), b, le64(b), raw, tk), cs)
		}
	})
	nontrivial("kc.ticks", tk, d1601, boundary)
	sampleEvery(i, 19997, func() any {
		return map[string]any{"kind": "keycredential ticks->DateTime", "ticks": tk.String(), "time": fmtRef(wsec, wnsec)}
	})
}

func le64(b []byte) uint64 {
	if len(b) != 8 {
		return 0
	}
	return binary.LittleEndian.Uint64(b)
}

func checkDateTimeFromTime(tk *big.Int, variant int, sub int64, boundary bool) {
	t, ok := goTime(tk, d1601, variant)
	if !ok {
		return
	}
	t = t.Add(time.Duration(sub))
	cs := map[string]any{"ticks": tk.String(), "time": t.Format(time.RFC3339Nano), "zone_variant": variant % 6, "subtick_ns": sub}
	reg := regionSub(tk, d1601, sub)
	ver := kckey.KeyCredentialVersion{Value: kcVersions[variant%len(kcVersions)]}
	src := kcSources[(variant/4)%2]
	guard("keycredential.ConvertToBinaryTime", cs, func() {
		b := kcutils.ConvertToBinaryTime(t, src, ver)
		r.Eval(1)
		if len(b) != 8 {
			r.Violation("keycredential.ConvertToBinaryTime:length", fmt.Sprintf("time %s: %d bytes", fmtT(t), len(b)), cs)
			return
		}
		got := new(big.Int).SetUint64(binary.LittleEndian.Uint64(b))
		if sub != 0 {
			up := new(big.Int).Add(tk, big.NewInt(1))
			if got.Cmp(tk) != 0 && got.Cmp(up) != 0 {
				r.Violation("keycredential.ConvertToBinaryTime:subtick:"+reg, fmt.Sprintf("time %s: got ticks %s want %s or %s", fmtT(t), got, tk, up), cs)
			}
			observeRounding("keycredential.ConvertToBinaryTime", sub, got.Cmp(up) == 0, fmt.Sprintf("%s (+%d ns) -> %s", fmtRefTicks(tk, d1601), sub, got), cs)
			return
		}
		if got.Cmp(tk) != 0 {
			r.Violation("keycredential.ConvertToBinaryTime:value:"+reg, fmt.Sprintf("time %s: got ticks %s want %s", fmtT(t), got, tk), cs)
			return
		}
		if tk.Sign() == 0 {
			return // ticks 0 is the documented "now" sentinel of NewDateTime
		}
		back := kcutils.ConvertFromBinaryTime(b, src, ver)
		r.Eval(1)
		if !back.Time.Equal(t) {
			r.Violation("keycredential.ConvertFromBinaryTime:inverse:"+reg, fmt.Sprintf("ConvertFromBinaryTime(ConvertToBinaryTime(%s)).Time = %s", fmtT(t), fmtT(back.Time)), cs)
		}
	})
	nontrivial("kc.time", tk, d1601, boundary)
}

func familyDateTime() {
	rng := r.Rand("datetime")
	lo, hi := big.NewInt(1), u64Hi // 0 is the documented "now" sentinel of NewDateTime
	i := 0
	for _, tk := range boundaryTicks(lo, hi, d1601) {
		for k := 0; k < len(kcVersions)*len(kcSources); k++ {
			checkDateTimeTicks(tk, true, k)
		}
		for v := 0; v < 8; v++ {
			checkDateTimeFromTime(tk, v, 0, true)
		}
		checkDateTimeFromTime(tk, 1, 1, true)
		checkDateTimeFromTime(tk, 1, 99, true)
		i++
	}
	checkDateTimeFromTime(big.NewInt(0), 1, 0, true)
	r.Sample(map[string]any{"kind": "keycredential max ticks", "ticks": u64Hi.String(), "time": fmtRefTicks(u64Hi, d1601)})
	n := r.Pick(150000, 1500000)
	for j := 0; j < n; j++ {
		tk := randTicks(rng, lo, hi, d1601)
		checkDateTimeTicks(tk, false, i+j)
		sub := int64(0)
		if j%5 == 0 {
			sub = int64(1 + rng.IntN(99))
		}
		checkDateTimeFromTime(randTicks(rng, lo, hi, d1601), j, sub, false)
	}
}

// ---------------------------------------------------------------------------------
// UUID v1 / v2 timestamps (100 ns since 1582-10-15, 60 bits)

var uuidHi = new(big.Int).Sub(pow2(60), big.NewInt(1))

func checkUUIDTicks(tk *big.Int, boundary bool, i int) {
	u := tk.Uint64()
	cs := map[string]any{"timestamp": tk.String()}
	reg := region(tk, d1582)
	wsec, wnsec, _ := refInstant(tk, d1582)
	wt := time.Unix(wsec, wnsec)
	guard("uuid_v1.GetTime", cs, func() {
		var a uuid_v1.UUIDv1
		a.Time = u
		got := a.GetTime()
		r.Eval(1)
		if !sameInstant(got, wsec, wnsec) {
			r.Violation("uuid_v1.GetTime:value:"+reg, fmt.Sprintf("timestamp %s: GetTime()=%s want %s", tk, fmtT(got), fmtRef(wsec, wnsec)), cs)
		}
	})
	guard("uuid_v1.SetTime", cs, func() {
		var a uuid_v1.UUIDv1
		a.SetTime(wt)
		r.Eval(1)
		if a.Time != u {
			r.Violation("uuid_v1.SetTime:value:"+reg, fmt.Sprintf("time %s: Time=%d want %s", fmtRef(wsec, wnsec), a.Time, tk), cs)
			return
		}
		if back := a.GetTime(); !back.Equal(wt) {
			r.Violation("uuid_v1.GetTime:inverse:"+reg, fmt.Sprintf("GetTime(SetTime(%s)) = %s", fmtRef(wsec, wnsec), fmtT(back)), cs)
		}
		r.Eval(1)
	})
	guard("uuid_v2.GetTime", cs, func() {
		var a uuid_v2.UUIDv2
		a.Time = u
		got := a.GetTime()
		r.Eval(1)
		if !sameInstant(got, wsec, wnsec) {
			r.Violation("uuid_v2.GetTime:value:"+reg, fmt.Sprintf("timestamp %s: GetTime()=%s want %s", tk, fmtT(got), fmtRef(wsec, wnsec)), cs)
		}
	})
	guard("uuid_v2.SetTime", cs, func() {
		var a uuid_v2.UUIDv2
		a.SetTime(wt)
		r.Eval(1)
		if a.Time != u {
			r.Violation("uuid_v2.SetTime:value:"+reg, fmt.Sprintf("time %s: Time=%d want %s", fmtRef(wsec, wnsec), a.Time, tk), cs)
			return
		}
		if back := a.GetTime(); !back.Equal(wt) {
			r.Violation("uuid_v2.GetTime:inverse:"+reg, fmt.Sprintf("GetTime(SetTime(%s)) = %s", fmtRef(wsec, wnsec), fmtT(back)), cs)
		}
		r.Eval(1)
	})
	// the whole path a caller takes: time -> SetTime -> binary/text form -> parse -> GetTime, with
	// the other fields of the structure holding any value of their Go types (the timestamp must
	// not depend on them)
	if boundary || i%8 == 0 {
		x := u*0x9E3779B97F4A7C15 + uint64(i)
		clock, ld, ldn, cseq := uint8(x>>8), uint8(x>>16), uint32(x>>24), uint16(x>>40)
		if i%3 == 0 {
			clock, cseq = 0xFF, 0xFFFF
		}
		var node [6]byte
		for k := range node {
			node[k] = byte(x >> (8 * k))
		}
		cs2 := map[string]any{"timestamp": tk.String(), "clock": clock, "local_domain": ld, "local_domain_number": ldn, "clock_seq": cseq, "node": fmt.Sprintf("%x", node)}
		guard("uuid_v1.roundtrip", cs2, func() {
			var a, b uuid_v1.UUIDv1
			a.UUID.Variant = 0x8
			if (i/8)%2 == 1 {
				a.SetTime(wt)
			}
			a.SetClockSequence(cseq)
			a.SetNodeID(node[:])
			if (i/8)%2 == 0 {
				a.SetTime(wt)
			}
			if before := a.GetTime(); a.Time != u || !before.Equal(wt) {
				r.Violation("uuid_v1.GetTime:after-other-setters:"+reg, fmt.Sprintf("SetTime(%s) and the other setters (time first: %v): Time=%d GetTime()=%s", fmtRef(wsec, wnsec), (i/8)%2 == 1, a.Time, fmtT(before)), cs2)
			}
			var err error
			if i%2 == 0 {
				var m []byte
				if m, err = a.Marshal(); err == nil {
					_, err = b.Unmarshal(m)
				}
			} else {
				err = b.FromString(a.String())
			}
			r.Eval(1)
			// formatting reads the value: the time set is still the time got
			if after := a.GetTime(); a.Time != u || !after.Equal(wt) {
				r.Violation("uuid_v1.GetTime:after-formatting:"+reg, fmt.Sprintf("SetTime(%s), then Marshal/String: Time=%d GetTime()=%s", fmtRef(wsec, wnsec), a.Time, fmtT(after)), cs2)
			}
			if err != nil {
				r.Violation("uuid_v1.roundtrip:time:error", fmt.Sprintf("timestamp %s does not survive format and parse: %v", tk, err), cs2)
			} else if got := b.GetTime(); b.Time != u || !sameInstant(got, wsec, wnsec) {
				r.Violation("uuid_v1.roundtrip:time:"+reg, fmt.Sprintf("timestamp %s set, formatted and parsed (clock_seq %#x): Time=%d GetTime()=%s want %s", tk, cseq, b.Time, fmtT(got), fmtRef(wsec, wnsec)), cs2)
			}
		})
		guard("uuid_v2.roundtrip", cs2, func() {
			var a, b uuid_v2.UUIDv2
			a.UUID.Variant = 0x8
			// the setters in either order: the time set does not depend on when the others are called
			if (i/8)%2 == 1 {
				a.SetTime(wt)
			}
			a.SetClock(clock)
			a.SetLocalDomain(ld)
			a.SetLocalDomainNumber(ldn)
			a.SetNodeID(node[:])
			if (i/8)%2 == 0 {
				a.SetTime(wt)
			}
			if before := a.GetTime(); a.Time != u || !before.Equal(wt) {
				r.Violation("uuid_v2.GetTime:after-other-setters:"+reg, fmt.Sprintf("SetTime(%s) and the other setters (time first: %v): Time=%d GetTime()=%s", fmtRef(wsec, wnsec), (i/8)%2 == 1, a.Time, fmtT(before)), cs2)
			}
			var err error
			if i%2 == 0 {
				var m []byte
				if m, err = a.Marshal(); err == nil {
					_, err = b.Unmarshal(m)
				}
			} else {
				err = b.FromString(a.String())
			}
			r.Eval(1)
			// formatting reads the value: the time set is still the time got
			if after := a.GetTime(); a.Time != u || !after.Equal(wt) {
				r.Violation("uuid_v2.GetTime:after-formatting:"+reg, fmt.Sprintf("SetTime(%s), then Marshal/String: Time=%d GetTime()=%s", fmtRef(wsec, wnsec), a.Time, fmtT(after)), cs2)
			}
			// a version-2 UUID carries the upper 28 bits of the timestamp (2^32 ticks, about 7
			// minutes, resolution): exactly those bits must come back
			want := u &^ 0xFFFFFFFF
			if err != nil {
				r.Violation("uuid_v2.roundtrip:time:error", fmt.Sprintf("timestamp %s does not survive format and parse: %v", tk, err), cs2)
			} else if b.Time != want {
				r.Violation("uuid_v2.roundtrip:time:"+reg, fmt.Sprintf("timestamp %s set, formatted and parsed (clock %#x, local domain %#x): Time=%#x want %#x", tk, clock, ld, b.Time, want), cs2)
			}
		})
	}
	nontrivial("uuid.ticks", tk, d1582, boundary)
	sampleEvery(i, 19997, func() any {
		return map[string]any{"kind": "UUID v1/v2 timestamp->time", "timestamp": tk.String(), "time": fmtRef(wsec, wnsec)}
	})
}

func checkUUIDFromTime(tk *big.Int, variant int, sub int64, boundary bool) {
	t, ok := goTime(tk, d1582, variant)
	if !ok {
		return
	}
	t = t.Add(time.Duration(sub))
	cs := map[string]any{"timestamp": tk.String(), "time": t.Format(time.RFC3339Nano), "zone_variant": variant % 6, "subtick_ns": sub}
	reg := regionSub(tk, d1582, sub)
	judge := func(entry string, got uint64) {
		g := new(big.Int).SetUint64(got)
		r.Eval(1)
		if sub == 0 {
			if g.Cmp(tk) != 0 {
				r.Violation(entry+":value:"+reg, fmt.Sprintf("time %s: Time=%s want %s", fmtT(t), g, tk), cs)
			}
			return
		}
		up := new(big.Int).Add(tk, big.NewInt(1))
		if g.Cmp(tk) != 0 && g.Cmp(up) != 0 {
			r.Violation(entry+":subtick:"+reg, fmt.Sprintf("time %s: Time=%s want %s or %s", fmtT(t), g, tk, up), cs)
		}
		observeRounding(entry, sub, g.Cmp(up) == 0, fmt.Sprintf("%s (+%d ns) -> %s", fmtRefTicks(tk, d1582), sub, g), cs)
	}
	guard("uuid_v1.SetTime", cs, func() {
		var a uuid_v1.UUIDv1
		a.SetTime(t)
		judge("uuid_v1.SetTime", a.Time)
	})
	guard("uuid_v2.SetTime", cs, func() {
		var a uuid_v2.UUIDv2
		a.SetTime(t)
		judge("uuid_v2.SetTime", a.Time)
	})
	nontrivial("uuid.time", tk, d1582, boundary)
}

func familyUUID() {
	rng := r.Rand("uuid")
	lo, hi := big.NewInt(0), uuidHi
	i := 0
	for _, tk := range boundaryTicks(lo, hi, d1582) {
		checkUUIDTicks(tk, true, i)
		for v := 0; v < 6; v++ {
			checkUUIDFromTime(tk, v, 0, true)
		}
		checkUUIDFromTime(tk, 1, 1, true)
		checkUUIDFromTime(tk, 1, 99, true)
		i++
	}
	r.Sample(map[string]any{"kind": "UUID max 60-bit timestamp", "timestamp": uuidHi.String(), "time": fmtRefTicks(uuidHi, d1582)})
	n := r.Pick(150000, 1500000)
	for j := 0; j < n; j++ {
		tk := randTicks(rng, lo, hi, d1582)
		checkUUIDTicks(tk, false, i+j)
		sub := int64(0)
		if j%5 == 0 {
			sub = int64(1 + rng.IntN(99))
		}
		checkUUIDFromTime(randTicks(rng, lo, hi, d1582), j, sub, false)
	}
}

func main() {
	r = mon.Start("C15", "exploration")
	// the process's local zone is not UTC (and not a whole number of hours): code that builds or
	// reads an instant through time.Local where UTC is meant shifts every result
	time.Local = time.FixedZone("VERIF-0930", -(9*3600 + 30*60))
	r.Rule("Each conversion (FILETIME, LDAP timestamp/duration, key-credential DateTime, UUID v1/v2 timestamp) in both directions on boundary values (0, +-1, both epochs, every multiple of the int64-nanosecond wrap, 2^k and 2^k-1, type extremes, sentinels) and seeded random values over the whole representable domain; Go times in four zones and two constructions. Non-trivial: a boundary value, or a value outside 1970..2100 (the only span the repository's tests touch), counted once per (conversion family, 2^48-tick bucket = 325 days); malformed decimal strings each once. State monitors (state.go): one FILETIME / UUIDv1 / UUIDv2 object reused over chains of boundary and seeded values (never-sentinel before 0), fields assigned directly and read with no call in between, caller buffers overwritten after parsing, returned slices held and re-compared, and 8 goroutines converting unrelated values through every conversion; each chain element counts once.")
	r.Assume(
		"math/big, strconv and the time package of the Go standard library are correct (time.Unix/Unix()/Nanosecond() are the bridge between big-integer arithmetic and time.Time)",
		"the 1601 and 1582 epoch offsets are recomputed from civil day counts (134774 and 141427 days before 1970-01-01) and must equal the published constants, else inconclusive",
		"FILETIME domain is ticks 0..2^63-1 (ToInt64 is a signed API); for top-bit-set values no particular reading is demanded, only no panic and that NewFILETIMEFromTime(GetTime(x)) gives x back",
		"NewDateTime(0) is the documented 'now' sentinel and is not judged",
		"ConvertLDAPTimeStampToUnixTimeStamp below 1970: the documented clamp to 0 is accepted as well as the exact value",
		"ConvertUnixTimeStampToLDAPTimeStamp: the documented whole-second result is accepted as well as the exact tick count",
		"time->ticks with a sub-100ns remainder: floor or floor+1 accepted (no rounding mode is stated)",
		"ConvertSecondsToLDAPDuration outside |s|*10^7 <= 2^63-1 has no representable 64-bit interval: only absence of panic is required",
	)
	if !refSelfCheck() {
		r.Inconclusive("reference epoch constants disagree with civil day counts")
	}
	// race side run (./check builds this monitor with -race): only the workloads in which goroutines
	// use the library at the same time; the detector's reports are filed by Finish
	if mon.SideRace() {
		stateMonitors()
		r.Finish()
	}
	var wg sync.WaitGroup
	for _, f := range []func(){familyFILETIME, familyLDAP, familyDateTime, familyUUID, stateMonitors /* state.go */} {
		wg.Add(1)
		go func() { defer wg.Done(); f() }()
	}
	wg.Wait()
	r.Finish()
}
