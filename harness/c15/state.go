package main

// State-carry-over and aliasing monitors for C15.
//
// The families of main.go build a fresh object for every value. Here:
//
//	receiver reuse - ONE FILETIME is the Unmarshal target for a chain of tick values (never-sentinel before 0,
//	                 2^32 boundaries, seeded), ONE UUIDv1 and ONE UUIDv2 receive SetTime for a chain of times
//	                 (far future before 1582, ...): every reading must be what a fresh object gives (the
//	                 expected values come from ref.go);
//	stale fields   - DwLowDateTime/DwHighDateTime (FILETIME) and Time (UUID) are assigned directly and
//	                 GetTime/GetUnixTimestamp/GetTimeString/Marshal are called with no call in between;
//	input scribble - the 8 bytes handed to FILETIME.Unmarshal / ConvertFromBinaryTime are overwritten afterwards;
//	held outputs   - slices returned by FILETIME.Marshal, DateTime.ToBytes and ConvertToBinaryTime are kept
//	                 (ring of 64) and compared again later;
//	concurrent     - 8 goroutines convert unrelated values through the pure conversion/formatting functions and
//	                 must get the values of the arbitrary-precision reference (the single-caller values).

import (
	"bytes"
	"encoding/binary"
	"fmt"
	"math/big"
	"strconv"
	"sync"
	"time"

	"github.com/TheManticoreProject/Manticore/crypto/uuid/uuid_v1"
	"github.com/TheManticoreProject/Manticore/crypto/uuid/uuid_v2"
	"github.com/TheManticoreProject/Manticore/network/ldap"
	kckey "github.com/TheManticoreProject/Manticore/windows/keycredential/key"
	kcutils "github.com/TheManticoreProject/Manticore/windows/keycredential/utils"
	ds "github.com/TheManticoreProject/Manticore/windows/ms_dtyp/common/data_structures"

	"verif/mon"
)

type heldOut struct {
	entry, input string
	out, want    []byte
}

type heldRing struct {
	mu   sync.Mutex
	ring [64]*heldOut
	n    int
}

func (h *heldRing) verify(e *heldOut, when string) {
	if e == nil {
		return
	}
	r.Eval(1)
	if !bytes.Equal(e.out, e.want) {
		r.Violation(e.entry+":held-output-changed", fmt.Sprintf("the slice returned by %s for %s read %x when it was returned and reads %x %s", e.entry, e.input, e.want, e.out, when),
			map[string]any{"entry": e.entry, "input": e.input, "returned": mon.FullHex(e.want), "now": mon.FullHex(e.out), "when": when})
		e.want = append([]byte{}, e.out...)
	}
}

func (h *heldRing) hold(entry string, out []byte, input string) {
	h.mu.Lock()
	defer h.mu.Unlock()
	e := &heldOut{entry: entry, input: input, out: out, want: append([]byte{}, out...)}
	slot := h.n % len(h.ring)
	h.verify(h.ring[slot], "64 calls later")
	if h.n > 0 {
		h.verify(h.ring[(h.n-1)%len(h.ring)], "after the next call")
	}
	h.ring[slot] = e
	h.n++
}

func (h *heldRing) final() {
	h.mu.Lock()
	defer h.mu.Unlock()
	for _, e := range h.ring {
		h.verify(e, "at the end of the run")
	}
}

var held heldRing

const ftLayout = "2006-01-02 15:04:05.00000"

// readFILETIME judges every reading of ft against the reference for tick value tk; class is the
// failure class of the key (reused-receiver / stale-fields).
func readFILETIME(ft *ds.FILETIME, tk *big.Int, class, how string, cs map[string]any) {
	wsec, wnsec, _ := refInstant(tk, d1601)
	if got := ft.ToInt64(); big.NewInt(got).Cmp(tk) != 0 {
		r.Violation("FILETIME.ToInt64:"+class, fmt.Sprintf("%s: ToInt64()=%d want %s", how, got, tk), cs)
	}
	if got := ft.GetTime(); !sameInstant(got, wsec, wnsec) {
		r.Violation("FILETIME.GetTime:"+class, fmt.Sprintf("%s: GetTime()=%s want %s", how, fmtT(got), fmtRef(wsec, wnsec)), cs)
	}
	if u := ft.GetUnixTimestamp(); u != wsec {
		r.Violation("FILETIME.GetUnixTimestamp:"+class, fmt.Sprintf("%s: GetUnixTimestamp()=%d want %d", how, u, wsec), cs)
	}
	want := time.Unix(wsec, wnsec).UTC().Format(ftLayout)
	if s := ft.GetTimeString(); s != want {
		r.Violation("FILETIME.GetTimeString:"+class, fmt.Sprintf("%s: GetTimeString()=%q want %q", how, s, want), cs)
	}
	if s := ft.String(); s != want {
		r.Violation("FILETIME.String:"+class, fmt.Sprintf("%s: String()=%q want %q", how, s, want), cs)
	}
	b, err := ft.Marshal()
	var wantB [8]byte
	binary.LittleEndian.PutUint64(wantB[:], tk.Uint64())
	if err != nil || !bytes.Equal(b, wantB[:]) {
		r.Violation("FILETIME.Marshal:"+class, fmt.Sprintf("%s: Marshal()=%x,%v want %x", how, b, err, wantB), cs)
	}
	held.hold("FILETIME.Marshal", b, tk.String())
	r.Eval(6)
}

func filetimeChain(chain []*big.Int) {
	var ft ds.FILETIME
	prev := "nothing"
	for i, tk := range chain {
		cs := map[string]any{"ticks": tk.String(), "previous_in_same_target": prev}
		guard("FILETIME.Unmarshal", cs, func() {
			buf := make([]byte, 8, 12)
			binary.LittleEndian.PutUint64(buf, tk.Uint64())
			n, err := ft.Unmarshal(buf)
			for k := range buf {
				buf[k] = 0xAA
			}
			r.Eval(1)
			if err != nil || n != 8 {
				r.Violation("FILETIME.Unmarshal:reused-receiver:accept", fmt.Sprintf("Unmarshal(ticks %s) into a reused FILETIME = %d,%v", tk, n, err), cs)
				return
			}
			readFILETIME(&ft, tk, "reused-receiver", fmt.Sprintf("Unmarshal(ticks %s) into a FILETIME that had held %s", tk, prev), cs)
			// stale: assign the halves of another value directly, read with no call in between
			o := chain[(i*7+3)%len(chain)]
			u := o.Uint64()
			ft.DwLowDateTime, ft.DwHighDateTime = uint32(u), uint32(u>>32)
			cs2 := map[string]any{"ticks": o.String(), "object_had_parsed": tk.String()}
			readFILETIME(&ft, o, "stale-fields", fmt.Sprintf("fields assigned to ticks %s on a FILETIME that had parsed %s", o, tk), cs2)
			// only one half changes
			ft.DwLowDateTime = uint32(tk.Uint64())
			mixed := new(big.Int).SetUint64(u&^0xFFFFFFFF | uint64(uint32(tk.Uint64())))
			readFILETIME(&ft, mixed, "stale-fields", fmt.Sprintf("DwLowDateTime assigned alone (ticks now %s)", mixed), cs2)
		})
		prev = tk.String()
		r.Nontrivial("ft-chain|" + tk.String() + "|" + strconv.Itoa(i%4))
	}
}

func uuidChain(chain []*big.Int) {
	var a uuid_v1.UUIDv1
	var b uuid_v2.UUIDv2
	prev := "nothing"
	for i, tk := range chain {
		u := tk.Uint64()
		wsec, wnsec, _ := refInstant(tk, d1582)
		wt := time.Unix(wsec, wnsec)
		cs := map[string]any{"timestamp": tk.String(), "previous_in_same_object": prev}
		guard("uuid.SetTime", cs, func() {
			if i%2 == 0 {
				a.SetTime(wt)
				b.SetTime(wt)
				r.Eval(2)
				if a.Time != u {
					r.Violation("uuid_v1.SetTime:reused-receiver", fmt.Sprintf("SetTime(%s) on an object that held %s: Time=%d want %s", fmtRef(wsec, wnsec), prev, a.Time, tk), cs)
					a.Time = u
				}
				if b.Time != u {
					r.Violation("uuid_v2.SetTime:reused-receiver", fmt.Sprintf("SetTime(%s) on an object that held %s: Time=%d want %s", fmtRef(wsec, wnsec), prev, b.Time, tk), cs)
					b.Time = u
				}
			} else {
				a.Time, b.Time = u, u // direct assignment, GetTime with no call in between
			}
			class := []string{"reused-receiver", "stale-fields"}[i%2]
			for rep := 0; rep < 2; rep++ {
				if got := a.GetTime(); !sameInstant(got, wsec, wnsec) {
					r.Violation("uuid_v1.GetTime:"+class, fmt.Sprintf("timestamp %s on an object that held %s: GetTime()=%s want %s", tk, prev, fmtT(got), fmtRef(wsec, wnsec)), cs)
				}
				if got := b.GetTime(); !sameInstant(got, wsec, wnsec) {
					r.Violation("uuid_v2.GetTime:"+class, fmt.Sprintf("timestamp %s on an object that held %s: GetTime()=%s want %s", tk, prev, fmtT(got), fmtRef(wsec, wnsec)), cs)
				}
				r.Eval(2)
			}
		})
		prev = tk.String()
		r.Nontrivial("uuid-chain|" + tk.String() + "|" + strconv.Itoa(i%2))
	}
}

func dateTimeHeld(chain []*big.Int) {
	for i, tk := range chain {
		if tk.Sign() == 0 {
			continue
		}
		u := tk.Uint64()
		wsec, wnsec, _ := refInstant(tk, d1601)
		var raw [8]byte
		binary.LittleEndian.PutUint64(raw[:], u)
		ver := kckey.KeyCredentialVersion{Value: kcVersions[i%len(kcVersions)]}
		src := kcSources[(i/4)%2]
		cs := map[string]any{"ticks": tk.String()}
		guard("keycredential.DateTime", cs, func() {
			buf := append([]byte{}, raw[:]...)
			dt := kcutils.ConvertFromBinaryTime(buf, src, ver)
			for k := range buf {
				buf[k] = 0xAA
			}
			r.Eval(1)
			if dt.Ticks != u || !sameInstant(dt.Time, wsec, wnsec) {
				r.Violation("keycredential.ConvertFromBinaryTime:input-aliased", fmt.Sprintf("ticks %s: after the caller's 8 bytes were overwritten the DateTime reads Ticks=%d Time=%s", tk, dt.Ticks, fmtT(dt.Time)), cs)
			}
			b := dt.ToBytes()
			if !bytes.Equal(b, raw[:]) {
				r.Violation("DateTime.ToBytes:sequence:value", fmt.Sprintf("ticks %s: ToBytes()=%x", tk, b), cs)
			}
			held.hold("DateTime.ToBytes", b, tk.String())
			// stale: Ticks assigned directly
			o := chain[(i*5+1)%len(chain)].Uint64()
			dt.Ticks = o
			var wantO [8]byte
			binary.LittleEndian.PutUint64(wantO[:], o)
			if b2 := dt.ToBytes(); !bytes.Equal(b2, wantO[:]) || dt.ToTicks() != o {
				r.Violation("DateTime.ToBytes:stale-fields", fmt.Sprintf("Ticks=%d assigned on a DateTime built for %s: ToBytes()=%x ToTicks()=%d", o, tk, b2, dt.ToTicks()), cs)
			}
			c := kcutils.ConvertToBinaryTime(time.Unix(wsec, wnsec), src, ver)
			r.Eval(3)
			if !bytes.Equal(c, raw[:]) {
				r.Violation("keycredential.ConvertToBinaryTime:sequence:value", fmt.Sprintf("time %s: got %x want %x", fmtRef(wsec, wnsec), c, raw), cs)
			}
			held.hold("keycredential.ConvertToBinaryTime", c, tk.String())
		})
	}
}

// ---------------------------------------------------------------------------------
// concurrent callers

type convJob struct {
	tk    *big.Int // FILETIME / LDAP / DateTime ticks (0 < tk < 2^63)
	uts   *big.Int // UUID timestamp (60 bits)
	dur   *big.Int // LDAP interval (int64)
	secs  int64    // seconds for ConvertSecondsToLDAPDuration (in domain)
	wsec  int64
	wnsec int64
	usec  int64
	unsec int64
}

func concurrentConversions(jobs []convJob) {
	var wg sync.WaitGroup
	for w := 0; w < 8; w++ {
		wg.Add(1)
		go func() {
			defer wg.Done()
			for x := range jobs {
				j := jobs[(x+w*len(jobs)/8)%len(jobs)]
				cs := map[string]any{"ticks": j.tk.String(), "uuid_timestamp": j.uts.String(), "duration": j.dur.String(), "seconds": j.secs, "callers": 8}
				guard("concurrent", cs, func() {
					bad := func(entry, msg string) {
						r.Violation(entry+":concurrent-callers", "8 goroutines converting unrelated values: "+msg, cs)
					}
					t := time.Unix(j.wsec, j.wnsec)
					ft := ds.NewFILETIMEFromTime(t)
					if big.NewInt(ft.ToInt64()).Cmp(j.tk) != 0 {
						bad("FILETIME.NewFILETIMEFromTime", fmt.Sprintf("time %s -> ticks %d want %s", fmtT(t), ft.ToInt64(), j.tk))
					}
					f2 := ftFromTicks(j.tk)
					if got := f2.GetTime(); !sameInstant(got, j.wsec, j.wnsec) {
						bad("FILETIME.GetTime", fmt.Sprintf("ticks %s -> %s", j.tk, fmtT(got)))
					}
					if s, want := f2.GetTimeString(), t.UTC().Format(ftLayout); s != want {
						bad("FILETIME.GetTimeString", fmt.Sprintf("ticks %s -> %q want %q", j.tk, s, want))
					}
					var raw [8]byte
					binary.LittleEndian.PutUint64(raw[:], j.tk.Uint64())
					if b, _ := f2.Marshal(); !bytes.Equal(b, raw[:]) {
						bad("FILETIME.Marshal", fmt.Sprintf("ticks %s -> %x", j.tk, b))
					}
					// LDAP
					wantUnix := j.wsec
					if got := ldap.ConvertLDAPTimeStampToUnixTimeStamp(j.tk.String()); got != wantUnix && !(j.tk.Cmp(d1601) < 0 && got == 0) {
						bad("ldap.ConvertLDAPTimeStampToUnixTimeStamp", fmt.Sprintf("%s -> %d want %d", j.tk, got, wantUnix))
					}
					wantDur := new(big.Int).Abs(j.dur)
					wantDur.Quo(wantDur, bigE7)
					if got := ldap.ConvertLDAPDurationToSeconds(j.dur.String()); big.NewInt(got).Cmp(wantDur) != 0 {
						bad("ldap.ConvertLDAPDurationToSeconds", fmt.Sprintf("%s -> %d want %s", j.dur, got, wantDur))
					}
					if got, want := ldap.ConvertSecondsToLDAPDuration(j.secs), new(big.Int).Mul(big.NewInt(j.secs), bigE7).String(); got != want {
						bad("ldap.ConvertSecondsToLDAPDuration", fmt.Sprintf("%d -> %q want %q", j.secs, got, want))
					}
					secTicks := new(big.Int).Mul(big.NewInt(j.wsec), bigE7)
					secTicks.Add(secTicks, d1601)
					if got := big.NewInt(ldap.ConvertUnixTimeStampToLDAPTimeStamp(t)); got.Cmp(secTicks) != 0 && got.Cmp(j.tk) != 0 {
						bad("ldap.ConvertUnixTimeStampToLDAPTimeStamp", fmt.Sprintf("time %s -> %s want %s", fmtT(t), got, secTicks))
					}
					// key-credential DateTime
					dt := kcutils.NewDateTime(j.tk.Uint64())
					if dt.Ticks != j.tk.Uint64() || !sameInstant(dt.Time, j.wsec, j.wnsec) || !bytes.Equal(dt.ToBytes(), raw[:]) {
						bad("keycredential.NewDateTime", fmt.Sprintf("ticks %s -> Ticks=%d Time=%s", j.tk, dt.Ticks, fmtT(dt.Time)))
					}
					ver := kckey.KeyCredentialVersion{Value: kcVersions[x%len(kcVersions)]}
					if b := kcutils.ConvertToBinaryTime(t, kcSources[x%2], ver); !bytes.Equal(b, raw[:]) {
						bad("keycredential.ConvertToBinaryTime", fmt.Sprintf("time %s -> %x want %x", fmtT(t), b, raw))
					}
					if d2 := kcutils.ConvertFromBinaryTime(raw[:], kcSources[x%2], ver); d2.Ticks != j.tk.Uint64() || !sameInstant(d2.Time, j.wsec, j.wnsec) {
						bad("keycredential.ConvertFromBinaryTime", fmt.Sprintf("ticks %s -> Ticks=%d Time=%s", j.tk, d2.Ticks, fmtT(d2.Time)))
					}
					// UUID
					ut := time.Unix(j.usec, j.unsec)
					var a uuid_v1.UUIDv1
					a.SetTime(ut)
					if a.Time != j.uts.Uint64() || !a.GetTime().Equal(ut) {
						bad("uuid_v1.SetTime", fmt.Sprintf("time %s -> Time=%d want %s", fmtT(ut), a.Time, j.uts))
					}
					var b2 uuid_v2.UUIDv2
					b2.Time = j.uts.Uint64()
					if got := b2.GetTime(); !sameInstant(got, j.usec, j.unsec) {
						bad("uuid_v2.GetTime", fmt.Sprintf("timestamp %s -> %s", j.uts, fmtT(got)))
					}
					r.Eval(14)
				})
			}
		}()
	}
	wg.Wait()
	r.Nontrivial(fmt.Sprintf("concurrent|%d", len(jobs)))
}

// ---------------------------------------------------------------------------------

func stateMonitors() {
	rng := r.Rand("state")
	// FILETIME chain: never-sentinel before 0, then the boundary set, then seeded values
	ftChain := []*big.Int{ftHi, big.NewInt(0), ftHi, big.NewInt(1), bi("4294967295"), bi("4294967296"), bi("9223372032559808512"), bi("133920597255298050"), big.NewInt(0)}
	ftChain = append(ftChain, boundaryTicks(big.NewInt(0), ftHi, d1601)...)
	n := r.Pick(20000, 200000)
	for i := 0; i < n; i++ {
		ftChain = append(ftChain, randTicks(rng, big.NewInt(0), ftHi, d1601))
	}
	filetimeChain(ftChain)
	uuChain := []*big.Int{uuidHi, big.NewInt(0), uuidHi, big.NewInt(1), d1582, bi("133920597255298050")}
	uuChain = append(uuChain, boundaryTicks(big.NewInt(0), uuidHi, d1582)...)
	for i := 0; i < n; i++ {
		uuChain = append(uuChain, randTicks(rng, big.NewInt(0), uuidHi, d1582))
	}
	uuidChain(uuChain)
	dtChain := append([]*big.Int{u64Hi, big.NewInt(1), u64Hi}, boundaryTicks(big.NewInt(1), u64Hi, d1601)...)
	for i := 0; i < n; i++ {
		dtChain = append(dtChain, randTicks(rng, big.NewInt(1), u64Hi, d1601))
	}
	dateTimeHeld(dtChain)

	// concurrent callers: boundary values first, then seeded
	secLim := new(big.Int).Quo(i64Hi, bigE7).Int64()
	var jobs []convJob
	mk := func(tk, uts, dur *big.Int, secs int64) {
		j := convJob{tk: tk, uts: uts, dur: dur, secs: secs}
		j.wsec, j.wnsec, _ = refInstant(tk, d1601)
		j.usec, j.unsec, _ = refInstant(uts, d1582)
		jobs = append(jobs, j)
	}
	bt := boundaryTicks(big.NewInt(1), ftHi, d1601)
	bu := boundaryTicks(big.NewInt(0), uuidHi, d1582)
	bd := boundaryTicks(i64Lo, i64Hi, big.NewInt(0))
	for i := range bt {
		mk(bt[i], bu[i%len(bu)], bd[i%len(bd)], []int64{0, 1, -1, secLim, -secLim, 86400}[i%6])
	}
	m := r.Pick(30000, 300000)
	for i := 0; i < m; i++ {
		mk(randTicks(rng, big.NewInt(1), ftHi, d1601), randTicks(rng, big.NewInt(0), uuidHi, d1582), randTicks(rng, i64Lo, i64Hi, big.NewInt(0)), rng.Int64N(2*secLim+1)-secLim)
	}
	concurrentConversions(jobs)
	held.final()
	r.Count("held_outputs", held.n)
	r.Count("state_chain_values", len(ftChain)+len(uuChain)+len(dtChain))
	r.Count("concurrent_jobs_x8", len(jobs))
}
