// Package gen holds workload generators shared by the monitors.
package gen

import (
	"math/rand/v2"
	"strings"
)

var classes = [][2]rune{
	{0x20, 0x7E},         // ASCII printable
	{0xA1, 0xFF},         // Latin-1
	{0x100, 0x24F},       // Latin extended (cased)
	{0x391, 0x3C9},       // Greek (cased)
	{0x410, 0x44F},       // Cyrillic (cased)
	{0x4E00, 0x4FFF},     // CJK
	{0x300, 0x36F},       // combining marks
	{0x1F600, 0x1F64F},   // emoji (non-BMP)
	{0x10400, 0x1044F},   // Deseret (non-BMP, cased)
	{0xE000, 0xE0FF},     // private use
	{0xFF00, 0xFFEF},     // full-width
	{0xFFF0, 0xFFFF},     // specials incl. U+FFFD and noncharacters
	{0x10FFF0, 0x10FFFF}, // last supplementary code points
}

// ClassNames are the names of the Unicode classes used by UnicodeString.
var ClassNames = []string{"ascii", "latin1", "latinext", "greek", "cyrillic", "cjk", "combining", "emoji", "deseret", "pua", "fullwidth", "specials", "lastplane"}

// UnicodeString draws n code points; class < 0 mixes all classes.
func UnicodeString(r *rand.Rand, n int, class int) string {
	var sb strings.Builder
	for i := 0; i < n; i++ {
		c := class
		if c < 0 {
			c = r.IntN(len(classes))
		}
		lo, hi := classes[c][0], classes[c][1]
		sb.WriteRune(lo + rune(r.IntN(int(hi-lo+1))))
	}
	return sb.String()
}

// ASCII7 draws n bytes from 0x20..0x7E.
func ASCII7(r *rand.Rand, n int) string {
	b := make([]byte, n)
	for i := range b {
		b[i] = byte(0x20 + r.IntN(0x5F))
	}
	return string(b)
}

// Bytes draws n random bytes.
func Bytes(r *rand.Rand, n int) []byte {
	b := make([]byte, n)
	for i := range b {
		b[i] = byte(r.UintN(256))
	}
	return b
}

// Lengths returns a boundary-first length: small, boundary or random up to max.
func Length(r *rand.Rand, max int) int {
	switch r.IntN(6) {
	case 0:
		return 0
	case 1:
		return 1
	case 2:
		return r.IntN(8)
	case 3:
		return max
	}
	return r.IntN(max + 1)
}

// Shaped inputs: strings a convenience layer might be tempted to interpret instead of taking
// literally (hash spellings handed over as passwords, qualified logon names, ...). Every one of
// them is an ordinary member of the input domain of the functions that take a password, a user
// name or a domain name.
const hexNT = "31d6cfe0d16ae931b73c59d7e0c089c0"
const hexLM = "aad3b435b51404eeaad3b435b51404ee"

func ShapedSecrets() []string {
	return []string{
		hexNT, "31D6CFE0D16AE931B73C59D7E0C089C0", "0123456789abcdef0123456789ABCDEF",
		hexLM + ":" + hexNT, ":" + hexNT, hexNT + ":", hexLM + ":" + hexNT + ":::",
		"$NT$" + hexNT, "0x" + hexNT, "{hex}" + hexNT, "hex:" + hexNT, "#" + hexNT,
		"0123456789abcdef", hexNT + hexNT, hexNT[:31], hexNT + "0", hexNT[:31] + "g",
		"MDEyMzQ1Njc4OWFiY2RlZg==", "base64:cGFzc3dvcmQ=", "{SSHA}abc", "$1$salt$hash", "$6$x$y",
		" password", "password ", "password\n", "password\r\n", "\tpw", "pass\x00word", "\x00", "\x00abc",
		"'quoted'", "\"quoted\"", "${PASSWORD}", "$(id)", "%s", "file:///etc/passwd", "@file", "-", "--password",
		"null", "nil", "<nil>", "true", "0", "-1",
	}
}

func ShapedUsers() []string {
	return []string{
		"CORP\\alice", "ЛАБ\\Ольга", "\\alice", "alice\\", "a\\b\\c", ".\\alice", "CORP/alice", "/alice",
		"alice@corp.local", "alice@CORP", "@corp", "alice@", "a@b@c", "Ольга@лаб.рф",
		"alice$", "MACHINE$", "alice:1000", "alice:", ":alice", "alice%secret", "alice;x", "alice,bob",
		" alice", "alice ", "alice\n", "ali ce", "ali\x00ce", "'alice'", "\"alice\"",
		"guest", "Guest", "anonymous", "ANONYMOUS LOGON", "null", "-", "*", "?", "S-1-5-21-1-2-3-500",
		"cn=alice,dc=corp", hexNT,
	}
}

func ShapedDomains() []string {
	return []string{
		"", ".", "..", "WORKGROUP", "workgroup", "corp.local", "CORP.LOCAL.", ".corp", "CORP\\", "\\CORP", "corp@", "@corp",
		" ", "CORP ", " CORP", "BUILTIN", "NT AUTHORITY", "localhost", "127.0.0.1", "-", "*", "null",
	}
}

// CaseSpecials: letters whose upper-, title- and lower-case forms differ from one another in
// unusual ways (digraphs), leave their script block (Kelvin, Ohm, Angstrom signs, Georgian) or
// change encoded length (dotted/dotless i, long s, sharp s).
func CaseSpecials() []string {
	return []string{"ǆ", "ǅ", "Ǆ", "ǈemal", "ǋ", "ǲ", "Ǳ", "ქართული", "ᲥᲐᲠᲗᲣᲚᲘ", "ıi", "İI", "ſtudent", "µ", "ẞß", "Σς", "ᾳ", "ŉ", "Ÿÿ", "ﬁ", "Kelvin", "Ωhm", "Ångstrom"}
}
