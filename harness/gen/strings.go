// Package gen holds workload generators shared by the monitors.
package gen

import (
	"math/rand/v2"
	"strings"
)

var classes = [][2]rune{
	{0x20, 0x7E},         // ASCII printable
	{0xA1, 0xFF},         // Latin-1
	{0x100, 0x24F},       // Latin extended (cased)
	{0x391, 0x3C9},       // Greek (cased)
	{0x410, 0x44F},       // Cyrillic (cased)
	{0x4E00, 0x4FFF},     // CJK
	{0x300, 0x36F},       // combining marks
	{0x1F600, 0x1F64F},   // emoji (non-BMP)
	{0x10400, 0x1044F},   // Deseret (non-BMP, cased)
	{0xE000, 0xE0FF},     // private use
	{0xFF00, 0xFFEF},     // full-width
	{0xFFF0, 0xFFFF},     // specials incl. U+FFFD and noncharacters
	{0x10FFF0, 0x10FFFF}, // last supplementary code points
}

// ClassNames are the names of the Unicode classes used by UnicodeString.
var ClassNames = []string{"ascii", "latin1", "latinext", "greek", "cyrillic", "cjk", "combining", "emoji", "deseret", "pua", "fullwidth", "specials", "lastplane"}

// UnicodeString draws n code points; class < 0 mixes all classes.
func UnicodeString(r *rand.Rand, n int, class int) string {
	var sb strings.Builder
	for i := 0; i < n; i++ {
		c := class
		if c < 0 {
			c = r.IntN(len(classes))
		}
		lo, hi := classes[c][0], classes[c][1]
		sb.WriteRune(lo + rune(r.IntN(int(hi-lo+1))))
	}
	return sb.String()
}

// ASCII7 draws n bytes from 0x20..0x7E.
func ASCII7(r *rand.Rand, n int) string {
	b := make([]byte, n)
	for i := range b {
		b[i] = byte(0x20 + r.IntN(0x5F))
	}
	return string(b)
}

// Bytes draws n random bytes.
func Bytes(r *rand.Rand, n int) []byte {
	b := make([]byte, n)
	for i := range b {
		b[i] = byte(r.UintN(256))
	}
	return b
}

// Lengths returns a boundary-first length: small, boundary or random up to max.
func Length(r *rand.Rand, max int) int {
	switch r.IntN(6) {
	case 0:
		return 0
	case 1:
		return 1
	case 2:
		return r.IntN(8)
	case 3:
		return max
	}
	return r.IntN(max + 1)
}
