// C01: password-hash primitives equal their reference algorithms on every input.
package main

import (
	"bytes"
	"encoding/hex"
	"fmt"
	"strings"
	"sync"
	"sync/atomic"

	xmd4 "golang.org/x/crypto/md4"

	"github.com/TheManticoreProject/Manticore/crypto/dcc"
	"github.com/TheManticoreProject/Manticore/crypto/dcc2"
	"github.com/TheManticoreProject/Manticore/crypto/lm"
	"github.com/TheManticoreProject/Manticore/crypto/md4"
	"github.com/TheManticoreProject/Manticore/crypto/nt"
	"github.com/TheManticoreProject/Manticore/utils/encoding/utf16"

	"verif/gen"
	"verif/mon"
	"verif/ref"
)

var r *mon.Run

// refMD4 returns the digest two independent implementations agree on.
func refMD4(m []byte) [16]byte {
	a := ref.MD4(m)
	h := xmd4.New()
	h.Write(m)
	b := h.Sum(nil)
	if !bytes.Equal(a[:], b) {
		r.Inconclusive(fmt.Sprintf("reference MD4s disagree on %d-byte message", len(m)))
	}
	return a
}

func pattern(n int, salt byte) []byte {
	b := make([]byte, n)
	for i := range b {
		b[i] = byte(i*7+int(salt)) ^ byte(i>>8)
	}
	return b
}

// streamCase writes m cut at the given ascending offsets and compares the digest.
func streamCase(m []byte, cuts []int, want [16]byte) {
	var got [16]byte
	p, v, st := mon.Guard(func() {
		h := md4.New()
		prev := 0
		// every other case hands the chunks over in one scratch buffer that is overwritten after
		// each Write, as a read loop does: what was written is what counts
		scratch := make([]byte, 0, len(m)+1)
		reuse := (len(m)+len(cuts))%2 == 1
		feed := func(b []byte) (int, error) {
			if !reuse {
				return h.Write(b)
			}
			buf := append(scratch[:0], b...)
			n, err := h.Write(buf)
			for i := range buf {
				buf[i] = 0xA5
			}
			return n, err
		}
		for _, c := range cuts {
			n, err := feed(m[prev:c])
			if n != c-prev || err != nil {
				r.Violation("md4.Write:return", fmt.Sprintf("Write returned (%d,%v) for %d bytes", n, err, c-prev), nil)
			}
			prev = c
		}
		feed(m[prev:])
		got = h.Sum()
	})
	r.Eval(1)
	cs := map[string]any{"len": len(m), "cuts": cuts, "msg_hex": mon.FullHex(m)}
	if p {
		r.Violation("md4.stream:panic", fmt.Sprintf("panic %v at %s", v, mon.TopLibFrame(st)), cs)
		return
	}
	if got != want {
		r.Violation("md4.stream:digest", fmt.Sprintf("len=%d cuts=%v got %x want %x", len(m), cuts, got, want), cs)
	}
	cross := false
	for _, c := range cuts {
		if c%64 != 0 || (c%64 >= 56) {
			cross = true
		}
	}
	if len(cuts) > 0 && (cross || len(m) >= 56) {
		r.Nontrivial(fmt.Sprintf("stream|%d|%v", len(m), cuts))
	}
}

func md4Streaming() {
	rng := r.Rand("md4stream")
	maxLen := r.Pick(200, 330)
	for n := 0; n <= maxLen; n++ {
		m := pattern(n, byte(n))
		want := refMD4(m)
		// one-shot package-level Sum
		if got := md4.Sum(m); got != want {
			r.Violation("md4.Sum:digest", fmt.Sprintf("len=%d got %x want %x", n, got, want), map[string]any{"msg_hex": mon.FullHex(m)})
		}
		r.Eval(1)
		streamCase(m, nil, want)
		for c := 0; c <= n; c++ {
			streamCase(m, []int{c}, want)
		}
		// k-way cuts, seeded
		for t := 0; t < r.Pick(6, 40); t++ {
			k := 2 + rng.IntN(7)
			cuts := make([]int, k)
			for i := range cuts {
				cuts[i] = rng.IntN(n + 1)
			}
			sortInts(cuts)
			streamCase(m, cuts, want)
		}
		if n%40 == 0 {
			r.Sample(map[string]any{"kind": "md4-stream", "len": n, "two_way_cuts": n + 1, "digest": hex.EncodeToString(want[:])})
		}
	}
	// long messages, random chunkings
	sizes := []int{4096, 65535, 65536, 1 << 20}
	if r.Thorough() {
		sizes = append(sizes, 1<<24, 1<<26)
	}
	for _, n := range sizes {
		m := gen.Bytes(rng, n)
		want := refMD4(m)
		for t := 0; t < r.Pick(3, 6); t++ {
			var cuts []int
			for pos := 0; pos < n; {
				step := 1 + rng.IntN(1+rng.IntN(3*n/8+200))
				pos += step
				if pos < n {
					cuts = append(cuts, pos)
				}
				if len(cuts) > 4000 {
					break
				}
			}
			var got [16]byte
			h := md4.New()
			prev := 0
			for _, c := range cuts {
				h.Write(m[prev:c])
				prev = c
			}
			h.Write(m[prev:])
			got = h.Sum()
			r.Eval(1)
			if got != want {
				r.Violation("md4.stream:digest", fmt.Sprintf("long len=%d chunks=%d got %x want %x", n, len(cuts)+1, got, want), map[string]any{"len": n, "cuts": cuts, "seed_stream": "md4stream"})
			}
			r.Nontrivial(fmt.Sprintf("long|%d|%d|%d", n, len(cuts), t))
		}
	}
}

// md4Long: messages whose bit count does not fit 32 bits (RFC 1320 §3.2 appends a 64-bit
// count). The message is streamed in 1 MiB writes into the library and into two independent
// streaming references; digests are compared at checkpoints around 2^29 bytes = 2^32 bits.
func md4Long() {
	checks := []uint64{1<<29 - 1, 1 << 29, 1<<29 + 100}
	if r.Thorough() {
		checks = append(checks, 1<<30+17, 1<<32-1, 1<<32, 1<<32+64)
	}
	chunk := pattern(1<<20, 0x5C)
	h := md4.New()
	x := xmd4.New()
	s := ref.NewMD4Stream()
	// the streaming reference agrees with the whole-message one on short messages
	for _, n := range []int{0, 1, 55, 56, 63, 64, 65, 119, 120, 1000} {
		t := ref.NewMD4Stream()
		t.Write(chunk[:n/2])
		t.Write(chunk[n/2 : n])
		if t.Sum() != ref.MD4(chunk[:n]) {
			r.Inconclusive("streaming reference MD4 disagrees with the whole-message reference")
			return
		}
	}
	var pos uint64
	write := func(b []byte) {
		h.Write(b)
		x.Write(b)
		s.Write(b)
		pos += uint64(len(b))
	}
	for _, c := range checks {
		for pos < c {
			k := uint64(len(chunk))
			if c-pos < k {
				k = c - pos
			}
			write(chunk[:k])
		}
		var got [16]byte
		p, v, st := mon.Guard(func() { got = h.Sum() })
		r.Eval(1)
		cs := map[string]any{"len": c, "message": "pattern(1<<20, 0x5C) repeated, 1 MiB writes"}
		if p {
			r.Violation("md4.stream:panic", fmt.Sprintf("panic %v at %s", v, mon.TopLibFrame(st)), cs)
			return
		}
		want := s.Sum()
		if xs := x.Sum(nil); !bytes.Equal(xs, want[:]) {
			r.Inconclusive(fmt.Sprintf("reference MD4s disagree at %d bytes", c))
			return
		}
		if got != want {
			r.Violation("md4.stream:digest:long", fmt.Sprintf("len=%d (bit count %#x) got %x want %x", c, c*8, got, want), cs)
		}
		r.Nontrivial(fmt.Sprintf("verylong|%d", c))
	}
}

// md4Interleave: operation strings over {Write(chunk), Sum, HexSum}.
func md4Interleave() {
	rng := r.Rand("md4interleave")
	type op struct {
		kind int // 0 write, 1 Sum, 2 HexSum
		n    int
	}
	run := func(ops []op, m []byte, tag string) {
		h := md4.New()
		pos := 0
		reads := 0
		var trace []string
		bad := false
		p, v, st := mon.Guard(func() {
			for _, o := range ops {
				switch o.kind {
				case 0:
					h.Write(m[pos : pos+o.n])
					pos += o.n
					trace = append(trace, fmt.Sprintf("W%d", o.n))
				case 1, 2:
					want := refMD4(m[:pos])
					var got []byte
					if o.kind == 1 {
						d := h.Sum()
						got = d[:]
						trace = append(trace, "S")
					} else {
						got, _ = hex.DecodeString(h.HexSum())
						trace = append(trace, "H")
					}
					r.Eval(1)
					if !bytes.Equal(got, want[:]) && !bad {
						bad = true
						cls := "after-read"
						if reads == 0 {
							cls = "first-read"
						}
						r.Violation("md4.read:"+cls, fmt.Sprintf("ops=%s at prefix %d: got %x want %x (digest read #%d)", strings.Join(trace, ","), pos, got, want, reads+1),
							map[string]any{"ops": trace, "msg_hex": mon.FullHex(m)})
					}
					reads++
				}
			}
		})
		if p {
			r.Violation("md4.read:panic", fmt.Sprintf("panic %v at %s ops=%v", v, mon.TopLibFrame(st), trace), map[string]any{"ops": trace})
		}
		if reads >= 2 || (reads >= 1 && ops[len(ops)-1].kind != 0 && len(ops) > 2) {
			r.Nontrivial(tag + "|" + strings.Join(trace, ","))
		}
	}
	// deterministic: for each prefix length p in boundary set: W(p) S S ; W(p) S W(q) S ; W(p) H W(q) H S
	bounds := []int{0, 1, 3, 55, 56, 57, 63, 64, 65, 119, 120, 127, 128, 129}
	for _, p := range bounds {
		for _, q := range []int{0, 1, 8, 55, 56, 64, 73} {
			m := pattern(p+q, byte(p+3*q))
			run([]op{{0, p}, {1, 0}, {1, 0}}, m[:p], "det")
			run([]op{{0, p}, {1, 0}, {0, q}, {1, 0}}, m, "det")
			run([]op{{0, p}, {2, 0}, {0, q}, {2, 0}, {1, 0}}, m, "det")
			run([]op{{1, 0}, {0, p}, {0, q}, {2, 0}}, m, "det")
		}
	}
	for t := 0; t < r.Pick(3000, 60000); t++ {
		nops := 2 + rng.IntN(9)
		var ops []op
		total := 0
		for i := 0; i < nops; i++ {
			if rng.IntN(3) == 0 {
				ops = append(ops, op{1 + rng.IntN(2), 0})
			} else {
				n := []int{0, 1, 7, 8, 55, 56, 57, 63, 64, 65, rng.IntN(200)}[rng.IntN(11)]
				ops = append(ops, op{0, n})
				total += n
			}
		}
		ops = append(ops, op{1 + rng.IntN(2), 0})
		run(ops, gen.Bytes(rng, total), "rnd")
		if t%1000 == 0 {
			r.Sample(map[string]any{"kind": "md4-interleave", "ops": fmt.Sprint(ops)})
		}
	}
}

func isASCII7(s string) bool {
	for i := 0; i < len(s); i++ {
		if s[i] >= 0x80 {
			return false
		}
	}
	return true
}

func sortInts(a []int) {
	for i := 1; i < len(a); i++ {
		for j := i; j > 0 && a[j] < a[j-1]; j-- {
			a[j], a[j-1] = a[j-1], a[j]
		}
	}
}

func eqHex(got string, want []byte) bool { return strings.EqualFold(got, hex.EncodeToString(want)) }

func hashes() {
	rng := r.Rand("hashes")
	// UTF-16 encoder on its own
	checkPw := func(pw, user string, rounds int, tag string) {
		cs := map[string]any{"password": pw, "user": user, "rounds": rounds, "password_hex": hex.EncodeToString([]byte(pw)), "user_hex": hex.EncodeToString([]byte(user))}
		p, v, st := mon.Guard(func() {
			if got, want := utf16.EncodeUTF16LE(pw), ref.UTF16LE(pw); !bytes.Equal(got, want) {
				r.Violation("utf16.EncodeUTF16LE:value", fmt.Sprintf("EncodeUTF16LE(%q)=%x want %x", pw, got, want), cs)
			}
			wantNT := ref.NTHash(pw)
			if x := refMD4(ref.UTF16LE(pw)); x != wantNT {
				r.Inconclusive("ref NT mismatch")
			}
			if got := nt.NTHash(pw); got != wantNT {
				r.Violation("nt.NTHash:value", fmt.Sprintf("NTHash(%q)=%x want %x", pw, got, wantNT), cs)
			}
			if got := nt.NTHashHex(pw); !eqHex(got, wantNT[:]) {
				r.Violation("nt.NTHashHex:value", fmt.Sprintf("NTHashHex(%q)=%s want %x", pw, got, wantNT), cs)
			}
			r.Eval(3)
			// DCC
			wantD := ref.DCC1(wantNT, user)
			if got := dcc.DCCHashFromPassword(pw, user); got != wantD {
				r.Violation("dcc.DCCHashFromPassword:value", fmt.Sprintf("pw=%q user=%q got %x want %x", pw, user, got, wantD), cs)
			}
			if got := dcc.DCCHashFromNTHash(wantNT, user); got != wantD {
				r.Violation("dcc.DCCHashFromNTHash:value", fmt.Sprintf("user=%q got %x want %x", user, got, wantD), cs)
			}
			if got := dcc.DCCHashFromPasswordToHex(pw, user); !eqHex(got, wantD[:]) {
				r.Violation("dcc.DCCHashFromPasswordToHex:value", fmt.Sprintf("got %s want %x", got, wantD), cs)
			}
			if got := dcc.DCCHashFromNTHashToHex(wantNT, user); !eqHex(got, wantD[:]) {
				r.Violation("dcc.DCCHashFromNTHashToHex:value", fmt.Sprintf("got %s want %x", got, wantD), cs)
			}
			wantLine := hex.EncodeToString(wantD[:]) + ":" + strings.ToLower(user)
			if got := dcc.DCCHashFromPasswordToHashcatString(pw, user); !strings.EqualFold(got, wantLine) {
				r.Violation("dcc.DCCHashFromPasswordToHashcatString:form", fmt.Sprintf("got %q want %q", got, wantLine), cs)
			}
			if got := dcc.DCCHashFromNTHashToHashcatString(wantNT, user); !strings.EqualFold(got, wantLine) {
				r.Violation("dcc.DCCHashFromNTHashToHashcatString:form", fmt.Sprintf("got %q want %q", got, wantLine), cs)
			}
			r.Eval(6)
			// DCC2
			if rounds > 0 {
				want2 := ref.DCC2(wantNT, user, rounds)
				for i, got := range []string{dcc2.DCC2Hash(user, pw, rounds), dcc2.DCC2HashWithPassword(user, pw, rounds), dcc2.DCC2HashWithNTHash(user, wantNT, rounds)} {
					name := []string{"DCC2Hash", "DCC2HashWithPassword", "DCC2HashWithNTHash"}[i]
					// $DCC2$<rounds>#<user>#<hex>
					pre := fmt.Sprintf("$DCC2$%d#", rounds)
					ok := strings.HasPrefix(got, pre)
					if ok {
						rest := got[len(pre):]
						j := strings.LastIndex(rest, "#")
						ok = j >= 0 && strings.EqualFold(rest[:j], user) && eqHex(rest[j+1:], want2)
					}
					if !ok {
						r.Violation("dcc2."+name+":value", fmt.Sprintf("user=%q pw=%q rounds=%d got %q want hash %x", user, pw, rounds, got, want2), cs)
					}
					r.Eval(1)
				}
			}
		})
		if p {
			r.Violation("hashes:panic:"+mon.TopLibFrame(st), fmt.Sprintf("panic %v", v), cs)
		}
		r.Nontrivial(tag)
	}
	checkLM := func(pw string) {
		want := ref.LMHash(pw)
		cs := map[string]any{"password": pw}
		p, v, st := mon.Guard(func() {
			if got := lm.LMHash(pw); !bytes.Equal(got, want) {
				r.Violation("lm.LMHash:value", fmt.Sprintf("LMHash(%q)=%x want %x", pw, got, want), cs)
			}
			if got := lm.LMHashToHex(pw); !eqHex(got, want) {
				r.Violation("lm.LMHashToHex:value", fmt.Sprintf("LMHashToHex(%q)=%s want %x", pw, got, want), cs)
			}
		})
		if p {
			r.Violation("lm:panic:"+mon.TopLibFrame(st), fmt.Sprintf("panic %v", v), cs)
		}
		r.Eval(2)
		r.Nontrivial(fmt.Sprintf("lm|%d|%s", len(pw), pw))
	}
	// anchors (published vectors) — validate the references themselves
	if hex.EncodeToString(func() []byte { x := ref.NTHash("password"); return x[:] }()) != "8846f7eaee8fb117ad06bdd830b7586c" {
		r.Inconclusive("reference NT hash fails the published vector")
	}
	if hex.EncodeToString(ref.LMHash("password")) != "e52cac67419a9a224a3b108f3fa6cb6d" {
		r.Inconclusive("reference LM hash fails the published vector")
	}
	if x := ref.MD4([]byte("abc")); hex.EncodeToString(x[:]) != "a448017aaf21d8525fc10ae87aa6729d" {
		r.Inconclusive("reference MD4 fails RFC 1320 vector")
	}
	if x := ref.DCC2(ref.NTHash("hashcat"), "tom", 10240); hex.EncodeToString(x) != "e4e938d12fe5974dc42a90120bd9c90f" {
		r.Inconclusive(fmt.Sprintf("reference DCC2 fails the hashcat example vector: %x", x))
	}
	// LM: lengths 0..20, printable 7-bit ASCII, every byte value 0x01..0x7F at some position
	for n := 0; n <= 20; n++ {
		for t := 0; t < r.Pick(20, 400); t++ {
			checkLM(gen.ASCII7(rng, n))
		}
	}
	// NUL is a 7-bit character too: at every position, alone and in pairs, and in random
	// strings over the whole 7-bit range including NUL
	for pos := 0; pos < 16; pos++ {
		for _, base := range []string{"aaaaaaaaaaaaaaaa", "secretSECRET1234", "Zq9!Zq9!Zq9!Zq9!"} {
			for n := pos + 1; n <= 16; n++ {
				b := []byte(base[:n])
				b[pos] = 0
				checkLM(string(b))
				if pos+7 < n {
					b[pos+7] = 0
					checkLM(string(b))
				}
			}
		}
	}
	for t := 0; t < r.Pick(2000, 40000); t++ {
		b := make([]byte, rng.IntN(18))
		for i := range b {
			b[i] = byte(rng.IntN(0x80))
			if rng.IntN(5) == 0 {
				b[i] = 0
			}
		}
		checkLM(string(b))
	}
	for c := 1; c < 0x80; c++ {
		for pos := 0; pos < 14; pos += 3 {
			b := []byte("aaaaaaaaaaaaaa")
			b[pos] = byte(c)
			checkLM(string(b))
		}
	}
	r.Sample(map[string]any{"kind": "lm", "password": "aaaaaaaaaaaaaa", "lm": hex.EncodeToString(ref.LMHash("aaaaaaaaaaaaaa"))})
	// NT/DCC/DCC2
	roundsSet := []int{1, 2, 3, 10, 100, 1000, 10240}
	fixed := []string{"", "a", "A", "password", "Pässwörd", "пароль", "密码", "😀", "a😀b", "𐐀𐐨", "é", strings.Repeat("x", 27), strings.Repeat("y", 28), strings.Repeat("z", 32), strings.Repeat("é", 300)}
	// code-point boundaries: the replacement character itself is a valid code point, as are the
	// noncharacters, the last code point before and the first after the surrogate range, the first
	// and last supplementary code points, NUL and DEL
	fixed = append(fixed, "\uFFFD", "a\uFFFDb\uFFFD", "\uFFFE\uFFFF", "\uD7FF\uE000", "\U00010000\U0010FFFF", "\x00", "a\x00b\x7f", "\u0080\u07FF\u0800")
	users := []string{"", "tom", "TOM", "Administrator", "ÄDMIN", "Пользователь", "𐐀user", "user.name@corp"}
	users = append(users, "u\uFFFDser", "\U0010FFFFx", "tom%s", "100%")
	// strings a convenience layer might interpret (hash spellings, qualified names) are data
	fixed = append(fixed, gen.ShapedSecrets()...)
	users = append(users, gen.ShapedUsers()[:12]...)
	users = append(users, gen.CaseSpecials()...)
	for _, pw := range gen.ShapedSecrets() {
		if isASCII7(pw) {
			checkLM(pw)
		}
	}
	i := 0
	for _, pw := range fixed {
		for _, u := range users {
			rounds := roundsSet[i%len(roundsSet)]
			if rounds > 100 && i%5 != 0 && r.Quick() {
				rounds = 2
			}
			checkPw(pw, u, rounds, fmt.Sprintf("fixed|%d|%d|%d", len(pw), len(u), rounds))
			i++
		}
	}
	// requests whose parts run into each other when written side by side: an iteration count
	// followed by a user name that starts with digits ("10240"+"bob" = "1"+"0240bob"), a user name
	// that ends where the password begins; asked one after the other in one process
	for _, pw := range []string{"Passw0rd!", "1", ""} {
		for _, pair := range [][2]struct {
			rounds int
			user   string
		}{{{10240, "bob"}, {1, "0240bob"}}, {{1, "0240bob"}, {10240, "bob"}}, {{1, "7alice"}, {17, "alice"}}, {{102, "40bob"}, {1024, "0bob"}}, {{10, "0"}, {100, ""}}, {{2, "1x"}, {21, "x"}}} {
			for _, q := range pair {
				rounds := q.rounds
				if r.Quick() && rounds > 1100 && pw != "Passw0rd!" {
					continue
				}
				checkPw(pw, q.user, rounds, fmt.Sprintf("adjacent-parts|%d|%s|%d", rounds, q.user, len(pw)))
			}
		}
	}
	for _, pair := range [][2][2]string{{{"ab", "cuser"}, {"abc", "user"}}, {{"", "pwuser"}, {"pw", "user"}}, {{"pw:", "user"}, {"pw", ":user"}}} {
		for _, q := range pair {
			checkPw(q[0], q[1], 3, "adjacent-parts|pw-user")
		}
	}
	n := r.Pick(4000, 150000)
	for t := 0; t < n; t++ {
		pc, uc := rng.IntN(len(gen.ClassNames)+1)-1, rng.IntN(len(gen.ClassNames)+1)-1
		pl := []int{0, 1, 2, 13, 14, 15, 27, 28, 29, 31, 32, 33, rng.IntN(300)}[rng.IntN(13)]
		ul := rng.IntN(24)
		pw := gen.UnicodeString(rng, pl, pc)
		u := gen.UnicodeString(rng, ul, uc)
		if rng.IntN(3) == 0 { // mixed case ASCII user
			u = gen.ASCII7(rng, ul)
		}
		rounds := 0
		switch {
		case t%50 == 0:
			rounds = roundsSet[rng.IntN(len(roundsSet))]
		case t%7 == 0:
			rounds = 1 + rng.IntN(40)
		case t%997 == 0:
			rounds = 1 + rng.IntN(20000)
		}
		checkPw(pw, u, rounds, fmt.Sprintf("rnd|%d|%d|%d|%d|%d", pc, uc, pl, ul, rounds))
		if t%(n/4) == 0 {
			r.Sample(map[string]any{"kind": "nt/dcc/dcc2", "password": pw, "user": u, "rounds": rounds})
		}
	}
}

// concurrentCallers: independent hash computations on different goroutines must give the
// values a single caller gets (no shared scratch state between calls).
func concurrentCallers() {
	var wg sync.WaitGroup
	G := 8
	per := r.Pick(400, 6000)
	for g := 0; g < G; g++ {
		wg.Add(1)
		go func(g int) {
			defer wg.Done()
			rng := r.Rand(fmt.Sprintf("concurrent|%d", g))
			for i := 0; i < per; i++ {
				m := gen.Bytes(rng, rng.IntN(200))
				want := ref.MD4(m)
				h := md4.New()
				c := rng.IntN(len(m) + 1)
				h.Write(m[:c])
				h.Write(m[c:])
				if got := h.Sum(); got != want {
					r.Violation("md4.stream:digest:concurrent", fmt.Sprintf("len=%d cut=%d got %x want %x while other goroutines hash other messages", len(m), c, got, want), map[string]any{"msg_hex": mon.FullHex(m), "cut": c})
				}
				pw := gen.UnicodeString(rng, rng.IntN(20), -1)
				u := gen.UnicodeString(rng, rng.IntN(12), -1)
				nth := ref.NTHash(pw)
				if got := nt.NTHash(pw); got != nth {
					r.Violation("nt.NTHash:value:concurrent", fmt.Sprintf("NTHash(%q)=%x want %x under concurrent callers", pw, got, nth), map[string]any{"password": pw})
				}
				if got, want := dcc.DCCHashFromPassword(pw, u), ref.DCC1(nth, u); got != want {
					r.Violation("dcc.DCCHashFromPassword:value:concurrent", fmt.Sprintf("pw=%q user=%q got %x want %x under concurrent callers", pw, u, got, want), map[string]any{"password": pw, "user": u})
				}
				if i%16 == 0 {
					a := gen.ASCII7(rng, rng.IntN(15))
					if got, want := lm.LMHash(a), ref.LMHash(a); !bytes.Equal(got, want) {
						r.Violation("lm.LMHash:value:concurrent", fmt.Sprintf("LMHash(%q)=%x want %x under concurrent callers", a, got, want), map[string]any{"password": a})
					}
					want2 := ref.DCC2(nth, u, 3)
					if got := dcc2.DCC2HashWithNTHash(u, nth, 3); !strings.HasSuffix(strings.ToLower(got), hex.EncodeToString(want2)) {
						r.Violation("dcc2.DCC2HashWithNTHash:value:concurrent", fmt.Sprintf("got %q want hash %x under concurrent callers", got, want2), map[string]any{"password": pw, "user": u})
					}
				}
				r.Eval(3)
			}
		}(g)
	}
	wg.Wait()
	r.Count("concurrent_caller_goroutines", G)
}

// sharedReaders: one hash object, written by one goroutine; once it has finished, several
// goroutines read the digest of that object at the same time (reading does not change the object,
// so readers do not need to exclude each other), then the writer goes on. Every read is the digest
// of what had been written, and the later writes produce what they would have without the reads.
func sharedReaders() {
	const G = 8
	for run := 0; run < r.Pick(40, 400); run++ {
		rng := r.Rand(fmt.Sprintf("shared-readers|%d", run))
		m := pattern([]int{0, 1, 55, 56, 63, 64, 65, 119, 120, 128, 1000}[run%11]+rng.IntN(3)*64, byte(run))
		more := pattern(1+rng.IntN(130), byte(run+1))
		h := md4.New()
		h.Write(m)
		want := refMD4(m)
		var wrong atomic.Int64
		var first atomic.Value
		var wg sync.WaitGroup
		for g := 0; g < G; g++ {
			wg.Add(1)
			go func(g int) {
				defer wg.Done()
				for i := 0; i < 200; i++ {
					var got [16]byte
					if (g+i)%2 == 0 {
						got = h.Sum()
					} else {
						b, _ := hex.DecodeString(h.HexSum())
						copy(got[:], b)
					}
					if got != want {
						if wrong.Add(1) == 1 {
							first.Store(fmt.Sprintf("%x", got))
						}
					}
				}
			}(g)
		}
		wg.Wait()
		r.Eval(G * 200)
		cs := map[string]any{"msg_hex": mon.FullHex(m), "readers": G}
		if n := wrong.Load(); n > 0 {
			r.Violation("md4.read:concurrent-readers", fmt.Sprintf("%d of %d digest reads by %d goroutines of one object holding %d bytes gave another value (first %v, want %x)", n, G*200, G, len(m), first.Load(), want), cs)
		}
		h.Write(more)
		r.Eval(1)
		if got, w2 := h.Sum(), refMD4(append(append([]byte{}, m...), more...)); got != w2 {
			r.Violation("md4.read:after-concurrent-readers", fmt.Sprintf("after the readers, writing %d more bytes gives %x want %x", len(more), got, w2), cs)
		}
		r.Nontrivial(fmt.Sprintf("shared-readers|%d", len(m)))
	}
}

func main() {
	r = mon.Start("C01", "exploration")
	r.Rule("MD4: every length 0..N with every 2-way cut plus seeded k-way cuts and long random chunkings; digest-read/write operation strings; NT/LM/DCC/DCC2 on Unicode-class passwords/users/rounds. Non-trivial: a cut vector that crosses a 64-byte block or the 56-byte padding edge, an operation string with >=2 digest reads or a read followed by writes, a distinct (password class, user class, lengths, rounds) tuple.")
	r.Assume("crypto/des, crypto/sha1, crypto/hmac of the Go standard library are correct", "golang.org/x/crypto/md4 and the harness's RFC 1320 transcription must agree on every message (else inconclusive)", "lower-casing of user names uses Go's strings.ToLower in the reference as well (simple case mapping)", "DCC2 hashcat line: user field compared case-insensitively, hex compared case-insensitively")
	// race side run (./check builds this monitor with -race): only the workloads in which goroutines
	// use the library at the same time; the detector's reports are filed by Finish
	if mon.SideRace() {
		concurrentCallers()
		sharedReaders()
		r.Finish()
	}
	md4Streaming()
	md4Interleave()
	md4Long()
	hashes()
	concurrentCallers()
	sharedReaders()
	r.Finish()
}
