// Package ref holds the independent reference implementations the monitors
// compare the library against. Nothing here imports Manticore.
package ref

import (
	"encoding/binary"
	"math/bits"
)

// md4Compress applies the RFC 1320 §3.4 round structure to one 64-byte block.
func md4Compress(st *[4]uint32, blk []byte) {
	A, B, C, D := st[0], st[1], st[2], st[3]
	F := func(x, y, z uint32) uint32 { return (x & y) | (^x & z) }
	G := func(x, y, z uint32) uint32 { return (x & y) | (x & z) | (y & z) }
	H := func(x, y, z uint32) uint32 { return x ^ y ^ z }
	var X [16]uint32
	for j := 0; j < 16; j++ {
		X[j] = binary.LittleEndian.Uint32(blk[4*j:])
	}
	AA, BB, CC, DD := A, B, C, D
	// Round 1: [abcd k s]: a = (a + F(b,c,d) + X[k]) <<< s
	r1s := [4]int{3, 7, 11, 19}
	for i := 0; i < 16; i++ {
		v := []*uint32{&A, &D, &C, &B}[i%4]
		var b, c, d uint32
		switch i % 4 {
		case 0:
			b, c, d = B, C, D
		case 1:
			b, c, d = A, B, C
		case 2:
			b, c, d = D, A, B
		case 3:
			b, c, d = C, D, A
		}
		*v = bits.RotateLeft32(*v+F(b, c, d)+X[i], r1s[i%4])
	}
	r2s := [4]int{3, 5, 9, 13}
	r2k := [16]int{0, 4, 8, 12, 1, 5, 9, 13, 2, 6, 10, 14, 3, 7, 11, 15}
	for i := 0; i < 16; i++ {
		v := []*uint32{&A, &D, &C, &B}[i%4]
		var b, c, d uint32
		switch i % 4 {
		case 0:
			b, c, d = B, C, D
		case 1:
			b, c, d = A, B, C
		case 2:
			b, c, d = D, A, B
		case 3:
			b, c, d = C, D, A
		}
		*v = bits.RotateLeft32(*v+G(b, c, d)+X[r2k[i]]+0x5A827999, r2s[i%4])
	}
	r3s := [4]int{3, 9, 11, 15}
	r3k := [16]int{0, 8, 4, 12, 2, 10, 6, 14, 1, 9, 5, 13, 3, 11, 7, 15}
	for i := 0; i < 16; i++ {
		v := []*uint32{&A, &D, &C, &B}[i%4]
		var b, c, d uint32
		switch i % 4 {
		case 0:
			b, c, d = B, C, D
		case 1:
			b, c, d = A, B, C
		case 2:
			b, c, d = D, A, B
		case 3:
			b, c, d = C, D, A
		}
		*v = bits.RotateLeft32(*v+H(b, c, d)+X[r3k[i]]+0x6ED9EBA1, r3s[i%4])
	}
	A += AA
	B += BB
	C += CC
	D += DD
	st[0], st[1], st[2], st[3] = A, B, C, D
}

// MD4Stream is the same algorithm fed in pieces; the message length is kept as a 64-bit bit
// count as §3.2 demands.
type MD4Stream struct {
	st   [4]uint32
	buf  []byte
	bits uint64
}

func NewMD4Stream() *MD4Stream {
	return &MD4Stream{st: [4]uint32{0x67452301, 0xefcdab89, 0x98badcfe, 0x10325476}}
}

func (m *MD4Stream) Write(p []byte) {
	m.bits += uint64(len(p)) * 8
	if len(m.buf) > 0 {
		k := 64 - len(m.buf)
		if k > len(p) {
			k = len(p)
		}
		m.buf = append(m.buf, p[:k]...)
		p = p[k:]
		if len(m.buf) == 64 {
			md4Compress(&m.st, m.buf)
			m.buf = m.buf[:0]
		}
	}
	for len(p) >= 64 {
		md4Compress(&m.st, p[:64])
		p = p[64:]
	}
	m.buf = append(m.buf, p...)
}

// Sum returns the digest of what was written so far without changing the stream.
func (m *MD4Stream) Sum() [16]byte {
	st := m.st
	tail := append([]byte{}, m.buf...)
	tail = append(tail, 0x80)
	for len(tail)%64 != 56 {
		tail = append(tail, 0)
	}
	var lb [8]byte
	binary.LittleEndian.PutUint32(lb[0:], uint32(m.bits))     // low-order word first
	binary.LittleEndian.PutUint32(lb[4:], uint32(m.bits>>32)) // then the high-order word
	tail = append(tail, lb[:]...)
	for off := 0; off < len(tail); off += 64 {
		md4Compress(&st, tail[off:off+64])
	}
	var out [16]byte
	for i, v := range st {
		binary.LittleEndian.PutUint32(out[4*i:], v)
	}
	return out
}

// MD4 is a whole-message implementation transcribed from RFC 1320 §3.
func MD4(msg []byte) [16]byte {
	// step 1+2: padding
	n := len(msg)
	padded := make([]byte, 0, n+72)
	padded = append(padded, msg...)
	padded = append(padded, 0x80)
	for len(padded)%64 != 56 {
		padded = append(padded, 0)
	}
	var lb [8]byte
	binary.LittleEndian.PutUint64(lb[:], uint64(n)*8)
	padded = append(padded, lb[:]...)

	st := [4]uint32{0x67452301, 0xefcdab89, 0x98badcfe, 0x10325476}
	for off := 0; off < len(padded); off += 64 {
		md4Compress(&st, padded[off:off+64])
	}
	A, B, C, D := st[0], st[1], st[2], st[3]
	var out [16]byte
	binary.LittleEndian.PutUint32(out[0:], A)
	binary.LittleEndian.PutUint32(out[4:], B)
	binary.LittleEndian.PutUint32(out[8:], C)
	binary.LittleEndian.PutUint32(out[12:], D)
	return out
}

// UTF16LE encodes code points to UTF-16 little endian without unicode/utf16.
func UTF16LE(s string) []byte {
	var out []byte
	for _, r := range s { // invalid UTF-8 yields U+FFFD, like []rune(s)
		if r >= 0x10000 {
			r -= 0x10000
			hi := 0xD800 + (r>>10)&0x3FF
			lo := 0xDC00 + r&0x3FF
			out = append(out, byte(hi), byte(hi>>8), byte(lo), byte(lo>>8))
		} else {
			if r >= 0xD800 && r <= 0xDFFF {
				r = 0xFFFD
			}
			out = append(out, byte(r), byte(r>>8))
		}
	}
	return out
}
