package ref

import (
	"crypto/des"
	"crypto/hmac"
	"crypto/md5"
	"crypto/sha1"
	"encoding/binary"
	"strings"
)

// DESKey7to8 spreads 56 key bits over 8 bytes (bit 0 of every byte is the
// parity position) and sets odd parity, MS-NLMP §6 / FIPS 46-3.
func DESKey7to8(k7 []byte) []byte {
	var v uint64
	for i := 0; i < 7; i++ {
		v = v<<8 | uint64(k7[i])
	}
	out := make([]byte, 8)
	for i := 0; i < 8; i++ {
		seven := byte(v>>(uint(49-7*i))) & 0x7F
		b := seven << 1
		ones := 0
		for j := 0; j < 8; j++ {
			if b&(1<<uint(j)) != 0 {
				ones++
			}
		}
		if ones%2 == 0 {
			b |= 1
		}
		out[i] = b
	}
	return out
}

func desEnc(k7, block []byte) []byte {
	c, err := des.NewCipher(DESKey7to8(k7))
	if err != nil {
		panic(err)
	}
	out := make([]byte, 8)
	c.Encrypt(out, block)
	return out
}

// DESL(K, D) of MS-NLMP §6: K is 16 bytes, D is 8 bytes, result 24 bytes.
func DESL(k16, d8 []byte) []byte {
	k := make([]byte, 21)
	copy(k, k16)
	out := append([]byte{}, desEnc(k[0:7], d8)...)
	out = append(out, desEnc(k[7:14], d8)...)
	out = append(out, desEnc(k[14:21], d8)...)
	return out
}

// LMHash per MS-NLMP LMOWFv1 for 7-bit ASCII passwords.
func LMHash(password string) []byte {
	p := []byte(strings.ToUpper(password))
	k := make([]byte, 14)
	copy(k, p)
	magic := []byte("KGS!@#$%")
	return append(desEnc(k[:7], magic), desEnc(k[7:], magic)...)
}

func NTHash(password string) [16]byte { return MD4(UTF16LE(password)) }

// DCC1 = MD4(NT || UTF16LE(lower(user)))
func DCC1(nt [16]byte, user string) [16]byte {
	return MD4(append(append([]byte{}, nt[:]...), UTF16LE(strings.ToLower(user))...))
}

// PBKDF2-HMAC-SHA1 from RFC 2898 §5.2.
func PBKDF2SHA1(pw, salt []byte, iter, keyLen int) []byte {
	var out []byte
	for block := uint32(1); len(out) < keyLen; block++ {
		m := hmac.New(sha1.New, pw)
		m.Write(salt)
		var bi [4]byte
		binary.BigEndian.PutUint32(bi[:], block)
		m.Write(bi[:])
		u := m.Sum(nil)
		t := append([]byte{}, u...)
		for i := 1; i < iter; i++ {
			m = hmac.New(sha1.New, pw)
			m.Write(u)
			u = m.Sum(nil)
			for j := range t {
				t[j] ^= u[j]
			}
		}
		out = append(out, t...)
	}
	return out[:keyLen]
}

func DCC2(nt [16]byte, user string, rounds int) []byte {
	d1 := DCC1(nt, user)
	return PBKDF2SHA1(d1[:], UTF16LE(strings.ToLower(user)), rounds, 16)
}

func HMACMD5(key []byte, parts ...[]byte) []byte {
	m := hmac.New(md5.New, key)
	for _, p := range parts {
		m.Write(p)
	}
	return m.Sum(nil)
}

// NTOWFv2 = HMAC-MD5(NT, UTF16LE(Upper(user) || domain))
func NTOWFv2(nt [16]byte, user, domain string) []byte {
	return HMACMD5(nt[:], UTF16LE(strings.ToUpper(user)+domain))
}
