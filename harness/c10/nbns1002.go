// Independent reference for C10, written from RFC 1001 §14.1 (first-level encoding)
// and RFC 1002 §4.1/§4.2 (second-level name encoding, name service packet format).
// Shares no code with /repo/network/netbios/nbtns.
package main

import (
	"encoding/binary"
	"fmt"
	"strings"
)

// NB is a NetBIOS name: exactly 16 bytes (space padded by the caller) and scope labels.
type NB struct {
	Name  [16]byte
	Scope []string
}

func pad16(s string) (out [16]byte, ok bool) {
	if len(s) > 16 {
		return out, false
	}
	for i := range out {
		out[i] = ' '
	}
	copy(out[:], s)
	return out, true
}

func (n NB) ScopeText() string { return strings.Join(n.Scope, ".") }

// halfASCII: RFC 1001 §14.1 — each byte is split into two nibbles, each nibble is added to 'A'.
func halfASCII(name [16]byte) string {
	const tab = "ABCDEFGHIJKLMNOP"
	var b [32]byte
	for i, c := range name {
		b[2*i] = tab[c>>4]
		b[2*i+1] = tab[c&15]
	}
	return string(b[:])
}

func unHalfASCII(s string) (out [16]byte, err error) {
	if len(s) != 32 {
		return out, fmt.Errorf("first label is %d bytes, not 32", len(s))
	}
	for i := 0; i < 16; i++ {
		hi, lo := int(s[2*i])-'A', int(s[2*i+1])-'A'
		if hi < 0 || hi > 15 || lo < 0 || lo > 15 {
			return out, fmt.Errorf("byte outside 'A'..'P' in encoded name")
		}
		out[i] = byte(hi<<4 | lo)
	}
	return out, nil
}

// FirstLevel is the dotted first-level form: 32 characters, then ".scope" if there is a scope.
func (n NB) FirstLevel() string {
	s := halfASCII(n.Name)
	if len(n.Scope) > 0 {
		s += "." + n.ScopeText()
	}
	return s
}

// WireLen of the second-level (RFC 1002 §4.1) form.
func (n NB) WireLen() int {
	t := 1 + 32 + 1
	for _, l := range n.Scope {
		t += 1 + len(l)
	}
	return t
}

func (n NB) Wire() []byte {
	b := []byte{32}
	b = append(b, halfASCII(n.Name)...)
	for _, l := range n.Scope {
		b = append(b, byte(len(l)))
		b = append(b, l...)
	}
	return append(b, 0)
}

type PQ struct {
	Name        NB
	Type, Class uint16
}

type PRR struct {
	Name        NB
	Type, Class uint16
	TTL         uint32
	RData       []byte
}

type Pkt struct {
	ID, Flags  uint16
	Q          []PQ
	An, Ns, Ar []PRR
}

// Pack writes the packet. With ptr=true, resource record names use RFC 1002 §4.1 /
// RFC 883 label string pointers wherever an earlier name (or a trailing part of
// one: its scope, or part of its scope) can be reused: a record named like the
// first question is written as C0 0C (as NBNS responders do), a record with
// another name in the same scope as the 0x20 label followed by a pointer to the
// scope labels. Question names are always written in full.
func (p *Pkt) Pack(ptr bool) ([]byte, int) {
	b := make([]byte, 12)
	binary.BigEndian.PutUint16(b[0:], p.ID)
	binary.BigEndian.PutUint16(b[2:], p.Flags)
	binary.BigEndian.PutUint16(b[4:], uint16(len(p.Q)))
	binary.BigEndian.PutUint16(b[6:], uint16(len(p.An)))
	binary.BigEndian.PutUint16(b[8:], uint16(len(p.Ns)))
	binary.BigEndian.PutUint16(b[10:], uint16(len(p.Ar)))
	seen := map[string]int{} // wire form of a label suffix (without terminator) -> offset
	nptr := 0
	key := func(labels []string) string {
		var k []byte
		for _, l := range labels {
			k = append(k, byte(len(l)))
			k = append(k, l...)
		}
		return string(k)
	}
	name := func(n NB, compress bool) {
		labels := append([]string{halfASCII(n.Name)}, n.Scope...)
		cut, target := len(labels), -1
		if compress {
			for i := range labels {
				if off, ok := seen[key(labels[i:])]; ok {
					cut, target = i, off
					break
				}
			}
		}
		var offs []int
		for i := 0; i < cut; i++ {
			offs = append(offs, len(b))
			b = append(b, byte(len(labels[i])))
			b = append(b, labels[i]...)
		}
		if target >= 0 {
			b = append(b, 0xC0|byte(target>>8), byte(target))
			nptr++
		} else {
			b = append(b, 0)
		}
		for i, o := range offs {
			if o < 0x4000 {
				if _, ok := seen[key(labels[i:])]; !ok {
					seen[key(labels[i:])] = o
				}
			}
		}
	}
	for _, q := range p.Q {
		name(q.Name, false)
		b = binary.BigEndian.AppendUint16(b, q.Type)
		b = binary.BigEndian.AppendUint16(b, q.Class)
	}
	for _, sec := range [][]PRR{p.An, p.Ns, p.Ar} {
		for _, rr := range sec {
			name(rr.Name, ptr)
			b = binary.BigEndian.AppendUint16(b, rr.Type)
			b = binary.BigEndian.AppendUint16(b, rr.Class)
			b = binary.BigEndian.AppendUint32(b, rr.TTL)
			b = binary.BigEndian.AppendUint16(b, uint16(len(rr.RData)))
			b = append(b, rr.RData...)
		}
	}
	return b, nptr
}

type perr struct{ class, msg string }

func (e *perr) Error() string { return e.class + ": " + e.msg }

func errClass(err error) string {
	if e, ok := err.(*perr); ok {
		return e.class
	}
	return "other"
}

// readName reads one RFC 1002 §4.1 compressed name: length-prefixed labels ended by
// 0x00, or ended by a pointer (top two bits 11) to an earlier offset.
func readName(b []byte, off int) (NB, int, error) {
	var labels []string
	end := -1
	cur := off
	seg := off
	for hops := 0; ; {
		if cur >= len(b) {
			return NB{}, 0, &perr{"truncated", fmt.Sprintf("name at %d runs past the end", off)}
		}
		c := int(b[cur])
		if c == 0 {
			if end < 0 {
				end = cur + 1
			}
			break
		}
		switch c & 0xC0 {
		case 0xC0:
			if cur+1 >= len(b) {
				return NB{}, 0, &perr{"truncated", "pointer cut"}
			}
			t := int(binary.BigEndian.Uint16(b[cur:]) & 0x3FFF)
			if end < 0 {
				end = cur + 2
			}
			switch {
			case t >= cur:
				return NB{}, 0, &perr{"ptr-forward", fmt.Sprintf("pointer at %d to %d (itself or later)", cur, t)}
			case t >= seg:
				return NB{}, 0, &perr{"ptr-in-band", fmt.Sprintf("pointer at %d to %d (inside the label sequence holding it)", cur, t)}
			case t < 12:
				return NB{}, 0, &perr{"ptr-into-header", fmt.Sprintf("pointer at %d to %d", cur, t)}
			}
			hops++
			if hops > 4096 {
				return NB{}, 0, &perr{"ptr-too-many", "too many hops"}
			}
			seg, cur = t, t
		case 0x00:
			if cur+1+c > len(b) {
				return NB{}, 0, &perr{"truncated", "label cut"}
			}
			labels = append(labels, string(b[cur+1:cur+1+c]))
			cur += 1 + c
		default:
			return NB{}, 0, &perr{"label-type", fmt.Sprintf("label byte %#02x at %d", c, cur)}
		}
	}
	if len(labels) == 0 {
		return NB{}, 0, &perr{"name-format", fmt.Sprintf("empty name at %d", off)}
	}
	if len(labels[0]) != 32 {
		return NB{}, 0, &perr{"name-format", fmt.Sprintf("first label at %d is %d bytes, not 32 (0x20)", off, len(labels[0]))}
	}
	nm, err := unHalfASCII(labels[0])
	if err != nil {
		return NB{}, 0, &perr{"name-format", err.Error()}
	}
	total := 1
	for _, l := range labels {
		total += 1 + len(l)
	}
	if total > 255 {
		return NB{}, 0, &perr{"name-format", "name longer than 255 bytes"}
	}
	return NB{Name: nm, Scope: labels[1:]}, end, nil
}

var secName = []string{"question", "answer", "authority", "additional"}

// Parse is the strict reader: whole packet, no trailing bytes.
func Parse(b []byte) (*Pkt, [4]int, error) {
	var cnt [4]int
	if len(b) < 12 {
		return nil, cnt, &perr{"truncated", "header"}
	}
	p := &Pkt{ID: binary.BigEndian.Uint16(b), Flags: binary.BigEndian.Uint16(b[2:])}
	for i := range cnt {
		cnt[i] = int(binary.BigEndian.Uint16(b[4+2*i:]))
	}
	off := 12
	for i := 0; i < cnt[0]; i++ {
		n, e, err := readName(b, off)
		if err != nil {
			return nil, cnt, &perr{errClass(err), fmt.Sprintf("question %d: %v", i, err)}
		}
		off = e
		if off+4 > len(b) {
			return nil, cnt, &perr{"truncated", "question fixed part"}
		}
		p.Q = append(p.Q, PQ{n, binary.BigEndian.Uint16(b[off:]), binary.BigEndian.Uint16(b[off+2:])})
		off += 4
	}
	for s, sec := range []*[]PRR{&p.An, &p.Ns, &p.Ar} {
		for i := 0; i < cnt[1+s]; i++ {
			n, e, err := readName(b, off)
			if err != nil {
				return nil, cnt, &perr{errClass(err), fmt.Sprintf("%s %d: %v", secName[1+s], i, err)}
			}
			off = e
			if off+10 > len(b) {
				return nil, cnt, &perr{"truncated", secName[1+s] + " fixed part"}
			}
			rr := PRR{Name: n, Type: binary.BigEndian.Uint16(b[off:]), Class: binary.BigEndian.Uint16(b[off+2:]), TTL: binary.BigEndian.Uint32(b[off+4:])}
			l := int(binary.BigEndian.Uint16(b[off+8:]))
			off += 10
			if off+l > len(b) {
				return nil, cnt, &perr{"truncated", secName[1+s] + " rdata"}
			}
			rr.RData = append([]byte{}, b[off:off+l]...)
			off += l
			*sec = append(*sec, rr)
		}
	}
	if off != len(b) {
		return nil, cnt, &perr{"trailing", fmt.Sprintf("%d bytes after the last record", len(b)-off)}
	}
	return p, cnt, nil
}
