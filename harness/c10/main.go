// C10: NetBIOS first-level name encoding and NBNS packets round-trip and follow RFC 1001/1002.
package main

import (
	"bytes"
	"crypto/sha256"
	"encoding/hex"
	"fmt"
	"math/rand/v2"
	"os"
	"strings"

	"github.com/TheManticoreProject/Manticore/network/netbios/nbtns"

	"verif/mon"
)

var r *mon.Run

func fp(parts ...[]byte) string {
	h := sha256.New()
	for _, p := range parts {
		h.Write(p)
		h.Write([]byte{0xFE, 0x01})
	}
	return hex.EncodeToString(h.Sum(nil)[:10])
}

// ---------- names ----------

func scopeTag(scope []string) string {
	if len(scope) > 0 {
		return ":scope"
	}
	return ":no-scope"
}

// nameCase judges FirstLevelEncode / FirstLevelDecode / Validate on one name given as the caller would (raw, <= 16 bytes).
func nameCase(raw string, scope []string, tag string) {
	p16, ok := pad16(raw)
	if !ok {
		r.Inconclusive("generator produced a name longer than 16 bytes")
		return
	}
	want := NB{Name: p16, Scope: scope}
	wantText := want.FirstLevel()
	cs := map[string]any{"name_hex": hex.EncodeToString([]byte(raw)), "name_len": len(raw), "scope": want.ScopeText(), "want": wantText}
	star := len(raw) > 0 && raw[0] == '*'
	st := scopeTag(scope)

	var enc string
	var err, verr error
	n := &nbtns.NetBIOSName{Name: raw, ScopeID: want.ScopeText()}
	p, v, stk := mon.Guard(func() { verr = n.Validate(); enc, err = n.FirstLevelEncode() })
	r.Eval(2)
	switch {
	case p:
		r.Violation("FirstLevelEncode:panic:"+mon.PanicClass(v), fmt.Sprintf("panic %v at %s", v, mon.TopLibFrame(stk)), cs)
	case err != nil || verr != nil:
		if star {
			r.Count("star_names_refused", 1) // RFC 1001 §5.2 reserves '*': refusing is allowed
		} else {
			r.Violation("FirstLevelEncode:error-on-valid-name"+st, fmt.Sprintf("Validate=%v FirstLevelEncode=%v on a valid name", verr, err), cs)
		}
	default:
		if len(enc) < 32 || enc[:32] != wantText[:32] {
			cls := "nibbles"
			// which positions differ: real characters or the padding
			if len(enc) >= 32 {
				cls = "padding"
				for i := 0; i < len(raw); i++ {
					if enc[2*i:2*i+2] != wantText[2*i:2*i+2] {
						cls = "nibbles"
					}
				}
			} else {
				cls = "length"
			}
			r.Violation("FirstLevelEncode:value:"+cls, fmt.Sprintf("got %q want %q", enc, wantText), cs)
		} else if enc != wantText {
			r.Violation("FirstLevelEncode:value:scope-suffix"+st, fmt.Sprintf("got %q want %q", enc, wantText), cs)
		}
	}
	// decoding the RFC form
	var dec *nbtns.NetBIOSName
	p, v, stk = mon.Guard(func() { dec, err = nbtns.FirstLevelDecode(wantText) })
	r.Eval(1)
	switch {
	case p:
		r.Violation("FirstLevelDecode:panic:"+mon.PanicClass(v), fmt.Sprintf("panic %v at %s", v, mon.TopLibFrame(stk)), cs)
	case err != nil || dec == nil:
		r.Violation("FirstLevelDecode:error-on-valid-encoding"+st, fmt.Sprintf("FirstLevelDecode(%q) = %v", wantText, err), cs)
	default:
		g16, ok := pad16(dec.Name)
		if !ok || g16 != p16 {
			r.Violation("FirstLevelDecode:value:name", fmt.Sprintf("FirstLevelDecode(%q).Name = %q (hex %x), want the 16-byte space-padded form of %x", wantText, dec.Name, dec.Name, p16), cs)
		}
		if dec.ScopeID != want.ScopeText() {
			r.Violation("FirstLevelDecode:value:scope", fmt.Sprintf("scope got %q want %q", dec.ScopeID, want.ScopeText()), cs)
		}
	}
	if strings.TrimRight(raw, " ") != "" || len(scope) > 0 {
		r.Nontrivial("name|" + fp([]byte(raw), []byte(want.ScopeText())))
	}
	_ = tag
}

var sweepBases = [][16]byte{
	{'W', 'O', 'R', 'K', 'G', 'R', 'O', 'U', 'P', ' ', ' ', ' ', ' ', ' ', ' ', 0x00},
	{'A', 'A', 'A', 'A', 'A', 'A', 'A', 'A', 'A', 'A', 'A', 'A', 'A', 'A', 'A', 'A'},
	{0xFF, 0xFF, 0xFF, 0xFF, 0xFF, 0xFF, 0xFF, 0xFF, 0xFF, 0xFF, 0xFF, 0xFF, 0xFF, 0xFF, 0xFF, 0xFF},
	{'f', 'i', 'l', 'e', 's', 'r', 'v', '-', '0', '1', ' ', ' ', ' ', ' ', ' ', 0x20},
	{},
}

func genScope(rng *rand.Rand, budget int) []string {
	const first = "abcdefghijklmnopqrstuvwxyzABCDEFGHIJKLMNOPQRSTUVWXYZ"
	const mid = first + "0123456789-"
	const last = first + "0123456789"
	var out []string
	nl := 1 + rng.IntN(4)
	for i := 0; i < nl; i++ {
		var l int
		switch rng.IntN(6) {
		case 0:
			l = 1
		case 1:
			l = 63
		case 2:
			l = 62
		default:
			l = 1 + rng.IntN(15)
		}
		if l+1 > budget {
			l = budget - 1
		}
		if l < 1 {
			break
		}
		b := make([]byte, l)
		for j := range b {
			switch {
			case j == 0:
				b[j] = first[rng.IntN(len(first))]
			case j == l-1:
				b[j] = last[rng.IntN(len(last))]
			default:
				b[j] = mid[rng.IntN(len(mid))]
			}
		}
		out = append(out, string(b))
		budget -= l + 1
	}
	return out
}

func genRaw(rng *rand.Rand) string {
	l := 16
	if rng.IntN(3) == 0 {
		l = rng.IntN(17)
	}
	b := make([]byte, l)
	switch rng.IntN(4) {
	case 0: // typical: upper-case, padded, suffix byte
		for i := range b {
			b[i] = "ABCDEFGHIJKLMNOPQRSTUVWXYZ0123456789-_$"[rng.IntN(39)]
		}
		if l == 16 {
			k := 1 + rng.IntN(15)
			for i := k; i < 15; i++ {
				b[i] = ' '
			}
			b[15] = []byte{0x00, 0x03, 0x1B, 0x1C, 0x1D, 0x1E, 0x20, 0x21, 0xBE, 0xBF}[rng.IntN(10)]
		}
	default:
		for i := range b {
			b[i] = byte(rng.IntN(256))
		}
	}
	if l > 0 && b[0] == '*' {
		b[0] = 'X'
	}
	return string(b)
}

func names() {
	// exhaustive per position: 5 bases x 16 positions x 256 values
	for bi, base := range sweepBases {
		for pos := 0; pos < 16; pos++ {
			for v := 0; v < 256; v++ {
				b := base
				b[pos] = byte(v)
				nameCase(string(b[:]), nil, "sweep")
				if bi == 0 && pos == 3 && v%64 == 1 {
					r.Sample(map[string]any{"kind": "name sweep", "name_hex": hex.EncodeToString(b[:]), "rfc1001": NB{Name: b}.FirstLevel()})
				}
			}
		}
	}
	r.Count("sweep_cases", len(sweepBases)*16*256)
	// every length 0..16 (caller-side padding), several alphabets
	for l := 0; l <= 16; l++ {
		for _, c := range []byte{'A', 'z', '0', ' ', 0x00, 0x7F, 0x80, 0xFF, '.', '-'} {
			nameCase(strings.Repeat(string([]byte{c}), l), nil, "len")
			nameCase(strings.Repeat(string([]byte{c}), l), []string{"NETBIOS", "COM"}, "len")
		}
	}
	// RFC 1001 §14.1 example and usual names
	nameCase("FRED", []string{"NETBIOS", "COM"}, "rfc")
	if got := (NB{Name: func() [16]byte { x, _ := pad16("FRED"); return x }(), Scope: []string{"NETBIOS", "COM"}}).FirstLevel(); got != "EGFCEFEECACACACACACACACACACACACA.NETBIOS.COM" {
		r.Inconclusive("reference first-level encoder fails the RFC 1001 §14.1 example: " + got)
	}
	// scopes: label count 1..4, label lengths 1/62/63, total name wire length up to exactly 255
	maxScopes := [][]string{
		{strings.Repeat("a", 63), strings.Repeat("b", 63), strings.Repeat("c", 63), strings.Repeat("d", 28)}, // 34 + 64*3 + 29 = 255
		{strings.Repeat("a", 63)},
		{"a"},
		{"a", "b", "c", "d"},
		{"x1", "y-2", "z"},
		{strings.Repeat("k", 62), "m"},
	}
	for _, sc := range maxScopes {
		nameCase("SCOPED", sc, "scope")
		nameCase("", sc, "scope")
	}
	rng := r.Rand("names")
	for i := 0; i < r.Pick(100000, 1500000); i++ {
		var sc []string
		if rng.IntN(3) == 0 {
			sc = genScope(rng, 221)
		}
		raw := genRaw(rng)
		nameCase(raw, sc, "rnd")
		if i%(r.Pick(100000, 1500000)/3) == 5 {
			p16, _ := pad16(raw)
			r.Sample(map[string]any{"kind": "name", "name_hex": hex.EncodeToString([]byte(raw)), "scope": strings.Join(sc, "."), "rfc1001": NB{Name: p16, Scope: sc}.FirstLevel()})
		}
	}
}

// ---------- packets ----------

// model entry with the caller-side spelling of the name
type ent struct {
	raw string
	nb  NB
}

func mkEnt(raw string, scope []string) ent {
	p16, _ := pad16(raw)
	return ent{raw, NB{p16, scope}}
}

type mpkt struct {
	Pkt
	raws []string // caller spelling of each name, in wire order
}

func libName(e NB, raw string) *nbtns.NetBIOSName {
	return &nbtns.NetBIOSName{Name: raw, ScopeID: e.ScopeText()}
}

func toLib(m *mpkt) *nbtns.NBTNSPacket {
	p := &nbtns.NBTNSPacket{}
	p.Header = nbtns.NBTNSHeader{TransactionID: m.ID, Flags: m.Flags, Questions: uint16(len(m.Q)), Answers: uint16(len(m.An)), Authority: uint16(len(m.Ns)), Additional: uint16(len(m.Ar))}
	i := 0
	for _, q := range m.Q {
		p.Questions = append(p.Questions, nbtns.NBTNSQuestion{Name: libName(q.Name, m.raws[i]), Type: q.Type, Class: q.Class})
		i++
	}
	conv := func(s []PRR) []nbtns.NBTNSResourceRecord {
		var o []nbtns.NBTNSResourceRecord
		for _, x := range s {
			o = append(o, nbtns.NBTNSResourceRecord{Name: libName(x.Name, m.raws[i]), Type: x.Type, Class: x.Class, TTL: x.TTL, RDLength: uint16(len(x.RData)), RData: append([]byte(nil), x.RData...)})
			i++
		}
		return o
	}
	p.Answers, p.Authority, p.Additional = conv(m.An), conv(m.Ns), conv(m.Ar)
	return p
}

func sameNB(g *nbtns.NetBIOSName, w NB) (string, string) {
	if g == nil {
		return "name", "nil name"
	}
	g16, ok := pad16(g.Name)
	if !ok || g16 != w.Name {
		return "name", fmt.Sprintf("name got %x want %x", g.Name, w.Name)
	}
	if g.ScopeID != w.ScopeText() {
		return "scope", fmt.Sprintf("scope got %q want %q", g.ScopeID, w.ScopeText())
	}
	return "", ""
}

func diffLib(m *Pkt, g *nbtns.NBTNSPacket) (string, string) {
	h := g.Header
	if h.TransactionID != m.ID {
		return "header:id", fmt.Sprintf("got %#04x want %#04x", h.TransactionID, m.ID)
	}
	if h.Flags != m.Flags {
		return "header:flags", fmt.Sprintf("got %#04x want %#04x", h.Flags, m.Flags)
	}
	got := []uint16{h.Questions, h.Answers, h.Authority, h.Additional}
	want := []int{len(m.Q), len(m.An), len(m.Ns), len(m.Ar)}
	for i, n := range []string{"qdcount", "ancount", "nscount", "arcount"} {
		if int(got[i]) != want[i] {
			return "header:" + n, fmt.Sprintf("got %d want %d", got[i], want[i])
		}
	}
	if len(g.Questions) != len(m.Q) {
		return "question:count", fmt.Sprintf("got %d want %d", len(g.Questions), len(m.Q))
	}
	for i, q := range m.Q {
		x := g.Questions[i]
		if k, d := sameNB(x.Name, q.Name); k != "" {
			return "question:" + k, fmt.Sprintf("question %d %s", i, d)
		}
		if x.Type != q.Type {
			return "question:type", fmt.Sprintf("question %d type got %d want %d", i, x.Type, q.Type)
		}
		if x.Class != q.Class {
			return "question:class", fmt.Sprintf("question %d class got %d want %d", i, x.Class, q.Class)
		}
	}
	ms := [][]PRR{m.An, m.Ns, m.Ar}
	gs := [][]nbtns.NBTNSResourceRecord{g.Answers, g.Authority, g.Additional}
	for s := range ms {
		sn := secName[1+s]
		if len(gs[s]) != len(ms[s]) {
			return sn + ":count", fmt.Sprintf("got %d records want %d", len(gs[s]), len(ms[s]))
		}
		for i, w := range ms[s] {
			x := gs[s][i]
			if k, d := sameNB(x.Name, w.Name); k != "" {
				return sn + ":" + k, fmt.Sprintf("%s %d %s", sn, i, d)
			}
			switch {
			case x.Type != w.Type:
				return sn + ":type", fmt.Sprintf("%s %d type got %d want %d", sn, i, x.Type, w.Type)
			case x.Class != w.Class:
				return sn + ":class", fmt.Sprintf("%s %d class got %d want %d", sn, i, x.Class, w.Class)
			case x.TTL != w.TTL:
				return sn + ":ttl", fmt.Sprintf("%s %d ttl got %d want %d", sn, i, x.TTL, w.TTL)
			case int(x.RDLength) != len(w.RData):
				return sn + ":rdlength", fmt.Sprintf("%s %d rdlength got %d want %d", sn, i, x.RDLength, len(w.RData))
			case !bytes.Equal(x.RData, w.RData):
				return sn + ":rdata", fmt.Sprintf("%s %d rdata differs (len got %d want %d)", sn, i, len(x.RData), len(w.RData))
			}
		}
	}
	return "", ""
}

func diffRef(m, g *Pkt) (string, string) {
	if g.ID != m.ID {
		return "header:id", fmt.Sprintf("got %#04x want %#04x", g.ID, m.ID)
	}
	if g.Flags != m.Flags {
		return "header:flags", fmt.Sprintf("got %#04x want %#04x", g.Flags, m.Flags)
	}
	if len(g.Q) != len(m.Q) {
		return "question:count", fmt.Sprintf("got %d want %d", len(g.Q), len(m.Q))
	}
	nbd := func(a, b NB) (string, string) {
		if a.Name != b.Name {
			return "name", fmt.Sprintf("name got %x want %x", a.Name, b.Name)
		}
		if a.ScopeText() != b.ScopeText() || len(a.Scope) != len(b.Scope) {
			return "scope", fmt.Sprintf("scope got %q want %q", a.ScopeText(), b.ScopeText())
		}
		return "", ""
	}
	for i, q := range m.Q {
		x := g.Q[i]
		if k, d := nbd(x.Name, q.Name); k != "" {
			return "question:" + k, fmt.Sprintf("question %d %s", i, d)
		}
		if x.Type != q.Type {
			return "question:type", fmt.Sprintf("question %d type got %d want %d", i, x.Type, q.Type)
		}
		if x.Class != q.Class {
			return "question:class", fmt.Sprintf("question %d class got %d want %d", i, x.Class, q.Class)
		}
	}
	ms := [][]PRR{m.An, m.Ns, m.Ar}
	gs := [][]PRR{g.An, g.Ns, g.Ar}
	for s := range ms {
		sn := secName[1+s]
		if len(gs[s]) != len(ms[s]) {
			return sn + ":count", fmt.Sprintf("got %d records want %d", len(gs[s]), len(ms[s]))
		}
		for i, w := range ms[s] {
			x := gs[s][i]
			if k, d := nbd(x.Name, w.Name); k != "" {
				return sn + ":" + k, fmt.Sprintf("%s %d %s", sn, i, d)
			}
			switch {
			case x.Type != w.Type:
				return sn + ":type", fmt.Sprintf("%s %d type got %d want %d", sn, i, x.Type, w.Type)
			case x.Class != w.Class:
				return sn + ":class", fmt.Sprintf("%s %d class got %d want %d", sn, i, x.Class, w.Class)
			case x.TTL != w.TTL:
				return sn + ":ttl", fmt.Sprintf("%s %d ttl got %d want %d", sn, i, x.TTL, w.TTL)
			case !bytes.Equal(x.RData, w.RData):
				return sn + ":rdata", fmt.Sprintf("%s %d rdata differs (len got %d want %d)", sn, i, len(x.RData), len(w.RData))
			}
		}
	}
	return "", ""
}

func pktCase(m *mpkt, wire []byte) map[string]any {
	c := map[string]any{"id": m.ID, "flags": m.Flags, "sections": []int{len(m.Q), len(m.An), len(m.Ns), len(m.Ar)}}
	var ns []string
	for i, raw := range m.raws {
		if i >= 20 {
			break
		}
		ns = append(ns, hex.EncodeToString([]byte(raw)))
	}
	c["names_hex"] = ns
	var scopes []string
	for _, q := range m.Q {
		scopes = append(scopes, q.Name.ScopeText())
	}
	for _, s := range [][]PRR{m.An, m.Ns, m.Ar} {
		for _, x := range s {
			scopes = append(scopes, x.Name.ScopeText())
		}
	}
	if len(scopes) > 20 {
		scopes = scopes[:20]
	}
	c["scopes"] = scopes
	if wire != nil {
		if len(wire) > 2048 {
			c["wire_hex_head"], c["wire_len"] = mon.FullHex(wire[:2048]), len(wire)
		} else {
			c["wire_hex"] = mon.FullHex(wire)
		}
	}
	return c
}

func hasScope(m *mpkt) bool {
	for _, q := range m.Q {
		if len(q.Name.Scope) > 0 {
			return true
		}
	}
	for _, s := range [][]PRR{m.An, m.Ns, m.Ar} {
		for _, x := range s {
			if len(x.Name.Scope) > 0 {
				return true
			}
		}
	}
	return false
}

// framing verdicts of the two probe packets (name field only); a packet whose
// name framing is wrong makes every later field differ by accident, so the
// differential directions are judged by the probe alone in that case.
var fwdFramingBad, revFramingBad [2]bool // [no-scope, scope]

func probes() {
	for si, sc := range [][]string{nil, {"NETBIOS", "COM"}} {
		tag := []string{"no-scope", "scope"}[si]
		e := mkEnt("PROBE", sc)
		m := &mpkt{Pkt: Pkt{ID: 0x1234, Flags: 0x0110, Q: []PQ{{e.nb, 0x20, 1}}}, raws: []string{e.raw}}
		want, _ := m.Pack(false)
		var wire []byte
		var err error
		p, v, st := mon.Guard(func() { wire, err = toLib(m).Marshal() })
		r.Eval(1)
		if p {
			r.Violation("Marshal:panic:"+mon.PanicClass(v), fmt.Sprintf("panic %v at %s", v, mon.TopLibFrame(st)), pktCase(m, nil))
			fwdFramingBad[si] = true
		} else if err != nil || !bytes.Equal(wire, want) {
			fwdFramingBad[si] = true
			r.Violation("Marshal:name-framing:"+tag, fmt.Sprintf("one question for PROBE<%s>: got %x (err=%v), RFC 1002 §4.1 form is %x (0x20, 32 half-ASCII bytes, scope labels, 0x00)", strings.Join(sc, "."), wire, err, want), pktCase(m, wire))
		}
		g := &nbtns.NBTNSPacket{}
		p, v, st = mon.Guard(func() { _, err = g.Unmarshal(want) })
		r.Eval(1)
		if p {
			r.Violation("Unmarshal:panic:"+mon.PanicClass(v), fmt.Sprintf("panic %v at %s", v, mon.TopLibFrame(st)), pktCase(m, want))
			revFramingBad[si] = true
		} else if err != nil {
			revFramingBad[si] = true
			r.Violation("Unmarshal:name-framing:"+tag, fmt.Sprintf("RFC 1002 packet with one question for PROBE<%s> (%x) is refused: %v", strings.Join(sc, "."), want, err), pktCase(m, want))
		} else if k, d := diffLib(&m.Pkt, g); k != "" {
			revFramingBad[si] = true
			r.Violation("Unmarshal:name-framing:"+tag, fmt.Sprintf("RFC 1002 packet with one question for PROBE<%s> (%x) is read differently: %s %s", strings.Join(sc, "."), want, k, d), pktCase(m, want))
		}
	}
}

func nontrivialPkt(m *mpkt) bool {
	pop := 0
	for _, n := range []int{len(m.Q), len(m.An), len(m.Ns), len(m.Ar)} {
		if n > 0 {
			pop++
		}
	}
	if pop >= 2 || hasScope(m) {
		return true
	}
	for _, s := range [][]PRR{m.An, m.Ns, m.Ar} {
		for _, x := range s {
			if len(x.RData) >= 255 {
				return true
			}
		}
	}
	return false
}

func packetCase(m *mpkt) {
	si := 0
	if hasScope(m) {
		si = 1
	}
	want, _ := m.Pack(false)
	// reference must read its own output
	if self, _, err := Parse(want); err != nil {
		r.Inconclusive("reference cannot parse its own packet: " + err.Error())
		return
	} else if k, d := diffRef(&m.Pkt, self); k != "" {
		r.Inconclusive("reference round trip differs: " + k + " " + d)
		return
	}
	// forward
	var wire []byte
	var err error
	lp := toLib(m)
	p, v, st := mon.Guard(func() { wire, err = lp.Marshal() })
	r.Eval(1)
	cs := func() map[string]any { return pktCase(m, wire) }
	if p {
		r.Violation("Marshal:panic:"+mon.PanicClass(v), fmt.Sprintf("panic %v at %s", v, mon.TopLibFrame(st)), cs())
		return
	}
	if err != nil {
		r.Violation("Marshal:error-on-valid-packet", fmt.Sprintf("Marshal = %v", err), cs())
		return
	}
	holdMarshal(wire, cs)
	if w2, err2 := lp.Marshal(); err2 != nil || !bytes.Equal(w2, wire) {
		r.Violation("Marshal:not-repeatable", fmt.Sprintf("second Marshal differs (err=%v)", err2), cs())
	} else {
		holdMarshal(w2, cs)
	}
	r.Eval(1)
	if fwdFramingBad[si] && (len(m.raws) > 0) {
		r.Count("forward_differential_skipped_framing", 1)
	} else {
		ref, _, rerr := Parse(wire)
		r.Eval(1)
		if rerr != nil {
			r.Violation("Marshal~ref:unparseable:"+errClass(rerr), fmt.Sprintf("independent RFC 1002 parser cannot read the library's bytes: %v", rerr), cs())
		} else if k, d := diffRef(&m.Pkt, ref); k != "" {
			r.Violation("Marshal~ref:"+k, "independent parser reads different content: "+d, cs())
		} else if !bytes.Equal(wire, want) {
			r.Violation("Marshal~ref:bytes", "bytes differ from the uncompressed RFC 1002 form although both parse", cs())
		}
	}
	// own round trip
	g := &nbtns.NBTNSPacket{}
	var n int
	own := append([]byte(nil), wire...) // the caller's buffer: overwritten after the call
	p, v, st = mon.Guard(func() { n, err = g.Unmarshal(own) })
	r.Eval(1)
	switch {
	case p:
		r.Violation("Unmarshal:panic:"+mon.PanicClass(v), fmt.Sprintf("panic %v at %s on the library's own output", v, mon.TopLibFrame(st)), cs())
	case err != nil:
		r.Violation("roundtrip:unmarshal-error", fmt.Sprintf("Unmarshal(Marshal(p)) = %v", err), cs())
	default:
		if k, d := diffLib(&m.Pkt, g); k != "" {
			r.Violation("roundtrip:"+k, "Unmarshal(Marshal(p)) differs from p: "+d, cs())
		} else if n != len(wire) {
			r.Violation("Unmarshal:consumed", fmt.Sprintf("Unmarshal returned %d for a %d-byte packet without trailing bytes", n, len(wire)), cs())
		} else {
			afterUnmarshal(&m.Pkt, g, own, cs)
		}
	}
	// reverse: the reference writer's bytes, without and with RR-name pointers
	for _, usePtr := range []bool{false, true} {
		b, nptr := m.Pack(usePtr)
		if usePtr {
			if nptr == 0 {
				continue
			}
			if self, _, err := Parse(b); err != nil {
				r.Inconclusive("reference cannot parse its own compressed packet: " + err.Error())
				continue
			} else if k, d := diffRef(&m.Pkt, self); k != "" {
				r.Inconclusive("reference compressed round trip differs: " + k + " " + d)
				continue
			}
		}
		if revFramingBad[si] && len(m.raws) > 0 {
			r.Count("reverse_differential_skipped_framing", 1)
			continue
		}
		kind := "plain"
		if usePtr {
			kind = "rr-name-pointer"
		}
		g := &nbtns.NBTNSPacket{}
		in := append([]byte(nil), b...) // the caller's buffer: overwritten after the call
		p, v, st = mon.Guard(func() { _, err = g.Unmarshal(in) })
		r.Eval(1)
		rcs := func() map[string]any { c := pktCase(m, b); c["writer"] = kind; return c }
		if p {
			r.Violation("Unmarshal:panic:"+mon.PanicClass(v), fmt.Sprintf("panic %v at %s on a valid RFC 1002 packet", v, mon.TopLibFrame(st)), rcs())
			continue
		}
		if err != nil {
			r.Violation("Unmarshal~ref:rejects-valid:"+kind, fmt.Sprintf("Unmarshal refuses a valid RFC 1002 packet (%d name pointers): %v", nptr, err), rcs())
			continue
		}
		if k, d := diffLib(&m.Pkt, g); k != "" {
			r.Violation("Unmarshal~ref:"+k+":"+kind, "library reads a valid RFC 1002 packet differently: "+d, rcs())
			continue
		}
		afterUnmarshal(&m.Pkt, g, in, rcs)
		if usePtr {
			r.Count("reverse_pointer_packets", 1)
			// what the library re-marshals is the same content for the reference
			var out []byte
			p, v, st = mon.Guard(func() { out, err = g.Marshal() })
			r.Eval(1)
			if p || err != nil {
				r.Violation("remarshal:error", fmt.Sprintf("Marshal(Unmarshal(ref bytes)) fails: panic=%v err=%v", v, err), rcs())
			} else if holdMarshal(out, rcs); !fwdFramingBad[si] {
				if ref, _, rerr := Parse(out); rerr != nil {
					r.Violation("remarshal~ref:unparseable:"+errClass(rerr), fmt.Sprintf("reference cannot parse Marshal(Unmarshal(ref bytes)): %v", rerr), rcs())
				} else if k, d := diffRef(&m.Pkt, ref); k != "" {
					r.Violation("remarshal~ref:"+k, "Marshal(Unmarshal(ref bytes)) has different content: "+d, rcs())
				}
			}
		}
	}
	if nontrivialPkt(m) {
		r.Nontrivial("pkt|" + fp(want))
	}
}

var boundaryU16 = []uint16{0, 1, 0x0010, 0x00FF, 0x0100, 0x2800, 0x7FFF, 0x8000, 0x8500, 0xFFFE, 0xFFFF}
var boundaryU32 = []uint32{0, 1, 0xFFFF, 0x10000, 300000, 0x7FFFFFFF, 0x80000000, 0xFFFFFFFF}
var rdLens = []int{0, 1, 2, 6, 12, 255, 256, 65535}

func u16(rng *rand.Rand) uint16 {
	switch rng.IntN(4) {
	case 0, 1:
		return boundaryU16[rng.IntN(len(boundaryU16))]
	case 2:
		return uint16(rng.IntN(0x42)) // the small codes, where every assigned type and class lives
	}
	return uint16(rng.Uint32())
}

func u32(rng *rand.Rand) uint32 {
	if rng.IntN(2) == 0 {
		return boundaryU32[rng.IntN(len(boundaryU32))]
	}
	return rng.Uint32()
}

func rbytes(rng *rand.Rand, n int) []byte {
	b := make([]byte, n)
	for i := range b {
		b[i] = byte(rng.IntN(256))
	}
	return b
}

func genPkt(rng *rand.Rand, nq, na, nn, nr int, big bool) *mpkt {
	m := &mpkt{Pkt: Pkt{ID: u16(rng), Flags: u16(rng)}}
	var pool []ent
	scoped := rng.IntN(3) == 0
	var scopes [][]string // scopes in use: same scope for several names, and scopes sharing a tail
	pickScope := func() []string {
		if !scoped || rng.IntN(5) == 0 {
			return nil
		}
		if len(scopes) == 0 || rng.IntN(4) == 0 {
			sc := genScope(rng, 221)
			if len(scopes) > 0 && rng.IntN(2) == 0 { // new leading label(s) on the tail of a scope in use
				old := scopes[rng.IntN(len(scopes))]
				tail := old[rng.IntN(len(old)):]
				cand := append(append([]string{}, sc[:1]...), tail...)
				if (NB{Scope: cand}).WireLen() <= 255 && len(cand) <= 4 {
					sc = cand
				}
			}
			scopes = append(scopes, sc)
			return sc
		}
		return scopes[rng.IntN(len(scopes))]
	}
	for i := 0; i < 1+rng.IntN(3); i++ {
		pool = append(pool, mkEnt(genRaw(rng), pickScope()))
	}
	next := func() ent {
		if rng.IntN(5) == 0 {
			return mkEnt(genRaw(rng), pickScope())
		}
		return pool[rng.IntN(len(pool))]
	}
	for i := 0; i < nq; i++ {
		e := next()
		m.Q = append(m.Q, PQ{e.nb, u16(rng), u16(rng)})
		m.raws = append(m.raws, e.raw)
	}
	bigLeft := 1
	mk := func(n int) []PRR {
		var s []PRR
		for i := 0; i < n; i++ {
			e := next()
			var l int
			switch rng.IntN(8) {
			case 0:
				l = 0
			case 1:
				l = 6
			case 2:
				l = 12
			case 3:
				l = []int{255, 256}[rng.IntN(2)]
			case 4:
				if big && bigLeft > 0 {
					l = []int{65535, 65534, 32768}[rng.IntN(3)]
					bigLeft--
				} else {
					l = rng.IntN(700)
				}
			default:
				l = rng.IntN(40)
			}
			s = append(s, PRR{e.nb, u16(rng), u16(rng), u32(rng), rbytes(rng, l)})
			m.raws = append(m.raws, e.raw)
		}
		return s
	}
	m.An, m.Ns, m.Ar = mk(na), mk(nn), mk(nr)
	return m
}

func boundaryPackets() []*mpkt {
	var out []*mpkt
	host := mkEnt("FILESRV", nil)
	wg := mkEnt("WORKGROUP      \x1e", nil)
	sc := mkEnt("FRED", []string{"NETBIOS", "COM"})
	add := func(m *mpkt) { out = append(out, m) }
	build := func(id, fl uint16, qs []ent, secs [3][]ent, rd func(i int) []byte) *mpkt {
		m := &mpkt{Pkt: Pkt{ID: id, Flags: fl}}
		for i, e := range qs {
			m.Q = append(m.Q, PQ{e.nb, uint16(0x20 + i), 1})
			m.raws = append(m.raws, e.raw)
		}
		k := 0
		for s := 0; s < 3; s++ {
			var l []PRR
			for _, e := range secs[s] {
				l = append(l, PRR{e.nb, 0x20, 1, uint32(k) * 100000, rd(k)})
				m.raws = append(m.raws, e.raw)
				k++
			}
			switch s {
			case 0:
				m.An = l
			case 1:
				m.Ns = l
			default:
				m.Ar = l
			}
		}
		return m
	}
	rd6 := func(i int) []byte { return []byte{0x60, byte(i), 10, 0, 0, byte(i)} }
	rep := func(e []ent, n int) []ent {
		var o []ent
		for i := 0; i < n; i++ {
			o = append(o, e[i%len(e)])
		}
		return o
	}
	for _, names := range [][]ent{{host, wg}, {sc, host}} {
		for _, nq := range []int{0, 1, 4} {
			for _, na := range []int{0, 1, 4} {
				for _, nn := range []int{0, 1, 4} {
					for _, nr := range []int{0, 1, 4} {
						add(build(uint16(0x2000+len(out)), boundaryU16[len(out)%len(boundaryU16)], rep(names, nq), [3][]ent{rep(names, na), rep(names, nn), rep(names, nr)}, rd6))
					}
				}
			}
		}
	}
	for _, id := range boundaryU16 {
		for _, fl := range boundaryU16 {
			add(build(id, fl, []ent{host}, [3][]ent{}, rd6))
		}
	}
	for _, t := range boundaryU16 {
		for _, ttl := range boundaryU32 {
			m := build(1, 0x8500, []ent{host}, [3][]ent{{host}, {wg}, {host}}, rd6)
			m.Q[0].Type, m.Q[0].Class = t, t^0xFFFF
			m.An[0].Type, m.An[0].Class, m.An[0].TTL = t, t^0x00FF, ttl
			m.Ns[0].TTL, m.Ar[0].TTL = ttl^1, ttl+7
			m.Ar[0].Type, m.Ar[0].Class = t^0xFF00, t
			add(m)
		}
	}
	// every small type and class code in turn, in every section, with RDATA (a codec carries them all alike)
	for t := uint16(0); t <= 0x41; t++ {
		m := build(0x3000+t, 0x8500, []ent{host}, [3][]ent{{host, wg}, {wg}, {host}}, rd6)
		m.Q[0].Type, m.Q[0].Class = t, 0x41-t
		for _, sec := range [][]PRR{m.An, m.Ns, m.Ar} {
			for k := range sec {
				sec[k].Type, sec[k].Class = t, uint16(k)+0x41-t
			}
		}
		add(m)
	}
	// section sizes around the octet and 16-bit boundaries of the four count words (empty RDATA)
	none := func(i int) []byte { return nil }
	for _, counts := range [][4]int{{255, 0, 0, 0}, {256, 0, 0, 0}, {1, 255, 0, 0}, {1, 0, 256, 0}, {1, 0, 0, 257}, {0, 300, 256, 1000}, {1, 65535, 0, 0}, {1, 0, 0, 65535}, {0, 0, 65534, 0}, {65535, 0, 0, 0}} {
		add(build(uint16(0x4000+len(out)), 0x8500, rep([]ent{host}, counts[0]), [3][]ent{rep([]ent{host, wg}, counts[1]), rep([]ent{wg}, counts[2]), rep([]ent{host}, counts[3])}, none))
	}
	for _, n := range rdLens {
		rd := func(i int) []byte {
			b := bytes.Repeat([]byte{0x5A}, n)
			if n > 0 {
				b[0], b[n-1] = 0xC0, 0x0C
			}
			return b
		}
		add(build(2, 0x8500, []ent{host}, [3][]ent{{host}, {}, {}}, rd))
		add(build(3, 0x8500, []ent{sc}, [3][]ent{{sc, host}, {host}, {sc}}, rd))
	}
	// names of every length, high bytes, maximal scope
	for l := 0; l <= 16; l++ {
		e := mkEnt(strings.Repeat("N", l), nil)
		e2 := mkEnt(string(bytes.Repeat([]byte{0xE9}, l)), []string{"scope"})
		add(build(4, 0, []ent{e}, [3][]ent{{e}, {}, {}}, rd6))
		add(build(5, 0, []ent{e2}, [3][]ent{{}, {e2}, {e2}}, rd6))
	}
	// different names in one scope, and scopes sharing only a tail: partial compression for the reference writer
	s1 := mkEnt("ALPHA", []string{"AB", "C"})
	s2 := mkEnt("BETA", []string{"AB", "C"})
	s3 := mkEnt("GAMMA", []string{"XY", "AB", "C"})
	s4 := mkEnt("DELTA", []string{"Q", "C"})
	add(build(7, 0x8500, []ent{s1}, [3][]ent{{s1, s2, s3}, {s4, s2}, {s3, s1}}, rd6))
	add(build(8, 0x8500, []ent{s3}, [3][]ent{{s2}, {s4}, {s1, s3}}, rd6))
	big := mkEnt("BIGSCOPE", []string{strings.Repeat("a", 63), strings.Repeat("b", 63), strings.Repeat("c", 63), strings.Repeat("d", 28)})
	add(build(6, 0x8500, []ent{big}, [3][]ent{{big}, {big}, {big, host}}, rd6))
	return out
}

func packets() {
	probes()
	for i, m := range boundaryPackets() {
		packetCase(m)
		if i%80 == 3 {
			w, _ := m.Pack(true)
			r.Sample(map[string]any{"kind": "packet", "sections": []int{len(m.Q), len(m.An), len(m.Ns), len(m.Ar)}, "rfc1002_wire_hex": mon.Hex(w)})
		}
	}
	rng := r.Rand("packets")
	n := r.Pick(40000, 600000)
	for i := 0; i < n; i++ {
		nq, na, nn, nr := rng.IntN(5), rng.IntN(5), rng.IntN(5), rng.IntN(5)
		if rng.IntN(4) == 0 {
			nq, nn, nr = 1, 0, 0
		}
		m := genPkt(rng, nq, na, nn, nr, i%40 == 0)
		packetCase(m)
		if i%(n/3) == 2 {
			w, _ := m.Pack(true)
			r.Sample(map[string]any{"kind": "random packet", "sections": []int{nq, na, nn, nr}, "rfc1002_wire_hex": mon.Hex(w)})
		}
	}
}

func main() {
	if os.Getenv("C10_WORKER") != "" {
		worker()
		return
	}
	r = mon.Start("C10", "exploration")
	r.Rule("Names: 5 sixteen-byte base names x 16 positions x 256 byte values (exhaustive per position), every length 0..16 over 10 fill bytes with and without scope, scopes of 1..4 LDH labels (1, 62, 63 bytes; total wire length up to exactly 255), seeded random names; each compared with an independent RFC 1001 §14.1 encoder/decoder on the 16-byte space-padded form. Packets: every {0,1,4}^4 section-size combination, header/type/class/TTL boundary words, RDATA 0,1,2,6,12,255,256,65535, seeded random packets; Marshal output read by an independent RFC 1002 §4.2 parser and by Unmarshal, reference writer output (plain and with RR-name pointers) read by Unmarshal. Hostile packets (looping, forward, header and out-of-range name pointers, truncations, malformed labels) are fed to Unmarshal in a child process under a 20 s per-call CPU bound. State carried between calls: every Marshal output is held in a ring of 64 beside a private copy and re-compared after each later call and at the end; every Unmarshal input is a private buffer overwritten with 0xAA after the call and the packet compared again (32 decoded packets are held and re-compared later; writing into decoded RDATA must not reach the input); a receiver that decoded packet A decodes packet B (both orders, big-then-small sizes) and must equal a fresh receiver; all fields of a packet / a name replaced between two Marshal / FirstLevelEncode calls; 8 goroutines marshal/unmarshal/encode unrelated small (<=500 byte) packets and must get the single-caller values. Non-trivial: a name with a non-space byte or a scope; a packet with >=2 populated sections, a scope, or RDATA >= 255. The exhaustive flag refers to the per-position byte sweep only.")
	r.Assume("the reference in harness/c10/nbns1002.go is a correct reading of RFC 1001 §14.1 and RFC 1002 §4.1/§4.2 (it reproduces the RFC 1001 example and must read back its own packets, else inconclusive)",
		"NetBIOS-name equality is equality of the 16-byte space-padded form (the library trims trailing spaces on decode)",
		"names beginning with '*' may be refused (RFC 1001 §5.2)",
		"header counts and RDLength are set by the caller to the section sizes / len(RData)",
		"receiver reuse: Unmarshal into a packet that already decoded another one may leave the earlier questions in front of the new ones (it appends to Questions; counted as reuse_questions_accumulated, not judged); every other field must equal a fresh receiver's",
		"scope labels: 1..63 bytes, letter first, letter/digit last, LDH inside; whole encoded name <= 255 bytes")
	r.SetExhaustive(true)
	// race side run (./check builds this monitor with -race): only the workloads in which goroutines
	// use the library at the same time; the detector's reports are filed by Finish
	if mon.SideRace() {
		concurrent()
		r.Finish()
	}
	names()
	packets()
	carryOver(boundaryPackets())
	hostile()
	heldFinal()
	r.Finish()
}
