package main

import (
	"bufio"
	"bytes"
	"encoding/binary"
	"encoding/hex"
	"encoding/json"
	"fmt"
	"os"
	"os/exec"
	"path/filepath"
	"strconv"
	"strings"
	"sync/atomic"
	"syscall"
	"time"

	"github.com/TheManticoreProject/Manticore/network/netbios/nbtns"

	"verif/mon"
)

// Hostile NBNS packets (name pointers that loop, point forward, into the header or
// out of range; truncated and malformed names). Unmarshal is run on them in a
// child process that journals each input before decoding it, so that a decoder
// that never returns is caught by a CPU-time bound instead of hanging the monitor.

type hcase struct {
	I    int    `json:"i"`
	Fam  string `json:"fam"`
	Data string `json:"data"`
	raw  []byte
}

type hres struct {
	I     int    `json:"i"`
	OK    bool   `json:"ok"`
	Err   string `json:"err,omitempty"`
	Panic string `json:"panic,omitempty"`
	Frame string `json:"frame,omitempty"`
	Wire  string `json:"wire,omitempty"` // hex of Marshal(decoded) when decoding succeeded
	MErr  string `json:"merr,omitempty"`
}

func cpuSeconds() float64 {
	var ru syscall.Rusage
	if syscall.Getrusage(syscall.RUSAGE_SELF, &ru) != nil {
		return 0
	}
	return float64(ru.Utime.Sec) + float64(ru.Utime.Usec)/1e6 + float64(ru.Stime.Sec) + float64(ru.Stime.Usec)/1e6
}

func worker() {
	journal, err := os.OpenFile(os.Getenv("C10_JOURNAL"), os.O_CREATE|os.O_WRONLY|os.O_APPEND, 0o644)
	if err != nil {
		os.Exit(4)
	}
	out, err := os.OpenFile(os.Getenv("C10_OUT"), os.O_CREATE|os.O_WRONLY|os.O_APPEND, 0o644)
	if err != nil {
		os.Exit(4)
	}
	f, err := os.Open(os.Getenv("C10_CASES"))
	if err != nil {
		os.Exit(4)
	}
	bound := 20.0
	if s := os.Getenv("C10_CPU_BOUND"); s != "" {
		if v, e := strconv.ParseFloat(s, 64); e == nil {
			bound = v
		}
	}
	var cur atomic.Int64
	var curStart atomic.Uint64
	cur.Store(-1)
	go func() {
		for {
			time.Sleep(200 * time.Millisecond)
			i := cur.Load()
			if i < 0 {
				continue
			}
			if cpuSeconds()-float64(curStart.Load())/1e6 > bound && cur.Load() == i {
				os.WriteFile(os.Getenv("C10_JOURNAL")+".stuck", []byte(strconv.FormatInt(i, 10)), 0o644)
				os.Exit(3)
			}
		}
	}()
	sc := bufio.NewScanner(f)
	sc.Buffer(make([]byte, 1<<20), 1<<24)
	for sc.Scan() {
		var c hcase
		if json.Unmarshal(sc.Bytes(), &c) != nil {
			continue
		}
		data, _ := hex.DecodeString(c.Data)
		journal.WriteString(strconv.Itoa(c.I) + "\n")
		res := hres{I: c.I}
		curStart.Store(uint64(cpuSeconds() * 1e6))
		cur.Store(int64(c.I))
		p, v, st := mon.Guard(func() {
			g := &nbtns.NBTNSPacket{}
			if _, err := g.Unmarshal(data); err != nil {
				res.Err = err.Error()
				return
			}
			res.OK = true
			w, err := g.Marshal()
			if err != nil {
				res.MErr = err.Error()
			} else {
				res.Wire = hex.EncodeToString(w)
			}
		})
		cur.Store(-1)
		if p {
			res.OK, res.Panic, res.Frame = false, fmt.Sprint(v), mon.TopLibFrame(st)
		}
		b, _ := json.Marshal(res)
		out.Write(append(b, '\n'))
	}
	os.Exit(0)
}

func hdr(q, a, n, x int) []byte {
	b := make([]byte, 12)
	binary.BigEndian.PutUint16(b[0:], 0xBEEF)
	binary.BigEndian.PutUint16(b[2:], 0x8500)
	binary.BigEndian.PutUint16(b[4:], uint16(q))
	binary.BigEndian.PutUint16(b[6:], uint16(a))
	binary.BigEndian.PutUint16(b[8:], uint16(n))
	binary.BigEndian.PutUint16(b[10:], uint16(x))
	return b
}

func cat(parts ...[]byte) []byte {
	var b []byte
	for _, p := range parts {
		b = append(b, p...)
	}
	return b
}

func ptr(t int) []byte { return []byte{0xC0 | byte(t>>8), byte(t)} }

func hostileCases() []*hcase {
	var cs []*hcase
	add := func(fam string, b []byte) {
		cs = append(cs, &hcase{I: len(cs), Fam: fam, raw: append([]byte(nil), b...)})
	}
	nm := mkEnt("HOSTILE", nil).nb.Wire()                     // 34 bytes at 12..45
	scoped := mkEnt("HOSTILE", []string{"AB", "C"}).nb.Wire() // 20 ENC 02 AB 01 C 00
	qfix := []byte{0, 0x20, 0, 1}
	rfix := []byte{0, 0x20, 0, 1, 0, 0, 0, 60, 0, 6, 0x60, 0, 10, 0, 0, 1}
	rrAt := 12 + len(nm) + 4 // 50: offset of the first RR name after one question
	for sec := 1; sec <= 3; sec++ {
		cnt := [4]int{1, 0, 0, 0}
		cnt[sec] = 1
		h := hdr(cnt[0], cnt[1], cnt[2], cnt[3])
		sn := secName[sec]
		add("ptr-ok:"+sn, cat(h, nm, qfix, ptr(12), rfix))
		add("ptr-self:"+sn, cat(h, nm, qfix, ptr(rrAt), rfix))
		add("ptr-own-start:"+sn, cat(h, nm, qfix, nm[:33], ptr(rrAt), rfix))
		add("ptr-forward:"+sn, cat(h, nm, qfix, ptr(rrAt+2+len(rfix)), rfix, nm))
		add("ptr-next-byte:"+sn, cat(h, nm, qfix, ptr(rrAt+1), rfix))
		add("ptr-oob:"+sn, cat(h, nm, qfix, ptr(0x3FFF), rfix))
		add("ptr-len:"+sn, cat(h, nm, qfix, ptr(rrAt+2+len(rfix)), rfix))
		for t := 0; t < 12; t++ {
			add("ptr-header:"+sn, cat(h, nm, qfix, ptr(t), rfix))
		}
		add("ptr-mid-name:"+sn, cat(h, nm, qfix, ptr(13), rfix))
		add("ptr-to-terminator:"+sn, cat(h, nm, qfix, ptr(12+33), rfix))
		add("ptr-to-scope:"+sn, cat(h, scoped, qfix, nm[:33], ptr(12+33), rfix)) // name + scope taken from the question
		add("ptr-cut:"+sn, cat(h, nm, qfix, []byte{0xC0}))
		add("name-cut:"+sn, cat(h, nm, qfix, nm[:20]))
		add("no-terminator:"+sn, cat(h, nm, qfix, nm[:33]))
		add("rr-fixed-cut:"+sn, cat(h, nm, qfix, nm, rfix[:7]))
		add("rdata-cut:"+sn, cat(h, nm, qfix, nm, rfix[:len(rfix)-1]))
		for _, t := range []byte{0x40, 0x41, 0x7F, 0x80, 0xBF} {
			add("reserved-label:"+sn, cat(h, nm, qfix, []byte{t}, bytes.Repeat([]byte{'A'}, 200), []byte{0}, rfix))
		}
	}
	// loops between two record names
	h := hdr(1, 2, 0, 0)
	a1 := 12 + len(nm) + 4
	a2 := a1 + 2 + len(rfix)
	add("mutual", cat(h, nm, qfix, ptr(a2), rfix, ptr(a1), rfix))
	add("backward-to-self-pointer", cat(hdr(0, 2, 0, 0), ptr(12), rfix, ptr(12), rfix))
	// cycles made of pointers only, sitting in the RDATA of an earlier record (every hop points
	// before the name field that started the walk, so only a bound that shrinks with every hop —
	// or a hop count — ends it)
	for _, hops := range []int{2, 3, 8} {
		rd := make([]byte, 0, 2*hops)
		x := 12 + len(nm) + 10 // offset of the first record's RDATA
		for k := 0; k < hops; k++ {
			rd = append(rd, ptr(x+2*((k+1)%hops))...)
		}
		fixed := []byte{0, 0x20, 0, 1, 0, 0, 0, 60, 0, byte(len(rd))}
		add("ptr-cycle-in-earlier-rdata", cat(hdr(0, 2, 0, 0), nm, fixed, rd, ptr(x), rfix))
		add("ptr-cycle-in-earlier-rdata", cat(hdr(0, 2, 0, 0), nm, fixed, rd, nm[:33], ptr(x+2), rfix))
		add("ptr-cycle-in-earlier-rdata", cat(hdr(1, 1, 0, 1), nm, qfix, nm, fixed, rd, ptr(x+len(nm)+4), rfix))
	}
	// question names
	add("q-ptr-self", cat(hdr(1, 0, 0, 0), ptr(12), qfix))
	add("q-ptr-forward", cat(hdr(2, 0, 0, 0), ptr(18), qfix, nm, qfix))
	add("q-ptr-ok", cat(hdr(2, 0, 0, 0), nm, qfix, ptr(12), qfix))
	add("q-fixed-cut", cat(hdr(1, 0, 0, 0), nm, qfix[:3]))
	// chains of valid backward pointers
	for _, d := range []int{1, 2, 10, 50, 500} {
		b := cat(hdr(1, d, 0, 0), nm, qfix)
		last := 12
		for i := 0; i < d; i++ {
			at := len(b)
			b = append(b, ptr(last)...)
			b = append(b, rfix...)
			last = at
		}
		add("chain", b)
	}
	// malformed first labels
	for _, l := range []int{0x1F, 0x21, 1, 0x3F} {
		add("first-label-length", cat(hdr(1, 0, 0, 0), []byte{byte(l)}, bytes.Repeat([]byte{'A'}, l), []byte{0}, qfix))
	}
	bad := append([]byte(nil), nm...)
	for _, c := range []byte{'@', 'Q', 'a', 0x00, 0xFF, '.'} {
		bad[5] = c
		add("bad-nibble", cat(hdr(1, 0, 0, 0), bad, qfix))
	}
	add("empty-name", cat(hdr(1, 0, 0, 0), []byte{0}, qfix))
	add("counts-without-data", hdr(1, 1, 1, 1))
	add("counts-without-data", hdr(0xFFFF, 0xFFFF, 0xFFFF, 0xFFFF))
	for n := 0; n < 12; n++ {
		add("short-header", hdr(0, 0, 0, 0)[:n])
	}
	// all-pointer buffers
	add("big-all-pointers", cat(hdr(1, 0, 0, 0), bytes.Repeat([]byte{0xC0, 0x0C}, 30000)))
	add("big-descending-pointers", func() []byte {
		b := cat(hdr(0, 1, 0, 0), nm)
		for i := 0; i < 8000; i++ {
			b = append(b, ptr(len(b)-2)...)
		}
		return b
	}())
	// seeded: retarget the pointer of valid compressed packets
	rng := r.Rand("hostile")
	for len(cs) < r.Pick(3000, 30000) {
		m := genPkt(rng, 1, 1+rng.IntN(3), rng.IntN(2), rng.IntN(2), false)
		b, nptr := m.Pack(true)
		if nptr == 0 || len(b) > 3000 {
			continue
		}
		// find pointer positions by scanning the reference writer's layout again
		var pos []int
		for i := 12; i+1 < len(b); i++ {
			if b[i]&0xC0 == 0xC0 && int(binary.BigEndian.Uint16(b[i:])&0x3FFF) < i && int(binary.BigEndian.Uint16(b[i:])&0x3FFF) >= 12 {
				pos = append(pos, i)
			}
		}
		if len(pos) == 0 {
			continue
		}
		p := pos[rng.IntN(len(pos))]
		for _, t := range []int{p, p + 1, p + 2, 0, 11, len(b) - 1, len(b), 0x3FFF, rng.IntN(len(b) + 2), 12 + rng.IntN(p-11)} {
			c := append([]byte(nil), b...)
			c[p], c[p+1] = 0xC0|byte(t>>8), byte(t)
			add("mut-retarget", c)
		}
		c := append([]byte(nil), b...)
		c[12+rng.IntN(len(c)-12)] = []byte{0xC0, 0xFF, 0x40, 0x00, 0x20, byte(rng.IntN(256))}[rng.IntN(6)]
		add("mut-byte", c)
		add("mut-truncate", b[:12+rng.IntN(len(b)-12)])
	}
	return cs
}

type childOut struct {
	res   map[int]*hres
	died  bool
	class string
	last  int
	errs  string
}

var childSeq atomic.Int64

func runChild(cases []*hcase) (*childOut, error) {
	work := os.Getenv("VERIF_WORK")
	if work == "" {
		work = os.TempDir()
	}
	base := filepath.Join(work, fmt.Sprintf("c10-child-%d", childSeq.Add(1)))
	cf, err := os.Create(base + ".cases")
	if err != nil {
		return nil, err
	}
	bw := bufio.NewWriter(cf)
	for _, c := range cases {
		c.Data = hex.EncodeToString(c.raw)
		b, _ := json.Marshal(c)
		c.Data = ""
		bw.Write(b)
		bw.WriteByte('\n')
	}
	bw.Flush()
	cf.Close()
	bin := os.Getenv("VERIF_BIN")
	if bin == "" {
		bin = os.Args[0]
	}
	cmd := exec.Command(bin)
	cmd.Env = append(os.Environ(), "C10_WORKER=1", "C10_CASES="+base+".cases", "C10_JOURNAL="+base+".journal", "C10_OUT="+base+".out")
	var se bytes.Buffer
	cmd.Stderr = &capWriter{&se}
	if err := cmd.Start(); err != nil {
		return nil, err
	}
	done := make(chan error, 1)
	go func() { done <- cmd.Wait() }()
	var werr error
	select {
	case werr = <-done:
	case <-time.After(10 * time.Minute):
		cmd.Process.Kill()
		<-done
		return nil, fmt.Errorf("child exceeded the harness wall-clock watchdog")
	}
	o := &childOut{res: map[int]*hres{}, last: -1, errs: se.String()}
	if f, err := os.Open(base + ".out"); err == nil {
		sc := bufio.NewScanner(f)
		sc.Buffer(make([]byte, 1<<20), 1<<26)
		for sc.Scan() {
			var h hres
			if json.Unmarshal(sc.Bytes(), &h) == nil {
				hh := h
				o.res[h.I] = &hh
			}
		}
		f.Close()
	}
	if b, err := os.ReadFile(base + ".journal"); err == nil {
		l := strings.Split(strings.TrimSpace(string(b)), "\n")
		if len(l) > 0 && l[len(l)-1] != "" {
			o.last, _ = strconv.Atoi(l[len(l)-1])
		}
	}
	if werr != nil {
		o.died = true
		switch {
		case fileExists(base + ".journal.stuck"):
			o.class = "nontermination"
		case strings.Contains(o.errs, "stack overflow") || strings.Contains(o.errs, "goroutine stack exceeds"):
			o.class = "stack-exhaustion"
		case strings.Contains(o.errs, "fatal error:"):
			o.class = "fatal"
		default:
			o.class = "died"
		}
	}
	for _, s := range []string{".cases", ".journal", ".out", ".journal.stuck"} {
		os.Remove(base + s)
	}
	return o, nil
}

func fileExists(p string) bool { _, err := os.Stat(p); return err == nil }

type capWriter struct{ b *bytes.Buffer }

func (c *capWriter) Write(p []byte) (int, error) {
	if room := (1 << 16) - c.b.Len(); room > 0 {
		if len(p) > room {
			c.b.Write(p[:room])
		} else {
			c.b.Write(p)
		}
	}
	return len(p), nil
}

func hcaseJSON(c *hcase) map[string]any {
	return map[string]any{"family": c.Fam, "len": len(c.raw), "data_hex": mon.FullHex(c.raw)}
}

func refClass(b []byte) (*Pkt, string) {
	p, _, err := Parse(b)
	if err != nil {
		return nil, errClass(err)
	}
	return p, ""
}

func judgeHostile(c *hcase, h *hres) {
	r.Eval(1)
	r.Count("hostile_cases", 1)
	if h.Panic != "" {
		r.Violation("Unmarshal:panic:"+mon.PanicClass(h.Panic), fmt.Sprintf("panic %s at %s on a hostile packet (%s)", h.Panic, h.Frame, c.Fam), hcaseJSON(c))
		return
	}
	if revFramingBad[0] || revFramingBad[1] {
		// the library does not read RFC 1002 names at all (reported by the probe): only panics and termination are judged here
		r.Count("hostile_not_judged_framing", 1)
		return
	}
	ref, cls := refClass(c.raw)
	switch {
	case ref != nil && dottedScope(ref):
		// a scope label containing '.' has no unambiguous ScopeID text: only panics and termination are judged
		r.Count("hostile_dotted_scope_label", 1)
	case ref != nil:
		r.Count("hostile_must_accept", 1)
		if !h.OK {
			r.Violation("Unmarshal~ref:rejects-valid:hostile-neighbour", fmt.Sprintf("error %q on a packet the RFC 1002 reader accepts (%s)", h.Err, c.Fam), hcaseJSON(c))
			return
		}
		// judged through the library's own Marshal of what it decoded
		if h.MErr != "" {
			r.Count("hostile_remarshal_error", 1)
			return
		}
		w, _ := hex.DecodeString(h.Wire)
		back, cls2 := refClass(w)
		if back == nil {
			r.Violation("Unmarshal~ref:content:hostile-neighbour", fmt.Sprintf("Marshal(Unmarshal(valid packet)) is not parseable: %s (%s)", cls2, c.Fam), hcaseJSON(c))
		} else if k, d := diffRef(ref, back); k != "" {
			r.Violation("Unmarshal~ref:"+k+":hostile-neighbour", "Marshal(Unmarshal(valid packet)) has different content: "+d+" ("+c.Fam+")", hcaseJSON(c))
		}
	case cls == "truncated" || cls == "ptr-forward":
		r.Count("hostile_must_reject", 1)
		if h.OK {
			r.Violation("Unmarshal:accepts:"+cls, fmt.Sprintf("no error for a packet that needs a %s to be read (%s)", cls, c.Fam), hcaseJSON(c))
		}
	default: // trailing bytes, in-band / header pointers, reserved label types, malformed first label
		r.Count("hostile_lenient", 1)
		if h.OK {
			r.Count("hostile_lenient_accepted", 1)
		}
	}
	r.Nontrivial("hostile|" + fp(c.raw))
}

func hostile() {
	cases := hostileCases()
	r.Extra("hostile_generated", len(cases))
	pending := cases
	for len(pending) > 0 {
		o, err := runChild(pending)
		if err != nil {
			r.Inconclusive("hostile child: " + err.Error())
			return
		}
		by := map[int]*hcase{}
		for _, c := range pending {
			by[c.I] = c
		}
		for i, h := range o.res {
			if c := by[i]; c != nil {
				judgeHostile(c, h)
			}
		}
		if !o.died {
			if len(o.res) != len(pending) {
				r.Inconclusive(fmt.Sprintf("hostile child returned %d results for %d cases", len(o.res), len(pending)))
			}
			return
		}
		wc := by[o.last]
		if wc == nil || o.res[o.last] != nil {
			r.Inconclusive(fmt.Sprintf("hostile child died (%s) outside a decoder call: %.300s", o.class, o.errs))
			return
		}
		o2, err := runChild([]*hcase{wc})
		_, cls := refClass(wc.raw)
		if cls == "" {
			cls = "valid"
		}
		r.Eval(1)
		if err == nil && o2.died {
			r.Violation("Unmarshal:"+o2.class+":"+cls, fmt.Sprintf("Unmarshal did not return on a %d-byte packet (%s): child ended with %s", len(wc.raw), wc.Fam, o2.class), hcaseJSON(wc))
		} else {
			r.Inconclusive(fmt.Sprintf("child died (%s) on case %d (%s) but the case alone did not reproduce it", o.class, wc.I, wc.Fam))
		}
		var rest []*hcase
		past := false
		for _, c := range pending {
			if past {
				if _, k := refClass(c.raw); k == cls || (k == "" && cls == "valid") {
					r.Count("hostile_skipped_after_witness", 1)
					continue
				}
				rest = append(rest, c)
			}
			if c.I == o.last {
				past = true
			}
		}
		pending = rest
	}
}

func dottedScope(p *Pkt) bool {
	d := func(n NB) bool {
		for _, l := range n.Scope {
			if strings.IndexByte(l, '.') >= 0 {
				return true
			}
		}
		return false
	}
	for _, q := range p.Q {
		if d(q.Name) {
			return true
		}
	}
	for _, s := range [][]PRR{p.An, p.Ns, p.Ar} {
		for _, x := range s {
			if d(x.Name) {
				return true
			}
		}
	}
	return false
}
