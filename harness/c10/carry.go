// State-carry-over and aliasing monitors of C10: the bytes Marshal returned and the packet
// Unmarshal produced must stay what they were while later calls run and after the caller
// reuses its input buffer; a receiver that already decoded a packet must decode the next one
// like a fresh receiver; changed fields must show in the next Marshal / FirstLevelEncode;
// concurrent callers get the single-caller values.
package main

import (
	"bytes"
	"fmt"
	"math/rand/v2"
	"sync"

	"github.com/TheManticoreProject/Manticore/network/netbios/nbtns"

	"verif/mon"
)

// ---------- (a) held outputs ----------

// heldRing keeps the last n slices Marshal returned (the slices themselves) beside a private
// copy and re-compares all of them whenever a new one arrives and at the end. A slice that
// leaves the ring is overwritten with 0x55 (the caller owns it; nothing may depend on it).
type heldRing struct {
	mu   sync.Mutex
	n    int
	live [][]byte
	priv [][]byte
}

func (h *heldRing) changed() int {
	c := 0
	for i := range h.live {
		if !bytes.Equal(h.live[i], h.priv[i]) {
			c++
			h.priv[i] = append([]byte(nil), h.live[i]...)
		}
	}
	return c
}

func (h *heldRing) hold(out []byte) int {
	h.mu.Lock()
	defer h.mu.Unlock()
	c := h.changed()
	if len(h.live) >= h.n {
		old := h.live[0]
		for i := range old {
			old[i] = 0x55
		}
		h.live, h.priv = h.live[1:], h.priv[1:]
	}
	h.live = append(h.live, out)
	h.priv = append(h.priv, append([]byte(nil), out...))
	return c
}

var marshalRing = &heldRing{n: 64}

func holdMarshal(out []byte, cs func() map[string]any) {
	if out == nil {
		return
	}
	if c := marshalRing.hold(out); c > 0 {
		r.Violation("Marshal:held-output-changed", fmt.Sprintf("%d byte slice(s) returned by earlier Marshal calls changed while a later call ran (output aliases a reused buffer)", c), cs())
	}
	r.Count("held_outputs", 1)
}

// ---------- held decoded packets ----------

type heldPkt struct {
	m *Pkt
	g *nbtns.NBTNSPacket
}

type pktRing struct {
	mu  sync.Mutex
	buf []heldPkt
}

var heldPkts pktRing

func (h *pktRing) recheck(cs func() map[string]any) {
	for i := range h.buf {
		if h.buf[i].g == nil {
			continue
		}
		if k, d := diffLib(h.buf[i].m, h.buf[i].g); k != "" {
			r.Violation("Unmarshal:held-result-changed:"+k, "a packet decoded earlier changed while later calls ran: "+d, cs())
			h.buf[i].g = nil
		}
	}
}

func (h *pktRing) keep(m *Pkt, g *nbtns.NBTNSPacket, cs func() map[string]any) {
	h.mu.Lock()
	defer h.mu.Unlock()
	h.recheck(cs)
	if len(h.buf) >= 32 {
		h.buf = h.buf[1:]
	}
	h.buf = append(h.buf, heldPkt{m, g})
}

func heldFinal() {
	marshalRing.mu.Lock()
	c := marshalRing.changed()
	marshalRing.mu.Unlock()
	if c > 0 {
		r.Violation("Marshal:held-output-changed", fmt.Sprintf("%d held Marshal outputs differ from their copies at the end of the run", c), map[string]any{"phase": "final"})
	}
	heldPkts.mu.Lock()
	heldPkts.recheck(func() map[string]any { return map[string]any{"phase": "final"} })
	heldPkts.mu.Unlock()
}

// ---------- (b) input scribble ----------

func scribble(b []byte, v byte) {
	for i := range b {
		b[i] = v
	}
}

// afterUnmarshal is called with the buffer that was handed to Unmarshal (a private copy)
// once g agreed with m: the caller's buffer is reused for something else, g must not change.
func afterUnmarshal(m *Pkt, g *nbtns.NBTNSPacket, in []byte, cs func() map[string]any) {
	scribble(in, 0xAA)
	if k, d := diffLib(m, g); k != "" {
		r.Violation("Unmarshal:input-scribble:"+k, "the decoded packet changed when the caller overwrote the input buffer after Unmarshal returned: "+d, cs())
		return
	}
	heldPkts.keep(m, g, cs)
}

// writeThrough: writing into the decoded RDATA must not write into the caller's input.
func writeThrough(m *mpkt, usePtr bool) {
	b, _ := m.Pack(usePtr)
	in := append([]byte(nil), b...)
	g := &nbtns.NBTNSPacket{}
	var err error
	p, _, _ := mon.Guard(func() { _, err = g.Unmarshal(in) })
	r.Eval(1)
	if p || err != nil {
		return // judged by packetCase
	}
	for _, s := range [][]nbtns.NBTNSResourceRecord{g.Answers, g.Authority, g.Additional} {
		for i := range s {
			for j := range s[i].RData {
				s[i].RData[j] ^= 0xFF
			}
		}
	}
	if !bytes.Equal(in, b) {
		r.Violation("Unmarshal:result-writes-through-to-input", "writing into the RDATA of the decoded packet changed the caller's input buffer", pktCase(m, b))
	}
}

// ---------- (c) receiver reuse ----------

// reuseReceiver decodes a then b into the same receiver; the result must be what a fresh
// receiver gives for b. Not demanded: the question list may hold a's questions in front of
// b's (Unmarshal appends to Questions) as long as the tail is exactly b's questions; that is
// counted, not judged.
func reuseReceiver(a, b *mpkt, order string) {
	wa, _ := a.Pack(false)
	wb, _ := b.Pack(true)
	g := &nbtns.NBTNSPacket{}
	var err error
	p, _, _ := mon.Guard(func() { _, err = g.Unmarshal(append([]byte(nil), wa...)) })
	r.Eval(1)
	if p || err != nil {
		return
	}
	if k, _ := diffLib(&a.Pkt, g); k != "" {
		return
	}
	cs := func() map[string]any {
		c := pktCase(b, wb)
		c["first_packet_hex"] = mon.FullHex(wa[:min(len(wa), 1024)])
		c["order"] = order
		return c
	}
	// what a caller keeps of the first decode: the section slices (and so the records and
	// their RDATA) as they were handed out
	kept := *g
	if order == "a-refused-b" {
		// a datagram cut short in between: refused, and the next decode is unaffected by it
		for _, cut := range []int{len(wb) / 2, len(wb) - 1, 12} {
			if cut > 0 && cut < len(wb) {
				mon.Guard(func() { g.Unmarshal(append([]byte(nil), wb[:cut]...)) })
				r.Count("refused_decodes_into_a_used_receiver", 1)
			}
		}
	}
	var n int
	p, v, st := mon.Guard(func() { n, err = g.Unmarshal(append([]byte(nil), wb...)) })
	r.Eval(1)
	if !p {
		if k, d := diffLib(&a.Pkt, &kept); k != "" {
			r.Violation("Unmarshal:receiver-reuse:kept-records-changed:"+k, "the questions/records kept from a first decode changed when the same packet value decoded another datagram: "+d, cs())
			return
		}
	}
	switch {
	case p:
		r.Violation("Unmarshal:panic:"+mon.PanicClass(v), fmt.Sprintf("panic %v at %s decoding into a used receiver", v, mon.TopLibFrame(st)), cs())
		return
	case err != nil:
		r.Violation("Unmarshal:receiver-reuse:error", fmt.Sprintf("a receiver that decoded another packet before refuses a valid packet: %v", err), cs())
		return
	case n != len(wb):
		r.Violation("Unmarshal:receiver-reuse:consumed", fmt.Sprintf("returned %d for a %d-byte packet", n, len(wb)), cs())
		return
	}
	view := *g
	if order == "a-refused-b" && len(g.Questions) > len(b.Q) {
		// questions of earlier (also of refused) decodes may sit in front: the tail is judged
		view.Questions = g.Questions[len(g.Questions)-len(b.Q):]
		r.Count("reuse_questions_accumulated", 1)
	} else if len(a.Q) > 0 && len(g.Questions) == len(a.Q)+len(b.Q) {
		pre := nbtns.NBTNSPacket{Header: g.Header, Questions: g.Questions[:len(a.Q)], Answers: g.Answers, Authority: g.Authority, Additional: g.Additional}
		pre.Header.Questions = uint16(len(a.Q))
		ma := &Pkt{ID: b.ID, Flags: b.Flags, Q: a.Q, An: b.An, Ns: b.Ns, Ar: b.Ar}
		if k, _ := diffLib(ma, &pre); k == "" {
			view.Questions = g.Questions[len(a.Q):]
			r.Count("reuse_questions_accumulated", 1)
		}
	}
	if k, d := diffLib(&b.Pkt, &view); k != "" {
		r.Violation("Unmarshal:receiver-reuse:"+k, "decoding into a receiver that decoded another packet before differs from decoding into a fresh one: "+d, cs())
		return
	}
	r.Nontrivial("reuse|" + fp(wa, wb))
}

// staleAfterChange: fields changed between two calls on the same object.
func staleAfterChange(a, b *mpkt) {
	lp := toLib(a)
	w1, err := lp.Marshal()
	r.Eval(1)
	if err != nil {
		return
	}
	wantA, _ := a.Pack(false)
	if !bytes.Equal(w1, wantA) {
		return // judged by packetCase
	}
	nb := toLib(b)
	*lp = *nb
	wantB, _ := b.Pack(false)
	var w2 []byte
	p, v, st := mon.Guard(func() { w2, err = lp.Marshal() })
	r.Eval(1)
	cs := func() map[string]any { return pktCase(b, w2) }
	switch {
	case p:
		r.Violation("Marshal:panic:"+mon.PanicClass(v), fmt.Sprintf("panic %v at %s", v, mon.TopLibFrame(st)), cs())
	case err != nil || !bytes.Equal(w2, wantB):
		r.Violation("Marshal:stale-after-field-change", fmt.Sprintf("all fields of a packet replaced after a first Marshal; the second Marshal is not the encoding of the current fields (err=%v)", err), cs())
	default:
		holdMarshal(w2, cs)
		if !bytes.Equal(w1, wantA) {
			r.Violation("Marshal:held-output-changed", "the bytes of the first Marshal changed during the second Marshal of the same receiver", cs())
		}
	}
	// the same for a name object
	if len(a.raws) > 0 && len(b.raws) > 0 {
		ea, eb := allNames(a)[0], allNames(b)[0]
		n := libName(ea, a.raws[0])
		s1, e1 := n.FirstLevelEncode()
		n.Name, n.ScopeID = b.raws[0], eb.ScopeText()
		s2, e2 := n.FirstLevelEncode()
		r.Eval(2)
		if e1 == nil && s1 == ea.FirstLevel() && (e2 != nil || s2 != eb.FirstLevel()) {
			r.Violation("FirstLevelEncode:stale-after-field-change", fmt.Sprintf("Name/ScopeID changed after a first FirstLevelEncode; the second call gives %q (err=%v), want %q", s2, e2, eb.FirstLevel()), map[string]any{"first": ea.FirstLevel(), "second": eb.FirstLevel()})
		}
	}
}

func allNames(m *mpkt) []NB {
	var o []NB
	for _, q := range m.Q {
		o = append(o, q.Name)
	}
	for _, s := range [][]PRR{m.An, m.Ns, m.Ar} {
		for _, x := range s {
			o = append(o, x.Name)
		}
	}
	return o
}

// ---------- (e) concurrent callers ----------

type ccase struct {
	m          *mpkt
	want, comp []byte
}

func smallPkt(rng *rand.Rand) *mpkt {
	for {
		m := genPkt(rng, 1+rng.IntN(2), rng.IntN(3), rng.IntN(2), rng.IntN(2), false)
		if w, _ := m.Pack(false); len(w) <= 500 {
			return m
		}
	}
}

// sharedObjects: one finished packet marshalled by several goroutines at once, and one received
// datagram (a byte slice nobody writes to) decoded by several goroutines at once.
func sharedObjects() {
	const G = 8
	rng := r.Rand("shared-objects")
	for run := 0; run < r.Pick(80, 800); run++ {
		m := smallPkt(rng)
		want, _ := m.Pack(false)
		comp, _ := m.Pack(true)
		pristine := append([]byte(nil), comp...)
		lp := toLib(m)
		var wg sync.WaitGroup
		start := make(chan struct{})
		for g := 0; g < G; g++ {
			wg.Add(1)
			go func(g int) {
				defer wg.Done()
				<-start
				for i := 0; i < 4; i++ {
					var out []byte
					var err error
					p, v, st := mon.Guard(func() { out, err = lp.Marshal() })
					switch {
					case p:
						r.Violation("Marshal:shared-packet:panic:"+mon.PanicClass(v), fmt.Sprintf("panic %v at %s (8 goroutines marshalling one packet)", v, mon.TopLibFrame(st)), pktCase(m, nil))
					case err != nil || !bytes.Equal(out, want):
						r.Violation("Marshal:shared-packet", fmt.Sprintf("8 goroutines marshalling the same packet: other bytes than alone (err=%v)", err), pktCase(m, out))
					}
					gp := &nbtns.NBTNSPacket{}
					p, v, st = mon.Guard(func() { _, err = gp.Unmarshal(comp) })
					switch {
					case p:
						r.Violation("Unmarshal:shared-input:panic:"+mon.PanicClass(v), fmt.Sprintf("panic %v at %s (8 goroutines decoding one datagram)", v, mon.TopLibFrame(st)), pktCase(m, pristine))
					case err != nil:
						r.Violation("Unmarshal:shared-input", fmt.Sprintf("8 goroutines decoding the same datagram: Unmarshal fails: %v", err), pktCase(m, pristine))
					default:
						if k, d := diffLib(&m.Pkt, gp); k != "" {
							r.Violation("Unmarshal:shared-input", "8 goroutines decoding the same datagram: the result differs: "+k+" "+d, pktCase(m, pristine))
						}
					}
				}
			}(g)
		}
		close(start)
		wg.Wait()
		r.Eval(G * 4 * 2)
		if !bytes.Equal(comp, pristine) {
			r.Violation("Unmarshal:shared-input:input-modified", "the datagram handed to the decoders was written to", pktCase(m, pristine))
		}
		r.Nontrivial(fmt.Sprintf("shared-object|%d", run%40))
	}
}

func concurrent() {
	sharedObjects()
	const G = 8
	per := r.Pick(60, 400)
	rounds := r.Pick(6, 20)
	rng := r.Rand("concurrent")
	sets := make([][]ccase, G)
	for g := range sets {
		for i := 0; i < per; i++ {
			m := smallPkt(rng)
			w, _ := m.Pack(false)
			c, _ := m.Pack(true)
			sets[g] = append(sets[g], ccase{m, w, c})
		}
	}
	var wg sync.WaitGroup
	for g := 0; g < G; g++ {
		wg.Add(1)
		go func(cases []ccase) {
			defer wg.Done()
			type kept struct {
				out []byte
				c   *ccase
			}
			var last []kept
			for round := 0; round < rounds; round++ {
				for i := range cases {
					c := &cases[i]
					lp := toLib(c.m)
					var out []byte
					var err error
					p, v, st := mon.Guard(func() { out, err = lp.Marshal() })
					r.Eval(1)
					if p {
						r.Violation("Marshal:panic:"+mon.PanicClass(v), fmt.Sprintf("panic %v at %s (8 concurrent callers)", v, mon.TopLibFrame(st)), pktCase(c.m, nil))
						continue
					}
					if err != nil || !bytes.Equal(out, c.want) {
						r.Violation("Marshal:concurrent-callers", fmt.Sprintf("with 8 goroutines marshalling unrelated packets Marshal gives other bytes than alone (err=%v)", err), pktCase(c.m, out))
					}
					last = append(last, kept{out, c})
					if len(last) > 16 {
						last = last[1:]
					}
					for _, k := range last {
						if !bytes.Equal(k.out, k.c.want) {
							r.Violation("Marshal:held-output-changed:concurrent-callers", "bytes returned by an earlier Marshal of this goroutine changed while 8 goroutines marshal unrelated packets", pktCase(k.c.m, k.out))
							k.c.want = append([]byte(nil), k.out...) // report once
						}
					}
					in := append([]byte(nil), c.comp...)
					gp := &nbtns.NBTNSPacket{}
					p, v, st = mon.Guard(func() { _, err = gp.Unmarshal(in) })
					r.Eval(1)
					if p {
						r.Violation("Unmarshal:panic:"+mon.PanicClass(v), fmt.Sprintf("panic %v at %s (8 concurrent callers)", v, mon.TopLibFrame(st)), pktCase(c.m, c.comp))
						continue
					}
					if err != nil {
						r.Violation("Unmarshal:concurrent-callers", fmt.Sprintf("with 8 goroutines decoding unrelated packets Unmarshal fails: %v", err), pktCase(c.m, c.comp))
					} else if k, d := diffLib(&c.m.Pkt, gp); k != "" {
						r.Violation("Unmarshal:concurrent-callers", "with 8 goroutines decoding unrelated packets the result differs: "+k+" "+d, pktCase(c.m, c.comp))
					}
					if ns := allNames(c.m); len(ns) > 0 {
						e := ns[0]
						s, eerr := libName(e, c.m.raws[0]).FirstLevelEncode()
						d, derr := nbtns.FirstLevelDecode(e.FirstLevel())
						r.Eval(2)
						if eerr != nil || s != e.FirstLevel() {
							r.Violation("FirstLevelEncode:concurrent-callers", fmt.Sprintf("with 8 concurrent callers got %q (err=%v) want %q", s, eerr, e.FirstLevel()), map[string]any{"want": e.FirstLevel()})
						}
						if derr != nil {
							r.Violation("FirstLevelDecode:concurrent-callers", fmt.Sprintf("with 8 concurrent callers FirstLevelDecode(%q) = %v", e.FirstLevel(), derr), map[string]any{"want": e.FirstLevel()})
						} else if k, dd := sameNB(d, e); k != "" {
							r.Violation("FirstLevelDecode:concurrent-callers", "with 8 concurrent callers: "+dd, map[string]any{"want": e.FirstLevel()})
						}
					}
				}
			}
		}(sets[g])
	}
	wg.Wait()
	r.Count("concurrent_cases", G*per*rounds)
}

// ---------- the phase ----------

func carryOver(bp []*mpkt) {
	rng := r.Rand("carry")
	// small packets first: two consecutive encodings that both fit 512 bytes are what a
	// reused 512-byte scratch buffer needs to show
	var small []*mpkt
	for i := 0; i < r.Pick(2000, 30000); i++ {
		small = append(small, smallPkt(rng))
	}
	for _, m := range small {
		packetCase(m)
	}
	var pool []*mpkt
	for _, m := range bp {
		if w, _ := m.Pack(false); len(w) <= 8192 {
			pool = append(pool, m)
		}
	}
	pool = append(pool, small...)
	// receiver reuse in both orders of every neighbouring pair, and big-then-small pairs
	for i := range pool {
		a, b := pool[i], pool[(i+1)%len(pool)]
		reuseReceiver(a, b, "a-then-b")
		reuseReceiver(b, a, "b-then-a")
		if i%4 == 0 {
			reuseReceiver(a, b, "a-refused-b")
		}
		staleAfterChange(a, b)
		writeThrough(a, i%2 == 0)
	}
	host := mkEnt("FILESRV", nil)
	sc := mkEnt("FRED", []string{"NETBIOS", "COM"})
	mk := func(e ent, nq, nrec, rdlen int) *mpkt {
		m := &mpkt{Pkt: Pkt{ID: uint16(0x3000 + nq*16 + nrec), Flags: 0x8500}}
		for i := 0; i < nq; i++ {
			m.Q = append(m.Q, PQ{e.nb, 0x20, 1})
			m.raws = append(m.raws, e.raw)
		}
		for s := 0; s < 3; s++ {
			var l []PRR
			for i := 0; i < nrec; i++ {
				l = append(l, PRR{e.nb, 0x20, 1, uint32(300000 + i), bytes.Repeat([]byte{byte(0x10*s + i)}, rdlen)})
				m.raws = append(m.raws, e.raw)
			}
			switch s {
			case 0:
				m.An = l
			case 1:
				m.Ns = l
			default:
				m.Ar = l
			}
		}
		return m
	}
	sizes := []*mpkt{mk(host, 4, 4, 600), mk(sc, 1, 1, 6), mk(host, 0, 0, 0), mk(sc, 0, 3, 0), mk(host, 2, 0, 0), mk(sc, 3, 2, 255)}
	for _, a := range sizes {
		for _, b := range sizes {
			reuseReceiver(a, b, "sizes")
		}
	}
	concurrent()
}
