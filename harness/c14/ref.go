package main

// Independent reference for C14, written from MS-ADTS §2.2.20 (KEYCREDENTIALLINK_BLOB),
// §2.2.20.6 (CUSTOM_KEY_INFORMATION), BCRYPT_RSAKEY_BLOB and MS-DTYP §2.3.4.2 (GUID packet).
//
//	blob   = Version(uint32 LE) entry*
//	entry  = Length(uint16 LE) Identifier(uint8) Value[Length]
//	ids    : 1 KeyID = SHA-256(KeyMaterial value); 2 KeyHash = SHA-256(all bytes after this entry);
//	         3 KeyMaterial; 4 KeyUsage; 5 KeySource; 6 DeviceId; 7 CustomKeyInformation;
//	         8 KeyApproximateLastLogonTimeStamp; 9 KeyCreationTime (FILETIME ticks, uint64 LE)
//	RSA    = "RSA1" BitLength cbPublicExp cbModulus cbPrime1 cbPrime2 (uint32 LE each)
//	         PublicExponent Modulus Prime1 Prime2 (big-endian octet strings)

import (
	"crypto/sha256"
	"errors"
	"fmt"
)

type refEntry struct {
	ID    byte
	Value []byte
	// offsets into the blob
	HdrOff, ValOff, End int
}

type refBlob struct {
	Version uint32
	Entries []refEntry
}

func le16(b []byte) int { return int(b[0]) + int(b[1])*256 }
func le32(b []byte) uint32 {
	return uint32(b[0]) + uint32(b[1])<<8 + uint32(b[2])<<16 + uint32(b[3])<<24
}
func le64(b []byte) uint64 { return uint64(le32(b)) + uint64(le32(b[4:]))<<32 }
func put16(v int) []byte   { return []byte{byte(v % 256), byte(v / 256)} }
func put32(v uint32) []byte {
	return []byte{byte(v), byte(v >> 8), byte(v >> 16), byte(v >> 24)}
}
func put64(v uint64) []byte { return append(put32(uint32(v)), put32(uint32(v>>32))...) }

// refParse walks the blob strictly: every entry must fit and the entries must cover the blob exactly.
func refParse(blob []byte) (*refBlob, error) {
	if len(blob) < 4 {
		return nil, errors.New("shorter than the version field")
	}
	rb := &refBlob{Version: le32(blob)}
	off := 4
	for off < len(blob) {
		if len(blob)-off < 3 {
			return nil, fmt.Errorf("%d stray bytes at offset %d", len(blob)-off, off)
		}
		n := le16(blob[off:])
		if off+3+n > len(blob) {
			return nil, fmt.Errorf("entry at %d (id %d) declares %d bytes, %d left", off, blob[off+2], n, len(blob)-off-3)
		}
		rb.Entries = append(rb.Entries, refEntry{ID: blob[off+2], Value: blob[off+3 : off+3+n], HdrOff: off, ValOff: off + 3, End: off + 3 + n})
		off += 3 + n
	}
	return rb, nil
}

func (rb *refBlob) find(id byte) (refEntry, int) {
	n := 0
	var e refEntry
	for _, x := range rb.Entries {
		if x.ID == id {
			if n == 0 {
				e = x
			}
			n++
		}
	}
	return e, n
}

// refKeyHash is SHA-256 over everything after the (first) KeyHash entry.
func refKeyHash(blob []byte, rb *refBlob) ([]byte, bool) {
	e, n := rb.find(2)
	if n == 0 {
		return nil, false
	}
	h := sha256.Sum256(blob[e.End:])
	return h[:], true
}

type refRSA struct {
	BitLength uint32
	Exponent  []byte
	Modulus   []byte
	Prime1    []byte
	Prime2    []byte
}

func refParseRSA(v []byte) (*refRSA, error) {
	if len(v) < 24 || string(v[:4]) != "RSA1" {
		return nil, errors.New("not a BCRYPT_RSAPUBLIC blob")
	}
	k := &refRSA{BitLength: le32(v[4:])}
	ce, cm, c1, c2 := int(le32(v[8:])), int(le32(v[12:])), int(le32(v[16:])), int(le32(v[20:]))
	if 24+ce+cm+c1+c2 != len(v) {
		return nil, fmt.Errorf("sizes %d+%d+%d+%d do not match %d payload bytes", ce, cm, c1, c2, len(v)-24)
	}
	p := 24
	k.Exponent, p = v[p:p+ce], p+ce
	k.Modulus, p = v[p:p+cm], p+cm
	k.Prime1, p = v[p:p+c1], p+c1
	k.Prime2 = v[p : p+c2]
	return k, nil
}

func refBuildRSA(bitLen uint32, exp, mod, p1, p2 []byte) []byte {
	out := []byte("RSA1")
	out = append(out, put32(bitLen)...)
	out = append(out, put32(uint32(len(exp)))...)
	out = append(out, put32(uint32(len(mod)))...)
	out = append(out, put32(uint32(len(p1)))...)
	out = append(out, put32(uint32(len(p2)))...)
	out = append(out, exp...)
	out = append(out, mod...)
	out = append(out, p1...)
	out = append(out, p2...)
	return out
}

func beUint(b []byte) uint64 {
	var v uint64
	for _, x := range b {
		v = v*256 + uint64(x)
	}
	return v
}

// refGUIDPacket packs Data1-Data2-Data3-Data4 per MS-DTYP.
func refGUIDPacket(a uint32, b, c, d uint16, e uint64) []byte {
	out := put32(a)
	out = append(out, put16(int(b))...)
	out = append(out, put16(int(c))...)
	out = append(out, byte(d/256), byte(d%256))
	for i := 5; i >= 0; i-- {
		out = append(out, byte(e>>(8*uint(i))))
	}
	return out
}

// refBuild serialises entries in the given order and fills in KeyID/KeyHash.
func refBuild(version uint32, material []byte, usage, source byte, device []byte, cki []byte, lastLogon, creation uint64) []byte {
	return refBuildOpt(false, version, material, usage, source, device, cki, lastLogon, creation)
}

// refBuildOpt: omitKeyID leaves the KeyID entry out (the library writes such a blob for a
// credential whose Identifier is empty, and reads it back).
func refBuildOpt(omitKeyID bool, version uint32, material []byte, usage, source byte, device []byte, cki []byte, lastLogon, creation uint64) []byte {
	entry := func(id byte, v []byte) []byte {
		return append(append(put16(len(v)), id), v...)
	}
	var tail []byte
	tail = append(tail, entry(3, material)...)
	tail = append(tail, entry(4, []byte{usage})...)
	tail = append(tail, entry(5, []byte{source})...)
	tail = append(tail, entry(6, device)...)
	if cki != nil {
		tail = append(tail, entry(7, cki)...)
	}
	tail = append(tail, entry(8, put64(lastLogon))...)
	tail = append(tail, entry(9, put64(creation))...)
	kid := sha256.Sum256(material)
	kh := sha256.Sum256(tail)
	out := put32(version)
	if !omitKeyID {
		out = append(out, entry(1, kid[:])...)
	}
	out = append(out, entry(2, kh[:])...)
	return append(out, tail...)
}

var entryNames = map[byte]string{1: "KeyID", 2: "KeyHash", 3: "KeyMaterial", 4: "KeyUsage", 5: "KeySource", 6: "DeviceId", 7: "CustomKeyInformation", 8: "LastLogon", 9: "CreationTime"}
