// C14: key-credential blobs round-trip and their integrity hash detects tampering.
package main

import (
	"bytes"
	"crypto/sha256"
	"encoding/base64"
	"encoding/hex"
	"fmt"
	"math/rand/v2"
	"strconv"
	"strings"
	"sync"
	"sync/atomic"
	"time"

	kcl "github.com/TheManticoreProject/Manticore/windows/keycredential"
	kccrypto "github.com/TheManticoreProject/Manticore/windows/keycredential/crypto"
	kckey "github.com/TheManticoreProject/Manticore/windows/keycredential/key"
	kcutils "github.com/TheManticoreProject/Manticore/windows/keycredential/utils"

	"github.com/TheManticoreProject/Manticore/windows/guid"

	"verif/mon"
)

var r *mon.Run

var evals, cutShort, flips, flipsCovered, flipsDetectedByError, flipsDetectedByHash, flipsPanic, flipsUncovered atomic.Int64

func ev(n int) { evals.Add(int64(n)) }

func guard(entry string, cs any, f func()) bool {
	p, v, st := mon.Guard(f)
	if p {
		r.Violation(entry+":panic:"+mon.PanicClass(v), fmt.Sprintf("panic %v at %s", v, mon.TopLibFrame(st)), cs)
	}
	return p
}

// ---------------------------------------------------------------------------------

type kcCase struct {
	Version   uint32
	Exp       uint32
	Mod       []byte
	P1, P2    []byte
	KeySize   uint32
	Dev       guid.GUID
	LastLogon uint64
	Creation  uint64
	Tag       string
}

func (c *kcCase) json() map[string]any {
	return map[string]any{"version": c.Version, "exponent": c.Exp, "modulus_hex": mon.FullHex(c.Mod), "prime1_hex": mon.FullHex(c.P1), "prime2_hex": mon.FullHex(c.P2),
		"key_size": c.KeySize, "device": c.Dev.ToFormatD(), "last_logon_ticks": c.LastLogon, "creation_ticks": c.Creation, "tag": c.Tag}
}

func (c *kcCase) fingerprint() string {
	h := sha256.Sum256(c.Mod)
	return fmt.Sprintf("%x|%d|%d|%x|%d|%d|%s|%d|%d", c.Version, c.Exp, len(c.Mod), h[:6], len(c.P1), len(c.P2), c.Dev.ToFormatN(), c.LastLogon, c.Creation)
}

func encodeID(version uint32, raw []byte) string {
	if version == 0 || version == 0x100 {
		return hex.EncodeToString(raw)
	}
	return base64.StdEncoding.EncodeToString(raw)
}

func sameInstant(a time.Time, ticks uint64) bool {
	// 100 ns ticks since 1601-01-01
	sec := int64(ticks/10000000) - 11644473600
	ns := int64(ticks%10000000) * 100
	return a.Unix() == sec && int64(a.Nanosecond()) == ns
}

// checkParsed compares a credential parsed by the library with the expected values.
func checkParsed(entry string, k *kcl.KeyCredential, version uint32, id string, exp uint64, mod, p1, p2 []byte, keySize uint32, usage, source byte, dev *guid.GUID, ll, cr uint64, ckiFlags byte, cs any) {
	bad := func(field, msg string) {
		r.Violation(entry+":field:"+field, msg, cs)
	}
	if k.Version.Value != version {
		bad("version", fmt.Sprintf("Version=%#x want %#x", k.Version.Value, version))
	}
	if k.Identifier != id {
		bad("identifier", fmt.Sprintf("Identifier=%q want %q", k.Identifier, id))
	}
	m := k.RawKeyMaterial
	if uint64(m.Exponent) != exp {
		bad("exponent", fmt.Sprintf("Exponent=%d want %d", m.Exponent, exp))
	}
	if !bytes.Equal(m.Modulus, mod) {
		bad("modulus", fmt.Sprintf("Modulus=%x want %x", m.Modulus, mod))
	}
	if !bytes.Equal(m.Prime1, p1) || !bytes.Equal(m.Prime2, p2) {
		bad("primes", fmt.Sprintf("Prime1=%x Prime2=%x want %x %x", m.Prime1, m.Prime2, p1, p2))
	}
	if m.KeySize != keySize {
		bad("keysize", fmt.Sprintf("KeySize=%d want %d", m.KeySize, keySize))
	}
	if k.Usage.Value != usage {
		bad("usage", fmt.Sprintf("Usage=%d want %d", k.Usage.Value, usage))
	}
	if k.Source != kckey.KeySource(source) {
		bad("source", fmt.Sprintf("Source=%d want %d", k.Source, source))
	}
	if !k.DeviceId.Equal(dev) {
		bad("device", fmt.Sprintf("DeviceId=%s want %s", k.DeviceId.ToFormatD(), dev.ToFormatD()))
	}
	if k.LastLogonTime.Ticks != ll || k.LastLogonTime.ToTicks() != ll {
		bad("lastlogon", fmt.Sprintf("LastLogonTime.Ticks=%d want %d", k.LastLogonTime.Ticks, ll))
	} else if !sameInstant(k.LastLogonTime.Time, ll) {
		bad("lastlogon-time", fmt.Sprintf("LastLogonTime.Time=%s for ticks %d", k.LastLogonTime.Time.UTC().Format(time.RFC3339Nano), ll))
	}
	if k.CreationTime.Ticks != cr {
		bad("creation", fmt.Sprintf("CreationTime.Ticks=%d want %d", k.CreationTime.Ticks, cr))
	} else if !sameInstant(k.CreationTime.Time, cr) {
		bad("creation-time", fmt.Sprintf("CreationTime.Time=%s for ticks %d", k.CreationTime.Time.UTC().Format(time.RFC3339Nano), cr))
	}
	if k.CustomKeyInfo.Version != 1 || k.CustomKeyInfo.Flags.Value != ckiFlags {
		bad("custominfo", fmt.Sprintf("CustomKeyInfo{Version:%d Flags:%d} want {1 %d}", k.CustomKeyInfo.Version, k.CustomKeyInfo.Flags.Value, ckiFlags))
	}
}

// runBuilt: NewKeyCredential -> ToBytes -> (independent parse | FromBytes -> ToBytes) -> integrity [-> tamper].
func runBuilt(c *kcCase, doTamper bool, sampleIt bool) []byte {
	cs := c.json()
	var blob []byte
	guard("KeyCredential.build", cs, func() {
		material := kccrypto.RSAKeyMaterial{Exponent: c.Exp, Modulus: c.Mod, Prime1: c.P1, Prime2: c.P2, KeySize: c.KeySize}
		ver := kckey.KeyCredentialVersion{Value: c.Version}
		matBytes := material.ToBytes()
		id := kcutils.ComputeKeyIdentifier(matBytes, ver)
		ev(2)
		// RSA material: independent parse of the BCRYPT blob, and the library's own inverse
		if rk, err := refParseRSA(matBytes); err != nil {
			r.Violation("RSAKeyMaterial.ToBytes:structure", fmt.Sprintf("BCRYPT blob not parseable: %v", err), cs)
		} else if beUint(rk.Exponent) != uint64(c.Exp) || !bytes.Equal(rk.Modulus, c.Mod) || !bytes.Equal(rk.Prime1, c.P1) || !bytes.Equal(rk.Prime2, c.P2) || rk.BitLength != c.KeySize {
			r.Violation("RSAKeyMaterial.ToBytes:value", fmt.Sprintf("BCRYPT blob carries e=%x n=%x p=%x q=%x bits=%d", rk.Exponent, rk.Modulus, rk.Prime1, rk.Prime2, rk.BitLength), cs)
		}
		var back kccrypto.RSAKeyMaterial
		if err := back.FromBytes(append([]byte{}, matBytes...)); err != nil {
			r.Violation("RSAKeyMaterial.FromBytes:accept", fmt.Sprintf("FromBytes(ToBytes()): %v", err), cs)
		} else if back.Exponent != c.Exp || !bytes.Equal(back.Modulus, c.Mod) || !bytes.Equal(back.Prime1, c.P1) || !bytes.Equal(back.Prime2, c.P2) || back.KeySize != c.KeySize {
			r.Violation("RSAKeyMaterial.FromBytes:roundtrip", fmt.Sprintf("FromBytes(ToBytes()) = e=%d n=%x p=%x q=%x bits=%d", back.Exponent, back.Modulus, back.Prime1, back.Prime2, back.KeySize), cs)
		} else if again := back.ToBytes(); !bytes.Equal(again, matBytes) {
			r.Violation("RSAKeyMaterial.ToBytes:reserialize", fmt.Sprintf("re-serialised material differs: %x vs %x", again, matBytes), cs)
		}
		ev(2)
		wantID := sha256.Sum256(matBytes)
		if id != encodeID(c.Version, wantID[:]) {
			r.Violation("utils.ComputeKeyIdentifier:value", fmt.Sprintf("identifier %q want %q", id, encodeID(c.Version, wantID[:])), cs)
		}

		k := kcl.NewKeyCredential(ver, id, material, c.Dev, kcutils.NewDateTime(c.LastLogon), kcutils.NewDateTime(c.Creation))
		var err error
		blob, err = k.ToBytes()
		ev(2)
		if err != nil {
			r.Violation("KeyCredential.ToBytes:error", fmt.Sprintf("ToBytes: %v", err), cs)
			blob = nil
			return
		}
		cs["blob_hex"] = mon.FullHex(blob)
		// ---- independent reading of the blob
		rb, perr := refParse(blob)
		if perr != nil {
			r.Violation("KeyCredential.ToBytes:structure", fmt.Sprintf("blob is not a well-formed entry list: %v", perr), cs)
			return
		}
		if rb.Version != c.Version {
			r.Violation("KeyCredential.ToBytes:entry:version", fmt.Sprintf("version %#x want %#x", rb.Version, c.Version), cs)
		}
		for id := byte(1); id <= 9; id++ {
			if _, n := rb.find(id); n != 1 {
				r.Violation("KeyCredential.ToBytes:entry-count:"+entryNames[id], fmt.Sprintf("%d entries with identifier %d (%s)", n, id, entryNames[id]), cs)
			}
		}
		want := map[byte][]byte{1: wantID[:], 3: matBytes, 4: {kckey.KeyUsage_NGC}, 5: {0},
			6: refGUIDPacket(c.Dev.A, c.Dev.B, c.Dev.C, c.Dev.D, c.Dev.E), 8: put64(c.LastLogon), 9: put64(c.Creation)}
		for id, w := range want {
			if e, n := rb.find(id); n >= 1 && !bytes.Equal(e.Value, w) {
				r.Violation("KeyCredential.ToBytes:entry:"+entryNames[id], fmt.Sprintf("%s entry = %x want %x", entryNames[id], e.Value, w), cs)
			}
		}
		if e, n := rb.find(7); n >= 1 && (len(e.Value) < 2 || e.Value[0] != 1 || e.Value[1] != 0) {
			r.Violation("KeyCredential.ToBytes:entry:CustomKeyInformation", fmt.Sprintf("CustomKeyInformation entry = %x; MS-ADTS 2.2.20.6 needs at least Version(1)=1 and Flags(1)", e.Value), cs)
		}
		wantHash, okh := refKeyHash(blob, rb)
		if e, n := rb.find(2); okh && n >= 1 && !bytes.Equal(e.Value, wantHash) {
			r.Violation("KeyCredential.ToBytes:entry:KeyHash", fmt.Sprintf("KeyHash entry = %x want SHA-256 of the %d bytes after it = %x", e.Value, len(blob)-e.End, wantHash), cs)
		}
		if !bytes.Equal(k.KeyHash, wantHash) {
			r.Violation("KeyCredential.NewKeyCredential:keyhash", fmt.Sprintf("KeyHash field = %x want %x", k.KeyHash, wantHash), cs)
		}
		ok := k.CheckIntegrity()
		ev(1)
		if !ok {
			r.Violation("KeyCredential.CheckIntegrity:built", "CheckIntegrity() is false on the credential just built", cs)
		}
		// ---- library parses its own blob
		var k2 kcl.KeyCredential
		err = k2.FromBytes(append([]byte{}, blob...))
		ev(1)
		if err != nil {
			r.Violation("KeyCredential.FromBytes:accept", fmt.Sprintf("FromBytes(ToBytes()): %v", err), cs)
			return
		}
		checkParsed("KeyCredential.FromBytes", &k2, c.Version, id, uint64(c.Exp), c.Mod, c.P1, c.P2, c.KeySize, kckey.KeyUsage_NGC, 0, &c.Dev, c.LastLogon, c.Creation, 0, cs)
		if !bytes.Equal(k2.KeyHash, wantHash) {
			r.Violation("KeyCredential.FromBytes:field:keyhash", fmt.Sprintf("KeyHash=%x want %x", k2.KeyHash, wantHash), cs)
		}
		if h := k2.ComputeKeyHash(); !bytes.Equal(h, wantHash) {
			r.Violation("KeyCredential.ComputeKeyHash:value", fmt.Sprintf("ComputeKeyHash()=%x want %x", h, wantHash), cs)
		}
		ok2 := k2.CheckIntegrity()
		ev(2)
		if !ok2 {
			r.Violation("KeyCredential.CheckIntegrity:parsed", "CheckIntegrity() is false on the parsed, untouched blob", cs)
		}
		again, err := k2.ToBytes()
		ev(1)
		if err != nil || !bytes.Equal(again, blob) {
			r.Violation("KeyCredential.ToBytes:reserialize:"+diffRegion(blob, again, rb), fmt.Sprintf("re-serialisation differs at offset %d (%s): %x vs %x (err=%v)", firstDiff(blob, again), diffRegion(blob, again, rb), again, blob, err), cs)
		}
		if sampleIt {
			r.Sample(map[string]any{"kind": "built credential", "version": c.Version, "modulus_bytes": len(c.Mod), "exponent": c.Exp, "primes": len(c.P1) > 0, "device": c.Dev.ToFormatD(), "blob_bytes": len(blob), "blob": mon.Hex(blob)})
		}
		if doTamper {
			tamper(blob, rb, cs)
		}
	})
	r.Nontrivial("built|" + c.fingerprint())
	return blob
}

func firstDiff(a, b []byte) int {
	n := min(len(a), len(b))
	for i := 0; i < n; i++ {
		if a[i] != b[i] {
			return i
		}
	}
	return n
}

func regionAt(off int, rb *refBlob) string {
	if off < 4 {
		return "version"
	}
	for _, e := range rb.Entries {
		if off >= e.HdrOff && off < e.End {
			name := entryNames[e.ID]
			if name == "" {
				name = "entry" + strconv.Itoa(int(e.ID))
			}
			switch {
			case off < e.HdrOff+2:
				return name + ".length"
			case off == e.HdrOff+2:
				return name + ".id"
			}
			return name + ".value"
		}
	}
	return "end"
}

func diffRegion(a, b []byte, rb *refBlob) string { return regionAt(firstDiff(a, b), rb) }

// quietGuard is mon.Guard without the stack capture (hundreds of thousands of tampered
// blobs make the decoder panic; the stack is not needed for a "not decided" count).
func quietGuard(f func()) (panicked bool) {
	defer func() {
		if recover() != nil {
			panicked = true
		}
	}()
	f()
	return
}

// tamper flips every single bit of the blob. For a flip inside the KeyHash value or anywhere
// after the KeyHash entry the library must return an error or report the integrity check failed.
func tamper(blob []byte, rb *refBlob, cs map[string]any) {
	kh, n := rb.find(2)
	if n != 1 {
		return
	}
	t := make([]byte, len(blob))
	for bit := 0; bit < len(blob)*8; bit++ {
		off := bit / 8
		copy(t, blob)
		t[off] ^= 1 << uint(bit%8)
		covered := off >= kh.ValOff
		var err error
		var intact bool
		p := quietGuard(func() {
			var k kcl.KeyCredential
			err = k.FromBytes(t)
			if err == nil {
				if bit%3 == 1 {
					// re-serialising a parsed credential in between must not launder the tampering
					k.ToBytes()
				}
				intact = k.CheckIntegrity()
			}
		})
		flips.Add(1)
		ev(1)
		switch {
		case p:
			flipsPanic.Add(1) // a decoder panic is C07's business; not decided here
		case !covered:
			flipsUncovered.Add(1)
		case err != nil:
			flipsCovered.Add(1)
			flipsDetectedByError.Add(1)
		case !intact:
			flipsCovered.Add(1)
			flipsDetectedByHash.Add(1)
		default:
			flipsCovered.Add(1)
			c2 := map[string]any{"blob_hex": cs["blob_hex"], "bit": bit, "offset": off, "region": regionAt(off, rb)}
			r.Violation("KeyCredential.CheckIntegrity:tamper-undetected:"+regionAt(off, rb), fmt.Sprintf("flipping bit %d of byte %d (%s) leaves FromBytes without error and CheckIntegrity() true", bit%8, off, regionAt(off, rb)), c2)
		}
	}
}

// runForeign: a blob written by the reference serialiser (other usages, sources, CustomKeyInformation
// forms) must be read correctly by the library, re-serialise to the same bytes and pass the integrity check.
func runForeign(c *kcCase, usage, source byte, cki []byte, ckiClass string, doTamper bool) {
	// exponent as four big-endian octets: the width the library itself writes, so that
	// re-serialisation can be byte-identical
	exp := []byte{byte(c.Exp >> 24), byte(c.Exp >> 16), byte(c.Exp >> 8), byte(c.Exp)}
	material := refBuildRSA(c.KeySize, exp, c.Mod, c.P1, c.P2)
	dev := refGUIDPacket(c.Dev.A, c.Dev.B, c.Dev.C, c.Dev.D, c.Dev.E)
	blob := refBuild(c.Version, material, usage, source, dev, cki, c.LastLogon, c.Creation)
	cs := c.json()
	cs["blob_hex"] = mon.FullHex(blob)
	cs["usage"], cs["source"], cs["cki_hex"] = usage, source, mon.FullHex(cki)
	rb, _ := refParse(blob)
	guard("KeyCredential.foreign", cs, func() {
		var k kcl.KeyCredential
		err := k.FromBytes(append([]byte{}, blob...))
		ev(1)
		if err != nil {
			r.Violation("KeyCredential.FromBytes:accept-foreign", fmt.Sprintf("FromBytes(reference blob): %v", err), cs)
			return
		}
		kid := sha256.Sum256(material)
		flags := byte(0)
		if len(cki) >= 2 {
			flags = cki[1]
		}
		checkParsed("KeyCredential.FromBytes", &k, c.Version, encodeID(c.Version, kid[:]), uint64(c.Exp), c.Mod, c.P1, c.P2, c.KeySize, usage, source, &c.Dev, c.LastLogon, c.Creation, flags, cs)
		ok := k.CheckIntegrity()
		ev(1)
		if !ok {
			r.Violation("KeyCredential.CheckIntegrity:foreign", "CheckIntegrity() is false on an untouched reference blob", cs)
		}
		again, err := k.ToBytes()
		ev(1)
		if err != nil || !bytes.Equal(again, blob) {
			r.Violation("KeyCredential.ToBytes:reserialize-foreign:"+ckiClass+":"+diffRegion(blob, again, rb), fmt.Sprintf("re-serialisation of a reference blob (CustomKeyInformation %s, %d bytes) differs at offset %d (%s): got %x want %x (err=%v)", ckiClass, len(cki), firstDiff(blob, again), diffRegion(blob, again, rb), again, blob, err), cs)
		}
		if doTamper {
			tamper(blob, rb, cs)
		}
	})
	r.Nontrivial(fmt.Sprintf("foreign|%s|%d|%d|%x", c.fingerprint(), usage, source, cki))
}

// noKeyID: a blob without the KeyID entry (KeyHash is then the first entry). What the hash covers
// is still everything after the KeyHash entry: the blob passes its integrity check, re-serialises
// to itself, and every bit flipped after the KeyHash entry is detected.
func noKeyID(c *kcCase, usage, source byte) {
	exp := []byte{byte(c.Exp >> 24), byte(c.Exp >> 16), byte(c.Exp >> 8), byte(c.Exp)}
	material := refBuildRSA(c.KeySize, exp, c.Mod, c.P1, c.P2)
	dev := refGUIDPacket(c.Dev.A, c.Dev.B, c.Dev.C, c.Dev.D, c.Dev.E)
	blob := refBuildOpt(true, c.Version, material, usage, source, dev, []byte{1, 0}, c.LastLogon, c.Creation)
	cs := c.json()
	cs["blob_hex"], cs["key_id_entry"] = mon.FullHex(blob), "absent"
	rb, _ := refParse(blob)
	guard("KeyCredential.no-key-id", cs, func() {
		var k kcl.KeyCredential
		err := k.FromBytes(append([]byte{}, blob...))
		ev(1)
		if err != nil {
			r.Count("blobs_without_key_id_refused", 1)
			return
		}
		if !k.CheckIntegrity() {
			r.Violation("KeyCredential.CheckIntegrity:no-key-id", "CheckIntegrity() is false on an untouched blob that has no KeyID entry", cs)
			return
		}
		if again, err := k.ToBytes(); err != nil || !bytes.Equal(again, blob) {
			r.Violation("KeyCredential.ToBytes:reserialize-no-key-id", fmt.Sprintf("a blob without KeyID entry re-serialises differently (first difference at %d, err=%v)", firstDiff(blob, again), err), cs)
		}
		tamper(blob, rb, cs)
	})
	r.Nontrivial(fmt.Sprintf("no-key-id|%s|%d|%d", c.fingerprint(), usage, source))
}

// ---------------------------------------------------------------------------------
// DN-with-binary

func checkDN(dn string, bin []byte, isBlob bool) {
	cs := map[string]any{"dn": dn, "dn_hex": hex.EncodeToString([]byte(dn)), "binary_hex": mon.FullHex(bin)}
	cls := "plain"
	if strings.Contains(dn, ":") {
		cls = "colon-in-dn"
	}
	guard("DNWithBinary", cs, func() {
		d := kcl.DNWithBinary{DistinguishedName: dn, BinaryData: bin}
		s := d.ToString()
		ev(1)
		hx := hex.EncodeToString(bin)
		pre := "B:" + strconv.Itoa(len(hx)) + ":"
		if len(s) != len(pre)+len(hx)+1+len(dn) || !strings.HasPrefix(s, pre) || !strings.EqualFold(s[len(pre):len(pre)+len(hx)], hx) || s[len(pre)+len(hx):] != ":"+dn {
			r.Violation("DNWithBinary.ToString:value", fmt.Sprintf("ToString()=%q want %q", s, pre+hx+":"+dn), cs)
			return
		}
		if d.String() != s {
			r.Violation("DNWithBinary.String:value", fmt.Sprintf("String()=%q ToString()=%q", d.String(), s), cs)
		}
		for _, text := range []string{s, pre + strings.ToUpper(hx) + ":" + dn} {
			var p kcl.DNWithBinary
			err := p.Parse([]byte(text))
			ev(1)
			if err != nil {
				r.Violation("DNWithBinary.Parse:accept:"+cls, fmt.Sprintf("Parse(%q): %v", short(text), err), cs)
				continue
			}
			if !bytes.Equal(p.BinaryData, bin) {
				r.Violation("DNWithBinary.Parse:binary:"+cls, fmt.Sprintf("Parse(%q).BinaryData = %x", short(text), p.BinaryData), cs)
			}
			if p.DistinguishedName != dn {
				r.Violation("DNWithBinary.Parse:dn:"+cls, fmt.Sprintf("Parse(%q).DistinguishedName = %q want %q", short(text), p.DistinguishedName, dn), cs)
			}
			if again := p.ToString(); !strings.EqualFold(again, text) {
				r.Violation("DNWithBinary.ToString:roundtrip:"+cls, fmt.Sprintf("Parse(%q).ToString() = %q", short(text), short(again)), cs)
			}
			if isBlob {
				var k kcl.KeyCredential
				err := k.ParseDNWithBinary(p)
				ev(1)
				if err != nil || !bytes.Equal(k.RawBytes, bin) || !k.CheckIntegrity() {
					r.Violation("KeyCredential.ParseDNWithBinary:roundtrip", fmt.Sprintf("ParseDNWithBinary: err=%v integrity=%v", err, err == nil && k.CheckIntegrity()), cs)
				}
			}
		}
	})
	r.Nontrivial("dn|" + dn + "|" + strconv.Itoa(len(bin)))
}

func short(s string) string {
	if len(s) > 160 {
		return s[:60] + "…" + s[len(s)-90:]
	}
	return s
}

var dnBoundary = []string{
	"CN=John Doe,OU=Users,DC=example,DC=com", "", "CN=a", "CN=a:b,DC=x", "CN=a\x00b,DC=x", "\x00", "CN=x\x00", "\x00CN=x", "CN=bad\xff\xfeutf8,DC=x", ":", "::", ":::", "CN=x:", ":CN=x", "CN=B:8:00:CN=nested,DC=x",
	"CN=time 12:30:00,OU=a:b,DC=c", "CN=Doe\\, John,OU=Users,DC=example,DC=com", "CN=a+SN=b,DC=c", "CN=\\#hash,DC=x", "CN= lead,DC=x",
	"CN=Пользователь,DC=пример,DC=com", "CN=密码:钥,DC=x", "CN=😀,DC=x", "OU=\"quoted:colon\",DC=x", "CN=a\\3Ab,DC=x", "cn=lower,dc=case",
	"CN=" + strings.Repeat("x", 300) + ",DC=long", "CN=trailing space ,DC=x", "CN=new\nline,DC=x", "CN=eq=eq,DC=x", "CN=semi;colon,DC=x", "CN=<a>,DC=x",
	"CN=x,DC=trailing ", " CN=leading,DC=x", "CN=x\\ ", "CN=tab\t", "\tCN=x", "CN=x\n",
	"CN=Discount 100% Off,DC=x", "CN=%s%d%v,DC=%x", "CN=100%,DC=x", "CN=%%,DC=x", "CN=%!s(MISSING),DC=x", "%",
}

func randDN(rng *rand.Rand) string {
	types := []string{"CN", "OU", "DC", "O", "L", "cn", "UID", "2.5.4.3"}
	alphabet := []string{"%", "%s", "%d", "a", "b", "Z", "0", "9", " ", ":", ":", ",", "\\,", "\\+", "=", "+", "\"", "\\\"", "#", ";", "<", ">", "é", "я", "密", "😀", ".", "-", "_", "\\3A", "\\20", "\x00", "\xff"}
	var parts []string
	for i, n := 0, 1+rng.IntN(6); i < n; i++ {
		var sb strings.Builder
		for j, m := 0, rng.IntN(12); j < m; j++ {
			sb.WriteString(alphabet[rng.IntN(len(alphabet))])
		}
		parts = append(parts, types[rng.IntN(len(types))]+"="+sb.String())
	}
	return strings.Join(parts, ",")
}

// ---------------------------------------------------------------------------------
// generators

func randBytes(rng *rand.Rand, n int) []byte {
	b := make([]byte, n)
	for i := range b {
		b[i] = byte(rng.UintN(256))
	}
	return b
}

var modLens = []int{1, 2, 3, 7, 8, 63, 64, 65, 127, 128, 129, 255, 256, 257, 383, 384, 511, 512}
var exps = []uint32{1, 3, 17, 65537, 1<<32 - 1, 1 << 31, 0x01000001}
var versions = []uint32{0x0, 0x100, 0x200}
var tickBounds = []uint64{1, 2, 116444736000000000, 133920597255298050, 1<<63 - 1, 1 << 63, 1<<64 - 1, 0x0102030405060708, 0xFF, 0xFF00000000000000}

func devBoundary(i int) guid.GUID {
	switch i % 6 {
	case 0:
		return guid.GUID{}
	case 1:
		return guid.GUID{A: 0xFFFFFFFF, B: 0xFFFF, C: 0xFFFF, D: 0xFFFF, E: 0xFFFFFFFFFFFF}
	case 2:
		return guid.GUID{A: 0x01020304, B: 0x0506, C: 0x0708, D: 0x090A, E: 0x0B0C0D0E0F10}
	case 3:
		return guid.GUID{A: 0x80000000, B: 0x8000, C: 0x8000, D: 0x8000, E: 0x800000000000}
	case 4:
		return guid.GUID{A: 1, B: 1, C: 1, D: 1, E: 1}
	}
	return guid.GUID{A: 0x00FF00FF, B: 0xFF00, C: 0x00FF, D: 0xFF00, E: 0x00FF00FF00FF}
}

func makeCase(rng *rand.Rand, i int, boundary bool) *kcCase {
	c := &kcCase{Tag: "random"}
	if boundary {
		c.Tag = "boundary"
		c.Version = versions[i%3]
		n := modLens[i%len(modLens)]
		c.Exp = exps[(i/3)%len(exps)]
		c.Mod = randBytes(rng, n)
		switch i % 5 {
		case 0:
			c.Mod[0] = 0 // leading zero octet
		case 1:
			c.Mod[0] |= 0x80
		case 2:
			for k := range c.Mod {
				c.Mod[k] = 0xFF
			}
		}
		if i%4 == 1 {
			c.P1, c.P2 = randBytes(rng, (n+1)/2), randBytes(rng, (n+1)/2)
		}
		if i%8 == 7 {
			c.P1, c.P2 = nil, randBytes(rng, 1+n/2) // the second prime only
		}
		if i%8 == 3 {
			c.P1, c.P2 = randBytes(rng, 1+n/2), nil // one prime only
		}
		c.KeySize = uint32(n * 8)
		if i%7 == 0 {
			c.KeySize = []uint32{0, 1, 2048, 1<<32 - 1}[(i/7)%4]
		}
		c.Dev = devBoundary(i)
		c.LastLogon = tickBounds[i%len(tickBounds)]
		c.Creation = tickBounds[(i/2+3)%len(tickBounds)]
		return c
	}
	c.Version = versions[rng.IntN(3)]
	n := 1 + rng.IntN(512)
	if rng.IntN(3) == 0 {
		n = []int{128, 256, 384, 512}[rng.IntN(4)]
	}
	c.Mod = randBytes(rng, n)
	if rng.IntN(8) == 0 {
		c.Mod[0] = 0
	}
	c.Exp = exps[rng.IntN(len(exps))]
	if rng.IntN(3) == 0 {
		c.Exp = rng.Uint32()
	}
	if rng.IntN(3) == 0 {
		c.P1, c.P2 = randBytes(rng, 1+rng.IntN(n)), randBytes(rng, 1+rng.IntN(n))
	}
	c.KeySize = uint32(n * 8)
	if rng.IntN(10) == 0 {
		c.KeySize = rng.Uint32()
	}
	c.Dev = guid.GUID{A: rng.Uint32(), B: uint16(rng.Uint32()), C: uint16(rng.Uint32()), D: uint16(rng.Uint32()), E: rng.Uint64() & 0xFFFFFFFFFFFF}
	c.LastLogon = rng.Uint64()
	if c.LastLogon == 0 {
		c.LastLogon = 1
	}
	c.Creation = 1 + rng.Uint64N(1<<63)
	if rng.IntN(2) == 0 {
		c.Creation = 116444736000000000 + rng.Uint64N(40*365*864000000000) // 1970..2010+
	}
	return c
}

// runLegacy: a credential that also carries the legacy, string-valued KeyUsage entry (a second
// entry with identifier 4): both usage entries are content, parse back and re-serialise.
func runLegacy(c *kcCase, legacy string) {
	exp := []byte{byte(c.Exp >> 24), byte(c.Exp >> 16), byte(c.Exp >> 8), byte(c.Exp)}
	material := refBuildRSA(c.KeySize, exp, c.Mod, c.P1, c.P2)
	dev := refGUIDPacket(c.Dev.A, c.Dev.B, c.Dev.C, c.Dev.D, c.Dev.E)
	entry := func(id byte, v []byte) []byte { return append(append(put16(len(v)), id), v...) }
	var tail []byte
	tail = append(tail, entry(3, material)...)
	tail = append(tail, entry(4, []byte{1})...)
	tail = append(tail, entry(4, []byte(legacy))...)
	tail = append(tail, entry(5, []byte{0})...)
	tail = append(tail, entry(6, dev)...)
	tail = append(tail, entry(7, []byte{1, 0})...)
	tail = append(tail, entry(8, put64(c.LastLogon))...)
	tail = append(tail, entry(9, put64(c.Creation))...)
	kid := sha256.Sum256(material)
	kh := sha256.Sum256(tail)
	blob := put32(c.Version)
	blob = append(blob, entry(1, kid[:])...)
	blob = append(blob, entry(2, kh[:])...)
	blob = append(blob, tail...)
	cs := c.json()
	cs["blob_hex"], cs["legacy_usage"] = mon.FullHex(blob), legacy
	guard("KeyCredential.legacy", cs, func() {
		var k kcl.KeyCredential
		err := k.FromBytes(append([]byte{}, blob...))
		ev(1)
		if err != nil {
			r.Violation("KeyCredential.FromBytes:accept-foreign:legacy-usage", fmt.Sprintf("FromBytes(blob with a legacy KeyUsage entry %q): %v", legacy, err), cs)
			return
		}
		if k.LegacyUsage != legacy || k.Usage.Value != 1 {
			r.Violation("KeyCredential.FromBytes:field:legacy-usage", fmt.Sprintf("LegacyUsage=%q Usage=%d, the blob carries usage 1 and the legacy entry %q", k.LegacyUsage, k.Usage.Value, legacy), cs)
		}
		if !k.CheckIntegrity() {
			r.Violation("KeyCredential.CheckIntegrity:foreign", "CheckIntegrity() is false on an untouched reference blob with a legacy KeyUsage entry", cs)
		}
		again, err := k.ToBytes()
		ev(2)
		if err != nil || !bytes.Equal(again, blob) {
			r.Violation("KeyCredential.ToBytes:reserialize-foreign:legacy-usage", fmt.Sprintf("re-serialisation of a blob with the legacy KeyUsage entry %q differs at offset %d (err=%v)", legacy, firstDiff(blob, again), err), cs)
		}
	})
	r.Nontrivial(fmt.Sprintf("legacy|%s|%s", c.fingerprint(), legacy))
}

// CustomKeyInformation forms per MS-ADTS 2.2.20.6: two bytes, or the full structure (19 bytes + extension).
func ckiForms(rng *rand.Rand) (forms [][]byte, classes []string) {
	add := func(b []byte, c string) { forms = append(forms, b); classes = append(classes, c) }
	add([]byte{1, 0}, "short")
	add([]byte{1, 2}, "short")
	add([]byte{1, 1}, "short")
	full := func(ext int) []byte {
		b := []byte{1, byte(rng.UintN(4)), byte(rng.UintN(4)), byte(rng.UintN(2)), byte(rng.UintN(256))}
		b = append(b, put32(uint32(rng.UintN(3)))...)
		b = append(b, randBytes(rng, 10)...)
		return append(b, randBytes(rng, ext)...)
	}
	add(full(0), "full")
	// every byte of the 32-bit strength distinct, its sign bit, all ones (documented values are 0..2)
	for _, st := range []uint32{0x04030201, 0x80000000, 0xFFFFFFFF, 0x00FF0000, 0x01000000, rng.Uint32()} {
		b := full(0)
		copy(b[5:9], put32(st))
		add(b, "full")
	}
	// flag octets with bits outside the two defined ones (0x01 attestation, 0x02 MFA not used): a blob that
	// carries them is read with exactly that octet and re-serialises to the same bytes (C14-r9-2)
	for _, fl := range []byte{0x04, 0x80, 0xFC, 0xFF, 0x07, byte(4 + rng.UintN(252))} {
		add([]byte{1, fl}, "short-reserved-flags")
		b := full(0)
		b[1] = fl
		add(b, "full-reserved-flags")
	}
	add(full(1), "full-ext")
	add(full(2), "full-ext")
	add(full(1+rng.IntN(40)), "full-ext")
	return
}

func worker(lo, hi int, tamperEvery int) {
	for i := lo; i < hi; i++ {
		rng := r.Rand("case-" + strconv.Itoa(i))
		c := makeCase(rng, i, false)
		doT := tamperEvery > 0 && i%tamperEvery == 0
		blob := runBuilt(c, doT, false)
		if i%4 == 0 {
			forms, classes := ckiForms(rng)
			j := rng.IntN(len(forms))
			usage := []byte{0, 1, 2, 3, 4, 7, 8, 9, 0xFF}[rng.IntN(9)]
			runForeign(c, usage, byte(rng.IntN(2)), forms[j], classes[j], doT && i%(4*tamperEvery) == 0)
		}
		if blob != nil && i%3 == 0 {
			checkDN(randDN(rng), blob, true)
		}
		if i%5 == 0 {
			checkDN(randDN(rng), randBytes(rng, rng.IntN(40)), false)
		}
	}
}

func main() {
	r = mon.Start("C14", "exploration")
	// a local zone that is not UTC: tick conversions must not depend on it
	time.Local = time.FixedZone("VERIF+0545", 5*3600+45*60)
	r.SetExhaustive(true)
	r.Rule("Credentials built with NewKeyCredential from boundary and seeded RSA material (modulus 1..512 octets incl. leading zero / all-ones, exponents 1..2^32-1, primes absent / both / one), the three versions, boundary and random device GUIDs and tick values: the blob is read by an independent MS-ADTS parser, parsed back by the library, re-serialised, integrity-checked; reference-built blobs with other usages/sources/CustomKeyInformation forms are read, re-serialised and integrity-checked by the library; DN-with-binary strings over DNs containing ':' ',' '\\' '=' '+' and non-ASCII. Exhaustive sub-domain: EVERY single-bit flip of every blob selected for tampering (all boundary credentials, every k-th random one). Non-trivial: each distinct credential (version, exponent, modulus, primes, device, ticks), reference blob variant, and DN string. State monitors (state.go): one KeyCredential reused as the parse target over chains of pool blobs (largest/smallest alternating, pool order, seeded permutations): genuine blob checked, single-bit-tampered copies of it into the same target, genuine again, a target built by NewKeyCredential; the same for RSAKeyMaterial, CustomKeyInformation and DNWithBinary targets; fields assigned and serialised with no call in between; returned slices held and re-compared. Each (chain, blob, step kind) counts once.")
	r.Assume(
		"crypto/sha256, encoding/hex, encoding/base64 of the Go standard library are correct",
		"the entry layout, KeyID = SHA-256(KeyMaterial value) and KeyHash = SHA-256(everything after the KeyHash entry) are taken from MS-ADTS 2.2.20; CUSTOM_KEY_INFORMATION has the 2-byte or the >=19-byte form",
		"the public exponent is written on four big-endian octets by the library (cbPublicExp=4); the reference accepts any width when reading and uses four when writing, so byte-identical re-serialisation is demanded only for that width",
		"tick value 0 is the documented 'now' sentinel of NewDateTime and is not generated",
		"a flip before the KeyHash value (version, KeyID entry, KeyHash entry header) is outside the hash's coverage: counted, not judged",
		"a panic of FromBytes on a tampered blob is counted as 'not decided' (decoder totality is C07's property)",
		"LegacyUsage (a KeyUsage entry longer than one byte) is not generated",
	)
	// ---- deterministic boundary credentials, all tampered exhaustively
	nb := r.Pick(36, 126)
	var wg sync.WaitGroup
	sem := make(chan struct{}, 16)
	for i := 0; i < nb; i++ {
		wg.Add(1)
		sem <- struct{}{}
		go func() {
			defer func() { <-sem; wg.Done() }()
			rng := r.Rand("boundary-" + strconv.Itoa(i))
			c := makeCase(rng, i, true)
			blob := runBuilt(c, true, i < 6)
			forms, classes := ckiForms(rng)
			for j := range forms {
				usage := []byte{0, 1, 2, 3, 4, 7, 8, 9, 0xFF}[(i+j)%9]
				runForeign(c, usage, byte((i+j)%2), forms[j], classes[j], j == i%len(forms))
			}
			runLegacy(c, []string{"NGC", "FIDO", "FEK", "ab", strings.Repeat("L", 300)}[i%5])
			if i%3 == 0 {
				noKeyID(c, []byte{1, 2, 7}[i%3], byte(i%2))
			}
			if blob != nil {
				checkDN(dnBoundary[i%len(dnBoundary)], blob, true)
			}
		}()
	}
	wg.Wait()
	for i, dn := range dnBoundary {
		if i < 6 {
			// binary parts across the sizes where the hex-digit count needs 5 and 6 decimal digits
			// and passes 65535 / 131071
			for _, n := range []int{4999, 5000, 32767, 32768, 49999, 50000, 65535, 65536, 70001} {
				big := make([]byte, n)
				for k := range big {
					big[k] = byte(k*7 + i)
				}
				checkDN(dn, big, false)
			}
		}
		checkDN(dn, []byte("Hello"), false)
		checkDN(dn, nil, false)
		checkDN(dn, []byte{byte(i), 0x3A, 0x00, 0xFF}, false)
		if i < 4 {
			r.Sample(map[string]any{"kind": "DN-with-binary", "dn": dn, "text": "B:10:48656c6c6f:" + dn})
		}
	}
	// ---- state.go: receiver reuse (genuine-then-tampered-then-genuine), stale fields, held outputs
	wg.Add(1)
	go func() { defer wg.Done(); stateMonitors() }()
	// ---- a credential from a real RSA key generated by the library itself
	for _, bits := range []int{1024, 2048} {
		cert, err := kccrypto.NewX509Certificate("CN=verif", bits, time.Unix(1700000000, 0), time.Unix(1800000000, 0))
		if err != nil {
			r.Count("x509_generation_failed(not judged)", 1)
			continue
		}
		m := cert.GetRSAKeyMaterial()
		c := &kcCase{Version: 0x200, Exp: m.Exponent, Mod: m.Modulus, KeySize: m.KeySize, Dev: *guid.NewGUID(), LastLogon: 133920597255298050, Creation: 133920597255298050, Tag: "library-generated RSA key"}
		c.Dev.E &= 0xFFFFFFFFFFFF
		runBuilt(c, true, true)
	}
	// ---- seeded random remainder
	n := r.Pick(3000, 60000)
	tamperEvery := r.Pick(100, 32) // 30 quick / 1875 thorough random credentials tampered exhaustively
	workers := 16
	for w := 0; w < workers; w++ {
		wg.Add(1)
		go func() { defer wg.Done(); worker(w*n/workers, (w+1)*n/workers, tamperEvery) }()
	}
	wg.Wait()
	r.Eval(int(evals.Load()))
	r.Count("tamper_flips", int(flips.Load()))
	r.Count("cut_short_blobs_parsed_into_used_targets", int(cutShort.Load()))
	r.Count("tamper_flips_in_covered_region", int(flipsCovered.Load()))
	r.Count("tamper_detected_by_error", int(flipsDetectedByError.Load()))
	r.Count("tamper_detected_by_hash", int(flipsDetectedByHash.Load()))
	r.Count("tamper_flips_outside_coverage(not judged)", int(flipsUncovered.Load()))
	r.Count("tamper_decoder_panics(not decided, C07)", int(flipsPanic.Load()))
	r.Finish()
}
