package main

// State-carry-over and aliasing monitors for C14.
//
// main.go parses every blob into a fresh KeyCredential and drops every result at once. Here:
//
//	receiver reuse - ONE KeyCredential is the parse target for a whole chain of blobs: a genuine blob
//	                 (checked), then a copy with one covered bit flipped (must be refused or fail the
//	                 integrity check although the target has just computed the genuine hash), then a
//	                 genuine blob again (must pass although the target has just computed a tampered hash);
//	                 large credentials before small ones, credentials with primes before ones without.
//	                 After every genuine parse the fields, ComputeKeyHash, CheckIntegrity and ToBytes must be
//	                 what a fresh target gives (expected values come from the case and from ref.go).
//	                 The same for RSAKeyMaterial.FromBytes, CustomKeyInformation.FromBytes, DNWithBinary.Parse.
//	stale fields   - parse or build, assign fields directly, ToBytes() with no call in between: the entries of
//	                 the blob (read by the independent parser) must show the current fields.
//	held outputs   - slices returned by ToBytes/ComputeKeyHash/RSAKeyMaterial.ToBytes/DateTime.ToBytes/
//	                 ConvertToBinaryIdentifier are kept in a ring of 64 and compared again later.
//	input scribble - FromBytes is documented by its code to keep sub-slices of the caller's buffer (RawBytes,
//	                 KeyHash, Modulus, Prime1/2 alias the input); overwriting the buffer afterwards changes the
//	                 parsed credential on the unchanged tree. That is counted as an observation and reported,
//	                 not judged (judgeInputAliasing).

import (
	"bytes"
	"crypto/sha256"
	"fmt"
	"math/rand/v2"
	"strconv"
	"sync"

	kcl "github.com/TheManticoreProject/Manticore/windows/keycredential"
	kccrypto "github.com/TheManticoreProject/Manticore/windows/keycredential/crypto"
	kckey "github.com/TheManticoreProject/Manticore/windows/keycredential/key"
	kcutils "github.com/TheManticoreProject/Manticore/windows/keycredential/utils"

	"github.com/TheManticoreProject/Manticore/windows/guid"

	"verif/mon"
)

const judgeInputAliasing = false

// ---------------------------------------------------------------------------------
// held outputs

type heldOut struct {
	entry, input string
	out, want    []byte
}

type heldRing struct {
	mu   sync.Mutex
	ring [64]*heldOut
	n    int
}

func (h *heldRing) verify(e *heldOut, when string) {
	if e == nil {
		return
	}
	ev(1)
	if !bytes.Equal(e.out, e.want) {
		r.Violation(e.entry+":held-output-changed", fmt.Sprintf("the slice returned by %s (%s) read %s when it was returned and reads %s %s", e.entry, e.input, mon.Hex(e.want), mon.Hex(e.out), when),
			map[string]any{"entry": e.entry, "input": e.input, "returned": mon.FullHex(e.want), "now": mon.FullHex(e.out), "when": when})
		e.want = append([]byte{}, e.out...)
	}
}

func (h *heldRing) hold(entry string, out []byte, input string) {
	h.mu.Lock()
	defer h.mu.Unlock()
	e := &heldOut{entry: entry, input: input, out: out, want: append([]byte{}, out...)}
	slot := h.n % len(h.ring)
	h.verify(h.ring[slot], "64 calls later")
	if h.n > 0 {
		h.verify(h.ring[(h.n-1)%len(h.ring)], "after the next call")
	}
	h.ring[slot] = e
	h.n++
}

func (h *heldRing) final() {
	h.mu.Lock()
	defer h.mu.Unlock()
	for _, e := range h.ring {
		h.verify(e, "at the end of the run")
	}
}

var held heldRing
var aliasObserved = map[string]int{}
var legacyCarried int

// ---------------------------------------------------------------------------------
// pool of blobs with known content

type knownBlob struct {
	blob          []byte
	c             *kcCase
	usage, source byte
	cki           []byte
	id            string
	material      []byte
	rb            *refBlob
	hash          []byte
	name          string
}

func (kb *knownBlob) cs(extra map[string]any) map[string]any {
	m := map[string]any{"blob_hex": mon.FullHex(kb.blob), "blob": kb.name}
	for k, v := range extra {
		m[k] = v
	}
	return m
}

func makeKnown(c *kcCase, usage, source byte, cki []byte, viaLibrary bool, name string) *knownBlob {
	exp := []byte{byte(c.Exp >> 24), byte(c.Exp >> 16), byte(c.Exp >> 8), byte(c.Exp)}
	kb := &knownBlob{c: c, usage: usage, source: source, cki: cki, name: name}
	kb.material = refBuildRSA(c.KeySize, exp, c.Mod, c.P1, c.P2)
	kid := sha256.Sum256(kb.material)
	kb.id = encodeID(c.Version, kid[:])
	if viaLibrary {
		// the library's own serialiser (already judged by runBuilt); usage NGC, source AD, CustomKeyInformation {1,0}
		kb.usage, kb.source, kb.cki = kckey.KeyUsage_NGC, 0, []byte{1, 0}
		material := kccrypto.RSAKeyMaterial{Exponent: c.Exp, Modulus: c.Mod, Prime1: c.P1, Prime2: c.P2, KeySize: c.KeySize}
		ok := false
		mon.Guard(func() {
			k := kcl.NewKeyCredential(kckey.KeyCredentialVersion{Value: c.Version}, kb.id, material, c.Dev, kcutils.NewDateTime(c.LastLogon), kcutils.NewDateTime(c.Creation))
			b, err := k.ToBytes()
			if err == nil {
				kb.blob, ok = b, true
			}
		})
		if !ok {
			return nil
		}
	} else {
		kb.blob = refBuild(c.Version, kb.material, usage, source, refGUIDPacket(c.Dev.A, c.Dev.B, c.Dev.C, c.Dev.D, c.Dev.E), cki, c.LastLogon, c.Creation)
	}
	rb, err := refParse(kb.blob)
	if err != nil {
		return nil
	}
	kb.rb = rb
	h, ok := refKeyHash(kb.blob, rb)
	if !ok {
		return nil
	}
	kb.hash = h
	return kb
}

func (kb *knownBlob) flags() byte {
	if len(kb.cki) >= 2 {
		return kb.cki[1]
	}
	return 0
}

// parseGenuine parses kb into k (which has a history) and demands what a fresh target gives.
// strict: the history of the target holds genuine blobs of the pool only, so the re-serialisation must be
// byte-identical too. After tampered copies (which may have parsed a multi-byte KeyUsage entry into
// LegacyUsage, a field FromBytes never clears on the unchanged tree) only fields, hash and integrity are demanded.
func parseGenuine(k *kcl.KeyCredential, kb *knownBlob, history string, strict bool) bool {
	cs := kb.cs(map[string]any{"history_of_the_target": history})
	okAll := false
	guard("KeyCredential.FromBytes", cs, func() {
		buf := append([]byte{}, kb.blob...)
		err := k.FromBytes(buf)
		ev(1)
		if err != nil {
			r.Violation("KeyCredential.FromBytes:reused-receiver:accept", fmt.Sprintf("FromBytes(genuine blob %s) into a target with history [%s]: %v", kb.name, history, err), cs)
			return
		}
		c := kb.c
		checkParsed("KeyCredential.FromBytes:reused-receiver", k, c.Version, kb.id, uint64(c.Exp), c.Mod, c.P1, c.P2, c.KeySize, kb.usage, kb.source, &c.Dev, c.LastLogon, c.Creation, kb.flags(), cs)
		if !bytes.Equal(k.KeyHash, kb.hash) {
			r.Violation("KeyCredential.FromBytes:reused-receiver:field:keyhash", fmt.Sprintf("KeyHash=%x want %x", k.KeyHash, kb.hash), cs)
		}
		h := k.ComputeKeyHash()
		ev(1)
		if !bytes.Equal(h, kb.hash) {
			r.Violation("KeyCredential.ComputeKeyHash:reused-receiver", fmt.Sprintf("ComputeKeyHash() = %x after parsing %s into a target with history [%s]; SHA-256 of the bytes after the KeyHash entry is %x", h, kb.name, history, kb.hash), cs)
		}
		held.hold("KeyCredential.ComputeKeyHash", h, kb.name)
		ok := k.CheckIntegrity()
		ev(1)
		if !ok {
			r.Violation("KeyCredential.CheckIntegrity:reused-receiver:genuine-rejected", fmt.Sprintf("CheckIntegrity() is false on the untouched blob %s parsed into a target with history [%s]", kb.name, history), cs)
		}
		again, err := k.ToBytes()
		ev(1)
		if !strict && k.LegacyUsage != "" {
			legacyCarried++
			k.LegacyUsage = ""
		} else if err != nil || !bytes.Equal(again, kb.blob) {
			r.Violation("KeyCredential.ToBytes:reused-receiver:"+diffRegion(kb.blob, again, kb.rb), fmt.Sprintf("re-serialisation of %s parsed into a target with history [%s] differs at offset %d (%s), err=%v", kb.name, history, firstDiff(kb.blob, again), diffRegion(kb.blob, again, kb.rb), err), cs)
		}
		held.hold("KeyCredential.ToBytes", again, kb.name)
		okAll = true
		// input scribble (observation on the unchanged tree, see the file comment)
		before := snapshot(k)
		for i := range buf {
			buf[i] = 0xAA
		}
		after := snapshot(k)
		for f, v := range before {
			if after[f] != v {
				if judgeInputAliasing {
					r.Violation("KeyCredential.FromBytes:input-aliased:"+f, fmt.Sprintf("overwriting the caller's buffer after FromBytes changed %s", f), cs)
				} else {
					aliasObserved[f]++
				}
			}
		}
		// leave the target consistent for the next step
		k.FromBytes(append([]byte{}, kb.blob...))
	})
	return okAll
}

func snapshot(k *kcl.KeyCredential) map[string]string {
	return map[string]string{
		"Identifier": k.Identifier, "KeyHash": string(k.KeyHash), "Modulus": string(k.RawKeyMaterial.Modulus),
		"Prime1": string(k.RawKeyMaterial.Prime1), "Prime2": string(k.RawKeyMaterial.Prime2), "RawBytes": string(k.RawBytes),
		"DeviceId": k.DeviceId.ToFormatN(), "Ticks": fmt.Sprint(k.LastLogonTime.Ticks, k.CreationTime.Ticks),
		"CustomKeyInfo.Reserved": string(k.CustomKeyInfo.Reserved), "CustomKeyInfo.EncodedExtendedCKI": string(k.CustomKeyInfo.EncodedExtendedCKI),
	}
}

// parseTampered flips one covered bit of kb and parses the copy into k; the tampering must be noticed.
func parseTampered(k *kcl.KeyCredential, kb *knownBlob, bit int, history string, callHashOnly bool) {
	kh, _ := kb.rb.find(2)
	lo := kh.End * 8
	span := len(kb.blob)*8 - lo
	if span <= 0 {
		return
	}
	bit = lo + bit%span
	t := append([]byte{}, kb.blob...)
	t[bit/8] ^= 1 << uint(bit%8)
	cs := kb.cs(map[string]any{"history_of_the_target": history, "bit": bit, "offset": bit / 8, "region": regionAt(bit/8, kb.rb)})
	var err error
	var intact bool
	var h []byte
	p := quietGuard(func() {
		err = k.FromBytes(t)
		if err == nil {
			if callHashOnly {
				h = k.ComputeKeyHash()
				intact = bytes.Equal(h, k.KeyHash)
			} else {
				intact = k.CheckIntegrity()
			}
		}
	})
	ev(1)
	flips.Add(1)
	switch {
	case p:
		flipsPanic.Add(1)
	case err != nil:
		flipsCovered.Add(1)
		flipsDetectedByError.Add(1)
	case !intact:
		flipsCovered.Add(1)
		flipsDetectedByHash.Add(1)
	default:
		flipsCovered.Add(1)
		r.Violation("KeyCredential.CheckIntegrity:reused-receiver:tamper-undetected", fmt.Sprintf("target history [%s]; then the same blob with bit %d of byte %d (%s) flipped parsed into the same target: FromBytes returns no error and the integrity check passes", history, bit%8, bit/8, regionAt(bit/8, kb.rb)), cs)
	}
}

func keyCredentialChain(pool []*knownBlob, order []int, rng *rand.Rand, tag string) {
	var k kcl.KeyCredential
	history := "fresh"
	for s, idx := range order {
		kb := pool[idx]
		if !parseGenuine(&k, kb, history, true) {
			k = kcl.KeyCredential{}
			history = "fresh"
			continue
		}
		history = "parsed+checked " + kb.name
		switch s % 4 {
		case 0, 2:
			// genuine-then-tampered in the same target, several bits
			for j := 0; j < 3; j++ {
				parseTampered(&k, kb, int(rng.Uint32()>>1), history, s%4 == 2 && j == 0)
				history = "parsed+checked " + kb.name + ", then tampered copies of it"
			}
			// tampered-then-genuine
			if parseGenuine(&k, kb, history, false) {
				history = "parsed+checked " + kb.name
			}
		case 1:
			// blobs cut short (refused somewhere along the entries) in between; the next iteration
			// parses another genuine blob right away (big-then-small etc.)
			for _, cut := range []int{len(kb.blob) - 1, len(kb.blob) / 2, 7, 4, 0} {
				if cut >= 0 && cut < len(kb.blob) {
					quietGuard(func() { k.FromBytes(append([]byte{}, kb.blob[:cut]...)) })
					cutShort.Add(1)
				}
			}
			history = "parsed+checked " + kb.name + ", then copies of it cut short"
			if parseGenuine(&k, kb, history, false) {
				history = "parsed+checked " + kb.name
			}
		case 3:
			// a target that was BUILT (NewKeyCredential computes the hash of its own serialisation)
			c := pool[order[(s+1)%len(order)]].c
			material := kccrypto.RSAKeyMaterial{Exponent: c.Exp, Modulus: c.Mod, Prime1: c.P1, Prime2: c.P2, KeySize: c.KeySize}
			var built *kcl.KeyCredential
			mon.Guard(func() {
				built = kcl.NewKeyCredential(kckey.KeyCredentialVersion{Value: c.Version}, kb.id, material, c.Dev, kcutils.NewDateTime(c.LastLogon), kcutils.NewDateTime(c.Creation))
				built.CheckIntegrity()
			})
			if built != nil {
				h2 := "built with NewKeyCredential from other material, checked"
				parseTampered(built, kb, int(rng.Uint32()>>1), h2, false)
				parseGenuine(built, kb, h2+", then a tampered copy of "+kb.name, false)
			}
		}
		r.Nontrivial("kc-chain|" + tag + "|" + kb.name + "|" + strconv.Itoa(s%4))
	}
}

// ---------------------------------------------------------------------------------
// stale fields: assign, then ToBytes with no call in between

func staleKeyCredential(kb *knownBlob, other *knownBlob, viaBuild bool, rng *rand.Rand) {
	cs := kb.cs(map[string]any{"fields_taken_from": other.name, "built": viaBuild})
	guard("KeyCredential.ToBytes", cs, func() {
		var k *kcl.KeyCredential
		c, o := kb.c, other.c
		how := "FromBytes(" + kb.name + ")"
		if viaBuild {
			how = "NewKeyCredential"
			material := kccrypto.RSAKeyMaterial{Exponent: c.Exp, Modulus: c.Mod, Prime1: c.P1, Prime2: c.P2, KeySize: c.KeySize}
			k = kcl.NewKeyCredential(kckey.KeyCredentialVersion{Value: c.Version}, kb.id, material, c.Dev, kcutils.NewDateTime(c.LastLogon), kcutils.NewDateTime(c.Creation))
		} else {
			k = &kcl.KeyCredential{}
			if err := k.FromBytes(append([]byte{}, kb.blob...)); err != nil {
				return
			}
			if rng.IntN(2) == 0 {
				k.CheckIntegrity()
				k.ToBytes()
			}
		}
		// direct assignments
		k.DeviceId = o.Dev
		k.LastLogonTime = kcutils.NewDateTime(o.LastLogon)
		k.CreationTime.Ticks = o.Creation
		k.Usage.Value = other.usage
		k.Source = kckey.KeySource(other.source)
		k.CustomKeyInfo.Flags.Value = other.flags() ^ 0x03
		k.RawKeyMaterial.Modulus = append([]byte{}, o.Mod...)
		k.RawKeyMaterial.Exponent = o.Exp
		k.RawKeyMaterial.KeySize = o.KeySize
		k.RawKeyMaterial.Prime1, k.RawKeyMaterial.Prime2 = append([]byte{}, o.P1...), append([]byte{}, o.P2...)
		out, err := k.ToBytes()
		ev(1)
		if err != nil {
			r.Violation("KeyCredential.ToBytes:stale-fields:error", fmt.Sprintf("%s, fields assigned, ToBytes(): %v", how, err), cs)
			return
		}
		held.hold("KeyCredential.ToBytes", out, kb.name+" with fields of "+other.name)
		rb, perr := refParse(out)
		if perr != nil {
			r.Violation("KeyCredential.ToBytes:stale-fields:structure", fmt.Sprintf("%s, fields assigned, ToBytes() is not a well-formed entry list: %v", how, perr), cs)
			return
		}
		want := map[byte][]byte{3: other.material, 4: {other.usage}, 5: {other.source},
			6: refGUIDPacket(o.Dev.A, o.Dev.B, o.Dev.C, o.Dev.D, o.Dev.E), 8: put64(o.LastLogon), 9: put64(o.Creation)}
		if rb.Version != c.Version {
			r.Violation("KeyCredential.ToBytes:stale-fields:version", fmt.Sprintf("version %#x want %#x", rb.Version, c.Version), cs)
		}
		for id := byte(3); id <= 9; id++ {
			e, n := rb.find(id)
			if n != 1 {
				r.Violation("KeyCredential.ToBytes:stale-fields:entry-count:"+entryNames[id], fmt.Sprintf("%d %s entries", n, entryNames[id]), cs)
				continue
			}
			if id == 7 {
				if len(e.Value) < 2 || e.Value[1] != other.flags()^0x03 {
					r.Violation("KeyCredential.ToBytes:stale-fields:CustomKeyInformation", fmt.Sprintf("%s, CustomKeyInfo.Flags.Value=%#x assigned, ToBytes() writes CustomKeyInformation %x", how, other.flags()^0x03, e.Value), cs)
				}
				continue
			}
			if !bytes.Equal(e.Value, want[id]) {
				r.Violation("KeyCredential.ToBytes:stale-fields:"+entryNames[id], fmt.Sprintf("%s, fields assigned, ToBytes() writes %s = %s, the fields say %s", how, entryNames[id], mon.Hex(e.Value), mon.Hex(want[id])), cs)
			}
		}
		if e, n := rb.find(2); n != 1 || !bytes.Equal(e.Value, k.KeyHash) {
			r.Violation("KeyCredential.ToBytes:stale-fields:KeyHash", fmt.Sprintf("KeyHash entry %x is not the KeyHash field %x", e.Value, k.KeyHash), cs)
		}
	})
}

// ---------------------------------------------------------------------------------
// the smaller parsers with a receiver

func rsaChain(pool []*knownBlob, order []int) {
	var rk kccrypto.RSAKeyMaterial
	prev := "nothing"
	for _, idx := range order {
		kb := pool[idx]
		c := kb.c
		cs := kb.cs(map[string]any{"previous_in_same_target": prev})
		guard("RSAKeyMaterial.FromBytes", cs, func() {
			err := rk.FromBytes(append([]byte{}, kb.material...))
			ev(1)
			if err != nil {
				r.Violation("RSAKeyMaterial.FromBytes:reused-receiver:accept", fmt.Sprintf("FromBytes: %v", err), cs)
				return
			}
			if rk.Exponent != c.Exp || !bytes.Equal(rk.Modulus, c.Mod) || !bytes.Equal(rk.Prime1, c.P1) || !bytes.Equal(rk.Prime2, c.P2) || rk.KeySize != c.KeySize {
				r.Violation("RSAKeyMaterial.FromBytes:reused-receiver:fields", fmt.Sprintf("FromBytes(material of %s) into a target that had parsed %s = e=%d n=%d bytes p=%d q=%d bits=%d", kb.name, prev, rk.Exponent, len(rk.Modulus), len(rk.Prime1), len(rk.Prime2), rk.KeySize), cs)
			}
			out := rk.ToBytes()
			ev(1)
			if !bytes.Equal(out, kb.material) {
				r.Violation("RSAKeyMaterial.ToBytes:reused-receiver", fmt.Sprintf("ToBytes() after FromBytes(material of %s) into a target that had parsed %s differs at offset %d", kb.name, prev, firstDiff(out, kb.material)), cs)
			}
			held.hold("RSAKeyMaterial.ToBytes", out, kb.name)
			// stale: assign, serialise
			o := pool[order[(idx+1)%len(order)]]
			rk.Modulus, rk.Prime1, rk.Prime2, rk.Exponent, rk.KeySize = append([]byte{}, o.c.Mod...), o.c.P1, o.c.P2, o.c.Exp, o.c.KeySize
			out2 := rk.ToBytes()
			ev(1)
			if !bytes.Equal(out2, o.material) {
				r.Violation("RSAKeyMaterial.ToBytes:stale-fields", fmt.Sprintf("FromBytes(material of %s), fields of %s assigned, ToBytes() differs from the assigned fields at offset %d", kb.name, o.name, firstDiff(out2, o.material)), cs)
			}
			held.hold("RSAKeyMaterial.ToBytes", out2, o.name)
		})
		prev = kb.name
	}
}

func ckiChain(rng *rand.Rand, n int) {
	var cki kckey.CustomKeyInformation
	prev := "nothing"
	for i := 0; i < n; i++ {
		forms, classes := ckiForms(rng)
		// long before short, short before long
		for _, j := range []int{len(forms) - 1, 0, 3, 1, 4, 2, 5} {
			f := forms[j]
			cs := map[string]any{"cki_hex": mon.FullHex(f), "previous_in_same_target": prev, "class": classes[j]}
			guard("CustomKeyInformation.FromBytes", cs, func() {
				err := cki.FromBytes(append([]byte{}, f...), kckey.KeyCredentialVersion{Value: 0x200})
				ev(1)
				if err != nil {
					r.Violation("CustomKeyInformation.FromBytes:reused-receiver:accept", fmt.Sprintf("FromBytes(%x): %v", f, err), cs)
					return
				}
				out := cki.ToBytes()
				ev(1)
				if !bytes.Equal(out, f) || cki.Flags.Value != f[1] {
					r.Violation("CustomKeyInformation.ToBytes:reused-receiver", fmt.Sprintf("FromBytes(%x) into a target that had parsed %s, ToBytes() = %x", f, prev, out), cs)
				}
				held.hold("CustomKeyInformation.ToBytes", out, fmt.Sprintf("%x", f))
			})
			prev = fmt.Sprintf("%x", f)
		}
	}
}

func dnChain(pool []*knownBlob, rng *rand.Rand, n int) {
	var p kcl.DNWithBinary
	prev := "nothing"
	for i := 0; i < n; i++ {
		dn := dnBoundary[i%len(dnBoundary)]
		if i >= len(dnBoundary) {
			dn = randDN(rng)
		}
		var bin []byte
		switch i % 3 {
		case 0:
			bin = pool[i%len(pool)].blob
		case 1:
			bin = randBytes(rng, rng.IntN(6))
		}
		text := "B:" + strconv.Itoa(len(bin)*2) + ":" + fmt.Sprintf("%x", bin) + ":" + dn
		cs := map[string]any{"text": short(text), "previous_in_same_target": short(prev)}
		guard("DNWithBinary.Parse", cs, func() {
			buf := []byte(text)
			err := p.Parse(buf)
			for k := range buf {
				buf[k] = 0xAA
			}
			ev(1)
			if err != nil {
				r.Violation("DNWithBinary.Parse:reused-receiver:accept", fmt.Sprintf("Parse(%q) into a reused target: %v", short(text), err), cs)
				return
			}
			if p.DistinguishedName != dn || !bytes.Equal(p.BinaryData, bin) {
				r.Violation("DNWithBinary.Parse:reused-receiver:fields", fmt.Sprintf("Parse(%q) into a target that had parsed %q: dn=%q binary=%s", short(text), short(prev), p.DistinguishedName, mon.Hex(p.BinaryData)), cs)
			}
			if s := p.ToString(); s != text {
				r.Violation("DNWithBinary.ToString:reused-receiver", fmt.Sprintf("Parse(%q) into a reused target, ToString() = %q", short(text), short(s)), cs)
			}
			// stale: assign, format
			p.DistinguishedName, p.BinaryData = "CN=assigned,DC=x", []byte{0x01, byte(i)}
			want := "B:4:01" + fmt.Sprintf("%02x", byte(i)) + ":CN=assigned,DC=x"
			if s := p.ToString(); s != want {
				r.Violation("DNWithBinary.ToString:stale-fields", fmt.Sprintf("fields assigned after Parse, ToString() = %q want %q", short(s), want), cs)
			}
			ev(2)
		})
		prev = text
	}
}

// ---------------------------------------------------------------------------------

func stateMonitors() {
	rng := r.Rand("state")
	var pool []*knownBlob
	nb, nr := 36, r.Pick(60, 400)
	for i := 0; i < nb+nr; i++ {
		c := makeCase(r.Rand("state-case-"+strconv.Itoa(i)), i, i < nb)
		c.Tag = "state"
		forms, _ := ckiForms(rng)
		usage := []byte{0, 1, 2, 3, 4, 7, 8, 9, 0xFF}[i%9]
		kb := makeKnown(c, usage, byte(i/2%2), forms[i%len(forms)], i%3 == 2, fmt.Sprintf("#%d(v%#x,%d-byte modulus,primes %d/%d)", i, c.Version, len(c.Mod), len(c.P1), len(c.P2)))
		if kb != nil {
			pool = append(pool, kb)
		}
	}
	if len(pool) < 8 {
		r.Inconclusive("state monitors: could not build the blob pool")
		return
	}
	// deterministic order: largest blob, smallest, second largest, second smallest, ... (big-then-small and back)
	bySize := make([]int, len(pool))
	for i := range bySize {
		bySize[i] = i
	}
	for i := 1; i < len(bySize); i++ {
		for j := i; j > 0 && len(pool[bySize[j]].blob) > len(pool[bySize[j-1]].blob); j-- {
			bySize[j], bySize[j-1] = bySize[j-1], bySize[j]
		}
	}
	var zig []int
	for i, j := 0, len(bySize)-1; i <= j; i, j = i+1, j-1 {
		zig = append(zig, bySize[i])
		if i != j {
			zig = append(zig, bySize[j])
		}
	}
	keyCredentialChain(pool, zig, rng, "zigzag")
	inOrder := make([]int, len(pool))
	for i := range inOrder {
		inOrder[i] = i
	}
	keyCredentialChain(pool, inOrder, rng, "in-order")
	rsaChain(pool, zig)
	rsaChain(pool, inOrder)
	// seeded random chains
	for rep := 0; rep < r.Pick(6, 40); rep++ {
		order := rng.Perm(len(pool))
		keyCredentialChain(pool, order, rng, "seeded")
		if rep%3 == 0 {
			rsaChain(pool, order)
		}
	}
	for i := range pool {
		staleKeyCredential(pool[i], pool[(i+1)%len(pool)], i%2 == 0, rng)
		staleKeyCredential(pool[i], pool[rng.IntN(len(pool))], i%2 == 1, rng)
	}
	// time values and identifiers: held outputs
	for i, kb := range pool {
		dt := kcutils.NewDateTime(kb.c.Creation)
		b := dt.ToBytes()
		ev(1)
		if !bytes.Equal(b, put64(kb.c.Creation)) {
			r.Violation("DateTime.ToBytes:value", fmt.Sprintf("NewDateTime(%d).ToBytes() = %x", kb.c.Creation, b), nil)
		}
		held.hold("DateTime.ToBytes", b, strconv.FormatUint(kb.c.Creation, 10))
		idb, err := kcutils.ConvertToBinaryIdentifier(kb.id, kckey.KeyCredentialVersion{Value: kb.c.Version})
		ev(1)
		kid := sha256.Sum256(kb.material)
		if err != nil || !bytes.Equal(idb, kid[:]) {
			r.Violation("utils.ConvertToBinaryIdentifier:value", fmt.Sprintf("ConvertToBinaryIdentifier(%q) = %x,%v", kb.id, idb, err), nil)
		}
		held.hold("utils.ConvertToBinaryIdentifier", idb, kb.id)
		g := guid.GUID(kb.c.Dev)
		held.hold("guid.ToBytes", g.ToBytes(), g.ToFormatD())
		_ = i
	}
	ckiChain(rng, r.Pick(40, 400))
	dnChain(pool, rng, r.Pick(300, 3000))
	held.final()
	r.Count("state_pool_blobs", len(pool))
	r.Count("held_outputs", held.n)
	total := 0
	for f, n := range aliasObserved {
		r.Count("input_aliasing_observed(not judged):"+f, n)
		total += n
	}
	r.Count("input_aliasing_observed(not judged)", total)
	r.Count("legacy_usage_carried_over_from_tampered_blob(observation, not judged)", legacyCarried)
	legacyUsageProbe(pool)
}

// legacyUsageProbe: a blob whose KeyUsage entry is a multi-byte legacy string, then an ordinary blob in the
// same target. On the unchanged tree FromBytes never clears LegacyUsage, so the second credential
// re-serialises with an extra KeyUsage entry. Counted and reported, not judged.
func legacyUsageProbe(pool []*knownBlob) {
	a, b := pool[0], pool[1]
	entry := func(id byte, v []byte) []byte { return append(append(put16(len(v)), id), v...) }
	var tail []byte
	tail = append(tail, entry(3, a.material)...)
	tail = append(tail, entry(4, []byte("NGC"))...)
	tail = append(tail, entry(5, []byte{0})...)
	tail = append(tail, entry(6, refGUIDPacket(1, 2, 3, 4, 5))...)
	tail = append(tail, entry(7, []byte{1, 0})...)
	tail = append(tail, entry(8, put64(a.c.LastLogon))...)
	tail = append(tail, entry(9, put64(a.c.Creation))...)
	kid, kh := sha256.Sum256(a.material), sha256.Sum256(tail)
	blob := append(append(append(put32(a.c.Version), entry(1, kid[:])...), entry(2, kh[:])...), tail...)
	mon.Guard(func() {
		var k kcl.KeyCredential
		if k.FromBytes(blob) != nil || k.LegacyUsage != "NGC" {
			return
		}
		if k.FromBytes(append([]byte{}, b.blob...)) != nil {
			return
		}
		out, _ := k.ToBytes()
		if !bytes.Equal(out, b.blob) {
			r.Count("legacy_usage_carried_over_to_next_blob(observation, not judged)", 1)
			r.Extra("legacy_usage_witness", map[string]any{"first_blob": mon.FullHex(blob), "second_blob": mon.FullHex(b.blob), "reserialised_second": mon.FullHex(out)})
		}
	})
}
