package main

import (
	"math/rand/v2"
)

var byteVals = []byte{0x00, 0x01, 0x7F, 0x80, 0xFF}
var win2 = [][]byte{{0, 0}, {0, 1}, {0x7F, 0xFF}, {0x80, 0}, {0xFF, 0xFF}}
var win4 = [][]byte{{0, 0, 0, 0}, {0x7F, 0xFF, 0xFF, 0xFF}, {0x80, 0, 0, 0}, {0xFF, 0xFF, 0xFF, 0xF0}, {0xFF, 0xFF, 0xFF, 0xFF}}

func rev(b []byte) []byte {
	o := make([]byte, len(b))
	for i := range b {
		o[len(b)-1-i] = b[i]
	}
	return o
}

// positions returns the positions of a seed that are mutated: all of them for
// short seeds, a dense head + strided body + dense tail for long ones.
func positions(n, dense int) []int {
	if n <= dense {
		p := make([]int, n)
		for i := range p {
			p[i] = i
		}
		return p
	}
	var p []int
	for i := 0; i < dense*2/3; i++ {
		p = append(p, i)
	}
	stride := (n - dense) / (dense / 6)
	if stride < 1 {
		stride = 1
	}
	for i := dense * 2 / 3; i < n-dense/6; i += stride {
		p = append(p, i)
	}
	for i := n - dense/6; i < n; i++ {
		p = append(p, i)
	}
	return p
}

// forEachInput enumerates the hostile neighbourhood of an entry's corpus. The
// sequence is a function of (entry, tier, seed) only.
func forEachInput(e Entry, thorough bool, rng *rand.Rand, fn func(class string, pos int, in []byte)) {
	if e.Large {
		// large crafted packets: the seeds themselves, a sparse set of truncations and single-byte
		// corruptions (each call is expensive by construction)
		for si, s := range e.Seeds {
			fn("seed", si, s)
			for _, p := range positions(len(s), 24) {
				fn("trunc", p, s[:p])
				m := append([]byte{}, s...)
				m[p] ^= 0xFF
				fn("byte", p, m)
			}
		}
		return
	}
	if e.Framed {
		framedMutations(e.Seeds, func(class string, pos int, in []byte) {
			if in != nil {
				fn(class, pos, in)
			}
		})
	}
	dense := 160
	havoc := 400
	if thorough {
		dense, havoc = 1500, 40000
	}
	// size ladder: one huge input first (a decoder with an internal scratch buffer must cope with
	// a jump in size, not only with slowly growing inputs), then every power-of-two edge
	if !e.Large {
		sizes := []int{1 << 20, 70000, 100, 255, 256, 257, 511, 512, 513, 1023, 1024, 1025, 2047, 2048, 2049, 4095, 4096, 4097, 8191, 8192, 8193, 16385, 32767, 32768, 65535, 65536, 65537, 131073, 1 << 20}
		if !thorough {
			sizes = []int{1 << 18, 70000, 255, 256, 257, 1023, 1024, 1025, 2049, 4097, 8193, 65535, 65536, 65537, 1 << 18}
		}
		for si, n := range sizes {
			for pi, pat := range []byte{0x00, 0x41, 0xFF} {
				if n > 70000 && pi > 0 && !thorough {
					continue
				}
				b := make([]byte, n)
				for i := range b {
					b[i] = pat
				}
				fn("size", si, b)
			}
			// a valid encoding stretched to the size by repeating its tail
			for k, s := range e.Seeds {
				if k >= 2 || len(s) == 0 || n > 70000 {
					break
				}
				b := append([]byte{}, s...)
				for len(b) < n {
					b = append(b, s[len(s)/2:]...)
				}
				fn("size-seed", si, b[:n])
			}
		}
	}
	// raw inputs
	fn("raw", 0, []byte{})
	for _, c := range []byte{0x00, 0xFF, 0x41, 0x80, 0x02, 0x05, 0x60, 0xC0} {
		for n := 1; n <= 64; n++ {
			b := make([]byte, n)
			for i := range b {
				b[i] = c
			}
			fn("raw", n, b)
		}
	}
	for n := 1; n <= 40; n++ {
		b := make([]byte, n)
		for i := range b {
			b[i] = byte(i + 1)
		}
		fn("raw", n, b)
	}
	if e.Small {
		for a := 0; a < 256; a++ {
			fn("small1", 0, []byte{byte(a)})
		}
		for a := 0; a < 256; a++ {
			for b := 0; b < 256; b++ {
				fn("small2", 0, []byte{byte(a), byte(b)})
			}
		}
	}
	if e.Text {
		for _, s := range []string{":", "::", ":::", "-", "--", "/", "//", ".", "..", "...", "....", ",", ",,", "=", "{", "}", "{}", "()", "#", "%", " ", "\t", "\n", "\x00", "a\x00b", "\xff\xfe", "\xc0\x80", "\xed\xa0\x80",
			"99999999999999999999999999999999999999", "-99999999999999999999999999999999999999", "0x", "0X", "+1", "1e9", "DC=", "DC=,DC=", ",DC", "B:", "B::", "B:1:", "B:-1:00:x", "B:99999999999:00:x", "B:2:zz:x", "1/", "/1", "1.2.3", "1.2.3.4.5", "256.1.1.1", "1.1.1.1/", "1.1.1.1/-1", "1.1.1.1/99999999999999999999", "-", "1-", "-1", "1-2-3", "65536", "99999-1"} {
			fn("text", 0, []byte(s))
		}
		for _, c := range []byte{'0', '9', 'a', 'f', 'g', '-', ':', '.', ',', '{', ' '} {
			for _, n := range []int{31, 32, 33, 35, 36, 37, 38, 100, 5000} {
				b := make([]byte, n)
				for i := range b {
					b[i] = c
				}
				fn("text", n, b)
			}
		}
	}
	if e.Text {
		// delimiters moved without changing the length: adjacent characters swapped, and each
		// character swapped with the one two and three places on
		for si, s := range e.Seeds {
			if len(s) > 400 {
				continue
			}
			for d := 1; d <= 3; d++ {
				for p := 0; p+d < len(s); p++ {
					if s[p] == s[p+d] {
						continue
					}
					m := append([]byte{}, s...)
					m[p], m[p+d] = m[p+d], m[p]
					fn("swap", p, m)
				}
			}
			_ = si
		}
		// runes whose lower/upper-case form has a different UTF-8 length (Kelvin sign, Angstrom,
		// Ohm, capital sharp s, dotted capital I, long s, ligatures) substituted byte-for-byte
		// into valid text: length checks done before case folding go wrong on these
		for si, s := range e.Seeds {
			for _, ru := range []string{"\u212a", "\u212b", "\u2126", "\u1e9e", "\u0130", "\u017f", "\ufb00", "\u0149"} {
				w := len(ru)
				for p := 0; p+w <= len(s); p++ {
					m := append(append(append([]byte{}, s[:p]...), ru...), s[p+w:]...)
					fn("caserune", p, m)
				}
				fn("caserune", si, append(append([]byte{}, s...), ru...))
			}
		}
	}
	for si, s := range e.Seeds {
		fn("seed", si, s)
		// every truncation
		for _, p := range positions(len(s), dense*4) {
			fn("trunc", p, s[:p])
		}
		// extension
		fn("extend", 0, append(append([]byte{}, s...), 0))
		fn("extend", 1, append(append([]byte{}, s...), 0xFF, 0xFF, 0xFF, 0xFF))
		fn("extend", 2, append(append([]byte{}, s...), s...))
		pos := positions(len(s), dense)
		for _, p := range pos {
			for _, v := range append(append([]byte{}, byteVals...), s[p]+1, s[p]-1, s[p]+2, s[p]-2, s[p]^0x20) { // neighbours of the value: the next tag, version or magic letter; the other letter case
				if v == s[p] {
					continue
				}
				m := append([]byte{}, s...)
				m[p] = v
				fn("byte", p, m)
			}
		}
		for _, p := range pos {
			if p+2 <= len(s) {
				for _, w := range win2 {
					for _, ww := range [][]byte{w, rev(w)} {
						m := append([]byte{}, s...)
						copy(m[p:], ww)
						fn("win2", p, m)
					}
				}
			}
			if p+4 <= len(s) {
				for _, w := range win4 {
					for _, ww := range [][]byte{w, rev(w)} {
						m := append([]byte{}, s...)
						copy(m[p:], ww)
						fn("win4", p, m)
					}
				}
			}
		}
		// offsets and pointers: every 16-bit window set to small values, to positions inside the
		// input, to its own position and to the input's length (a chain or pointer that leads
		// back to itself or to an earlier place must end the decoding, not restart it)
		if len(s) <= 1200 {
			step := 4
			if thorough {
				step = 1
			}
			for _, p := range pos {
				if p+2 > len(s) {
					continue
				}
				vals := []int{p, p - 1, p + 1, p + 2, p - 2, p - 4, len(s) - 2, len(s) - 1, len(s), len(s) + 1}
				for k := 0; k <= 96 && k <= len(s)+4; k += step {
					vals = append(vals, k)
				}
				for _, v := range vals {
					if v < 0 || v > 0xFFFF {
						continue
					}
					for _, ww := range [][]byte{{byte(v), byte(v >> 8)}, {byte(v >> 8), byte(v)}} {
						if s[p] == ww[0] && s[p+1] == ww[1] {
							continue
						}
						m := append([]byte{}, s...)
						copy(m[p:], ww)
						fn("ptr2", p, m)
					}
				}
			}
		}
		// two length/size fields moved in opposite directions, so that a check on their sum (or on
		// the total size they describe) still holds while each field is wrong on its own
		if len(s) >= 12 && len(s) <= 4096 {
			lim := len(s) - 4
			if lim > 44 {
				lim = 44
			}
			for p := 0; p <= lim; p += 4 {
				for q := 0; q <= lim; q += 4 {
					if p == q {
						continue
					}
					for _, d := range []uint32{1, 2, 3, 4, 5, 8, 16, 255, 256} {
						m := append([]byte{}, s...)
						a := uint32(m[p]) | uint32(m[p+1])<<8 | uint32(m[p+2])<<16 | uint32(m[p+3])<<24
						b := uint32(m[q]) | uint32(m[q+1])<<8 | uint32(m[q+2])<<16 | uint32(m[q+3])<<24
						if b < d {
							continue
						}
						a, b = a+d, b-d
						m[p], m[p+1], m[p+2], m[p+3] = byte(a), byte(a>>8), byte(a>>16), byte(a>>24)
						m[q], m[q+1], m[q+2], m[q+3] = byte(b), byte(b>>8), byte(b>>16), byte(b>>24)
						fn("sum-pair", p, m)
					}
				}
			}
		}
		// corruption combined with truncation (a length field raised, then the tail cut)
		for _, p := range pos {
			if len(s) > 4 && p%3 == 0 {
				m := append([]byte{}, s[:len(s)-1-(p%(len(s)/2+1))]...)
				if p < len(m) {
					m[p] = 0xFF
					fn("byte+trunc", p, m)
				}
			}
		}
		// havoc
		for h := 0; h < havoc; h++ {
			m := append([]byte{}, s...)
			nops := 1 + rng.IntN(4)
			for k := 0; k < nops && len(m) > 0; k++ {
				switch rng.IntN(6) {
				case 0: // flip bits
					m[rng.IntN(len(m))] ^= 1 << uint(rng.IntN(8))
				case 1: // random byte
					m[rng.IntN(len(m))] = byte(rng.UintN(256))
				case 2: // delete run
					a := rng.IntN(len(m))
					b := a + rng.IntN(len(m)-a+1)
					m = append(m[:a], m[b:]...)
				case 3: // duplicate run
					a := rng.IntN(len(m))
					b := a + rng.IntN(min(len(m)-a, 32)+1)
					run := append([]byte{}, m[a:b]...)
					m = append(m[:b], append(run, m[b:]...)...)
				case 4: // insert random run
					a := rng.IntN(len(m) + 1)
					run := make([]byte, 1+rng.IntN(8))
					for i := range run {
						run[i] = []byte{0, 0xFF, 0x80, byte(rng.UintN(256))}[rng.IntN(4)]
					}
					m = append(m[:a], append(run, m[a:]...)...)
				case 5: // splice with another seed
					o := e.Seeds[rng.IntN(len(e.Seeds))]
					if len(o) > 0 {
						a := rng.IntN(len(m))
						c := rng.IntN(len(o))
						m = append(m[:a], o[c:]...)
					}
				}
			}
			fn("havoc", h%16, m)
		}
	}
}
