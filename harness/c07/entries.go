package main

import (
	"bytes"
	"crypto/aes"
	"crypto/cipher"
	"encoding/base64"
	"encoding/binary"
	"fmt"
	"io"
	"net"
	"reflect"
	"sort"
	"strings"
	"time"

	"github.com/TheManticoreProject/Manticore/crypto/gppp"
	"github.com/TheManticoreProject/Manticore/crypto/pkcs7"
	"github.com/TheManticoreProject/Manticore/crypto/uuid"
	"github.com/TheManticoreProject/Manticore/crypto/uuid/uuid_v1"
	"github.com/TheManticoreProject/Manticore/crypto/uuid/uuid_v2"
	"github.com/TheManticoreProject/Manticore/crypto/uuid/uuid_v8"
	"github.com/TheManticoreProject/Manticore/network/ip"
	"github.com/TheManticoreProject/Manticore/network/ldap"
	"github.com/TheManticoreProject/Manticore/network/llmnr"
	"github.com/TheManticoreProject/Manticore/network/netbios/nbt"
	"github.com/TheManticoreProject/Manticore/network/netbios/nbtns"
	"github.com/TheManticoreProject/Manticore/network/smb/smb_v10/dialects"
	"github.com/TheManticoreProject/Manticore/network/smb/smb_v10/message"
	"github.com/TheManticoreProject/Manticore/network/smb/smb_v10/message/commands/andx"
	cutils "github.com/TheManticoreProject/Manticore/network/smb/smb_v10/message/commands/utils"
	"github.com/TheManticoreProject/Manticore/network/smb/smb_v10/message/data"
	"github.com/TheManticoreProject/Manticore/network/smb/smb_v10/message/header"
	"github.com/TheManticoreProject/Manticore/network/smb/smb_v10/message/parameters"
	"github.com/TheManticoreProject/Manticore/network/smb/smb_v10/message/securityfeatures"
	"github.com/TheManticoreProject/Manticore/network/smb/smb_v10/spnego"
	"github.com/TheManticoreProject/Manticore/network/smb/smb_v10/spnego/ntlm"
	"github.com/TheManticoreProject/Manticore/network/smb/smb_v10/spnego/ntlm/version"
	"github.com/TheManticoreProject/Manticore/network/smb/smb_v10/types"
	"github.com/TheManticoreProject/Manticore/utils/encoding/utf16"
	"github.com/TheManticoreProject/Manticore/windows/credentials"
	"github.com/TheManticoreProject/Manticore/windows/guid"
	keycredential "github.com/TheManticoreProject/Manticore/windows/keycredential"
	kcrypto "github.com/TheManticoreProject/Manticore/windows/keycredential/crypto"
	"github.com/TheManticoreProject/Manticore/windows/keycredential/key"
	kutils "github.com/TheManticoreProject/Manticore/windows/keycredential/utils"
	"github.com/TheManticoreProject/Manticore/windows/ms_dtyp/common/data_structures"

	"verif/mon"
	"verif/smbgen"
)

// scriptConn is a net.Conn whose peer has written data and closed.
type scriptConn struct {
	data []byte
	pos  int
}

func (c *scriptConn) Read(p []byte) (int, error) {
	if c.pos >= len(c.data) {
		return 0, io.EOF
	}
	n := copy(p, c.data[c.pos:])
	if n > 3 {
		n = 3 // deliver in small segments
	}
	c.pos += n
	return n, nil
}
func (c *scriptConn) Write(p []byte) (int, error)      { return len(p), nil }
func (c *scriptConn) Close() error                     { return nil }
func (c *scriptConn) LocalAddr() net.Addr              { return &net.TCPAddr{} }
func (c *scriptConn) RemoteAddr() net.Addr             { return &net.TCPAddr{} }
func (c *scriptConn) SetDeadline(time.Time) error      { return nil }
func (c *scriptConn) SetReadDeadline(time.Time) error  { return nil }
func (c *scriptConn) SetWriteDeadline(time.Time) error { return nil }

// Entry is one decoding entry point with its corpus of valid encodings.
type Entry struct {
	Name   string
	Call   func(in []byte)
	Seeds  [][]byte
	Text   bool // input is text: mutations use text-specific classes too
	Small  bool // small parser: exhaustively fed every 1- and 2-byte input
	Large  bool // corpus of large crafted packets: only seeds, truncations and sparse corruption
	Framed bool // SMB command or message encodings: frame-aware mutations of the data block as well (framed.go)
}

// pointerAmplification builds DNS-style packets (NBNS when nb, else LLMNR) in which one record
// hides a long run of labels in its RDATA and many later records name themselves with a
// compression pointer into that run: a decoder that follows such pointers without the
// 255-octet name limit allocates (records x run length).
func pointerAmplification(nb bool) [][]byte {
	var out [][]byte
	for _, total := range []int{2000, 16000, 60000} {
		run := total / 2
		var labels []byte
		if nb {
			// an NBNS name is a 32-byte first-level label followed by scope labels
			labels = append([]byte{0x20}, []byte("CACACACACACACACACACACACACACACACA")...)
		}
		for len(labels)+64 < run {
			labels = append(labels, 63)
			for i := 0; i < 63; i++ {
				labels = append(labels, byte('a'+i%26))
			}
		}
		labels = append(labels, 0)
		first := []byte{1, 'x', 0}
		if nb {
			first = append(append([]byte{0x20}, []byte("FHEPFCELFDFEEBFEEJEPEOCACACACACA")...), 0)
		}
		n := (total - run - 40) / 12
		if n > 0xFFFF {
			n = 0xFFFF
		}
		p := []byte{0, 7, 0x85, 0, 0, 0, byte((n + 1) >> 8), byte(n + 1), 0, 0, 0, 0}
		p = append(p, first...)
		p = append(p, 0, 0x20, 0, 1, 0, 0, 0, 60, byte(len(labels)>>8), byte(len(labels)))
		ptr := len(p)
		p = append(p, labels...)
		for i := 0; i < n; i++ {
			p = append(p, 0xC0|byte(ptr>>8), byte(ptr), 0, 0x20, 0, 1, 0, 0, 0, 60, 0, 0)
		}
		if ptr < 0x4000 {
			out = append(out, p)
		}
	}
	return out
}

func le16(v int) []byte { return []byte{byte(v), byte(v >> 8)} }
func le32(v uint32) []byte {
	b := make([]byte, 4)
	binary.LittleEndian.PutUint32(b, v)
	return b
}

// ntlmChallenge builds a CHALLENGE message with an independent MS-NLMP writer.
func ntlmChallenge(target string, pairs [][2]any, flags uint32, withVersion bool) []byte {
	tn := utf16.EncodeUTF16LE(target)
	var ti []byte
	for _, p := range pairs {
		v := p[1].([]byte)
		ti = append(ti, le16(p[0].(int))...)
		ti = append(ti, le16(len(v))...)
		ti = append(ti, v...)
	}
	ti = append(ti, 0, 0, 0, 0)
	hdr := 48
	if withVersion {
		hdr = 56
	}
	b := []byte("NTLMSSP\x00")
	b = append(b, le32(2)...)
	b = append(b, le16(len(tn))...)
	b = append(b, le16(len(tn))...)
	b = append(b, le32(uint32(hdr))...)
	b = append(b, le32(flags)...)
	b = append(b, 1, 2, 3, 4, 5, 6, 7, 8)
	b = append(b, make([]byte, 8)...)
	b = append(b, le16(len(ti))...)
	b = append(b, le16(len(ti))...)
	b = append(b, le32(uint32(hdr+len(tn)))...)
	if withVersion {
		b = append(b, 10, 0, 0x61, 0x4A, 0, 0, 0, 15)
	}
	b = append(b, tn...)
	b = append(b, ti...)
	return b
}

func must(b []byte, err error) []byte {
	if err != nil {
		return nil
	}
	return b
}

func nonNil(in ...[]byte) [][]byte {
	var out [][]byte
	for _, b := range in {
		if b != nil {
			out = append(out, b)
		}
	}
	return out
}

func strs(s ...string) [][]byte {
	var out [][]byte
	for _, x := range s {
		out = append(out, []byte(x))
	}
	return out
}

func buildEntries() []Entry {
	var es []Entry
	add := func(name string, seeds [][]byte, call func(in []byte)) {
		es = append(es, Entry{Name: name, Call: call, Seeds: seeds})
	}
	addText := func(name string, seeds [][]byte, call func(in []byte)) {
		es = append(es, Entry{Name: name, Call: call, Seeds: seeds, Text: true, Small: true})
	}

	// ---------------- SMB commands and message
	structs, _, _ := smbgen.Enumerate()
	var allMsgs [][]byte
	for _, s := range structs {
		s := s
		var seeds [][]byte
		rels := smbgen.Relations(s.Name)
		for m := smbgen.ModeDistinct; m <= smbgen.ModeRandom; m++ {
			c := s.New()
			smbgen.Fill(c, rels, mon.NewRand(7, "c07seed|"+s.Name+fmt.Sprint(m)), m, 24)
			var b []byte
			var err error
			if p, _, _ := mon.Guard(func() { b, err = c.Marshal() }); !p && err == nil && len(b) > 0 {
				seeds = append(seeds, b)
				h := header.NewHeader()
				h.Command = c.GetCommandCode()
				if s.Response {
					h.Flags |= 0x80
				}
				hb, _ := h.Marshal()
				allMsgs = append(allMsgs, append(hb, b...))
			}
		}
		es = append(es, Entry{Name: "cmd." + s.Name + ".Unmarshal", Seeds: seeds, Framed: true, Call: func(in []byte) { c := s.New(); c.Unmarshal(in) }})
		add("cmd."+s.Name+".Unmarshal+use", seeds, func(in []byte) {
			c := s.New()
			if _, err := c.Unmarshal(in); err == nil {
				useDecoded(c)
			}
		})
		// a batched (AndX) message: the first command names a second one of the same kind and
		// where it starts; the second one ends the chain. Corruptions of the link fields of such
		// a seed reach decoders that follow the chain.
		if c := s.New(); c.IsAndX() {
			smbgen.Fill(c, rels, mon.NewRand(7, "c07chain|"+s.Name), smbgen.ModeOne, 8)
			var tail []byte
			var err error
			if p, _, _ := mon.Guard(func() { tail, err = c.Marshal() }); !p && err == nil && len(tail) > 0 {
				for _, off := range []int{32 + len(tail)} {
					x := andx.NewAndX()
					x.AndXCommand, x.AndXOffset = c.GetCommandCode(), uint16(off)
					c2 := s.New()
					smbgen.Fill(c2, rels, mon.NewRand(7, "c07chain|"+s.Name), smbgen.ModeOne, 8)
					c2.SetAndX(x)
					var head []byte
					if p, _, _ := mon.Guard(func() { head, err = c2.Marshal() }); !p && err == nil && len(head) == len(tail) {
						h := header.NewHeader()
						h.Command = c.GetCommandCode()
						if s.Response {
							h.Flags |= 0x80
						}
						hb, _ := h.Marshal()
						allMsgs = append(allMsgs, append(append(hb, head...), tail...))
					}
				}
			}
		}
	}
	es = append(es, Entry{Name: "message.Unmarshal", Seeds: allMsgs, Framed: true, Call: func(in []byte) { message.NewMessage().Unmarshal(in) }})
	add("message.Unmarshal+use", allMsgs, func(in []byte) {
		m := message.NewMessage()
		if err := m.Unmarshal(in); err == nil {
			if m.Command != nil {
				useDecoded(m.Command)
			}
			useDecoded(m.Header)
			m.Marshal()
		}
	})

	// ---------------- SMB building blocks and types
	add("parameters.Unmarshal", [][]byte{{0}, {2, 1, 2, 3, 4}, {1, 0xAA, 0xBB, 9, 9}}, func(in []byte) { parameters.NewParameters().Unmarshal(in) })
	add("data.Unmarshal", [][]byte{{0, 0}, {3, 0, 1, 2, 3}, {1, 0, 7, 9}}, func(in []byte) { data.NewData().Unmarshal(in) })
	add("andx.Unmarshal", [][]byte{{0xFF, 0, 0, 0}, {0x2E, 0, 0x12, 0x34}}, func(in []byte) { andx.NewAndX().Unmarshal(in) })
	hb, _ := header.NewHeader().Marshal()
	add("header.Unmarshal", [][]byte{hb}, func(in []byte) { header.NewHeader().Unmarshal(in) })
	add("securityfeatures.Reserved.Unmarshal", [][]byte{make([]byte, 8)}, func(in []byte) { securityfeatures.NewSecurityFeaturesReserved().Unmarshal(in) })
	add("securityfeatures.Signature.Unmarshal", [][]byte{make([]byte, 8)}, func(in []byte) { securityfeatures.NewSecurityFeaturesSecuritySignature().Unmarshal(in) })
	add("securityfeatures.Connectionless.Unmarshal", [][]byte{make([]byte, 8)}, func(in []byte) {
		securityfeatures.NewSecurityFeaturesConnectionlessTransport().Unmarshal(in)
	})
	var strSeeds [][]byte
	for f := 1; f <= 5; f++ {
		s := types.NewSMB_STRING([]byte("hello.txt"))
		s.SetBufferFormat(types.UCHAR(f))
		strSeeds = append(strSeeds, must(s.Marshal()))
	}
	add("types.SMB_STRING.Unmarshal", nonNil(strSeeds...), func(in []byte) { (&types.SMB_STRING{}).Unmarshal(in) })
	add("types.SMB_STRING.Unmarshal+use", nonNil(strSeeds...), func(in []byte) {
		x := &types.SMB_STRING{}
		if _, err := x.Unmarshal(in); err == nil {
			useDecoded(x)
		}
	})
	add("types.OEM_STRING.Unmarshal", nonNil(must(types.NewOEM_STRINGFromString("FILE.TXT").Marshal())), func(in []byte) { types.NewOEM_STRING().Unmarshal(in) })
	add("types.SMB_DATE.Unmarshal", [][]byte{{0x21, 0x5A}}, func(in []byte) { types.NewSMB_DATE().Unmarshal(in) })
	add("types.FILETIME.Unmarshal", [][]byte{{1, 2, 3, 4, 5, 6, 7, 8}}, func(in []byte) { (&data_structures.FILETIME{}).Unmarshal(in) })
	add("types.LOCKING_ANDX_RANGE32.Unmarshal", [][]byte{{1, 2, 3, 4, 5, 6, 7, 8, 9, 10}}, func(in []byte) { (&types.LOCKING_ANDX_RANGE32{}).Unmarshal(in) })
	add("types.LOCKING_ANDX_RANGE64.Unmarshal", [][]byte{make([]byte, 20)}, func(in []byte) { (&types.LOCKING_ANDX_RANGE64{}).Unmarshal(in) })
	add("types.SMB_NMPIPE_STATUS.Unmarshal", [][]byte{{1, 0x80}}, func(in []byte) { (&types.SMB_NMPIPE_STATUS{}).Unmarshal(in) })
	add("types.SMB_FILE_ATTRIBUTES.Unmarshal", [][]byte{{0, 0x20}}, func(in []byte) { (&types.SMB_FILE_ATTRIBUTES{}).Unmarshal(in) })
	rk := types.NewSMB_RESUME_KEY()
	rkb := must(rk.Marshal())
	add("types.SMB_RESUME_KEY.Unmarshal", nonNil(rkb), func(in []byte) { types.NewSMB_RESUME_KEY().Unmarshal(in) })
	di := types.NewSMB_DIRECTORY_INFORMATION()
	di.FileName.SetString("A.TXT")
	add("types.SMB_DIRECTORY_INFORMATION.Unmarshal", nonNil(must(di.Marshal())), func(in []byte) { types.NewSMB_DIRECTORY_INFORMATION().Unmarshal(in) })
	add("types.SMB_DIRECTORY_INFORMATION.Unmarshal+use", nonNil(must(di.Marshal())), func(in []byte) {
		d := types.NewSMB_DIRECTORY_INFORMATION()
		if _, err := d.Unmarshal(in); err == nil {
			useDecoded(d)
		}
	})
	dl := dialects.NewDialects()
	dl.AddDialect("NT LM 0.12")
	dl.AddDialect("LANMAN2.1")
	add("dialects.Unmarshal", nonNil(must(dl.Marshal()), []byte{2, 'A', 0}), func(in []byte) { dialects.NewDialects().Unmarshal(in) })
	add("utils.GetNullTerminatedUnicodeString", [][]byte{{'a', 0, 'b', 0, 0, 0}, {'a', 0}}, func(in []byte) { cutils.GetNullTerminatedUnicodeString(in) })
	add("utils.GetNullTerminatedString", [][]byte{{'a', 'b', 0}, {'a'}}, func(in []byte) { cutils.GetNullTerminatedString(in) })
	add("version.Unmarshal", [][]byte{{10, 0, 0x61, 0x4A, 0, 0, 0, 15}}, func(in []byte) { (&version.Version{}).Unmarshal(in) })

	// ---------------- NTLMSSP / SPNEGO
	av := [][2]any{{2, utf16.EncodeUTF16LE("DOMAIN")}, {1, utf16.EncodeUTF16LE("SERVER")}, {7, []byte{1, 2, 3, 4, 5, 6, 7, 8}}}
	ch1 := ntlmChallenge("DOMAIN", av, 0xE28A8215, true)
	ch2 := ntlmChallenge("", nil, 0x00000201, false)
	ch3 := ntlmChallenge("D", av[:1], 0x00808205, false)
	// well-formed lists whose well-known pairs have unusual value lengths (a server chooses them)
	var oddChals [][]byte
	for _, n := range []int{0, 1, 4, 7, 9, 16} {
		for _, id := range []int{7, 6, 1, 2, 9, 10} {
			oddChals = append(oddChals, ntlmChallenge("D", [][2]any{{2, utf16.EncodeUTF16LE("D")}, {id, make([]byte, n)}}, 0xE28A8215, true))
		}
	}
	add("ntlm.ParseChallengeMessage", append([][]byte{ch1, ch2, ch3}, oddChals[:6]...), func(in []byte) { ntlm.ParseChallengeMessage(in) })
	add("ntlm.ParseChallengeMessage+use", append([][]byte{ch1, ch2, ch3}, oddChals[:6]...), func(in []byte) {
		if c, err := ntlm.ParseChallengeMessage(in); err == nil && c != nil {
			useDecoded(c)
			ntlm.ParseTargetInfo(c.TargetInfo)
			ntlm.CreateAuthenticateMessage(c, "user", "pw", "DOM", "WS")
		}
	})
	ti := ch1[56+12:]
	add("ntlm.ParseTargetInfo", [][]byte{ti, {0, 0, 0, 0}}, func(in []byte) { ntlm.ParseTargetInfo(in) })
	tokI := must(spnego.CreateNegTokenInit([]byte("NTLMSSP\x00\x01\x00\x00\x00abcdefgh")))
	tokIL := must(spnego.CreateNegTokenInit(make([]byte, 300)))
	tokR := must(spnego.CreateNegTokenResp(spnego.AcceptIncomplete, spnego.NtlmOID, ch1))
	tokR2 := must(spnego.CreateNegTokenResp(spnego.AcceptIncomplete, spnego.NtlmOID, ch3))
	// the inner choice of a token on its own (a NegTokenResp not wrapped in the GSS-API header starts
	// with its context tag 0xA1, a NegTokenInit with 0xA0), in every length form
	bare := [][]byte{{0xA1, 0x00}, {0xA1, 0x81, 0x80}, {0xA1, 0x82, 0x01, 0x00}, {0xA1, 0x03, 0x30, 0x01, 0x00}, {0xA0, 0x00}, {0xA1, 0x07, 0x30, 0x05, 0xA0, 0x03, 0x0A, 0x01, 0x01},
		append([]byte{0xA1, 0x82, 0x00, 0x10, 0x30, 0x0E, 0xA2, 0x0C, 0x04, 0x0A}, []byte("NTLMSSP\x00\x02\x00")...)}
	add("spnego.ExtractNTLMToken", append(nonNil(tokI, tokIL, tokR), bare...), func(in []byte) { spnego.ExtractNTLMToken(in) })
	add("spnego.ParseNegTokenResp", append(nonNil(tokR, tokR2), bare...), func(in []byte) { spnego.ParseNegTokenResp(in) })
	add("spnego.ParseNegTokenResp+use", nonNil(tokR, tokR2), func(in []byte) {
		if t, err := spnego.ParseNegTokenResp(in); err == nil && t != nil {
			useDecoded(t)
		}
	})
	var oddToks [][]byte
	for _, c := range oddChals {
		oddToks = append(oddToks, must(spnego.CreateNegTokenResp(spnego.AcceptIncomplete, spnego.NtlmOID, c)))
	}
	add("spnego.AuthContext.ProcessChallengeToken", append(nonNil(tokR, tokR2), nonNil(oddToks...)...), func(in []byte) {
		ctx := spnego.NewAuthContext(spnego.AuthTypeNTLM, "DOM", "user", "pass", "WS", true)
		ctx.ProcessChallengeToken(in)
	})

	// ---------------- LLMNR
	m := llmnr.NewMessage()
	m.ID = 0x1234
	m.AddQuestion("host.example", 1, 1)
	m.SetResponse()
	m.AddAnswerClassINTypeA("host.example", "10.1.2.3")
	lb := must(m.Encode())
	q := llmnr.NewMessage()
	q.AddQuestion("wpad", 28, 1)
	qb := must(q.Encode())
	// hand-made compressed response: question "a.bc", answer name = pointer to offset 12
	comp := []byte{0, 9, 0x80, 0, 0, 1, 0, 1, 0, 0, 0, 0, 1, 'a', 2, 'b', 'c', 0, 0, 1, 0, 1, 0xC0, 12, 0, 1, 0, 1, 0, 0, 0, 30, 0, 4, 1, 2, 3, 4}
	// one record of every common type with plausibly structured RDATA (a decoder that looks inside
	// the RDATA of one type is reached through its own type code only)
	typed := [][]byte{}
	rdataFor := map[uint16][]byte{
		1: {10, 1, 2, 3}, 28: {0x20, 1, 0xd, 0xb8, 0, 0, 0, 0, 0, 0, 0, 0, 0, 0, 0, 1}, 2: {2, 'n', 's', 0}, 5: {1, 'c', 0xC0, 12}, 12: {3, 'p', 't', 'r', 0},
		15: {0, 10, 2, 'm', 'x', 0}, 16: {3, 'a', 'b', 'c', 2, 'd', 'e'}, 33: {0, 1, 0, 2, 0x1F, 0x90, 3, 's', 'r', 'v', 0}, 6: {1, 'a', 0, 1, 'b', 0, 0, 0, 0, 1, 0, 0, 0, 2, 0, 0, 0, 3, 0, 0, 0, 4, 0, 0, 0, 5},
		41: {0, 10, 0, 8, 1, 2, 3, 4, 5, 6, 7, 8, 0, 3, 0, 2, 'h', 'i'}, 47: {1, 'n', 0, 0, 6, 0x40, 0, 0, 0, 0, 3}, 43: {0x12, 0x34, 8, 2, 0xAA, 0xBB}, 255: {}, 99: {1, 2, 3}}
	for ty, rd := range rdataFor {
		mm := llmnr.NewMessage()
		mm.ID = ty
		mm.AddQuestion("t.example", ty, 1)
		mm.SetResponse()
		mm.AddAnswer(llmnr.ResourceRecord{Name: "t.example", Type: ty, Class: 1, TTL: 30, RData: rd, RDLength: uint16(len(rd))})
		if b := must(mm.Encode()); b != nil {
			typed = append(typed, b)
		}
	}
	sort.Slice(typed, func(i, j int) bool { return string(typed[i]) < string(typed[j]) })
	add("llmnr.DecodeMessage", append(nonNil(lb, qb, comp), typed...), func(in []byte) { llmnr.DecodeMessage(in) })
	add("llmnr.DecodeMessage+use", append(nonNil(lb, qb, comp), typed...), func(in []byte) {
		if m, err := llmnr.DecodeMessage(in); err == nil && m != nil {
			useDecoded(m)
		}
	})
	es = append(es, Entry{Name: "llmnr.DecodeMessage.large", Seeds: pointerAmplification(false), Call: func(in []byte) { llmnr.DecodeMessage(in) }, Large: true})
	off := func(in []byte) (int, []byte) {
		if len(in) == 0 {
			return 0, in
		}
		return int(in[0]) % (len(in) + 2), in[1:]
	}
	nameSeeds := [][]byte{{0, 3, 'w', 'w', 'w', 2, 'a', 'b', 0}, {5, 1, 'a', 0, 1, 'b', 0xC0, 0}, {2, 0xC0, 2}, {0, 0xC0, 0}}
	add("llmnr.DecodeDomainName", nameSeeds, func(in []byte) { o, d := off(in); llmnr.DecodeDomainName(d, o) })
	add("llmnr.DecodeQuestion", [][]byte{{0, 1, 'a', 0, 0, 1, 0, 1}}, func(in []byte) { o, d := off(in); llmnr.DecodeQuestion(d, o) })
	add("llmnr.DecodeResourceRecord", [][]byte{{0, 1, 'a', 0, 0, 1, 0, 1, 0, 0, 0, 9, 0, 4, 1, 2, 3, 4}}, func(in []byte) { o, d := off(in); llmnr.DecodeResourceRecord(d, o) })

	// ---------------- NBNS
	pk := &nbtns.NBTNSPacket{Header: nbtns.NBTNSHeader{TransactionID: 7, Flags: 0x0110, Questions: 1, Additional: 1},
		Questions:  []nbtns.NBTNSQuestion{{Name: &nbtns.NetBIOSName{Name: "WORKSTATION"}, Type: 0x20, Class: 1}},
		Additional: []nbtns.NBTNSResourceRecord{{Name: &nbtns.NetBIOSName{Name: "WORKSTATION", ScopeID: "corp.example"}, Type: 0x20, Class: 1, TTL: 300, RDLength: 6, RData: []byte{0, 0, 10, 0, 0, 1}}}}
	var pkb []byte
	mon.Guard(func() { pkb = must(pk.Marshal()) })
	es = append(es, Entry{Name: "nbtns.NBTNSPacket.Unmarshal.large", Seeds: pointerAmplification(true), Call: func(in []byte) { (&nbtns.NBTNSPacket{}).Unmarshal(in) }, Large: true})
	// two records: the RDATA of the first holds compression pointers that point at each other, the
	// name of the second points into it (and a variant where the walk starts after a label)
	encName := append(append([]byte{0x20}, []byte("FHEPFCELFDFEEBFEEJEPEOCACACACACA")...), 0)
	cyc := func(hops int, labelFirst bool) []byte {
		b := []byte{0, 9, 0x85, 0, 0, 0, 0, 2, 0, 0, 0, 0}
		b = append(b, encName...)
		x := len(b) + 10
		b = append(b, 0, 0x20, 0, 1, 0, 0, 0, 60, 0, byte(2*hops))
		for k := 0; k < hops; k++ {
			t := x + 2*((k+1)%hops)
			b = append(b, 0xC0|byte(t>>8), byte(t))
		}
		if labelFirst {
			b = append(b, encName[:33]...)
		}
		b = append(b, 0xC0|byte(x>>8), byte(x), 0, 0x20, 0, 1, 0, 0, 0, 60, 0, 6, 0, 0, 10, 0, 0, 1)
		return b
	}
	add("nbtns.NBTNSPacket.Unmarshal", nonNil(pkb, append([]byte{0, 1, 0x01, 0x10, 0, 1, 0, 0, 0, 0, 0, 0, 0x20}, append([]byte("FHEPFCELFDFEEBFEEJEPEOCACACACACA"), 0, 0, 0x20, 0, 1)...), cyc(2, false), cyc(3, true)), func(in []byte) { (&nbtns.NBTNSPacket{}).Unmarshal(in) })
	add("nbtns.NBTNSPacket.Unmarshal+use", nonNil(pkb, cyc(2, false)), func(in []byte) {
		p := &nbtns.NBTNSPacket{}
		if _, err := p.Unmarshal(in); err == nil {
			useDecoded(p)
		}
	})
	es = append(es, Entry{Name: "nbtns.FirstLevelDecode", Text: true, Small: true, Seeds: strs("FHEPFCELFDFEEBFEEJEPEOCACACACACA", "FHEPFCELFDFEEBFEEJEPEOCACACACACA.corp.example", ""),
		Call: func(in []byte) { nbtns.FirstLevelDecode(string(in)) }})

	// ---------------- NBT session transport (scripted in-memory peer that delivers the bytes, then EOF)
	frame := func(p []byte) []byte {
		return append([]byte{0, byte(len(p) >> 16 & 1), byte(len(p) >> 8), byte(len(p))}, p...)
	}
	add("nbt.NBTTransport.Receive", [][]byte{frame([]byte("hello")), append(frame([]byte{1, 2, 3}), frame(make([]byte, 300))...), frame(nil), {0x85, 0, 0, 0}}, func(in []byte) {
		t := nbt.NewNBTTransportFromConn(&scriptConn{data: in})
		for i := 0; i < 64; i++ {
			if _, err := t.Receive(); err != nil {
				return
			}
		}
	})

	// ---------------- key credentials
	var kcb, rsab []byte
	mon.Guard(func() {
		rsa := kcrypto.RSAKeyMaterial{Exponent: 65537, Modulus: make([]byte, 256), KeySize: 2048}
		for i := range rsa.Modulus {
			rsa.Modulus[i] = byte(i*3 + 1)
		}
		rsab = rsa.ToBytes()
		g := guid.GUID{A: 0x01020304, B: 0x0506, C: 0x0708, D: 0x090A, E: 0x0B0C0D0E0F10}
		kc := keycredential.NewKeyCredential(key.KeyCredentialVersion{Value: key.KeyCredentialVersion_2}, "", rsa, g, kutils.NewDateTime(132000000000000000), kutils.NewDateTime(132000000000000001))
		kcb = must(kc.ToBytes())
	})
	// variants of the blob whose decoding takes other branches: every version, every value of the
	// one-byte entries (usage, source) — the time stamp and identifier formats depend on them
	kcSeeds := nonNil(kcb)
	if kcb != nil {
		for _, ver := range []uint32{0, 0x100, 0x200, 0x300} {
			for _, src := range []byte{0, 1, 2, 0xFF} {
				for _, usage := range []byte{1, 2, 7, 0xFF} {
					v := append([]byte{}, kcb...)
					v[0], v[1], v[2], v[3] = byte(ver), byte(ver>>8), byte(ver>>16), byte(ver>>24)
					for off := 4; off+3 <= len(v); {
						n := int(v[off]) | int(v[off+1])<<8
						typ := v[off+2]
						if n == 1 && off+3 < len(v)+1 && off+3 <= len(v)-1 {
							if typ == 4 {
								v[off+3] = usage
							}
							if typ == 5 {
								v[off+3] = src
							}
						}
						off += 3 + n
					}
					kcSeeds = append(kcSeeds, v)
				}
			}
		}
	}
	add("keycredential.KeyCredential.FromBytes", kcSeeds, func(in []byte) { (&keycredential.KeyCredential{}).FromBytes(in) })
	add("keycredential.KeyCredential.FromBytes+use", kcSeeds, func(in []byte) {
		k := &keycredential.KeyCredential{}
		if err := k.FromBytes(in); err == nil {
			useDecoded(k)
		}
	})
	dnSeed := []byte("B:8:01020304:CN=user,DC=corp,DC=local")
	if kcb != nil {
		dnSeed2 := []byte(fmt.Sprintf("B:%d:%X:CN=u,DC=c", 2*len(kcb), kcb))
		es = append(es, Entry{Name: "keycredential.DNWithBinary.Parse", Text: true, Seeds: [][]byte{dnSeed, dnSeed2}, Call: func(in []byte) { (&keycredential.DNWithBinary{}).Parse(in) }})
	} else {
		es = append(es, Entry{Name: "keycredential.DNWithBinary.Parse", Text: true, Seeds: [][]byte{dnSeed}, Call: func(in []byte) { (&keycredential.DNWithBinary{}).Parse(in) }})
	}
	add("keycredential.ParseDNWithBinary", nonNil(kcb), func(in []byte) {
		(&keycredential.KeyCredential{}).ParseDNWithBinary(keycredential.DNWithBinary{DistinguishedName: "CN=x", BinaryData: in})
	})
	add("keycredential.RSAKeyMaterial.FromBytes", nonNil(rsab), func(in []byte) { (&kcrypto.RSAKeyMaterial{}).FromBytes(in) })
	add("keycredential.RSAKeyMaterial.FromBytes+use", nonNil(rsab), func(in []byte) {
		k := &kcrypto.RSAKeyMaterial{}
		if err := k.FromBytes(in); err == nil {
			k.ToBytes()
			_ = k.String()
		}
	})
	for _, ver := range []uint32{key.KeyCredentialVersion_0, key.KeyCredentialVersion_1, key.KeyCredentialVersion_2} {
		ver := ver
		add(fmt.Sprintf("keycredential.CustomKeyInformation.FromBytes.v%x", ver), [][]byte{{1, 0}, {1, 0, 0, 0, 0, 0, 0, 0, 0, 0, 0, 0}, {1, 2, 0, 1, 0, 0, 1, 2, 3, 4, 5, 6, 7}}, func(in []byte) {
			(&key.CustomKeyInformation{}).FromBytes(in, key.KeyCredentialVersion{Value: ver})
		})
		es = append(es, Entry{Name: fmt.Sprintf("keycredential.ConvertToBinaryIdentifier.v%x", ver), Text: true, Small: true, Seeds: strs("AQIDBA==", "01020304", "zz"), Call: func(in []byte) {
			kutils.ConvertToBinaryIdentifier(string(in), key.KeyCredentialVersion{Value: ver})
		}})
	}

	// ---------------- LDAP helpers
	sid := []byte{1, 5, 0, 0, 0, 0, 0, 5, 21, 0, 0, 0, 1, 2, 3, 4, 5, 6, 7, 8, 9, 10, 11, 12, 0xF4, 1, 0, 0}
	// SIDs whose count octet says 15, 16, 127, 128, 254 and 255 sub-authorities, with all the octets
	// that count announces (and a few more)
	sidSeeds := [][]byte{sid, {1, 1, 0, 0, 0, 0, 0, 5, 18, 0, 0, 0}, {1, 0, 0, 0, 0, 0, 0, 5}}
	for _, cnt := range []int{15, 16, 127, 128, 254, 255} {
		for _, extra := range []int{0, 4} {
			b := append([]byte{1, byte(cnt), 0, 0, 0, 0, 0, 5}, bytes.Repeat([]byte{0x15, 0, 0, 0}, cnt)...)
			sidSeeds = append(sidSeeds, append(b, make([]byte, extra)...))
		}
	}
	add("ldap.ParseSIDFromBytes", sidSeeds, func(in []byte) { ldap.ParseSIDFromBytes(in) })
	addText("ldap.GetDomainFromDistinguishedName", strs("CN=User,OU=x,DC=corp,DC=local", "DC=a", "CN=a\\,DC=b,DC=c", "CN=Doe\\2C John,OU=a\\+b,DC=corp\\2Cx,DC=com", "DC=x\\2C", "DC=a\\5Cb,DC=c\\", "CN=#04024869,DC=x\\C3\\A9"), func(in []byte) { ldap.GetDomainFromDistinguishedName(string(in)) })
	addText("ldap.ConvertLDAPTimeStampToUnixTimeStamp", strs("132000000000000000", "0", "9223372036854775807", "-1"), func(in []byte) { ldap.ConvertLDAPTimeStampToUnixTimeStamp(string(in)) })
	addText("ldap.ConvertLDAPDurationToSeconds", strs("-864000000000", "-9223372036854775808", "0"), func(in []byte) { ldap.ConvertLDAPDurationToSeconds(string(in)) })

	// ---------------- crypto helpers
	enc, _ := gppp.GPPPEncrypt("Password1!")
	enc2, _ := gppp.GPPPEncrypt("")
	addText("gppp.GPPPDecryptBase64", strs(enc, enc2, strings.TrimRight(enc, "=")), func(in []byte) { gppp.GPPPDecryptBase64(string(in)) })
	// ciphertexts of chosen plaintexts under the published key: what a hostile SYSVOL can hold.
	// Plaintexts of every length 0..20 over a few byte values, byte-order marks, lone surrogates,
	// odd lengths (not whole UTF-16 units), each with valid PKCS#7 padding and with broken padding
	gppSeeds := [][]byte{make([]byte, 16), make([]byte, 32)}
	if blk, err := aes.NewCipher(gppp.GPPP_AES_KEY); err == nil {
		encrypt := func(pt []byte) []byte {
			ct := make([]byte, len(pt))
			cipher.NewCBCEncrypter(blk, make([]byte, 16)).CryptBlocks(ct, pt)
			return ct
		}
		var plains [][]byte
		for n := 0; n <= 20; n++ {
			for _, c := range []byte{0xFF, 0x00, 0xFE, 0xD8, 0x41} {
				plains = append(plains, bytes.Repeat([]byte{c}, n))
			}
		}
		plains = append(plains, []byte{0xFF, 0xFE}, []byte{0xFE, 0xFF}, []byte{0xEF, 0xBB, 0xBF}, []byte{0xFF, 0xFE, 0x41, 0x00}, []byte{0x00, 0xD8}, []byte{0x00, 0xD8, 0x00, 0xD8}, []byte{0x00, 0xDC, 0x41})
		for _, pt := range plains {
			pad := 16 - len(pt)%16
			gppSeeds = append(gppSeeds, encrypt(append(append([]byte{}, pt...), bytes.Repeat([]byte{byte(pad)}, pad)...)))
		}
		for _, last := range []byte{0, 17, 16, 0xFF} { // a full block whose last byte is not a valid pad
			blkPt := bytes.Repeat([]byte{0x41}, 16)
			blkPt[15] = last
			gppSeeds = append(gppSeeds, encrypt(blkPt))
		}
	}
	add("gppp.GPPPDecryptBytes", gppSeeds, func(in []byte) { gppp.GPPPDecryptBytes(in) })
	var gpp64 [][]byte
	for _, ct := range gppSeeds {
		gpp64 = append(gpp64, []byte(base64.StdEncoding.EncodeToString(ct)))
	}
	addText("gppp.GPPPDecryptBase64.crafted", gpp64, func(in []byte) { gppp.GPPPDecryptBase64(string(in)) })
	es[len(es)-1].Small = true
	add("pkcs7.Unpad", [][]byte{{1, 2, 3, 4, 4, 4, 4}, {16, 16, 16, 16, 16, 16, 16, 16, 16, 16, 16, 16, 16, 16, 16, 16}, {1}}, func(in []byte) { pkcs7.Unpad(in) })
	es[len(es)-1].Small = true
	add("utf16.DecodeUTF16LE", [][]byte{{'a', 0, 'b', 0}, {0x3D, 0xD8, 0x00, 0xDE}}, func(in []byte) { utf16.DecodeUTF16LE(in) })
	es[len(es)-1].Small = true

	// ---------------- UUID / GUID
	ub := []byte{0x12, 0x3e, 0x45, 0x67, 0xe8, 0x9b, 0x12, 0xd3, 0xa4, 0x56, 0x42, 0x66, 0x14, 0x17, 0x40, 0x00}
	us := "123e4567-e89b-12d3-a456-426614174000"
	add("uuid.UUID.Unmarshal", [][]byte{ub}, func(in []byte) { (&uuid.UUID{}).Unmarshal(in) })
	addText("uuid.UUID.FromString", strs(us, strings.ToUpper(us)), func(in []byte) { (&uuid.UUID{}).FromString(string(in)) })
	add("uuid_v1.Unmarshal", [][]byte{ub}, func(in []byte) { (&uuid_v1.UUIDv1{}).Unmarshal(in) })
	add("uuid_v1.FromBytes", [][]byte{ub}, func(in []byte) { (&uuid_v1.UUIDv1{}).FromBytes(in) })
	addText("uuid_v1.FromString", strs(us), func(in []byte) { (&uuid_v1.UUIDv1{}).FromString(string(in)) })
	ub2 := append([]byte{}, ub...)
	ub2[6] = 0x22
	add("uuid_v2.Unmarshal", [][]byte{ub2}, func(in []byte) { (&uuid_v2.UUIDv2{}).Unmarshal(in) })
	add("uuid_v2.FromBytes", [][]byte{ub2}, func(in []byte) { (&uuid_v2.UUIDv2{}).FromBytes(in) })
	addText("uuid_v2.FromString", strs("123e4567-e89b-22d3-a456-426614174000"), func(in []byte) { (&uuid_v2.UUIDv2{}).FromString(string(in)) })
	ub8 := append([]byte{}, ub...)
	ub8[6] = 0x82
	add("uuid_v8.Unmarshal", [][]byte{ub8}, func(in []byte) { (&uuid_v8.UUIDv8{}).Unmarshal(in) })
	add("uuid_v8.FromBytes", [][]byte{ub8}, func(in []byte) { (&uuid_v8.UUIDv8{}).FromBytes(in) })
	addText("uuid_v8.FromString", strs("123e4567-e89b-82d3-a456-426614174000"), func(in []byte) { (&uuid_v8.UUIDv8{}).FromString(string(in)) })
	gN, gD, gB, gP := "123e4567e89b12d3a456426614174000", us, "{"+us+"}", "("+us+")"
	gX := "{0x123e4567,0xe89b,0x12d3,{0xa4,0x56,0x42,0x66,0x14,0x17,0x40,0x00}}"
	addText("guid.FromString", strs(gN, gD, gB, gP, gX), func(in []byte) { guid.FromString(string(in)) })
	addText("guid.FromString+use", strs(gN, gD, gB, gP, gX), func(in []byte) {
		if g, err := guid.FromString(string(in)); err == nil && g != nil {
			useDecoded(g)
		}
	})
	addText("guid.FromFormatN", strs(gN), func(in []byte) { guid.FromFormatN(string(in)) })
	addText("guid.FromFormatD", strs(gD), func(in []byte) { guid.FromFormatD(string(in)) })
	addText("guid.FromFormatB", strs(gB), func(in []byte) { guid.FromFormatB(string(in)) })
	addText("guid.FromFormatP", strs(gP), func(in []byte) { guid.FromFormatP(string(in)) })
	addText("guid.FromFormatX", strs(gX), func(in []byte) { guid.FromFormatX(string(in)) })

	// ---------------- credentials, addresses
	lmnt := "aad3b435b51404eeaad3b435b51404ee:8846f7eaee8fb117ad06bdd830b7586c"
	addText("credentials.ParseLMNTHashes", strs(lmnt, ":8846f7eaee8fb117ad06bdd830b7586c", "8846f7eaee8fb117ad06bdd830b7586c", " "+lmnt+"\n"), func(in []byte) { credentials.ParseLMNTHashes(string(in)) })
	addText("credentials.NewCredentials", strs(lmnt, ""), func(in []byte) { credentials.NewCredentials("DOM", "user", "pw", string(in)) })
	// the identity fields are text supplied by the user as well (qualified logon names in every spelling, no domain given)
	logons := strs("alice", "CORP\\alice", "CORP/alice", "alice@corp.example", "/", "\\", "@", "CORP\\", "\\alice", "a/b\\c", ".\\alice", "")
	addText("credentials.NewCredentials(user)", logons, func(in []byte) { credentials.NewCredentials("", string(in), "pw", "") })
	addText("credentials.NewCredentials(domain)", logons, func(in []byte) { credentials.NewCredentials(string(in), "user", "pw", "") })
	addText("credentials.NewCredentials(password)", logons, func(in []byte) { credentials.NewCredentials("", "user", string(in), "") })
	addText("ip.NewIPv4FromString", strs("10.0.0.1", "192.168.1.0/24", "10/8", "1.2.3.4/33"), func(in []byte) {
		if v := ip.NewIPv4FromString(string(in)); v != nil {
			_ = v.String()
		}
	})
	addText("ip.NewIPv6FromString", strs("2001:db8:0:0:0:0:0:1", "::1", "fe80::1%eth0"), func(in []byte) {
		if v := ip.NewIPv6FromString(string(in)); v != nil {
			_ = v.String()
		}
	})
	addText("ip.NewTCPPortRangeFromString", strs("80", "1-1024", "65535-1", "0-65536"), func(in []byte) { ip.NewTCPPortRangeFromString(string(in)) })

	_ = reflect.TypeOf
	return es
}
