package main

// Frame-aware mutations of SMB command encodings ([WordCount][words][ByteCount][data], optionally
// behind a 32-byte header): changes inside the data block with ByteCount kept equal to the data
// actually present, so that the input passes the framing checks and reaches the field decoders.

import "encoding/binary"

// smbFrame locates the data block; hdr is 0 for a bare command and 32 for a message.
func smbFrame(s []byte, hdr int) (dataAt int, ok bool) {
	if len(s) < hdr+3 {
		return 0, false
	}
	wc := int(s[hdr])
	at := hdr + 1 + 2*wc
	if len(s) < at+2 {
		return 0, false
	}
	bc := int(binary.LittleEndian.Uint16(s[at:]))
	if at+2+bc != len(s) {
		return 0, false
	}
	return at + 2, true
}

func withData(s []byte, dataAt int, d []byte) []byte {
	if len(d) > 0xFFFF {
		return nil
	}
	out := append([]byte{}, s[:dataAt]...)
	binary.LittleEndian.PutUint16(out[dataAt-2:], uint16(len(d)))
	return append(out, d...)
}

// stringAt reads what looks like an SMB_STRING at d[p:] and returns its content and the number
// of octets it occupies.
func stringAt(d []byte, p int) (content []byte, size int, ok bool) {
	switch d[p] {
	case 2, 4:
		for q := p + 1; q < len(d); q++ {
			if d[q] == 0 {
				return d[p+1 : q], q + 1 - p, true
			}
		}
	case 1, 5, 3:
		if p+3 <= len(d) {
			n := int(binary.LittleEndian.Uint16(d[p+1:]))
			extra := 0
			if d[p] == 3 {
				extra = 1
			}
			if p+3+n+extra <= len(d) {
				return d[p+3 : p+3+n], 3 + n + extra, true
			}
		}
	}
	return nil, 0, false
}

func encodeString(f byte, content []byte, terminator bool) []byte {
	switch f {
	case 2, 4:
		out := append([]byte{f}, content...)
		if terminator {
			out = append(out, 0)
		}
		return out
	default:
		out := []byte{f, byte(len(content)), byte(len(content) >> 8)}
		out = append(out, content...)
		if f == 3 && terminator {
			out = append(out, 0)
		}
		return out
	}
}

func framedMutations(seeds [][]byte, fn func(class string, pos int, in []byte)) {
	for _, s := range seeds {
		for _, hdr := range []int{0, 32} {
			dataAt, ok := smbFrame(s, hdr)
			if !ok {
				continue
			}
			d := s[dataAt:]
			// the data block cut at every length, the byte count following it
			for n := 0; n < len(d); n++ {
				if n > 96 && n < len(d)-96 && n%7 != 0 {
					continue
				}
				fn("frame-data-cut", n, withData(s, dataAt, d[:n]))
			}
			// every string of the block re-encoded in each of the five buffer formats, with and
			// without its terminator, followed by the rest of the block or by nothing
			for p := 0; p < len(d) && p < 400; p++ {
				if d[p] < 1 || d[p] > 5 {
					continue
				}
				content, size, ok := stringAt(d, p)
				if !ok || len(content) > 300 {
					continue
				}
				for f := byte(1); f <= 5; f++ {
					for _, term := range []bool{true, false} {
						enc := encodeString(f, content, term)
						head := append(append([]byte{}, d[:p]...), enc...)
						if f != d[p] || !term {
							fn("frame-string-format", p, withData(s, dataAt, append(append([]byte{}, head...), d[p+size:]...)))
						}
						fn("frame-string-format-last", p, withData(s, dataAt, head))
					}
				}
				// the plain change of the format octet alone
				for f := byte(0); f <= 6; f++ {
					if f != d[p] {
						m := append([]byte{}, d...)
						m[p] = f
						fn("frame-format-octet", p, withData(s, dataAt, m))
					}
				}
			}
			break
		}
	}
}
