package main

import (
	"reflect"
	"strings"

	"github.com/TheManticoreProject/Manticore/network/smb/smb_v10/dialects"
)

// useDecoded does what a caller does with a value it has just decoded without error: it reads it
// through every exported method that only reads (getters, predicates, String, re-encoders,
// integrity checks, lookups). A decoder that accepts an input and leaves a value on which these
// panic has not really "returned a value". Methods that decode, mutate, print or do I/O are skipped.
func useDecoded(v any) {
	rv := reflect.ValueOf(v)
	if !rv.IsValid() || (rv.Kind() == reflect.Ptr && rv.IsNil()) {
		return
	}
	t := rv.Type()
	for i := 0; i < t.NumMethod(); i++ {
		m := t.Method(i)
		n := m.Name
		skip := false
		for _, p := range []string{"Unmarshal", "FromBytes", "FromString", "FromRawBytes", "Parse", "Set", "Add", "Init", "Describe", "Print", "Close", "Connect", "Send", "Receive", "Reset", "Write", "Export", "Decode", "Read", "Mark", "Register", "Release", "Refresh", "Clean", "Start", "Stop", "Listen", "Serve", "Query"} {
			if strings.HasPrefix(n, p) {
				skip = true
			}
		}
		if skip || m.Type.IsVariadic() {
			continue
		}
		args := []reflect.Value{}
		ok := true
		for a := 1; a < m.Type.NumIn(); a++ {
			at := m.Type.In(a)
			switch {
			case at == reflect.TypeOf(dialects.Dialects{}):
				args = append(args, reflect.ValueOf(dialects.Dialects{Dialects: []string{"PC NETWORK PROGRAM 1.0", "LANMAN1.0", "NT LM 0.12"}}))
			case at.Kind() == reflect.Int || at.Kind() == reflect.Uint8 || at.Kind() == reflect.Uint16 || at.Kind() == reflect.Uint32 || at.Kind() == reflect.Bool || at.Kind() == reflect.String:
				args = append(args, reflect.Zero(at))
			default:
				ok = false
			}
		}
		if !ok {
			continue
		}
		rv.Method(i).Call(args)
	}
}
