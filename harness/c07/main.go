// C07: every decoder is total — any input yields a value or an error; never a panic, a
// fatal error, non-termination or allocation out of proportion to the input.
//
// Parent process: spawns 16 journalled worker children (this same binary), each walking a
// deterministic share of the entry-point registry over the hostile neighbourhood of the
// valid-encoding corpus. Worker: one goroutine calls decoders sequentially; before each call
// the input is written to the journal; a watchdog goroutine measures process CPU time spent
// inside one call; runtime/metrics measures bytes allocated by each call.
package main

import (
	"bufio"
	"encoding/hex"
	"encoding/json"
	"fmt"
	"os"
	"os/exec"
	"path/filepath"
	"runtime"
	"runtime/metrics"
	"sort"
	"strconv"
	"strings"
	"sync"
	"sync/atomic"
	"syscall"
	"time"

	"verif/mon"
)

const blockedBound = 90 * time.Second

const (
	workers     = 16
	cpuBoundSec = 20.0
	allocBase   = 1 << 20
	allocPerB   = 1024
)

type resLine struct {
	T     string           `json:"t"`
	Key   string           `json:"key,omitempty"`
	What  string           `json:"what,omitempty"`
	Entry string           `json:"entry,omitempty"`
	Class string           `json:"class,omitempty"`
	Input string           `json:"input,omitempty"`
	Evals int64            `json:"evals,omitempty"`
	NT    []string         `json:"nt,omitempty"`
	Per   map[string]int64 `json:"per,omitempty"`
}

func cpuSeconds() float64 {
	var ru syscall.Rusage
	syscall.Getrusage(syscall.RUSAGE_SELF, &ru)
	return float64(ru.Utime.Sec) + float64(ru.Utime.Usec)/1e6 + float64(ru.Stime.Sec) + float64(ru.Stime.Usec)/1e6
}

// ------------------------------------------------------------------ worker

func worker(idx int, thorough bool, seed int64, work string, skipEntry, skipOrd int, single string) {
	entries := buildEntries()
	journal, _ := os.OpenFile(filepath.Join(work, fmt.Sprintf("c07.journal.%d", idx)), os.O_CREATE|os.O_RDWR|os.O_TRUNC, 0o644)
	res, _ := os.OpenFile(filepath.Join(work, fmt.Sprintf("c07.res.%d", idx)), os.O_CREATE|os.O_WRONLY|os.O_APPEND, 0o644)
	out := bufio.NewWriter(res)
	emit := func(l resLine) {
		b, _ := json.Marshal(l)
		out.Write(b)
		out.WriteByte('\n')
		out.Flush()
	}
	var seq atomic.Int64
	var seqStartCPU atomic.Uint64 // float bits *1000
	go func() {                   // watchdog on CPU time inside one call
		last := int64(-1)
		lastChange := time.Now()
		for {
			time.Sleep(200 * time.Millisecond)
			s := seq.Load()
			if s != last {
				last = s
				lastChange = time.Now()
				continue
			}
			if cpuSeconds()-float64(seqStartCPU.Load())/1000 > cpuBoundSec {
				os.WriteFile(filepath.Join(work, fmt.Sprintf("c07.stuck.%d", idx)), []byte("cpu"), 0o644)
				os.Exit(3)
			}
			// a call that neither returns nor burns CPU is blocked (self-deadlock on a lock, a
			// read that can never complete): bounded progress in wall time, 90 s for a call
			// that normally takes microseconds; the parent replays it alone before reporting
			if s%2 == 1 && time.Since(lastChange) > blockedBound {
				os.WriteFile(filepath.Join(work, fmt.Sprintf("c07.stuck.%d", idx)), []byte("blocked"), 0o644)
				os.Exit(3)
			}
		}
	}()
	sample := []metrics.Sample{{Name: "/gc/heap/allocs:bytes"}}
	seenKeys := map[string]bool{}
	nt := map[string]bool{}
	per := map[string]int64{}
	var evals int64
	jbuf := make([]byte, 0, 1<<16)
	callOne := func(ei int, ord int, e Entry, class string, pos int, in []byte) {
		// journal first: "<entry idx> <ordinal> <hex>\n" at offset 0
		jbuf = jbuf[:0]
		jbuf = strconv.AppendInt(jbuf, int64(ei), 10)
		jbuf = append(jbuf, ' ')
		jbuf = strconv.AppendInt(jbuf, int64(ord), 10)
		jbuf = append(jbuf, ' ')
		jbuf = append(jbuf, class...)
		jbuf = append(jbuf, ' ')
		jbuf = hex.AppendEncode(jbuf, in)
		jbuf = append(jbuf, '\n')
		journal.WriteAt(jbuf, 0)
		seqStartCPU.Store(uint64(cpuSeconds() * 1000))
		seq.Add(1)
		arg := make([]byte, len(in)) // exact capacity: a decoder slicing past len must panic, not read slack
		copy(arg, in)
		metrics.Read(sample)
		a0 := sample[0].Value.Uint64()
		p, pv, st := mon.Guard(func() { e.Call(arg) })
		metrics.Read(sample)
		alloc := sample[0].Value.Uint64() - a0
		seq.Add(1)
		evals++
		per[e.Name]++
		if p {
			key := "panic:" + mon.PanicClass(pv) + ":" + mon.TopLibFrame(st)
			if !seenKeys[key] {
				seenKeys[key] = true
				emit(resLine{T: "v", Key: key, What: fmt.Sprintf("%s panicked on a %d-byte input (%s): %v", e.Name, len(in), class, pv), Entry: e.Name, Class: class, Input: hex.EncodeToString(in)})
			}
		}
		if alloc > uint64(allocBase+allocPerB*len(in)) {
			// confirm with an exact measurement
			var m0, m1 runtime.MemStats
			arg2 := make([]byte, len(in))
			copy(arg2, in)
			runtime.ReadMemStats(&m0)
			mon.Guard(func() { e.Call(arg2) })
			runtime.ReadMemStats(&m1)
			exact := m1.TotalAlloc - m0.TotalAlloc
			if exact > uint64(allocBase+allocPerB*len(in)) {
				key := "alloc:" + e.Name
				if !seenKeys[key] {
					seenKeys[key] = true
					emit(resLine{T: "v", Key: key, What: fmt.Sprintf("%s allocated %d bytes for a %d-byte input (%s)", e.Name, exact, len(in), class), Entry: e.Name, Class: class, Input: hex.EncodeToString(in)})
				}
			}
		}
		if len(in) > 0 {
			nt[fmt.Sprintf("%s|%s|%d", e.Name, class, pos/8)] = true
		}
	}
	if single != "" { // replay of one input: "<entry name> <hex>"
		f := strings.SplitN(single, " ", 2)
		in, _ := hex.DecodeString(f[1])
		for ei, e := range entries {
			if e.Name == f[0] {
				callOne(ei, 0, e, "single", 0, in)
			}
		}
		emit(resLine{T: "done", Evals: evals})
		return
	}
	for ei, e := range entries {
		if ei%workers != idx || ei < skipEntry {
			continue
		}
		rng := mon.NewRand(uint64(seed), "c07|"+e.Name)
		ord := 0
		msgStride := 1
		if e.Name == "message.Unmarshal" && !thorough {
			msgStride = 5
		}
		if msgStride > 1 {
			var s [][]byte
			for i := 0; i < len(e.Seeds); i += msgStride {
				s = append(s, e.Seeds[i])
			}
			e.Seeds = s
		}
		forEachInput(e, thorough, rng, func(class string, pos int, in []byte) {
			ord++
			if ei == skipEntry && ord <= skipOrd {
				return
			}
			callOne(ei, ord, e, class, pos, in)
		})
	}
	var ntl []string
	for k := range nt {
		ntl = append(ntl, k)
	}
	emit(resLine{T: "done", Evals: evals, NT: ntl, Per: per})
}

// ------------------------------------------------------------------ parent

func readJournal(work string, idx int) (ei, ord int, class string, in []byte, ok bool) {
	b, err := os.ReadFile(filepath.Join(work, fmt.Sprintf("c07.journal.%d", idx)))
	if err != nil {
		return
	}
	line := string(b)
	if i := strings.IndexByte(line, '\n'); i >= 0 {
		line = line[:i]
	}
	f := strings.Split(line, " ")
	if len(f) != 4 {
		return
	}
	ei, _ = strconv.Atoi(f[0])
	ord, _ = strconv.Atoi(f[1])
	class = f[2]
	in, err = hex.DecodeString(f[3])
	return ei, ord, class, in, err == nil
}

func runChild(bin, work string, idx int, env []string) (exit int, stderrTail string) {
	cmd := exec.Command(bin)
	cmd.Env = append(os.Environ(), env...)
	errf, _ := os.Create(filepath.Join(work, fmt.Sprintf("c07.stderr.%d", idx)))
	outf, _ := os.Create(filepath.Join(work, fmt.Sprintf("c07.stdout.%d", idx)))
	cmd.Stderr, cmd.Stdout = errf, outf
	err := cmd.Run()
	errf.Close()
	outf.Close()
	b, _ := os.ReadFile(errf.Name())
	s := string(b)
	if i := strings.Index(s, "fatal error:"); i >= 0 {
		s = s[i:]
	} else if i := strings.Index(s, "panic:"); i >= 0 {
		s = s[i:]
	}
	if len(s) > 3000 {
		s = s[:3000]
	}
	if err != nil {
		if ee, ok := err.(*exec.ExitError); ok {
			return ee.ExitCode(), s
		}
		return -1, s
	}
	return 0, s
}

func main() {
	if w := os.Getenv("VERIF_C07_WORKER"); w != "" {
		idx, _ := strconv.Atoi(w)
		seed, _ := strconv.ParseInt(os.Getenv("VERIF_SEED"), 10, 64)
		se, _ := strconv.Atoi(os.Getenv("VERIF_C07_SKIP_ENTRY"))
		so, _ := strconv.Atoi(os.Getenv("VERIF_C07_SKIP_ORD"))
		worker(idx, os.Getenv("VERIF_TIER") == "thorough", seed, os.Getenv("VERIF_WORK"), se, so, os.Getenv("VERIF_C07_SINGLE"))
		return
	}
	r := mon.Start("C07", "fault_enumeration")
	r.Rule("Every registered decoder entry point is called on the hostile neighbourhood of its corpus of valid encodings: every truncation, every position x {00,01,7F,80,FF,b+1,b-1}, every position x 2- and 4-byte boundary windows in both byte orders, corruption+truncation, seeded havoc, raw constant runs, every 1- and 2-byte input for small parsers, hostile text for text parsers. A case is distinct/non-trivial as (entry point, mutation class, position/8) with a non-empty input.")
	r.Assume("only that the call returns is judged (value or error)", fmt.Sprintf("bounds: %.0f s of process CPU inside one call; %d + %d x len(input) bytes allocated by one call", cpuBoundSec, allocBase, allocPerB), "functions without an error result documented to need fixed-size input (GUID.FromRawBytes, KeyCredentialVersion.FromBytes) are reached only through the decoders that call them")
	work := os.Getenv("VERIF_WORK")
	if work == "" {
		work, _ = os.MkdirTemp("/verif/.work", "c07")
	}
	bin := os.Getenv("VERIF_BIN")
	if bin == "" {
		bin, _ = os.Executable()
	}
	entries := buildEntries()
	r.Extra("entry_points", len(entries))
	emptyCorpus := []string{}
	for _, e := range entries {
		if len(e.Seeds) == 0 {
			emptyCorpus = append(emptyCorpus, e.Name)
		}
	}
	r.Extra("entries_without_valid_encoding", emptyCorpus)
	var mu sync.Mutex
	per := map[string]int64{}
	var wg sync.WaitGroup
	for idx := 0; idx < workers; idx++ {
		wg.Add(1)
		go func(idx int) {
			defer wg.Done()
			skipE, skipO := 0, 0
			for restart := 0; restart < 40; restart++ {
				env := []string{fmt.Sprintf("VERIF_C07_WORKER=%d", idx), fmt.Sprintf("VERIF_C07_SKIP_ENTRY=%d", skipE), fmt.Sprintf("VERIF_C07_SKIP_ORD=%d", skipO),
					"VERIF_TIER=" + r.Tier, fmt.Sprintf("VERIF_SEED=%d", r.Seed), "VERIF_WORK=" + work, "GOMAXPROCS=2"}
				os.Remove(filepath.Join(work, fmt.Sprintf("c07.stuck.%d", idx)))
				exit, tail := runChild(bin, work, idx, env)
				if exit == 0 {
					return
				}
				ei, ord, class, in, ok := readJournal(work, idx)
				if !ok || ei >= len(entries) {
					r.Inconclusive(fmt.Sprintf("worker %d died (exit %d) without a readable journal: %s", idx, exit, tail))
					return
				}
				e := entries[ei]
				cs := map[string]any{"entry": e.Name, "class": class, "input": hex.EncodeToString(in), "stderr": tail}
				stuck := false
				if _, err := os.Stat(filepath.Join(work, fmt.Sprintf("c07.stuck.%d", idx))); err == nil {
					stuck = true
					// replay alone in a fresh child before reporting
					exit2, _ := runChild(bin, work, 100+idx, []string{fmt.Sprintf("VERIF_C07_WORKER=%d", 100+idx), "VERIF_C07_SINGLE=" + e.Name + " " + hex.EncodeToString(in), "VERIF_WORK=" + work})
					if exit2 == 3 {
						r.Violation("timeout:"+e.Name, fmt.Sprintf("%s did not return on a %d-byte input (%s): more than %.0f s of CPU inside the call, or blocked for more than %v without progress; reproduced alone in a fresh process", e.Name, len(in), class, cpuBoundSec, blockedBound), cs)
					} else {
						r.Inconclusive(fmt.Sprintf("%s exceeded the CPU bound once but returned when replayed alone", e.Name))
					}
				} else {
					first := tail
					if i := strings.IndexByte(first, '\n'); i >= 0 {
						first = first[:i]
					}
					r.Violation("fatal:"+e.Name+":"+strings.ReplaceAll(strings.TrimPrefix(first, "fatal error: "), " ", "-"), fmt.Sprintf("%s killed the process on a %d-byte input (%s): %s", e.Name, len(in), class, first), cs)
				}
				skipE, skipO = ei, ord
				if stuck {
					// one witness of non-termination per entry point is enough: the rest of its
					// neighbourhood would cost the CPU bound again for every input that loops
					skipO = int(^uint(0) >> 1)
				}
			}
			r.Inconclusive(fmt.Sprintf("worker %d restarted too often", idx))
		}(idx)
	}
	wg.Wait()
	// collect
	doneWorkers := 0
	for idx := 0; idx < workers; idx++ {
		f, err := os.Open(filepath.Join(work, fmt.Sprintf("c07.res.%d", idx)))
		if err != nil {
			continue
		}
		sc := bufio.NewScanner(f)
		sc.Buffer(make([]byte, 1<<20), 1<<28)
		for sc.Scan() {
			var l resLine
			if json.Unmarshal(sc.Bytes(), &l) != nil {
				continue
			}
			switch l.T {
			case "v":
				r.Violation(l.Key, l.What, map[string]any{"entry": l.Entry, "class": l.Class, "input": l.Input})
			case "done":
				doneWorkers++
				r.Eval(int(l.Evals))
				for _, k := range l.NT {
					r.Nontrivial(k)
				}
				mu.Lock()
				for k, v := range l.Per {
					per[k] += v
				}
				mu.Unlock()
			}
		}
		f.Close()
	}
	if doneWorkers < workers {
		r.Inconclusive(fmt.Sprintf("only %d of %d workers finished", doneWorkers, workers))
	}
	// per-entry call counts (compact: min/max + a few)
	type kv struct {
		k string
		v int64
	}
	var kvs []kv
	for k, v := range per {
		kvs = append(kvs, kv{k, v})
	}
	sort.Slice(kvs, func(i, j int) bool { return kvs[i].k < kvs[j].k })
	calls := map[string]int64{}
	for _, x := range kvs {
		calls[x.k] = x.v
	}
	r.Extra("calls_per_entry_point", calls)
	for i, e := range entries {
		if i%37 == 0 && len(e.Seeds) > 0 {
			r.Sample(map[string]any{"entry": e.Name, "valid_encoding": mon.Hex(e.Seeds[0]), "calls": per[e.Name]})
		}
	}
	r.Finish()
}
