package main

// Parsing of the race detector's log files and of a crashed child's stderr.

import (
	"os"
	"path/filepath"
	"regexp"
	"sort"
	"strings"
)

const modPrefix = "github.com/TheManticoreProject/Manticore/"

type raceReport struct {
	Key    string
	Frames [2]string
	Text   string
}

var accessHdr = regexp.MustCompile(`^(Read|Write|Previous read|Previous write|Atomic read|Atomic write|Previous atomic read|Previous atomic write) at 0x[0-9a-f]+ by `)

// shortFrame turns "github.com/TheManticoreProject/Manticore/network/netbios/nbtns.(*T).M()"
// into "nbtns.(*T).M".
func shortFrame(f string) string {
	f = strings.TrimSpace(f)
	if i := strings.Index(f, "("); i >= 0 && strings.HasSuffix(f, ")") {
		// drop the trailing argument list "()" / "(...)" only
		if j := strings.LastIndex(f, "("); j > 0 && !strings.HasPrefix(f[j:], "(*") {
			f = f[:j]
		}
	}
	f = strings.TrimPrefix(f, modPrefix)
	if i := strings.LastIndex(f, "/"); i >= 0 {
		f = f[i+1:]
	}
	return f
}

// outermostLib returns the outermost Manticore frame of one stack (frames are listed
// innermost first); "client" if the access is in harness code only (e.g. the harness
// writing into a slice the library handed out), "unknown-stack" if there is no stack.
func outermostLib(funcs []string) string {
	lib, client := "", false
	for _, f := range funcs {
		if strings.HasPrefix(f, modPrefix) {
			lib = f
		} else if strings.HasPrefix(f, "main.") {
			client = true
		}
	}
	switch {
	case lib != "":
		return shortFrame(lib)
	case client:
		return "client"
	}
	return "unknown-stack"
}

func parseRaceLogs(glob string) (reports []raceReport, files int) {
	paths, _ := filepath.Glob(glob)
	sort.Strings(paths)
	for _, p := range paths {
		b, err := os.ReadFile(p)
		if err != nil {
			continue
		}
		files++
		for _, block := range strings.Split(string(b), "==================") {
			if !strings.Contains(block, "WARNING: DATA RACE") {
				continue
			}
			var stacks [][]string
			var cur []string
			in := false
			for _, line := range strings.Split(block, "\n") {
				switch {
				case accessHdr.MatchString(line):
					if in {
						stacks = append(stacks, cur)
					}
					cur, in = nil, true
				case strings.TrimSpace(line) == "" || strings.HasPrefix(line, "Goroutine "):
					if in {
						stacks = append(stacks, cur)
						cur, in = nil, false
					}
				case in && strings.HasPrefix(line, "  ") && !strings.HasPrefix(line, "    "):
					cur = append(cur, strings.TrimSpace(line))
				}
			}
			if in {
				stacks = append(stacks, cur)
			}
			r := raceReport{Text: strings.TrimSpace(block)}
			a, bb := "unknown-stack", "unknown-stack"
			if len(stacks) > 0 {
				a = outermostLib(stacks[0])
			}
			if len(stacks) > 1 {
				bb = outermostLib(stacks[1])
			}
			if bb < a {
				a, bb = bb, a
			}
			r.Frames = [2]string{a, bb}
			r.Key = "race:" + keyFrame(a) + "+" + keyFrame(bb)
			reports = append(reports, r)
		}
	}
	return
}

// keyFrame drops the receiver punctuation: nbtns.(*T).M -> nbtns.T.M
func keyFrame(f string) string {
	return strings.NewReplacer("(*", "", "(", "", ")", "").Replace(f)
}

var fatalRe = regexp.MustCompile(`(?m)^(fatal error|panic): (.*)$`)
var slugRe = regexp.MustCompile(`[^A-Za-z0-9]+`)

// parseCrash looks at a dead child's stderr. ok is false if there is no Go crash header.
func parseCrash(stderr string) (kind, msg, frame string, ok bool) {
	m := fatalRe.FindStringSubmatchIndex(stderr)
	if m == nil {
		return "", "", "", false
	}
	kind = "fatal"
	if stderr[m[2]:m[3]] == "panic" {
		kind = "panic"
	}
	msg = stderr[m[4]:m[5]]
	rest := stderr[m[1]:]
	// the faulting goroutine is printed first; fall back to the whole dump
	first := rest
	if i := strings.Index(rest, "\n\ngoroutine "); i >= 0 {
		if j := strings.Index(rest[i+2:], "\n\n"); j >= 0 {
			first = rest[:i+2+j]
		}
	}
	find := func(s string) string {
		out := ""
		for _, line := range strings.Split(s, "\n") {
			if strings.HasPrefix(line, modPrefix) {
				out = line // keep the outermost
			}
		}
		return out
	}
	f := find(first)
	if f == "" {
		f = find(rest)
	}
	if f != "" {
		frame = shortFrame(f)
	}
	return kind, msg, frame, true
}

func slug(s string) string {
	s = slugRe.ReplaceAllString(strings.TrimSpace(s), "_")
	if len(s) > 48 {
		s = s[:48]
	}
	return strings.Trim(s, "_")
}
