package main

// The sequential reference model of the NBNS name table (written from the property
// statement, not from nbtns.go), the operation alphabet, and the adapter that
// applies one operation to the real table and decodes what came back.

import (
	"fmt"
	"net"
	"time"

	"github.com/TheManticoreProject/Manticore/network/netbios/nbtns"

	"verif/mon"
)

type opKind uint8

const (
	opRegister opKind = iota
	opQuery
	opRelease
	opRefresh
	opMark
	opClean
)

var kindName = [...]string{"RegisterName", "QueryName", "ReleaseName", "RefreshName", "MarkNameConflict", "CleanExpiredNames"}

const (
	tU = uint8(0) // unique
	tG = uint8(1) // group

	stActive   = uint8(0)
	stConflict = uint8(1)
)

// op is one operation instance. Name is an index into the history's name list
// (-1 for Clean), Addr an index into the address alphabet.
type op struct {
	Kind opKind
	Name int
	Type uint8
	Addr int
}

func (o op) String() string {
	ty := "U"
	if o.Type == tG {
		ty = "G"
	}
	switch o.Kind {
	case opRegister:
		return fmt.Sprintf("Register(n%d,%s,a%d)", o.Name, ty, o.Addr)
	case opQuery:
		return fmt.Sprintf("Query(n%d)", o.Name)
	case opRelease:
		return fmt.Sprintf("Release(n%d,a%d)", o.Name, o.Addr)
	case opRefresh:
		return fmt.Sprintf("Refresh(n%d,a%d)", o.Name, o.Addr)
	case opMark:
		return fmt.Sprintf("MarkConflict(n%d)", o.Name)
	}
	return "Clean()"
}

// ---------------------------------------------------------------------------------
// The model. State of ONE name; a table is one rec per name. Comparable.

type rec struct {
	Exists bool
	Type   uint8
	Status uint8
	Owners uint16 // set of address indices (owner order is not demanded)
}

// outcome is what a client sees from one call. Comparable.
type outcome struct {
	Err    bool
	Owners uint16 // QueryName only
	Type   uint8  // QueryName only
	Bad    uint8  // QueryName only: 1 duplicate owner in the result, 2 owner that was never registered
}

// step is the whole sequential specification: new state and expected outcome of o
// on a name in state s. expiring is the (fixed) sign of that name's TTL. nd reports
// the one not-demanded choice: a unique name re-registered as unique by its current
// owner may answer nil or conflict (state unchanged either way).
func step(s rec, o op, expiring bool) (ns rec, out outcome, nd bool) {
	bit := uint16(1) << uint(o.Addr)
	switch o.Kind {
	case opRegister:
		switch {
		case !s.Exists:
			return rec{Exists: true, Type: o.Type, Status: stActive, Owners: bit}, outcome{}, false
		case s.Type == tG && o.Type == tG:
			s.Owners |= bit
			return s, outcome{}, false
		default: // a unique name is involved: refused, nothing changes
			return s, outcome{Err: true}, s.Type == tU && o.Type == tU && s.Owners == bit
		}
	case opQuery:
		if s.Exists && s.Status == stActive {
			return s, outcome{Owners: s.Owners, Type: s.Type}, false
		}
		return s, outcome{Err: true}, false
	case opRelease:
		if !s.Exists || s.Owners&bit == 0 {
			return s, outcome{Err: true}, false
		}
		s.Owners &^= bit
		if s.Owners == 0 { // unique name, or last member of a group
			return rec{}, outcome{}, false
		}
		return s, outcome{}, false
	case opRefresh:
		return s, outcome{Err: !s.Exists || s.Owners&bit == 0}, false
	case opMark:
		if !s.Exists {
			return s, outcome{Err: true}, false
		}
		s.Status = stConflict
		return s, outcome{}, false
	case opClean:
		if s.Exists && expiring {
			return rec{}, outcome{}, false
		}
		return s, outcome{}, false
	}
	panic("model: unknown op")
}

// agrees says whether the observed outcome is one the model allows.
func agrees(want, got outcome, nd bool) bool {
	if want.Err || got.Err {
		return want.Err == got.Err || (nd && !got.Err)
	}
	return want == got
}

// situation names the class of (state, op) for violation keys: stable, no data.
func situation(s rec, o op, expiring bool) string {
	if o.Kind == opClean {
		e := "fresh"
		if expiring {
			e = "expiring"
		}
		if !s.Exists {
			return e + "-absent"
		}
		return e + "-" + recClass(s)
	}
	if !s.Exists {
		return "absent"
	}
	c := recClass(s)
	bit := uint16(1) << uint(o.Addr)
	switch o.Kind {
	case opRegister:
		ty := "U"
		if o.Type == tG {
			ty = "G"
		}
		who := "other"
		if s.Owners&bit != 0 {
			who = "owner"
		}
		return c + "-as" + ty + "-by-" + who
	case opRelease, opRefresh:
		switch {
		case s.Owners&bit == 0:
			return c + "-by-nonowner"
		case s.Owners == bit:
			return c + "-by-sole-owner"
		}
		return c + "-by-one-of-many"
	}
	return c
}

func recClass(s rec) string {
	c := "U"
	if s.Type == tG {
		c = "G"
	}
	if s.Status == stConflict {
		return c + "conflict"
	}
	return c + "active"
}

// ---------------------------------------------------------------------------------
// Alphabet of names and addresses.

var tableNames = []string{"FILESRV01", "WORKGROUP", "PRINTSRV"}

// canonical addresses; index = bit position in rec.Owners
var addrCanon = []net.IP{
	net.IPv4(10, 0, 0, 1).To4(),
	net.IPv4(10, 0, 0, 2).To4(),
	net.ParseIP("2001:db8::3"),
	net.IPv4(10, 0, 0, 4).To4(),
}

// ipFor returns a FRESH slice for address a. form 1 gives the 16-byte form of an
// IPv4 address: the same address in net.IP's other representation.
func ipFor(a, form int) net.IP {
	c := addrCanon[a]
	if form == 1 && len(c) == 4 {
		return append(net.IP(nil), c.To16()...)
	}
	return append(net.IP(nil), c...)
}

func decodeOwners(ips []net.IP) (mask uint16, bad uint8) {
	for _, ip := range ips {
		idx := -1
		for i, c := range addrCanon {
			if c.Equal(ip) {
				idx = i
				break
			}
		}
		if idx < 0 {
			bad = 2
			continue
		}
		if mask&(1<<uint(idx)) != 0 && bad == 0 {
			bad = 1
		}
		mask |= 1 << uint(idx)
	}
	return
}

func ipStrings(ips []net.IP) []string {
	out := make([]string, len(ips))
	for i, ip := range ips {
		out[i] = ip.String()
	}
	return out
}

// ---------------------------------------------------------------------------------
// Adapter: one operation against the real table.

type applied struct {
	Out   outcome
	Raw   []net.IP // the slice QueryName returned (nil otherwise)
	ErrS  string
	Panic string // non-empty: the call panicked
	Class string
	Frame string
}

func ttlFor(expiring bool) time.Duration {
	if expiring {
		return -time.Hour
	}
	return time.Hour
}

func apply(t *nbtns.NetBIOSNameServer, o op, expiring bool, form int) (a applied) {
	var err error
	p, v, st := mon.Guard(func() {
		switch o.Kind {
		case opRegister:
			nt := nbtns.Unique
			if o.Type == tG {
				nt = nbtns.Group
			}
			err = t.RegisterName(tableNames[o.Name], nt, ipFor(o.Addr, form), ttlFor(expiring))
		case opQuery:
			var ips []net.IP
			var nt nbtns.NameType
			ips, nt, err = t.QueryName(tableNames[o.Name])
			a.Raw = ips
			if err == nil {
				a.Out.Owners, a.Out.Bad = decodeOwners(ips)
				switch nt {
				case nbtns.Unique:
					a.Out.Type = tU
				case nbtns.Group:
					a.Out.Type = tG
				default:
					a.Out.Type = 0xFF
				}
			}
		case opRelease:
			err = t.ReleaseName(tableNames[o.Name], ipFor(o.Addr, form))
		case opRefresh:
			err = t.RefreshName(tableNames[o.Name], ipFor(o.Addr, form))
		case opMark:
			err = t.MarkNameConflict(tableNames[o.Name])
		case opClean:
			t.CleanExpiredNames()
		}
	})
	if p {
		a.Panic = fmt.Sprint(v)
		a.Class = mon.PanicClass(v)
		a.Frame = mon.TopLibFrame(st)
		return
	}
	if err != nil {
		a.Out = outcome{Err: true}
		a.ErrS = err.Error()
	}
	return
}

var poisonIP = net.IPv4(255, 255, 255, 255).To4()

// scribble overwrites every element of a returned owner slice, up to its capacity:
// what a caller that owns the slice is entitled to do.
func scribble(s []net.IP) {
	full := s[:cap(s)]
	for i := range full {
		full[i] = poisonIP
	}
}

func stillPoison(s []net.IP) bool {
	full := s[:cap(s)]
	for i := range full {
		if len(full[i]) != 4 || &full[i][0] != &poisonIP[0] {
			return false
		}
	}
	return true
}

func describeOutcome(o outcome, isQuery bool) string {
	if o.Err {
		return "error"
	}
	if !isQuery {
		return "nil"
	}
	ty := "Unique"
	switch o.Type {
	case tG:
		ty = "Group"
	case tU:
	default:
		ty = fmt.Sprintf("type(%d)", o.Type)
	}
	s := fmt.Sprintf("owners=%s %s", maskString(o.Owners), ty)
	switch o.Bad {
	case 1:
		s += " (duplicate owner in result)"
	case 2:
		s += " (owner that was never registered in result)"
	}
	return s
}

func maskString(m uint16) string {
	s := "{"
	for i := 0; i < len(addrCanon); i++ {
		if m&(1<<uint(i)) != 0 {
			if len(s) > 1 {
				s += ","
			}
			s += fmt.Sprintf("a%d", i)
		}
	}
	return s + "}"
}
