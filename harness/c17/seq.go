package main

// W1: exhaustive sequential exploration. Every operation sequence over the alphabet up
// to the depth bound is executed from a fresh table, and after EVERY operation the
// return value, QueryName of every name, the live-table snapshot (taken under the
// table's own lock), the structural invariants and the aliasing probes are judged
// against the model.

import (
	"fmt"
	"net"
	"sort"
	"sync"
	"sync/atomic"

	"github.com/TheManticoreProject/Manticore/network/netbios/nbtns"

	"verif/mon"
)

type seqCfg struct {
	NNames   int
	Expiring [2]bool
	Depth    int
	Light    bool // full checks only after the last operation of each sequence
}

func (c seqCfg) String() string {
	s := fmt.Sprintf("names=%d depth=%d ttl=", c.NNames, c.Depth)
	if c.Light {
		s = fmt.Sprintf("names=%d depth=%d(final-step checks) ttl=", c.NNames, c.Depth)
	}
	for n := 0; n < c.NNames; n++ {
		if c.Expiring[n] {
			s += "-1h"
		} else {
			s += "+1h"
		}
		if n+1 < c.NNames {
			s += ","
		}
	}
	return s
}

// alphabet: nNames x {U,G} x 3 addresses registers, queries, releases, refreshes,
// conflict marks and one Clean: 29 instances for two names, 15 for one.
func alphabet(nNames int) []op {
	var a []op
	for n := 0; n < nNames; n++ {
		for _, ty := range []uint8{tU, tG} {
			for ad := 0; ad < 3; ad++ {
				a = append(a, op{Kind: opRegister, Name: n, Type: ty, Addr: ad})
			}
		}
	}
	for n := 0; n < nNames; n++ {
		a = append(a, op{Kind: opQuery, Name: n})
	}
	for _, k := range []opKind{opRelease, opRefresh} {
		for n := 0; n < nNames; n++ {
			for ad := 0; ad < 3; ad++ {
				a = append(a, op{Kind: k, Name: n, Addr: ad})
			}
		}
	}
	for n := 0; n < nNames; n++ {
		a = append(a, op{Kind: opMark, Name: n})
	}
	return append(a, op{Kind: opClean, Name: -1})
}

// formFor fixes which net.IP representation a call passes (a2 is IPv6 and has one
// form): it alternates with the address and with the position in the sequence, and
// release/refresh use the opposite of what a registration at that position would, so
// that the exhaustive enumeration meets every pairing of the 4-byte and the 16-byte
// form of one IPv4 address (register/register, register/release, register/refresh).
func formFor(o op, pos int) int {
	f := (o.Addr ^ pos) & 1
	if o.Kind == opRelease || o.Kind == opRefresh {
		f ^= 1
	}
	return f
}

type witness struct {
	Key   string
	What  string
	Case  map[string]any
	Len   int
	Order string
	Count int64
}

type heldResult struct {
	s        []net.IP
	saved    []net.IP // element headers as returned; nil: the slice was scribbled and must still be all poison
	name     int
	stepMade int
}

func (h heldResult) changed() bool {
	if h.saved == nil {
		return !stillPoison(h.s)
	}
	for j := range h.saved {
		a, b := h.s[j], h.saved[j]
		if len(a) != len(b) || (len(a) > 0 && &a[0] != &b[0]) {
			return true
		}
	}
	return false
}

type seqWorker struct {
	evals, seqs, steps int64
	reports            int64
	trans              map[uint32]struct{}
	viols              map[string]*witness
	held               []heldResult
}

func (w *seqWorker) report(cfg seqCfg, alpha []op, seq []int, upto int, key, what string) {
	ops := make([]string, upto+1)
	order := ""
	for i := 0; i <= upto; i++ {
		ops[i] = alpha[seq[i]].String()
		order += fmt.Sprintf("%02d.", seq[i])
	}
	order = cfg.String() + "|" + order
	v := w.viols[key]
	if v == nil {
		v = &witness{Key: key, Len: 1 << 30}
		w.viols[key] = v
	}
	v.Count++
	w.reports++
	if upto+1 < v.Len || (upto+1 == v.Len && order < v.Order) {
		v.Len, v.Order, v.What = upto+1, order, what
		v.Case = map[string]any{"workload": "W1", "config": cfg.String(), "names": tableNames[:cfg.NNames],
			"addresses": ipStrings(addrCanon[:3]), "ops": ops, "failing_step": upto, "observed_vs_expected": what}
	}
}

func cfgBitsOf(cfg seqCfg) uint32 {
	b := uint32(0)
	if cfg.Expiring[0] {
		b |= 1
	}
	if cfg.Expiring[1] {
		b |= 2
	}
	if cfg.NNames == 1 {
		b |= 4
	}
	return b
}

// runSeq executes one sequence from a fresh table. In full mode every check runs after
// every step; in light mode (used one level beyond the deepest full exploration, whose
// runs have already judged every proper prefix completely) the return value and the
// held results are judged at every step and the rest only after the last step. It
// stops at the first disagreement (model and table have diverged; anything later
// would cascade).
func (w *seqWorker) runSeq(cfg seqCfg, alpha []op, seq []int) {
	// both values of the constructor's option in turn (decided by the sequence itself, so that a
	// replay builds the same table): the table's behaviour does not depend on it
	parity := 0
	for _, x := range seq {
		parity += x
	}
	t := nbtns.NewNetBIOSNameServer(parity%2 == 0)
	var st [2]rec
	w.held = w.held[:0]
	w.seqs++
	cfgBits := cfgBitsOf(cfg)
	// In light mode the steps before the last were judged on return values only, so a
	// disagreement may be the late echo of an earlier one: re-run the prefix with every
	// check after every step and let that run name the earliest disagreement.
	fail := func(i int, key, what string) {
		if cfg.Light {
			n := w.reports
			full := cfg
			full.Light, full.Depth = false, i+1
			w.seqs--
			w.runSeq(full, alpha, seq[:i+1])
			if w.reports > n {
				return
			}
		}
		w.report(cfg, alpha, seq, i, key, what)
	}
	for i, oi := range seq {
		o := alpha[oi]
		w.steps++
		w.trans[cfgBits<<24|packRec(st[0])<<16|packRec(st[1])<<8|uint32(oi)] = struct{}{}
		before := st
		var want outcome
		var nd bool
		if o.Kind == opClean {
			for n := 0; n < cfg.NNames; n++ {
				st[n], _, _ = step(st[n], o, cfg.Expiring[n])
			}
		} else {
			st[o.Name], want, nd = step(st[o.Name], o, cfg.Expiring[o.Name])
		}
		// key material is only built when something is wrong
		sitOf := func(n int) string { return situation(before[n], o, cfg.Expiring[n]) }
		base := func() string {
			if o.Kind == opClean {
				return "W1:" + kindName[o.Kind]
			}
			return "W1:" + kindName[o.Kind] + ":" + sitOf(o.Name)
		}

		// 1. the operation itself
		a := apply(t, o, o.Name >= 0 && cfg.Expiring[o.Name], formFor(o, i))
		w.evals++
		if a.Panic != "" {
			fail(i, base()+":panic:"+a.Class, fmt.Sprintf("%s panicked: %s at %s", o, a.Panic, a.Frame))
			return
		}
		if !agrees(want, a.Out, nd) {
			fail(i, base()+":return", fmt.Sprintf("%s returned %s (%s), model says %s",
				o, describeOutcome(a.Out, o.Kind == opQuery), a.ErrS, describeOutcome(want, o.Kind == opQuery)))
			return
		}
		if o.Kind == opQuery && a.Raw != nil {
			w.held = append(w.held, heldResult{s: a.Raw, saved: append([]net.IP{}, a.Raw...), name: o.Name, stepMade: i})
		}

		// 2. results handed out earlier must not have been changed by this table update
		for _, h := range w.held {
			if h.stepMade != i && h.changed() {
				fail(i, base()+":alias-result-changed", fmt.Sprintf("a slice returned by QueryName(n%d) at step %d was changed by the later %s: was %v, now %v",
					h.name, h.stepMade, o, ipStrings(h.saved), ipStrings(h.s[:cap(h.s)])))
				return
			}
		}
		if cfg.Light && i+1 < len(seq) {
			continue
		}

		// 3. QueryName of every name, then scribble over the result and ask again
		for n := 0; n < cfg.NNames; n++ {
			q := op{Kind: opQuery, Name: n}
			_, wantQ, _ := step(st[n], q, false)
			qkey := func() string {
				switch {
				case o.Kind == opClean:
					return base() + ":" + sitOf(n) + ":post-query"
				case n != o.Name:
					return base() + ":post-query-other-name"
				}
				return base() + ":post-query"
			}
			a1 := apply(t, q, false, 0)
			w.evals++
			if a1.Panic != "" {
				fail(i, qkey()+":panic:"+a1.Class, fmt.Sprintf("QueryName(n%d) after %s panicked: %s at %s", n, o, a1.Panic, a1.Frame))
				return
			}
			if !agrees(wantQ, a1.Out, false) {
				fail(i, qkey(), fmt.Sprintf("after %s, QueryName(n%d) gives %s, model says %s",
					o, n, describeOutcome(a1.Out, true), describeOutcome(wantQ, true)))
				return
			}
			if a1.Raw != nil {
				scribble(a1.Raw)
				w.held = append(w.held, heldResult{s: a1.Raw, name: n, stepMade: i})
			}
			a2 := apply(t, q, false, 0)
			w.evals++
			if a2.Panic != "" || !agrees(wantQ, a2.Out, false) {
				fail(i, "W1:QueryName:"+recClass(st[n])+":alias-scribble-leak", fmt.Sprintf("after %s, overwriting the slice QueryName(n%d) returned changed the table: re-query gives %s %s, model says %s",
					o, n, describeOutcome(a2.Out, true), a2.Panic, describeOutcome(wantQ, true)))
				return
			}
			if a2.Raw != nil {
				w.held = append(w.held, heldResult{s: a2.Raw, saved: append([]net.IP{}, a2.Raw...), name: n, stepMade: i})
			}
		}

		// 4. the live table, under its own lock
		var snap map[string]nbtns.NameRecord
		p, v, stk := mon.Guard(func() { snap = t.VerifSnapshot() })
		w.evals++
		if p {
			fail(i, base()+":snapshot:panic:"+mon.PanicClass(v), fmt.Sprintf("VerifSnapshot after %s panicked: %v at %s", o, v, mon.TopLibFrame(stk)))
			return
		}
		if cls, what := judgeSnapshot(snap, st[:cfg.NNames], cfg.NNames); cls != "" {
			fail(i, base()+":post-snapshot:"+cls, fmt.Sprintf("after %s: %s", o, what))
			return
		}
	}
}

func packRec(r rec) uint32 {
	if !r.Exists {
		return 0
	}
	return 1 | uint32(r.Type)<<1 | uint32(r.Status)<<2 | uint32(r.Owners&0xF)<<3
}

// recordInvariants are the structural invariants of one live record; they need no model.
func recordInvariants(k string, r nbtns.NameRecord) (string, string) {
	if r.Name != k {
		return "invariant-name-field", fmt.Sprintf("record stored under %q says its name is %q", k, r.Name)
	}
	if r.Type != nbtns.Unique && r.Type != nbtns.Group {
		return "invariant-type", fmt.Sprintf("record %q has type %d", k, r.Type)
	}
	if len(r.Owners) == 0 {
		return "invariant-no-owner", fmt.Sprintf("record %q is in the table with no owner", k)
	}
	if r.Type == nbtns.Unique && len(r.Owners) != 1 {
		return "invariant-unique-one-owner", fmt.Sprintf("unique name %q has %d owners %v", k, len(r.Owners), ipStrings(r.Owners))
	}
	for i := range r.Owners {
		for j := i + 1; j < len(r.Owners); j++ {
			if r.Owners[i].Equal(r.Owners[j]) {
				return "invariant-distinct-owners", fmt.Sprintf("name %q lists owner %s twice", k, r.Owners[i])
			}
		}
	}
	return "", ""
}

// judgeSnapshot checks the structural invariants of the live map and, if st is not
// nil, its agreement with the model (st[n] is the model's record of tableNames[n]).
func judgeSnapshot(snap map[string]nbtns.NameRecord, st []rec, nNames int) (string, string) {
	live := 0
	for n := 0; n < nNames; n++ {
		r, ok := snap[tableNames[n]]
		if ok {
			live++
			if cls, what := recordInvariants(tableNames[n], r); cls != "" {
				return cls, what
			}
		}
		if st == nil {
			continue
		}
		m := st[n]
		if ok != m.Exists {
			return "presence", fmt.Sprintf("name n%d present in table=%v, model=%v", n, ok, m.Exists)
		}
		if !ok {
			continue
		}
		ty := tU
		if r.Type == nbtns.Group {
			ty = tG
		}
		if ty != m.Type {
			return "type", fmt.Sprintf("name n%d has type %d in the table, model %d", n, ty, m.Type)
		}
		stt := uint8(0xFF)
		switch r.Status {
		case nbtns.Active:
			stt = stActive
		case nbtns.Conflict:
			stt = stConflict
		}
		if stt != m.Status {
			return "status", fmt.Sprintf("name n%d has status %d in the table, model %d", n, r.Status, m.Status)
		}
		mask, bad := decodeOwners(r.Owners)
		if bad != 0 || mask != m.Owners {
			return "owners", fmt.Sprintf("name n%d has owners %v in the table, model %s", n, ipStrings(r.Owners), maskString(m.Owners))
		}
	}
	if live != len(snap) {
		keys := make([]string, 0, len(snap))
		for k := range snap {
			keys = append(keys, k)
		}
		sort.Strings(keys)
		return "presence-foreign-name", fmt.Sprintf("table holds names %v, only %v were ever used", keys, tableNames[:nNames])
	}
	return "", ""
}

// explore runs every sequence of exactly cfg.Depth operations (each visits, and fully
// checks, all of its prefixes), spread over the workers by the first two operations.
func explore(cfg seqCfg, workers []*seqWorker) {
	alpha := alphabet(cfg.NNames)
	k := len(alpha)
	split := 2
	if cfg.Depth < 2 {
		split = cfg.Depth
	}
	nItems := 1
	for i := 0; i < split; i++ {
		nItems *= k
	}
	var next atomic.Int64
	var wg sync.WaitGroup
	for _, w := range workers {
		wg.Add(1)
		go func(w *seqWorker) {
			defer wg.Done()
			seq := make([]int, cfg.Depth)
			for {
				it := int(next.Add(1) - 1)
				if it >= nItems {
					return
				}
				for i := split - 1; i >= 0; i-- {
					seq[i] = it % k
					it /= k
				}
				var rec func(d int)
				rec = func(d int) {
					if d == cfg.Depth {
						w.runSeq(cfg, alpha, seq)
						return
					}
					for o := 0; o < k; o++ {
						seq[d] = o
						rec(d + 1)
					}
				}
				rec(split)
			}
		}(w)
	}
	wg.Wait()
}
