// C17: the NBNS name table keeps its ownership invariants under all histories and
// schedules.
//
// The binary (built with -race) runs twice over: the parent only orchestrates — it
// re-executes itself as child processes with GORACE="halt_on_error=0 log_path=…" so
// that the race detector keeps going and writes its reports to files, collects what
// the children judged (W1 exhaustive sequential exploration, W2 concurrent histories
// checked with porcupine), counts and de-duplicates the race reports by the pair of
// outermost Manticore frames, and turns a child that died of a Go fatal error
// (`concurrent map writes`, deadlock) into a violation.
package main

import (
	"bufio"
	"encoding/json"
	"fmt"
	"os"
	"os/exec"
	"path/filepath"
	"runtime"
	"sort"
	"strings"
	"sync"
	"syscall"
	"time"

	"github.com/TheManticoreProject/Manticore/network/netbios/nbtns"

	"verif/mon"
)

const workerEnv = "VERIF_C17_WORKER"

type violRec struct {
	Key  string `json:"key"`
	What string `json:"what"`
	Case any    `json:"case"`
	N    int64  `json:"n"`
}

type childResult struct {
	Mode         string           `json:"mode"`
	Evals        int64            `json:"evals"`
	Counters     map[string]int64 `json:"counters"`
	Extras       map[string]any   `json:"extras"`
	Samples      []any            `json:"samples"`
	Nontrivial   []string         `json:"nontrivial"`
	Inconclusive []string         `json:"inconclusive"`
	Exhaustive   bool             `json:"exhaustive"`
	Done         bool             `json:"done"`
}

func workDir() string {
	if w := os.Getenv("VERIF_WORK"); w != "" {
		return w
	}
	d, _ := os.MkdirTemp("", "c17work")
	os.Setenv("VERIF_WORK", d)
	return d
}

func main() {
	if mode := os.Getenv(workerEnv); mode != "" {
		childMain(mode)
		return
	}
	r := mon.Start("C17", "exploration")
	r.Rule("W1: distinct (TTL-sign configuration, model state of every name before the operation, operation) triples reached by the exhaustive explorer; " +
		"W2: distinct recorded concurrent histories (hash of the multiset of operations-with-results and the real-time partial order of their call/return intervals) " +
		"that contain at least one pair of truly overlapping conflicting operations (different goroutines, same name, intervals intersect, one of them changed the table). " +
		"exhaustive=true refers to W1 only: all sequences over the 29-operation alphabet (2 names x {unique,group} x 3 addresses) to depth 3 (quick) / 4 (thorough) under all 4 TTL-sign configurations, and over the 15-operation one-name alphabet to depth 4 / 5 with every check after every step plus depth 5 / 6 with the full checks after the last step (w1_configurations lists what was run)")
	r.Assume(
		"TTLs are +1h or -1h and fixed per name within a history, so expiry is decided by sign and never by timing",
		"not demanded: whether a unique name re-registered as unique by its current owner answers nil or conflict (state must be unchanged); the order of owners in a result; what QueryName returns next to an error",
		"the 4-byte and 16-byte net.IP forms of an IPv4 address are the same address",
		"aliasing is judged at the level of the returned []net.IP (elements overwritten by the caller must not reach the table, table updates must not reach a returned slice); sharing of the bytes inside one net.IP is measured and reported (deep_alias_*) but not demanded",
		"linearizability is decided per recorded history by porcupine v1.3.0 with the model partitioned by name (CleanExpiredNames split into one sub-operation per name over the same interval); a porcupine timeout is inconclusive",
		"the race detector only reports races that the executions exercise; the counter-free race-hunt runs exist because the recorder's atomic tick counter orders non-overlapping operations for the detector",
	)
	work := workDir()
	self := os.Getenv("VERIF_BIN")
	if self == "" {
		self = os.Args[0]
	}

	modes := []string{"seq", "conc", "extra"}
	raceKeysSeen := map[string]bool{}
	for _, mode := range modes {
		t0 := time.Now()
		res, viols, crash := runChild(self, work, mode, r)
		r.Extra("wall_s_"+mode+"_worker", float64(int(time.Since(t0).Seconds()*10))/10) // informational only
		for _, v := range viols {
			r.Violation(v.Key, v.What, v.Case)
		}
		if res != nil {
			r.Eval(int(res.Evals))
			for k, v := range res.Counters {
				r.Count(k, int(v))
			}
			for k, v := range res.Extras {
				r.Extra(k, v)
			}
			for _, s := range res.Samples {
				r.Sample(s)
			}
			for _, fp := range res.Nontrivial {
				r.Nontrivial(fp)
			}
			for _, s := range res.Inconclusive {
				r.Inconclusive(s)
			}
			if res.Exhaustive {
				r.SetExhaustive(true)
			}
		}
		if crash != "" {
			r.Inconclusive(crash)
		}
	}

	// race reports of all children
	reports, files := parseRaceLogs(filepath.Join(work, "race.*"))
	distinct := map[string]int{}
	for _, rep := range reports {
		distinct[rep.Key]++
		if !raceKeysSeen[rep.Key] {
			raceKeysSeen[rep.Key] = true
			r.Violation(rep.Key, fmt.Sprintf("data race between %s and %s", rep.Frames[0], rep.Frames[1]),
				map[string]any{"workload": "W2", "race_detector_report": rep.Text})
		}
	}
	r.Extra("race_reports", len(reports))
	r.Extra("race_reports_distinct_by_outermost_frames", len(distinct))
	r.Extra("race_log_files", files)
	if len(distinct) > 0 {
		r.Extra("race_report_keys", distinct)
	}
	r.Finish()
}

// runChild re-executes this binary in worker mode and gathers what it wrote.
func runChild(self, work, mode string, r *mon.Run) (res *childResult, viols []violRec, inconclusive string) {
	resPath := filepath.Join(work, "c17."+mode+".json")
	violPath := filepath.Join(work, "c17."+mode+".viol.jsonl")
	errPath := filepath.Join(work, "c17."+mode+".stderr")
	outPath := filepath.Join(work, "c17."+mode+".stdout")
	os.Remove(resPath)
	os.Remove(violPath)
	cmd := exec.Command(self)
	env := []string{}
	for _, e := range os.Environ() {
		if strings.HasPrefix(e, "GORACE=") || strings.HasPrefix(e, workerEnv+"=") {
			continue
		}
		env = append(env, e)
	}
	env = append(env, workerEnv+"="+mode, "VERIF_WORK="+work,
		"GORACE=halt_on_error=0 log_path="+filepath.Join(work, "race"))
	cmd.Env = env
	so, _ := os.Create(outPath)
	se, _ := os.Create(errPath)
	cmd.Stdout, cmd.Stderr = so, se
	defer so.Close()
	defer se.Close()
	if err := cmd.Start(); err != nil {
		return nil, nil, "cannot start child " + mode + ": " + err.Error()
	}
	done := make(chan error, 1)
	go func() { done <- cmd.Wait() }()
	limit := time.Duration(r.Pick(1200, 6600)) * time.Second // harness watchdog only; firing is inconclusive
	timedOut := false
	var werr error
	select {
	case werr = <-done:
	case <-time.After(limit):
		timedOut = true
		cmd.Process.Signal(syscall.SIGQUIT)
		select {
		case werr = <-done:
		case <-time.After(20 * time.Second):
			cmd.Process.Kill()
			werr = <-done
		}
	}

	if f, err := os.Open(violPath); err == nil {
		sc := bufio.NewScanner(f)
		sc.Buffer(make([]byte, 1<<20), 1<<26)
		for sc.Scan() {
			var v violRec
			if json.Unmarshal(sc.Bytes(), &v) == nil && v.Key != "" {
				viols = append(viols, v)
			}
		}
		f.Close()
	}
	if b, err := os.ReadFile(resPath); err == nil {
		var cr childResult
		if json.Unmarshal(b, &cr) == nil && cr.Done {
			res = &cr
		}
	}
	if res != nil {
		return res, viols, ""
	}
	if timedOut {
		return nil, viols, fmt.Sprintf("child %s exceeded the harness watchdog of %v and was stopped", mode, limit)
	}
	// the child died without finishing
	b, _ := os.ReadFile(errPath)
	stderr := string(b)
	if kind, msg, frame, ok := parseCrash(stderr); ok && (frame != "" || kind == "fatal") {
		head := stderr
		if i := strings.Index(head, kind2hdr(kind)); i >= 0 {
			head = head[i:]
		}
		if len(head) > 8000 {
			head = head[:8000]
		}
		cls := slug(msg)
		if kind == "panic" {
			cls = mon.PanicClass(msg)
		}
		if frame == "" {
			frame = "no-library-frame"
		}
		workload := map[string]string{"seq": "W1", "conc": "W2"}[mode]
		viols = append(viols, violRec{Key: workload + ":" + kind + ":" + cls + ":" + keyFrame(frame),
			What: fmt.Sprintf("the %s worker process died: %s: %s (outermost library frame %s)", workload, kind2hdr(kind), msg, frame),
			Case: map[string]any{"workload": workload, "stderr_head": head}, N: 1})
		return nil, viols, ""
	}
	tail := stderr
	if len(tail) > 1500 {
		tail = tail[len(tail)-1500:]
	}
	return nil, viols, fmt.Sprintf("child %s ended without a result (%v): %s", mode, werr, tail)
}

func kind2hdr(kind string) string {
	if kind == "panic" {
		return "panic"
	}
	return "fatal error"
}

// ---------------------------------------------------------------------------------
// child side

type childOut struct {
	mu   sync.Mutex
	vf   *os.File
	res  childResult
	seen map[string]int64
}

func newChildOut(mode string) *childOut {
	work := workDir()
	f, err := os.OpenFile(filepath.Join(work, "c17."+mode+".viol.jsonl"), os.O_CREATE|os.O_WRONLY|os.O_APPEND, 0o644)
	if err != nil {
		fmt.Fprintln(os.Stderr, "child: cannot open violation file:", err)
		os.Exit(3)
	}
	return &childOut{vf: f, res: childResult{Mode: mode, Counters: map[string]int64{}, Extras: map[string]any{}}, seen: map[string]int64{}}
}

// violation is written through immediately, so that it survives a later fatal error.
func (c *childOut) violation(key, what string, cs any, n int64) {
	c.mu.Lock()
	defer c.mu.Unlock()
	c.seen[key]++
	if c.seen[key] > 3 {
		return
	}
	b, _ := json.Marshal(violRec{Key: key, What: what, Case: cs, N: n})
	c.vf.Write(append(b, '\n'))
	c.vf.Sync()
}

func (c *childOut) finish() {
	c.mu.Lock()
	defer c.mu.Unlock()
	c.res.Done = true
	b, _ := json.Marshal(c.res)
	work := workDir()
	tmp := filepath.Join(work, "c17."+c.res.Mode+".json.tmp")
	os.WriteFile(tmp, b, 0o644)
	os.Rename(tmp, filepath.Join(work, "c17."+c.res.Mode+".json"))
	c.vf.Close()
}

func childMain(mode string) {
	r := mon.Start("C17", "exploration") // only for Tier/Seed/Rand/Pick; the child never calls Finish
	out := newChildOut(mode)
	// deadlock witness: a goroutine parked for minutes on a sync lock with a frame of the name
	// table on its stack means the table has stopped (a slow run never parks anyone that long
	// on a lock that is only held for map operations). The stacks are the evidence.
	go func() {
		for {
			time.Sleep(20 * time.Second)
			if fns, stacks := mon.LibLockWaiters("Manticore/network/netbios/nbtns."); len(fns) > 0 {
				out.violation("table:deadlock:"+fns[0], fmt.Sprintf("%d goroutines have been parked for minutes on a lock of the name table, the first in %s (workload %s): the table no longer answers", len(fns), fns[0], mode), map[string]any{"mode": mode, "stack": stacks[0], "waiters": fns}, 0)
				out.res.Counters["deadlock_stopped_the_workload"] = 1
				out.finish()
				os.Exit(0)
			}
		}
	}()
	switch mode {
	case "seq":
		childSeq(r, out)
	case "conc":
		childConc(r, out)
	case "extra":
		childExtra(r, out)
	default:
		fmt.Fprintln(os.Stderr, "unknown worker mode", mode)
		os.Exit(3)
	}
	out.finish()
	os.Exit(0)
}

func childSeq(r *mon.Run, out *childOut) {
	nw := runtime.GOMAXPROCS(0)
	workers := make([]*seqWorker, nw)
	for i := range workers {
		workers[i] = &seqWorker{trans: map[uint32]struct{}{}, viols: map[string]*witness{}}
	}
	// two names: depth 3 (quick) / 4 (thorough), every check after every step, under each
	// of the 4 TTL-sign configurations; one name: depth 4 / 5 likewise, and one level
	// deeper (5 / 6) with the full checks after the last step only
	var cfgs []seqCfg
	for _, e0 := range []bool{false, true} {
		for _, e1 := range []bool{false, true} {
			cfgs = append(cfgs, seqCfg{NNames: 2, Expiring: [2]bool{e0, e1}, Depth: r.Pick(3, 4)})
		}
	}
	for _, e0 := range []bool{false, true} {
		cfgs = append(cfgs, seqCfg{NNames: 1, Expiring: [2]bool{e0, false}, Depth: r.Pick(4, 5)})
		cfgs = append(cfgs, seqCfg{NNames: 1, Expiring: [2]bool{e0, false}, Depth: r.Pick(5, 6), Light: true})
	}
	var cfgNames []string
	for _, cfg := range cfgs {
		explore(cfg, workers)
		cfgNames = append(cfgNames, cfg.String())
	}
	trans := map[uint32]struct{}{}
	viols := map[string]*witness{}
	for _, w := range workers {
		out.res.Evals += w.evals
		out.res.Counters["w1_sequences_explored"] += w.seqs
		out.res.Counters["w1_operations_checked"] += w.steps
		for k := range w.trans {
			trans[k] = struct{}{}
		}
		for k, v := range w.viols {
			cur := viols[k]
			if cur == nil {
				viols[k] = v
				continue
			}
			cnt := cur.Count + v.Count
			if v.Len < cur.Len || (v.Len == cur.Len && v.Order < cur.Order) {
				viols[k] = v
			}
			viols[k].Count = cnt
		}
	}
	keys := make([]string, 0, len(viols))
	for k := range viols {
		keys = append(keys, k)
	}
	sort.Strings(keys)
	for _, k := range keys {
		v := viols[k]
		v.Case["occurrences"] = v.Count
		out.violation(k, v.What, v.Case, v.Count)
	}
	for k := range trans {
		out.res.Nontrivial = append(out.res.Nontrivial, fmt.Sprintf("W1|%08x", k))
	}
	out.res.Counters["w1_distinct_transitions"] = int64(len(trans))
	out.res.Extras["w1_configurations"] = cfgNames
	out.res.Exhaustive = true

	// informational: are the bytes inside a net.IP shared between caller and table?
	t := nbtns.NewNetBIOSNameServer(true)
	in := ipFor(0, 0)
	t.RegisterName("PROBE", nbtns.Unique, in, time.Hour)
	in[3] = 99
	o1, _, _ := t.QueryName("PROBE")
	sharedIn := len(o1) == 1 && o1[0][len(o1[0])-1] == 99
	t2 := nbtns.NewNetBIOSNameServer(true)
	t2.RegisterName("PROBE", nbtns.Unique, ipFor(0, 0), time.Hour)
	o2, _, _ := t2.QueryName("PROBE")
	if len(o2) == 1 {
		o2[0][len(o2[0])-1] = 77
	}
	o3, _, _ := t2.QueryName("PROBE")
	sharedOut := len(o3) == 1 && o3[0][len(o3[0])-1] == 77
	out.res.Extras["deep_alias_register_argument_bytes_shared_with_table"] = sharedIn
	out.res.Extras["deep_alias_query_result_bytes_shared_with_table"] = sharedOut

	// samples: a few sequences written out with what the table answered
	alpha := alphabet(2)
	for _, seq := range [][]int{{0, 1, 12}, {3, 4, 14, 14}, {3, 4, 12, 15}, {0, 20, 14}, {3, 26, 12}} {
		cfg := seqCfg{NNames: 2, Depth: len(seq)}
		tb := nbtns.NewNetBIOSNameServer(true)
		var steps []string
		for i, oi := range seq {
			a := apply(tb, alpha[oi], false, formFor(alpha[oi], i))
			steps = append(steps, alpha[oi].String()+" -> "+describeOutcome(a.Out, alpha[oi].Kind == opQuery))
		}
		out.res.Samples = append(out.res.Samples, map[string]any{"workload": "W1", "config": cfg.String(), "steps": steps})
	}
}

func childConc(r *mon.Run, out *childOut) {
	nRandom := r.Pick(400, 20000)
	scenReps := r.Pick(12, 150)
	nHunt := r.Pick(250, 5000)
	timeout := 60 * time.Second

	// program list: boundary scenarios first (seed-independent), then the seeded remainder
	var progs []*program
	scen := scenarios()
	for rep := 0; rep < scenReps; rep++ {
		for _, s := range scen {
			c := *s
			c.ID = len(progs)
			progs = append(progs, &c)
		}
	}
	rng := r.Rand("w2-programs")
	for i := 0; i < nRandom; i++ {
		progs = append(progs, randomProgram(rng, len(progs)))
	}
	var hunts []*program
	for rep := 0; rep < max(1, nHunt/(10*len(scen))); rep++ {
		for _, s := range scen {
			c := *s
			c.ID = len(hunts)
			hunts = append(hunts, &c)
		}
	}
	hrng := r.Rand("w2-hunt-programs")
	for len(hunts) < nHunt {
		hunts = append(hunts, randomProgram(hrng, len(hunts)))
	}

	type agg struct {
		histories, ok, illegal, unknown, overlapping, overlapPairs, ops, panics, quiet int64
		byKind                                                                         map[string]int64
		overlapByKind                                                                  map[string]int64
		fps                                                                            map[string]struct{}
		allFps                                                                         map[string]struct{}
	}
	a := agg{byKind: map[string]int64{}, overlapByKind: map[string]int64{}, fps: map[string]struct{}{}, allFps: map[string]struct{}{}}
	var amu sync.Mutex

	reportPanics := func(h *history) {
		for i, p := range h.Panics {
			out.violation("W2:"+kindName[h.PanOps[i].Kind]+":panic:"+p.Class,
				fmt.Sprintf("%s panicked under concurrency: %s at %s", h.PanOps[i], p.Panic, p.Frame), describeProgram(h.P), 1)
		}
		if h.QuietC != "" {
			out.violation("W2:quiescent:"+h.QuietC, "after all goroutines finished: "+h.Quiet, describeProgram(h.P), 1)
		}
	}

	hch := make(chan *history, 64)
	var cwg sync.WaitGroup
	nCheck := max(2, runtime.GOMAXPROCS(0)/2)
	sampled := 0
	for i := 0; i < nCheck; i++ {
		cwg.Add(1)
		go func() {
			defer cwg.Done()
			for h := range hch {
				reportPanics(h)
				if len(h.Panics) > 0 {
					amu.Lock()
					a.panics += int64(len(h.Panics))
					amu.Unlock()
					continue
				}
				cs := checkHistory(h, timeout)
				amu.Lock()
				a.histories++
				a.ok += int64(cs.ok)
				a.illegal += int64(cs.illegal)
				a.unknown += int64(cs.unknown)
				a.ops += int64(len(h.Ops))
				a.byKind[h.P.Kind]++
				a.allFps[cs.fingerprint] = struct{}{}
				if cs.overlapping {
					a.overlapping++
					a.overlapByKind[h.P.Kind]++
					a.overlapPairs += int64(cs.overlapPairs)
					a.fps[cs.fingerprint] = struct{}{}
				}
				if h.QuietC != "" {
					a.quiet++
				}
				takeSample := cs.overlapping && sampled < 6 && (h.P.ID%7 == 0)
				if takeSample {
					sampled++
				}
				amu.Unlock()
				if cs.illegal == 1 {
					cse := describeProgram(h.P)
					cse["non_linearizable_name"] = tableNames[cs.illegalName]
					cse["recorded_history_of_that_name"] = cs.illegalOps
					out.violation("W2:history:not-linearizable",
						fmt.Sprintf("recorded history of %d goroutines (%s) is not linearizable for name %s: no sequential order of its %d operations consistent with real time reproduces the observed results",
							len(h.P.Progs), h.P.Kind, tableNames[cs.illegalName], len(cs.illegalOps)), cse, 1)
				}
				if takeSample {
					ops := append([]recOp(nil), h.Ops...)
					sort.Slice(ops, func(i, j int) bool { return ops[i].Call < ops[j].Call })
					var first []string
					for _, o := range ops[:min(10, len(ops))] {
						first = append(first, fmt.Sprintf("g%d [%d,%d] %s -> %s", o.Client, o.Call, o.Ret, o.Op, describeOutcome(o.Out, o.Op.Kind == opQuery)))
					}
					amu.Lock()
					out.res.Samples = append(out.res.Samples, map[string]any{"workload": "W2", "program_kind": h.P.Kind, "goroutines": len(h.P.Progs),
						"operations": len(h.Ops), "overlapping_conflicting_pairs": cs.overlapPairs, "porcupine": "ok", "first_operations": first, "fingerprint": cs.fingerprint})
					amu.Unlock()
				}
			}
		}()
	}

	// runners: two histories in flight so that every goroutine of a history has a core
	var rwg sync.WaitGroup
	pch := make(chan *program, 8)
	for i := 0; i < 2; i++ {
		rwg.Add(1)
		go func() {
			defer rwg.Done()
			for p := range pch {
				hch <- runProgram(p, true)
			}
		}()
	}
	for _, p := range progs {
		pch <- p
	}
	close(pch)
	rwg.Wait()
	close(hch)
	cwg.Wait()

	// race hunts: no shared counter, nothing recorded, only the detector and the
	// quiescent invariants watch
	var huntOps int64
	hp := make(chan *program, 8)
	var hwg sync.WaitGroup
	var hmu sync.Mutex
	for i := 0; i < 2; i++ {
		hwg.Add(1)
		go func() {
			defer hwg.Done()
			for p := range hp {
				h := runProgram(p, false)
				reportPanics(h)
				hmu.Lock()
				huntOps += int64(len(h.Ops))
				hmu.Unlock()
			}
		}()
	}
	for _, p := range hunts {
		hp <- p
	}
	close(hp)
	hwg.Wait()

	out.res.Evals = a.ops + huntOps
	c := out.res.Counters
	c["histories"] = a.histories
	c["porcupine_ok"] = a.ok
	c["porcupine_illegal"] = a.illegal
	c["porcupine_unknown"] = a.unknown
	c["histories_with_overlapping_conflicting_ops"] = a.overlapping
	c["overlapping_conflicting_pairs"] = a.overlapPairs
	c["distinct_histories"] = int64(len(a.allFps))
	c["distinct_histories_with_overlap"] = int64(len(a.fps))
	c["w2_recorded_operations"] = a.ops
	c["race_hunt_runs"] = int64(len(hunts))
	c["race_hunt_operations"] = huntOps
	c["w2_panics"] = a.panics
	out.res.Extras["w2_histories_by_program_kind"] = a.byKind
	out.res.Extras["w2_overlapping_by_program_kind"] = a.overlapByKind
	for fp := range a.fps {
		out.res.Nontrivial = append(out.res.Nontrivial, "W2|"+fp)
	}
	if a.unknown > 0 {
		out.res.Inconclusive = append(out.res.Inconclusive, fmt.Sprintf("porcupine could not decide %d of %d histories within %v", a.unknown, a.histories, timeout))
	}
	if a.overlapping == 0 {
		out.res.Inconclusive = append(out.res.Inconclusive, "no recorded history contained a truly overlapping pair of conflicting operations")
	}
	if a.histories < int64(len(progs))/2 {
		out.res.Inconclusive = append(out.res.Inconclusive, fmt.Sprintf("only %d of %d histories could be checked", a.histories, len(progs)))
	}
}
