package main

// W3 (continued): owner addresses in every form a net.IP takes, and the lifetime a TTL of zero gives.

import (
	"fmt"
	"net"
	"time"

	"github.com/TheManticoreProject/Manticore/network/netbios/nbtns"

	"verif/mon"
)

// oddAddrs: values of net.IP that are different addresses under net.IP.Equal: an IPv4 address, two
// IPv6 addresses, the unspecified IPv6 address, no address at all, and the 6-octet NB_ADDRESS
// form (flags + IPv4) a caller may pass straight from RDATA. oddForms gives each its spellings.
var oddAddrs = []net.IP{
	net.IPv4(10, 7, 0, 1).To4(),
	net.ParseIP("2001:db8::1"),
	net.ParseIP("::1"),
	net.IPv6unspecified,
	nil,
	{0x60, 0x00, 10, 7, 0, 1},
}

func oddForm(a, form int) net.IP {
	ip := oddAddrs[a]
	if ip == nil {
		if form == 1 {
			return net.IP{}
		}
		return nil
	}
	if len(ip) == 4 && form == 1 {
		return append(net.IP(nil), ip.To16()...)
	}
	return append(net.IP(nil), ip...)
}

func oddMask(ips []net.IP) (mask uint16, bad int) {
	for _, ip := range ips {
		found := -1
		for i, c := range oddAddrs {
			if c.Equal(ip) {
				found = i
				break
			}
		}
		if found < 0 {
			bad |= 2
			continue
		}
		if mask&(1<<uint(found)) != 0 {
			bad |= 1
		}
		mask |= 1 << uint(found)
	}
	return
}

// addressForms: the sequential model over one or two names with owners drawn from oddAddrs.
func addressForms(r *mon.Run, out *childOut) {
	names := []string{"ADDRFORM-A", "ADDRFORM-B"}
	for run := 0; run < r.Pick(300, 6000); run++ {
		rng := r.Rand(fmt.Sprintf("addrform|%d", run))
		t := nbtns.NewNetBIOSNameServer(false)
		st := make([]rec, len(names))
		var trace []string
		// some runs use only the addresses that are not IPv4 (their lengths differ)
		pick := func() int { return rng.IntN(len(oddAddrs)) }
		if run%3 == 0 {
			pick = func() int { return 1 + rng.IntN(len(oddAddrs)-1) }
		}
		for s := 0; s < 40; s++ {
			ni := rng.IntN(len(names))
			a := pick()
			ip := oddForm(a, rng.IntN(2))
			var o op
			var got outcome
			isQ := false
			switch rng.IntN(7) {
			case 0, 1, 2:
				ty, lt := uint8(tU), nbtns.Unique
				if rng.IntN(3) != 0 {
					ty, lt = tG, nbtns.Group
				}
				o = op{Kind: opRegister, Name: ni, Type: ty, Addr: a}
				got = outcome{Err: t.RegisterName(names[ni], lt, ip, time.Hour) != nil}
			case 3:
				o = op{Kind: opRelease, Name: ni, Addr: a}
				got = outcome{Err: t.ReleaseName(names[ni], ip) != nil}
			case 4:
				o = op{Kind: opRefresh, Name: ni, Addr: a}
				got = outcome{Err: t.RefreshName(names[ni], ip) != nil}
			default:
				o = op{Kind: opQuery, Name: ni}
				isQ = true
				ips, ty, err := t.QueryName(names[ni])
				if err != nil {
					got = outcome{Err: true}
				} else {
					m, bad := oddMask(ips)
					got = outcome{Owners: m, Bad: uint8(bad), Type: tU}
					if ty == nbtns.Group {
						got.Type = tG
					}
				}
			}
			trace = append(trace, fmt.Sprintf("%s[%v]", o, ip))
			ns, want, nd := step(st[ni], o, false)
			out.res.Evals++
			if !agrees(want, got, nd) {
				out.violation("W3:address-form:"+kindName[o.Kind], fmt.Sprintf("owners are compared as addresses (net.IP.Equal): after %v the call returned %s, the model says %s (addresses %v)", trace, describeOutcome(got, isQ), describeOutcome(want, isQ), oddAddrs),
					map[string]any{"trace": trace}, 1)
				break
			}
			st[ni] = ns
		}
		out.res.Nontrivial = append(out.res.Nontrivial, fmt.Sprintf("addrform|%d", run))
	}
	out.res.Counters["address_form_runs"] += int64(r.Pick(300, 6000))
}

// zeroTTL: whatever lifetime a TTL of zero gives (none: the deadline is the call time; or unlimited),
// it gives the same one to the registration that creates a name, to the one that joins a group and
// to a refresh. Deadlines are read from the live table; "now" is bracketed by two clock readings.
func zeroTTL(r *mon.Run, out *childOut) {
	const far = 50 * 365 * 24 * time.Hour
	for run := 0; run < r.Pick(40, 400); run++ {
		t := nbtns.NewNetBIOSNameServer(false)
		name := fmt.Sprintf("ZTTL%03d", run)
		group := run%2 == 0
		ty := nbtns.Unique
		if group {
			ty = nbtns.Group
		}
		classify := func(lo, hi time.Time) string {
			rec, ok := t.VerifSnapshot()[name]
			switch {
			case !ok:
				return "absent"
			case !rec.TTL.Before(lo) && !rec.TTL.After(hi):
				return "none"
			case rec.TTL.After(hi.Add(far)):
				return "unlimited"
			}
			return fmt.Sprintf("deadline %v from the call", rec.TTL.Sub(lo))
		}
		var modes []string
		var calls []string
		b0 := time.Now()
		if err := t.RegisterName(name, ty, bigAddr(0), 0); err != nil {
			continue
		}
		modes, calls = append(modes, classify(b0, time.Now())), append(calls, "RegisterName(new name, ttl 0)")
		if group {
			b0 = time.Now()
			if err := t.RegisterName(name, ty, bigAddr(1+run%3), 0); err == nil {
				modes, calls = append(modes, classify(b0, time.Now())), append(calls, "RegisterName(group joined, ttl 0)")
			}
		}
		b0 = time.Now()
		if err := t.RefreshName(name, bigAddr(0)); err == nil {
			modes, calls = append(modes, classify(b0, time.Now())), append(calls, "RefreshName")
		}
		out.res.Evals += int64(len(modes))
		if modes[0] == "absent" {
			continue
		}
		for i, m := range modes {
			if m != "none" && m != "unlimited" || m != modes[0] {
				out.violation("W3:deadline:zero-ttl", fmt.Sprintf("a TTL of zero: %s gave lifetime %q, %s gave %q", calls[0], modes[0], calls[i], m), map[string]any{"calls": calls, "lifetimes": modes}, 1)
				return
			}
		}
		out.res.Nontrivial = append(out.res.Nontrivial, fmt.Sprintf("zttl|%v|%d", group, run%5))
	}
}

// bulkSweep: tables of many names with a history of removals; an expiry sweep removes every name
// whose lease has lapsed and keeps every other one, however many it removes in one go.
func bulkSweep(r *mon.Run, out *childOut) {
	for run := 0; run < r.Pick(24, 240); run++ {
		rng := r.Rand(fmt.Sprintf("bulksweep|%d", run))
		t := nbtns.NewNetBIOSNameServer(run%2 == 0)
		n := []int{40, 70, 130, 300, 1000, 65536, 250000}[run%7]
		if n > 1000 && run >= 14 {
			n = 20000 // the very large tables twice per run only
		}
		released := []int{0, 10, 63, 64, 65, 200}[run%6]
		for i := 0; i < released; i++ {
			nm := fmt.Sprintf("REL%04d", i)
			t.RegisterName(nm, nbtns.Unique, bigAddr(i%7), time.Hour)
			t.ReleaseName(nm, bigAddr(i%7))
		}
		lapsed := map[string]bool{}
		for i := 0; i < n; i++ {
			nm := fmt.Sprintf("BULK%04d", i)
			ttl := time.Hour
			if rng.IntN(100) < []int{10, 50, 90, 100}[run%4] {
				ttl = -time.Hour
				lapsed[nm] = true
			}
			ty := nbtns.Unique
			if i%3 == 0 {
				ty = nbtns.Group
			}
			t.RegisterName(nm, ty, bigAddr(i%7), ttl)
		}
		for sweep := 0; sweep < 2; sweep++ {
			t.CleanExpiredNames()
			snap := t.VerifSnapshot()
			out.res.Evals++
			kept, lost := 0, 0
			for i := 0; i < n; i++ {
				nm := fmt.Sprintf("BULK%04d", i)
				_, in := snap[nm]
				_, _, qerr := t.QueryName(nm)
				if lapsed[nm] && (in || qerr == nil) {
					kept++
				}
				if !lapsed[nm] && (!in || qerr != nil) {
					lost++
				}
			}
			cs := map[string]any{"names": n, "lapsed": len(lapsed), "released_before": released, "sweep": sweep + 1}
			if kept > 0 {
				out.violation("W3:bulk-sweep:expired-name-kept", fmt.Sprintf("%d names (%d lapsed) after %d earlier releases: sweep #%d left %d lapsed names in the table", n, len(lapsed), released, sweep+1, kept), cs, 1)
			}
			if lost > 0 {
				out.violation("W3:bulk-sweep:live-name-removed", fmt.Sprintf("%d names (%d lapsed) after %d earlier releases: sweep #%d removed %d names whose lease had an hour to run", n, len(lapsed), released, sweep+1, lost), cs, 1)
			}
			if kept > 0 || lost > 0 {
				return
			}
		}
		out.res.Nontrivial = append(out.res.Nontrivial, fmt.Sprintf("bulksweep|%d|%d|%d", n, released, run%4))
	}
}

// suffixNames: full 16-octet names that differ in their last octet (the NetBIOS suffix: 0x00
// workstation, 0x1B/0x1C/0x1D/0x1E domain and browser names, 0x20 server). The table keys on the
// name; what type a name has is what its registrations said, whatever its suffix.
func suffixNames(r *mon.Run, out *childOut) {
	var names []string
	for _, sfx := range []byte{0x00, 0x03, 0x1B, 0x1C, 0x1D, 0x1E, 0x20} {
		names = append(names, "CORPDOMAIN     "+string([]byte{sfx}))
	}
	for run := 0; run < r.Pick(80, 1500); run++ {
		rng := r.Rand(fmt.Sprintf("suffix|%d", run))
		t := nbtns.NewNetBIOSNameServer(false)
		st := make([]rec, len(names))
		var trace []string
		for s := 0; s < 40; s++ {
			ni := rng.IntN(len(names))
			a := rng.IntN(3)
			var o op
			var got outcome
			isQ := false
			switch rng.IntN(6) {
			case 0, 1, 2:
				ty, lt := uint8(tU), nbtns.Unique
				if rng.IntN(2) == 0 {
					ty, lt = tG, nbtns.Group
				}
				o = op{Kind: opRegister, Name: ni, Type: ty, Addr: a}
				got = outcome{Err: t.RegisterName(names[ni], lt, bigAddr(a), time.Hour) != nil}
			case 3:
				o = op{Kind: opRelease, Name: ni, Addr: a}
				got = outcome{Err: t.ReleaseName(names[ni], bigAddr(a)) != nil}
			default:
				o = op{Kind: opQuery, Name: ni}
				isQ = true
				ips, ty, err := t.QueryName(names[ni])
				if err != nil {
					got = outcome{Err: true}
				} else {
					m, bad := ownersMask(ips, 3)
					got = outcome{Owners: m, Bad: uint8(bad), Type: tU}
					if ty == nbtns.Group {
						got.Type = tG
					}
				}
			}
			trace = append(trace, fmt.Sprintf("%s[suffix %#02x]", o, names[ni][15]))
			ns, want, nd := step(st[ni], o, false)
			out.res.Evals++
			if !agrees(want, got, nd) {
				out.violation("W3:name-suffix:"+kindName[o.Kind], fmt.Sprintf("16-octet names that differ in their suffix octet: after %v the call returned %s, the model says %s", trace, describeOutcome(got, isQ), describeOutcome(want, isQ)),
					map[string]any{"trace": trace}, 1)
				break
			}
			st[ni] = ns
		}
		out.res.Nontrivial = append(out.res.Nontrivial, fmt.Sprintf("suffix|%d", run))
	}
}

// manyCalls: the same operation repeated hundreds of times on one table (counters inside the table
// pass 255 and 256): a refresh refreshes, and nothing else happens to the table — a name whose
// lease has lapsed and that nobody swept is still there after any number of refreshes of others.
func manyCalls(r *mon.Run, out *childOut) {
	for run := 0; run < r.Pick(2, 10); run++ {
		t := nbtns.NewNetBIOSNameServer(run%2 == 0)
		t.RegisterName("MC-LIVE", nbtns.Unique, bigAddr(1), time.Hour)
		t.RegisterName("MC-GROUP", nbtns.Group, bigAddr(2), time.Hour)
		t.RegisterName("MC-LAPSED", nbtns.Unique, bigAddr(3), -time.Hour)
		t.RegisterName("MC-LAPSED-G", nbtns.Group, bigAddr(4), -time.Hour)
		for i := 1; i <= 1100; i++ {
			var err error
			switch (i + run) % 3 {
			case 0:
				err = t.RefreshName("MC-LIVE", bigAddr(1))
			case 1:
				err = t.RefreshName("MC-GROUP", bigAddr(2))
			default:
				// a refresh of the lapsed, unswept name by its owner re-arms it from now (as any
				// refresh does); from then on it is live
				if i > 700 {
					err = t.RefreshName("MC-LAPSED", bigAddr(3))
				} else {
					err = t.RefreshName("MC-LIVE", bigAddr(1))
				}
			}
			out.res.Evals++
			snap := t.VerifSnapshot()
			missing := ""
			for _, n := range []string{"MC-LIVE", "MC-GROUP", "MC-LAPSED", "MC-LAPSED-G"} {
				if _, ok := snap[n]; !ok {
					missing = n
				}
			}
			if err != nil || missing != "" {
				out.violation("W3:many-calls:refresh", fmt.Sprintf("refresh #%d on one table: returned %v; the table no longer holds %q although no sweep and no release was requested", i, err, missing), map[string]any{"call_number": i}, 1)
				return
			}
		}
		if _, _, err := t.QueryName("MC-LAPSED"); err != nil {
			out.violation("W3:many-calls:refreshed-name-not-found", fmt.Sprintf("a name refreshed by its owner (no error) is not found by QueryName: %v", err), nil, 1)
		}
		out.res.Nontrivial = append(out.res.Nontrivial, fmt.Sprintf("many-calls|%d", run))
	}
}

// fullTables: tables of exactly 65535, 65536 and 65537 names; operations on names that are already
// there (a group join, a repeated registration, a conflicting one, a query, a release) behave as on
// a small table.
func fullTables(r *mon.Run, out *childOut) {
	for _, n := range []int{65535, 65536, 65537} {
		t := nbtns.NewNetBIOSNameServer(false)
		for i := 0; i < n-2; i++ {
			t.RegisterName(fmt.Sprintf("FT%06d", i), nbtns.Unique, bigAddr(i%250), time.Hour)
		}
		t.RegisterName("FT-GROUP", nbtns.Group, bigAddr(1), time.Hour)
		t.RegisterName("FT-UNIQ", nbtns.Unique, bigAddr(2), time.Hour)
		out.res.Evals += 5
		cs := map[string]any{"names_in_table": n}
		if err := t.RegisterName("FT-GROUP", nbtns.Group, bigAddr(5), time.Hour); err != nil {
			out.violation("W3:full-table:group-join", fmt.Sprintf("a table of %d names: joining an existing group is refused: %v", n, err), cs, 1)
		}
		if ips, _, err := t.QueryName("FT-GROUP"); err != nil || len(ips) != 2 {
			out.violation("W3:full-table:group-members", fmt.Sprintf("a table of %d names: the group joined by a second address has %d members (err %v)", n, len(ips), err), cs, 1)
		}
		if err := t.RegisterName("FT-UNIQ", nbtns.Unique, bigAddr(9), time.Hour); err == nil {
			out.violation("W3:full-table:conflict", fmt.Sprintf("a table of %d names: a unique name held by another address was registered again without a conflict", n), cs, 1)
		}
		if err := t.ReleaseName("FT000007", bigAddr(7)); err != nil {
			out.violation("W3:full-table:release", fmt.Sprintf("a table of %d names: the owner cannot release its name: %v", n, err), cs, 1)
		}
		if err := t.RegisterName("FT-NEW", nbtns.Unique, bigAddr(3), time.Hour); err != nil {
			out.res.Counters["full_table_new_name_refused"]++
		}
		out.res.Nontrivial = append(out.res.Nontrivial, fmt.Sprintf("full-table|%d", n))
	}
}
