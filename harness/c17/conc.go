package main

// W2: many short concurrent histories. Each history is run by 4-8 goroutines against
// one fresh table, recorded at the client boundary with call/return ticks drawn from
// one atomic counter, and checked for linearizability with porcupine (model
// partitioned by name). A second family of runs ("race hunts") executes the same kind
// of programs WITHOUT the shared counter: an atomic counter is a synchronisation
// point for the race detector and orders every pair of operations that do not truly
// overlap, so only the counter-free runs let the detector see an unlocked access path
// whatever the timing.

import (
	"crypto/sha256"
	"encoding/hex"
	"fmt"
	"math/rand/v2"
	"runtime"
	"sort"
	"sync"
	"sync/atomic"
	"time"

	"github.com/anishathalye/porcupine"

	"github.com/TheManticoreProject/Manticore/network/netbios/nbtns"

	"verif/mon"
)

type cop struct {
	Op      op
	Form    int
	Gosched bool
}

type program struct {
	ID       int
	Kind     string // "scenario:<name>" or "random"
	NNames   int
	Expiring [3]bool
	Progs    [][]cop
}

type recOp struct {
	Client int
	Op     op
	Call   int64
	Ret    int64
	Out    outcome
}

type history struct {
	P      *program
	Ops    []recOp
	Panics []applied
	PanOps []op
	Quiet  string // non-empty: structural invariant broken at the quiescent end
	QuietC string
}

// ---------------------------------------------------------------------------------
// Program generation

var kindWeights = []struct {
	k opKind
	w int
}{{opRegister, 30}, {opRelease, 22}, {opRefresh, 12}, {opQuery, 22}, {opMark, 4}, {opClean, 10}}

func randomProgram(rng *rand.Rand, id int) *program {
	p := &program{ID: id, Kind: "random"}
	switch x := rng.IntN(20); {
	case x < 8:
		p.NNames = 1
	case x < 15:
		p.NNames = 2
	default:
		p.NNames = 3
	}
	var fav [3]uint8
	for n := 0; n < p.NNames; n++ {
		p.Expiring[n] = rng.IntN(3) == 0
		fav[n] = uint8(rng.IntN(2))
	}
	g := 4 + rng.IntN(5)
	long := rng.IntN(2) == 0
	for c := 0; c < g; c++ {
		n := 4 + rng.IntN(9)
		if long {
			n = 30 + rng.IntN(31)
		}
		prog := make([]cop, n)
		for i := range prog {
			x := rng.IntN(100)
			var k opKind
			for _, kw := range kindWeights {
				if x < kw.w {
					k = kw.k
					break
				}
				x -= kw.w
			}
			o := op{Kind: k, Name: rng.IntN(p.NNames), Addr: c % 4}
			if rng.IntN(10) < 4 {
				o.Addr = rng.IntN(4)
			}
			if k == opRegister {
				o.Type = fav[o.Name]
				if rng.IntN(4) == 0 {
					o.Type ^= 1
				}
			}
			if k == opClean {
				o = op{Kind: opClean, Name: -1}
			}
			prog[i] = cop{Op: o, Form: rng.IntN(2), Gosched: rng.IntN(4) == 0}
		}
		p.Progs = append(p.Progs, prog)
	}
	return p
}

// scenarios are the boundary cases: fixed programs (independent of the seed) built to
// maximise contention on the ordering-dependent paths the property names.
func scenarios() []*program {
	reg := func(n int, ty uint8, a int) cop { return cop{Op: op{Kind: opRegister, Name: n, Type: ty, Addr: a}} }
	rel := func(n, a int) cop { return cop{Op: op{Kind: opRelease, Name: n, Addr: a}} }
	ref := func(n, a int) cop { return cop{Op: op{Kind: opRefresh, Name: n, Addr: a}, Form: 1} }
	qry := func(n int) cop { return cop{Op: op{Kind: opQuery, Name: n}} }
	mark := func(n int) cop { return cop{Op: op{Kind: opMark, Name: n}} }
	clean := func() cop { return cop{Op: op{Kind: opClean, Name: -1}} }
	rep := func(k int, cs ...cop) []cop {
		var out []cop
		for i := 0; i < k; i++ {
			out = append(out, cs...)
		}
		return out
	}
	var ps []*program
	// every client fights for the same unique name with its own address
	p := &program{Kind: "scenario:unique-contention", NNames: 1}
	for c := 0; c < 6; c++ {
		p.Progs = append(p.Progs, rep(6, reg(0, tU, c%4), qry(0), ref(0, c%4), rel(0, c%4)))
	}
	ps = append(ps, p)
	// group members join and leave; the last one leaving deletes the name while others re-create it
	p = &program{Kind: "scenario:last-member-leaves", NNames: 1}
	for c := 0; c < 8; c++ {
		p.Progs = append(p.Progs, rep(8, reg(0, tG, c%4), qry(0), rel(0, c%4), qry(0)))
	}
	ps = append(ps, p)
	// group against unique re-creation of the same name
	p = &program{Kind: "scenario:group-vs-unique", NNames: 1}
	for c := 0; c < 6; c++ {
		p.Progs = append(p.Progs, rep(6, reg(0, uint8(c&1), c%4), rel(0, c%4), rel(0, (c+1)%4), qry(0)))
	}
	ps = append(ps, p)
	// Clean against Refresh/Register/Query of an expiring name
	p = &program{Kind: "scenario:clean-vs-refresh", NNames: 2, Expiring: [3]bool{true, false}}
	for c := 0; c < 6; c++ {
		if c%3 == 0 {
			p.Progs = append(p.Progs, rep(10, clean(), qry(0), qry(1)))
		} else {
			p.Progs = append(p.Progs, rep(6, reg(0, tG, c%4), ref(0, c%4), qry(0), reg(1, tG, c%4), ref(1, c%4), rel(1, c%4)))
		}
	}
	ps = append(ps, p)
	// conflict marking against queries and re-registration
	p = &program{Kind: "scenario:conflict-marking", NNames: 1}
	for c := 0; c < 5; c++ {
		if c == 0 {
			p.Progs = append(p.Progs, rep(8, mark(0), qry(0)))
		} else {
			p.Progs = append(p.Progs, rep(6, reg(0, tU, c%4), qry(0), rel(0, c%4), qry(0)))
		}
	}
	ps = append(ps, p)
	// readers against writers on three names (reader/writer lock paths)
	p = &program{Kind: "scenario:readers-vs-writers", NNames: 3}
	for c := 0; c < 8; c++ {
		if c < 4 {
			p.Progs = append(p.Progs, rep(10, qry(0), qry(1), qry(2)))
		} else {
			p.Progs = append(p.Progs, rep(5, reg(c%3, tG, c%4), reg((c+1)%3, tU, c%4), rel(c%3, c%4), rel((c+1)%3, c%4)))
		}
	}
	ps = append(ps, p)
	for _, p := range ps {
		for _, pr := range p.Progs {
			for i := range pr {
				pr[i].Gosched = i%3 == 1
			}
		}
	}
	return ps
}

// ---------------------------------------------------------------------------------
// Running one program

func runProgram(p *program, recorded bool) *history {
	t := nbtns.NewNetBIOSNameServer(p.ID%2 == 0)
	h := &history{P: p}
	var clk atomic.Int64
	start := make(chan struct{})
	var wg sync.WaitGroup
	per := make([][]recOp, len(p.Progs))
	pans := make([][]applied, len(p.Progs))
	panOps := make([][]op, len(p.Progs))
	for c := range p.Progs {
		wg.Add(1)
		go func(c int) {
			defer wg.Done()
			prog := p.Progs[c]
			out := make([]recOp, 0, len(prog))
			<-start
			for _, co := range prog {
				if co.Gosched {
					runtime.Gosched()
				}
				exp := co.Op.Name >= 0 && p.Expiring[co.Op.Name]
				var call, ret int64
				if recorded {
					call = clk.Add(1)
				}
				a := apply(t, co.Op, exp, co.Form)
				if recorded {
					ret = clk.Add(1)
				}
				if a.Panic != "" {
					pans[c] = append(pans[c], a)
					panOps[c] = append(panOps[c], co.Op)
					continue
				}
				if a.Raw != nil {
					scribble(a.Raw) // the result is the caller's own slice
				}
				out = append(out, recOp{Client: c, Op: co.Op, Call: call, Ret: ret, Out: a.Out})
			}
			per[c] = out
		}(c)
	}
	close(start)
	wg.Wait()
	// quiescent point: final queries join the history, and the live map is inspected
	for n := 0; n < p.NNames; n++ {
		q := op{Kind: opQuery, Name: n}
		call := clk.Add(1)
		a := apply(t, q, false, 0)
		ret := clk.Add(1)
		if a.Panic != "" {
			h.Panics = append(h.Panics, a)
			h.PanOps = append(h.PanOps, q)
			continue
		}
		per[0] = append(per[0], recOp{Client: len(p.Progs), Op: q, Call: call, Ret: ret, Out: a.Out})
	}
	for c := range per {
		h.Ops = append(h.Ops, per[c]...)
		h.Panics = append(h.Panics, pans[c]...)
		h.PanOps = append(h.PanOps, panOps[c]...)
	}
	var snap map[string]nbtns.NameRecord
	pk, v, stk := mon.Guard(func() { snap = t.VerifSnapshot() })
	if pk {
		h.QuietC, h.Quiet = "panic:"+mon.PanicClass(v), fmt.Sprintf("VerifSnapshot panicked: %v at %s", v, mon.TopLibFrame(stk))
	} else {
		h.QuietC, h.Quiet = judgeInvariantsOnly(snap, p.NNames)
	}
	return h
}

func judgeInvariantsOnly(snap map[string]nbtns.NameRecord, nNames int) (string, string) {
	// model agreement is porcupine's job here; only the model-free invariants apply
	return judgeSnapshot(snap, nil, nNames)
}

// ---------------------------------------------------------------------------------
// Checking one recorded history

type pin struct {
	Op       op
	Expiring bool
}

var tableModel = porcupine.Model{
	Init: func() interface{} { return rec{} },
	Step: func(state, input, output interface{}) (bool, interface{}) {
		in := input.(pin)
		ns, want, nd := step(state.(rec), in.Op, in.Expiring)
		return agrees(want, output.(outcome), nd), ns
	},
	Equal: func(a, b interface{}) bool { return a.(rec) == b.(rec) },
	DescribeOperation: func(input, output interface{}) string {
		in := input.(pin)
		return in.Op.String() + " -> " + describeOutcome(output.(outcome), in.Op.Kind == opQuery)
	},
}

type checkStats struct {
	ok, illegal, unknown  int
	overlapPairs          int
	overlapping           bool
	fingerprint           string
	illegalName           int
	illegalOps            []map[string]any
	opsChecked, partsSeen int
}

func isMutatorOK(r recOp) bool {
	switch r.Op.Kind {
	case opRegister, opRelease, opMark:
		return !r.Out.Err
	case opClean:
		return true
	}
	return false
}

func checkHistory(h *history, timeout time.Duration) checkStats {
	var cs checkStats
	cs.illegalName = -1
	// partition by name; Clean becomes one sub-operation per name, same interval
	parts := make([][]porcupine.Operation, h.P.NNames)
	for _, r := range h.Ops {
		if r.Op.Kind == opClean {
			for n := 0; n < h.P.NNames; n++ {
				parts[n] = append(parts[n], porcupine.Operation{ClientId: r.Client, Input: pin{Op: r.Op, Expiring: h.P.Expiring[n]}, Call: r.Call, Output: r.Out, Return: r.Ret})
			}
			continue
		}
		parts[r.Op.Name] = append(parts[r.Op.Name], porcupine.Operation{ClientId: r.Client, Input: pin{Op: r.Op, Expiring: h.P.Expiring[r.Op.Name]}, Call: r.Call, Output: r.Out, Return: r.Ret})
	}
	verdict := porcupine.Ok
	for n, part := range parts {
		if len(part) == 0 {
			continue
		}
		cs.partsSeen++
		cs.opsChecked += len(part)
		res, _ := porcupine.CheckOperationsVerbose(tableModel, part, timeout)
		switch res {
		case porcupine.Illegal:
			if verdict != porcupine.Illegal {
				verdict = porcupine.Illegal
				cs.illegalName = n
				sort.Slice(part, func(i, j int) bool { return part[i].Call < part[j].Call })
				for _, o := range part {
					cs.illegalOps = append(cs.illegalOps, map[string]any{"client": o.ClientId, "call": o.Call, "return": o.Return,
						"op": tableModel.DescribeOperation(o.Input, o.Output)})
				}
			}
		case porcupine.Unknown:
			if verdict == porcupine.Ok {
				verdict = porcupine.Unknown
			}
		}
	}
	switch verdict {
	case porcupine.Ok:
		cs.ok = 1
	case porcupine.Illegal:
		cs.illegal = 1
	default:
		cs.unknown = 1
	}

	// truly overlapping conflicting pairs: different clients, same name (Clean touches
	// every name), intervals intersect, at least one of the two changed the table
	ops := append([]recOp(nil), h.Ops...)
	sort.Slice(ops, func(i, j int) bool { return ops[i].Call < ops[j].Call })
	var active []recOp
	for _, r := range ops {
		keep := active[:0]
		for _, a := range active {
			if a.Ret > r.Call {
				keep = append(keep, a)
			}
		}
		active = keep
		for _, a := range active {
			if a.Client == r.Client {
				continue
			}
			if a.Op.Name != r.Op.Name && a.Op.Name >= 0 && r.Op.Name >= 0 {
				continue
			}
			if isMutatorOK(a) || isMutatorOK(r) {
				cs.overlapPairs++
			}
		}
		active = append(active, r)
	}
	cs.overlapping = cs.overlapPairs > 0

	// fingerprint: op multiset + real-time partial order (an interval order is fixed by,
	// for every op, how many ops returned before its call and how many were called
	// before its return; both are invariant under reordering of adjacent calls or
	// adjacent returns)
	n := len(h.Ops)
	calls := make([]int64, 0, n)
	rets := make([]int64, 0, n)
	for _, r := range h.Ops {
		calls = append(calls, r.Call)
		rets = append(rets, r.Ret)
	}
	sort.Slice(calls, func(i, j int) bool { return calls[i] < calls[j] })
	sort.Slice(rets, func(i, j int) bool { return rets[i] < rets[j] })
	items := make([]string, 0, n)
	for _, r := range h.Ops {
		p := sort.Search(n, func(i int) bool { return rets[i] >= r.Call })
		s := sort.Search(n, func(i int) bool { return calls[i] >= r.Ret })
		items = append(items, fmt.Sprintf("%d/%d/%d/%d/%v/%d/%d/%d|%d|%d", r.Op.Kind, r.Op.Name, r.Op.Type, r.Op.Addr, r.Out.Err, r.Out.Owners, r.Out.Type, r.Out.Bad, p, s))
	}
	sort.Strings(items)
	hh := sha256.New()
	for _, it := range items {
		hh.Write([]byte(it))
		hh.Write([]byte{0})
	}
	cs.fingerprint = hex.EncodeToString(hh.Sum(nil)[:10])
	return cs
}

func describeProgram(p *program) map[string]any {
	progs := make([][]string, len(p.Progs))
	for c, pr := range p.Progs {
		for _, co := range pr {
			progs[c] = append(progs[c], co.Op.String())
		}
	}
	ttl := []string{}
	for n := 0; n < p.NNames; n++ {
		if p.Expiring[n] {
			ttl = append(ttl, "-1h")
		} else {
			ttl = append(ttl, "+1h")
		}
	}
	return map[string]any{"workload": "W2", "program_kind": p.Kind, "program_id": p.ID, "names": tableNames[:p.NNames], "ttl": ttl,
		"addresses": ipStrings(addrCanon), "goroutines": len(p.Progs), "programs": progs}
}
