package main

// W3: workloads outside the small exhaustive alphabet — large groups (9..16 members), names that
// differ only in letter case or trailing spaces (distinct table keys), and the deadline a
// registration or refresh arms (read from the live table through the snapshot hook).

import (
	"fmt"
	"math"
	"net"
	"runtime"
	"sync"
	"sync/atomic"
	"time"

	"github.com/TheManticoreProject/Manticore/network/netbios/nbtns"

	"verif/mon"
)

func bigAddr(i int) net.IP { return net.IPv4(10, 7, byte(i>>8), byte(1+i)).To4() }

// ownersMask decodes a query result over the bigAddr alphabet; bad != 0 on duplicates/strangers.
func ownersMask(ips []net.IP, n int) (mask uint16, bad int) {
	for _, ip := range ips {
		found := -1
		for i := 0; i < n; i++ {
			if ip.Equal(bigAddr(i)) {
				found = i
			}
		}
		if found < 0 {
			bad |= 2
			continue
		}
		if mask&(1<<uint(found)) != 0 {
			bad |= 1
		}
		mask |= 1 << uint(found)
	}
	return
}

func childExtra(r *mon.Run, out *childOut) {
	largeGroups(r, out)
	nameSpellings(r, out)
	deadlines(r, out)
	addressForms(r, out)
	zeroTTL(r, out)
	bulkSweep(r, out)
	suffixNames(r, out)
	manyCalls(r, out)
	fullTables(r, out)
	cleanExact(r, out)
	sweepsAgainstReRegistration(r, out)
}

// sweepsAgainstReRegistration: expiry sweeps run while lapsed names are released and registered
// again with a long lifetime. Whatever the interleaving, each sweep takes effect either before
// the new registration (it removes the lapsed record, the registration then creates the name)
// or after it (the name is live and stays): when everything has finished every re-registered
// name must be in the table with its new deadline.
func sweepsAgainstReRegistration(r *mon.Run, out *childOut) {
	for round := 0; round < r.Pick(6, 60); round++ {
		t := nbtns.NewNetBIOSNameServer(false)
		const writers, perWriter = 4, 500
		name := func(w, i int) string { return fmt.Sprintf("ABA-%d-%04d", w, i) }
		for w := 0; w < writers; w++ {
			for i := 0; i < perWriter; i++ {
				t.RegisterName(name(w, i), nbtns.Unique, bigAddr(w), -time.Hour) // lapsed on arrival
			}
		}
		stop := make(chan struct{})
		var sweeps atomic.Int64
		var wg, sw sync.WaitGroup
		for k := 0; k < 2; k++ {
			sw.Add(1)
			go func() {
				defer sw.Done()
				for {
					select {
					case <-stop:
						return
					default:
					}
					t.CleanExpiredNames()
					sweeps.Add(1)
				}
			}()
		}
		refused := make([]string, writers)
		for w := 0; w < writers; w++ {
			wg.Add(1)
			go func() {
				defer wg.Done()
				for i := 0; i < perWriter; i++ {
					t.ReleaseName(name(w, i), bigAddr(w)) // whether or not a sweep was faster
					if err := t.RegisterName(name(w, i), nbtns.Unique, bigAddr(w), 24*time.Hour); err != nil && refused[w] == "" {
						refused[w] = fmt.Sprintf("%s: %v", name(w, i), err)
					}
					if i%16 == 0 {
						runtime.Gosched()
					}
				}
			}()
		}
		wg.Wait()
		close(stop)
		sw.Wait()
		t.CleanExpiredNames()
		snap := t.VerifSnapshot()
		out.res.Evals += writers * perWriter
		missing, first := 0, ""
		for w := 0; w < writers; w++ {
			if refused[w] != "" {
				out.violation("W3:sweep-vs-reregistration:refused", "registering a released name again was refused while sweeps ran: "+refused[w], map[string]any{"round": round}, 1)
				return
			}
			for i := 0; i < perWriter; i++ {
				if rec, ok := snap[name(w, i)]; !ok || !rec.TTL.After(time.Now().Add(time.Hour)) {
					missing++
					if first == "" {
						first = name(w, i)
					}
				}
			}
		}
		if missing > 0 {
			out.violation("W3:sweep-vs-reregistration:live-name-removed", fmt.Sprintf("%d of %d names registered for 24 h while %d expiry sweeps ran are not in the table afterwards (first: %s): a sweep removed a live registration", missing, writers*perWriter, sweeps.Load(), first), map[string]any{"round": round, "sweeps": sweeps.Load()}, int64(missing))
			return
		}
		out.res.Counters["sweeps_concurrent_with_reregistration"] += sweeps.Load()
		out.res.Nontrivial = append(out.res.Nontrivial, fmt.Sprintf("aba|%d", round))
	}
}

// cleanExact: names with mixed lifetimes (joins and refreshes that move a deadline earlier or
// later); an expiry sweep must remove exactly the names whose armed deadline — read from the live
// table just before the sweep — lies before the sweep started, and keep those whose deadline lies
// after it ended.
func cleanExact(r *mon.Run, out *childOut) {
	ttls := []time.Duration{time.Hour, -time.Hour, 24 * time.Hour, -time.Minute, 10 * time.Minute, time.Duration(1<<31) * time.Second, -24 * time.Hour, time.Duration(math.MaxInt64), 250 * 365 * 24 * time.Hour}
	for run := 0; run < r.Pick(150, 3000); run++ {
		rng := r.Rand(fmt.Sprintf("cleanexact|%d", run))
		t := nbtns.NewNetBIOSNameServer(false)
		names := []string{"CE-A", "CE-B", "CE-C", "CE-D", "CE-E"}
		var trace []string
		for s := 0; s < 30; s++ {
			name := names[rng.IntN(len(names))]
			a := bigAddr(rng.IntN(4))
			ttl := ttls[rng.IntN(len(ttls))]
			switch rng.IntN(6) {
			case 0, 1, 2:
				ty := nbtns.Group
				if rng.IntN(4) == 0 {
					ty = nbtns.Unique
				}
				t.RegisterName(name, ty, a, ttl)
				trace = append(trace, fmt.Sprintf("Register(%s,%v,%v,%v)", name, ty, a, ttl))
			case 3:
				t.RefreshName(name, a)
				trace = append(trace, fmt.Sprintf("Refresh(%s,%v)", name, a))
			case 4:
				t.ReleaseName(name, a)
				trace = append(trace, fmt.Sprintf("Release(%s,%v)", name, a))
			default:
				before := t.VerifSnapshot()
				t0 := time.Now()
				t.CleanExpiredNames()
				t1 := time.Now()
				after := t.VerifSnapshot()
				out.res.Evals++
				for n, rec := range before {
					_, still := after[n]
					if rec.TTL.Before(t0) && still {
						out.violation("W3:clean:expired-name-kept", fmt.Sprintf("after %v: %s had its deadline %v before the sweep and is still in the table", trace, n, t0.Sub(rec.TTL)), map[string]any{"trace": trace, "name": n}, 1)
						return
					}
					if rec.TTL.After(t1) && !still {
						out.violation("W3:clean:live-name-removed", fmt.Sprintf("after %v: %s had its deadline %v after the sweep and was removed", trace, n, rec.TTL.Sub(t1)), map[string]any{"trace": trace, "name": n}, 1)
						return
					}
				}
				trace = append(trace, "Clean()")
			}
			if len(trace) > 30 {
				trace = trace[len(trace)-30:]
			}
		}
		out.res.Nontrivial = append(out.res.Nontrivial, fmt.Sprintf("cleanexact|%d", run))
	}
}

// largeGroups: one group name, N members, seeded register/release/refresh/query sequences
// compared with the sequential model after every operation.
func largeGroups(r *mon.Run, out *childOut) {
	for _, n := range []int{9, 10, 12, 16} {
		for run := 0; run < r.Pick(40, 600); run++ {
			rng := r.Rand(fmt.Sprintf("large|%d|%d", n, run))
			t := nbtns.NewNetBIOSNameServer(false)
			st := rec{}
			var trace []string
			name := "BIGGROUP"
			check := func(o op, got outcome, isQuery bool) bool {
				ns, want, nd := step(st, o, false)
				out.res.Evals++
				if !agrees(want, got, nd) {
					out.violation(fmt.Sprintf("W3:large-group:%s", kindName[o.Kind]), fmt.Sprintf("group of %d members, after %v: %s returned %s, the model says %s", n, trace, o, describeOutcome(got, isQuery), describeOutcome(want, isQuery)),
						map[string]any{"members": n, "trace": trace, "op": o.String()}, 1)
					return false
				}
				st = ns
				return true
			}
			ok := true
			// fill the group in a seeded order
			order := rng.Perm(n)
			for _, a := range order {
				o := op{Kind: opRegister, Name: 0, Type: tG, Addr: a}
				err := t.RegisterName(name, nbtns.Group, bigAddr(a), time.Hour)
				trace = append(trace, o.String())
				if !check(o, outcome{Err: err != nil}, false) {
					ok = false
					break
				}
			}
			for s := 0; ok && s < 60; s++ {
				a := rng.IntN(n)
				var o op
				var got outcome
				isQ := false
				switch rng.IntN(5) {
				case 0, 1:
					o = op{Kind: opRelease, Addr: a}
					got = outcome{Err: t.ReleaseName(name, bigAddr(a)) != nil}
				case 2:
					o = op{Kind: opRefresh, Addr: a}
					got = outcome{Err: t.RefreshName(name, bigAddr(a)) != nil}
				case 3:
					o = op{Kind: opRegister, Type: tG, Addr: a}
					got = outcome{Err: t.RegisterName(name, nbtns.Group, bigAddr(a), time.Hour) != nil}
				default:
					o = op{Kind: opQuery}
					ips, ty, err := t.QueryName(name)
					isQ = true
					if err != nil {
						got = outcome{Err: true}
					} else {
						m, bad := ownersMask(ips, n)
						got = outcome{Owners: m, Type: uint8(ty), Bad: uint8(bad)}
						if ty == nbtns.Group {
							got.Type = tG
						} else {
							got.Type = tU
						}
					}
				}
				trace = append(trace, o.String())
				if len(trace) > 40 {
					trace = trace[len(trace)-40:]
				}
				if !check(o, got, isQ) {
					break
				}
				// the owner set after every operation
				ips, _, err := t.QueryName(name)
				m, bad := ownersMask(ips, n)
				out.res.Evals++
				if (err != nil) != !st.Exists || (err == nil && (m != st.Owners || bad != 0)) {
					out.violation("W3:large-group:post-query", fmt.Sprintf("group of %d members, after %v: the table holds %s (err %v), the model %s", n, trace, maskString(m), err, maskString(st.Owners)),
						map[string]any{"members": n, "trace": trace}, 1)
					break
				}
			}
			out.res.Nontrivial = append(out.res.Nontrivial, fmt.Sprintf("large|%d|%d|%04x", n, run, st.Owners))
		}
	}
	out.res.Samples = append(out.res.Samples, map[string]any{"workload": "W3 large groups", "members": []int{9, 10, 12, 16}, "steps_per_run": 60})
}

// nameSpellings: names differing only in letter case or trailing blanks are different names of
// the table; operations on one must never reach another.
func nameSpellings(r *mon.Run, out *childOut) {
	names := []string{"WKS01", "wks01", "Wks01", "WKS01 ", "WKS01  ", " WKS01",
		// names longer than the 16 octets of the wire form are names of the table all the same: one that
		// fills 16 octets, two that extend it, a much longer one
		"ABCDEFGHIJKLMNOP", "ABCDEFGHIJKLMNOPQ", "ABCDEFGHIJKLMNOPR", "ABCDEFGHIJKLMNOPQRSTUVWXYZ0123456789"}
	for run := 0; run < r.Pick(60, 1500); run++ {
		rng := r.Rand(fmt.Sprintf("spell|%d", run))
		t := nbtns.NewNetBIOSNameServer(false)
		st := make([]rec, len(names))
		var trace []string
		for s := 0; s < 50; s++ {
			ni := rng.IntN(len(names))
			a := rng.IntN(3)
			var o op
			var got outcome
			isQ := false
			switch rng.IntN(7) {
			case 0, 1:
				ty, lt := uint8(tU), nbtns.Unique
				if rng.IntN(2) == 0 {
					ty, lt = tG, nbtns.Group
				}
				o = op{Kind: opRegister, Name: ni, Type: ty, Addr: a}
				got = outcome{Err: t.RegisterName(names[ni], lt, bigAddr(a), time.Hour) != nil}
			case 2:
				o = op{Kind: opRelease, Name: ni, Addr: a}
				got = outcome{Err: t.ReleaseName(names[ni], bigAddr(a)) != nil}
			case 3:
				o = op{Kind: opRefresh, Name: ni, Addr: a}
				got = outcome{Err: t.RefreshName(names[ni], bigAddr(a)) != nil}
			case 4:
				o = op{Kind: opMark, Name: ni}
				got = outcome{Err: t.MarkNameConflict(names[ni]) != nil}
			default:
				o = op{Kind: opQuery, Name: ni}
				isQ = true
				ips, ty, err := t.QueryName(names[ni])
				if err != nil {
					got = outcome{Err: true}
				} else {
					m, bad := ownersMask(ips, 3)
					got = outcome{Owners: m, Bad: uint8(bad), Type: tU}
					if ty == nbtns.Group {
						got.Type = tG
					}
				}
			}
			trace = append(trace, fmt.Sprintf("%s[%q]", o, names[ni]))
			ns, want, nd := step(st[ni], o, false)
			out.res.Evals++
			if !agrees(want, got, nd) {
				out.violation("W3:name-spelling:"+kindName[o.Kind], fmt.Sprintf("names that differ only in case or blanks are distinct; after %v the call returned %s, the model of %q says %s", trace, describeOutcome(got, isQ), names[ni], describeOutcome(want, isQ)),
					map[string]any{"trace": trace, "names": names}, 1)
				break
			}
			st[ni] = ns
		}
		out.res.Nontrivial = append(out.res.Nontrivial, fmt.Sprintf("spell|%d", run))
	}
}

// deadlines: a registration arms now+ttl, a refresh re-arms now+interval; "now" is bracketed by
// two clock readings around the call, so the judgement is a containment, not a timeout.
func deadlines(r *mon.Run, out *childOut) {
	rng := r.Rand("deadlines")
	ttls := []time.Duration{time.Hour, 5 * time.Minute, 37 * time.Second, 24 * time.Hour, -time.Hour, 300 * time.Millisecond,
		// the TTL field of an NBNS record is 32 bits of seconds: the top of that range must stay in the future
		time.Duration(1<<31-1) * time.Second, time.Duration(1<<31) * time.Second, time.Duration(1<<32-1) * time.Second, time.Duration(3000000000) * time.Second,
		// the longest leases a time.Duration can express ("for ever"): their deadlines lie beyond the year 2262, where a nanosecond count no longer fits 64 bits
		time.Duration(math.MaxInt64), time.Duration(math.MaxInt64 - 1), 250 * 365 * 24 * time.Hour, 240 * 365 * 24 * time.Hour}
	for run := 0; run < r.Pick(200, 4000); run++ {
		t := nbtns.NewNetBIOSNameServer(false)
		ttl := ttls[rng.IntN(len(ttls))]
		name := fmt.Sprintf("TTL%03d", run%500)
		ip := bigAddr(rng.IntN(3))
		group := rng.IntN(2) == 0
		ty := nbtns.Unique
		if group {
			ty = nbtns.Group
		}
		b0 := time.Now()
		if err := t.RegisterName(name, ty, ip, ttl); err != nil {
			continue
		}
		b1 := time.Now()
		judge := func(what string, lo, hi time.Time, d time.Duration) bool {
			snap := t.VerifSnapshot()
			rec, ok := snap[name]
			out.res.Evals++
			if !ok {
				return true
			}
			if rec.TTL.Before(lo.Add(d)) || rec.TTL.After(hi.Add(d)) {
				out.violation("W3:deadline:"+what, fmt.Sprintf("%s with interval %v armed the deadline %v from the call (call between +0 and +%v)", what, d, rec.TTL.Sub(lo), hi.Sub(lo)),
					map[string]any{"interval": d.String(), "deadline_minus_call_start": rec.TTL.Sub(lo).String()}, 1)
				return false
			}
			return true
		}
		if !judge("RegisterName", b0, b1, ttl) {
			return
		}
		// several refreshes in a row: each re-arms from its own call time, never from the old deadline
		for k := 0; k < 1+rng.IntN(4); k++ {
			if rng.IntN(3) == 0 {
				time.Sleep(time.Duration(rng.IntN(3)) * time.Millisecond)
			}
			c0 := time.Now()
			if err := t.RefreshName(name, ip); err != nil {
				break
			}
			c1 := time.Now()
			if !judge("RefreshName", c0, c1, ttl) {
				return
			}
		}
		out.res.Nontrivial = append(out.res.Nontrivial, fmt.Sprintf("deadline|%v|%v|%d", ttl, group, run%7))
	}
}
