package main

// Extra workloads: (1) several goroutines sending on one transport — each frame must reach the
// peer intact (a Send is one atomic unit on the stream); (2) a transient timeout injected after
// every byte offset of a frame — Receive must either report an error or, if it chooses to resume,
// return exactly the payload; never a fabricated message with a nil error.

import (
	"bytes"
	"fmt"
	"io"
	"net"
	"sort"
	"sync"
	"time"

	"github.com/TheManticoreProject/Manticore/network/netbios/nbt"

	"verif/mon"
)

type timeoutErr struct{}

func (timeoutErr) Error() string   { return "i/o timeout (injected)" }
func (timeoutErr) Timeout() bool   { return true }
func (timeoutErr) Temporary() bool { return true }

// faultConn delivers data in segments and returns one timeout error when pos reaches failAt.
type faultConn struct {
	data   []byte
	pos    int
	failAt int
	failed bool
	seg    int
}

func (c *faultConn) Read(p []byte) (int, error) {
	if !c.failed && c.pos >= c.failAt {
		c.failed = true
		return 0, timeoutErr{}
	}
	if c.pos >= len(c.data) {
		return 0, io.EOF
	}
	n := len(p)
	if n > c.seg {
		n = c.seg
	}
	if !c.failed && c.pos+n > c.failAt {
		n = c.failAt - c.pos
	}
	if c.pos+n > len(c.data) {
		n = len(c.data) - c.pos
	}
	copy(p, c.data[c.pos:c.pos+n])
	c.pos += n
	return n, nil
}
func (c *faultConn) Write(p []byte) (int, error)      { return len(p), nil }
func (c *faultConn) Close() error                     { return nil }
func (c *faultConn) LocalAddr() net.Addr              { return &net.TCPAddr{} }
func (c *faultConn) RemoteAddr() net.Addr             { return &net.TCPAddr{} }
func (c *faultConn) SetDeadline(time.Time) error      { return nil }
func (c *faultConn) SetReadDeadline(time.Time) error  { return nil }
func (c *faultConn) SetWriteDeadline(time.Time) error { return nil }

func extraWorkloads(r *mon.Run, rec *recorder) {
	transientTimeouts(r, rec)
	concurrentSends(r, rec)
}

func transientTimeouts(r *mon.Run, rec *recorder) {
	lens := []int{0, 1, 2, 5, 17, 64, 300}
	if r.Thorough() {
		lens = append(lens, 1000, 4097, 0x10001)
	}
	n := 0
	for _, l := range lens {
		p := make([]byte, l)
		for i := range p {
			p[i] = byte(0xA0 + i%89)
		}
		f1, _ := refEncode(p)
		second := []byte("next-frame")
		f2, _ := refEncode(second)
		stream := append(append([]byte{}, f1...), f2...)
		step := 1
		if l > 400 {
			step = l / 97
		}
		for failAt := 0; failAt < len(f1); failAt += step {
			for _, seg := range []int{1, 3, 4096} {
				c := &faultConn{data: stream, failAt: failAt, seg: seg}
				t := nbt.NewNBTTransportFromConn(c)
				var got []byte
				var err error
				pan, pv, st := mon.Guard(func() { got, err = t.Receive() })
				rec.Eval(1)
				n++
				cs := map[string]any{"payload_len": l, "timeout_after_stream_offset": failAt, "segment": seg}
				switch {
				case pan:
					rec.Violation(n, "Receive:transient-timeout:panic", sprintf("panic %v at %s", pv, mon.TopLibFrame(st)), cs)
				case err == nil && !bytes.Equal(got, p):
					rec.Violation(n, "Receive:transient-timeout:fabricated", sprintf("a timeout after %d of %d frame octets: Receive returned a %d-octet message with a nil error that is not the %d-octet payload", failAt, len(f1), len(got), l), cs)
				}
				rec.Nontrivial(sprintf("ttimeout|%d|%d|%d", l, failAt, seg))
			}
		}
	}
	rec.Count("transient_timeout_cases", int64(n))
}

func concurrentSends(r *mon.Run, rec *recorder) {
	for run := 0; run < r.Pick(40, 400); run++ {
		rng := r.Rand(fmt.Sprintf("csend|%d", run))
		a, b := net.Pipe()
		t := nbt.NewNBTTransportFromConn(a)
		G := 2 + rng.IntN(4)
		per := 3 + rng.IntN(6)
		var want [][]byte
		payloads := make([][][]byte, G)
		for g := 0; g < G; g++ {
			for i := 0; i < per; i++ {
				l := []int{1, 40, 4095, 4096, 4097, 9000, 70000}[rng.IntN(7)]
				p := make([]byte, l)
				for k := range p {
					p[k] = byte(g*16 + i)
				}
				payloads[g] = append(payloads[g], p)
				want = append(want, p)
			}
		}
		var captured bytes.Buffer
		done := make(chan struct{})
		go func() { // peer: drain everything
			defer close(done)
			buf := make([]byte, 1500+rng.IntN(9000))
			for {
				n, err := b.Read(buf)
				captured.Write(buf[:n])
				if err != nil {
					return
				}
			}
		}()
		var wg sync.WaitGroup
		for g := 0; g < G; g++ {
			wg.Add(1)
			go func(g int) {
				defer wg.Done()
				for _, p := range payloads[g] {
					mon.Guard(func() { t.Send(p) })
				}
			}(g)
		}
		wg.Wait()
		a.Close()
		<-done
		rec.Eval(1)
		// the stream must split into exactly the sent payloads (any order between goroutines)
		var got [][]byte
		s := captured.Bytes()
		ok := true
		for len(s) > 0 {
			if len(s) < 4 {
				ok = false
				break
			}
			_, _, l := refHeader(s[:4])
			if s[0] != 0 || len(s) < 4+l {
				ok = false
				break
			}
			got = append(got, s[4:4+l])
			s = s[4+l:]
		}
		key := func(x [][]byte) []string {
			var o []string
			for _, p := range x {
				h := byte(0)
				if len(p) > 0 {
					h = p[0]
				}
				uniform := true
				for _, c := range p {
					if c != h {
						uniform = false
					}
				}
				o = append(o, sprintf("%d:%02x:%v", len(p), h, uniform))
			}
			sort.Strings(o)
			return o
		}
		if !ok || fmt.Sprint(key(got)) != fmt.Sprint(key(want)) {
			rec.Violation(run, "Send:concurrent:framing", sprintf("%d goroutines x %d Sends on one transport: the peer's stream does not split into the %d payloads sent (parsed %d frames, framing intact=%v)", G, per, len(want), len(got), ok),
				map[string]any{"goroutines": G, "sends_each": per})
		}
		rec.Nontrivial(sprintf("csend|%d|%d|%d", G, per, run))
	}
}
