package main

// Extra workloads: (1) several goroutines sending on one transport — each frame must reach the
// peer intact (a Send is one atomic unit on the stream); (2) a transient timeout injected after
// every byte offset of a frame — Receive must either report an error or, if it chooses to resume,
// return exactly the payload; never a fabricated message with a nil error.

import (
	"bytes"
	"fmt"
	"github.com/TheManticoreProject/Manticore/network/smb/smb_v10/transport"
	"io"
	"net"
	"sort"
	"sync"
	"time"

	"github.com/TheManticoreProject/Manticore/network/netbios/nbt"

	"verif/mon"
)

type timeoutErr struct{}

func (timeoutErr) Error() string   { return "i/o timeout (injected)" }
func (timeoutErr) Timeout() bool   { return true }
func (timeoutErr) Temporary() bool { return true }

// faultConn delivers data in segments and returns one timeout error when pos reaches failAt.
type faultConn struct {
	data        []byte
	pos         int
	failAt      int
	failed      bool
	seg         int
	eofTogether bool // the Read that delivers the last bytes also reports io.EOF (allowed by io.Reader)
}

func (c *faultConn) Read(p []byte) (int, error) {
	if !c.failed && c.pos >= c.failAt {
		c.failed = true
		return 0, timeoutErr{}
	}
	if c.pos >= len(c.data) {
		return 0, io.EOF
	}
	n := len(p)
	if n > c.seg {
		n = c.seg
	}
	if !c.failed && c.pos+n > c.failAt {
		n = c.failAt - c.pos
	}
	if c.pos+n > len(c.data) {
		n = len(c.data) - c.pos
	}
	copy(p, c.data[c.pos:c.pos+n])
	c.pos += n
	if c.eofTogether && c.pos >= len(c.data) && n > 0 {
		return n, io.EOF
	}
	return n, nil
}
func (c *faultConn) Write(p []byte) (int, error)      { return len(p), nil }
func (c *faultConn) Close() error                     { return nil }
func (c *faultConn) LocalAddr() net.Addr              { return &net.TCPAddr{} }
func (c *faultConn) RemoteAddr() net.Addr             { return &net.TCPAddr{} }
func (c *faultConn) SetDeadline(time.Time) error      { return nil }
func (c *faultConn) SetReadDeadline(time.Time) error  { return nil }
func (c *faultConn) SetWriteDeadline(time.Time) error { return nil }

func extraWorkloads(r *mon.Run, rec *recorder) {
	transientTimeouts(r, rec)
	concurrentSends(r, rec)
	hugeSends(r, rec)
	otherPacketTypes(r, rec)
	reconnects(r, rec)
	reconnectSamePeer(r, rec)
	factoryTransports(r, rec)
	slicesOfLargerBuffers(r, rec)
	lastBytesWithEOF(r, rec)
	closeDuringReceive(r, rec)
	mixedSizeSequences(r, rec)
	stalledPeer(r, rec)
}

// stalledPeer: the peer stops reading in the middle of a frame for 2.5 s, then goes on (a busy
// server, not a dead one). Whatever Send reports, the octets that reach the peer are whole frames
// of payloads Send accepted — at most followed, at the very end, by the beginning of one that it
// did not; never a piece of one frame followed by another frame.
func stalledPeer(r *mon.Run, rec *recorder) {
	var wg sync.WaitGroup
	for run := 0; run < 3; run++ {
		wg.Add(1)
		go func(run int) {
			defer wg.Done()
			a, b := net.Pipe()
			t := nbt.NewNBTTransportFromConn(a)
			payloads := [][]byte{bytes.Repeat([]byte{0x11}, 300+run), bytes.Repeat([]byte{0x22}, 100), bytes.Repeat([]byte{0x33}, 7)}
			var wire []byte
			readerDone := make(chan struct{})
			go func() {
				defer close(readerDone)
				buf := make([]byte, 4096)
				first := true
				for {
					b.SetReadDeadline(time.Now().Add(8 * time.Second))
					n, err := b.Read(buf[:[]int{10, 4, 150}[run]])
					wire = append(wire, buf[:n]...)
					if err != nil {
						return
					}
					if first {
						first = false
						time.Sleep(2500 * time.Millisecond) // the stall, inside the first frame
					}
				}
			}()
			var accepted, refused [][]byte
			for _, p := range payloads {
				var err error
				pan, _, _ := mon.Guard(func() { _, err = t.Send(p) })
				f, _ := refEncode(p)
				if !pan && err == nil {
					accepted = append(accepted, f)
				} else {
					refused = append(refused, f)
				}
			}
			mon.Guard(func() { t.Close() })
			a.Close()
			<-readerDone
			b.Close()
			rec.Eval(len(payloads))
			var want []byte
			for _, f := range accepted {
				want = append(want, f...)
			}
			ok := bytes.HasPrefix(wire, want)
			if ok && len(wire) > len(want) {
				tail := wire[len(want):]
				ok = false
				for _, f := range refused {
					if len(tail) < len(f) && bytes.HasPrefix(f, tail) {
						ok = true
					}
				}
			}
			if !ok {
				rec.Violation(run, "Send:stalled-peer:wire", sprintf("the peer paused 2.5 s inside the first frame and then read on: Send accepted %d of %d payloads, the peer received %d octets that are not the frames of the accepted payloads (first difference at %d)", len(accepted), len(payloads), len(wire), firstDiff(wire, want)),
					map[string]any{"accepted": len(accepted), "wire_octets": len(wire), "wire_head": mon.Hex(wire)})
			}
			rec.Nontrivial(sprintf("stalled-peer|%d", run))
		}(run)
	}
	wg.Wait()
}

// mixedSizeSequences: messages of very different sizes one after the other on one receiving
// transport (a large one, then small ones, then the largest): each Receive returns the next
// message exactly, and the end of the stream after the last one is an error.
func mixedSizeSequences(r *mon.Run, rec *recorder) {
	seqs := [][]int{{0x10005, 20, 0x1FFFF, 1, 0, 0xFFFF, 3}, {0x1FFFF, 0, 0x10000, 0xFFFF}, {5, 0x10000, 5}, {0x12345, 0x12345, 7, 0x12345}}
	for t := 0; t < r.Pick(6, 40); t++ {
		rng := r.Rand(fmt.Sprintf("mixed-sizes|%d", t))
		var s []int
		for k := 0; k < 3+rng.IntN(5); k++ {
			s = append(s, []int{0, 1, 20, 300, 0xFFFF, 0x10000, 0x10001, 0x1FFFF, 0x10000 + rng.IntN(0xFFFF)}[rng.IntN(9)])
		}
		seqs = append(seqs, s)
	}
	for si, sizes := range seqs {
		var stream []byte
		var sent [][]byte
		for k, n := range sizes {
			p := make([]byte, n)
			for i := range p {
				p[i] = byte(i*13 + k*7 + si)
			}
			f, _ := refEncode(p)
			stream = append(stream, f...)
			sent = append(sent, p)
		}
		c := &faultConn{data: stream, failAt: len(stream) + 1, seg: []int{1 << 20, 1000, 7}[si%3]}
		t := nbt.NewNBTTransportFromConn(c)
		cs := map[string]any{"sizes": sizes}
		for k := 0; k <= len(sent); k++ {
			var got []byte
			var err error
			pan, pv, st := mon.Guard(func() { got, err = t.Receive() })
			rec.Eval(1)
			if pan {
				rec.Violation(si, "Receive:mixed-sizes:panic", sprintf("panic %v at %s", pv, mon.TopLibFrame(st)), cs)
				break
			}
			if k == len(sent) {
				if err == nil {
					rec.Violation(si, "Receive:mixed-sizes:fabricated", sprintf("after the %d messages of sizes %v the stream ends; Receive returned a %d-octet message and no error", len(sent), sizes, len(got)), cs)
				}
				break
			}
			if err != nil || !bytes.Equal(got, sent[k]) {
				rec.Violation(si, "Receive:mixed-sizes:value", sprintf("messages of sizes %v on one transport: Receive #%d returned %d octets (err %v), message #%d has %d octets", sizes, k+1, len(got), err, k+1, len(sent[k])), cs)
				break
			}
		}
		rec.Nontrivial(sprintf("mixed-sizes|%d", si))
	}
}

// closeDuringReceive: the owner of a transport closes it from another goroutine while Receive is
// waiting inside a frame (the usual way to end a blocked Receive). The stream has ended inside a
// frame: Receive reports an error — no panic, no message — and returns.
func closeDuringReceive(r *mon.Run, rec *recorder) {
	for run := 0; run < r.Pick(60, 600); run++ {
		rng := r.Rand(fmt.Sprintf("close-during-receive|%d", run))
		n := []int{1, 5, 300, 0x10000, 0x1FFFF}[run%5]
		p := make([]byte, n)
		frame, _ := refEncode(p)
		// how much of the frame has arrived when Close is called: inside the header, exactly the
		// header, inside the payload
		arrived := []int{1 + rng.IntN(3), 4, 4 + rng.IntN(n)}[run%3]
		a, b := net.Pipe()
		t := nbt.NewNBTTransportFromConn(a)
		type res struct {
			got []byte
			err error
			pan bool
			pv  any
			st  string
		}
		done := make(chan res, 1)
		go func() {
			var x res
			x.pan, x.pv, x.st = mon.Guard(func() { x.got, x.err = t.Receive() })
			done <- x
		}()
		// a write on a pipe returns once the reader has taken the bytes: the receiver is then
		// inside the frame, waiting for more
		b.SetWriteDeadline(time.Now().Add(10 * time.Second))
		if _, err := b.Write(frame[:arrived]); err != nil {
			rec.Count("close_during_receive_setup_failed", 1)
			a.Close()
			b.Close()
			continue
		}
		closed := make(chan struct{})
		go func() { mon.Guard(func() { t.Close() }); close(closed) }()
		cs := map[string]any{"frame_octets": len(frame), "arrived_before_close": arrived}
		rec.Eval(1)
		select {
		case x := <-done:
			switch {
			case x.pan:
				rec.Violation(run, "Receive:close-during-receive:panic", sprintf("Close from another goroutine after %d of %d octets of a frame had arrived: Receive panicked: %v at %s", arrived, len(frame), x.pv, mon.TopLibFrame(x.st)), cs)
			case x.err == nil:
				rec.Violation(run, "Receive:close-during-receive:message", sprintf("Close from another goroutine after %d of %d octets of a frame had arrived: Receive returned a %d-octet message and no error", arrived, len(frame), len(x.got)), cs)
			}
		case <-mon.AfterSteps(20 * time.Second):
			rec.Inconclusive(sprintf("close-during-receive: Receive did not return within 20 s of Close (%d of %d octets arrived)", arrived, len(frame)))
		}
		b.Close()
		<-closed
		rec.Nontrivial(sprintf("close-during-receive|%d|%d", n, run%3))
	}
}

// slicesOfLargerBuffers: the payload is a window of a much larger buffer (len << cap), as with a
// reused I/O buffer: what counts is its length.
func slicesOfLargerBuffers(r *mon.Run, rec *recorder) {
	backing := make([]byte, 1<<19)
	for i := range backing {
		backing[i] = byte(i*13 + i>>9)
	}
	for i, n := range []int{0, 1, 5, 300, 0xFFFF, 0x10000, 0x1FFFF} {
		for _, off := range []int{0, 1, 4097} {
			p := backing[off : off+n] // capacity: the rest of the 512 KiB buffer
			a, b := net.Pipe()
			t := nbt.NewNBTTransportFromConn(a)
			got := make(chan []byte, 1)
			go func() { x, _ := io.ReadAll(b); got <- x }()
			var err error
			pan, pv, st := mon.Guard(func() { _, err = t.Send(p) })
			a.Close()
			wire := <-got
			rec.Eval(1)
			want, _ := refEncode(p)
			cs := map[string]any{"payload_len": n, "payload_cap": cap(p)}
			switch {
			case pan:
				rec.Violation(i, "Send:panic", sprintf("panic %v at %s", pv, mon.TopLibFrame(st)), cs)
			case err != nil:
				rec.Violation(i, "Send:error-on-valid:window-of-larger-buffer", sprintf("Send of a %d-octet payload that is a window of a %d-octet buffer returned %v", n, cap(p), err), cs)
			case !bytes.Equal(wire, want):
				rec.Violation(i, "Send:wire:window-of-larger-buffer", sprintf("a %d-octet payload (capacity %d) left the transport as %d octets, first difference at %d", n, cap(p), len(wire), firstDiff(wire, want)), cs)
			}
			rec.Nontrivial(sprintf("window|%d|%d", n, off))
		}
	}
}

// lastBytesWithEOF: a connection may hand over its last bytes and io.EOF in one Read; complete
// frames must still be delivered, and only then the end of the stream reported.
func lastBytesWithEOF(r *mon.Run, rec *recorder) {
	for run := 0; run < r.Pick(80, 800); run++ {
		rng := r.Rand(fmt.Sprintf("eof-together|%d", run))
		var stream []byte
		var sent [][]byte
		for k := 0; k < 1+rng.IntN(4); k++ {
			p := make([]byte, []int{0, 1, 7, 64, 300, 5000}[rng.IntN(6)])
			for i := range p {
				p[i] = byte(0x41 + k + i)
			}
			f, _ := refEncode(p)
			stream = append(stream, f...)
			sent = append(sent, p)
		}
		seg := []int{1, 2, 3, 4, 5, 64, 1 << 20}[rng.IntN(7)]
		c := &faultConn{data: stream, failAt: len(stream) + 1, seg: seg, eofTogether: true}
		t := nbt.NewNBTTransportFromConn(c)
		cs := map[string]any{"stream": mon.FullHex(stream), "segment": seg}
		for i, want := range sent {
			var got []byte
			var err error
			pan, pv, st := mon.Guard(func() { got, err = t.Receive() })
			rec.Eval(1)
			if pan {
				rec.Violation(run, "Receive:panic", sprintf("panic %v at %s", pv, mon.TopLibFrame(st)), cs)
				break
			}
			if err != nil || !bytes.Equal(got, want) {
				rec.Violation(run, "Receive:error-on-complete-frame:eof-with-last-bytes", sprintf("message %d of %d (%d octets) is complete on the stream, whose last Read returns its bytes together with io.EOF: Receive returned (%d octets, %v)", i, len(sent), len(want), len(got), err), cs)
				break
			}
		}
		rec.Nontrivial(sprintf("eof-together|%d", run))
	}
}

// factoryTransports: the transport handed out by transport.NewTransport for every spelling of
// "nbt" frames like the one of nbt.NewNBTTransport: over loopback TCP the stream must be the
// reference frames of the payloads accepted, and an oversize payload is refused with nothing
// on the wire.
func factoryTransports(r *mon.Run, rec *recorder) {
	si := 0
	for _, spelling := range []string{"nbt", "NBT", "Nbt", "nBT", "nbT"} {
		t := transport.NewTransport(spelling)
		cs := map[string]any{"factory_argument": spelling}
		if t == nil {
			rec.Violation(si, "NewTransport:nil", sprintf("NewTransport(%q) returned nil", spelling), cs)
			continue
		}
		factoryRun(rec, si, sprintf("NewTransport(%q)", spelling), "NewTransport", t, "127.0.0.1:0", cs)
		si++
	}
	// the ports the session service and direct hosting use: the framing is that of RFC 1002
	// whatever the port number is
	for _, port := range []int{139, 445, 137, 138, 1139} {
		addr := sprintf("127.0.0.1:%d", port)
		for k, mk := range []func() factoryXport{
			func() factoryXport { return transport.NewTransport("nbt") },
			func() factoryXport { return nbt.NewNBTTransport() },
		} {
			t := mk()
			cs := map[string]any{"port": port, "constructor": []string{"transport.NewTransport(\"nbt\")", "nbt.NewNBTTransport()"}[k]}
			if factoryRun(rec, si, sprintf("%s connected to port %d", cs["constructor"], port), "port"+fmt.Sprint(port), t, addr, cs) {
				rec.Count(sprintf("transports_connected_to_port_%d", port), 1)
			}
			si++
		}
	}
}

type factoryXport interface {
	Connect(net.IP, int) error
	Send([]byte) (int, error)
	Close() error
}

// factoryRun reports whether the scenario ran (the listener could be bound and connected to).
func factoryRun(rec *recorder, si int, what, key string, t factoryXport, addr string, cs map[string]any) bool {
	sizes := []int{0, 1, 5, 0xFFFF, 0x10000, 0x1FFFF}
	over := []int{0x20000, 0x20001, 0x30000, 0xFFFFFF, 0x1000000}
	ln, err := net.Listen("tcp4", addr)
	if err != nil {
		rec.Count("factory_scenarios_skipped", 1)
		return false
	}
	got := make(chan []byte, 1)
	go func() {
		c, err := ln.Accept()
		if err != nil {
			got <- nil
			return
		}
		b, _ := io.ReadAll(c)
		c.Close()
		got <- b
	}()
	var want []byte
	problem := ""
	pan, pv, st := mon.Guard(func() {
		if err := t.Connect(net.IP{127, 0, 0, 1}, ln.Addr().(*net.TCPAddr).Port); err != nil {
			problem = "connect"
			return
		}
		for _, n := range sizes {
			p := make([]byte, n)
			for i := range p {
				p[i] = byte(i*7 + n)
			}
			if _, err := t.Send(p); err != nil {
				problem = sprintf("Send of %d octets refused: %v", n, err)
				break
			}
			f, _ := refEncode(p)
			want = append(want, f...)
		}
		// a payload of no octets, spelled as a nil slice
		if _, err := t.Send(nil); err != nil {
			problem = sprintf("Send of a zero-length payload (nil slice) refused: %v", err)
		} else {
			f, _ := refEncode(nil)
			want = append(want, f...)
		}
		for _, n := range over {
			if problem != "" {
				break
			}
			if _, err := t.Send(make([]byte, n)); err == nil {
				problem = sprintf("Send of %d octets (beyond the 17-bit length) accepted", n)
			}
		}
		t.Close()
	})
	ln.Close()
	wire := <-got
	rec.Eval(len(sizes) + len(over))
	ran := true
	switch {
	case pan:
		rec.Violation(si, key+":panic", sprintf("panic %v at %s", pv, mon.TopLibFrame(st)), cs)
	case problem == "connect":
		rec.Count("factory_scenarios_io_error", 1)
		ran = false
	case problem != "":
		rec.Violation(si, key+":framing:refusal", sprintf("transport from %s: %s", what, problem), cs)
	case !bytes.Equal(wire, want):
		rec.Violation(si, key+":framing:wire", sprintf("transport from %s put %d octets on the wire, the session frames of the accepted payloads are %d octets (first difference at %d)", what, len(wire), len(want), firstDiff(wire, want)), cs)
	}
	rec.Nontrivial("factory|" + what)
	return ran
}

// hugeSends: payloads far beyond the 17-bit length (around multiples of 16 MiB, where the flags
// octet of a naive header computation wraps) must be refused, with nothing on the wire.
func hugeSends(r *mon.Run, rec *recorder) {
	sizes := []int{1<<24 + 5, 1<<24 + 0x1FFFF, 1 << 24, 1<<24 - 1}
	if r.Thorough() {
		sizes = append(sizes, 1<<25+7, 3<<24, 1<<26+0x10000)
	}
	for i, n := range sizes {
		a, b := net.Pipe()
		t := nbt.NewNBTTransportFromConn(a)
		var got int64
		done := make(chan struct{})
		go func() {
			defer close(done)
			buf := make([]byte, 1<<16)
			for {
				k, err := b.Read(buf)
				got += int64(k)
				if err != nil {
					return
				}
			}
		}()
		p := make([]byte, n)
		var err error
		pan, pv, st := mon.Guard(func() { _, err = t.Send(p) })
		a.Close()
		<-done
		rec.Eval(1)
		cs := map[string]any{"payload_len": n}
		switch {
		case pan:
			rec.Violation(i, "Send:oversize:panic", sprintf("panic %v at %s", pv, mon.TopLibFrame(st)), cs)
		case err == nil:
			rec.Violation(i, "Send:oversize:accepted:huge", sprintf("Send of %d octets (beyond the 17-bit session length) returned nil; %d octets reached the wire", n, got), cs)
		case got != 0:
			rec.Violation(i, "Send:oversize:wire-bytes:huge", sprintf("Send of %d octets was refused but %d octets reached the wire", n, got), cs)
		}
		rec.Nontrivial(sprintf("huge|%d", n))
	}
}

// otherPacketTypes: zero-length session packets of another type (keep-alive 0x85, positive
// response 0x82) between session messages. Receive may report them as errors, but every message
// it returns without error must be one the peer sent, in order — never a fabricated one.
func otherPacketTypes(r *mon.Run, rec *recorder) {
	for run := 0; run < 255+r.Pick(60, 600); run++ {
		rng := r.Rand(fmt.Sprintf("types|%d", run))
		var stream []byte
		var sent [][]byte
		if run < 255 {
			// every TYPE octet but 0x00 in turn, with and without a trailer
			ty := byte(run + 1)
			for k, tl := range []int{8, 0, 4} {
				stream = append(stream, ty, 0, 0, byte(tl))
				stream = append(stream, bytes.Repeat([]byte{0xEE}, tl)...)
				p := bytes.Repeat([]byte{byte(0x41 + k)}, 1+k*3)
				f, _ := refEncode(p)
				stream = append(stream, f...)
				sent = append(sent, p)
			}
		}
		for k := 0; run >= 255 && k < 2+rng.IntN(6); k++ {
			switch rng.IntN(4) {
			case 0:
				stream = append(stream, []byte{0x85, 0, 0, 0}...)
			case 1:
				stream = append(stream, []byte{0x82, 0, 0, 0}...)
			case 2:
				// any other TYPE octet, defined by RFC 1002 or not; its trailer is made of octets
				// that are no session-message header either (a whole number of 4-octet groups)
				ty := byte(1 + (run*5+k*3+rng.IntN(2)*128)%255)
				tl := 4 * rng.IntN(4)
				stream = append(stream, ty, 0, 0, byte(tl))
				stream = append(stream, bytes.Repeat([]byte{0xEE}, tl)...)
			}
			p := make([]byte, []int{0, 1, 5, 64, 300}[rng.IntN(5)])
			for i := range p {
				p[i] = byte(0x30 + k)
			}
			f, _ := refEncode(p)
			stream = append(stream, f...)
			sent = append(sent, p)
		}
		c := &faultConn{data: stream, failAt: len(stream) + 1, seg: 1 + rng.IntN(9)}
		t := nbt.NewNBTTransportFromConn(c)
		next := 0
		for call := 0; call < 60; call++ {
			var got []byte
			var err error
			pan, pv, st := mon.Guard(func() { got, err = t.Receive() })
			rec.Eval(1)
			if pan {
				rec.Violation(run, "Receive:other-type:panic", sprintf("panic %v at %s", pv, mon.TopLibFrame(st)), map[string]any{"stream": mon.FullHex(stream)})
				break
			}
			if err != nil {
				if c.pos >= len(stream) {
					break
				}
				continue
			}
			found := -1
			for j := next; j < len(sent); j++ {
				if bytes.Equal(sent[j], got) {
					found = j
					break
				}
			}
			if found < 0 {
				rec.Violation(run, "Receive:other-type:fabricated", sprintf("after a keep-alive/response packet Receive returned a %d-octet message with a nil error that the peer never sent (or sent earlier)", len(got)), map[string]any{"stream": mon.FullHex(stream)})
				break
			}
			next = found + 1
		}
		rec.Nontrivial(sprintf("types|%d", run))
	}
}

// reconnects: one transport object, connected to peer A over loopback TCP, receives one of two
// coalesced frames, is closed and connected to peer B: the first message received from B must be
// B's (nothing buffered from A may survive the reconnect).
func reconnects(r *mon.Run, rec *recorder) {
	serve := func(frames ...[]byte) (net.Listener, error) {
		ln, err := net.Listen("tcp4", "127.0.0.1:0")
		if err != nil {
			return nil, err
		}
		go func() {
			c, err := ln.Accept()
			if err != nil {
				return
			}
			var all []byte
			for _, f := range frames {
				all = append(all, f...)
			}
			c.Write(all) // one segment: frames arrive coalesced
			time.Sleep(50 * time.Millisecond)
			buf := make([]byte, 16)
			c.SetReadDeadline(time.Now().Add(3 * time.Second))
			c.Read(buf) // wait for the client to close
			c.Close()
		}()
		return ln, nil
	}
	for run := 0; run < r.Pick(10, 80); run++ {
		fa1, _ := refEncode([]byte(sprintf("A-first-%d", run)))
		fa2, _ := refEncode([]byte(sprintf("A-second-%d-must-not-survive", run)))
		fb1, _ := refEncode([]byte(sprintf("B-first-%d", run)))
		la, err1 := serve(fa1, fa2)
		lb, err2 := serve(fb1)
		if err1 != nil || err2 != nil {
			rec.Count("reconnect_scenarios_skipped", 1)
			continue
		}
		t := nbt.NewNBTTransport()
		var m1, m2 []byte
		var e1, e2 error
		pan, pv, st := mon.Guard(func() {
			if err := t.Connect(net.IP{127, 0, 0, 1}, la.Addr().(*net.TCPAddr).Port); err != nil {
				e1 = err
				return
			}
			m1, e1 = t.Receive()
			time.Sleep(20 * time.Millisecond) // let the second frame arrive
			t.Close()
			if err := t.Connect(net.IP{127, 0, 0, 1}, lb.Addr().(*net.TCPAddr).Port); err != nil {
				e2 = err
				return
			}
			m2, e2 = t.Receive()
			t.Close()
		})
		la.Close()
		lb.Close()
		rec.Eval(1)
		cs := map[string]any{"run": run}
		switch {
		case pan:
			rec.Violation(run, "Receive:reconnect:panic", sprintf("panic %v at %s", pv, mon.TopLibFrame(st)), cs)
		case e1 != nil || e2 != nil:
			rec.Count("reconnect_scenarios_io_error", 1)
		case string(m1) != sprintf("A-first-%d", run):
			rec.Violation(run, "Receive:reconnect:first", sprintf("first message from peer A is %q", m1), cs)
		case string(m2) != sprintf("B-first-%d", run):
			rec.Violation(run, "Receive:reconnect:stale-bytes", sprintf("after Close and Connect to another peer the first message received is %q, the new peer sent %q", m2, sprintf("B-first-%d", run)), cs)
		}
		rec.Nontrivial(sprintf("reconnect|%d", run))
	}
}

func transientTimeouts(r *mon.Run, rec *recorder) {
	lens := []int{0, 1, 2, 5, 17, 64, 300}
	if r.Thorough() {
		lens = append(lens, 1000, 4097, 0x10001)
	}
	n := 0
	for _, l := range lens {
		p := make([]byte, l)
		for i := range p {
			p[i] = byte(0xA0 + i%89)
		}
		f1, _ := refEncode(p)
		second := []byte("next-frame")
		f2, _ := refEncode(second)
		stream := append(append([]byte{}, f1...), f2...)
		step := 1
		if l > 400 {
			step = l / 97
		}
		for failAt := 0; failAt < len(f1); failAt += step {
			for _, seg := range []int{1, 3, 4096} {
				c := &faultConn{data: stream, failAt: failAt, seg: seg}
				t := nbt.NewNBTTransportFromConn(c)
				var got []byte
				var err error
				pan, pv, st := mon.Guard(func() { got, err = t.Receive() })
				rec.Eval(1)
				n++
				cs := map[string]any{"payload_len": l, "timeout_after_stream_offset": failAt, "segment": seg}
				switch {
				case pan:
					rec.Violation(n, "Receive:transient-timeout:panic", sprintf("panic %v at %s", pv, mon.TopLibFrame(st)), cs)
				case err == nil && !bytes.Equal(got, p):
					rec.Violation(n, "Receive:transient-timeout:fabricated", sprintf("a timeout after %d of %d frame octets: Receive returned a %d-octet message with a nil error that is not the %d-octet payload", failAt, len(f1), len(got), l), cs)
				}
				rec.Nontrivial(sprintf("ttimeout|%d|%d|%d", l, failAt, seg))
			}
		}
	}
	rec.Count("transient_timeout_cases", int64(n))
}

func concurrentSends(r *mon.Run, rec *recorder) {
	for run := 0; run < r.Pick(40, 400); run++ {
		rng := r.Rand(fmt.Sprintf("csend|%d", run))
		a, b := net.Pipe()
		t := nbt.NewNBTTransportFromConn(a)
		G := 2 + rng.IntN(4)
		per := 3 + rng.IntN(6)
		var want [][]byte
		payloads := make([][][]byte, G)
		for g := 0; g < G; g++ {
			for i := 0; i < per; i++ {
				l := []int{1, 40, 4095, 4096, 4097, 9000, 70000}[rng.IntN(7)]
				p := make([]byte, l)
				for k := range p {
					p[k] = byte(g*16 + i)
				}
				payloads[g] = append(payloads[g], p)
				want = append(want, p)
			}
		}
		var captured bytes.Buffer
		done := make(chan struct{})
		go func() { // peer: drain everything
			defer close(done)
			buf := make([]byte, 1500+rng.IntN(9000))
			for {
				n, err := b.Read(buf)
				captured.Write(buf[:n])
				if err != nil {
					return
				}
			}
		}()
		var wg sync.WaitGroup
		for g := 0; g < G; g++ {
			wg.Add(1)
			go func(g int) {
				defer wg.Done()
				for _, p := range payloads[g] {
					mon.Guard(func() { t.Send(p) })
				}
			}(g)
		}
		wg.Wait()
		a.Close()
		<-done
		rec.Eval(1)
		// the stream must split into exactly the sent payloads (any order between goroutines)
		var got [][]byte
		s := captured.Bytes()
		ok := true
		for len(s) > 0 {
			if len(s) < 4 {
				ok = false
				break
			}
			_, _, l := refHeader(s[:4])
			if s[0] != 0 || len(s) < 4+l {
				ok = false
				break
			}
			got = append(got, s[4:4+l])
			s = s[4+l:]
		}
		key := func(x [][]byte) []string {
			var o []string
			for _, p := range x {
				h := byte(0)
				if len(p) > 0 {
					h = p[0]
				}
				uniform := true
				for _, c := range p {
					if c != h {
						uniform = false
					}
				}
				o = append(o, sprintf("%d:%02x:%v", len(p), h, uniform))
			}
			sort.Strings(o)
			return o
		}
		if !ok || fmt.Sprint(key(got)) != fmt.Sprint(key(want)) {
			rec.Violation(run, "Send:concurrent:framing", sprintf("%d goroutines x %d Sends on one transport: the peer's stream does not split into the %d payloads sent (parsed %d frames, framing intact=%v)", G, per, len(want), len(got), ok),
				map[string]any{"goroutines": G, "sends_each": per})
		}
		rec.Nontrivial(sprintf("csend|%d|%d|%d", G, per, run))
	}
}

// reconnectSamePeer: one transport object receives a packet it refuses (a retarget / negative session
// response whose trailer reads as a session message header) and is then connected again to the SAME
// endpoint, with and without a Close in between: what it receives next is what the peer sent on the new
// connection, never octets left over from the refused packet (seeded C11-r10-1).
func reconnectSamePeer(r *mon.Run, rec *recorder) {
	for run := 0; run < r.Pick(12, 60); run++ {
		fresh := sprintf("fresh-%d", run)
		ff, _ := refEncode([]byte(fresh))
		var first []byte
		switch run % 3 {
		case 0: // RETARGET SESSION RESPONSE, 6 octets: 00 00 00 02 'A' 'B'
			first = []byte{0x84, 0, 0, 6, 0, 0, 0, 2, 'A', 'B'}
		case 1: // NEGATIVE SESSION RESPONSE with an over-long trailer
			first = []byte{0x83, 0, 0, 7, 0x8F, 0, 0, 0, 2, 'C', 'D'}
		default: // an undefined packet type
			first = []byte{0x7E, 0, 0, 6, 0, 0, 0, 2, 'E', 'F'}
		}
		ln, err := net.Listen("tcp4", "127.0.0.1:0")
		if err != nil {
			rec.Count("reconnect_scenarios_skipped", 1)
			continue
		}
		go func() {
			for i := 0; i < 2; i++ {
				c, err := ln.Accept()
				if err != nil {
					return
				}
				out := first
				if i == 1 {
					out = ff
				}
				go func(c net.Conn, out []byte) {
					c.Write(out)
					buf := make([]byte, 16)
					c.SetReadDeadline(time.Now().Add(3 * time.Second))
					c.Read(buf)
					c.Close()
				}(c, out)
			}
		}()
		port := ln.Addr().(*net.TCPAddr).Port
		withClose := run%2 == 1
		t := nbt.NewNBTTransport()
		var m1, m2 []byte
		var e1, e2, ec error
		pan, pv, st := mon.Guard(func() {
			if ec = t.Connect(net.IP{127, 0, 0, 1}, port); ec != nil {
				return
			}
			m1, e1 = t.Receive()
			time.Sleep(20 * time.Millisecond)
			if withClose {
				t.Close()
			}
			if ec = t.Connect(net.IP{127, 0, 0, 1}, port); ec != nil {
				return
			}
			m2, e2 = t.Receive()
			t.Close()
		})
		ln.Close()
		rec.Eval(1)
		cs := map[string]any{"run": run, "first_connection_stream": mon.FullHex(first), "close_before_second_connect": withClose, "first_receive_len": len(m1), "first_receive_err": sprintf("%v", e1)}
		switch {
		case pan:
			rec.Violation(run, "Receive:reconnect-same-peer:panic", sprintf("panic %v at %s", pv, mon.TopLibFrame(st)), cs)
		case ec != nil || e2 != nil:
			rec.Count("reconnect_scenarios_io_error", 1)
		case string(m2) != fresh:
			rec.Violation(run, "Receive:reconnect-same-peer:stale-bytes", sprintf("after a refused packet and Connect to the same endpoint the message received is %q (nil error); the peer sent %q on the new connection", m2, fresh), cs)
		}
		rec.Nontrivial(sprintf("reconnect-same|%d", run))
	}
}
