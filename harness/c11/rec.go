package main

import (
	"encoding/json"
	"fmt"
	"os"
	"sync"
)

func sprintf(f string, a ...any) string { return fmt.Sprintf(f, a...) }

// recorder is the worker-side stand-in for mon.Run: the worker (the process
// that runs under GORACE) accumulates here and hands one JSON document to the
// parent, which owns the verdict.
type recorder struct {
	mu       sync.Mutex
	Evals    int64            `json:"evals"`
	Counts   map[string]int64 `json:"counts"`
	Nontriv  []string         `json:"nontrivial"`
	nontriv  map[string]struct{}
	Samples  []any   `json:"samples"`
	Viol     []*vrec `json:"violations"`
	viol     map[string]*vrec
	Inconcl  []string `json:"inconclusive"`
	Complete bool     `json:"complete"`
	sampled  map[string]int
}

type vrec struct {
	Key   string `json:"key"`
	What  string `json:"what"`
	Case  any    `json:"case"`
	Count int    `json:"count"`
	idx   int
}

func newRecorder() *recorder {
	return &recorder{Counts: map[string]int64{}, nontriv: map[string]struct{}{}, viol: map[string]*vrec{}, sampled: map[string]int{}}
}

func (r *recorder) Eval(n int) { r.mu.Lock(); r.Evals += int64(n); r.mu.Unlock() }

func (r *recorder) Count(name string, n int64) {
	r.mu.Lock()
	r.Counts[name] += n
	r.mu.Unlock()
}

func (r *recorder) Nontrivial(fp string) {
	r.mu.Lock()
	r.nontriv[fp] = struct{}{}
	r.mu.Unlock()
}

// SampleClass keeps at most one written-out case per class label, up to 12.
func (r *recorder) SampleClass(class string, v func() any) {
	r.mu.Lock()
	defer r.mu.Unlock()
	if r.sampled[class] > 0 || len(r.Samples) >= 12 {
		return
	}
	r.sampled[class]++
	r.Samples = append(r.Samples, v())
}

func (r *recorder) Inconclusive(s string) {
	r.mu.Lock()
	if len(r.Inconcl) < 50 {
		r.Inconcl = append(r.Inconcl, s)
	}
	r.mu.Unlock()
}

// Violation keeps, per key, the case with the smallest scenario index so that
// the written-out witness does not depend on worker scheduling.
func (r *recorder) Violation(idx int, key, what string, cs any) {
	r.mu.Lock()
	defer r.mu.Unlock()
	v, ok := r.viol[key]
	if !ok {
		r.viol[key] = &vrec{Key: key, What: what, Case: cs, Count: 1, idx: idx}
		return
	}
	v.Count++
	if idx < v.idx {
		v.idx, v.What, v.Case = idx, what, cs
	}
}

func (r *recorder) write(path string, complete bool) error {
	r.mu.Lock()
	defer r.mu.Unlock()
	r.Complete = complete
	r.Nontriv = r.Nontriv[:0]
	for k := range r.nontriv {
		r.Nontriv = append(r.Nontriv, k)
	}
	r.Viol = r.Viol[:0]
	for _, v := range r.viol {
		r.Viol = append(r.Viol, v)
	}
	b, err := json.Marshal(r)
	if err != nil {
		return err
	}
	tmp := path + ".tmp"
	if err := os.WriteFile(tmp, b, 0o644); err != nil {
		return err
	}
	return os.Rename(tmp, path)
}
