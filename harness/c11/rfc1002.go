package main

import "bytes"

// Independent framer for the NetBIOS session service, written from
// RFC 1002 section 4.3.1 (GENERAL FORMAT OF SESSION PACKETS):
//
//	 0                   1                   2                   3
//	 0 1 2 3 4 5 6 7 8 9 0 1 2 3 4 5 6 7 8 9 0 1 2 3 4 5 6 7 8 9 0 1
//	+-+-+-+-+-+-+-+-+-+-+-+-+-+-+-+-+-+-+-+-+-+-+-+-+-+-+-+-+-+-+-+-+
//	|      TYPE     |     FLAGS     |            LENGTH             |
//	+-+-+-+-+-+-+-+-+-+-+-+-+-+-+-+-+-+-+-+-+-+-+-+-+-+-+-+-+-+-+-+-+
//
// FLAGS: bits 0-6 reserved, must be zero; bit 7 (the least significant bit of
// the octet, RFC bit numbering starts at the most significant bit) is E, the
// length extension, "used as an additional, high-order bit on the LENGTH
// field". TYPE 0x00 is SESSION MESSAGE. The trailer (payload) is therefore 0
// to 0x1FFFF octets long.
//
// Nothing in this file is shared with the library under test.

const (
	refTypeSessionMessage = 0x00
	refTypeKeepAlive      = 0x85
	refMaxPayload         = 0x1FFFF
)

// refEncodeHeader builds the header of a SESSION MESSAGE carrying n octets. ok
// is false when n cannot be expressed by the 17-bit length.
func refEncodeHeader(n int) (h [4]byte, ok bool) {
	if n < 0 || n > refMaxPayload {
		return h, false
	}
	h[0] = refTypeSessionMessage
	h[1] = byte(n >> 16 & 1) // E: the high-order length bit
	h[2] = byte(n >> 8)
	h[3] = byte(n)
	return h, true
}

// refEncode frames p as one SESSION MESSAGE.
func refEncode(p []byte) (frame []byte, ok bool) {
	h, ok := refEncodeHeader(len(p))
	if !ok {
		return nil, false
	}
	return append(append(make([]byte, 0, 4+len(p)), h[:]...), p...), true
}

// refHeader decodes a 4-octet session header.
func refHeader(h []byte) (typ byte, reservedFlags byte, length int) {
	return h[0], h[1] & 0xFE, int(h[1]&1)<<16 | int(h[2])<<8 | int(h[3])
}

// wireDiff compares the octets captured from the wire with the sequence of
// payloads that must have been framed, frame by frame, and names the first
// discrepancy ("" if none). idx is the index of the payload at which it occurs
// (len(want) for trailing octets).
func wireDiff(captured []byte, want [][]byte) (class string, idx int, detail string) {
	rest := captured
	for i, p := range want {
		if len(rest) < 4 {
			return "missing", i, sprintf("stream ends %d octets into the header of frame %d", len(rest), i)
		}
		typ, resv, n := refHeader(rest[:4])
		if typ != refTypeSessionMessage {
			return "header-type", i, sprintf("frame %d has TYPE 0x%02x, header %x", i, typ, rest[:4])
		}
		if resv != 0 {
			return "flags-reserved", i, sprintf("frame %d has reserved FLAGS bits set, header %x", i, rest[:4])
		}
		if n != len(p) {
			return "length", i, sprintf("frame %d: header %x announces %d octets for a payload of %d (0x%x)", i, rest[:4], n, len(p), len(p))
		}
		rest = rest[4:]
		if len(rest) < n {
			return "missing", i, sprintf("frame %d: only %d of %d payload octets on the wire", i, len(rest), n)
		}
		if !bytesEqual(rest[:n], p) {
			return "payload", i, sprintf("frame %d: payload octets differ at offset %d", i, firstDiff(rest[:n], p))
		}
		rest = rest[n:]
	}
	if len(rest) != 0 {
		k := len(rest)
		if k > 16 {
			k = 16
		}
		return "trailing", len(want), sprintf("%d octets after the last expected frame, starting %x", len(rest), rest[:k])
	}
	return "", 0, ""
}

func firstDiff(a, b []byte) int {
	for i := range a {
		if i >= len(b) || a[i] != b[i] {
			return i
		}
	}
	return len(a)
}

// bytesEqual is the runtime's memequal (the race detector does not instrument
// it octet by octet, unlike a hand-written loop).
func bytesEqual(a, b []byte) bool { return bytes.Equal(a, b) }
