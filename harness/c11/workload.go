package main

import (
	"sort"

	"verif/mon"
)

// Boundary payload lengths of the 17-bit session length (both tiers, seed independent).
var boundaryLens = []int{127, 128, 255, 256, 257, 258, 300, 511, 513, 1000, 1460, 4096, 0x7FFF, 0x8000, 0xFF01,
	0xFFFE, 0xFFFF, 0x10000, 0x10001, 0x10002, 0x10100, 0x101FF, 0x18000, 0x1FEFF, 0x1FFFE, 0x1FFFF}

var oversizeLens = []int{0x20000, 0x20001, 0x2FFFF, 0x30000, 0x30001, 1 << 20}

func normCuts(cuts []int, total int) []int {
	sort.Ints(cuts)
	out := cuts[:0]
	prev := 0
	for _, c := range cuts {
		if c > prev && c < total {
			out = append(out, c)
			prev = c
		}
	}
	return out
}

type generator struct {
	r      *mon.Run
	emit   func(*Scenario)
	idx    int
	seed   uint64
	maxOps int
}

// limit: most writes/reads a scripted peer may need in one scenario. A system
// call per octet on a real socket costs far more than a net.Pipe hand-over.
func (g *generator) limit(peer string) int {
	if peer != "pipe" {
		return g.maxOps / 8
	}
	return g.maxOps
}

func (g *generator) add(sc Scenario) {
	// cost bound (a function of the tier only): a scripted peer that would need
	// more than maxOps writes/reads for one scenario is left to the thorough
	// tier, except the byte-wise delivery of the three lengths around 64 KiB.
	if sc.Chunk > 0 && sc.Class != "byte-wise/64k" {
		total, _ := streamLen(sc.Lens)
		if total/sc.Chunk > g.limit(sc.Peer) {
			return
		}
	}
	sc.Idx = g.idx
	g.idx++
	if sc.Fill == "" {
		sc.Fill = "rand"
	}
	if sc.PaySeed == 0 {
		sc.PaySeed = g.seed + uint64(sc.Idx)
	}
	if sc.Kind != "recv" {
		sc.Cut = -1
	}
	s := sc
	g.emit(&s)
}

func streamLen(lens []int) (total int, starts []int) {
	for _, n := range lens {
		starts = append(starts, total)
		total += 4 + n
	}
	return
}

// generate emits the deterministic boundary workload first, then the seeded
// remainder. Case counts depend on the tier only.
func generate(r *mon.Run, emit func(*Scenario)) int {
	g := &generator{r: r, emit: emit, seed: uint64(r.Seed)*1_000_003 + 17, maxOps: r.Pick(20000, 200000)}
	thorough := r.Thorough()
	for _, L := range []int{0xFFFF, 0x10000, 0x10001} { // one octet per write / per read across the 16-bit edge
		g.add(Scenario{Kind: "recv", Peer: "pipe", Class: "byte-wise/64k", Lens: []int{L}, Chunk: 1, Cut: -1})
		g.add(Scenario{Kind: "send", Peer: "pipe", Class: "byte-wise/64k", Lens: []int{L}, Chunk: 1})
	}

	// ---------- D1 recv: one frame, every segmentation class
	var d1 []int
	for n := 0; n <= 64; n++ {
		d1 = append(d1, n)
	}
	d1 = append(d1, boundaryLens...)
	for _, L := range d1 {
		total := L + 4
		lens := []int{L}
		type seg struct {
			class string
			chunk int
			cuts  []int
		}
		var segs []seg
		segs = append(segs, seg{"whole", 0, nil})
		for mask := 1; mask < 8; mask++ { // every subset of the 3 internal header points
			var c []int
			for b := 0; b < 3; b++ {
				if mask>>b&1 == 1 {
					c = append(c, b+1)
				}
			}
			segs = append(segs, seg{"header-split", 0, c})
		}
		segs = append(segs,
			seg{"header|payload", 0, []int{4}},
			seg{"header+1|rest", 0, []int{5}},
			seg{"header-bytes|payload", 0, []int{1, 2, 3, 4}},
			seg{"all-but-last|last", 0, []int{total - 1}},
			seg{"payload-middle", 0, []int{4 + L/2}},
			seg{"header-split+payload-middle", 0, []int{2, 4 + L/2, total - 1}},
		)
		for _, c := range []int{1, 2, 3, 5, 7, 1460, 4096, 65536} {
			if c < total {
				cl := "chunked"
				if c == 1 {
					cl = "byte-at-a-time"
				}
				segs = append(segs, seg{cl, c, nil})
			}
		}
		for _, s := range segs {
			cuts := normCuts(append([]int(nil), s.cuts...), total)
			if s.cuts != nil && len(cuts) == 0 {
				continue // degenerates to "whole" for this length
			}
			g.add(Scenario{Kind: "recv", Peer: "pipe", Class: s.class, Lens: lens, Chunk: s.chunk, Segs: cuts, Cut: -1})
			// real socket: the same script unsynchronised, with a yield and with a
			// pause between the writes; the whole-stream case also pre-buffered
			if s.chunk == 1 && L > 300 && !(thorough && L <= 4096) {
				continue
			}
			if s.chunk > 1 && s.chunk < 1460 && L > 4096 {
				continue
			}
			for _, gp := range []string{"", "yield", "sleep"} {
				if gp != "" && s.class == "whole" {
					continue
				}
				g.add(Scenario{Kind: "recv", Peer: "tcp4", Class: s.class, Lens: lens, Chunk: s.chunk, Segs: cuts, Gap: gp, Cut: -1})
			}
			if s.class == "whole" || s.class == "header|payload" {
				g.add(Scenario{Kind: "recv", Peer: "tcp4", Class: s.class + "/prebuffered", Lens: lens, Chunk: s.chunk, Segs: cuts, Prebuf: true, Cut: -1})
				g.add(Scenario{Kind: "recv", Peer: "tcp6", Class: s.class, Lens: lens, Chunk: s.chunk, Segs: cuts, Cut: -1})
			}
		}
		// payload contents that look like framing
		for _, fill := range []string{"zero", "ff", "hdr"} {
			g.add(Scenario{Kind: "recv", Peer: "pipe", Class: "fill-" + fill, Lens: lens, Fill: fill, Segs: normCuts([]int{3, 5}, total), Cut: -1})
		}
	}

	// ---------- D2 recv: sequences, frame boundaries against segment boundaries
	pairLens := []int{0, 1, 2, 5, 300, 0xFFFF, 0x10000, 0x10001, 0x1FFFF}
	var seqs [][]int
	for _, a := range pairLens {
		for _, b := range pairLens {
			seqs = append(seqs, []int{a, b})
		}
	}
	seqs = append(seqs,
		[]int{0, 0, 0, 0, 0, 0, 0, 0, 0, 0, 0, 0, 0, 0, 0, 0, 0, 0, 0, 0},
		[]int{0, 1, 0, 1, 0, 1, 0, 1, 0, 1, 0, 1, 0, 1, 0, 1, 0, 1, 0, 1},
		[]int{1, 2, 3, 4, 5, 6, 7, 8, 9, 10, 11, 12, 13, 14, 15, 16, 17, 18, 19, 20},
		[]int{300, 0, 255, 256, 1, 4096, 2, 1460, 3, 0, 0, 77, 258, 5, 0x101, 0x110, 9, 1000, 0, 4},
		[]int{0xFFFF, 0x10000, 0x1FFFF, 0, 1, 0x10001, 0xFFFE, 3},
		[]int{0x1FFFF, 0x1FFFF, 0x1FFFF},
		[]int{5, 0x10000, 7},
	)
	for _, lens := range seqs {
		total, starts := streamLen(lens)
		type seg struct {
			class string
			chunk int
			cuts  []int
		}
		var segs []seg
		segs = append(segs, seg{"seq/coalesced", 0, nil})
		segs = append(segs, seg{"seq/per-frame", 0, append([]int(nil), starts...)})
		for k := 1; k <= 3; k++ {
			var c []int
			for _, s := range starts[1:] {
				c = append(c, s+k)
			}
			segs = append(segs, seg{"seq/straddle-header", 0, c})
		}
		var c1, c2 []int
		for _, s := range starts[1:] {
			c1 = append(c1, s-1)
			c2 = append(c2, s-1, s+2, s+4)
		}
		segs = append(segs, seg{"seq/straddle-tail", 0, c1}, seg{"seq/straddle-mixed", 0, c2})
		for _, c := range []int{1, 3, 7, 1460} {
			segs = append(segs, seg{"seq/chunked", c, nil})
		}
		for _, s := range segs {
			cuts := normCuts(s.cuts, total)
			g.add(Scenario{Kind: "recv", Peer: "pipe", Class: s.class, Lens: lens, Chunk: s.chunk, Segs: cuts, Cut: -1})
			if s.chunk == 1 && total > 2000 {
				continue
			}
			g.add(Scenario{Kind: "recv", Peer: "tcp4", Class: s.class, Lens: lens, Chunk: s.chunk, Segs: cuts, Gap: "yield", Cut: -1})
			g.add(Scenario{Kind: "recv", Peer: "tcp4", Class: s.class, Lens: lens, Chunk: s.chunk, Segs: cuts, Gap: "sleep", Cut: -1})
		}
	}

	// ---------- D3 recv: the connection ends after every octet offset
	// exhaustive sub-domain: single frame, 0..300 payload octets, every offset 0..L+3, in-memory peer
	for L := 0; L <= 300; L++ {
		for c := 0; c < L+4; c++ {
			g.add(Scenario{Kind: "recv", Peer: "pipe", Class: "cut/exhaustive", Lens: []int{L}, Cut: c, CutHow: "close"})
		}
	}
	for L := 0; L <= 64; L++ { // a complete frame first, so a success precedes the failure
		for c := 0; c < L+4; c++ {
			g.add(Scenario{Kind: "recv", Peer: "pipe", Class: "cut/second-frame", Lens: []int{3, L}, Cut: 7 + c, CutHow: "close", Fill: "hdr"})
		}
	}
	for L := 0; L <= 32; L++ { // prefix delivered one octet per write
		for c := 1; c < L+4; c++ {
			g.add(Scenario{Kind: "recv", Peer: "pipe", Class: "cut/byte-at-a-time", Lens: []int{L}, Cut: c, CutHow: "close", Chunk: 1})
		}
	}
	tcpCutMax := r.Pick(40, 120)
	for L := 0; L <= tcpCutMax; L++ {
		for c := 0; c < L+4; c++ {
			g.add(Scenario{Kind: "recv", Peer: "tcp4", Class: "cut/fin", Lens: []int{L}, Cut: c, CutHow: "close"})
			if L <= 16 {
				g.add(Scenario{Kind: "recv", Peer: "tcp4", Class: "cut/fin-second-frame", Lens: []int{2, L}, Cut: 6 + c, CutHow: "close", Segs: []int{6}, Gap: "yield"})
				g.add(Scenario{Kind: "recv", Peer: "tcp4", Class: "cut/rst", Lens: []int{L}, Cut: c, CutHow: "reset"})
				g.add(Scenario{Kind: "recv", Peer: "tcp4", Class: "cut/fin-prebuffered", Lens: []int{L}, Cut: c, CutHow: "close", Prebuf: true})
			}
		}
	}
	for _, L := range []int{301, 1000, 4096, 0xFFFF, 0x10000, 0x10001, 0x10100, 0x1FFFE, 0x1FFFF} {
		for _, c := range []int{0, 1, 2, 3, 4, 5, 4 + L/2, L + 2, L + 3} {
			for _, fill := range []string{"rand", "hdr"} {
				g.add(Scenario{Kind: "recv", Peer: "pipe", Class: "cut/large", Lens: []int{L}, Cut: c, CutHow: "close", Fill: fill})
				g.add(Scenario{Kind: "recv", Peer: "pipe", Class: "cut/large-second-frame", Lens: []int{9, L}, Cut: 13 + c, CutHow: "close", Fill: fill, Segs: []int{13, 15}})
				g.add(Scenario{Kind: "recv", Peer: "tcp4", Class: "cut/large-fin", Lens: []int{L}, Cut: c, CutHow: "close", Fill: fill})
			}
			g.add(Scenario{Kind: "recv", Peer: "tcp4", Class: "cut/large-rst", Lens: []int{L}, Cut: c, CutHow: "reset"})
			g.add(Scenario{Kind: "recv", Peer: "tcp4", Class: "cut/large-fin-split", Lens: []int{L}, Cut: c, CutHow: "close", Segs: []int{2, 4, 4 + L/3}, Gap: "sleep"})
		}
	}

	// ---------- D4 send
	var sendLens []int
	for n := 0; n <= 300; n++ {
		sendLens = append(sendLens, n)
	}
	sendLens = append(sendLens, boundaryLens...)
	for _, L := range sendLens {
		for _, c := range []int{0, 1, 3, 4, 5, 1460} {
			cl := "send/read-chunk"
			if c == 0 {
				cl = "send/read-big"
			} else if c == 1 {
				cl = "send/read-byte-at-a-time"
			}
			g.add(Scenario{Kind: "send", Peer: "pipe", Class: cl, Lens: []int{L}, Chunk: c})
			if c == 0 || c == 4 || (c == 1 && L <= 300) {
				g.add(Scenario{Kind: "send", Peer: "tcp4", Class: cl, Lens: []int{L}, Chunk: c})
			}
		}
		if L%50 == 0 || L > 300 {
			g.add(Scenario{Kind: "send", Peer: "tcp6", Class: "send/read-big", Lens: []int{L}})
			g.add(Scenario{Kind: "send", Peer: "pipe", Class: "send/fill-zero", Lens: []int{L}, Fill: "zero", Segs: []int{1, 2, 3, 5, 8, 4096}})
			g.add(Scenario{Kind: "send", Peer: "pipe", Class: "send/fill-hdr", Lens: []int{L}, Fill: "hdr", Segs: []int{4, 1000}})
		}
	}
	for _, lens := range seqs {
		g.add(Scenario{Kind: "send", Peer: "pipe", Class: "send/seq", Lens: lens})
		g.add(Scenario{Kind: "send", Peer: "pipe", Class: "send/seq", Lens: lens, Segs: []int{1, 2, 3, 4, 5, 700, 70000}})
		g.add(Scenario{Kind: "send", Peer: "tcp4", Class: "send/seq", Lens: lens, Chunk: 4096, Gap: "yield"})
	}
	over := append([]int(nil), oversizeLens...)
	if thorough {
		over = append(over, 1<<24, 1<<24+5)
	}
	for _, X := range over {
		for _, lens := range [][]int{{X}, {5, X, 7}, {X, X, 0}, {0x1FFFF, X, 0x10000}} {
			g.add(Scenario{Kind: "send", Peer: "pipe", Class: "send/oversize", Lens: lens})
			g.add(Scenario{Kind: "send", Peer: "tcp4", Class: "send/oversize", Lens: lens})
			g.add(Scenario{Kind: "lib2lib", Peer: "pipe", Class: "lib2lib/oversize", Lens: lens})
		}
	}

	// ---------- D5 library on both ends; full duplex
	for _, lens := range seqs {
		g.add(Scenario{Kind: "lib2lib", Peer: "pipe", Class: "lib2lib/seq", Lens: lens})
		g.add(Scenario{Kind: "lib2lib", Peer: "tcp4", Class: "lib2lib/seq", Lens: lens})
		total, _ := streamLen(lens)
		for _, c := range []int{0, 1, 3, 1460} {
			if c > 0 && c < 1460 && total > 3000 {
				continue
			}
			g.add(Scenario{Kind: "duplex", Peer: "pipe", Class: "duplex/seq", Lens: lens, Chunk: c})
			g.add(Scenario{Kind: "duplex", Peer: "tcp4", Class: "duplex/seq", Lens: lens, Chunk: c, Gap: "yield"})
		}
	}
	for _, L := range sendLens {
		if L <= 300 && L%7 != 0 {
			continue
		}
		g.add(Scenario{Kind: "lib2lib", Peer: "pipe", Class: "lib2lib/single", Lens: []int{L}})
		g.add(Scenario{Kind: "lib2lib", Peer: "tcp4", Class: "lib2lib/single", Lens: []int{L}})
	}
	deterministic := g.idx

	// ---------- seeded remainder
	rng := r.Rand("scenarios")
	drawLen := func() int {
		switch x := rng.IntN(20); {
		case x < 11:
			return rng.IntN(301)
		case x < 15:
			return rng.IntN(5000)
		case x < 16:
			return rng.IntN(0x10000)
		case x < 18:
			return 0xFFF0 + rng.IntN(0x20)
		case x < 19:
			return 0x1FFE0 + rng.IntN(0x20)
		}
		return 0x10000 + rng.IntN(0x10000)
	}
	drawSeq := func(maxFrames int) []int {
		k := 1 + rng.IntN(maxFrames)
		lens := make([]int, k)
		budget := r.Pick(150000, 400000) // octets per random sequence
		for i := range lens {
			lens[i] = drawLen()
			if lens[i] > budget {
				lens[i] = rng.IntN(301)
			}
			budget -= lens[i]
		}
		return lens
	}
	drawPeer := func() string {
		switch rng.IntN(10) {
		case 0, 1, 2:
			return "tcp4"
		case 3:
			return "tcp6"
		}
		return "pipe"
	}
	drawFill := func() string {
		switch rng.IntN(8) {
		case 0:
			return "zero"
		case 1:
			return "hdr"
		case 2:
			return "ff"
		}
		return "rand"
	}
	drawCuts := func(total int) (int, []int) {
		switch rng.IntN(6) {
		case 0:
			return []int{2, 3, 5, 7, 11, 64, 1460, 4096}[rng.IntN(8)], nil
		case 1:
			if total <= 3000 {
				return 1, nil
			}
		}
		k := 1 + rng.IntN(12)
		if rng.IntN(4) == 0 {
			k = 1 + rng.IntN(200)
		}
		cuts := make([]int, 0, k)
		for i := 0; i < k; i++ {
			if rng.IntN(3) == 0 && total > 8 { // near the start: header region of the first frame
				cuts = append(cuts, 1+rng.IntN(8))
			} else if total > 1 {
				cuts = append(cuts, 1+rng.IntN(total-1))
			}
		}
		return 0, normCuts(cuts, total)
	}
	gaps := []string{"", "yield", "sleep"}
	nRecv := r.Pick(3000, 25000)
	for i := 0; i < nRecv; i++ {
		lens := drawSeq(20)
		total, starts := streamLen(lens)
		chunk, cuts := drawCuts(total)
		// bias some cuts onto the headers of later frames
		if chunk == 0 && len(starts) > 1 && rng.IntN(2) == 0 {
			for j := 0; j < 3; j++ {
				cuts = append(cuts, starts[1+rng.IntN(len(starts)-1)]+rng.IntN(5))
			}
			cuts = normCuts(cuts, total)
		}
		peer := drawPeer()
		if chunk > 0 && total/chunk > g.limit(peer)/4 {
			chunk = 1460
		}
		sc := Scenario{Kind: "recv", Peer: peer, Class: "random/recv", Lens: lens, Fill: drawFill(), Chunk: chunk, Segs: cuts, Gap: gaps[rng.IntN(3)], Cut: -1}
		if rng.IntN(3) == 0 {
			sc.Class = "random/recv-cut"
			sc.Cut = rng.IntN(total)
			if rng.IntN(3) == 0 { // inside or around a header
				sc.Cut = starts[rng.IntN(len(starts))] + rng.IntN(5)
				if sc.Cut >= total {
					sc.Cut = total - 1
				}
			}
			sc.CutHow = "close"
			if sc.Peer != "pipe" && rng.IntN(4) == 0 {
				sc.CutHow = "reset"
			}
		}
		if sc.Peer != "pipe" && total < 30000 && rng.IntN(4) == 0 {
			sc.Prebuf = true
		}
		g.add(sc)
	}
	nSend := r.Pick(1500, 12000)
	for i := 0; i < nSend; i++ {
		lens := drawSeq(20)
		if rng.IntN(25) == 0 { // an oversize payload somewhere in the sequence
			lens[rng.IntN(len(lens))] = 0x20000 + rng.IntN(0x30000)
		}
		sc := Scenario{Kind: "send", Peer: drawPeer(), Class: "random/send", Lens: lens, Fill: drawFill()}
		switch rng.IntN(4) {
		case 0:
		case 1:
			sc.Chunk = []int{2, 3, 4, 5, 7, 64, 1460, 4096}[rng.IntN(8)]
			total, _ := streamLen(lens)
			if total <= 3000 && rng.IntN(3) == 0 {
				sc.Chunk = 1
			}
			if total/sc.Chunk > g.limit(sc.Peer)/4 {
				sc.Chunk = 1460
			}
		default:
			k := 1 + rng.IntN(6)
			for j := 0; j < k; j++ {
				sc.Segs = append(sc.Segs, []int{1, 2, 3, 4, 5, 1 + rng.IntN(300), 1 + rng.IntN(70000)}[rng.IntN(7)])
			}
			if total, _ := streamLen(lens); total > 20000 {
				sc.Segs = append(sc.Segs, 4096+rng.IntN(100000))
			}
		}
		g.add(sc)
	}
	nMix := r.Pick(600, 5000)
	for i := 0; i < nMix; i++ {
		lens := drawSeq(12)
		kind := "duplex"
		if rng.IntN(2) == 0 {
			kind = "lib2lib"
		}
		total, _ := streamLen(lens)
		chunk := []int{0, 0, 3, 7, 1460, 4096}[rng.IntN(6)]
		if chunk > 0 && chunk < 1000 && total > 20000 {
			chunk = 1460
		}
		g.add(Scenario{Kind: kind, Peer: drawPeer(), Class: "random/" + kind, Lens: lens, Fill: drawFill(), Chunk: chunk, Gap: gaps[rng.IntN(3)]})
	}
	return deterministic
}
