// C11: the NBT session transport preserves message boundaries and never
// yields a partial or fabricated frame.
//
// Process model: the parent owns the verdict (mon.Run). It re-executes this
// binary as a worker (C11_WORKER=1) under
// GORACE="halt_on_error=0 log_path=$VERIF_WORK/race"; the worker runs the
// scripted-peer workload against the library and writes one JSON result; the
// parent ingests it, parses the race detector's log files and finishes.
package main

import (
	"encoding/json"
	"fmt"
	"os"
	"os/exec"
	"path/filepath"
	"regexp"
	"runtime"
	"sort"
	"strconv"
	"strings"
	"sync"
	"syscall"
	"time"

	"verif/mon"
)

const rule = "Scripted peers (net.Pipe through the verif constructor; loopback TCP through transport.NewTransport(\"nbt\").Connect) against an independent RFC 1002 4.3.1 framer. " +
	"Deterministic part: single frames of 0..64 and 26 boundary lengths up to 0x1FFFF under every segmentation class (whole, byte-at-a-time, every subset of the 3 header-internal points, header|payload, header+1, all-but-last, payload middle, fixed chunks); " +
	"frame sequences (all pairs of 9 boundary lengths, 20-frame sequences) with per-frame, coalesced and straddling writes; the connection ended after every octet offset of every single-frame stream with 0..300 payload octets on the in-memory peer " +
	"(this sub-domain is enumerated completely: exhaustive=true refers to it only), after a preceding complete frame, byte-wise, over TCP with FIN and RST, and at header offsets/middle/last-octet-missing for large frames; " +
	"Send of every length 0..300 and the boundary lengths against readers of several read sizes, sequences, oversize payloads (0x20000.. 1 MiB) alone and between valid ones; library on both ends; full duplex with an echo peer. " +
	"Then a seeded remainder of random sequences (1..20 frames), segmentations, gaps, peers and cut points. " +
	"Non-trivial (counted once per distinct scenario description): a Receive scenario in which a write boundary or the end of the stream falls strictly inside a frame, or which has >=2 frames or a frame needing the extension bit; every Send, lib2lib and duplex scenario."

func main() {
	if os.Getenv("C11_WORKER") == "1" {
		worker()
		return
	}
	parent()
}

// ------------------------------------------------------------------ parent

func parent() {
	r := mon.Start("C11", "fault_enumeration")
	r.Rule(rule)
	r.Assume(
		"the peer's view is the octets it reads from its end of the connection (net.Pipe end, or the accepted loopback TCP socket)",
		"a Receive that must fail is decided by the peer ending the connection; the per-scenario watchdog (120 s) only ever yields inconclusive",
		"RST cuts: the kernel may discard delivered-but-unread octets, so complete frames before a reset may be reported as errors; what is returned must still be a prefix of the complete frames",
		"the value n returned by Send is not judged (recorded only)",
		"session packet types other than SESSION MESSAGE (keep-alive etc.), reserved flag bits set by the peer, and concurrent Send calls on one transport are outside the statement and are not generated",
		"race reports are attributed to the library only if a Manticore frame is on one of the two access stacks; a report with none is a harness defect and makes the run inconclusive",
	)
	work := os.Getenv("VERIF_WORK")
	if work == "" {
		d, err := os.MkdirTemp("", "c11-work-")
		if err != nil {
			r.Inconclusive("no work directory: " + err.Error())
			r.Finish()
		}
		defer os.RemoveAll(d)
		work = d
	}
	bin := os.Getenv("VERIF_BIN")
	if bin == "" {
		bin = os.Args[0]
	}
	resPath := filepath.Join(work, "c11-result.json")
	os.Remove(resPath)
	cmd := exec.Command(bin)
	cmd.Stdout, cmd.Stderr = os.Stdout, os.Stderr
	env := []string{}
	for _, kv := range os.Environ() {
		if strings.HasPrefix(kv, "GORACE=") || strings.HasPrefix(kv, "VERIF_SEED=") || strings.HasPrefix(kv, "VERIF_TIER=") {
			continue
		}
		env = append(env, kv)
	}
	raceBase := filepath.Join(work, "race")
	env = append(env, "C11_WORKER=1", "C11_RESULT="+resPath,
		"GORACE=halt_on_error=0 exitcode=0 log_path="+raceBase,
		fmt.Sprintf("VERIF_SEED=%d", r.Seed), "VERIF_TIER="+r.Tier)
	cmd.Env = env
	limit := time.Duration(r.Pick(20, 100)) * time.Minute
	if err := cmd.Start(); err != nil {
		r.Inconclusive("cannot start worker: " + err.Error())
		r.Finish()
	}
	waitErr := make(chan error, 1)
	go func() { waitErr <- cmd.Wait() }()
	var werr error
	select {
	case werr = <-waitErr:
	case <-time.After(limit):
		cmd.Process.Signal(syscall.SIGQUIT)
		select {
		case werr = <-waitErr:
		case <-time.After(20 * time.Second):
			cmd.Process.Kill()
			werr = <-waitErr
		}
		r.Inconclusive(fmt.Sprintf("worker exceeded the harness limit of %s (goroutine dump on stderr)", limit))
	}
	b, rerr := os.ReadFile(resPath)
	if rerr != nil {
		// The worker died without a result: leave no verdict file so that the
		// check script's crash catch-all inspects stderr (a fatal error with a
		// Manticore frame is a violation, anything else inconclusive).
		fmt.Fprintf(os.Stderr, "C11 worker ended without a result (%v)\n", werr)
		os.Exit(3)
	}
	var res recorder
	if err := json.Unmarshal(b, &res); err != nil {
		r.Inconclusive("worker result unreadable: " + err.Error())
		r.Finish()
	}
	r.Eval(int(res.Evals))
	for k, v := range res.Counts {
		r.Count(k, int(v))
	}
	for _, fp := range res.Nontriv {
		r.Nontrivial(fp)
	}
	for _, s := range res.Samples {
		r.Sample(s)
	}
	sort.Slice(res.Viol, func(i, j int) bool { return res.Viol[i].Key < res.Viol[j].Key })
	for _, v := range res.Viol {
		n := v.Count
		if n > 100000 {
			n = 100000
		}
		for i := 0; i < n; i++ {
			r.Violation(v.Key, v.What, v.Case)
		}
	}
	for _, s := range res.Inconcl {
		r.Inconclusive(s)
	}
	if !res.Complete {
		r.Inconclusive("worker stopped before the workload was complete")
	}
	if werr != nil && res.Complete {
		r.Inconclusive("worker exited abnormally after writing its result: " + werr.Error())
	}
	r.SetExhaustive(res.Counts["cut_exhaustive_scenarios"] == 46354) // sum_{L=0..300} (L+4) = 46354, all of them judged

	// ---- race detector reports
	files, _ := filepath.Glob(raceBase + ".*")
	reports, lib, foreign := 0, 0, 0
	for _, f := range files {
		txt, err := os.ReadFile(f)
		if err != nil {
			continue
		}
		for _, blk := range raceBlocks(string(txt)) {
			reports++
			key, stacks := raceKey(blk)
			if key == "" {
				foreign++
				if foreign <= 3 {
					r.Inconclusive("race report without a Manticore frame on an access stack (harness defect): " + firstLines(blk, 14))
				}
				continue
			}
			lib++
			r.Violation("race:"+key, "data race reported by the Go race detector between "+strings.ReplaceAll(key, "|", " and "), map[string]any{"access_stacks": stacks, "report": blk})
		}
	}
	r.Extra("race_reports", reports)
	r.Extra("race_reports_in_library", lib)
	r.Extra("race_log_files", len(files))
	r.Finish()
}

// raceBlocks splits a race log into "WARNING: DATA RACE" reports.
func raceBlocks(txt string) []string {
	var out []string
	for _, part := range strings.Split(txt, "==================") {
		if strings.Contains(part, "WARNING: DATA RACE") {
			out = append(out, strings.TrimSpace(part))
		}
	}
	return out
}

var raceAccessRe = regexp.MustCompile(`^(Read|Write|Previous read|Previous write|Atomic read|Atomic write|Previous atomic read|Previous atomic write) at `)
var raceFuncRe = regexp.MustCompile(`^\s+(github\.com/TheManticoreProject/Manticore/\S+)\(\)\s*$`)

// raceKey returns the pair of outermost Manticore frames of the two access
// stacks (sorted, module prefix stripped); "" if neither stack has one.
func raceKey(blk string) (string, []string) {
	var outer []string
	var stacks []string
	for _, sec := range strings.Split(blk, "\n\n") {
		lines := strings.Split(strings.TrimLeft(sec, "\n"), "\n")
		// the first section starts with the WARNING line
		for len(lines) > 0 && !raceAccessRe.MatchString(lines[0]) {
			if strings.HasPrefix(lines[0], "WARNING: DATA RACE") {
				lines = lines[1:]
				continue
			}
			break
		}
		if len(lines) == 0 || !raceAccessRe.MatchString(lines[0]) {
			continue
		}
		stacks = append(stacks, strings.Join(lines, "\n"))
		last := ""
		for _, ln := range lines[1:] {
			if m := raceFuncRe.FindStringSubmatch(ln); m != nil {
				last = strings.TrimPrefix(m[1], "github.com/TheManticoreProject/Manticore/")
			}
		}
		if last == "" {
			last = "-"
		}
		outer = append(outer, last)
	}
	has := false
	for _, o := range outer {
		if o != "-" {
			has = true
		}
	}
	if !has {
		return "", stacks
	}
	sort.Strings(outer)
	return strings.Join(outer, "|"), stacks
}

func firstLines(s string, n int) string {
	l := strings.Split(s, "\n")
	if len(l) > n {
		l = l[:n]
	}
	return strings.Join(l, " / ")
}

// ------------------------------------------------------------------ worker

func worker() {
	resPath := os.Getenv("C11_RESULT")
	rec := newRecorder()
	// mon.Run is used here for the seeded PRNG streams and the tier only; the
	// worker never reports through it.
	r := mon.Start("C11", "fault_enumeration")

	var abortOnce sync.Once
	abort := func(why string) {
		abortOnce.Do(func() {
			rec.Inconclusive("worker aborted: " + why)
			rec.write(resPath, false)
			os.Exit(0)
		})
	}

	if p := os.Getenv("VERIF_REPLAY"); p != "" {
		if sc := replayScenario(p); sc != nil {
			e := newEnv(rec, abort)
			e.run(sc)
			rec.Count("replayed_single_scenario", 1)
			rec.write(resPath, true)
			return
		}
	}

	workers := runtime.GOMAXPROCS(0)
	if workers > 16 {
		workers = 16
	}
	if workers < 4 {
		workers = 4
	}
	if v, err := strconv.Atoi(os.Getenv("C11_WORKERS")); err == nil && v > 0 {
		workers = v
	}
	ch := make(chan *Scenario, 256)
	var wg sync.WaitGroup
	for w := 0; w < workers; w++ {
		wg.Add(1)
		go func() {
			defer wg.Done()
			e := newEnv(rec, abort)
			defer e.close()
			for sc := range ch {
				e.run(sc)
			}
		}()
	}
	// the fixed workloads first, and what has been recorded so far is written out as the run goes
	// on: if later scenarios stop finishing and the worker has to be stopped, what was observed
	// until then still reaches the verdict
	extraWorkloads(r, rec)
	rec.write(resPath, false)
	stopFlush := make(chan struct{})
	go func() {
		for {
			select {
			case <-stopFlush:
				return
			case <-time.After(20 * time.Second):
				rec.write(resPath, false)
			}
		}
	}()
	total := 0
	det := generate(r, func(sc *Scenario) { total++; ch <- sc })
	close(ch)
	wg.Wait()
	close(stopFlush)
	rec.Count("scenarios_total", int64(total))
	rec.Count("scenarios_deterministic", int64(det))
	rec.write(resPath, true)
}

func newEnv(rec *recorder, abort func(string)) *env {
	e := &env{rec: rec, watchdog: 120 * time.Second, abort: abort}
	e.ln4 = newListener("tcp4", "127.0.0.1:0")
	e.ln6 = newListener("tcp6", "[::1]:0")
	if e.ln4 == nil {
		rec.Inconclusive("cannot listen on 127.0.0.1")
	}
	return e
}

func (e *env) close() {
	if e.ln4 != nil {
		e.ln4.Close()
	}
	if e.ln6 != nil {
		e.ln6.Close()
	}
}

// replayScenario extracts the scenario stored in a replay file, if any.
func replayScenario(path string) *Scenario {
	b, err := os.ReadFile(path)
	if err != nil {
		return nil
	}
	var rp struct {
		Case struct {
			Scenario *Scenario `json:"scenario"`
		} `json:"case"`
	}
	if json.Unmarshal(b, &rp) != nil || rp.Case.Scenario == nil || rp.Case.Scenario.Kind == "" {
		return nil
	}
	return rp.Case.Scenario
}
