package main

import (
	"bytes"
	"crypto/sha256"
	"encoding/binary"
	"encoding/hex"
	"errors"
	"fmt"
	"io"
	"math/rand/v2"
	"net"
	"os"
	"runtime"
	"sync"
	"sync/atomic"
	"time"

	"github.com/TheManticoreProject/Manticore/network/netbios/nbt"
	"github.com/TheManticoreProject/Manticore/network/smb/smb_v10/transport"

	"verif/mon"
)

// Scenario is one scripted execution; it is pure data so that the replay file
// of a violation is enough to run it again.
type Scenario struct {
	Idx     int    `json:"idx"`
	Kind    string `json:"kind"`  // recv | send | lib2lib | duplex
	Peer    string `json:"peer"`  // pipe | tcp4 | tcp6
	Class   string `json:"class"` // label of the workload class (evidence only)
	Lens    []int  `json:"lens"`  // payload lengths, in order
	Fill    string `json:"fill"`  // rand | zero | ff | hdr
	PaySeed uint64 `json:"pay_seed"`
	// recv: how the scripted peer cuts its octet stream into writes.
	// send: the sizes of the scripted peer's reads (Segs used cyclically).
	Chunk int    `json:"chunk,omitempty"` // fixed size; 0 = Segs, or whole / 256 KiB if Segs is empty
	Segs  []int  `json:"segs,omitempty"`  // recv: ascending stream offsets at which a new write starts
	Gap   string `json:"gap,omitempty"`   // between the peer's writes: "" | yield | sleep
	// recv: the peer ends the connection after this many octets of the stream (-1: after all of it).
	Cut    int    `json:"cut"`
	CutHow string `json:"cut_how,omitempty"` // close (pipe close / TCP FIN) | reset (TCP RST)
	Prebuf bool   `json:"prebuf,omitempty"`  // tcp recv: first Receive is called after the peer has finished writing
}

func (sc *Scenario) fingerprint() string {
	s := fmt.Sprintf("%s|%s|%v|%s|%d|%v|%s|%d|%s|%v", sc.Kind, sc.Peer, sc.Lens, sc.Fill, sc.Chunk, sc.Segs, sc.Gap, sc.Cut, sc.CutHow, sc.Prebuf)
	h := sha256.Sum256([]byte(s))
	return hex.EncodeToString(h[:8])
}

func lenClass(n int) string {
	switch {
	case n > refMaxPayload:
		return "oversize"
	case n > 0xFFFF:
		return "ext"
	}
	return "le64k"
}

var randTable = func() []byte {
	t := make([]byte, 1<<20+4099)
	g := rand.NewPCG(0xC11, 0x1002)
	for j := 0; j+8 <= len(t); j += 8 {
		binary.LittleEndian.PutUint64(t[j:], g.Uint64())
	}
	return t
}()

var ffTile = bytes.Repeat([]byte{0xFF}, 4096)
var hdrTile = bytes.Repeat([]byte{0x00, 0x00, 0x00, 0x02, 0x41, 0x42, 0x00, 0x01, 0x00, 0x00}, 400)

// mkPayload is a deterministic function of (seed, index, length, fill).
func mkPayload(seed uint64, i, n int, fill string) []byte {
	b := make([]byte, n)
	tile := func(pat []byte) {
		for j := 0; j < n; {
			j += copy(b[j:], pat)
		}
	}
	switch fill {
	case "zero":
	case "ff":
		tile(ffTile)
	case "hdr":
		// looks like a run of well-formed little session messages, so that a
		// receiver that lost frame synchronisation fabricates messages instead
		// of stumbling over an unknown TYPE
		tile(hdrTile)
	default:
		// a window of a fixed pseudo-random table; the offset depends on
		// (seed, index, length), the table does not (copying is what keeps
		// megabytes of payload cheap under the race detector)
		h := seed*0x9E3779B97F4A7C15 ^ uint64(i)*0xC2B2AE3D27D4EB4F ^ uint64(n)*0x165667B19E3779F9
		h ^= h >> 29
		off := int(h % uint64(len(randTable)-1))
		for j := 0; j < n; {
			j += copy(b[j:], randTable[off:])
			off = 0
		}
	}
	return b
}

func (sc *Scenario) payloads() [][]byte {
	ps := make([][]byte, len(sc.Lens))
	for i, n := range sc.Lens {
		ps[i] = mkPayload(sc.PaySeed, i, n, sc.Fill)
	}
	return ps
}

// xport is the part of the library's transport the monitor drives.
type xport interface {
	Send(data []byte) (int, error)
	Receive() ([]byte, error)
	Close() error
}

// obsConn counts the library's Read/Write calls on the in-memory path
// (evidence: how often a Read came back short, i.e. the reader really was
// served a partial header or payload).
type obsStats struct{ reads, short, writes atomic.Int64 }

type obsConn struct {
	net.Conn
	st *obsStats
}

func (o *obsConn) Read(b []byte) (int, error) {
	n, err := o.Conn.Read(b)
	o.st.reads.Add(1)
	if n < len(b) {
		o.st.short.Add(1)
	}
	return n, err
}

func (o *obsConn) Write(b []byte) (int, error) {
	o.st.writes.Add(1)
	return o.Conn.Write(b)
}

// env is per worker goroutine.
type env struct {
	rec      *recorder
	ln4, ln6 *net.TCPListener
	watchdog time.Duration
	abort    func(string)
}

type runState struct {
	mu      sync.Mutex
	closers []io.Closer
	aborted bool
}

func (s *runState) add(c io.Closer) {
	s.mu.Lock()
	s.closers = append(s.closers, c)
	s.mu.Unlock()
}

func (s *runState) closeAll() {
	s.mu.Lock()
	s.aborted = true
	cs := append([]io.Closer(nil), s.closers...)
	s.mu.Unlock()
	for _, c := range cs {
		c.Close()
	}
}

func (s *runState) isAborted() bool {
	s.mu.Lock()
	defer s.mu.Unlock()
	return s.aborted
}

var errSkip = errors.New("peer kind unavailable")

func newListener(network, addr string) *net.TCPListener {
	a, err := net.ResolveTCPAddr(network, addr)
	if err != nil {
		return nil
	}
	ln, err := net.ListenTCP(network, a)
	if err != nil {
		return nil
	}
	return ln
}

// connect builds one library transport and the scripted peer's end of the
// connection. pipe: through the verif-tagged constructor. tcp: through the
// production path (transport.NewTransport("nbt") + Connect) to a loopback
// listener owned by this worker, so Accept returns exactly that connection.
func (e *env) connect(sc *Scenario, st *runState) (t xport, peer net.Conn, obs *obsStats, err error) {
	switch sc.Peer {
	case "pipe":
		c1, c2 := net.Pipe()
		obs = &obsStats{}
		t = nbt.NewNBTTransportFromConn(&obsConn{Conn: c1, st: obs})
		st.add(c1)
		st.add(c2)
		return t, c2, obs, nil
	case "tcp4", "tcp6":
		ln, ip := e.ln4, net.IPv4(127, 0, 0, 1)
		if sc.Peer == "tcp6" {
			ln, ip = e.ln6, net.ParseIP("::1")
		}
		if ln == nil {
			return nil, nil, nil, errSkip
		}
		tr := transport.NewTransport("nbt")
		if tr == nil {
			return nil, nil, nil, fmt.Errorf("transport.NewTransport(\"nbt\") returned nil")
		}
		var cerr error
		p, v, stack := mon.Guard(func() { cerr = tr.Connect(ip, ln.Addr().(*net.TCPAddr).Port) })
		if p {
			e.rec.Violation(sc.Idx, "Connect:panic:"+mon.PanicClass(v), fmt.Sprintf("panic %v at %s", v, mon.TopLibFrame(stack)), sc)
			return nil, nil, nil, fmt.Errorf("Connect panicked")
		}
		if cerr != nil {
			return nil, nil, nil, fmt.Errorf("Connect to own loopback listener failed: %v", cerr)
		}
		st.add(tr)
		ln.SetDeadline(time.Now().Add(30 * time.Second))
		c, aerr := ln.AcceptTCP()
		if aerr != nil {
			tr.Close()
			return nil, nil, nil, fmt.Errorf("accept: %v", aerr)
		}
		st.add(c)
		return tr, c, nil, nil
	}
	return nil, nil, nil, fmt.Errorf("unknown peer kind %q", sc.Peer)
}

var profile = os.Getenv("C11_PROFILE") != ""

var unfinished atomic.Int64

func (e *env) run(sc *Scenario) {
	if profile { // development aid: where the wall time goes, per class
		t0 := time.Now()
		defer func() { e.rec.Count("us_"+sc.Kind+"_"+sc.Peer+"_"+sc.Class, time.Since(t0).Microseconds()) }()
	}
	st := &runState{}
	done := make(chan struct{})
	go func() {
		defer close(done)
		switch sc.Kind {
		case "recv":
			e.runRecv(sc, st)
		case "send":
			e.runSend(sc, st)
		case "lib2lib":
			e.runLib2Lib(sc, st)
		case "duplex":
			e.runDuplex(sc, st)
		default:
			e.rec.Inconclusive("unknown scenario kind " + sc.Kind)
		}
	}()
	// the watchdog period in 24 separate waits (see mon.AfterSteps: a clock jump ends one wait,
	// not the whole period); inline, because this runs once per scenario and must leave nothing behind
	finished := false
	for i := 0; i < 24 && !finished; i++ {
		t := time.NewTimer(e.watchdog / 24)
		select {
		case <-done:
			finished = true
		case <-t.C:
		}
		t.Stop()
	}
	if finished {
		return
	}
	// A timer also fires when the clock has jumped (the machine was paused, a snapshot was taken):
	// a scenario that then finishes at once was not stuck. Only one that is still not done after a
	// further grace period is treated as unfinished.
	select {
	case <-done:
		e.rec.Count("scenarios_finished_right_after_their_watchdog_fired", 1)
		return
	case <-time.After(30 * time.Second):
	}
	// The watchdog is not a verdict: a scenario that does not finish is
	// reported as inconclusive with its description.
	if fns, stacks := mon.LibLockWaiters("Manticore/network/netbios/nbt."); len(fns) > 0 {
		// not a matter of speed: a call of the transport has been parked on a lock inside the
		// library for the whole watchdog period while its peer was ready — the payload it
		// carries is never delivered. The stack is the witness.
		e.rec.Violation(sc.Idx, "transport:blocked-on-library-lock:"+fns[0], fmt.Sprintf("%s has waited on a lock inside the library for %s while the peer side was being served (scenario %s/%s)", fns[0], e.watchdog, sc.Kind, sc.Peer), map[string]any{"scenario": sc, "stack": stacks[0]})
	} else {
		e.rec.Inconclusive(fmt.Sprintf("watchdog (%s): scenario did not finish: %+v", e.watchdog, *sc))
		if unfinished.Add(1) >= 4 {
			e.abort("four scenarios did not finish within their watchdog: the rest of the generated workload is not run")
		}
	}
	go st.closeAll() // Close itself may be parked on the same lock
	select {
	case <-done:
	case <-time.After(30 * time.Second):
		e.abort(fmt.Sprintf("scenario %d did not unwind after its connections were closed", sc.Idx))
	}
}

func (e *env) setupProblem(sc *Scenario, err error) {
	if errors.Is(err, errSkip) {
		e.rec.Count("skipped_"+sc.Peer+"_unavailable", 1)
		return
	}
	e.rec.Inconclusive(fmt.Sprintf("scenario %d (%s/%s): %v", sc.Idx, sc.Kind, sc.Peer, err))
}

type callResult struct {
	data  []byte
	err   error
	n     int
	panic string
}

func (e *env) guardedReceive(sc *Scenario, t xport) callResult {
	var res callResult
	p, v, stack := mon.Guard(func() { res.data, res.err = t.Receive() })
	if p {
		res.panic = fmt.Sprintf("panic %v at %s", v, mon.TopLibFrame(stack))
		res.err = fmt.Errorf("panic")
		e.rec.Violation(sc.Idx, "Receive:panic:"+mon.PanicClass(v), res.panic, sc)
	}
	return res
}

func (e *env) guardedSend(sc *Scenario, t xport, p []byte) callResult {
	var res callResult
	pn, v, stack := mon.Guard(func() { res.n, res.err = t.Send(p) })
	if pn {
		res.panic = fmt.Sprintf("panic %v at %s", v, mon.TopLibFrame(stack))
		res.err = fmt.Errorf("panic")
		e.rec.Violation(sc.Idx, "Send:panic:"+mon.PanicClass(v), res.panic, sc)
	}
	return res
}

func gap(mode string, i int) {
	switch mode {
	case "yield":
		runtime.Gosched()
	case "sleep":
		// schedule perturbation only (lets the reader block inside a frame);
		// never part of a verdict. Bounded so byte-wise scripts stay short.
		if i < 6 {
			time.Sleep(150 * time.Microsecond)
		} else {
			runtime.Gosched()
		}
	}
}

func describeErr(err error) string {
	if err == nil {
		return "nil"
	}
	return err.Error()
}

func cmpHow(got, want []byte) string {
	switch {
	case len(got) < len(want) && bytesEqual(got, want[:len(got)]):
		return "truncated"
	case len(got) > len(want) && bytesEqual(got[:len(want)], want):
		return "extended"
	case len(got) != len(want):
		return "length"
	}
	return "content"
}

func short(b []byte) string {
	if len(b) > 24 {
		return fmt.Sprintf("%x…(%d octets)", b[:24], len(b))
	}
	return fmt.Sprintf("%x", b)
}

// ---------------------------------------------------------------- recv

func (e *env) runRecv(sc *Scenario, st *runState) {
	ps := sc.payloads()
	total, starts := streamLen(sc.Lens)
	stream := make([]byte, 0, total)
	for _, p := range ps {
		h, ok := refEncodeHeader(len(p))
		if !ok {
			e.rec.Inconclusive(fmt.Sprintf("generator produced an unframeable payload for a recv scenario (%d)", len(p)))
			return
		}
		stream = append(append(stream, h[:]...), p...)
	}
	end := len(stream)
	if sc.Cut >= 0 && sc.Cut < end {
		end = sc.Cut
	}
	m := 0 // frames completely delivered before the stream ends
	for i := range ps {
		if starts[i]+4+len(ps[i]) <= end {
			m++
		}
	}
	t, peer, obs, err := e.connect(sc, st)
	if err != nil {
		e.setupProblem(sc, err)
		return
	}
	peerDone := make(chan struct{})
	var peerErr error
	var segCount int
	go func() {
		defer close(peerDone)
		pos, si := 0, 0
		write := func(to int) bool {
			if to > end {
				to = end
			}
			if to <= pos {
				return true
			}
			if _, err := peer.Write(stream[pos:to]); err != nil {
				peerErr = err
				return false
			}
			pos = to
			segCount++
			if pos < end {
				gap(sc.Gap, si)
			}
			si++
			return true
		}
		ok := true
		switch {
		case sc.Chunk > 0:
			for ok && pos < end {
				ok = write(pos + sc.Chunk)
			}
		default:
			for _, c := range sc.Segs {
				if !ok || c >= end {
					break
				}
				ok = write(c)
			}
			if ok {
				write(end)
			}
		}
		if sc.CutHow == "reset" {
			if tc, isTCP := peer.(*net.TCPConn); isTCP {
				tc.SetLinger(0)
			}
		}
		peer.Close()
	}()
	if sc.Prebuf && sc.Peer != "pipe" {
		// "everything already buffered": start reading when the peer is done.
		// The bound only protects against a stream larger than the socket
		// buffers; it selects a schedule, it decides nothing.
		select {
		case <-peerDone:
		case <-time.After(300 * time.Millisecond):
		}
	}
	var results []callResult
	errs := 0
	for i := 0; i < len(ps)+2 && errs < 2; i++ {
		res := e.guardedReceive(sc, t)
		results = append(results, res)
		if res.err != nil {
			errs++
		}
	}
	t.Close()
	<-peerDone
	if st.isAborted() {
		return
	}
	e.rec.Eval(len(results))
	if obs != nil {
		e.rec.Count("pipe_lib_reads", obs.reads.Load())
		e.rec.Count("pipe_lib_short_reads", obs.short.Load())
	}
	e.rec.Count("peer_writes", int64(segCount))
	e.rec.Count("scenarios_recv_"+sc.Peer, 1)
	if sc.Class == "cut/exhaustive" {
		e.rec.Count("cut_exhaustive_scenarios", 1)
	}

	// ---- oracle
	region := func(i int) string { // where the stream ends relative to frame i
		if i >= len(ps) {
			return "boundary"
		}
		off := end - starts[i]
		switch {
		case off <= 0:
			return "boundary"
		case off < 4:
			return "header"
		}
		return "payload"
	}
	lc := func(i int) string {
		if i >= len(ps) {
			return "none"
		}
		return lenClass(len(ps[i]))
	}
	cs := func(i int, exp string) any {
		obsd := []string{}
		for _, r := range results {
			obsd = append(obsd, fmt.Sprintf("(%s, %s)", short(r.data), describeErr(r.err)))
		}
		return map[string]any{"scenario": sc, "stream_octets": len(stream), "stream_ends_after": end, "complete_frames": m,
			"call_index": i, "expected": exp, "observed_calls": obsd, "peer_write_error": describeErr(peerErr)}
	}
	reset := sc.CutHow == "reset" && sc.Peer != "pipe"
	failed := -1
	for i, res := range results {
		if res.panic != "" {
			break // already reported by the guard
		}
		if failed < 0 {
			if res.err == nil {
				if i >= m {
					e.rec.Violation(sc.Idx, fmt.Sprintf("Receive:cut:%s:no-error:%s", region(i), lc(i)),
						fmt.Sprintf("stream of %v-octet payloads ended after %d of %d octets (inside frame %d, %s); Receive call %d returned (%s, nil) instead of an error",
							sc.Lens, end, len(stream), i, region(i), i, short(res.data)), cs(i, "error, no data"))
					break
				}
				if !bytesEqual(res.data, ps[i]) {
					how := cmpHow(res.data, ps[i])
					e.rec.Violation(sc.Idx, fmt.Sprintf("Receive:value:%s:%s", lc(i), how),
						fmt.Sprintf("frame %d carries %d (0x%x) octets; Receive returned %d octets (%s), class %s, peer=%s", i, len(ps[i]), len(ps[i]), len(res.data), short(res.data), sc.Class, sc.Peer),
						cs(i, fmt.Sprintf("payload of %d octets", len(ps[i]))))
					break
				}
				continue
			}
			// first error
			failed = i
			if i < m && !reset {
				e.rec.Violation(sc.Idx, fmt.Sprintf("Receive:error-on-complete-frame:%s", lc(i)),
					fmt.Sprintf("frame %d (%d octets) was delivered completely, Receive returned error %q", i, len(ps[i]), describeErr(res.err)), cs(i, "payload"))
				break
			}
			if len(res.data) != 0 {
				e.rec.Violation(sc.Idx, fmt.Sprintf("Receive:cut:%s:data-with-error:%s", region(i), lc(i)),
					fmt.Sprintf("stream ended %s of frame %d; Receive returned %d octets (%s) together with error %q", region(i), i, len(res.data), short(res.data), describeErr(res.err)), cs(i, "error, no data"))
				break
			}
			continue
		}
		// the call after a failed one: the stream is over, nothing may appear
		if res.err == nil {
			e.rec.Violation(sc.Idx, "Receive:after-error:fabricated",
				fmt.Sprintf("after Receive had failed on the ended stream, the next Receive returned (%s, nil)", short(res.data)), cs(i, "error"))
			break
		}
		if len(res.data) != 0 {
			e.rec.Violation(sc.Idx, "Receive:after-error:data-with-error", fmt.Sprintf("second failing Receive returned %d octets with its error", len(res.data)), cs(i, "error, no data"))
			break
		}
	}

	// ---- evidence
	inside := len(ps) >= 2
	for _, n := range sc.Lens {
		if n > 0xFFFF {
			inside = true
		}
	}
	if sc.Chunk > 0 && sc.Chunk < end {
		inside = true
	}
	for _, c := range sc.Segs {
		if c > 0 && c < end {
			isStart := false
			for _, s := range starts {
				if s == c {
					isStart = true
				}
			}
			if !isStart {
				inside = true
			}
		}
	}
	if sc.Cut >= 0 && region(m) != "boundary" {
		inside = true
	}
	if inside {
		e.rec.Nontrivial(sc.fingerprint())
	}
	e.rec.SampleClass(sc.Class+"/"+sc.Peer, func() any {
		return map[string]any{"scenario": sc, "stream_octets": len(stream), "stream_ends_after": end, "receive_calls": len(results), "messages_returned": m, "peer_writes": segCount}
	})
}

// ---------------------------------------------------------------- send

// readScript reads from c until an error, with the scenario's read sizes.
func readScript(c net.Conn, sc *Scenario) []byte {
	var captured []byte
	big := make([]byte, 256<<10)
	i := 0
	for {
		size := len(big)
		switch {
		case sc.Chunk > 0:
			size = sc.Chunk
		case len(sc.Segs) > 0:
			size = sc.Segs[i%len(sc.Segs)]
		}
		if size < 1 {
			size = 1
		}
		if size > len(big) {
			size = len(big)
		}
		n, err := c.Read(big[:size])
		captured = append(captured, big[:n]...)
		i++
		if err != nil {
			return captured
		}
		if sc.Gap != "" && i < 64 {
			gap(sc.Gap, i)
		}
	}
}

// judgeSends applies the per-call part of the Send oracle; it returns the
// payloads that must be on the wire and whether a discrepancy was reported.
func (e *env) judgeSends(sc *Scenario, ps [][]byte, results []callResult) (want [][]byte, firstOversize int, reported bool) {
	firstOversize = -1
	for i, res := range results {
		if res.panic != "" {
			return want, firstOversize, true
		}
		p := ps[i]
		cs := map[string]any{"scenario": sc, "call_index": i, "payload_octets": len(p), "returned_n": res.n, "returned_err": describeErr(res.err)}
		if len(p) > refMaxPayload {
			if firstOversize < 0 {
				firstOversize = len(want)
			}
			if res.err == nil {
				e.rec.Violation(sc.Idx, "Send:oversize:accepted",
					fmt.Sprintf("Send of %d (0x%x) octets, which the 17-bit length cannot express, returned (%d, nil)", len(p), len(p), res.n), cs)
				return want, firstOversize, true
			}
			continue
		}
		if res.err != nil {
			e.rec.Violation(sc.Idx, "Send:error-on-valid:"+lenClass(len(p)),
				fmt.Sprintf("Send of %d (0x%x) octets returned error %q", len(p), len(p), describeErr(res.err)), cs)
			return want, firstOversize, true
		}
		want = append(want, p)
		switch res.n {
		case len(p):
			e.rec.Count("send_returned_payload_len", 1)
		case len(p) + 4:
			e.rec.Count("send_returned_frame_len", 1)
		default:
			e.rec.Count("send_returned_other", 1)
		}
	}
	return want, firstOversize, false
}

func (e *env) judgeWire(sc *Scenario, captured []byte, want [][]byte, firstOversize int) bool {
	class, idx, detail := wireDiff(captured, want)
	if class == "" {
		return false
	}
	k := len(captured)
	if k > 32 {
		k = 32
	}
	cs := map[string]any{"scenario": sc, "wire_octets": len(captured), "wire_head": fmt.Sprintf("%x", captured[:k]), "frame_index": idx, "discrepancy": detail}
	if firstOversize >= 0 && idx >= firstOversize {
		e.rec.Violation(sc.Idx, "Send:oversize:wire-bytes", "octets of a refused oversize payload reached the wire / corrupted the framing of later messages: "+detail, cs)
		return true
	}
	key := "Send:wire:" + class
	if idx < len(want) {
		key += ":" + lenClass(len(want[idx]))
	}
	e.rec.Violation(sc.Idx, key, fmt.Sprintf("payload lengths %v, peer=%s: %s", sc.Lens, sc.Peer, detail), cs)
	return true
}

func (e *env) runSend(sc *Scenario, st *runState) {
	ps := sc.payloads()
	t, peer, obs, err := e.connect(sc, st)
	if err != nil {
		e.setupProblem(sc, err)
		return
	}
	peerDone := make(chan struct{})
	var captured []byte
	go func() {
		defer close(peerDone)
		captured = readScript(peer, sc)
		peer.Close()
	}()
	var results []callResult
	for _, p := range ps {
		res := e.guardedSend(sc, t, p)
		results = append(results, res)
		if res.err != nil && len(p) <= refMaxPayload {
			break
		}
	}
	t.Close()
	<-peerDone
	if st.isAborted() {
		return
	}
	e.rec.Eval(len(results))
	e.rec.Count("scenarios_send_"+sc.Peer, 1)
	if obs != nil {
		e.rec.Count("pipe_lib_writes", obs.writes.Load())
	}
	want, firstOversize, reported := e.judgeSends(sc, ps, results)
	if !reported {
		e.judgeWire(sc, captured, want, firstOversize)
	}
	e.rec.Nontrivial(sc.fingerprint())
	e.rec.SampleClass(sc.Class+"/"+sc.Peer, func() any {
		k := len(captured)
		if k > 12 {
			k = 12
		}
		return map[string]any{"scenario": sc, "send_calls": len(results), "frames_expected_on_wire": len(want), "wire_octets": len(captured), "wire_head": fmt.Sprintf("%x", captured[:k])}
	})
}

// ---------------------------------------------------------------- lib2lib

// runLib2Lib: the literal statement — what one transport sends, a second
// transport receives — with the library on both ends.
func (e *env) runLib2Lib(sc *Scenario, st *runState) {
	ps := sc.payloads()
	t1, peer, _, err := e.connect(sc, st)
	if err != nil {
		e.setupProblem(sc, err)
		return
	}
	t2 := xport(nbt.NewNBTTransportFromConn(peer))
	var valid [][]byte
	firstOversize := -1 // number of valid payloads before the first oversize one
	for _, p := range ps {
		if len(p) <= refMaxPayload {
			valid = append(valid, p)
		} else if firstOversize < 0 {
			firstOversize = len(valid)
		}
	}
	// anything that goes wrong at or after the position of a refused oversize
	// payload is that payload's octets having reached the wire
	viol := func(i int, key, what string, cs any) {
		if firstOversize >= 0 && i >= firstOversize {
			key, what = "Send:oversize:wire-bytes", "after an oversize payload in the sequence: "+what
		}
		e.rec.Violation(sc.Idx, key, what, cs)
	}
	recvDone := make(chan struct{})
	var rres []callResult
	go func() {
		defer close(recvDone)
		errs := 0
		for i := 0; i < len(valid)+2 && errs < 2; i++ {
			res := e.guardedReceive(sc, t2)
			rres = append(rres, res)
			if res.err != nil {
				errs++
			}
		}
		t2.Close()
	}()
	var sres []callResult
	for _, p := range ps {
		res := e.guardedSend(sc, t1, p)
		sres = append(sres, res)
		if res.err != nil && len(p) <= refMaxPayload {
			break
		}
	}
	t1.Close()
	<-recvDone
	if st.isAborted() {
		return
	}
	e.rec.Eval(len(sres) + len(rres))
	e.rec.Count("scenarios_lib2lib_"+sc.Peer, 1)
	e.rec.Nontrivial(sc.fingerprint())
	// oversize accepted is the sender's fault and explains everything after it
	for i, res := range sres {
		if res.panic != "" {
			return
		}
		if len(ps[i]) > refMaxPayload && res.err == nil {
			e.rec.Violation(sc.Idx, "Send:oversize:accepted", fmt.Sprintf("Send of %d (0x%x) octets returned (%d, nil)", len(ps[i]), len(ps[i]), res.n),
				map[string]any{"scenario": sc, "call_index": i})
			return
		}
	}
	obsd := func() []string {
		var o []string
		for _, r := range rres {
			o = append(o, fmt.Sprintf("(%s, %s)", short(r.data), describeErr(r.err)))
		}
		return o
	}
	for i, res := range rres {
		if res.panic != "" {
			return
		}
		cs := map[string]any{"scenario": sc, "call_index": i, "observed_receives": obsd()}
		if i < len(valid) {
			if res.err != nil {
				viol(i, "Send+Receive:error-on-complete-frame:"+lenClass(len(valid[i])),
					fmt.Sprintf("message %d (%d octets) sent by one transport: the receiving transport returned error %q", i, len(valid[i]), describeErr(res.err)), cs)
				return
			}
			if !bytesEqual(res.data, valid[i]) {
				viol(i, fmt.Sprintf("Send+Receive:value:%s:%s", lenClass(len(valid[i])), cmpHow(res.data, valid[i])),
					fmt.Sprintf("message %d of %d (0x%x) octets sent by one transport was received as %d octets (%s)", i, len(valid[i]), len(valid[i]), len(res.data), short(res.data)), cs)
				return
			}
			continue
		}
		if res.err == nil {
			viol(i, "Send+Receive:eof:fabricated", fmt.Sprintf("after the sender closed, Receive returned (%s, nil)", short(res.data)), cs)
			return
		}
		if len(res.data) != 0 {
			viol(i, "Send+Receive:eof:data-with-error", "data returned with the end-of-stream error", cs)
			return
		}
	}
	nvalid := 0
	for i, res := range sres {
		if len(ps[i]) <= refMaxPayload {
			nvalid++
		}
		if len(ps[i]) <= refMaxPayload && res.err != nil {
			viol(nvalid-1, "Send:error-on-valid:"+lenClass(len(ps[i])), fmt.Sprintf("Send of %d octets returned %q", len(ps[i]), describeErr(res.err)),
				map[string]any{"scenario": sc, "call_index": i})
			return
		}
	}
	e.rec.SampleClass(sc.Class+"/"+sc.Peer, func() any {
		return map[string]any{"scenario": sc, "send_calls": len(sres), "receive_calls": len(rres)}
	})
}

// ---------------------------------------------------------------- duplex

// runDuplex: one goroutine sends while another receives on the same
// transport; the scripted peer parses what arrives with the reference framer
// and echoes every message back, re-framed by the reference framer and cut
// into sc.Chunk-sized writes. This is the schedule class the race detector is
// there for.
func (e *env) runDuplex(sc *Scenario, st *runState) {
	ps := sc.payloads()
	t, peer, _, err := e.connect(sc, st)
	if err != nil {
		e.setupProblem(sc, err)
		return
	}
	var failMu sync.Mutex
	firstFail := ""
	var failWhat string
	var failCase any
	fail := func(key, what string, cs any) {
		failMu.Lock()
		first := firstFail == ""
		if first {
			firstFail, failWhat, failCase = key, what, cs
		}
		failMu.Unlock()
		if first { // unblock everybody
			t.Close()
			peer.Close()
		}
	}
	failedAlready := func() bool { failMu.Lock(); defer failMu.Unlock(); return firstFail != "" }

	peerDone := make(chan struct{})
	go func() { // echo peer
		defer close(peerDone)
		hdr := make([]byte, 4)
		for i := 0; ; i++ {
			if _, err := io.ReadFull(peer, hdr); err != nil {
				return // end of stream (or torn down)
			}
			typ, resv, n := refHeader(hdr)
			if i >= len(ps) {
				fail("Send:wire:trailing", fmt.Sprintf("duplex: a frame header %x after the last sent message", hdr), map[string]any{"scenario": sc})
				return
			}
			class := ""
			switch {
			case typ != refTypeSessionMessage:
				class = "header-type"
			case resv != 0:
				class = "flags-reserved"
			case n != len(ps[i]):
				class = "length"
			}
			if class != "" {
				fail("Send:wire:"+class+":"+lenClass(len(ps[i])), fmt.Sprintf("duplex: message %d of %d (0x%x) octets left the transport with header %x", i, len(ps[i]), len(ps[i]), hdr), map[string]any{"scenario": sc, "frame_index": i})
				return
			}
			body := make([]byte, n)
			if _, err := io.ReadFull(peer, body); err != nil {
				return
			}
			if !bytesEqual(body, ps[i]) {
				fail("Send:wire:payload:"+lenClass(len(ps[i])), fmt.Sprintf("duplex: payload octets of message %d differ on the wire at offset %d", i, firstDiff(body, ps[i])), map[string]any{"scenario": sc, "frame_index": i})
				return
			}
			f, _ := refEncode(body)
			step := sc.Chunk
			if step <= 0 {
				step = len(f)
			}
			for pos := 0; pos < len(f); pos += step {
				to := pos + step
				if to > len(f) {
					to = len(f)
				}
				if _, err := peer.Write(f[pos:to]); err != nil {
					return
				}
				gap(sc.Gap, pos/step)
			}
		}
	}()
	recvDone := make(chan struct{})
	nrecv := 0
	go func() {
		defer close(recvDone)
		for i := range ps {
			res := e.guardedReceive(sc, t)
			nrecv++
			if failedAlready() {
				return
			}
			cs := map[string]any{"scenario": sc, "call_index": i, "observed": fmt.Sprintf("(%s, %s)", short(res.data), describeErr(res.err))}
			if res.err != nil {
				fail("Receive:error-on-complete-frame:"+lenClass(len(ps[i])), fmt.Sprintf("duplex: echoed message %d (%d octets): Receive returned error %q", i, len(ps[i]), describeErr(res.err)), cs)
				return
			}
			if !bytesEqual(res.data, ps[i]) {
				fail(fmt.Sprintf("Receive:value:%s:%s", lenClass(len(ps[i])), cmpHow(res.data, ps[i])), fmt.Sprintf("duplex: echoed message %d of %d octets received as %d octets", i, len(ps[i]), len(res.data)), cs)
				return
			}
		}
	}()
	nsent := 0
	for i, p := range ps {
		res := e.guardedSend(sc, t, p)
		nsent++
		if failedAlready() {
			break
		}
		if res.err != nil {
			fail("Send:error-on-valid:"+lenClass(len(p)), fmt.Sprintf("duplex: Send of message %d (%d octets) returned %q", i, len(p), describeErr(res.err)), map[string]any{"scenario": sc, "call_index": i})
			break
		}
	}
	<-recvDone
	t.Close()
	<-peerDone
	peer.Close()
	if st.isAborted() {
		return
	}
	e.rec.Eval(nsent + nrecv)
	e.rec.Count("scenarios_duplex_"+sc.Peer, 1)
	e.rec.Nontrivial(sc.fingerprint())
	if firstFail != "" {
		e.rec.Violation(sc.Idx, firstFail, failWhat, failCase)
	}
	e.rec.SampleClass(sc.Class+"/"+sc.Peer, func() any {
		return map[string]any{"scenario": sc, "sent": nsent, "received": nrecv}
	})
}
