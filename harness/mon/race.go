package mon

// Race side run: ./check builds the same monitor with -race and runs it with VERIF_SIDE=race and
// GORACE="halt_on_error=0 log_path=$VERIF_RACELOG". The monitor then runs only the parts of its
// workload in which goroutines use the library at the same time (each in a way that is legal for
// a caller: own objects, or a finished object that is only read), and the detector's reports are
// turned into violations here, keyed by the innermost library function of each of the two stacks.

import (
	"os"
	"path/filepath"
	"regexp"
	"sort"
	"strings"
)

// SideRace reports whether this process is the race side run.
func SideRace() bool { return os.Getenv("VERIF_SIDE") == "race" }

var raceFnRe = regexp.MustCompile(`(?m)^\s+(github\.com/TheManticoreProject/Manticore/[^\s(]+(?:\([^)]*\))?[^\s(]*)\(`)

// raceReports reads the detector's log files and returns one entry per distinct pair of
// innermost library functions (reports whose stacks hold no library frame are the harness's own
// and are returned under the key "harness").
func raceReports() map[string]string {
	out := map[string]string{}
	base := os.Getenv("VERIF_RACELOG")
	if base == "" {
		return out
	}
	files, _ := filepath.Glob(base + ".*")
	for _, f := range files {
		b, err := os.ReadFile(f)
		if err != nil {
			continue
		}
		for _, blk := range strings.Split(string(b), "==================") {
			if !strings.Contains(blk, "WARNING: DATA RACE") {
				continue
			}
			// the two access stacks come first; goroutine creation stacks follow
			access := blk
			if i := strings.Index(access, "Goroutine "); i >= 0 {
				access = access[:i]
			}
			parts := strings.SplitN(access, "Previous ", 2)
			var fns []string
			for _, p := range parts {
				if m := raceFnRe.FindStringSubmatch(p); m != nil {
					fns = append(fns, strings.TrimPrefix(m[1], "github.com/TheManticoreProject/Manticore/"))
				}
			}
			key := "harness"
			if len(fns) > 0 {
				sort.Strings(fns)
				key = strings.Join(fns, "+")
			}
			if _, seen := out[key]; !seen {
				if len(blk) > 6000 {
					blk = blk[:6000]
				}
				out[key] = blk
			}
		}
	}
	return out
}

// reportRaces files the detector's reports; called by Finish in the race side run.
func (r *Run) reportRaces() {
	reps := raceReports()
	r.Count("race_detector_reports_distinct", len(reps))
	for key, blk := range reps {
		if key == "harness" {
			// no library function in either access stack: the monitor's own sharing, not the library's
			r.Inconclusive("race side run: the detector reported a race between two accesses outside the library (monitor bug): " + firstLines(blk, 12))
			continue
		}
		r.Violation("race:"+key, "the race detector reports unsynchronised accesses in library code under concurrent use that is legal for callers (own objects, or a finished object only read): "+firstLines(blk, 14), map[string]any{"report": blk})
	}
}

func firstLines(s string, n int) string {
	l := strings.Split(strings.TrimSpace(s), "\n")
	if len(l) > n {
		l = l[:n]
	}
	return strings.Join(l, " | ")
}
