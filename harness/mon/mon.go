// Package mon is the common monitor runtime of the /verif harness: verdict
// bookkeeping, known-finding lookup, evidence and replay files, panic guard,
// seeded PRNG. All state is guarded by one mutex so that a monitor can be fed
// from many goroutines without itself becoming a race.
package mon

import (
	"crypto/sha256"
	"encoding/binary"
	"encoding/hex"
	"encoding/json"
	"fmt"
	"math/rand/v2"
	"os"
	"path/filepath"
	"reflect"
	"regexp"
	"runtime"
	"runtime/debug"
	"sort"
	"strconv"
	"strings"
	"sync"
	"time"
)

const (
	VerifRoot = "/verif"
)

// RepoRoot is the source tree the binary was built against (/repo unless a
// scratch copy is being tried through VERIF_REPO).
func RepoRoot() string {
	if p := os.Getenv("VERIF_REPO"); p != "" {
		return p
	}
	return "/repo"
}

// outRoot is where evidence and replay files go: /verif for a run against /repo itself; the
// scratch work directory when a scratch copy is being tried, so that /verif/evidence only ever
// describes runs against /repo.
func outRoot() string {
	// VERIF_SIDE marks a side run of the same check (e.g. the 32-bit build): its evidence and
	// replay files stay in the work directory, the main run's evidence is the one kept
	if RepoRoot() != "/repo" || os.Getenv("VERIF_SIDE") != "" {
		if w := os.Getenv("VERIF_WORK"); w != "" {
			return w
		}
		return os.TempDir()
	}
	return VerifRoot
}

// Finding is one line of known_findings.jsonl.
type Finding struct {
	Status   string `json:"status"` // "known" | "fixed"
	Property string `json:"property"`
	Key      string `json:"key"`
	What     string `json:"what"`
	Commit   string `json:"commit,omitempty"`
}

type violation struct {
	Key      string `json:"key"`
	What     string `json:"what"`
	Replay   string `json:"replay"`
	Count    int    `json:"count"`
	FirstObs any    `json:"first_case,omitempty"`
}

// Run is one execution of a property check.
type Run struct {
	ID    string
	Tier  string
	Seed  int64
	Level string

	mu          sync.Mutex
	start       time.Time
	evals       int64
	distinct    map[[8]byte]struct{}
	samples     []any
	maxSamples  int
	rule        string
	extra       map[string]any
	assumptions []string
	known       map[string]Finding
	knownSeen   map[string]int
	viol        map[string]*violation
	violOrder   []string
	inconcl     []string
	replayKey   string // when set: only this key is reported (replay mode)
	exhaustive  bool
	counters    map[string]int64
}

// Start reads the environment (VERIF_TIER, VERIF_SEED, VERIF_REPLAY) and the
// known-findings file and returns a Run.
func Start(id, level string) *Run {
	r := &Run{ID: id, Level: level, start: time.Now(),
		distinct: map[[8]byte]struct{}{}, maxSamples: 12, extra: map[string]any{},
		known: map[string]Finding{}, knownSeen: map[string]int{}, viol: map[string]*violation{},
		counters: map[string]int64{}}
	r.Tier = os.Getenv("VERIF_TIER")
	if r.Tier != "thorough" {
		r.Tier = "quick"
	}
	r.Seed = 1
	if s := os.Getenv("VERIF_SEED"); s != "" {
		if v, err := strconv.ParseInt(s, 10, 64); err == nil {
			r.Seed = v
		}
	}
	if p := os.Getenv("VERIF_REPLAY"); p != "" {
		b, err := os.ReadFile(p)
		if err != nil {
			fmt.Fprintf(os.Stderr, "cannot read replay file: %v\n", err)
			os.Exit(2)
		}
		var rp struct {
			Key  string `json:"key"`
			Seed int64  `json:"seed"`
			Tier string `json:"tier"`
		}
		if err := json.Unmarshal(b, &rp); err != nil {
			fmt.Fprintf(os.Stderr, "bad replay file: %v\n", err)
			os.Exit(2)
		}
		r.replayKey, r.Seed, r.Tier = rp.Key, rp.Seed, rp.Tier
	}
	r.loadKnown()
	return r
}

func (r *Run) loadKnown() {
	var all []byte
	files, _ := filepath.Glob(filepath.Join(VerifRoot, "known_findings.d", "*.jsonl"))
	files = append([]string{filepath.Join(VerifRoot, "known_findings.jsonl")}, files...)
	for _, f := range files {
		if b, err := os.ReadFile(f); err == nil {
			all = append(all, b...)
			all = append(all, '\n')
		}
	}
	for _, line := range strings.Split(string(all), "\n") {
		line = strings.TrimSpace(line)
		if line == "" || strings.HasPrefix(line, "#") {
			continue
		}
		var f Finding
		if json.Unmarshal([]byte(line), &f) != nil {
			continue
		}
		if f.Property == r.ID && f.Status == "known" {
			r.known[f.Key] = f
		}
	}
}

func (r *Run) Quick() bool    { return r.Tier != "thorough" }
func (r *Run) Thorough() bool { return r.Tier == "thorough" }

// Pick returns q in the quick tier and t in the thorough tier.
func (r *Run) Pick(q, t int) int {
	v := q
	if r.Thorough() {
		v = t
	}
	if SideRace() && v > 3 {
		v /= 3 // the race build runs several times slower
	}
	return v
}

// Rand returns a PRNG that is a function of (seed, property, tier, stream).
func (r *Run) Rand(stream string) *rand.Rand {
	h := sha256.Sum256([]byte(fmt.Sprintf("%s|%s|%s", r.ID, r.Tier, stream)))
	return rand.New(rand.NewPCG(uint64(r.Seed), binary.LittleEndian.Uint64(h[:8])))
}

// Eval counts n oracle-judged library calls.
func (r *Run) Eval(n int) {
	r.mu.Lock()
	r.evals += int64(n)
	r.mu.Unlock()
}

// Count bumps a named counter that ends up in coverage.
func (r *Run) Count(name string, n int) {
	r.mu.Lock()
	r.counters[name] += int64(n)
	r.mu.Unlock()
}

// Nontrivial records the fingerprint of a case that is non-trivial by the rule.
func (r *Run) Nontrivial(fp string) {
	h := sha256.Sum256([]byte(fp))
	var k [8]byte
	copy(k[:], h[:8])
	r.mu.Lock()
	r.distinct[k] = struct{}{}
	r.mu.Unlock()
}

// Sample keeps up to maxSamples written-out cases.
func (r *Run) Sample(v any) {
	r.mu.Lock()
	if len(r.samples) < r.maxSamples {
		r.samples = append(r.samples, v)
	}
	r.mu.Unlock()
}

// SampleEvery keeps v if fewer than max samples were kept and i%every==0.
func (r *Run) SampleEvery(i, every int, v func() any) {
	if every <= 0 || i%every != 0 {
		return
	}
	r.mu.Lock()
	ok := len(r.samples) < r.maxSamples
	r.mu.Unlock()
	if ok {
		r.Sample(v())
	}
}

func (r *Run) Rule(s string)         { r.rule = s }
func (r *Run) Assume(s ...string)    { r.assumptions = append(r.assumptions, s...) }
func (r *Run) SetExhaustive(b bool)  { r.exhaustive = b }
func (r *Run) Extra(k string, v any) { r.mu.Lock(); r.extra[k] = v; r.mu.Unlock() }
func (r *Run) Inconclusive(why string) {
	r.mu.Lock()
	r.inconcl = append(r.inconcl, why)
	r.mu.Unlock()
}

var keyClean = regexp.MustCompile(`[^A-Za-z0-9_.:+-]`)

// Violation reports that the oracle refuted the property on one case.
// key is the stable fingerprint (entry point + failure class + field/input
// class); what is a human sentence; cs is the concrete case (written to the
// replay file).
func (r *Run) Violation(key, what string, cs any) {
	key = keyClean.ReplaceAllString(key, "_")
	r.mu.Lock()
	defer r.mu.Unlock()
	if r.replayKey != "" && key != r.replayKey {
		return
	}
	if f, ok := r.known[key]; ok {
		_ = f
		r.knownSeen[key]++
		return
	}
	if v, ok := r.viol[key]; ok {
		v.Count++
		return
	}
	v := &violation{Key: key, What: what, Count: 1, FirstObs: cs}
	dir := filepath.Join(outRoot(), "replay", r.ID)
	if side := os.Getenv("VERIF_SIDE"); side != "" && RepoRoot() == "/repo" {
		dir = filepath.Join(VerifRoot, "replay", r.ID+".side"+side) // outlives the work directory
	}
	os.MkdirAll(dir, 0o755)
	name := key
	if len(name) > 120 {
		h := sha256.Sum256([]byte(name))
		name = name[:100] + "_" + hex.EncodeToString(h[:6])
	}
	v.Replay = filepath.Join(dir, name+".json")
	rp := map[string]any{"property": r.ID, "key": key, "what": what, "seed": r.Seed, "tier": r.Tier, "case": cs}
	b, _ := json.MarshalIndent(rp, "", " ")
	os.WriteFile(v.Replay, b, 0o644)
	r.viol[key] = v
	r.violOrder = append(r.violOrder, key)
}

// Violations returns the number of distinct unlisted violation keys so far.
func (r *Run) Violations() int {
	r.mu.Lock()
	defer r.mu.Unlock()
	return len(r.viol)
}

// Guard runs f and converts a panic into (true, value, stack).
func Guard(f func()) (panicked bool, val any, stack string) {
	defer func() {
		if v := recover(); v != nil {
			panicked, val, stack = true, v, string(debug.Stack())
		}
	}()
	f()
	return
}

var frameRe = regexp.MustCompile(`(?m)^(github\.com/TheManticoreProject/Manticore/[^\s(]+(?:\([^)]*\))?[^\s(]*)\(`)

// TopLibFrame extracts the innermost Manticore function in a stack trace, with
// the module prefix stripped (stable across line-number changes).
func TopLibFrame(stack string) string {
	m := frameRe.FindStringSubmatch(stack)
	if m == nil {
		return "?"
	}
	return strings.TrimPrefix(m[1], "github.com/TheManticoreProject/Manticore/")
}

// PanicClass reduces a panic value to a coarse class.
func PanicClass(v any) string {
	s := fmt.Sprint(v)
	switch {
	case strings.Contains(s, "index out of range"):
		return "index"
	case strings.Contains(s, "slice bounds out of range"):
		return "slice"
	case strings.Contains(s, "nil pointer"):
		return "nil"
	case strings.Contains(s, "makeslice"):
		return "makeslice"
	case strings.Contains(s, "divide"):
		return "divide"
	case strings.Contains(s, "nil map"):
		return "nilmap"
	}
	return "other"
}

// Finish writes evidence and the verdict file and exits with the interface's
// exit code: 0 held / only known findings, 1 violation, 2 inconclusive.
func (r *Run) Finish() {
	if SideRace() {
		r.reportRaces()
	}
	r.mu.Lock()
	defer r.mu.Unlock()
	wall := time.Since(r.start).Seconds()
	cov := map[string]any{
		"evaluations":         r.evals,
		"distinct_nontrivial": len(r.distinct),
		"rule":                r.rule,
		"samples":             r.samples,
	}
	if r.exhaustive {
		cov["exhaustive"] = true
	}
	for k, v := range r.counters {
		cov[k] = v
	}
	for k, v := range r.extra {
		cov[k] = v
	}
	var knownKeys []string
	for k := range r.knownSeen {
		knownKeys = append(knownKeys, k)
	}
	sort.Strings(knownKeys)
	kf := map[string]int{}
	for _, k := range knownKeys {
		kf[k] = r.knownSeen[k]
	}
	cov["known_findings_observed"] = kf
	var vs []*violation
	for _, k := range r.violOrder {
		vs = append(vs, r.viol[k])
	}
	cov["violation_keys"] = r.violOrder
	cov["inconclusive"] = r.inconcl
	ev := map[string]any{
		"property_id": r.ID, "tier": r.Tier, "seed": r.Seed, "level": r.Level,
		"coverage": cov, "assumptions": r.assumptions, "wall_s": wall, "violations": len(vs),
	}
	if r.assumptions == nil {
		ev["assumptions"] = []string{}
	}
	if r.samples == nil {
		cov["samples"] = []any{}
	}
	if r.replayKey == "" {
		b, _ := json.MarshalIndent(ev, "", " ")
		os.MkdirAll(filepath.Join(outRoot(), "evidence"), 0o755)
		os.WriteFile(filepath.Join(outRoot(), "evidence", r.ID+".json"), append(b, '\n'), 0o644)
	}

	var out strings.Builder
	for _, k := range knownKeys {
		fmt.Fprintf(&out, "KNOWN-FINDING: property=%s %s [%s] (seen %d times)\n", r.ID, oneLine(r.known[k].What), k, r.knownSeen[k])
	}
	for _, v := range vs {
		fmt.Fprintf(&out, "VIOLATION property=%s replay=%s\n", r.ID, v.Replay)
		fmt.Fprintf(&out, "  detail: [%s] %s (x%d)\n", v.Key, oneLine(v.What), v.Count)
	}
	code := 0
	status := "HELD"
	if len(vs) > 0 {
		code, status = 1, "VIOLATED"
	} else if len(r.inconcl) > 0 || r.evals == 0 || (len(r.distinct) < 2 && r.replayKey == "" && !SideRace()) {
		code, status = 2, "INCONCLUSIVE"
		for _, s := range r.inconcl {
			fmt.Fprintf(&out, "INCONCLUSIVE property=%s %s\n", r.ID, oneLine(s))
		}
		if r.evals == 0 {
			fmt.Fprintf(&out, "INCONCLUSIVE property=%s observed nothing\n", r.ID)
		}
	}
	fmt.Fprintf(&out, "SUMMARY property=%s tier=%s seed=%d status=%s evaluations=%d distinct_nontrivial=%d known_findings=%d violations=%d wall_s=%.1f\n",
		r.ID, r.Tier, r.Seed, status, r.evals, len(r.distinct), len(knownKeys), len(vs), wall)
	if p := os.Getenv("VERIF_VERDICT"); p != "" {
		os.WriteFile(p, []byte(out.String()), 0o644)
	} else {
		os.Stdout.WriteString(out.String())
	}
	os.Exit(code)
}

func oneLine(s string) string {
	s = strings.ReplaceAll(s, "\n", " ")
	if len(s) > 300 {
		s = s[:300] + "…"
	}
	return s
}

// Hex is a short helper for samples.
func Hex(b []byte) string {
	if len(b) > 96 {
		return hex.EncodeToString(b[:96]) + fmt.Sprintf("…(+%d bytes)", len(b)-96)
	}
	return hex.EncodeToString(b)
}

// FullHex never truncates (replay files).
func FullHex(b []byte) string { return hex.EncodeToString(b) }

// NewRand returns a PRNG that depends only on (seed, stream) — for corpora that
// must not vary with VERIF_SEED.
func NewRand(seed uint64, stream string) *rand.Rand {
	h := sha256.Sum256([]byte(stream))
	return rand.New(rand.NewPCG(seed, binary.LittleEndian.Uint64(h[:8])))
}

// HeldRing keeps the last n byte slices returned by an encoder together with a private copy,
// and reports those whose bytes changed after later calls (an output aliasing a reused or
// pooled internal buffer). Goroutine-safe.
type HeldRing struct {
	mu   sync.Mutex
	n    int
	live [][]byte
	copy [][]byte
	tag  []string
}

func NewHeldRing(n int) *HeldRing { return &HeldRing{n: n} }

// Hold records out (not copied) and returns the tags of previously held outputs that changed.
func (h *HeldRing) Hold(out []byte, tag string) (changed []string) {
	h.mu.Lock()
	defer h.mu.Unlock()
	changed = h.check()
	if len(h.live) >= h.n {
		h.live, h.copy, h.tag = h.live[1:], h.copy[1:], h.tag[1:]
	}
	h.live = append(h.live, out)
	h.copy = append(h.copy, append([]byte{}, out...))
	h.tag = append(h.tag, tag)
	return
}

// Check returns the tags of held outputs whose bytes no longer equal their copy.
func (h *HeldRing) Check() []string {
	h.mu.Lock()
	defer h.mu.Unlock()
	return h.check()
}

func (h *HeldRing) check() (changed []string) {
	for i := range h.live {
		if string(h.live[i]) != string(h.copy[i]) {
			changed = append(changed, h.tag[i])
			h.copy[i] = append([]byte{}, h.live[i]...)
		}
	}
	return
}

// LibLockWaiters inspects the stacks of all goroutines and returns, for every goroutine that has
// been parked on a sync lock for at least a minute with a frame of the given package on its
// stack, the first such frame's function name and the goroutine's stack. A watchdog uses it to
// tell a deadlock inside the library (a witness: who waits where) from a run that is merely slow.
func LibLockWaiters(pkg string) (funcs []string, stacks []string) {
	buf := make([]byte, 1<<20)
	for {
		n := runtime.Stack(buf, true)
		if n < len(buf) {
			buf = buf[:n]
			break
		}
		buf = make([]byte, 2*len(buf))
	}
	for _, g := range strings.Split(string(buf), "\n\n") {
		nl := strings.IndexByte(g, '\n')
		if nl < 0 {
			continue
		}
		head := g[:nl]
		if !(strings.Contains(head, "[sync.Mutex.Lock") || strings.Contains(head, "[sync.RWMutex") || strings.Contains(head, "[semacquire")) || !strings.Contains(head, "minutes") {
			continue
		}
		for _, line := range strings.Split(g[nl+1:], "\n") {
			if strings.HasPrefix(line, "\t") || !strings.Contains(line, pkg) {
				continue
			}
			fn := line
			if i := strings.LastIndex(fn, "("); i > 0 {
				fn = fn[:i]
			}
			if i := strings.LastIndex(fn, "/"); i >= 0 {
				fn = fn[i+1:]
			}
			funcs = append(funcs, fn)
			stacks = append(stacks, g)
			break
		}
	}
	return
}

// ExportedEqual compares two values of the same library type on their exported fields only
// (recursively): unexported fields are the library's own business (caches, scratch space), and a
// type that gains one — or a slice, which makes == unusable — must not stop a monitor from building.
func ExportedEqual(a, b any) bool {
	return exportedEqual(reflect.ValueOf(a), reflect.ValueOf(b))
}

func exportedEqual(a, b reflect.Value) bool {
	if a.IsValid() != b.IsValid() {
		return false
	}
	if !a.IsValid() {
		return true
	}
	if a.Type() != b.Type() {
		return false
	}
	switch a.Kind() {
	case reflect.Pointer, reflect.Interface:
		if a.IsNil() || b.IsNil() {
			return a.IsNil() == b.IsNil()
		}
		return exportedEqual(a.Elem(), b.Elem())
	case reflect.Struct:
		for i := 0; i < a.NumField(); i++ {
			if !a.Type().Field(i).IsExported() {
				continue
			}
			if !exportedEqual(a.Field(i), b.Field(i)) {
				return false
			}
		}
		return true
	case reflect.Slice, reflect.Array:
		if a.Len() != b.Len() {
			return false
		}
		for i := 0; i < a.Len(); i++ {
			if !exportedEqual(a.Index(i), b.Index(i)) {
				return false
			}
		}
		return true
	default:
		if a.CanInterface() && b.CanInterface() {
			return reflect.DeepEqual(a.Interface(), b.Interface())
		}
		return true
	}
}

// AfterSteps returns a channel that is closed once limit has passed in twenty separate waits of
// limit/20. A single timer of the whole length fires at once when the clock jumps (the machine was
// paused, a snapshot was taken); here a jump ends one wait only, so the watched code still gets
// nineteen twentieths of the limit in running time. Watchdogs built on it stay what they are
// meant to be: generous bounds on progress, not verdicts on speed. The helper goroutine lives for
// the whole limit: for occasional waits only (hot paths step their own timers, as C11's scenario
// watchdog does).
func AfterSteps(limit time.Duration) <-chan struct{} {
	ch := make(chan struct{})
	go func() {
		for i := 0; i < 20; i++ {
			time.Sleep(limit / 20)
		}
		close(ch)
	}()
	return ch
}
