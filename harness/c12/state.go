package main

// State-carry-over and aliasing monitors for C12.
//
//	rc4   - several cipher objects with unrelated keys used in an interleaved way, and 8 goroutines each with
//	        its own object: every object must give its single-caller standard RC4 output (no state shared between
//	        objects); output buffers of earlier calls are held and compared again later; Reset: the property
//	        leaves the key stream of a reset object open, but it must be the same whatever the object did
//	        before the Reset (a reset object with a history equals a reset fresh object) and resetting one
//	        object must not disturb another.
//	cmac  - tags returned by Sum are held (ring of 64, across objects) and compared again later; the caller's
//	        message buffer is overwritten after Write; two objects over the same block cipher interleaved; long
//	        Reset chains on ONE object (messages of every residue class before the Reset, big-then-small);
//	        8 goroutines with their own objects.
//	pkcs7 - outputs of Pad for exact-capacity inputs are held and compared again after later Pad/Unpad calls;
//	        Unpad(Pad(m)) for held outputs later; 8 goroutines. Pad appends to its argument, so with spare
//	        capacity its result shares the caller's array (two Pad calls on the same short slice overwrite
//	        each other's padding): counted as an observation on the unchanged tree, not judged.
//	gpp   - 8 goroutines encrypting/decrypting unrelated passwords must get the single-caller values; the
//	        package-level key must still be Microsoft's published key at the end.

import (
	"bytes"
	"encoding/base64"
	"fmt"
	"hash"
	"sync"

	"github.com/TheManticoreProject/Manticore/crypto/cmac"
	"github.com/TheManticoreProject/Manticore/crypto/gppp"
	"github.com/TheManticoreProject/Manticore/crypto/pkcs7"
	"github.com/TheManticoreProject/Manticore/crypto/rc4"

	"verif/gen"
	"verif/mon"
)

type heldOut struct {
	entry, input string
	out, want    []byte
}

type heldRing struct {
	mu   sync.Mutex
	ring [64]*heldOut
	n    int
}

func (h *heldRing) verify(e *heldOut, when string) {
	if e == nil {
		return
	}
	r.Eval(1)
	if !bytes.Equal(e.out, e.want) {
		r.Violation(e.entry+":held-output-changed", fmt.Sprintf("the bytes produced by %s (%s) read %s when they were returned and read %s %s", e.entry, e.input, mon.Hex(e.want), mon.Hex(e.out), when),
			map[string]any{"entry": e.entry, "input": e.input, "returned": mon.FullHex(e.want), "now": mon.FullHex(e.out), "when": when})
		e.want = append([]byte{}, e.out...)
	}
}

func (h *heldRing) hold(entry string, out []byte, input string) {
	h.mu.Lock()
	defer h.mu.Unlock()
	e := &heldOut{entry: entry, input: input, out: out, want: append([]byte{}, out...)}
	slot := h.n % len(h.ring)
	h.verify(h.ring[slot], "64 calls later")
	if h.n > 0 {
		h.verify(h.ring[(h.n-1)%len(h.ring)], "after the next call")
	}
	h.ring[slot] = e
	h.n++
}

func (h *heldRing) final() {
	h.mu.Lock()
	defer h.mu.Unlock()
	for _, e := range h.ring {
		h.verify(e, "at the end of the run")
	}
}

var held heldRing

const concurrentCallers = 8

// ---------------------------------------------------------------------------------
// RC4

type rc4Job struct {
	key, data, want []byte
	cuts            []int
}

func makeRC4Jobs(n int, stream string) []rc4Job {
	rng := r.Rand(stream)
	jobs := make([]rc4Job, n)
	for i := range jobs {
		kl := []int{1, 5, 16, 255, 256, 1 + rng.IntN(256)}[i%6]
		dl := []int{1, 255, 256, 257, 700, 1 + rng.IntN(3000)}[(i/6)%6]
		j := rc4Job{key: gen.Bytes(rng, kl), data: gen.Bytes(rng, dl)}
		j.cuts = randCuts(rng, dl, 2+rng.IntN(6))
		j.want = wantRC4(j.key, j.data)
		jobs[i] = j
	}
	return jobs
}

// rc4Interleaved drives len(jobs) cipher objects chunk by chunk in round-robin order.
func rc4Interleaved(jobs []rc4Job, tag string) {
	cs := map[string]any{"objects": len(jobs), "phase": tag}
	p, v, st := mon.Guard(func() {
		objs := make([]*rc4.RC4, len(jobs))
		outs := make([][]byte, len(jobs))
		pos := make([]int, len(jobs))
		step := make([]int, len(jobs))
		for i, j := range jobs {
			c, err := rc4.NewRC4WithKey(append([]byte{}, j.key...))
			if err != nil {
				r.Violation("rc4.NewRC4WithKey:refuses-valid:"+keyClass(len(j.key)), fmt.Sprintf("%d-byte key refused: %v", len(j.key), err), cs)
				return
			}
			objs[i] = c
		}
		for active := len(jobs); active > 0; {
			active = 0
			for i, j := range jobs {
				if pos[i] >= len(j.data) {
					continue
				}
				active++
				end := len(j.data)
				if step[i] < len(j.cuts) {
					end = j.cuts[step[i]]
				}
				step[i]++
				dst := make([]byte, end-pos[i])
				objs[i].XORKeyStream(dst, j.data[pos[i]:end])
				held.hold("rc4.XORKeyStream", dst, fmt.Sprintf("object %d of %d, bytes %d..%d", i, len(jobs), pos[i], end))
				outs[i] = append(outs[i], dst...)
				pos[i] = end
			}
		}
		for i, j := range jobs {
			r.Eval(1)
			if !bytes.Equal(outs[i], j.want) {
				at := firstDiff(outs[i], j.want)
				r.Violation("rc4.XORKeyStream:interleaved-objects:"+keyClass(len(j.key)), fmt.Sprintf("%s: object %d of %d objects with unrelated keys used in turn differs from standard RC4 at byte %d (key %d bytes, data %d bytes, cuts %v)", tag, i, len(jobs), at, len(j.key), len(j.data), short(j.cuts)),
					map[string]any{"key_hex": mon.FullHex(j.key), "data_hex": mon.FullHex(j.data), "cuts": j.cuts, "objects": len(jobs), "index": i})
			}
		}
	})
	if p {
		r.Violation("rc4.XORKeyStream:panic:interleaved:"+mon.PanicClass(v), fmt.Sprintf("panic %v at %s", v, mon.TopLibFrame(st)), cs)
	}
	r.Nontrivial(fmt.Sprintf("rc4-interleaved|%s|%d", tag, len(jobs)))
}

func rc4Concurrent(jobs []rc4Job) {
	var wg sync.WaitGroup
	for w := 0; w < concurrentCallers; w++ {
		wg.Add(1)
		go func() {
			defer wg.Done()
			for i := w; i < len(jobs); i += concurrentCallers {
				j := jobs[i]
				var out []byte
				p, v, st := mon.Guard(func() {
					c, err := rc4.NewRC4WithKey(append([]byte{}, j.key...))
					if err != nil {
						return
					}
					prev := 0
					for _, e := range append(append([]int{}, j.cuts...), len(j.data)) {
						dst := make([]byte, e-prev)
						c.XORKeyStream(dst, j.data[prev:e])
						out = append(out, dst...)
						prev = e
					}
				})
				r.Eval(1)
				cs := map[string]any{"key_hex": mon.FullHex(j.key), "data_hex": mon.FullHex(j.data), "cuts": j.cuts, "callers": concurrentCallers}
				if p {
					r.Violation("rc4.XORKeyStream:panic:concurrent:"+mon.PanicClass(v), fmt.Sprintf("panic %v at %s", v, mon.TopLibFrame(st)), cs)
				} else if !bytes.Equal(out, j.want) {
					r.Violation("rc4.XORKeyStream:concurrent-callers", fmt.Sprintf("%d goroutines, each with its own cipher object: output differs from the single-caller value at byte %d (key %d bytes, data %d bytes)", concurrentCallers, firstDiff(out, j.want), len(j.key), len(j.data)), cs)
				}
			}
		}()
	}
	wg.Wait()
	r.Nontrivial(fmt.Sprintf("rc4-concurrent|%d", len(jobs)))
}

// rc4ResetHistory: the stream of a reset object must not depend on what the object did before.
func rc4ResetHistory(jobs []rc4Job) {
	probe := make([]byte, 600)
	var base []byte
	for i, j := range jobs {
		cs := map[string]any{"key_hex": mon.FullHex(j.key), "bytes_before_reset": len(j.data)}
		p, v, st := mon.Guard(func() {
			c, err := rc4.NewRC4WithKey(append([]byte{}, j.key...))
			if err != nil {
				return
			}
			if i > 0 { // job 0 is the reset fresh object
				c.XORKeyStream(make([]byte, len(j.data)), j.data)
			}
			// another object must not notice the Reset
			o := jobs[(i+1)%len(jobs)]
			other, _ := rc4.NewRC4WithKey(append([]byte{}, o.key...))
			half := len(o.data) / 2
			out := make([]byte, len(o.data))
			other.XORKeyStream(out[:half], o.data[:half])
			c.Reset()
			other.XORKeyStream(out[half:], o.data[half:])
			r.Eval(1)
			if !bytes.Equal(out, o.want) {
				r.Violation("rc4.Reset:disturbs-other-object", fmt.Sprintf("Reset of one cipher object between two calls on another: the other's output differs from standard RC4 at byte %d", firstDiff(out, o.want)), cs)
			}
			got := make([]byte, len(probe))
			c.XORKeyStream(got, probe)
			r.Eval(1)
			if base == nil {
				base = got
				return
			}
			if !bytes.Equal(got, base) {
				r.Violation("rc4.Reset:history-dependent", fmt.Sprintf("key stream after Reset depends on the object's past: an object that had produced %d bytes under a %d-byte key differs at byte %d from a fresh object that was reset", len(j.data), len(j.key), firstDiff(got, base)), cs)
			}
			// second Reset on the same object, after the probe
			c.Reset()
			again := make([]byte, len(probe))
			c.XORKeyStream(again, probe)
			if !bytes.Equal(again, base) {
				r.Violation("rc4.Reset:history-dependent", fmt.Sprintf("second Reset on the same object: key stream differs at byte %d", firstDiff(again, base)), cs)
			}
		})
		if p {
			r.Violation("rc4.Reset:panic", fmt.Sprintf("panic %v at %s", v, mon.TopLibFrame(st)), cs)
		}
	}
	r.Nontrivial(fmt.Sprintf("rc4-reset-history|%d", len(jobs)))
}

// ---------------------------------------------------------------------------------
// CMAC

type cmacJob struct {
	spec blockSpec
	key  []byte
	msgs [][]byte
	want [][]byte
}

func makeCMACJobs(n int, stream string) []cmacJob {
	rng := r.Rand(stream)
	jobs := make([]cmacJob, n)
	for i := range jobs {
		spec := blockSpecs[i%len(blockSpecs)]
		j := cmacJob{spec: spec, key: gen.Bytes(rng, spec.klen)}
		blk := spec.mk(j.key)
		bs := blk.BlockSize()
		// big-then-small, every residue class before a Reset
		lens := []int{2*bs + 3, 0, 3*bs - 1, 1, bs + 1, bs, 4 * bs, bs - 1, 5*bs + bs/2, 2, rng.IntN(6 * bs), rng.IntN(bs + 1)}
		for _, l := range lens {
			m := gen.Bytes(rng, l)
			j.msgs = append(j.msgs, m)
			j.want = append(j.want, refCMAC(blk, m))
		}
		jobs[i] = j
	}
	return jobs
}

// cmacResetChain: ONE object MACs all messages of the job, Reset in between.
func cmacResetChain(j cmacJob, h hash.Hash, tag string, withSum bool) {
	bs := h.Size()
	for k, m := range j.msgs {
		buf := append([]byte{}, m...)
		// in two pieces, the caller's buffer is overwritten after each Write
		c := len(buf) / 3
		h.Write(buf[:c])
		h.Write(buf[c:])
		for i := range buf {
			buf[i] = 0xAA
		}
		got := h.Sum(nil)
		r.Eval(1)
		if !bytes.Equal(got, j.want[k]) {
			prev := -1
			if k > 0 {
				prev = len(j.msgs[k-1])
			}
			r.Violation(fmt.Sprintf("cmac:reset-chain:b%d", bs), fmt.Sprintf("%s (%s): message #%d (len %d) on an object that had MACed a %d-byte message before the Reset: got %x want %x", j.spec.name, tag, k, len(m), prev, got, j.want[k]),
				map[string]any{"cipher": j.spec.name, "key_hex": mon.FullHex(j.key), "msg_hex": mon.FullHex(m), "previous_len": prev, "phase": tag})
		}
		held.hold("cmac.Sum", got, fmt.Sprintf("%s len=%d", j.spec.name, len(m)))
		if !withSum && k+1 < len(j.msgs) {
			// next message is written after a Reset that follows a Write directly (no Sum in between)
			h.Reset()
			h.Write(j.msgs[k+1])
		}
		h.Reset()
	}
}

func cmacState() {
	jobs := makeCMACJobs(r.Pick(40, 400), "cmac-state")
	// one object per job, sequential
	for i, j := range jobs {
		blk := j.spec.mk(j.key)
		cs := map[string]any{"cipher": j.spec.name, "key_hex": mon.FullHex(j.key)}
		libCMAC(blk, "reset-chain", cs, func(h hash.Hash) { cmacResetChain(j, h, "one object", i%2 == 0) })
		r.Nontrivial(fmt.Sprintf("cmac-reset-chain|%s|%d", j.spec.name, i))
	}
	// two objects over the SAME cipher.Block and two over another key, interleaved message by message
	for i := 0; i+1 < len(jobs); i += 2 {
		a, b := jobs[i], jobs[i+1]
		blkA, blkB := a.spec.mk(a.key), b.spec.mk(b.key)
		cs := map[string]any{"cipher_a": a.spec.name, "key_a_hex": mon.FullHex(a.key), "cipher_b": b.spec.name, "key_b_hex": mon.FullHex(b.key)}
		p, v, st := mon.Guard(func() {
			ha, ha2, hb := cmac.New(blkA), cmac.New(blkA), cmac.New(blkB)
			for k := range a.msgs {
				ma, mb := a.msgs[k], b.msgs[k]
				ma2 := a.msgs[(k+1)%len(a.msgs)]
				// byte-interleaved writes
				for x := 0; x < max(len(ma), len(mb), len(ma2)); x++ {
					if x < len(ma) {
						ha.Write(ma[x : x+1])
					}
					if x < len(mb) {
						hb.Write(mb[x : x+1])
					}
					if x < len(ma2) {
						ha2.Write(ma2[x : x+1])
					}
				}
				ta, tb, ta2 := ha.Sum(nil), hb.Sum(nil), ha2.Sum(nil)
				r.Eval(3)
				if !bytes.Equal(ta, a.want[k]) || !bytes.Equal(tb, b.want[k]) || !bytes.Equal(ta2, a.want[(k+1)%len(a.msgs)]) {
					r.Violation(fmt.Sprintf("cmac:interleaved-objects:b%d", ha.Size()), fmt.Sprintf("three cmac objects (two over one %s key, one over a %s key) written in turn: tags %x %x %x, want %x %x %x", a.spec.name, b.spec.name, ta, ta2, tb, a.want[k], a.want[(k+1)%len(a.msgs)], b.want[k]), cs)
				}
				held.hold("cmac.Sum", ta, a.spec.name)
				held.hold("cmac.Sum", tb, b.spec.name)
				ha.Reset()
				hb.Reset()
				ha2.Reset()
			}
		})
		if p {
			r.Violation("cmac:panic:interleaved:"+mon.PanicClass(v), fmt.Sprintf("panic %v at %s", v, mon.TopLibFrame(st)), cs)
		}
		r.Nontrivial(fmt.Sprintf("cmac-interleaved|%s|%s|%d", a.spec.name, b.spec.name, i))
	}
	// concurrent callers, each with its own object
	rounds := r.Pick(40, 40)
	var wg sync.WaitGroup
	for w := 0; w < concurrentCallers; w++ {
		wg.Add(1)
		go func() {
			defer wg.Done()
			// every goroutine walks all jobs (from its own starting point), several rounds, several Sum calls per
			// message: the window in which two callers could meet in shared scratch memory is a few hundred ns
			for round := 0; round < rounds; round++ {
				for x := range jobs {
					j := jobs[(x+w*len(jobs)/concurrentCallers)%len(jobs)]
					blk := j.spec.mk(j.key)
					cs := map[string]any{"cipher": j.spec.name, "key_hex": mon.FullHex(j.key), "callers": concurrentCallers}
					libCMAC(blk, "concurrent", cs, func(h hash.Hash) {
						for k, m := range j.msgs {
							h.Write(m)
							for rep := 0; rep < 4; rep++ {
								got := h.Sum(nil)
								if !bytes.Equal(got, j.want[k]) {
									r.Violation(fmt.Sprintf("cmac:concurrent-callers:b%d", h.Size()), fmt.Sprintf("%d goroutines, each with its own cmac object: %s len=%d got %x want %x", concurrentCallers, j.spec.name, len(m), got, j.want[k]), cs)
								}
							}
							h.Reset()
						}
					})
					r.Eval(4 * len(j.msgs))
				}
			}
		}()
	}
	wg.Wait()
	r.Nontrivial(fmt.Sprintf("cmac-concurrent|%d", len(jobs)))
}

// ---------------------------------------------------------------------------------
// PKCS#7

type padJob struct {
	m    []byte
	b    int
	want []byte
}

func pkcs7State() {
	rng := r.Rand("pkcs7-state")
	n := r.Pick(4000, 40000)
	jobs := make([]padJob, n)
	for i := range jobs {
		b := []int{1, 2, 8, 16, 255, 1 + rng.IntN(255)}[i%6]
		l := []int{0, 1, b - 1, b, b + 1, 255, 256, 300, rng.IntN(600)}[(i/6)%9]
		m := gen.Bytes(rng, l)
		jobs[i] = padJob{m: m, b: b, want: refPad(m, b)}
	}
	type kept struct {
		out []byte
		j   padJob
	}
	var keep []kept
	for i, j := range jobs {
		in := make([]byte, len(j.m)) // exact capacity: the result cannot share the caller's array
		copy(in, j.m)
		var out []byte
		var err error
		p, v, st := mon.Guard(func() { out, err = pkcs7.Pad(in, uint8(j.b)) })
		r.Eval(1)
		cs := map[string]any{"block_size": j.b, "msg_hex": mon.FullHex(j.m)}
		if p {
			r.Violation("pkcs7.Pad:panic:"+mon.PanicClass(v), fmt.Sprintf("panic %v at %s", v, mon.TopLibFrame(st)), cs)
			continue
		}
		if err != nil || !bytes.Equal(out, j.want) {
			r.Violation("pkcs7.Pad:sequence:value", fmt.Sprintf("call #%d of a sequence: Pad(len=%d, b=%d) = %d bytes ending %s (err %v), want %d bytes ending %s", i, len(j.m), j.b, len(out), tailHex(out), err, len(j.want), tailHex(j.want)), cs)
			continue
		}
		held.hold("pkcs7.Pad", out, fmt.Sprintf("len=%d b=%d", len(j.m), j.b))
		if i%16 == 0 {
			keep = append(keep, kept{out, j})
		}
		// Unpad of a copy: the result must stay what it was after later calls
		cp := append([]byte{}, out...)
		var back []byte
		p, _, _ = mon.Guard(func() { back, err = pkcs7.Unpad(cp) })
		r.Eval(1)
		if !p && err == nil {
			if !bytes.Equal(back, j.m) {
				r.Violation("pkcs7.Unpad:sequence:value", fmt.Sprintf("call #%d of a sequence: Unpad(Pad(m,b=%d)) with len(m)=%d gave %d bytes", i, j.b, len(j.m), len(back)), cs)
			}
			held.hold("pkcs7.Unpad", back, fmt.Sprintf("len=%d b=%d", len(j.m), j.b))
		}
	}
	// outputs kept since the beginning: still the right padding, still invertible
	for _, k := range keep {
		r.Eval(1)
		if !bytes.Equal(k.out, k.j.want) {
			r.Violation("pkcs7.Pad:held-output-changed", fmt.Sprintf("a result of Pad(len=%d, b=%d) kept by the caller changed during later Pad/Unpad calls", len(k.j.m), k.j.b), map[string]any{"block_size": k.j.b, "msg_hex": mon.FullHex(k.j.m)})
		}
	}
	// observation (unchanged tree): Pad appends to its argument; with spare capacity two results share memory
	shared := 0
	for _, b := range []int{4, 8, 16} {
		arr := make([]byte, 3, 64)
		copy(arr, "abc")
		o1, _ := pkcs7.Pad(arr, uint8(b))
		w1 := append([]byte{}, o1...)
		pkcs7.Pad(arr, uint8(2*b))
		if !bytes.Equal(o1, w1) {
			shared++
		}
	}
	r.Count("pkcs7_pad_result_shares_spare_capacity_of_argument(observation, not judged)", shared)

	// concurrent callers
	var wg sync.WaitGroup
	for w := 0; w < concurrentCallers; w++ {
		wg.Add(1)
		go func() {
			defer wg.Done()
			for i := w; i < len(jobs); i += concurrentCallers {
				j := jobs[i]
				in := append(make([]byte, 0, len(j.m)), j.m...)
				var out, back []byte
				var err, err2 error
				p, v, st := mon.Guard(func() {
					out, err = pkcs7.Pad(in, uint8(j.b))
					if err == nil {
						back, err2 = pkcs7.Unpad(append([]byte{}, out...))
					}
				})
				r.Eval(2)
				cs := map[string]any{"block_size": j.b, "msg_hex": mon.FullHex(j.m), "callers": concurrentCallers}
				if p {
					r.Violation("pkcs7:panic:concurrent:"+mon.PanicClass(v), fmt.Sprintf("panic %v at %s", v, mon.TopLibFrame(st)), cs)
				} else if err != nil || !bytes.Equal(out, j.want) {
					r.Violation("pkcs7.Pad:concurrent-callers", fmt.Sprintf("%d goroutines: Pad(len=%d, b=%d) differs from the single-caller value (err %v)", concurrentCallers, len(j.m), j.b, err), cs)
				} else if err2 != nil || !bytes.Equal(back, j.m) {
					r.Violation("pkcs7.Unpad:concurrent-callers", fmt.Sprintf("%d goroutines: Unpad(Pad(m,b=%d)) with len(m)=%d gave (%d bytes, %v)", concurrentCallers, j.b, len(j.m), len(back), err2), cs)
				}
			}
		}()
	}
	wg.Wait()
	r.Nontrivial(fmt.Sprintf("pkcs7-state|%d", n))
}

// ---------------------------------------------------------------------------------
// GPP

func gppKeyIntact(when string) {
	r.Eval(1)
	if !bytes.Equal(gppp.GPPP_AES_KEY, msGPPKey[:]) {
		r.Violation("gppp.GPPP_AES_KEY:modified", fmt.Sprintf("the package-level key is not the published MS-GPPREF key %s: %x", when, gppp.GPPP_AES_KEY), map[string]any{"when": when})
	}
}

func gppState() {
	gppKeyIntact("before the workload")
	rng := r.Rand("gpp-state")
	n := r.Pick(4000, 40000)
	type job struct {
		pw, want string
		raw      []byte
	}
	jobs := make([]job, n)
	for i := range jobs {
		ln := []int{0, 1, 7, 8, 9, 15, 16, 17, 120, 130, rng.IntN(64), rng.IntN(300)}[i%12]
		pw := gen.UnicodeString(rng, ln, rng.IntN(len(gen.ClassNames)+1)-1)
		raw := refGPPEncryptRaw(pw)
		jobs[i] = job{pw: pw, raw: raw, want: base64.StdEncoding.EncodeToString(raw)}
	}
	// sequence: long password then short one, results compared after both calls
	for i := 0; i+1 < len(jobs) && i < 600; i += 2 {
		a, b := jobs[i], jobs[i+1]
		if len(a.pw) < len(b.pw) {
			a, b = b, a
		}
		cs := map[string]any{"first": a.pw, "second": b.pw}
		p, v, st := mon.Guard(func() {
			ea, _ := gppp.GPPPEncrypt(a.pw)
			eb, _ := gppp.GPPPEncrypt(b.pw)
			da, _ := gppp.GPPPDecryptBytes(append([]byte{}, a.raw...))
			db, _ := gppp.GPPPDecryptBytes(append([]byte{}, b.raw...))
			r.Eval(4)
			if ea != a.want || eb != b.want || da != a.pw || db != b.pw {
				r.Violation("gppp:sequence:value", fmt.Sprintf("Encrypt(%d chars), Encrypt(%d chars), Decrypt, Decrypt in a row: a result differs from the single-call value", len(a.pw), len(b.pw)), cs)
			}
		})
		if p {
			r.Violation("gppp:panic:"+mon.TopLibFrame(st), fmt.Sprintf("panic %v", v), cs)
		}
	}
	// sequence: a call that is refused (or that decrypts garbage) followed by a valid one; the
	// valid one must give its single-call value whatever came before it
	for i := 0; i < len(jobs) && i < r.Pick(1200, 12000); i++ {
		j := jobs[i]
		var bad []byte
		kind := i % 8
		switch kind {
		case 0: // last block corrupted: padding check fails
			bad = append([]byte{}, j.raw...)
			bad[len(bad)-1-rng.IntN(16)] ^= byte(1 + rng.IntN(255))
		case 1: // random blocks
			bad = gen.Bytes(rng, 16*(1+rng.IntN(4)))
		case 2: // not a multiple of the block size
			bad = gen.Bytes(rng, 1+rng.IntN(15)+16*rng.IntN(3))
		case 3: // empty
			bad = nil
		case 4: // first block corrupted: padding may still be fine, text is garbage
			bad = append([]byte{}, j.raw...)
			bad[rng.IntN(16)] ^= 0x80
		case 5: // truncated by one block
			bad = append([]byte{}, j.raw[:len(j.raw)-16]...)
		case 6: // another valid ciphertext with a block appended
			bad = append(append([]byte{}, j.raw...), gen.Bytes(rng, 16)...)
		default: // bad base64 (handled below)
		}
		cs := map[string]any{"password": j.pw, "refused_first_kind": kind, "refused_first_hex": mon.FullHex(bad)}
		p, v, st := mon.Guard(func() {
			if kind == 7 {
				gppp.GPPPDecryptBase64("!!not base64!!" + j.want)
			} else if i%2 == 0 {
				gppp.GPPPDecryptBytes(bad)
			} else {
				gppp.GPPPDecryptBase64(base64.StdEncoding.EncodeToString(bad))
			}
			da, ea := gppp.GPPPDecryptBytes(append([]byte{}, j.raw...))
			db, eb := gppp.GPPPDecryptBase64(j.want)
			enc, ee := gppp.GPPPEncrypt(j.pw)
			r.Eval(4)
			if ea != nil || eb != nil || ee != nil || da != j.pw || db != j.pw || enc != j.want {
				r.Violation("gppp:sequence:after-refused-call", fmt.Sprintf("after a decryption call on a bad ciphertext (kind %d) the next calls give (%q,%v) (%q,%v) (%s,%v) for the cpassword of %q", kind, da, ea, db, eb, enc, ee, j.pw), cs)
			}
		})
		if p {
			r.Violation("gppp:panic:"+mon.TopLibFrame(st), fmt.Sprintf("panic %v", v), cs)
		}
	}
	var wg sync.WaitGroup
	for w := 0; w < concurrentCallers; w++ {
		wg.Add(1)
		go func() {
			defer wg.Done()
			for i := w; i < len(jobs); i += concurrentCallers {
				j := jobs[i]
				cs := map[string]any{"password": j.pw, "password_hex": mon.FullHex([]byte(j.pw)), "callers": concurrentCallers}
				p, v, st := mon.Guard(func() {
					enc, err := gppp.GPPPEncrypt(j.pw)
					r.Eval(1)
					if err != nil || enc != j.want {
						r.Violation("gppp.GPPPEncrypt:concurrent-callers", fmt.Sprintf("%d goroutines: GPPPEncrypt(%q) = (%s, %v), the single-caller value is %s", concurrentCallers, j.pw, enc, err, j.want), cs)
					}
					dec, err := gppp.GPPPDecryptBase64(j.want)
					r.Eval(1)
					if err != nil || dec != j.pw {
						r.Violation("gppp.GPPPDecryptBase64:concurrent-callers", fmt.Sprintf("%d goroutines: decrypting the cpassword of %q gave (%q, %v)", concurrentCallers, j.pw, dec, err), cs)
					}
					dec, err = gppp.GPPPDecryptBytes(append([]byte{}, j.raw...))
					r.Eval(1)
					if err != nil || dec != j.pw {
						r.Violation("gppp.GPPPDecryptBytes:concurrent-callers", fmt.Sprintf("%d goroutines: decrypting the raw ciphertext of %q gave (%q, %v)", concurrentCallers, j.pw, dec, err), cs)
					}
				})
				if p {
					r.Violation("gppp:panic:concurrent:"+mon.TopLibFrame(st), fmt.Sprintf("panic %v on password %q", v, j.pw), cs)
				}
			}
		}()
	}
	wg.Wait()
	gppKeyIntact("after the workload")
	r.Nontrivial(fmt.Sprintf("gpp-state|%d", n))
}

// ---------------------------------------------------------------------------------

func stateWorkload() {
	jobs := makeRC4Jobs(r.Pick(72, 720), "rc4-state")
	for lo := 0; lo+6 <= len(jobs); lo += 6 {
		rc4Interleaved(jobs[lo:lo+6], fmt.Sprintf("group %d", lo/6))
	}
	rc4Interleaved(jobs[:min(len(jobs), 36)], "36 objects")
	rc4ResetHistory(jobs[:min(len(jobs), 72)])
	rc4Concurrent(jobs)
	cmacState()
	pkcs7State()
	gppState()
	held.final()
	r.Count("held_outputs", held.n)
}
