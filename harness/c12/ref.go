// Reference models for C12, written from the standards (not from the library):
// textbook RC4 (Schneier / RFC 6229 description), CMAC per RFC 4493 §2.3/§2.4 and
// SP 800-38B §6.1/§6.2 (one-shot, message split into blocks up front, sub-keys by
// arbitrary-precision shift), PKCS#7 (RFC 5652 §6.3) as a predicate, and MS-GPPREF
// §2.2.1.1.4 cpassword encryption as a hand-rolled CBC loop over crypto/aes.
package main

import (
	"crypto/aes"
	"crypto/cipher"
	"encoding/base64"
	"math/big"
	"unicode/utf16"
)

// ---------------------------------------------------------------- RC4

// refRC4 is RC4 written with ints and explicit mod 256.
func refRC4(key, data []byte) []byte {
	S := make([]int, 256)
	for i := range S {
		S[i] = i
	}
	j := 0
	for i := 0; i < 256; i++ {
		j = (j + S[i] + int(key[i%len(key)])) % 256
		S[i], S[j] = S[j], S[i]
	}
	out := make([]byte, len(data))
	i := 0
	j = 0
	for n, b := range data {
		i = (i + 1) % 256
		j = (j + S[i]) % 256
		S[i], S[j] = S[j], S[i]
		out[n] = b ^ byte(S[(S[i]+S[j])%256])
	}
	return out
}

// ---------------------------------------------------------------- CMAC

// refSubkeys derives K1, K2: L = E(0); K1 = L<<1 (xor Rb if msb(L)); K2 = K1<<1 (...).
// Done on big integers so that nothing is shared with a byte-loop shift.
func refSubkeys(c cipher.Block) (k1, k2 []byte) {
	bs := c.BlockSize()
	L := make([]byte, bs)
	c.Encrypt(L, L)
	rb := int64(0x87)
	if bs == 8 {
		rb = 0x1B
	}
	mod := new(big.Int).Lsh(big.NewInt(1), uint(8*bs))
	dbl := func(x []byte) []byte {
		v := new(big.Int).SetBytes(x)
		msb := v.Bit(8*bs-1) == 1
		v.Lsh(v, 1)
		v.Mod(v, mod)
		if msb {
			v.Xor(v, big.NewInt(rb))
		}
		out := make([]byte, bs)
		v.FillBytes(out)
		return out
	}
	k1 = dbl(L)
	k2 = dbl(k1)
	return
}

// refCMAC is RFC 4493 §2.4 Algorithm AES-CMAC, generalised to the block size of c.
func refCMAC(c cipher.Block, m []byte) []byte {
	bs := c.BlockSize()
	k1, k2 := refSubkeys(c)
	n := (len(m) + bs - 1) / bs
	complete := false
	if n == 0 {
		n = 1
	} else {
		complete = len(m)%bs == 0
	}
	last := make([]byte, bs)
	if complete {
		copy(last, m[(n-1)*bs:])
		for i := range last {
			last[i] ^= k1[i]
		}
	} else {
		rem := m[(n-1)*bs:]
		copy(last, rem)
		last[len(rem)] = 0x80
		for i := range last {
			last[i] ^= k2[i]
		}
	}
	x := make([]byte, bs)
	y := make([]byte, bs)
	for i := 0; i < n-1; i++ {
		for k := 0; k < bs; k++ {
			y[k] = x[k] ^ m[i*bs+k]
		}
		c.Encrypt(x, y)
	}
	for k := 0; k < bs; k++ {
		y[k] = last[k] ^ x[k]
	}
	t := make([]byte, bs)
	c.Encrypt(t, y)
	return t
}

// ---------------------------------------------------------------- PKCS#7

// refPadValid says whether buf ends in valid PKCS#7 padding and, if so, how long it is.
// (RFC 5652 §6.3: the input is padded at the trailing end with k-(l mod k) octets all
// having value k-(l mod k); an unpadder that is not told k can only check that the
// last octet p satisfies 1 <= p <= len and that the last p octets equal p.)
func refPadValid(buf []byte) (int, bool) {
	if len(buf) == 0 {
		return 0, false
	}
	p := int(buf[len(buf)-1])
	if p == 0 || p > len(buf) {
		return 0, false
	}
	for _, b := range buf[len(buf)-p:] {
		if int(b) != p {
			return 0, false
		}
	}
	return p, true
}

// refPad builds the padded message in one allocation.
func refPad(m []byte, b int) []byte {
	p := b - len(m)%b
	out := make([]byte, len(m)+p)
	copy(out, m)
	for i := len(m); i < len(out); i++ {
		out[i] = byte(p)
	}
	return out
}

// ---------------------------------------------------------------- GPP

// msGPPKey is the AES-256 key Microsoft published in MS-GPPREF §2.2.1.1.4.
var msGPPKey = [32]byte{
	0x4e, 0x99, 0x06, 0xe8, 0xfc, 0xb6, 0x6c, 0xc9, 0xfa, 0xf4, 0x93, 0x10, 0x62, 0x0f, 0xfe, 0xe8,
	0xf4, 0x96, 0xe8, 0x06, 0xcc, 0x05, 0x79, 0x90, 0x20, 0x9b, 0x09, 0xa4, 0x33, 0xb6, 0x6c, 0x1b,
}

func refUTF16LE(s string) []byte {
	u := utf16.Encode([]rune(s))
	out := make([]byte, 0, 2*len(u))
	for _, w := range u {
		out = append(out, byte(w&0xFF), byte(w>>8))
	}
	return out
}

// refGPPEncryptRaw = AES-256-CBC(key, IV=0, PKCS7(UTF16LE(p))) with a manual CBC chain.
func refGPPEncryptRaw(p string) []byte {
	blk, err := aes.NewCipher(msGPPKey[:])
	if err != nil {
		panic(err)
	}
	pt := refPad(refUTF16LE(p), 16)
	out := make([]byte, len(pt))
	prev := make([]byte, 16)
	for i := 0; i < len(pt); i += 16 {
		var x [16]byte
		for k := 0; k < 16; k++ {
			x[k] = pt[i+k] ^ prev[k]
		}
		blk.Encrypt(out[i:i+16], x[:])
		prev = out[i : i+16]
	}
	return out
}

func refGPPEncrypt(p string) string {
	return base64.StdEncoding.EncodeToString(refGPPEncryptRaw(p))
}

// refGPPDecryptRaw inverts refGPPEncryptRaw (manual CBC); ok=false if padding or UTF-16 shape is wrong.
func refGPPDecryptRaw(ct []byte) (string, bool) {
	if len(ct) == 0 || len(ct)%16 != 0 {
		return "", false
	}
	blk, _ := aes.NewCipher(msGPPKey[:])
	pt := make([]byte, len(ct))
	prev := make([]byte, 16)
	for i := 0; i < len(ct); i += 16 {
		blk.Decrypt(pt[i:i+16], ct[i:i+16])
		for k := 0; k < 16; k++ {
			pt[i+k] ^= prev[k]
		}
		prev = ct[i : i+16]
	}
	p, ok := refPadValid(pt)
	if !ok {
		return "", false
	}
	pt = pt[:len(pt)-p]
	if len(pt)%2 != 0 {
		return "", false
	}
	u := make([]uint16, len(pt)/2)
	for i := range u {
		u[i] = uint16(pt[2*i]) | uint16(pt[2*i+1])<<8
	}
	return string(utf16.Decode(u)), true
}
