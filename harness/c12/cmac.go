package main

import (
	"bytes"
	"crypto/aes"
	"crypto/cipher"
	"crypto/des"
	"encoding/hex"
	"fmt"
	"hash"

	"github.com/TheManticoreProject/Manticore/crypto/cmac"

	"verif/gen"
	"verif/mon"
)

type blockSpec struct {
	name string
	mk   func(key []byte) cipher.Block
	klen int
}

var blockSpecs = []blockSpec{
	{"aes128", func(k []byte) cipher.Block { c, _ := aes.NewCipher(k); return c }, 16},
	{"aes192", func(k []byte) cipher.Block { c, _ := aes.NewCipher(k); return c }, 24},
	{"aes256", func(k []byte) cipher.Block { c, _ := aes.NewCipher(k); return c }, 32},
	{"des", func(k []byte) cipher.Block { c, _ := des.NewCipher(k); return c }, 8},
	{"3des", func(k []byte) cipher.Block { c, _ := des.NewTripleDESCipher(k); return c }, 24},
}

func unhex(s string) []byte {
	b, err := hex.DecodeString(s)
	if err != nil {
		panic(err)
	}
	return b
}

// the 64-byte message of RFC 4493 §4 / SP 800-38B appendix D
var nistMsg = unhex("6bc1bee22e409f96e93d7e117393172aae2d8a571e03ac9c9eb76fac45af8e5130c81c46a35ce411e5fbc1191a0a52eff69f2445df4f9b17ad2b417be66c3710")

type cmacVector struct {
	spec int
	key  string
	mlen int
	tag  string
}

// RFC 4493 §4 (AES-128) and SP 800-38B appendix D (AES-192, AES-256, three-key TDEA).
var cmacVectors = []cmacVector{
	{0, "2b7e151628aed2a6abf7158809cf4f3c", 0, "bb1d6929e95937287fa37d129b756746"},
	{0, "2b7e151628aed2a6abf7158809cf4f3c", 16, "070a16b46b4d4144f79bdd9dd04a287c"},
	{0, "2b7e151628aed2a6abf7158809cf4f3c", 40, "dfa66747de9ae63030ca32611497c827"},
	{0, "2b7e151628aed2a6abf7158809cf4f3c", 64, "51f0bebf7e3b9d92fc49741779363cfe"},
	{1, "8e73b0f7da0e6452c810f32b809079e562f8ead2522c6b7b", 0, "d17ddf46adaacde531cac483de7a9367"},
	{1, "8e73b0f7da0e6452c810f32b809079e562f8ead2522c6b7b", 16, "9e99a7bf31e710900662f65e617c5184"},
	{1, "8e73b0f7da0e6452c810f32b809079e562f8ead2522c6b7b", 40, "8a1de5be2eb31aad089a82e6ee908b0e"},
	{1, "8e73b0f7da0e6452c810f32b809079e562f8ead2522c6b7b", 64, "a1d5df0eed790f794d77589659f39a11"},
	{2, "603deb1015ca71be2b73aef0857d77811f352c073b6108d72d9810a30914dff4", 0, "028962f61b7bf89efc6b551f4667d983"},
	{2, "603deb1015ca71be2b73aef0857d77811f352c073b6108d72d9810a30914dff4", 16, "28a7023f452e8f82bd4bf28d8c37c35c"},
	{2, "603deb1015ca71be2b73aef0857d77811f352c073b6108d72d9810a30914dff4", 40, "aaf3d8f1de5640c232f5b169b9c911e6"},
	{2, "603deb1015ca71be2b73aef0857d77811f352c073b6108d72d9810a30914dff4", 64, "e1992190549f6ed5696a2c056c315410"},
	{4, "8aa83bf8cbda10620bc1bf19fbb6cd58bc313d4a371ca8b5", 0, "b7a688e122ffaf95"},
	{4, "8aa83bf8cbda10620bc1bf19fbb6cd58bc313d4a371ca8b5", 8, "8e8f293136283797"},
	{4, "8aa83bf8cbda10620bc1bf19fbb6cd58bc313d4a371ca8b5", 20, "743ddbe0ce2dc2ed"},
	{4, "8aa83bf8cbda10620bc1bf19fbb6cd58bc313d4a371ca8b5", 32, "33e6b1092400eae5"},
}

func shapeOf(n, bs int) string {
	switch {
	case n == 0:
		return "empty"
	case n%bs == 0:
		return "full"
	}
	return "partial"
}

// libCMAC runs f on a fresh cmac object built by the library, guarded.
func libCMAC(blk cipher.Block, what string, cs map[string]any, f func(h hash.Hash)) bool {
	p, v, st := mon.Guard(func() { f(cmac.New(blk)) })
	if p {
		r.Violation(fmt.Sprintf("cmac:panic:%s:b%d", mon.PanicClass(v), blk.BlockSize()), fmt.Sprintf("panic %v at %s during %s", v, mon.TopLibFrame(st), what), cs)
		return false
	}
	return true
}

func cmacMessage(spec blockSpec, key, m []byte, full bool) {
	blk := spec.mk(key)
	bs := blk.BlockSize()
	b := fmt.Sprintf("b%d", bs)
	want := refCMAC(blk, m)
	cs := map[string]any{"cipher": spec.name, "key_hex": mon.FullHex(key), "msg_hex": mon.FullHex(m)}
	shape := shapeOf(len(m), bs)

	// every Write takes all it is given (hash.Hash: "It never returns an error"; io.Writer: n == len(p))
	write := func(h hash.Hash, b []byte) {
		n, err := h.Write(b)
		if n != len(b) || err != nil {
			r.Violation("cmac.Write:return", fmt.Sprintf("Write returned (%d,%v) for %d bytes in the middle of a message", n, err, len(b)), cs)
		}
	}
	// one Write, one Sum
	libCMAC(blk, "one-shot", cs, func(h hash.Hash) {
		n, err := h.Write(m)
		if n != len(m) || err != nil {
			r.Violation("cmac.Write:return", fmt.Sprintf("Write returned (%d,%v) for %d bytes", n, err, len(m)), cs)
		}
		got := h.Sum(nil)
		r.Eval(1)
		if !bytes.Equal(got, want) {
			r.Violation("cmac:tag:oneshot:"+b+":"+shape, fmt.Sprintf("%s len=%d got %x want %x", spec.name, len(m), got, want), cs)
		}
		if h.Size() != bs {
			r.Violation("cmac.Size:value", fmt.Sprintf("%s Size()=%d, tag is %d bytes", spec.name, h.Size(), bs), cs)
		}
		// Sum appends to its argument and leaves the prefix alone
		pre := []byte{0xDE, 0xAD, 0xBE}
		got2 := h.Sum(pre)
		r.Eval(1)
		if !bytes.Equal(got2, append([]byte{0xDE, 0xAD, 0xBE}, want...)) {
			r.Violation("cmac.Sum:append:"+b, fmt.Sprintf("Sum(prefix) = %x, want prefix‖%x", got2, want), cs)
		}
		// an earlier result must not be rewritten by later activity on the object
		keep := append([]byte{}, got...)
		h.Write([]byte{1, 2, 3})
		h.Sum(nil)
		if !bytes.Equal(got, keep) {
			r.Violation("cmac.Sum:result-aliased:"+b, "a tag returned by Sum changed after later Write/Sum on the same object", cs)
		}
	})
	if !full {
		return
	}
	// every 2-way split
	for c := 0; c <= len(m); c++ {
		libCMAC(blk, "split", cs, func(h hash.Hash) {
			write(h, m[:c])
			write(h, m[c:])
			got := h.Sum(nil)
			r.Eval(1)
			if !bytes.Equal(got, want) {
				r.Violation("cmac:tag:split:"+b, fmt.Sprintf("%s len=%d split at %d got %x want %x", spec.name, len(m), c, got, want), cs)
			}
		})
		if c > 0 && c < len(m) {
			r.Nontrivial(fmt.Sprintf("cmac|split|%s|%d|%d", spec.name, len(m), c))
		}
	}
	// byte at a time, Sum at every prefix: each intermediate tag is the CMAC of the prefix
	// and the reads do not disturb the final tag
	libCMAC(blk, "sum-at-every-prefix", cs, func(h hash.Hash) {
		badPrefix, first := false, -1
		for i := 0; i <= len(m); i++ {
			got := h.Sum(nil)
			r.Eval(1)
			if !bytes.Equal(got, refCMAC(blk, m[:i])) && !badPrefix {
				badPrefix, first = true, i
			}
			if i < len(m) {
				write(h, m[i:i+1])
			}
		}
		final := h.Sum(nil)
		again := h.Sum(nil)
		r.Eval(2)
		if badPrefix {
			r.Violation("cmac:sum-prefix:"+b, fmt.Sprintf("%s: Sum after %d of %d bytes (byte-wise writes, a Sum after each) is not the CMAC of that prefix", spec.name, first, len(m)), cs)
		}
		if !bytes.Equal(final, want) {
			r.Violation("cmac:sum-interleaved:"+b, fmt.Sprintf("%s len=%d: final tag after interleaved Sum calls %x want %x", spec.name, len(m), final, want), cs)
		}
		if !bytes.Equal(final, again) {
			r.Violation("cmac:sum-repeat:"+b, fmt.Sprintf("%s len=%d: two consecutive Sum calls differ: %x then %x", spec.name, len(m), final, again), cs)
		}
	})
	if len(m) > 1 {
		r.Nontrivial(fmt.Sprintf("cmac|prefixsum|%s|%d", spec.name, len(m)))
	}
	// Reset: junk of every residue class of the block, Reset, then the message
	for _, junk := range []int{0, 1, bs - 1, bs, bs + 1, 2*bs + 3} {
		libCMAC(blk, "reset", cs, func(h hash.Hash) {
			h.Write(bytes.Repeat([]byte{0x5C}, junk))
			h.Sum(nil)
			h.Reset()
			write(h, m)
			got := h.Sum(nil)
			r.Eval(1)
			if !bytes.Equal(got, want) {
				r.Violation("cmac:reset:"+b, fmt.Sprintf("%s: %d junk bytes, Sum, Reset, then len=%d: got %x want %x", spec.name, junk, len(m), got, want), cs)
			}
			// Reset right after a finished message, then the message again
			h.Reset()
			h.Write(m)
			if got := h.Sum(nil); !bytes.Equal(got, want) {
				r.Violation("cmac:reset:"+b, fmt.Sprintf("%s: second use after Reset len=%d: got %x want %x", spec.name, len(m), got, want), cs)
			}
			r.Eval(1)
		})
	}
	r.Nontrivial(fmt.Sprintf("cmac|reset|%s|%d", spec.name, len(m)))
}

func cmacWorkload() {
	rng := r.Rand("cmac")
	// anchors: the published vectors validate the reference; the library is judged on them too
	for _, v := range cmacVectors {
		spec := blockSpecs[v.spec]
		blk := spec.mk(unhex(v.key))
		if got := refCMAC(blk, nistMsg[:v.mlen]); hex.EncodeToString(got) != v.tag {
			r.Inconclusive(fmt.Sprintf("reference CMAC fails the published %s vector for Mlen=%d: %x", spec.name, v.mlen, got))
		}
		cmacMessage(spec, unhex(v.key), nistMsg[:v.mlen], true)
	}
	r.Sample(map[string]any{"kind": "cmac", "cipher": "aes128", "key_hex": cmacVectors[2].key, "msg_len": 40, "tag": cmacVectors[2].tag, "checked": "one-shot, 41 two-way splits, Sum at each of 41 prefixes, 6 Reset scenarios"})
	r.Sample(map[string]any{"kind": "cmac", "cipher": "3des", "key_hex": cmacVectors[14].key, "msg_len": 20, "tag": cmacVectors[14].tag, "checked": "same"})

	maxLen := r.Pick(100, 200)
	// deterministic keys first (one per cipher), then seeded keys
	nKeys := r.Pick(3, 8)
	for si, spec := range blockSpecs {
		for ki := 0; ki < nKeys; ki++ {
			var key []byte
			if ki == 0 {
				key = make([]byte, spec.klen)
				for i := range key {
					key[i] = byte(0x10*si + 3*i + 1)
				}
			} else {
				key = gen.Bytes(rng, spec.klen)
			}
			if spec.name == "3des" || spec.name == "des" {
				// any 8/24 bytes are a valid DES key (parity ignored by crypto/des)
			}
			for n := 0; n <= maxLen; n++ {
				var m []byte
				if ki == 0 {
					m = make([]byte, n)
					for i := range m {
						m[i] = byte(n + 11*i)
					}
				} else {
					m = gen.Bytes(rng, n)
				}
				cmacMessage(spec, key, m, true)
			}
		}
	}
	// sub-key corner: keys whose L = E_K(0) has the top bit set / clear, and K1 top bit set / clear,
	// exercise all four Rb branches. Search seeded keys until each class was seen for both block sizes.
	seen := map[string]bool{}
	for t := 0; t < 400 && len(seen) < 8; t++ {
		spec := blockSpecs[[]int{0, 3}[t%2]]
		key := gen.Bytes(rng, spec.klen)
		if t < 2 {
			key = make([]byte, spec.klen)
		}
		blk := spec.mk(key)
		L := make([]byte, blk.BlockSize())
		blk.Encrypt(L, L)
		k1, _ := refSubkeys(blk)
		cls := fmt.Sprintf("%s|%d|%d", spec.name, L[0]>>7, k1[0]>>7)
		if seen[cls] {
			continue
		}
		seen[cls] = true
		for _, n := range []int{0, 1, blk.BlockSize() - 1, blk.BlockSize(), blk.BlockSize() + 1, 3 * blk.BlockSize()} {
			cmacMessage(spec, key, gen.Bytes(rng, n), true)
		}
		r.Nontrivial("cmac|subkey|" + cls)
	}
	r.Extra("cmac_subkey_branch_classes_seen", len(seen))

	// operation strings over {Write(chunk), Sum, Reset} on long-lived objects
	nOps := r.Pick(30000, 400000)
	for t := 0; t < nOps; t++ {
		spec := blockSpecs[rng.IntN(len(blockSpecs))]
		key := gen.Bytes(rng, spec.klen)
		blk := spec.mk(key)
		bs := blk.BlockSize()
		var trace []string
		var cur []byte
		cs := map[string]any{"cipher": spec.name, "key_hex": mon.FullHex(key)}
		libCMAC(blk, "op-string", cs, func(h hash.Hash) {
			steps := 3 + rng.IntN(10)
			reported := false
			for s := 0; s < steps; s++ {
				switch k := rng.IntN(7); {
				case k <= 3:
					n := []int{0, 1, bs - 1, bs, bs + 1, 2 * bs, rng.IntN(5 * bs)}[rng.IntN(7)]
					chunk := gen.Bytes(rng, n)
					if wn, werr := h.Write(chunk); wn != len(chunk) || werr != nil {
						r.Violation("cmac.Write:return", fmt.Sprintf("after %v Write returned (%d,%v) for %d bytes", trace, wn, werr, len(chunk)), cs)
					}
					cur = append(cur, chunk...)
					trace = append(trace, fmt.Sprintf("W%d", n))
				case k <= 5:
					got := h.Sum(nil)
					trace = append(trace, "S")
					r.Eval(1)
					if want := refCMAC(blk, cur); !bytes.Equal(got, want) && !reported {
						reported = true
						cs["ops"] = append([]string{}, trace...)
						cs["msg_hex"] = mon.FullHex(cur)
						r.Violation(fmt.Sprintf("cmac:opstring:b%d", bs), fmt.Sprintf("%s ops=%v: got %x want %x", spec.name, trace, got, want), cs)
					}
				default:
					h.Reset()
					cur = cur[:0]
					trace = append(trace, "R")
				}
			}
		})
		r.Nontrivial(fmt.Sprintf("cmac|ops|%s|%v", spec.name, trace))
		if t == 0 {
			r.Sample(map[string]any{"kind": "cmac-opstring", "cipher": spec.name, "ops": fmt.Sprint(trace)})
		}
	}

	// long messages in random chunkings
	for t := 0; t < r.Pick(20, 200); t++ {
		spec := blockSpecs[t%len(blockSpecs)]
		key := gen.Bytes(rng, spec.klen)
		blk := spec.mk(key)
		n := 60000 + rng.IntN(8000)
		m := gen.Bytes(rng, n)
		want := refCMAC(blk, m)
		cs := map[string]any{"cipher": spec.name, "key_hex": mon.FullHex(key), "len": n, "stream": "cmac"}
		libCMAC(blk, "long", cs, func(h hash.Hash) {
			for pos := 0; pos < n; {
				e := min(n, pos+rng.IntN(1+rng.IntN(3000)))
				if wn, werr := h.Write(m[pos:e]); wn != e-pos || werr != nil {
					r.Violation("cmac.Write:return", fmt.Sprintf("at offset %d of a long message Write returned (%d,%v) for %d bytes", pos, wn, werr, e-pos), cs)
				}
				pos = e
				if rng.IntN(20) == 0 {
					h.Sum(nil)
				}
			}
			got := h.Sum(nil)
			r.Eval(1)
			if !bytes.Equal(got, want) {
				r.Violation(fmt.Sprintf("cmac:tag:long:b%d", blk.BlockSize()), fmt.Sprintf("%s len=%d random chunking: got %x want %x", spec.name, n, got, want), cs)
			}
		})
		r.Nontrivial(fmt.Sprintf("cmac|long|%s|%d", spec.name, n))
	}
}
