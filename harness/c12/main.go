// C12: RC4, CMAC, PKCS#7 and GPP-AES match their standards and invert each other.
package main

import (
	"verif/mon"
)

var r *mon.Run

func main() {
	r = mon.Start("C12", "exploration")
	r.Rule("RC4: every key length 1..256 x boundary data lengths x {whole, byte-at-a-time, fixed and seeded chunkings, empty chunks} x {in place, separate, longer dst, adjacent halves of one array}, 1 MiB streams; non-trivial = >=2 chunks or >256 bytes (index wrap). " +
		"CMAC: AES-128/192/256, DES, 3DES; every length 0..N with every 2-way split, a Sum after every byte, six Reset scenarios, seeded Write/Sum/Reset operation strings, long messages; non-trivial = a split strictly inside the message, a prefix-Sum run over >=2 bytes, a Reset scenario, an operation string, a sub-key branch class. " +
		"PKCS#7: the whole grid b=1..255 x len 0..2b+1 (exhaustive), all buffers of length 1..6 over {00,01,02,03,FF} (exhaustive), per-pad-length near-misses, seeded buffers; non-trivial = each grid cell, each enumerated buffer that is invalid or longer than one byte, each near-miss family. " +
		"GPP: UTF-16 lengths 0..40 in four scripts, special code points, seeded Unicode passwords; each judged on Encrypt value, Decrypt(Encrypt), and the standard ciphertext as padded base64, unpadded base64 and raw bytes; non-trivial = distinct (class, length) tuple. " +
		"State monitors (state.go): RC4 objects with unrelated keys driven in turn and from 8 goroutines, Reset histories; CMAC Reset chains over every residue class on one object, three objects written byte by byte in turn, 8 goroutines; PKCS#7 and GPP call sequences and 8 concurrent callers; every returned tag/padded buffer held in a ring of 64 and compared again later; non-trivial = each group/chain/phase.")
	r.Assume(
		"crypto/aes and crypto/des block primitives of the Go standard library are correct",
		"crypto/rc4 of the standard library and the harness's textbook RC4 must agree on every case (else inconclusive); RFC 6229 anchors them",
		"the harness CMAC (one-shot transcription of RFC 4493 2.4 with big-integer sub-key doubling) reproduces the 16 published vectors of RFC 4493 and SP 800-38B appendix D (else inconclusive)",
		"Unpad is not told a block size, so 'validly padded' is: last octet p in 1..len and the last p octets equal p",
		"GPP passwords are valid UTF-8 strings (Go strings cannot carry lone surrogates); hostile ciphertexts are C07's domain",
		"the key stream of an RC4 object after Reset is not specified by the property; only absence of a crash is observed",
		"checkptr adds nothing here: the only unsafe code converts pointers to uintptr for comparison and never back",
	)
	r.SetExhaustive(false)
	r.Extra("exhaustive_subdomains", []string{"pkcs7.Pad/Unpad for all block sizes 1..255 x message lengths 0..2b+1", "pkcs7.Unpad on all buffers of length 1..6 over {00,01,02,03,FF}", "RC4 key lengths 1..256", "CMAC 2-way splits of every message length 0..N"})
	// race side run (./check builds this monitor with -race): only the workloads in which goroutines
	// use the library at the same time; the detector's reports are filed by Finish
	if mon.SideRace() {
		stateWorkload()
		r.Finish()
	}
	rc4Workload()
	cmacWorkload()
	pkcs7Workload()
	gppWorkload()
	moreWorkload()
	stateWorkload() // state.go: interleaved/concurrent objects, Reset histories, held outputs, input scribble
	r.Finish()
}
