package main

import (
	"bytes"
	stdrc4 "crypto/rc4"
	"encoding/hex"
	"fmt"
	"math/rand/v2"

	"github.com/TheManticoreProject/Manticore/crypto/rc4"

	"verif/gen"
	"verif/mon"
)

// wantRC4 is the output two independent RC4s agree on.
func wantRC4(key, data []byte) []byte {
	a := refRC4(key, data)
	c, err := stdrc4.NewCipher(key)
	if err != nil {
		r.Inconclusive(fmt.Sprintf("crypto/rc4 refuses a %d-byte key", len(key)))
		return a
	}
	b := make([]byte, len(data))
	c.XORKeyStream(b, data)
	if !bytes.Equal(a, b) {
		r.Inconclusive(fmt.Sprintf("reference RC4s disagree (key %d bytes, data %d bytes)", len(key), len(data)))
	}
	return a
}

func keyClass(n int) string {
	switch {
	case n == 1:
		return "key1"
	case n == 256:
		return "key256"
	}
	return "keymid"
}

// modes of buffer placement
const (
	mInPlace        = "inplace"  // dst and src are the same slice
	mSeparate       = "separate" // dst is a different allocation of the same length
	mLongDst        = "longdst"  // dst is longer than src; the tail must stay untouched
	mAdjacent       = "adjacent" // dst and src are neighbouring halves of one array (must not trip the overlap guard)
	mInPlaceLongDst = "inplace-longdst"
)

// rc4Case drives one cipher object through data cut at cuts and compares with want.
func rc4Case(key, data []byte, cuts []int, mode string, want []byte) {
	out := make([]byte, 0, len(data))
	var problem string
	keyCopy := append([]byte{}, key...)
	p, v, st := mon.Guard(func() {
		c, err := rc4.NewRC4WithKey(keyCopy)
		if err != nil || c == nil {
			problem = fmt.Sprintf("NewRC4WithKey refused a %d-byte key: %v", len(key), err)
			return
		}
		// the caller may reuse its key buffer afterwards: the schedule is already done
		for i := range keyCopy {
			keyCopy[i] ^= 0xA5
		}
		prev := 0
		bounds := append(append([]int{}, cuts...), len(data))
		for _, e := range bounds {
			chunk := data[prev:e]
			switch mode {
			case mInPlace:
				buf := append([]byte{}, chunk...)
				c.XORKeyStream(buf, buf)
				out = append(out, buf...)
			case mSeparate:
				src := append([]byte{}, chunk...)
				dst := make([]byte, len(chunk))
				c.XORKeyStream(dst, src)
				if !bytes.Equal(src, chunk) && problem == "" {
					problem = "src-modified"
				}
				out = append(out, dst...)
			case mLongDst:
				src := append([]byte{}, chunk...)
				dst := bytes.Repeat([]byte{0xEE}, len(chunk)+5)
				c.XORKeyStream(dst, src)
				if !bytes.Equal(dst[len(chunk):], []byte{0xEE, 0xEE, 0xEE, 0xEE, 0xEE}) && problem == "" {
					problem = "dst-tail-modified"
				}
				out = append(out, dst[:len(chunk)]...)
			case mInPlaceLongDst:
				// in place, the destination being the rest of the caller's buffer: same start,
				// longer than the source (cipher.Stream: "dst and src must overlap entirely or not
				// at all", len(dst) >= len(src))
				buf := append(append([]byte{}, chunk...), 0xEE, 0xEE, 0xEE, 0xEE, 0xEE)
				c.XORKeyStream(buf, buf[:len(chunk)])
				if !bytes.Equal(buf[len(chunk):], []byte{0xEE, 0xEE, 0xEE, 0xEE, 0xEE}) && problem == "" {
					problem = "dst-tail-modified"
				}
				out = append(out, buf[:len(chunk)]...)
			case mAdjacent:
				arr := make([]byte, 2*len(chunk))
				copy(arr[len(chunk):], chunk)
				c.XORKeyStream(arr[:len(chunk)], arr[len(chunk):])
				out = append(out, arr[:len(chunk)]...)
			}
			prev = e
		}
	})
	r.Eval(1)
	r.Count("rc4_cases", 1)
	cs := map[string]any{"key_hex": mon.FullHex(key), "data_hex": mon.FullHex(data), "cuts": cuts, "mode": mode}
	if len(data) > 8192 {
		cs["data_hex"] = fmt.Sprintf("(%d bytes, stream rc4 seed-derived)", len(data))
	}
	split := "whole"
	if len(cuts) > 0 {
		split = "chunked"
	}
	switch {
	case p:
		r.Violation("rc4.XORKeyStream:panic:"+mon.PanicClass(v)+":"+mode, fmt.Sprintf("panic %v at %s (key %d bytes, data %d bytes, cuts %v, %s)", v, mon.TopLibFrame(st), len(key), len(data), short(cuts), mode), cs)
	case problem == "src-modified" || problem == "dst-tail-modified":
		r.Violation("rc4.XORKeyStream:"+problem, fmt.Sprintf("%s: key %d bytes, data %d bytes, cuts %v", problem, len(key), len(data), short(cuts)), cs)
	case problem != "":
		r.Violation("rc4.NewRC4WithKey:refuses-valid:"+keyClass(len(key)), problem, cs)
	case !bytes.Equal(out, want):
		at := firstDiff(out, want)
		r.Violation("rc4.XORKeyStream:keystream:"+split+":"+keyClass(len(key)),
			fmt.Sprintf("output differs from standard RC4 at byte %d (key %d bytes, data %d bytes, cuts %v, %s): got …%s want …%s", at, len(key), len(data), short(cuts), mode, hexAt(out, at), hexAt(want, at)), cs)
	}
	if len(cuts) > 0 || len(data) > 256 {
		r.Nontrivial(fmt.Sprintf("rc4|%d|%d|%s|%v", len(key), len(data), mode, cuts))
	}
}

func firstDiff(a, b []byte) int {
	n := min(len(a), len(b))
	for i := 0; i < n; i++ {
		if a[i] != b[i] {
			return i
		}
	}
	return n
}

func hexAt(b []byte, at int) string {
	e := min(len(b), at+8)
	if at > len(b) {
		at = len(b)
	}
	return hex.EncodeToString(b[at:e])
}

func short(c []int) string {
	if len(c) > 12 {
		return fmt.Sprintf("%v…(%d cuts)", c[:12], len(c))
	}
	return fmt.Sprint(c)
}

func randCuts(rng *rand.Rand, n, k int) []int {
	if n == 0 {
		// zero-length chunks only
		return make([]int, k)
	}
	cuts := make([]int, k)
	for i := range cuts {
		cuts[i] = rng.IntN(n + 1)
	}
	sortInts(cuts)
	return cuts
}

func sortInts(a []int) {
	for i := 1; i < len(a); i++ {
		for j := i; j > 0 && a[j] < a[j-1]; j-- {
			a[j], a[j-1] = a[j-1], a[j]
		}
	}
}

func everyByte(n int) []int {
	c := make([]int, 0, n)
	for i := 1; i < n; i++ {
		c = append(c, i)
	}
	return c
}

func rc4Workload() {
	rng := r.Rand("rc4")
	modes := []string{mInPlace, mSeparate, mLongDst, mAdjacent, mInPlaceLongDst}

	// anchor: RFC 6229 test vector (key 0x0102030405), first 16 keystream bytes, and at offset 4096
	{
		ks := refRC4([]byte{1, 2, 3, 4, 5}, make([]byte, 4112))
		if hex.EncodeToString(ks[:16]) != "b2396305f03dc027ccc3524a0a1118a8" || hex.EncodeToString(ks[4096:4112]) != "ff25b58995996707e51fbdf08b34d875" {
			r.Inconclusive("reference RC4 fails RFC 6229 (40-bit key) vector")
		}
	}

	// key-size rule: 1..256 accepted (judged in rc4Case), 0 and >256 refused
	for _, n := range []int{0, 257, 258, 512, 1000} {
		var c *rc4.RC4
		var err error
		p, v, _ := mon.Guard(func() { c, err = rc4.NewRC4WithKey(make([]byte, n)) })
		r.Eval(1)
		if p {
			r.Violation("rc4.NewRC4WithKey:panic", fmt.Sprintf("panic %v on %d-byte key", v, n), map[string]any{"keylen": n})
		} else if err == nil || c != nil {
			r.Violation("rc4.NewRC4WithKey:accepts-invalid", fmt.Sprintf("%d-byte key accepted", n), map[string]any{"keylen": n})
		}
	}

	// deterministic part: every key length 1..256, fixed pattern key, boundary data lengths,
	// whole / byte-at-a-time / two fixed chunkings, four buffer placements.
	sampled := 0
	for kl := 1; kl <= 256; kl++ {
		key := make([]byte, kl)
		for i := range key {
			key[i] = byte(31*i + 7*kl + 1)
		}
		for di, dl := range []int{0, 1, 255, 256, 257, 700} {
			data := make([]byte, dl)
			for i := range data {
				data[i] = byte(i*13 + kl)
			}
			want := wantRC4(key, data)
			mode := modes[(kl+di)%4]
			rc4Case(key, data, nil, mode, want)
			rc4Case(key, data, nil, modes[(kl+di+1)%4], want)
			if dl > 1 {
				rc4Case(key, data, everyByte(dl), modes[(kl+di+2)%4], want)
				rc4Case(key, data, []int{1, dl / 2, dl/2 + 1, dl - 1}, modes[(kl+di+3)%4], want)
				rc4Case(key, data, []int{0, 0, dl / 3, dl / 3, dl}, mode, want) // empty chunks in between
			}
			if kl%64 == 5 && dl == 257 && sampled < 3 {
				sampled++
				r.Sample(map[string]any{"kind": "rc4", "key_hex": mon.Hex(key), "data_len": dl, "chunkings": "whole, byte-at-a-time, [1,128,129,256], with empty chunks", "out_head": mon.Hex(want[:16])})
			}
		}
	}
	// extreme keys
	for _, key := range [][]byte{{0}, {0xFF}, bytes.Repeat([]byte{0}, 256), bytes.Repeat([]byte{0xFF}, 256), bytes.Repeat([]byte{0x80}, 16), {1, 2, 3, 4, 5}, {1, 2, 3, 4, 5, 6, 7}, {0x1a, 0xda, 0x31, 0xd5, 0xcf, 0x68, 0x82, 0x21, 0xc1, 0x09, 0x16, 0x39, 0x08, 0xeb, 0xe5, 0x1d, 0xeb, 0xb4, 0x62, 0x27, 0xc6, 0xcc, 0x8b, 0x37, 0x64, 0x19, 0x10, 0x83, 0x32, 0x22, 0x77, 0x2a}} {
		data := make([]byte, 4112)
		want := wantRC4(key, data)
		for _, m := range modes {
			rc4Case(key, data, nil, m, want)
			rc4Case(key, data, []int{16, 240, 256, 1024, 4096}, m, want)
		}
	}

	// seeded part: random keys of every length, random data 0..4096, random chunkings
	rounds := r.Pick(10, 80)
	for round := 0; round < rounds; round++ {
		for kl := 1; kl <= 256; kl++ {
			key := gen.Bytes(rng, kl)
			dl := []int{rng.IntN(64), rng.IntN(600), rng.IntN(4097), 4096}[rng.IntN(4)]
			data := gen.Bytes(rng, dl)
			want := wantRC4(key, data)
			rc4Case(key, data, randCuts(rng, dl, 1+rng.IntN(9)), modes[rng.IntN(4)], want)
			if dl <= 600 && dl > 1 {
				rc4Case(key, data, everyByte(dl), modes[rng.IntN(4)], want)
			}
			// inverse: a second cipher object with the same key undoes the first, under another chunking
			var back []byte
			p, v, _ := mon.Guard(func() {
				c2, err := rc4.NewRC4WithKey(key)
				if err != nil {
					return
				}
				buf := append([]byte{}, want...)
				prev := 0
				for _, e := range append(randCuts(rng, dl, 1+rng.IntN(5)), dl) {
					c2.XORKeyStream(buf[prev:e], buf[prev:e])
					prev = e
				}
				back = buf
			})
			r.Eval(1)
			if p {
				r.Violation("rc4.XORKeyStream:panic:inverse", fmt.Sprintf("panic %v", v), map[string]any{"key_hex": mon.FullHex(key)})
			} else if !bytes.Equal(back, data) {
				r.Violation("rc4.XORKeyStream:inverse", fmt.Sprintf("decrypting the standard ciphertext does not give the plaintext back (key %d bytes, %d bytes)", kl, dl), map[string]any{"key_hex": mon.FullHex(key), "data_hex": mon.FullHex(data)})
			}
		}
	}

	// 1 MiB streams
	for t := 0; t < r.Pick(4, 24); t++ {
		key := gen.Bytes(rng, []int{1, 5, 16, 256, 1 + rng.IntN(256)}[rng.IntN(5)])
		data := gen.Bytes(rng, 1<<20)
		want := wantRC4(key, data)
		var cuts []int
		for pos := 0; pos < len(data); {
			pos += 1 + rng.IntN(1+rng.IntN(70000))
			if pos < len(data) {
				cuts = append(cuts, pos)
			}
		}
		rc4Case(key, data, cuts, modes[t%4], want)
	}

	// Reset: only observed not to panic and to leave the object usable without crashing
	// (the property does not define the key stream of a reset cipher).
	p, v, st := mon.Guard(func() {
		c, _ := rc4.NewRC4WithKey([]byte("k"))
		c.XORKeyStream(make([]byte, 10), make([]byte, 10))
		c.Reset()
		c.XORKeyStream(make([]byte, 10), make([]byte, 10))
		c.XORKeyStream(nil, nil)
		c.XORKeyStream([]byte{}, []byte{})
	})
	r.Eval(1)
	if p {
		r.Violation("rc4.Reset:panic", fmt.Sprintf("panic %v at %s", v, mon.TopLibFrame(st)), nil)
	}
}
