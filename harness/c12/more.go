package main

// Value copies of cipher objects, the io.StringWriter route into a MAC, and the caller's ciphertext.

import (
	"bytes"
	"crypto/aes"
	"fmt"
	"io"

	"github.com/TheManticoreProject/Manticore/crypto/cmac"
	"github.com/TheManticoreProject/Manticore/crypto/gppp"
	"github.com/TheManticoreProject/Manticore/crypto/rc4"

	"verif/gen"
	"verif/mon"
)

func moreWorkload() {
	rng := r.Rand("more")
	// 1. fork := *c copies the cipher's state: both continue the same keystream independently
	for t := 0; t < r.Pick(200, 4000); t++ {
		key := gen.Bytes(rng, 1+rng.IntN(256))
		n1, n2 := rng.IntN(600), 1+rng.IntN(600)
		c, err := rc4.NewRC4WithKey(append([]byte{}, key...))
		if err != nil || c == nil {
			continue
		}
		ref := refRC4(key, make([]byte, n1+2*n2))
		head := make([]byte, n1)
		c.XORKeyStream(head, make([]byte, n1))
		fork := *c
		o1, o2, o3 := make([]byte, n2), make([]byte, n2), make([]byte, n2)
		first, second := c, &fork
		if t%2 == 1 {
			first, second = &fork, c
		}
		first.XORKeyStream(o1, make([]byte, n2))
		second.XORKeyStream(o2, make([]byte, n2))
		first.XORKeyStream(o3, make([]byte, n2))
		r.Eval(3)
		cs := map[string]any{"key_hex": mon.FullHex(key), "before_copy": n1, "after_copy": n2}
		if !bytes.Equal(head, ref[:n1]) || !bytes.Equal(o1, ref[n1:n1+n2]) || !bytes.Equal(o3, ref[n1+n2:]) {
			r.Violation("rc4.XORKeyStream:value-copy:original", fmt.Sprintf("a cipher used for %d octets, copied by value, then both used: the one used first no longer produces standard RC4", n1), cs)
		}
		if !bytes.Equal(o2, ref[n1:n1+n2]) {
			r.Violation("rc4.XORKeyStream:value-copy:copy", fmt.Sprintf("a cipher used for %d octets and copied by value: the other value does not continue the keystream from octet %d", n1, n1), cs)
		}
		r.Nontrivial(fmt.Sprintf("rc4-copy|%d|%d", len(key), t%50))
	}
	// 2. io.WriteString into the MAC (a hash.Hash is an io.Writer; text may hold any octets)
	for t := 0; t < r.Pick(300, 6000); t++ {
		key := gen.Bytes(rng, []int{16, 24, 32}[t%3])
		blk, _ := aes.NewCipher(key)
		n := rng.IntN(100)
		m := gen.Bytes(rng, n)
		if t%4 == 0 {
			m = []byte("Ünïcödé text — ÿ\xff\x80 and more")
		}
		h := cmac.New(blk)
		cut := 0
		if n > 0 {
			cut = rng.IntN(n)
		}
		if cut > len(m) {
			cut = len(m)
		}
		h.Write(m[:cut])
		wn, werr := io.WriteString(h, string(m[cut:]))
		got := h.Sum(nil)
		r.Eval(1)
		cs := map[string]any{"key_hex": mon.FullHex(key), "msg_hex": mon.FullHex(m), "cut": cut}
		if werr != nil || wn != len(m)-cut {
			r.Violation("cmac.WriteString:return", fmt.Sprintf("io.WriteString returned (%d,%v) for %d octets", wn, werr, len(m)-cut), cs)
		}
		if want := refCMAC(blk, m); !bytes.Equal(got, want) {
			r.Violation("cmac:tag:io.WriteString", fmt.Sprintf("the tag of a message fed through io.WriteString is %x, want %x", got, want), cs)
		}
	}
	// 3. decrypting reads the ciphertext: the caller's bytes are as they were, a second decryption gives the same
	for t := 0; t < r.Pick(200, 3000); t++ {
		pw := gen.UnicodeString(rng, gen.Length(rng, 40), -1)
		raw := refGPPEncryptRaw(pw)
		keep := append([]byte{}, raw...)
		d1, e1 := gppp.GPPPDecryptBytes(raw)
		d2, e2 := gppp.GPPPDecryptBytes(raw)
		r.Eval(2)
		cs := map[string]any{"password": pw, "ciphertext_hex": mon.FullHex(keep)}
		if !bytes.Equal(raw, keep) {
			r.Violation("gppp.GPPPDecryptBytes:input-modified", "the ciphertext handed to GPPPDecryptBytes was overwritten", cs)
		}
		if (e1 == nil) != (e2 == nil) || d1 != d2 {
			r.Violation("gppp.GPPPDecryptBytes:second-call", fmt.Sprintf("decrypting the same bytes twice gave (%q,%v) then (%q,%v)", d1, e1, d2, e2), cs)
		}
	}
}
