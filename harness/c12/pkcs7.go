package main

import (
	"bytes"
	"fmt"

	"github.com/TheManticoreProject/Manticore/crypto/pkcs7"

	"verif/gen"
	"verif/mon"
)

// judgeUnpad compares pkcs7.Unpad(buf) with the validity predicate. class names the family
// the buffer was built from (for the violation key).
func judgeUnpad(buf []byte, class string) {
	in := append([]byte{}, buf...)
	var out []byte
	var err error
	p, v, st := mon.Guard(func() { out, err = pkcs7.Unpad(in) })
	r.Eval(1)
	cs := map[string]any{"buffer_hex": mon.FullHex(buf), "class": class}
	if p {
		r.Violation("pkcs7.Unpad:panic:"+mon.PanicClass(v), fmt.Sprintf("panic %v at %s on %s", v, mon.TopLibFrame(st), mon.Hex(buf)), cs)
		return
	}
	if !bytes.Equal(in, buf) {
		r.Violation("pkcs7.Unpad:input-modified", fmt.Sprintf("Unpad rewrote its argument %s", mon.Hex(buf)), cs)
	}
	pl, valid := refPadValid(buf)
	switch {
	case valid && err != nil:
		r.Violation("pkcs7.Unpad:rejects-valid", fmt.Sprintf("validly padded buffer (len %d, pad %d) rejected: %v", len(buf), pl, err), cs)
	case valid && !bytes.Equal(out, buf[:len(buf)-pl]):
		r.Violation("pkcs7.Unpad:value", fmt.Sprintf("len %d pad %d: returned %d bytes, want the first %d", len(buf), pl, len(out), len(buf)-pl), cs)
	case !valid && err == nil:
		why := "inconsistent-pad-bytes"
		if len(buf) == 0 {
			why = "empty"
		} else if buf[len(buf)-1] == 0 {
			why = "zero-pad-byte"
		} else if int(buf[len(buf)-1]) > len(buf) {
			why = "padlen-exceeds-length"
		}
		r.Violation("pkcs7.Unpad:accepts-invalid:"+why, fmt.Sprintf("buffer %s (len %d) is not PKCS#7-padded (%s) but Unpad returned %d bytes", mon.Hex(buf), len(buf), why, len(out)), cs)
	}
}

func pkcs7Workload() {
	rng := r.Rand("pkcs7")

	// ---- Pad/Unpad grid: all b = 1..255 x len(m) = 0..2b+1 (exhaustive)
	grid := 0
	for b := 1; b <= 255; b++ {
		for n := 0; n <= 2*b+1; n++ {
			m := make([]byte, n)
			for i := range m {
				m[i] = byte(i*7 + b + n) // content includes bytes equal to plausible pad values
			}
			if n > 0 && n%3 == 0 {
				m[n-1] = byte(b - n%b) // message already ends in what looks like padding
			}
			// give the input spare capacity on every other case: Pad appends
			in := make([]byte, n, n+(n%2)*300)
			copy(in, m)
			if n == 0 && b%2 == 1 {
				in = nil // the empty message spelled as a nil slice
			}
			var out []byte
			var err error
			p, v, st := mon.Guard(func() { out, err = pkcs7.Pad(in, uint8(b)) })
			r.Eval(1)
			grid++
			cs := map[string]any{"block_size": b, "msg_hex": mon.FullHex(m)}
			if p {
				r.Violation("pkcs7.Pad:panic:"+mon.PanicClass(v), fmt.Sprintf("panic %v at %s (b=%d len=%d)", v, mon.TopLibFrame(st), b, n), cs)
				continue
			}
			if err != nil {
				r.Violation("pkcs7.Pad:error", fmt.Sprintf("Pad(len=%d, b=%d) failed: %v", n, b, err), cs)
				continue
			}
			if !bytes.Equal(in, m) {
				r.Violation("pkcs7.Pad:input-modified", fmt.Sprintf("Pad rewrote the message bytes (b=%d len=%d)", b, n), cs)
			}
			want := refPad(m, b)
			if !bytes.Equal(out, want) {
				cls := "pad-bytes"
				if len(out) != len(want) {
					cls = "length"
				} else if !bytes.Equal(out[:n], m) {
					cls = "prefix"
				}
				r.Violation("pkcs7.Pad:shape:"+cls, fmt.Sprintf("Pad(len=%d, b=%d): got %d bytes ending %s, want %d bytes ending %s", n, b, len(out), tailHex(out), len(want), tailHex(want)), cs)
				continue
			}
			// inverse
			var back []byte
			p, v, st = mon.Guard(func() { back, err = pkcs7.Unpad(out) })
			r.Eval(1)
			if p {
				r.Violation("pkcs7.Unpad:panic:"+mon.PanicClass(v), fmt.Sprintf("panic %v at %s", v, mon.TopLibFrame(st)), cs)
			} else if err != nil || !bytes.Equal(back, m) {
				r.Violation("pkcs7.Unpad:roundtrip", fmt.Sprintf("Unpad(Pad(m,b=%d)) with len(m)=%d gave (%d bytes, %v)", b, n, len(back), err), cs)
			}
			r.Nontrivial(fmt.Sprintf("pad|%d|%d", b, n))
			if (b == 16 && n == 31) || (b == 255 && n == 255) || (b == 1 && n == 3) {
				r.Sample(map[string]any{"kind": "pkcs7-pad", "block_size": b, "msg_len": n, "padded_len": len(out), "tail": tailHex(out)})
			}
		}
	}
	r.Count("pkcs7_grid_cases", grid)
	// block size 0 must be refused
	{
		var err error
		var out []byte
		p, v, _ := mon.Guard(func() { out, err = pkcs7.Pad([]byte("abc"), 0) })
		r.Eval(1)
		if p {
			r.Violation("pkcs7.Pad:panic:blocksize0", fmt.Sprintf("panic %v", v), nil)
		} else if err == nil {
			r.Violation("pkcs7.Pad:accepts-blocksize0", fmt.Sprintf("Pad(_,0) returned %d bytes and no error", len(out)), nil)
		}
	}

	// ---- rejection: all buffers of length 0..6 over {00,01,02,03,FF} (exhaustive),
	// thorough: length 1..5 over {00,01,02,03,04,05,06,FE,FF} as well
	judgeUnpad(nil, "empty")
	judgeUnpad([]byte{}, "empty")
	enum := func(alpha []byte, maxLen int) int {
		cnt := 0
		for n := 1; n <= maxLen; n++ {
			idx := make([]int, n)
			buf := make([]byte, n)
			for {
				for i := range buf {
					buf[i] = alpha[idx[i]]
				}
				judgeUnpad(buf, "small-alphabet")
				cnt++
				if _, ok := refPadValid(buf); !ok || n > 1 {
					r.Nontrivial("enum|" + string(buf))
				}
				k := n - 1
				for k >= 0 {
					idx[k]++
					if idx[k] < len(alpha) {
						break
					}
					idx[k] = 0
					k--
				}
				if k < 0 {
					break
				}
			}
		}
		return cnt
	}
	cnt := enum([]byte{0x00, 0x01, 0x02, 0x03, 0xFF}, 6)
	if r.Thorough() {
		cnt += enum([]byte{0x00, 0x01, 0x02, 0x03, 0x04, 0x05, 0x06, 0xFE, 0xFF}, 5)
	}
	r.Count("pkcs7_enumerated_buffers", cnt)
	r.Sample(map[string]any{"kind": "pkcs7-unpad-enum", "alphabet": "00 01 02 03 ff", "lengths": "1..6", "buffers": 19530, "example_invalid": "01 02 03 03 (last three not all 03)", "example_valid": "ff 02 02"})

	// ---- structured near-misses for every pad length 1..255
	for p := 1; p <= 255; p++ {
		for _, total := range []int{p - 1, p, p + 1, p + 16, 255, 256, 257, 300, 600} {
			if total < 1 {
				continue
			}
			buf := make([]byte, total)
			for i := range buf {
				buf[i] = byte(p) ^ 0x55 // body never equals the pad value
			}
			for i := max(0, total-p); i < total; i++ {
				buf[i] = byte(p)
			}
			judgeUnpad(buf, "exact-or-short") // valid iff total >= p
			if total >= p {
				// damage one padding byte: the first, one in the middle, the one before last
				for _, off := range []int{total - p, total - p/2 - 1, total - 2} {
					if off < total-p || off >= total-1 {
						continue
					}
					for _, d := range []byte{1, 0x80, byte(p)} { // p^p = 0: a zero inside the padding
						mut := append([]byte{}, buf...)
						mut[off] ^= d
						judgeUnpad(mut, "one-pad-byte-damaged")
					}
				}
				// last byte one more / one less than the run length
				for _, last := range []int{p - 1, p + 1} {
					if last < 0 || last > 255 {
						continue
					}
					mut := append([]byte{}, buf...)
					mut[total-1] = byte(last)
					judgeUnpad(mut, "last-byte-off-by-one")
				}
				// the byte just before the padding equals the pad value too (still valid: only p bytes are padding)
				if total > p {
					mut := append([]byte{}, buf...)
					mut[total-p-1] = byte(p)
					judgeUnpad(mut, "body-ends-in-pad-value")
				}
			}
			r.Nontrivial(fmt.Sprintf("near|%d|%d", p, total))
		}
	}
	// seeded remainder
	for t := 0; t < r.Pick(300000, 5000000); t++ {
		n := 1 + rng.IntN(40)
		if t%50 == 0 {
			n = 200 + rng.IntN(400)
		}
		buf := gen.Bytes(rng, n)
		switch rng.IntN(4) {
		case 0: // mostly valid
			p := 1 + rng.IntN(min(n, 255))
			for i := n - p; i < n; i++ {
				buf[i] = byte(p)
			}
			if rng.IntN(2) == 0 {
				buf[n-1-rng.IntN(p)] ^= byte(1 << rng.IntN(8))
			}
		case 1: // small values
			for i := range buf {
				buf[i] = byte(rng.IntN(4))
			}
		}
		judgeUnpad(buf, "random")
		if t%5000 == 0 {
			r.Nontrivial(fmt.Sprintf("rnd|%x", buf))
		}
	}
}

func tailHex(b []byte) string {
	if len(b) > 6 {
		return "…" + mon.Hex(b[len(b)-6:])
	}
	return mon.Hex(b)
}
