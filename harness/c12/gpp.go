package main

import (
	"encoding/base64"
	"fmt"
	"strings"

	"github.com/TheManticoreProject/Manticore/crypto/gppp"

	"verif/gen"
	"verif/mon"
)

func gppCase(pw, tag string) {
	cs := map[string]any{"password": pw, "password_hex": mon.FullHex([]byte(pw))}
	wantRaw := refGPPEncryptRaw(pw)
	want := base64.StdEncoding.EncodeToString(wantRaw)
	p, v, st := mon.Guard(func() {
		enc, err := gppp.GPPPEncrypt(pw)
		r.Eval(1)
		if err != nil {
			r.Violation("gppp.GPPPEncrypt:error", fmt.Sprintf("GPPPEncrypt(%q) failed: %v", pw, err), cs)
			return
		}
		if enc != want {
			cls := "value"
			if strings.TrimRight(enc, "=") == strings.TrimRight(want, "=") {
				cls = "base64-padding"
			}
			r.Violation("gppp.GPPPEncrypt:"+cls, fmt.Sprintf("GPPPEncrypt(%q) = %s, AES-256-CBC(MS key, IV 0, PKCS7(UTF-16LE)) = %s", pw, enc, want), cs)
		}
		// inverse on the library's own output
		dec, err := gppp.GPPPDecryptBase64(enc)
		r.Eval(1)
		if err != nil || dec != pw {
			r.Violation("gppp.GPPPDecryptBase64:roundtrip", fmt.Sprintf("Decrypt(Encrypt(%q)) = (%q, %v)", pw, dec, err), cs)
		}
		// the standard ciphertext, in the three forms it is met in Groups.xml
		dec, err = gppp.GPPPDecryptBase64(want)
		r.Eval(1)
		if err != nil || dec != pw {
			r.Violation("gppp.GPPPDecryptBase64:standard-ciphertext", fmt.Sprintf("decrypting the standard cpassword of %q gave (%q, %v)", pw, dec, err), cs)
		}
		stripped := strings.TrimRight(want, "=")
		dec, err = gppp.GPPPDecryptBase64(stripped)
		r.Eval(1)
		if err != nil || dec != pw {
			r.Violation("gppp.GPPPDecryptBase64:unpadded-base64", fmt.Sprintf("cpassword of %q without '=' (%d chars, %d mod 4) gave (%q, %v)", pw, len(stripped), len(stripped)%4, dec, err), cs)
		}
		dec, err = gppp.GPPPDecryptBytes(append([]byte{}, wantRaw...))
		r.Eval(1)
		if err != nil || dec != pw {
			r.Violation("gppp.GPPPDecryptBytes:standard-ciphertext", fmt.Sprintf("decrypting the raw standard ciphertext of %q gave (%q, %v)", pw, dec, err), cs)
		}
	})
	if p {
		r.Violation("gppp:panic:"+mon.TopLibFrame(st), fmt.Sprintf("panic %v on password %q", v, pw), cs)
	}
	r.Nontrivial("gpp|" + tag)
}

func gppWorkload() {
	rng := r.Rand("gpp")
	// published examples anchor the reference (and judge the library)
	for _, kv := range [][2]string{
		{"j1Uyj3Vx8TY9LtLZil2uAuZkFQA/4latT76ZwgdHdhw", "Local*P4ssword!"},
		{"edBSHOwhZLTjt/QS9FeIcJ83mjWA98gw9guKOhJOdcqh+ZGMeXOsQbCpZ3xUjTLfCuNH8pG5aSVYdYw/NglVmQ", "GPPstillStandingStrong2k18"},
	} {
		if strings.TrimRight(refGPPEncrypt(kv[1]), "=") != kv[0] {
			r.Inconclusive(fmt.Sprintf("reference GPP encryption fails the published example for %q: %s", kv[1], refGPPEncrypt(kv[1])))
		}
		var dec string
		var err error
		p, v, _ := mon.Guard(func() { dec, err = gppp.GPPPDecryptBase64(kv[0]) })
		r.Eval(1)
		if p || err != nil || dec != kv[1] {
			r.Violation("gppp.GPPPDecryptBase64:published-vector", fmt.Sprintf("cpassword %s: got (%q, %v, panic=%v) want %q", kv[0], dec, err, v, kv[1]), map[string]any{"cpassword": kv[0]})
		}
		r.Sample(map[string]any{"kind": "gpp", "cpassword": kv[0], "password": kv[1]})
	}
	// deterministic: every UTF-16 length 0..40 (covers 0..5 AES blocks and all three base64 tails),
	// in ASCII, BMP and non-BMP text; special code points
	for n := 0; n <= 40; n++ {
		gppCase(strings.Repeat("a", n), fmt.Sprintf("ascii|%d", n))
		gppCase(strings.Repeat("é", n), fmt.Sprintf("latin|%d", n))
		gppCase(strings.Repeat("密", n), fmt.Sprintf("cjk|%d", n))
		if n <= 20 {
			gppCase(strings.Repeat("😀", n), fmt.Sprintf("emoji|%d", n))
		}
	}
	for i, s := range []string{"\x00", "a\x00b", "\ufeffbom", "\ufffd", "\uffff", "\U0010FFFF", "\U00010000", "\ud7ff", "\ue000", "\x10\x10", "\x01", "\uff41\uff42\uff43", "e\u0301", " leading", "trailing ", "\t\r\n", "\u0010\u0010\u0010\u0010\u0010\u0010\u0010\u0010"} {
		gppCase(s, fmt.Sprintf("special|%d", i))
	}
	// seeded
	n := r.Pick(30000, 500000)
	for t := 0; t < n; t++ {
		cl := rng.IntN(len(gen.ClassNames)+1) - 1
		ln := []int{0, 1, 7, 8, 9, 15, 16, 17, rng.IntN(64), rng.IntN(300)}[rng.IntN(10)]
		pw := gen.UnicodeString(rng, ln, cl)
		gppCase(pw, fmt.Sprintf("rnd|%d|%d|%d", cl, ln, t%64))
		if t == 7 {
			r.Sample(map[string]any{"kind": "gpp", "password": pw, "cpassword": refGPPEncrypt(pw)})
		}
	}
}
