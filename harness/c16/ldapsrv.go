package main

// A scripted loopback LDAP responder (RFC 4511 Bind / Search / Unbind over TCP on 127.0.0.1) so that
// the parts of the library that decode SIDs and distinguished names out of *search results*
// (objects.go, rid.go) can be driven through the public Session API. The responder serves whatever
// its answer function returns and keeps a log of every search it answered together with a private
// copy of every attribute value it put on the wire: the oracle of session.go is always "the text of
// the bytes this responder sent for that object", never what the caller asked for.

import (
	"bytes"
	"net"
	"strings"
	"sync"
	"sync/atomic"
	"time"

	ber "github.com/go-asn1-ber/asn1-ber"
	goldap "github.com/go-ldap/ldap/v3"
)

type ldapAttr struct {
	name string
	vals [][]byte
}

type ldapEntry struct {
	dn    string
	attrs []ldapAttr
}

// attr returns the first value of the named attribute as it was sent.
func (e ldapEntry) attr(name string) ([]byte, bool) {
	for _, a := range e.attrs {
		if strings.EqualFold(a.name, name) && len(a.vals) > 0 {
			return a.vals[0], true
		}
	}
	return nil, false
}

func (e ldapEntry) clone() ldapEntry {
	c := ldapEntry{dn: e.dn}
	for _, a := range e.attrs {
		ca := ldapAttr{name: a.name}
		for _, v := range a.vals {
			ca.vals = append(ca.vals, append([]byte{}, v...))
		}
		c.attrs = append(c.attrs, ca)
	}
	return c
}

// ldapSearch is one answered SearchRequest: what was asked and exactly what was sent back.
type ldapSearch struct {
	base   string
	scope  int
	filter string
	wanted []string
	sent   []ldapEntry
}

type ldapResponder struct {
	ln     net.Listener
	answer func(base string, scope int, filter string) []ldapEntry

	mu    sync.Mutex
	log   []ldapSearch
	conns []net.Conn

	// domainSearchDelay (nanoseconds) holds back the answer to an (objectClass=domain) search: a
	// directory that takes its time, so that calls of several goroutines on one Session overlap
	domainSearchDelay atomic.Int64
}

func startResponder(answer func(base string, scope int, filter string) []ldapEntry) (*ldapResponder, error) {
	ln, err := net.Listen("tcp", "127.0.0.1:0")
	if err != nil {
		return nil, err
	}
	s := &ldapResponder{ln: ln, answer: answer}
	go func() {
		for {
			c, err := ln.Accept()
			if err != nil {
				return
			}
			s.mu.Lock()
			s.conns = append(s.conns, c)
			s.mu.Unlock()
			go s.serve(c)
		}
	}()
	return s, nil
}

func (s *ldapResponder) port() int { return s.ln.Addr().(*net.TCPAddr).Port }

// stop closes the listener and every connection (also used by the watchdog to unblock a caller).
func (s *ldapResponder) stop() {
	s.ln.Close()
	s.mu.Lock()
	for _, c := range s.conns {
		c.Close()
	}
	s.mu.Unlock()
}

// drain returns the searches answered since the last drain.
func (s *ldapResponder) drain() []ldapSearch {
	s.mu.Lock()
	defer s.mu.Unlock()
	l := s.log
	s.log = nil
	return l
}

func ldapEnvelope(buf *bytes.Buffer, messageID int64, op *ber.Packet) {
	env := ber.Encode(ber.ClassUniversal, ber.TypeConstructed, ber.TagSequence, nil, "LDAPMessage")
	env.AppendChild(ber.NewInteger(ber.ClassUniversal, ber.TypePrimitive, ber.TagInteger, messageID, "messageID"))
	env.AppendChild(op)
	buf.Write(env.Bytes())
}

func ldapResult(application ber.Tag) *ber.Packet {
	op := ber.Encode(ber.ClassApplication, ber.TypeConstructed, application, nil, "response")
	op.AppendChild(ber.NewInteger(ber.ClassUniversal, ber.TypePrimitive, ber.TagEnumerated, int64(0), "resultCode"))
	op.AppendChild(ber.NewString(ber.ClassUniversal, ber.TypePrimitive, ber.TagOctetString, "", "matchedDN"))
	op.AppendChild(ber.NewString(ber.ClassUniversal, ber.TypePrimitive, ber.TagOctetString, "", "diagnosticMessage"))
	return op
}

// selectAttrs keeps the attributes the client asked for (all of them for an empty list or "*"), the
// way a directory server does, in the order the entry holds them.
func selectAttrs(e ldapEntry, wanted []string) ldapEntry {
	all := len(wanted) == 0
	for _, w := range wanted {
		if w == "*" {
			all = true
		}
	}
	if all {
		return e.clone()
	}
	out := ldapEntry{dn: e.dn}
	for _, a := range e.attrs {
		for _, w := range wanted {
			if strings.EqualFold(w, a.name) {
				out.attrs = append(out.attrs, a)
				break
			}
		}
	}
	return out.clone()
}

func (s *ldapResponder) serve(conn net.Conn) {
	defer conn.Close()
	for {
		packet, err := ber.ReadPacket(conn)
		if err != nil || len(packet.Children) < 2 {
			return
		}
		messageID, _ := packet.Children[0].Value.(int64)
		op := packet.Children[1]
		var out bytes.Buffer
		switch op.Tag {
		case 0: // BindRequest -> BindResponse(success)
			ldapEnvelope(&out, messageID, ldapResult(1))
		case 2: // UnbindRequest
			return
		case 3: // SearchRequest -> SearchResultEntry* SearchResultDone
			if len(op.Children) < 8 {
				return
			}
			base, _ := op.Children[0].Value.(string)
			scope, _ := op.Children[1].Value.(int64)
			filter, _ := goldap.DecompileFilter(op.Children[6])
			var wanted []string
			for _, a := range op.Children[7].Children {
				if n, ok := a.Value.(string); ok {
					wanted = append(wanted, n)
				}
			}
			rec := ldapSearch{base: base, scope: int(scope), filter: filter, wanted: wanted}
			if d := s.domainSearchDelay.Load(); d > 0 && strings.EqualFold(filter, "(objectClass=domain)") {
				time.Sleep(time.Duration(d))
			}
			for _, full := range s.answer(base, int(scope), filter) {
				e := selectAttrs(full, wanted)
				entry := ber.Encode(ber.ClassApplication, ber.TypeConstructed, 4, nil, "SearchResultEntry")
				entry.AppendChild(ber.NewString(ber.ClassUniversal, ber.TypePrimitive, ber.TagOctetString, e.dn, "objectName"))
				attrs := ber.Encode(ber.ClassUniversal, ber.TypeConstructed, ber.TagSequence, nil, "attributes")
				for _, a := range e.attrs {
					attr := ber.Encode(ber.ClassUniversal, ber.TypeConstructed, ber.TagSequence, nil, "attribute")
					attr.AppendChild(ber.NewString(ber.ClassUniversal, ber.TypePrimitive, ber.TagOctetString, a.name, "type"))
					set := ber.Encode(ber.ClassUniversal, ber.TypeConstructed, ber.TagSet, nil, "vals")
					for _, v := range a.vals {
						set.AppendChild(ber.NewString(ber.ClassUniversal, ber.TypePrimitive, ber.TagOctetString, string(v), "val"))
					}
					attr.AppendChild(set)
					attrs.AppendChild(attr)
				}
				entry.AppendChild(attrs)
				ldapEnvelope(&out, messageID, entry)
				rec.sent = append(rec.sent, e) // e is already a private copy
			}
			ldapEnvelope(&out, messageID, ldapResult(5))
			s.mu.Lock()
			s.log = append(s.log, rec)
			s.mu.Unlock()
		default: // Abandon etc.: no response
			continue
		}
		if _, err := conn.Write(out.Bytes()); err != nil {
			return
		}
	}
}
