package main

// State-carry-over and aliasing monitors for C16 (both entry points are plain functions, so the
// state that could be carried lives in the package: memo tables, scratch buffers).
//
//	sequences    - each SID is decoded right after "neighbours" that share part of its bytes: same
//	               sub-authorities under another identifier authority, same authority and prefix with
//	               another RID, the same values with one sub-authority more/fewer, a SID that is a byte prefix of
//	               the other; then the first one again. Same for DNs (same DC run under other leading RDNs, same
//	               leading RDNs over other DCs, one DC more/fewer). Every result is compared with the reference
//	               text of its own bytes (a cache keyed too coarsely answers with a neighbour's text).
//	input reuse  - the caller's SID buffer is overwritten after the call and then re-used for the next SID (the
//	               way a read loop does); the text returned earlier must not change and the next result must be
//	               that of the new bytes.
//	held outputs - results are kept (ring of 64) and compared with a private copy later.
//	concurrent   - 8 goroutines decode unrelated SIDs and DNs and must get the single-caller values.

import (
	"fmt"
	"strings"
	"sync"

	"github.com/TheManticoreProject/Manticore/network/ldap"

	"verif/mon"
)

type sidSpec struct {
	auth uint64
	subs []uint32
}

func (s sidSpec) raw() []byte  { return encodeSID(1, s.auth, s.subs) }
func (s sidSpec) text() string { return refSIDString(s.auth, s.subs) }

type heldStr struct {
	entry, input string
	got          string
	want         []byte // private copy of the bytes of got
}

var (
	heldMu   sync.Mutex
	heldRing [64]*heldStr
	heldN    int
)

func verifyHeld(e *heldStr, when string) {
	if e == nil {
		return
	}
	r.Eval(1)
	if e.got != string(e.want) {
		r.Violation(e.entry+":held-output-changed", fmt.Sprintf("the text returned by %s for %s read %q when it was returned and reads %q %s", e.entry, e.input, e.want, e.got, when),
			map[string]any{"entry": e.entry, "input": e.input, "returned": string(e.want), "now": e.got, "when": when})
		e.want = []byte(e.got)
	}
}

func holdStr(entry, got, input string) {
	heldMu.Lock()
	defer heldMu.Unlock()
	e := &heldStr{entry: entry, input: input, got: got, want: []byte(got)}
	slot := heldN % len(heldRing)
	verifyHeld(heldRing[slot], "64 calls later")
	if heldN > 0 {
		verifyHeld(heldRing[(heldN-1)%len(heldRing)], "after the next call")
	}
	heldRing[slot] = e
	heldN++
}

// decodeInSequence decodes s through a caller buffer that is reused and overwritten; prev describes
// what was decoded just before.
func decodeInSequence(buf *[]byte, s sidSpec, prev string, relation string) {
	raw := s.raw()
	want := s.text()
	*buf = append((*buf)[:0], raw...)
	cs := map[string]any{"sid_hex": mon.FullHex(raw), "expected": want, "decoded_just_before": prev, "relation": relation}
	var got string
	p, pv, st := mon.Guard(func() { got = ldap.ParseSIDFromBytes(*buf) })
	r.Eval(1)
	if p {
		r.Violation("ldap.ParseSIDFromBytes:panic:"+mon.PanicClass(pv)+":sequence", fmt.Sprintf("panic %v at %s", pv, mon.TopLibFrame(st)), cs)
		return
	}
	if got != want {
		r.Violation("ldap.ParseSIDFromBytes:sequence:"+relation, fmt.Sprintf("SID %s decoded right after %s (%s): got %q want %q", mon.Hex(raw), prev, relation, got, want), cs)
	}
	holdStr("ldap.ParseSIDFromBytes", got, mon.Hex(raw))
	// the read loop overwrites its buffer
	for i := range *buf {
		(*buf)[i] = 0xAA
	}
}

func sidNeighbours(s sidSpec, k int) []struct {
	s   sidSpec
	rel string
} {
	type nb = struct {
		s   sidSpec
		rel string
	}
	var out []nb
	cp := func() []uint32 { return append([]uint32{}, s.subs...) }
	otherAuth := []uint64{0, 1, 5, 9, 1 << 32, 1<<48 - 1, s.auth ^ 1, s.auth + 256}[k%8] & (1<<48 - 1)
	if otherAuth == s.auth {
		otherAuth = (s.auth + 7) & (1<<48 - 1)
	}
	out = append(out, nb{sidSpec{otherAuth, cp()}, "same-subauthorities-other-authority"})
	if n := len(s.subs); n > 0 {
		a := cp()
		a[n-1] ^= 0x1F5
		out = append(out, nb{sidSpec{s.auth, a}, "same-prefix-other-rid"})
		b := cp()
		b[0] += 1
		out = append(out, nb{sidSpec{s.auth, b}, "same-tail-other-first-subauthority"})
		out = append(out, nb{sidSpec{s.auth, cp()[:n-1]}, "one-subauthority-fewer"})
		out = append(out, nb{sidSpec{otherAuth, cp()[:n-1]}, "one-subauthority-fewer-other-authority"})
	}
	if len(s.subs) < 15 {
		out = append(out, nb{sidSpec{s.auth, append(cp(), 513)}, "one-subauthority-more"})
	}
	return out
}

func sidSequences() {
	rng := r.Rand("sid-sequences")
	base := []sidSpec{
		{5, []uint32{21, 3623811015, 3361044348, 30300820, 1013}}, {5, []uint32{21, 3623811015, 3361044348, 30300820, 500}},
		{5, []uint32{32, 544}}, {5, []uint32{18}}, {1, []uint32{0}}, {5, nil}, {16, []uint32{12288}}, {15, []uint32{2, 1}},
		{1 << 40, []uint32{21, 1, 2, 3, 4}}, {1<<48 - 1, []uint32{1<<32 - 1, 1<<32 - 1}}, {0, []uint32{0, 0, 0}},
	}
	for n := 0; n <= 15; n++ {
		subs := make([]uint32, n)
		for i := range subs {
			subs[i] = uint32(1000*n + i)
		}
		base = append(base, sidSpec{5, subs}, sidSpec{uint64(n) << 36, append([]uint32{}, subs...)})
	}
	for t := 0; t < r.Pick(4000, 60000); t++ {
		n := rng.IntN(16)
		subs := make([]uint32, n)
		for i := range subs {
			subs[i] = rng.Uint32() >> uint(rng.IntN(32))
		}
		base = append(base, sidSpec{rng.Uint64() >> uint(16+rng.IntN(48)), subs})
	}
	buf := make([]byte, 0, 80)
	prev := "nothing"
	for k, s := range base {
		decodeInSequence(&buf, s, prev, "first")
		prev = s.text()
		for _, nb := range sidNeighbours(s, k) {
			decodeInSequence(&buf, nb.s, prev, nb.rel)
			prev = nb.s.text()
			// and the original again right after its neighbour
			decodeInSequence(&buf, s, prev, "again-after-"+nb.rel)
			prev = s.text()
		}
		r.Nontrivial("sidseq|" + s.text())
	}
}

// ---------------------------------------------------------------- DNs

func dnText(rdns []rdn, style dnStyle) (dn, want, wantEsc string) {
	parts := make([]string, len(rdns))
	var dcs, dcsEsc []string
	for i, x := range rdns {
		parts[i] = x.typ + "=" + escapeDN(x.val, style)
		if x.typ == "DC" {
			dcs = append(dcs, x.val)
			dcsEsc = append(dcsEsc, escapeDN(x.val, style))
		}
	}
	return strings.Join(parts, ","), strings.Join(dcs, "."), strings.Join(dcsEsc, ".")
}

func dnInSequence(rdns []rdn, prev, relation string) string {
	dn, want, wantEsc := dnText(rdns, adStyles[0])
	cs := map[string]any{"dn": dn, "expected": want, "decoded_just_before": prev, "relation": relation}
	var got string
	p, pv, st := mon.Guard(func() { got = ldap.GetDomainFromDistinguishedName(dn) })
	r.Eval(1)
	if p {
		r.Violation("ldap.GetDomainFromDistinguishedName:panic:"+mon.PanicClass(pv)+":sequence", fmt.Sprintf("panic %v at %s", pv, mon.TopLibFrame(st)), cs)
		return dn
	}
	if got != want && got != wantEsc {
		r.Violation("ldap.GetDomainFromDistinguishedName:sequence:"+relation, fmt.Sprintf("DN %q decoded right after %q (%s): got %q want %q", dn, prev, relation, got, want), cs)
	}
	holdStr("ldap.GetDomainFromDistinguishedName", got, dn)
	return dn
}

func dnSequences() {
	rng := r.Rand("dn-sequences")
	for t := 0; t < r.Pick(4000, 60000); t++ {
		nLead, nDC := rng.IntN(4), 1+rng.IntN(4)
		var lead, dcs []rdn
		for i := 0; i < nLead; i++ {
			lead = append(lead, rdn{[]string{"CN", "OU", "O"}[rng.IntN(3)], label(rng)})
		}
		for i := 0; i < nDC; i++ {
			dcs = append(dcs, rdn{"DC", label(rng)})
		}
		if t < 8 {
			lead = []rdn{{"CN", "John Doe"}, {"OU", "Users"}}[:t%3]
			dcs = []rdn{{"DC", "corp"}, {"DC", "example"}, {"DC", "com"}}[:1+t%3]
		}
		full := append(append([]rdn{}, lead...), dcs...)
		prev := dnInSequence(full, "nothing", "first")
		otherLead := append([]rdn{{"CN", label(rng)}}, dcs...)
		prev = dnInSequence(otherLead, prev, "same-dcs-other-leading-rdns")
		prev = dnInSequence(full, prev, "again")
		otherDCs := append(append([]rdn{}, lead...), rdn{"DC", label(rng)}, rdn{"DC", "org"})
		prev = dnInSequence(otherDCs, prev, "same-leading-rdns-other-dcs")
		prev = dnInSequence(full, prev, "again")
		prev = dnInSequence(append(append([]rdn{}, full...), rdn{"DC", "local"}), prev, "one-dc-more")
		prev = dnInSequence(full[:len(full)-1], prev, "one-dc-fewer")
		prev = dnInSequence(lead, prev, "no-dc-at-all")
		// DC values are case-sensitive text: the same DN in another letter case is another DN
		var recased []rdn
		for _, x := range full {
			v := strings.ToUpper(x.val)
			if v == x.val {
				v = strings.ToLower(x.val)
			}
			recased = append(recased, rdn{x.typ, v})
		}
		prev = dnInSequence(full, prev, "again")
		prev = dnInSequence(recased, prev, "same-dn-other-letter-case")
		dnInSequence(full, prev, "again")
		r.Nontrivial("dnseq|" + prev)
	}
}

// ---------------------------------------------------------------- concurrent callers

func concurrentDecoders() {
	rng := r.Rand("concurrent")
	type job struct {
		raw      []byte
		sidWant  string
		dn       string
		dnWant   string
		dnWantEs string
	}
	n := r.Pick(40000, 400000)
	jobs := make([]job, n)
	for i := range jobs {
		cnt := rng.IntN(16)
		subs := make([]uint32, cnt)
		for k := range subs {
			subs[k] = rng.Uint32() >> uint(rng.IntN(32))
		}
		s := sidSpec{rng.Uint64() >> uint(16+rng.IntN(48)), subs}
		var rdns []rdn
		for k, m := 0, rng.IntN(7); k < m; k++ {
			typ := []string{"CN", "OU", "DC", "DC"}[rng.IntN(4)]
			v := label(rng)
			if typ != "DC" && rng.IntN(2) == 0 {
				v = hostileValue(rng)
			}
			rdns = append(rdns, rdn{typ, v})
		}
		j := job{raw: s.raw(), sidWant: s.text()}
		j.dn, j.dnWant, j.dnWantEs = dnText(rdns, adStyles[i%len(adStyles)])
		jobs[i] = j
	}
	var wg sync.WaitGroup
	for w := 0; w < 8; w++ {
		wg.Add(1)
		go func() {
			defer wg.Done()
			for x := range jobs {
				j := jobs[(x+w*len(jobs)/8)%len(jobs)]
				var g1, g2 string
				p, pv, st := mon.Guard(func() {
					g1 = ldap.ParseSIDFromBytes(append([]byte{}, j.raw...))
					g2 = ldap.GetDomainFromDistinguishedName(j.dn)
				})
				r.Eval(2)
				cs := map[string]any{"sid_hex": mon.FullHex(j.raw), "dn": j.dn, "callers": 8}
				switch {
				case p:
					r.Violation("ldap:panic:concurrent:"+mon.PanicClass(pv), fmt.Sprintf("panic %v at %s", pv, mon.TopLibFrame(st)), cs)
				case g1 != j.sidWant:
					r.Violation("ldap.ParseSIDFromBytes:concurrent-callers", fmt.Sprintf("8 goroutines decoding unrelated SIDs: %s gave %q, the single-caller value is %q", mon.Hex(j.raw), g1, j.sidWant), cs)
				case g2 != j.dnWant && g2 != j.dnWantEs:
					r.Violation("ldap.GetDomainFromDistinguishedName:concurrent-callers", fmt.Sprintf("8 goroutines decoding unrelated DNs: %q gave %q, the single-caller value is %q", j.dn, g2, j.dnWant), cs)
				}
			}
		}()
	}
	wg.Wait()
	r.Nontrivial(fmt.Sprintf("concurrent|%d", n))
}

func stateWorkload() {
	sidSequences()
	dnSequences()
	concurrentDecoders()
	heldMu.Lock()
	for _, e := range heldRing {
		verifyHeld(e, "at the end of the run")
	}
	heldMu.Unlock()
	r.Count("held_outputs", heldN)
}
