package main

// Session monitors for C16: the decoders reached the way applications reach them, through
// ldap.Session (InitSession / Connect / GetAllDomains / GetDomain / FindObjectSIDByRID) talking to
// the scripted responder of ldapsrv.go, which serves small generated forests:
//
//	heads    - 2..5 domain heads under one root naming context (child and grandchild domains,
//	           application partitions without objectSid), each with distinguishedName, dc and a binary
//	           objectSid; boundary SIDs first (0 / 1 / 14 / 15 sub-authorities, authorities 0, 2^32-1,
//	           2^32, 2^48-1, sub-authorities 0, powers of ten, 2^32-1, a truncated and an empty value),
//	           then seeded ones;
//	objects  - per domain, principals whose objectSid is <domain SID>-<RID> (RID 0, 1, powers of ten,
//	           500.., 2^31, 2^32-1, seeded) and the BUILTIN aliases S-1-5-32-<RID> (544..583).
//
// Oracle: for every object the text the API returns (SID string, DNS domain, distinguished name) is the
// canonical text, by the reference formatter of this check, of the bytes the responder SENT for that
// object in the search that the call made (read from the responder's log) - never the text of what was
// asked for, and never shared between two map keys. Results are held and re-compared after later calls.

import (
	"encoding/binary"
	"fmt"
	"math/rand/v2"
	"sort"
	"strconv"
	"strings"
	"sync"
	"sync/atomic"
	"time"

	"github.com/TheManticoreProject/Manticore/network/ldap"
	"github.com/TheManticoreProject/Manticore/network/ldap/objects"
	"github.com/TheManticoreProject/Manticore/windows/credentials"

	"verif/mon"
)

// ---------------------------------------------------------------- reference decoders (bytes -> text)

// refSIDFromBytes is MS-DTYP 2.4.2.2 read back: "" for anything that is not a complete revision-1 SID.
func refSIDFromBytes(b []byte) string {
	if len(b) < 8 || b[0] != 1 {
		return ""
	}
	n := int(b[1])
	if n > 15 || len(b) < 8+4*n {
		return ""
	}
	var auth uint64
	for _, x := range b[2:8] {
		auth = auth<<8 | uint64(x)
	}
	subs := make([]uint32, n)
	for i := range subs {
		subs[i] = binary.LittleEndian.Uint32(b[8+4*i:])
	}
	return refSIDString(auth, subs)
}

// refDomainOfDN: the dot-join of the DC components of a DN in AD's string form (split on unescaped
// commas, type before the first '=', backslash escapes removed from the value).
func refDomainOfDN(dn string) string {
	var rdns []string
	cur := strings.Builder{}
	for i := 0; i < len(dn); i++ {
		switch {
		case dn[i] == '\\' && i+1 < len(dn):
			cur.WriteByte(dn[i])
			cur.WriteByte(dn[i+1])
			i++
		case dn[i] == ',':
			rdns = append(rdns, cur.String())
			cur.Reset()
		default:
			cur.WriteByte(dn[i])
		}
	}
	rdns = append(rdns, cur.String())
	var labels []string
	for _, x := range rdns {
		if !strings.HasPrefix(x, "DC=") {
			continue
		}
		v := x[3:]
		var sb strings.Builder
		for i := 0; i < len(v); i++ {
			if v[i] == '\\' && i+1 < len(v) {
				i++
			}
			sb.WriteByte(v[i])
		}
		labels = append(labels, sb.String())
	}
	return strings.Join(labels, ".")
}

func isBuiltinSID(b []byte) bool {
	return len(b) == 16 && b[1] == 2 && string(b[2:8]) == "\x00\x00\x00\x00\x00\x05" && binary.LittleEndian.Uint32(b[8:]) == 32
}

// ---------------------------------------------------------------- the generated directory

type dirHead struct {
	dn  string
	dc  string // value of the dc attribute (the NetBIOS-style short name)
	sid []byte // bytes of the objectSid attribute; nil: the head has none
	// whether the head can hold principals (a complete SID with at most 14 sub-authorities)
	domainAuth uint64
	domainSubs []uint32
	principals bool
	sidFirst   bool // attribute order on the wire
}

type dirObject struct {
	dn  string
	sid []byte
}

type planStep struct {
	kind string // "all" | "domain" | "rid"
	name string
	rid  int
}

type directory struct {
	tag     string
	heads   []dirHead
	objects map[string][]dirObject // <domain DN> NUL <SID text> -> objects
	plan    []planStep
}

func (d *directory) describe() []map[string]any {
	var out []map[string]any
	for _, h := range d.heads {
		out = append(out, map[string]any{"dn": h.dn, "dc": h.dc, "objectSid_hex": mon.FullHex(h.sid), "has_objectSid": h.sid != nil})
	}
	return out
}

func headEntry(h dirHead) ldapEntry {
	e := ldapEntry{dn: h.dn}
	dnA := ldapAttr{"distinguishedName", [][]byte{[]byte(h.dn)}}
	dcA := ldapAttr{"dc", [][]byte{[]byte(h.dc)}}
	if h.sid == nil {
		e.attrs = []ldapAttr{dnA, dcA}
	} else if h.sidFirst {
		e.attrs = []ldapAttr{{"objectSid", [][]byte{h.sid}}, dcA, dnA}
	} else {
		e.attrs = []ldapAttr{dnA, {"objectSid", [][]byte{h.sid}}, dcA}
	}
	return e
}

// answer is the directory's behaviour: RootDSE, the domain heads, objects by SID inside one domain.
func (d *directory) answer(base string, scope int, filter string) []ldapEntry {
	switch {
	case base == "" && scope == 0:
		ncs := [][]byte{}
		for _, h := range d.heads {
			ncs = append(ncs, []byte(h.dn))
		}
		ncs = append(ncs, []byte("CN=Configuration,"+d.heads[0].dn), []byte("CN=Schema,CN=Configuration,"+d.heads[0].dn))
		return []ldapEntry{{dn: "", attrs: []ldapAttr{
			{"defaultNamingContext", [][]byte{[]byte(d.heads[0].dn)}},
			{"rootDomainNamingContext", [][]byte{[]byte(d.heads[0].dn)}},
			{"configurationNamingContext", [][]byte{[]byte("CN=Configuration," + d.heads[0].dn)}},
			{"schemaNamingContext", [][]byte{[]byte("CN=Schema,CN=Configuration," + d.heads[0].dn)}},
			{"namingContexts", ncs},
		}}}
	case strings.EqualFold(filter, "(objectClass=domain)"):
		// the search scope is honoured as a directory does: 0 the base entry alone, 1 its children, 2 the whole subtree
		var out []ldapEntry
		for _, h := range d.heads {
			isBase := h.dn == base
			below := strings.HasSuffix(h.dn, ","+base)
			child := below && !strings.Contains(strings.TrimSuffix(h.dn, ","+base), ",")
			if (scope == 0 && isBase) || (scope == 1 && child) || (scope >= 2 && (isBase || below)) {
				out = append(out, headEntry(h))
			}
		}
		return out
	case len(filter) > 12 && strings.EqualFold(filter[:11], "(objectSid=") && filter[len(filter)-1] == ')':
		var out []ldapEntry
		for _, o := range d.objects[base+"\x00"+filter[11:len(filter)-1]] {
			out = append(out, ldapEntry{dn: o.dn, attrs: []ldapAttr{{"objectSid", [][]byte{o.sid}}, {"distinguishedName", [][]byte{[]byte(o.dn)}}, {"sAMAccountName", [][]byte{[]byte("x")}}}})
		}
		return out
	}
	return nil
}

func (d *directory) addObject(h dirHead, container string, auth uint64, subs []uint32) {
	text := refSIDString(auth, subs)
	key := h.dn + "\x00" + text
	dn := fmt.Sprintf("CN=obj-%d-%d,CN=%s,%s", len(subs), subs[len(subs)-1], container, h.dn)
	d.objects[key] = append(d.objects[key], dirObject{dn: dn, sid: encodeSID(1, auth, subs)})
}

var boundaryRIDs = []uint32{0, 1, 9, 10, 99, 100, 500, 501, 502, 512, 513, 519, 999, 1000, 1103, 1104, 9999, 10000, 99999, 100000, 1000000, 10000000, 100000000, 1000000000, 1<<31 - 1, 1 << 31, 4294967294, 1<<32 - 1}

func mkHead(dn string, auth uint64, subs []uint32, sidFirst bool) dirHead {
	dc := strings.TrimPrefix(strings.SplitN(dn, ",", 2)[0], "DC=")
	return dirHead{dn: dn, dc: dc, sid: encodeSID(1, auth, subs), domainAuth: auth, domainSubs: subs, principals: len(subs) <= 14, sidFirst: sidFirst}
}

func partition(dn string) dirHead {
	return dirHead{dn: dn, dc: strings.TrimPrefix(strings.SplitN(dn, ",", 2)[0], "DC=")}
}

// fill gives every head that can hold principals the listed RIDs and BUILTIN aliases, and writes the plan:
// GetAllDomains, every head by DNS name (three letter cases) and by short name, names nobody holds, the RID
// lookups (present and absent, domain by domain and then RID by RID across domains), GetAllDomains again.
func (d *directory) fill(rng *rand.Rand, rids func(h int) []uint32, builtin func(h int) []uint32, absent []uint32) {
	d.objects = map[string][]dirObject{}
	d.plan = append(d.plan, planStep{kind: "all"})
	var names []planStep
	for _, h := range d.heads {
		dns := refDomainOfDN(h.dn)
		names = append(names, planStep{kind: "domain", name: dns}, planStep{kind: "domain", name: strings.ToLower(dns)}, planStep{kind: "domain", name: strings.ToUpper(dns)},
			planStep{kind: "domain", name: h.dc}, planStep{kind: "domain", name: strings.ToUpper(h.dc)})
	}
	for hi, h := range d.heads {
		// other spellings of names that are there
		dns := refDomainOfDN(h.dn)
		for vi, v := range []string{dns + ".", "." + dns, dns + "..", dns + " ", " " + dns, h.dc + ".", strings.ToLower(dns) + "."} {
			if (hi+vi)%2 == 0 || len(d.heads) <= 2 {
				names = append(names, planStep{kind: "domain", name: v})
			}
		}
	}
	names = append(names, planStep{kind: "domain", name: "absent." + refDomainOfDN(d.heads[0].dn)}, planStep{kind: "domain", name: "NOSUCHDOMAIN"},
		planStep{kind: "domain", name: refDomainOfDN(d.heads[0].dn) + ".x"})
	if rng != nil {
		rng.Shuffle(len(names), func(i, j int) { names[i], names[j] = names[j], names[i] })
	}
	d.plan = append(d.plan, names...)
	var byDomain, byRID []planStep
	ridSet := map[uint32]bool{}
	for hi, h := range d.heads {
		if !h.principals || h.sid == nil {
			continue
		}
		dns := refDomainOfDN(h.dn)
		for _, rid := range rids(hi) {
			d.addObject(h, "Users", h.domainAuth, append(append([]uint32{}, h.domainSubs...), rid))
			byDomain = append(byDomain, planStep{kind: "rid", name: dns, rid: int(rid)})
			ridSet[rid] = true
		}
		for _, rid := range builtin(hi) {
			d.addObject(h, "Builtin", 5, []uint32{32, rid})
			byDomain = append(byDomain, planStep{kind: "rid", name: h.dc, rid: int(rid)})
			ridSet[rid] = true
		}
		for _, rid := range absent {
			byDomain = append(byDomain, planStep{kind: "rid", name: dns, rid: int(rid)})
		}
	}
	var all []uint32
	for rid := range ridSet {
		all = append(all, rid)
	}
	sort.Slice(all, func(i, j int) bool { return all[i] < all[j] })
	for _, rid := range all {
		for _, h := range d.heads {
			if h.principals && h.sid != nil {
				byRID = append(byRID, planStep{kind: "rid", name: refDomainOfDN(h.dn), rid: int(rid)})
			}
		}
	}
	// a domain-relative lookup right before and after every BUILTIN one happens naturally in byRID (544..583 sit
	// between 519 and 999); byDomain has all BUILTIN lookups of one domain in a row
	d.plan = append(d.plan, byDomain...)
	d.plan = append(d.plan, byRID...)
	d.plan = append(d.plan, planStep{kind: "domain", name: refDomainOfDN(d.heads[0].dn)}, planStep{kind: "all"})
}

func builtinRange() []uint32 {
	var out []uint32
	for rid := uint32(544); rid <= 583; rid++ {
		out = append(out, rid)
	}
	return out
}

// boundaryDirectories do not depend on the seed.
func boundaryDirectories() []*directory {
	var out []*directory
	// the forest of the usual shape: root, child, the two DNS application partitions (no objectSid)
	d0 := &directory{tag: "forest", heads: []dirHead{
		mkHead("DC=corp,DC=example", 5, []uint32{21, 3623811015, 3361044348, 30300820}, false),
		mkHead("DC=emea,DC=corp,DC=example", 5, []uint32{21, 1004336348, 1177238915, 682003330}, true),
		partition("DC=DomainDnsZones,DC=corp,DC=example"),
		partition("DC=ForestDnsZones,DC=corp,DC=example"),
		// an entry whose DN has other RDNs between its DC components (C16 quantifies over DNs built
		// from arbitrary RDN sequences): its DNS name is still the dot-join of the DC components
		mkHead("DC=lab,OU=Hosting,DC=corp,DC=example", 5, []uint32{21, 7, 8, 9}, false),
	}}
	d0.fill(nil, func(int) []uint32 {
		return []uint32{500, 501, 502, 512, 513, 1104, 1105, 544, 560, 572, 65535, 65536, 66080, 131617, 65536 + 583, 1<<31 + 544, 0xFFFF0220, 563, 564, 565, 566, 567, 570, 498, 499, 1, 0, 256, 300}
	}, func(int) []uint32 { return builtinRange() }, []uint32{4242, 7})
	out = append(out, d0)
	// sub-authority counts 0, 1, 14, 15; authorities 0, 2^32, 2^48-1; powers of ten
	fourteen := make([]uint32, 14)
	fifteen := make([]uint32, 15)
	for i := range fifteen {
		fifteen[i] = uint32(1000000000 + i)
		if i < 14 {
			fourteen[i] = []uint32{0, 1<<32 - 1, 10, 100}[i%4]
		}
	}
	d1 := &directory{tag: "sid-boundaries", heads: []dirHead{
		mkHead("DC=a", 5, nil, false),
		mkHead("DC=b,DC=a", 0, []uint32{0}, true),
		mkHead("DC=c,DC=a", 1<<32, fourteen, false),
		mkHead("DC=d,DC=a", 1<<48-1, fifteen, true),
		mkHead("DC=e,DC=b,DC=a", 10, []uint32{100, 1000, 10000, 100000, 1000000, 10000000, 100000000, 1000000000}, false),
	}}
	d1.fill(nil, func(int) []uint32 { return boundaryRIDs }, func(h int) []uint32 { return []uint32{544, 545, 551, 582} }, []uint32{4242})
	out = append(out, d1)
	// authorities around 2^32, all-ones sub-authorities, long / numeric / mixed-case labels, an objectSid cut short, an empty one
	long := strings.Repeat("l", 63)
	cut := encodeSID(1, 5, []uint32{21, 1, 2, 3})
	d2 := &directory{tag: "label-boundaries", heads: []dirHead{
		mkHead("DC=Root-1,DC=xn--80ak6aa92e,DC=9", 1<<32-1, []uint32{1<<32 - 1, 1<<32 - 1, 1<<32 - 1, 1<<32 - 1}, true),
		mkHead("DC="+long+",DC=Root-1,DC=xn--80ak6aa92e,DC=9", 1<<32+1, []uint32{21, 10, 100, 1000}, false),
		mkHead("DC=2024,DC=Root-1,DC=xn--80ak6aa92e,DC=9", 5, []uint32{21, 0, 0, 0}, false),
		{dn: "DC=under_score,DC=Root-1,DC=xn--80ak6aa92e,DC=9", dc: "under_score", sid: cut[:len(cut)-1]},
		{dn: "DC=MiXeD,DC=2024,DC=Root-1,DC=xn--80ak6aa92e,DC=9", dc: "MiXeD", sid: []byte{}},
	}}
	d2.fill(nil, func(h int) []uint32 { return []uint32{0, 500, 1000, 1<<32 - 1} }, func(h int) []uint32 { return []uint32{544, 555, 583} }, []uint32{4242})
	out = append(out, d2)
	// SIDs whose octets begin or end like text does: a last sub-authority whose top octet is a
	// blank, tab, line feed or NUL (the last octet of the attribute value), a first sub-authority
	// whose low octet is one; binary attribute values are not text
	d3 := &directory{tag: "sid-octets-like-white-space", heads: []dirHead{
		mkHead("DC=ws,DC=example", 5, []uint32{21, 111111111, 222222222, 0x20000000 | 3333}, false),
		mkHead("DC=tab,DC=ws,DC=example", 5, []uint32{21, 0x09, 5, 0x09000001}, true),
		mkHead("DC=lf,DC=ws,DC=example", 5, []uint32{21, 7, 8, 0x0A0D0A0D}, false),
		mkHead("DC=nul,DC=ws,DC=example", 5, []uint32{21, 7, 9, 0x00000005}, true),
		mkHead("DC=sp,DC=ws,DC=example", 0x20, []uint32{0x20202020, 0x20202020}, false),
	}}
	d3.fill(nil, func(h int) []uint32 { return []uint32{500, 1104, 0x20000000, 0x0A000001, 0x20} }, func(h int) []uint32 { return []uint32{544} }, []uint32{4242})
	out = append(out, d3)
	return out
}

var rootPool = [][]string{{"corp", "example"}, {"contoso", "local"}, {"ad", "lab", "test"}, {"local"}}

func seededDirectory(rng *rand.Rand, k int) *directory {
	d := &directory{tag: "seeded"}
	var root []string
	if rng.IntN(2) == 0 {
		root = rootPool[rng.IntN(len(rootPool))] // names shared between directories, SIDs are not
	} else {
		for i, n := 0, 1+rng.IntN(3); i < n; i++ {
			root = append(root, label(rng))
		}
	}
	dnOf := func(labels []string) string { return "DC=" + strings.Join(labels, ",DC=") }
	seenDNS := map[string]bool{strings.ToUpper(strings.Join(root, ".")): true}
	seenDC := map[string]bool{strings.ToUpper(root[0]): true}
	randSID := func() (uint64, []uint32) {
		switch rng.IntN(6) {
		case 0: // any count, any authority
			subs := make([]uint32, rng.IntN(16))
			for i := range subs {
				subs[i] = rng.Uint32() >> uint(rng.IntN(32))
			}
			return rng.Uint64() >> uint(16+rng.IntN(48)), subs
		case 1: // boundary values
			vals := []uint32{0, 1, 10, 100, 1000000000, 1<<31 - 1, 1 << 31, 1<<32 - 1}
			subs := make([]uint32, 1+rng.IntN(14))
			for i := range subs {
				subs[i] = vals[rng.IntN(len(vals))]
			}
			return []uint64{0, 1, 5, 9, 1<<32 - 1, 1 << 32, 1<<48 - 1}[rng.IntN(7)], subs
		}
		return 5, []uint32{21, rng.Uint32(), rng.Uint32(), rng.Uint32()}
	}
	labelsOf := [][]string{root}
	a, s := randSID()
	d.heads = append(d.heads, mkHead(dnOf(root), a, s, rng.IntN(2) == 0))
	for n := 1 + rng.IntN(4); len(d.heads) < 1+n; {
		parent := labelsOf[rng.IntN(len(labelsOf))]
		l := label(rng)
		if rng.IntN(5) == 0 {
			l = []string{"DomainDnsZones", "ForestDnsZones", "emea", "child", "dev"}[rng.IntN(5)]
		}
		labels := append([]string{l}, parent...)
		if seenDNS[strings.ToUpper(strings.Join(labels, "."))] || seenDC[strings.ToUpper(l)] {
			continue
		}
		seenDNS[strings.ToUpper(strings.Join(labels, "."))] = true
		seenDC[strings.ToUpper(l)] = true
		if rng.IntN(5) == 0 {
			d.heads = append(d.heads, partition(dnOf(labels)))
			continue // nothing lives under an application partition
		}
		a, s := randSID()
		d.heads = append(d.heads, mkHead(dnOf(labels), a, s, rng.IntN(2) == 0))
		labelsOf = append(labelsOf, labels)
	}
	rids := func(int) []uint32 {
		var out []uint32
		seen := map[uint32]bool{}
		for i, n := 0, 3+rng.IntN(6); i < n; i++ {
			var rid uint32
			switch rng.IntN(4) {
			case 0:
				rid = boundaryRIDs[rng.IntN(len(boundaryRIDs))]
			case 1:
				rid = 544 + uint32(rng.IntN(40)) // a principal of the domain whose RID is in the BUILTIN range
				if rng.IntN(2) == 0 {
					rid += 65536 * uint32(1+rng.IntN(65535)) // or only looks like one in its low 16 bits
				}
			case 2:
				rid = 1000 + uint32(rng.IntN(9000))
			default:
				rid = rng.Uint32() >> uint(rng.IntN(32))
			}
			if !seen[rid] {
				seen[rid] = true
				out = append(out, rid)
			}
		}
		return out
	}
	builtin := func(int) []uint32 {
		var out []uint32
		for _, rid := range builtinRange() {
			if rng.IntN(4) == 0 {
				out = append(out, rid)
			}
		}
		return append(out, 544)
	}
	d.fill(rng, rids, builtin, []uint32{4242, 544 + uint32(rng.IntN(40))})
	_ = k
	return d
}

// ---------------------------------------------------------------- driving the Session

type heldDomain struct {
	entry, asked string
	obj          *objects.Domain
	dn, dns, sid string // private copies taken when the object was returned
}

type sessionRun struct {
	d    *directory
	srv  *ldapResponder
	s    *ldap.Session
	held []heldDomain
}

func (sr *sessionRun) hold(entry, asked string, o *objects.Domain) {
	sr.held = append(sr.held, heldDomain{entry, asked, o, strings.Clone(o.DistinguishedName), strings.Clone(o.DNSName), strings.Clone(o.SID)})
}

func (sr *sessionRun) verifyHeld(when string) {
	for i := range sr.held {
		h := &sr.held[i]
		r.Eval(1)
		if h.obj.DistinguishedName != h.dn || h.obj.DNSName != h.dns || h.obj.SID != h.sid {
			r.Violation(h.entry+":held-output-changed", fmt.Sprintf("the Domain returned by %s for %q read {DN:%q DNS:%q SID:%q} when it was returned and reads {DN:%q DNS:%q SID:%q} %s", h.entry, h.asked, h.dn, h.dns, h.sid, h.obj.DistinguishedName, h.obj.DNSName, h.obj.SID, when),
				map[string]any{"directory": sr.d.describe(), "asked": h.asked, "when": when})
			h.dn, h.dns, h.sid = strings.Clone(h.obj.DistinguishedName), strings.Clone(h.obj.DNSName), strings.Clone(h.obj.SID)
		}
	}
}

func sentView(sent []ldapEntry) []map[string]any {
	var out []map[string]any
	for _, e := range sent {
		m := map[string]any{"dn": e.dn}
		for _, a := range e.attrs {
			if strings.EqualFold(a.name, "objectSid") && len(a.vals) > 0 {
				m["objectSid_hex"] = mon.FullHex(a.vals[0])
				m["objectSid_reference_text"] = refSIDFromBytes(a.vals[0])
			}
		}
		out = append(out, m)
	}
	return out
}

func findSearch(log []ldapSearch, prefix string) *ldapSearch {
	for i := len(log) - 1; i >= 0; i-- {
		if len(log[i].filter) >= len(prefix) && strings.EqualFold(log[i].filter[:len(prefix)], prefix) {
			return &log[i]
		}
	}
	return nil
}

// compareDomain judges one returned Domain against the entry the responder sent for it.
func (sr *sessionRun) compareDomain(entry, asked string, got *objects.Domain, e ldapEntry, sent []ldapEntry) {
	dnB, _ := e.attr("distinguishedName")
	sidB, _ := e.attr("objectSid")
	wantDN, wantDNS, wantSID := string(dnB), refDomainOfDN(string(dnB)), refSIDFromBytes(sidB)
	cs := map[string]any{"call": entry, "asked": asked, "directory": sr.d.describe(), "sent_in_this_search": sentView(sent), "entry_dn": wantDN, "entry_objectSid_hex": mon.FullHex(sidB),
		"got": map[string]string{"DistinguishedName": got.DistinguishedName, "DNSName": got.DNSName, "SID": got.SID}, "want": map[string]string{"DistinguishedName": wantDN, "DNSName": strings.ToUpper(wantDNS), "SID": wantSID}}
	if got.DistinguishedName != wantDN {
		r.Violation(entry+":value:distinguishedName", fmt.Sprintf("%s(%s): the Domain filed for %q has DistinguishedName %q", entry, asked, wantDN, got.DistinguishedName), cs)
	}
	if !strings.EqualFold(got.DNSName, wantDNS) { // letter case is not demanded
		r.Violation(entry+":value:dnsName", fmt.Sprintf("%s(%s): the entry %q gives DNS domain %q, the dot-join of its DC components is %q", entry, asked, wantDN, got.DNSName, wantDNS), cs)
	}
	if got.SID != wantSID {
		r.Violation(entry+":value:sid", fmt.Sprintf("%s(%s): the entry %q carried objectSid %s = %q, the Domain says %q", entry, asked, wantDN, mon.Hex(sidB), wantSID, got.SID), cs)
	}
	r.Nontrivial("session|" + entry + "|" + wantDN + "|" + mon.FullHex(sidB))
}

func (sr *sessionRun) getAllDomains() {
	var got map[string]*objects.Domain
	var err error
	p, pv, st := mon.Guard(func() { got, err = sr.s.GetAllDomains() })
	log := sr.srv.drain()
	r.Eval(1)
	cs := map[string]any{"call": "GetAllDomains", "directory": sr.d.describe()}
	if p {
		r.Violation("ldap.Session.GetAllDomains:panic:"+mon.PanicClass(pv), fmt.Sprintf("panic %v at %s", pv, mon.TopLibFrame(st)), cs)
		return
	}
	q := findSearch(log, "(objectClass=domain)")
	if q == nil {
		r.Count("session_call_without_the_expected_search", 1)
		return
	}
	cs["sent_in_this_search"] = sentView(q.sent)
	if err != nil {
		r.Violation("ldap.Session.GetAllDomains:error", fmt.Sprintf("the responder sent %d well-formed domain heads, GetAllDomains failed: %v", len(q.sent), err), cs)
		return
	}
	keys := map[string]bool{}
	for _, e := range q.sent {
		dnB, _ := e.attr("distinguishedName")
		keys[strings.ToUpper(refDomainOfDN(string(dnB)))] = true
	}
	if len(got) != len(keys) {
		r.Violation("ldap.Session.GetAllDomains:count", fmt.Sprintf("%d domain heads with distinct DNS names were sent, the map has %d entries", len(keys), len(got)), cs)
	}
	// one object per key
	owner := map[*objects.Domain]string{}
	var gotKeys []string
	for k := range got {
		gotKeys = append(gotKeys, k)
	}
	sort.Strings(gotKeys)
	for _, k := range gotKeys {
		o := got[k]
		if o == nil {
			continue
		}
		if first, dup := owner[o]; dup {
			r.Violation("ldap.Session.GetAllDomains:shared-object", fmt.Sprintf("the keys %q and %q of the returned map hold the same *objects.Domain", first, k), cs)
			break
		}
		owner[o] = k
	}
	for _, e := range q.sent {
		dnB, _ := e.attr("distinguishedName")
		want := refDomainOfDN(string(dnB))
		var o *objects.Domain
		for _, k := range gotKeys {
			if strings.EqualFold(k, want) {
				o = got[k]
			}
		}
		r.Eval(1)
		if o == nil {
			r.Violation("ldap.Session.GetAllDomains:missing-key", fmt.Sprintf("no Domain under the DNS name %q of the head %q (keys: %q)", want, dnB, gotKeys), cs)
			continue
		}
		sr.compareDomain("ldap.Session.GetAllDomains", "", o, e, q.sent)
		sr.hold("ldap.Session.GetAllDomains", want, o)
	}
}

// concurrentLookups: the Session used by several goroutines at once (the connection underneath
// serialises requests and matches responses by message id), each looking up objects of several
// domains in turn while the directory takes a few milliseconds over every domain search: each call
// returns the text of the objectSid of the object it asked for.
func (sr *sessionRun) concurrentLookups() {
	type look struct {
		name string
		rid  int
		want string
	}
	var looks []look
	for _, h := range sr.d.heads {
		if !h.principals || h.sid == nil {
			continue
		}
		amb := 0
		for _, o := range sr.d.heads {
			if strings.EqualFold(refDomainOfDN(o.dn), refDomainOfDN(h.dn)) {
				amb++
			}
		}
		if amb != 1 {
			continue
		}
		for _, rid := range []uint32{500, 501, 512, 1000, 1103, 1104, 9999} {
			text := fmt.Sprintf("%s-%d", refSIDString(h.domainAuth, h.domainSubs), rid)
			if objs := sr.d.objects[h.dn+"\x00"+text]; len(objs) == 1 {
				looks = append(looks, look{refDomainOfDN(h.dn), int(rid), text})
			}
		}
	}
	doms := map[string]bool{}
	for _, l := range looks {
		doms[l.name] = true
	}
	if len(doms) < 2 || len(looks) < 4 {
		r.Count("session_concurrent_lookups_skipped_one_domain", 1)
		return
	}
	sr.srv.domainSearchDelay.Store(int64(2 * time.Millisecond))
	defer sr.srv.domainSearchDelay.Store(0)
	const G = 4
	var wg sync.WaitGroup
	start := make(chan struct{})
	for g := 0; g < G; g++ {
		wg.Add(1)
		go func(g int) {
			defer wg.Done()
			<-start
			for i := 0; i < 6 && i < len(looks); i++ {
				l := looks[(g*5+i*(g+1))%len(looks)]
				var got string
				var err error
				p, pv, st := mon.Guard(func() { got, err = sr.s.FindObjectSIDByRID(l.name, l.rid) })
				cs := map[string]any{"call": "FindObjectSIDByRID", "domain": l.name, "rid": l.rid, "goroutines_on_the_session": G, "directory": sr.d.describe()}
				switch {
				case p:
					r.Violation("ldap.Session.FindObjectSIDByRID:concurrent-callers:panic:"+mon.PanicClass(pv), fmt.Sprintf("panic %v at %s", pv, mon.TopLibFrame(st)), cs)
				case err != nil || got != l.want:
					r.Violation("ldap.Session.FindObjectSIDByRID:concurrent-callers", fmt.Sprintf("%d goroutines on one Session: FindObjectSIDByRID(%q, %d) = %q, %v; the directory holds that object with SID %s", G, l.name, l.rid, got, err, l.want), cs)
				}
			}
		}(g)
	}
	close(start)
	wg.Wait()
	r.Eval(G * 6)
	sr.srv.drain()
	r.Count("session_concurrent_lookup_rounds", 1)
}

func (sr *sessionRun) getDomain(name string) {
	var got *objects.Domain
	var err error
	p, pv, st := mon.Guard(func() { got, err = sr.s.GetDomain(name) })
	log := sr.srv.drain()
	r.Eval(1)
	cs := map[string]any{"call": "GetDomain", "asked": name, "directory": sr.d.describe()}
	if p {
		r.Violation("ldap.Session.GetDomain:panic:"+mon.PanicClass(pv), fmt.Sprintf("panic %v at %s", pv, mon.TopLibFrame(st)), cs)
		return
	}
	q := findSearch(log, "(objectClass=domain)")
	if q == nil {
		r.Count("session_call_without_the_expected_search", 1)
		return
	}
	cs["sent_in_this_search"] = sentView(q.sent)
	// the head the name designates among the entries sent: by DNS name if it has a dot, by short name otherwise
	var want *ldapEntry
	for i, e := range q.sent {
		dnB, _ := e.attr("distinguishedName")
		dcB, _ := e.attr("dc")
		if strings.Contains(name, ".") && strings.EqualFold(refDomainOfDN(string(dnB)), name) || !strings.Contains(name, ".") && strings.EqualFold(string(dcB), name) {
			want = &q.sent[i]
			break
		}
	}
	if want == nil && got != nil {
		// another spelling of a name that is there (root dot, blanks): whether a library understands it
		// is its choice; if it does, the Domain it returns is still the one of that head
		core := strings.Trim(name, ". ")
		for i, e := range q.sent {
			dnB, _ := e.attr("distinguishedName")
			dcB, _ := e.attr("dc")
			if core != name && string(dnB) == got.DistinguishedName && (strings.EqualFold(refDomainOfDN(string(dnB)), core) || strings.EqualFold(string(dcB), core)) {
				r.Count("session_getdomain_other_spelling_understood", 1)
				sr.compareDomain("ldap.Session.GetDomain", name, got, q.sent[i], q.sent)
				return
			}
		}
	}
	switch {
	case want == nil && got != nil:
		r.Violation("ldap.Session.GetDomain:phantom", fmt.Sprintf("no head sent is called %q, GetDomain returned {DN:%q DNS:%q SID:%q}", name, got.DistinguishedName, got.DNSName, got.SID), cs)
	case want == nil:
		r.Count("session_getdomain_absent_refused", 1)
	case got == nil:
		r.Violation("ldap.Session.GetDomain:not-found", fmt.Sprintf("the head %q was sent and is called %q, GetDomain found nothing (%v)", want.dn, name, err), cs)
	default:
		sr.compareDomain("ldap.Session.GetDomain", name, got, *want, q.sent)
		sr.hold("ldap.Session.GetDomain", name, got)
	}
}

func (sr *sessionRun) findByRID(name string, rid int) {
	var got string
	var err error
	p, pv, st := mon.Guard(func() { got, err = sr.s.FindObjectSIDByRID(name, rid) })
	log := sr.srv.drain()
	r.Eval(1)
	cs := map[string]any{"call": "FindObjectSIDByRID", "domain": name, "rid": rid, "directory": sr.d.describe()}
	if p {
		r.Violation("ldap.Session.FindObjectSIDByRID:panic:"+mon.PanicClass(pv), fmt.Sprintf("panic %v at %s", pv, mon.TopLibFrame(st)), cs)
		return
	}
	q := findSearch(log, "(objectSid=")
	if q == nil {
		// no object was asked for. If the directory holds exactly one object with that RID under the
		// (unambiguously named) domain and the RID is outside the alias range, its SID is the answer
		r.Count("session_rid_lookup_without_objectsid_search", 1)
		var match []dirHead
		for _, h := range sr.d.heads {
			if strings.EqualFold(name, refDomainOfDN(h.dn)) || strings.EqualFold(name, h.dc) {
				match = append(match, h)
			}
		}
		if err == nil && len(match) == 1 && match[0].principals && match[0].sid != nil && rid >= 0 && (rid < 544 || rid > 583) {
			text := fmt.Sprintf("%s-%d", refSIDString(match[0].domainAuth, match[0].domainSubs), rid)
			if objs := sr.d.objects[match[0].dn+"\x00"+text]; len(objs) == 1 && got != text {
				r.Violation("ldap.Session.FindObjectSIDByRID:value:never-asked", fmt.Sprintf("FindObjectSIDByRID(%q, %d) returned %q without searching; the directory holds %s with objectSid %s", name, rid, got, objs[0].dn, text), cs)
			}
		}
		return
	}
	cs["filter_received"], cs["base_received"], cs["sent_in_this_search"], cs["got"] = q.filter, q.base, sentView(q.sent), got
	// the question itself: the object asked for is the one whose SID is the domain's SID followed
	// by the RID (for the BUILTIN alias range S-1-5-32-<rid> is the library's documented choice)
	var match []dirHead
	for _, h := range sr.d.heads {
		if strings.EqualFold(name, refDomainOfDN(h.dn)) || strings.EqualFold(name, h.dc) {
			match = append(match, h)
		}
	}
	if len(match) == 1 && match[0].principals && match[0].sid != nil {
		domainForm := fmt.Sprintf("(objectSid=%s-%d)", refSIDString(match[0].domainAuth, match[0].domainSubs), rid)
		builtinForm := fmt.Sprintf("(objectSid=S-1-5-32-%d)", rid)
		r.Eval(1)
		// the SID asked for, whatever the filter's spelling (string form, or the octets escaped as \hh)
		asked, understood := sidOfFilter(q.filter)
		switch {
		case !understood:
			r.Count("session_rid_lookup_filter_not_judged", 1)
		case "(objectSid="+asked+")" != domainForm && !(rid >= 544 && rid <= 583 && !unassignedAlias[rid] && "(objectSid="+asked+")" == builtinForm):
			r.Violation("ldap.Session.FindObjectSIDByRID:filter", fmt.Sprintf("FindObjectSIDByRID(%q, %d) searched for %s, the object with that RID in that domain is %s", name, rid, q.filter, domainForm), cs)
			return
		}
	} else {
		r.Count("session_rid_lookup_filter_not_judged", 1)
	}
	if err != nil {
		r.Violation("ldap.Session.FindObjectSIDByRID:error", fmt.Sprintf("the responder answered %q with %d entries, the call failed: %v", q.filter, len(q.sent), err), cs)
		return
	}
	switch len(q.sent) {
	case 0:
		r.Count("session_rid_lookup_nothing_sent", 1)
		if got != "" {
			r.Violation("ldap.Session.FindObjectSIDByRID:value:absent", fmt.Sprintf("FindObjectSIDByRID(%q, %d): the responder sent no object for %q, the call returned %q", name, rid, q.filter, got), cs)
		}
	case 1:
		sidB, _ := q.sent[0].attr("objectSid")
		want := refSIDFromBytes(sidB)
		cls := "domain-relative"
		if isBuiltinSID(sidB) {
			cls = "builtin"
		}
		r.Count("session_rid_lookup_"+cls, 1)
		cs["want"] = want
		if got != want {
			r.Violation("ldap.Session.FindObjectSIDByRID:value:"+cls, fmt.Sprintf("FindObjectSIDByRID(%q, %d): the object sent (%s) carries objectSid %s = %q, the call returned %q", name, rid, q.sent[0].dn, mon.Hex(sidB), want, got), cs)
		}
		r.Nontrivial("session|rid|" + q.sent[0].dn + "|" + want)
	default:
		// several objects answer the filter: the refusal "" or the text of any of them
		r.Count("session_rid_lookup_several_sent", 1)
		ok := got == ""
		for _, e := range q.sent {
			sidB, _ := e.attr("objectSid")
			ok = ok || got == refSIDFromBytes(sidB)
		}
		if !ok {
			r.Violation("ldap.Session.FindObjectSIDByRID:value:several", fmt.Sprintf("FindObjectSIDByRID(%q, %d): %d objects were sent, the call returned %q which is the text of none of them", name, rid, len(q.sent), got), cs)
		}
	}
}

// unassignedAlias: RIDs inside 544..583 that MS-DTYP 2.4.2.4 / the well-known SID list assign to
// no BUILTIN alias; in a domain they can only be ordinary domain-relative RIDs.
var unassignedAlias = map[int]bool{563: true, 564: true, 565: true, 566: true, 567: true, 570: true}

// sidOfFilter reads the SID an (objectSid=...) equality filter asks for: the string form, or
// the binary form with every octet escaped (RFC 4515). Anything else is not understood.
func sidOfFilter(f string) (string, bool) {
	if !strings.HasPrefix(f, "(objectSid=") || !strings.HasSuffix(f, ")") {
		return "", false
	}
	v := f[len("(objectSid=") : len(f)-1]
	if strings.HasPrefix(v, "S-") {
		return v, true
	}
	var b []byte
	for i := 0; i < len(v); {
		if v[i] != '\\' || i+2 >= len(v) {
			return "", false
		}
		x, err := strconv.ParseUint(v[i+1:i+3], 16, 8)
		if err != nil {
			return "", false
		}
		b = append(b, byte(x))
		i += 3
	}
	if t := refSIDFromBytes(b); t != "" {
		return t, true
	}
	return "", false
}

var sessionUnavailable atomic.Bool

func runDirectory(d *directory) {
	srv, err := startResponder(d.answer)
	if err != nil {
		if !sessionUnavailable.Swap(true) {
			r.Inconclusive("C16 session monitors: cannot listen on 127.0.0.1: " + err.Error())
		}
		return
	}
	defer srv.stop()
	// not a verdict: a call that never returns would otherwise only end with the watchdog of ./check
	var stuck atomic.Bool
	wd := time.AfterFunc(5*time.Minute, func() { stuck.Store(true); srv.stop() })
	defer wd.Stop()

	creds, err := credentials.NewCredentials("", "", "", "")
	if err != nil {
		r.Inconclusive("C16 session monitors: credentials.NewCredentials: " + err.Error())
		return
	}
	s := &ldap.Session{}
	var ok bool
	p, pv, _ := mon.Guard(func() {
		if err = s.InitSession("127.0.0.1", srv.port(), creds, false, false); err == nil {
			ok, err = s.Connect()
		}
	})
	if p || err != nil || !ok {
		if !sessionUnavailable.Swap(true) {
			r.Inconclusive(fmt.Sprintf("C16 session monitors: ldap.Session could not be brought up against the loopback responder (panic=%v ok=%v err=%v)", pv, ok, err))
		}
		return
	}
	defer func() { mon.Guard(s.Close) }()
	srv.drain()
	sr := &sessionRun{d: d, srv: srv, s: s}
	for i, step := range d.plan {
		switch step.kind {
		case "all":
			sr.getAllDomains()
		case "domain":
			sr.getDomain(step.name)
		case "rid":
			sr.findByRID(step.name, step.rid)
		}
		if step.kind != "rid" || i%16 == 0 {
			sr.verifyHeld("after a later call on the same Session")
		}
		if stuck.Load() {
			r.Inconclusive("C16 session monitors: a Session call did not return within 5 minutes (directory " + d.tag + ")")
			return
		}
	}
	sr.verifyHeld("at the end of the Session")
	sr.concurrentLookups()
	r.Count("session_directories", 1)
	r.Count("session_calls", len(d.plan))
}

func sessionWorkload() {
	rng := r.Rand("session-directories")
	dirs := boundaryDirectories()
	for k := 0; k < r.Pick(40, 600); k++ {
		dirs = append(dirs, seededDirectory(rng, k))
	}
	r.Sample(map[string]any{"kind": "session", "call": "FindObjectSIDByRID(\"corp.example\", 544)", "objectSid_sent_hex": mon.FullHex(encodeSID(1, 5, []uint32{32, 544})), "text": "S-1-5-32-544"})
	r.Sample(map[string]any{"kind": "session", "call": "GetAllDomains()", "heads_sent": dirs[0].describe()})
	// directories are independent (own responder, own Session); a few at a time, also so that a table shared
	// between Sessions and keyed by domain name (root names repeat, SIDs do not) would be seen
	jobs := make(chan *directory)
	var wg sync.WaitGroup
	for w := 0; w < 4; w++ {
		wg.Add(1)
		go func() {
			defer wg.Done()
			for d := range jobs {
				runDirectory(d)
			}
		}()
	}
	for _, d := range dirs {
		jobs <- d
	}
	close(jobs)
	wg.Wait()
}
