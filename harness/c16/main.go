// C16: binary SIDs and distinguished names decode to their canonical text.
package main

import (
	"encoding/binary"
	"fmt"
	"math/rand/v2"
	"strconv"
	"strings"
	"sync"

	"github.com/TheManticoreProject/Manticore/network/ldap"

	"verif/mon"
)

var r *mon.Run

// ---------------------------------------------------------------- SIDs

// encodeSID lays a SID out as MS-DTYP 2.4.2.2 defines: Revision(1) SubAuthorityCount(1)
// IdentifierAuthority(6, big-endian) SubAuthority(4 each, little-endian).
func encodeSID(rev byte, auth uint64, subs []uint32) []byte {
	b := []byte{rev, byte(len(subs)), byte(auth >> 40), byte(auth >> 32), byte(auth >> 24), byte(auth >> 16), byte(auth >> 8), byte(auth)}
	for _, s := range subs {
		b = binary.LittleEndian.AppendUint32(b, s)
	}
	return b
}

// refSIDString is MS-DTYP 2.4.2.1 with the authority in decimal, as the property states.
func refSIDString(auth uint64, subs []uint32) string {
	var sb strings.Builder
	sb.WriteString("S-1-")
	sb.WriteString(strconv.FormatUint(auth, 10))
	for _, s := range subs {
		sb.WriteByte('-')
		sb.WriteString(strconv.FormatUint(uint64(s), 10))
	}
	return sb.String()
}

func countClass(n int) string {
	switch n {
	case 0:
		return "count0"
	case 1:
		return "count1"
	}
	return "count2-15"
}

func sidCase(auth uint64, subs []uint32) {
	raw := encodeSID(1, auth, subs)
	want := refSIDString(auth, subs)
	cs := map[string]any{"sid_hex": mon.FullHex(raw), "expected": want}
	var got string
	in := append([]byte{}, raw...)
	p, pv, st := mon.Guard(func() { got = ldap.ParseSIDFromBytes(in) })
	r.Eval(1)
	switch {
	case p:
		r.Violation("ldap.ParseSIDFromBytes:panic:"+mon.PanicClass(pv)+":"+countClass(len(subs)), fmt.Sprintf("panic %v at %s on well-formed SID %s (%s)", pv, mon.TopLibFrame(st), mon.Hex(raw), want), cs)
	case got != want:
		cls := countClass(len(subs))
		if len(subs) >= 2 {
			// tell an authority slip from a sub-authority slip
			if !strings.HasPrefix(got, "S-1-"+strconv.FormatUint(auth, 10)+"-") {
				cls += ":authority"
			} else {
				cls += ":subauthority"
			}
		}
		r.Violation("ldap.ParseSIDFromBytes:value:"+cls, fmt.Sprintf("SID %s: got %q want %q", mon.Hex(raw), got, want), cs)
	}
	if string(in) != string(raw) {
		r.Violation("ldap.ParseSIDFromBytes:input-modified", "the SID buffer was rewritten", cs)
	}
	r.Nontrivial("sid|" + want)
	if p || got != want {
		return // the plain case is already reported; do not repeat it under the trailing-bytes key
	}

	// trailing bytes after the declared length: the canonical text (or a refusal), never another text
	for _, extra := range [][]byte{{0}, {0xFF, 0xFF, 0xFF, 0xFF}, {1, 2, 3, 4, 5, 6, 7}} {
		var g string
		buf := append(append([]byte{}, raw...), extra...)
		p, pv, st := mon.Guard(func() { g = ldap.ParseSIDFromBytes(buf) })
		r.Eval(1)
		if p {
			r.Violation("ldap.ParseSIDFromBytes:panic:"+mon.PanicClass(pv)+":trailing-bytes", fmt.Sprintf("panic %v at %s", pv, mon.TopLibFrame(st)), map[string]any{"sid_hex": mon.FullHex(buf)})
		} else if g != want && g != "" {
			r.Violation("ldap.ParseSIDFromBytes:value:trailing-bytes", fmt.Sprintf("SID %s followed by %d bytes: got %q want %q", mon.Hex(raw), len(extra), g, want), map[string]any{"sid_hex": mon.FullHex(buf), "expected": want})
		}
	}
}

// sidCaseQuiet is the value check alone (no trailing-byte variants, no per-case bookkeeping), for
// dense sweeps.
func sidCaseQuiet(auth uint64, subs []uint32) {
	raw := encodeSID(1, auth, subs)
	want := refSIDString(auth, subs)
	var got string
	p, pv, st := mon.Guard(func() { got = ldap.ParseSIDFromBytes(raw) })
	sweepEvals++
	if p {
		r.Violation("ldap.ParseSIDFromBytes:panic:"+mon.PanicClass(pv)+":"+countClass(len(subs)), fmt.Sprintf("panic %v at %s on well-formed SID %s (%s)", pv, mon.TopLibFrame(st), mon.Hex(raw), want), map[string]any{"sid_hex": mon.FullHex(raw), "expected": want})
	} else if got != want {
		r.Violation("ldap.ParseSIDFromBytes:value:"+countClass(len(subs)), fmt.Sprintf("SID %s: got %q want %q", mon.Hex(raw), got, want), map[string]any{"sid_hex": mon.FullHex(raw), "expected": want})
	}
}

var sweepEvals int

// every truncation of a well-formed SID is not a SID: "" and no crash
func sidTruncations(auth uint64, subs []uint32) {
	raw := encodeSID(1, auth, subs)
	for n := 0; n < len(raw); n++ {
		var g string
		buf := append([]byte{}, raw[:n]...)
		p, pv, st := mon.Guard(func() { g = ldap.ParseSIDFromBytes(buf) })
		r.Eval(1)
		cs := map[string]any{"sid_hex": mon.FullHex(buf), "declared_count": len(subs), "full_length": len(raw)}
		where := "header"
		if n >= 8 {
			where = "subauthorities"
		}
		if p {
			r.Violation("ldap.ParseSIDFromBytes:panic:"+mon.PanicClass(pv)+":truncated-"+where, fmt.Sprintf("panic %v at %s on %d of %d bytes of %s", pv, mon.TopLibFrame(st), n, len(raw), refSIDString(auth, subs)), cs)
		} else if g != "" {
			r.Violation("ldap.ParseSIDFromBytes:accepts-truncated:"+where, fmt.Sprintf("%d of %d bytes of %s gave %q", n, len(raw), refSIDString(auth, subs), g), cs)
		}
		r.Nontrivial(fmt.Sprintf("sidtrunc|%d|%d", len(subs), n))
	}
}

func sidWorkload() {
	rng := r.Rand("sid")
	auths := []uint64{0, 1, 2, 3, 5, 9, 15, 16, 18, 255, 256, 65535, 65536, 1<<32 - 1, 1 << 32, 1<<32 + 1, 1 << 40, 1<<48 - 1, 0x0102030405, 0x010203040506}
	subv := []uint32{0, 1, 18, 21, 32, 500, 512, 544, 1<<31 - 1, 1 << 31, 1<<32 - 1, 0x01020304, 0x80000001}
	// well-known SIDs first
	for _, w := range []struct {
		a uint64
		s []uint32
	}{{0, []uint32{0}}, {1, []uint32{0}}, {2, []uint32{0}}, {3, []uint32{0}}, {3, []uint32{1}}, {5, []uint32{18}}, {5, []uint32{19}}, {5, []uint32{20}}, {5, []uint32{11}}, {5, []uint32{7}}, {5, []uint32{32, 544}}, {5, []uint32{32, 545}}, {5, nil}, {1, nil}, {16, []uint32{12288}},
		{5, []uint32{21, 3623811015, 3361044348, 30300820, 1013}}, {5, []uint32{21, 3623811015, 3361044348, 30300820}}, {5, []uint32{21, 0, 0, 0, 500}}, {15, []uint32{2, 1}}, {5, []uint32{80, 956008885, 3418522649, 1831038044, 1853292631, 2271478464}}} {
		sidCase(w.a, w.s)
		sidTruncations(w.a, w.s)
	}
	r.Sample(map[string]any{"kind": "sid", "hex": mon.Hex(encodeSID(1, 5, []uint32{18})), "text": "S-1-5-18"})
	r.Sample(map[string]any{"kind": "sid", "hex": mon.Hex(encodeSID(1, 5, nil)), "text": "S-1-5"})
	r.Sample(map[string]any{"kind": "sid", "hex": mon.Hex(encodeSID(1, 5, []uint32{21, 3623811015, 3361044348, 30300820, 1013})), "text": "S-1-5-21-3623811015-3361044348-30300820-1013"})
	// every count 0..15 x every authority x sub-authority patterns
	for n := 0; n <= 15; n++ {
		for ai, a := range auths {
			// (i) all sub-authorities the same boundary value, (ii) a rotating pattern, (iii) one boundary value at each position
			for vi, v := range subv {
				subs := make([]uint32, n)
				for i := range subs {
					subs[i] = v
				}
				sidCase(a, subs)
				for i := range subs {
					subs[i] = subv[(vi+i+ai)%len(subv)]
				}
				sidCase(a, subs)
				if n == 0 {
					break
				}
			}
			for pos := 0; pos < n; pos++ {
				subs := make([]uint32, n)
				for i := range subs {
					subs[i] = uint32(1000 + i)
				}
				subs[pos] = 1<<32 - 1
				sidCase(a, subs)
			}
			if ai%5 == 0 {
				subs := make([]uint32, n)
				for i := range subs {
					subs[i] = subv[(i+n)%len(subv)]
				}
				sidTruncations(a, subs)
			}
		}
	}
	// every SID with one small sub-authority under the authorities that have well-known SIDs
	// (integrity levels 0x1000·k and 0x2100 under 16, S-1-5-<n>, S-1-18-<n>, ...): a shortcut
	// table for well-known SIDs with a single slipped entry shows only on that entry
	for _, a := range []uint64{0, 1, 2, 3, 4, 5, 9, 11, 12, 15, 16, 18} {
		for v := uint32(0); v <= uint32(r.Pick(33000, 70000)); v++ {
			sidCaseQuiet(a, []uint32{v})
		}
		for v := uint64(0); v < 1<<24; v += 0x100 { // multiples of 256 (integrity levels are 0x1000·k, 0x2100)
			sidCaseQuiet(a, []uint32{uint32(v)})
		}
		for v := uint64(1 << 24); v < 1<<32; v += 0x10000 {
			sidCaseQuiet(a, []uint32{uint32(v)})
		}
	}
	for v := uint32(0); v <= 2000; v++ { // S-1-5-32-<alias>, S-1-5-64-<n>, S-1-5-21-<n> with two sub-authorities
		sidCaseQuiet(5, []uint32{32, v})
		sidCaseQuiet(5, []uint32{64, v})
		sidCaseQuiet(5, []uint32{80, v})
		sidCaseQuiet(15, []uint32{2, v})
		sidCaseQuiet(15, []uint32{3, v})
	}
	r.Eval(sweepEvals)
	r.Count("dense_single_subauthority_sids", sweepEvals)
	// seeded
	for t := 0; t < r.Pick(40000, 800000); t++ {
		n := rng.IntN(16)
		var a uint64
		switch rng.IntN(4) {
		case 0:
			a = auths[rng.IntN(len(auths))]
		case 1:
			a = uint64(rng.IntN(32))
		default:
			a = rng.Uint64() >> 16
		}
		subs := make([]uint32, n)
		for i := range subs {
			if rng.IntN(3) == 0 {
				subs[i] = subv[rng.IntN(len(subv))]
			} else {
				subs[i] = rng.Uint32()
			}
		}
		sidCase(a, subs)
		if t%20 == 0 {
			sidTruncations(a, subs)
		}
	}
	// revision other than 1, counts above 15: outside the property; only absence of a crash is observed
	for _, rev := range []byte{0, 2, 0xFF} {
		p, pv, st := mon.Guard(func() { ldap.ParseSIDFromBytes(encodeSID(rev, 5, []uint32{21, 1, 2, 3, 500})) })
		r.Eval(1)
		if p {
			r.Violation("ldap.ParseSIDFromBytes:panic:"+mon.PanicClass(pv)+":revision", fmt.Sprintf("panic %v at %s", pv, mon.TopLibFrame(st)), map[string]any{"revision": rev})
		}
	}
	for _, n := range []int{16, 17, 100, 255} {
		subs := make([]uint32, n)
		p, pv, st := mon.Guard(func() { ldap.ParseSIDFromBytes(encodeSID(1, 5, subs)) })
		r.Eval(1)
		if p {
			r.Violation("ldap.ParseSIDFromBytes:panic:"+mon.PanicClass(pv)+":count-above-15", fmt.Sprintf("panic %v at %s with a full-length buffer declaring %d sub-authorities", pv, mon.TopLibFrame(st), n), map[string]any{"count": n})
		}
	}
}

// ---------------------------------------------------------------- distinguished names

type rdn struct{ typ, val string }

// dnStyle is one of the spellings a directory server may choose for the same DN.
type dnStyle struct {
	hexComma bool // commas as \2C instead of \,
	eq       int  // '=' inside a value: 0 -> \= , 1 -> \3D (both are what AD-style escaping produces), 2 -> bare (RFC 4514 minimal form; not what AD emits)
}

var adStyles = []dnStyle{{false, 0}, {false, 1}, {true, 0}, {true, 1}}

// escapeDN writes a value the way Active Directory emits it (MS "Distinguished Names":
// backslash before , + " \ < > ; a leading '#' or space and a trailing space escaped;
// LF, CR, '=' reserved and escaped, control characters as \XX).
func escapeDN(v string, st dnStyle) string {
	var sb strings.Builder
	for i := 0; i < len(v); i++ {
		c := v[i]
		switch {
		case c == ',' && st.hexComma:
			sb.WriteString(`\2C`)
		case c == '=' && st.eq == 1:
			sb.WriteString(`\3D`)
		case c == '=' && st.eq == 2:
			sb.WriteByte(c)
		case strings.IndexByte(`,+"\<>;=`, c) >= 0:
			sb.WriteByte('\\')
			sb.WriteByte(c)
		case (c == '#' || c == ' ') && i == 0, c == ' ' && i == len(v)-1:
			sb.WriteByte('\\')
			sb.WriteByte(c)
		case c < 0x20:
			fmt.Fprintf(&sb, `\%02X`, c)
		default:
			sb.WriteByte(c)
		}
	}
	return sb.String()
}

func dnCase(rdns []rdn, style dnStyle, tag string) {
	parts := make([]string, len(rdns))
	var dcs, dcsEsc []string
	hasEscComma, hasBackslashEnd := false, false
	for i, x := range rdns {
		parts[i] = x.typ + "=" + escapeDN(x.val, style)
		if x.typ == "DC" {
			dcs = append(dcs, x.val)
			dcsEsc = append(dcsEsc, escapeDN(x.val, style))
		} else {
			if strings.Contains(x.val, ",") && !style.hexComma {
				hasEscComma = true
			}
			if strings.HasSuffix(x.val, `\`) {
				hasBackslashEnd = true
			}
		}
	}
	dn := strings.Join(parts, ",")
	want := strings.Join(dcs, ".")
	// a DC value holding a reserved character may be returned unescaped or as written (the
	// property does not say which); it must not be cut or dropped
	wantEsc := strings.Join(dcsEsc, ".")
	var got string
	p, pv, st := mon.Guard(func() { got = ldap.GetDomainFromDistinguishedName(dn) })
	cs := map[string]any{"dn": dn, "rdns": fmt.Sprint(rdns), "expected": want}
	if p {
		r.Eval(1)
		r.Violation("ldap.GetDomainFromDistinguishedName:panic:"+mon.PanicClass(pv), fmt.Sprintf("panic %v at %s on %q", pv, mon.TopLibFrame(st), dn), cs)
		return
	}
	if style.eq == 2 {
		// RFC 4514 minimal spelling (bare '=' inside values): a legal DN string, but not the form
		// Active Directory emits, so outside the property. Observed and counted, never a verdict.
		r.Count("dn_rfc4514_minimal_form_observed", 1)
		if got != want {
			r.Count("dn_rfc4514_minimal_form_mismatch_not_demanded", 1)
			notDemandedOnce.Do(func() {
				r.Extra("dn_rfc4514_minimal_form_example_not_demanded", map[string]any{"dn": dn, "got": got, "dc_components": want})
			})
		}
		return
	}
	r.Eval(1)
	cls := "plain"
	switch {
	case hasBackslashEnd:
		cls = "value-ends-in-backslash"
	case hasEscComma:
		cls = "escaped-comma"
	}
	if got != want && got != wantEsc {
		r.Violation("ldap.GetDomainFromDistinguishedName:value:"+cls, fmt.Sprintf("DN %q: got %q want %q", dn, got, want), cs)
	}
	if len(rdns) >= 2 {
		r.Nontrivial("dn|" + tag + "|" + dn)
	}
}

var notDemandedOnce sync.Once

func label(rng *rand.Rand) string {
	const al = "abcdefghijklmnopqrstuvwxyzABCDEFGHIJKLMNOPQRSTUVWXYZ0123456789-_"
	n := 1 + rng.IntN(12)
	b := make([]byte, n)
	for i := range b {
		b[i] = al[rng.IntN(len(al))]
	}
	if b[0] == '-' {
		b[0] = 'x'
	}
	return string(b)
}

func hostileValue(rng *rand.Rand) string {
	frag := []string{",", ",DC=evil", ",DC=", "DC=", "DC=x", "+", `"`, `\`, "<", ">", ";", "=", "#", " ", "Doe, John", "a,b", "\n", "\r", "é", "名", ".", "/", "CN=", ",OU=x", "dc=low", ",dc=low", `\,`, `\\`, "0", "2C", "x"}
	n := 1 + rng.IntN(5)
	var sb strings.Builder
	for i := 0; i < n; i++ {
		if rng.IntN(3) == 0 {
			sb.WriteString(label(rng))
		} else {
			sb.WriteString(frag[rng.IntN(len(frag))])
		}
	}
	return sb.String()
}

func dnWorkload() {
	rng := r.Rand("dn")
	// deterministic: the forms AD returns, then each escaped character next to a DC component
	det := [][]rdn{
		{},
		{{"DC", "com"}},
		{{"DC", "example"}, {"DC", "com"}},
		{{"CN", "John Doe"}, {"OU", "Users"}, {"DC", "example"}, {"DC", "com"}},
		{{"CN", "Doe, John"}, {"OU", "Users"}, {"DC", "corp"}, {"DC", "example"}, {"DC", "com"}},
		{{"CN", "x,DC=evil"}, {"DC", "corp"}, {"DC", "com"}},
		{{"CN", "x"}, {"OU", "a,DC=evil,DC=org"}, {"DC", "corp"}, {"DC", "com"}},
		{{"CN", `ends in backslash\`}, {"DC", "corp"}, {"DC", "com"}},
		{{"CN", `a\`}, {"OU", `b\\`}, {"DC", "corp"}},
		{{"CN", `a\,DC=evil`}, {"DC", "corp"}},
		{{"CN", "#lead"}, {"OU", " spaced "}, {"O", `q"uote`}, {"L", "a+b=c;d<e>f"}, {"DC", "a"}, {"DC", "b"}, {"DC", "c"}, {"DC", "d"}},
		{{"CN", "Configuration"}, {"DC", "forest"}, {"DC", "local"}},
		{{"CN", "Users"}},
		{{"OU", "only"}, {"O", "org"}},
		{{"DC", "a"}, {"CN", "mid"}, {"DC", "b"}},
		{{"CN", "DC=notadc"}, {"DC", "real"}},
		{{"CN", "Users"}, {"DC", "a=b"}, {"DC", "example"}, {"DC", "com"}},
		{{"DC", "=x"}, {"DC", "com"}},
		{{"DC", "x="}, {"DC", "y=z=w"}},
		{{"CN", "x=DC=y"}, {"DC", "real"}},
		{{"CN", "line\nbreak,DC=evil"}, {"DC", "real"}},
		{{"DC", "xn--80ak6aa92e"}, {"DC", "under_score"}, {"DC", "UPPER"}, {"DC", "9"}},
		// a component with an empty value is still a component of the join (first, middle, last, only)
		{{"DC", ""}, {"DC", "com"}},
		{{"DC", "a"}, {"DC", ""}, {"DC", "b"}},
		{{"DC", "a"}, {"DC", ""}},
		{{"DC", ""}},
		{{"DC", ""}, {"DC", ""}, {"DC", "x"}},
		{{"CN", "x"}, {"DC", ""}, {"DC", "corp"}, {"DC", "com"}},
		{{"CN", ""}, {"DC", "corp"}, {"DC", "com"}},
		// one component far longer than any buffer a reader might have sized in advance
		{{"DC", "corp"}, {"CN", strings.Repeat("x", 65533)}, {"DC", "example"}, {"DC", "com"}},
		{{"CN", strings.Repeat("y", 65536)}, {"DC", "example"}, {"DC", "com"}},
		{{"CN", "a"}, {"DC", strings.Repeat("d", 70000)}, {"DC", "com"}},
		{{"OU", strings.Repeat("z", 4096)}, {"OU", strings.Repeat("w", 131072)}, {"DC", "tail"}},
		// DC values holding octets that are not valid UTF-8 (a Latin-1 octet, a stray 0xFF / 0x80, a cut
		// sequence, an encoded lone surrogate): the value is joined as it stands, octet for octet (C16-r10-1)
		{{"CN", "u"}, {"DC", "caf\xe9"}, {"DC", "corp"}},
		{{"DC", "\xff"}, {"DC", "x\x80y"}, {"DC", "com"}},
		{{"CN", "u"}, {"DC", "ab\xc3"}, {"DC", "\xed\xa0\x80"}, {"DC", "\xe2\x82"}},
		{{"CN", "caf\xe9"}, {"DC", "valid-\u00e9"}, {"DC", "\xf0\x9f\x98"}},
	}
	for i, d := range det {
		for si, stl := range adStyles {
			dnCase(d, stl, fmt.Sprintf("det%d|%d", i, si))
		}
		dnCase(d, dnStyle{false, 2}, "minimal")
	}
	for _, special := range []string{",", "+", `"`, `\`, "<", ">", ";", "="} {
		for _, pos := range []string{"lead", "mid", "tail"} {
			v := map[string]string{"lead": special + "DC=evil", "mid": "a" + special + "DC=evil" + special + "b", "tail": "DC=evil" + special}[pos]
			for si, stl := range adStyles {
				dnCase([]rdn{{"CN", v}, {"DC", "corp"}, {"DC", "com"}}, stl, fmt.Sprintf("special|%s|%s|%d", special, pos, si))
				dnCase([]rdn{{"OU", "x"}, {"CN", v}, {"DC", "corp"}}, stl, fmt.Sprintf("special2|%s|%s|%d", special, pos, si))
			}
			dnCase([]rdn{{"CN", v}, {"DC", "corp"}, {"DC", "com"}}, dnStyle{false, 2}, "minimal")
		}
	}
	r.Sample(map[string]any{"kind": "dn", "dn": `CN=Doe\, John,OU=Users,DC=corp,DC=example,DC=com`, "domain": "corp.example.com"})
	r.Sample(map[string]any{"kind": "dn", "dn": `CN=x\,DC\=evil,DC=corp,DC=com`, "domain": "corp.com"})
	r.Sample(map[string]any{"kind": "dn", "dn": `CN=ends in backslash\\,DC=corp,DC=com`, "domain": "corp.com"})
	// size classes of the RDN count: deep containers and long DNS names (around 64, 128, 256 and
	// far beyond), DCs at the end, everywhere, and all components DCs
	for _, n := range []int{9, 16, 31, 32, 33, 63, 64, 65, 66, 100, 127, 128, 129, 255, 256, 257, 1000, 5000} {
		for shape := 0; shape < 3; shape++ {
			rdns := make([]rdn, n)
			for i := range rdns {
				isDC := shape == 2 || (shape == 0 && i >= n-n/3-1) || (shape == 1 && i%3 == 2)
				if isDC {
					rdns[i] = rdn{"DC", fmt.Sprintf("l%d", i)}
				} else {
					rdns[i] = rdn{[]string{"OU", "CN"}[i%2], fmt.Sprintf("c%d", i)}
				}
			}
			for si, stl := range adStyles {
				dnCase(rdns, stl, fmt.Sprintf("deep|%d|%d|%d", n, shape, si))
			}
		}
	}
	// seeded: 0..8 RDNs, sometimes many more
	types := []string{"CN", "OU", "DC", "O", "L", "DC", "CN"}
	for t := 0; t < r.Pick(60000, 1000000); t++ {
		n := rng.IntN(9)
		if t%500 == 499 {
			n = 9 + rng.IntN(300)
		}
		rdns := make([]rdn, n)
		for i := range rdns {
			typ := types[rng.IntN(len(types))]
			if rng.IntN(2) == 0 && i >= n/2 {
				typ = "DC" // the usual shape: DCs at the end
			}
			if typ == "DC" && rng.IntN(40) == 0 {
				rdns[i] = rdn{typ, ""}
			} else if typ == "DC" {
				rdns[i] = rdn{typ, label(rng)}
			} else if rng.IntN(3) == 0 {
				rdns[i] = rdn{typ, label(rng)}
			} else {
				rdns[i] = rdn{typ, hostileValue(rng)}
			}
		}
		dnCase(rdns, adStyles[rng.IntN(len(adStyles))], "rnd")
		if t%10 == 0 {
			dnCase(rdns, dnStyle{false, 2}, "minimal")
		}
	}
}

func main() {
	r = mon.Start("C16", "exploration")
	r.Rule("SIDs: every sub-authority count 0..15 x 20 authorities (0,1,5,…,2^32-1,2^32,2^48-1) x boundary sub-authority values (uniform, rotating, one extreme per position), 20 well-known SIDs, seeded SIDs; each also followed by trailing bytes; every truncation of a sample of them. DNs: 0..8 RDNs of types CN/OU/DC/O/L, non-DC values drawn from every character AD escapes (, + \" \\ < > ; = leading #/space, control characters) and fragments such as ',DC=evil', DC values DNS labels, written in AD's escaped string form (commas as \\, or \\2C, '=' as \\= or \\3D). Non-trivial = each distinct SID text, each (count, truncation length), each distinct DN with >= 2 RDNs. State monitors (state.go): every SID/DN decoded right after neighbours sharing part of its bytes (other authority, other RID, one sub-authority or DC more/fewer) through a caller buffer that is overwritten and reused, results held and re-compared, 8 concurrent callers; each base SID / DN sequence counts once. Session monitors (session.go, ldapsrv.go): ldap.Session (InitSession/Connect, GetAllDomains, GetDomain by DNS and short name in three letter cases, FindObjectSIDByRID for domain-relative and BUILTIN RIDs, present and absent) against a scripted loopback LDAP responder serving 3 boundary forests (sub-authority counts 0/1/14/15, authorities 0, 2^32-1, 2^32, 2^48-1, sub-authorities 0 / powers of ten / 2^32-1, RIDs 0, 1, powers of ten, 2^31, 2^32-1, heads without / with a truncated / with an empty objectSid, 1- and 63-character labels) and seeded forests of 2..5 domain heads; every returned SID / DNS name / DN is compared with the reference text of the bytes the responder logged as sent for that object, map values must be distinct objects, held Domain objects are re-compared after later calls; non-trivial = each distinct (call, object sent).")
	r.Assume(
		"the identifier authority is printed in decimal for all 48-bit values, as the property states (MS-DTYP would print values >= 2^32 in hexadecimal)",
		"bytes after the declared SID length are not part of the SID: the canonical text or a refusal (\"\") are both accepted, a different text is not",
		"a truncated SID is not well-formed: the documented result \"\" is demanded, and no crash",
		"revision != 1 and counts above 15 are outside the property (only absence of a crash is observed)",
		"DNs are in the form Active Directory emits: upper-case attribute types, no blanks around separators, single-valued RDNs, backslash escapes (no RFC 2253 quoted strings); DC values are DNS labels and need no escaping",
		"Session monitors: the oracle is the bytes the responder sent, not what the caller asked for; the letter case of Domain.DNSName and of the keys of GetAllDomains is not demanded (compared case-insensitively); Domain.NetBIOSName is not judged; a lookup answered by no object must give \"\", by several objects \"\" or the text of one of them; a wrongly built search filter (responder finds nothing) is counted (session_rid_lookup_nothing_sent), not judged",
		"Active Directory treats '=' inside a value as reserved and emits it escaped (\\= or \\3D), so a literal 'DC=' never follows an escaped comma in its output; the RFC 4514 minimal spelling with a bare '=' is run as well but only counted (dn_rfc4514_minimal_form_*), not judged",
	)
	r.Extra("exhaustive_subdomains", []string{"sub-authority counts 0..15", "every truncation length of the sampled SIDs"})
	// race side run (./check builds this monitor with -race): only the workloads in which goroutines
	// use the library at the same time; the detector's reports are filed by Finish
	if mon.SideRace() {
		concurrentDecoders()
		r.Finish()
	}
	sidWorkload()
	dnWorkload()
	stateWorkload()   // state.go: neighbour sequences, reused caller buffer, held results, concurrent callers
	sessionWorkload() // session.go + ldapsrv.go: the decoders reached through ldap.Session against a scripted loopback LDAP responder
	r.Finish()
}
