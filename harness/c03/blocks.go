package main

import (
	"bytes"
	"encoding/binary"
	"fmt"

	"github.com/TheManticoreProject/Manticore/network/smb/smb_v10/message/data"
	"github.com/TheManticoreProject/Manticore/network/smb/smb_v10/message/parameters"

	"verif/mon"
)

// blockSequences: operation strings on one Data / Parameters object. After every operation of
// the block's own API that establishes its content (New*, SetData, Add, AddWord,
// AddWordsFromBytesStream, a successful Unmarshal) the block must encode as a count equal to
// the content actually emitted, whatever happened to the object before — including a refused
// Unmarshal or a direct assignment of the exported content field, after which nothing is
// demanded until the next establishing operation (the model re-reads the object's content
// then).
func blockSequences() {
	// beyond the limits a block has no valid encoding: it must be refused, never emitted with a
	// wrapped count
	for _, n := range []int{65535, 65536, 65537, 70000, 131072} {
		d := data.NewData()
		d.Add(make([]byte, n/2))
		d.Add(make([]byte, n-n/2))
		var out []byte
		var err error
		p, pv, st := mon.Guard(func() { out, err = d.Marshal() })
		r.Eval(1)
		cs := map[string]any{"block": "Data", "bytes": n}
		switch {
		case p:
			r.Violation("data.Data:limit:panic", fmt.Sprintf("panic %v at %s", pv, mon.TopLibFrame(st)), cs)
		case err != nil && n <= 65535:
			r.Violation("data.Data:limit:refused", fmt.Sprintf("a %d-byte data block is refused: %v", n, err), cs)
		case err == nil && (len(out) < 2 || int(binary.LittleEndian.Uint16(out)) != len(out)-2):
			r.Violation("data.Data:limit:count", fmt.Sprintf("a %d-byte data block is emitted with byte count %d", n, binary.LittleEndian.Uint16(out)), cs)
		}
		r.Nontrivial(fmt.Sprintf("datalimit|%d", n))
	}
	for _, n := range []int{255, 256, 257, 300, 511, 512, 32767, 32768, 65535, 65536, 65537, 65536 + 255, 65536 + 256, 70000, 131072, 131073} {
		pb := parameters.NewParameters()
		for i := 0; i < n; i++ {
			pb.AddWord(uint16(i))
		}
		var out []byte
		var err error
		p, pv, st := mon.Guard(func() { out, err = pb.Marshal() })
		r.Eval(1)
		cs := map[string]any{"block": "Parameters", "words": n}
		switch {
		case p:
			r.Violation("parameters.Parameters:limit:panic", fmt.Sprintf("panic %v at %s", pv, mon.TopLibFrame(st)), cs)
		case err != nil && n <= 255:
			r.Violation("parameters.Parameters:limit:refused", fmt.Sprintf("a %d-word parameter block is refused: %v", n, err), cs)
		case err == nil && (len(out) < 1 || 2*int(out[0]) != len(out)-1):
			r.Violation("parameters.Parameters:limit:count", fmt.Sprintf("a %d-word parameter block is emitted with word count %d", n, out[0]), cs)
		}
		r.Nontrivial(fmt.Sprintf("paramlimit|%d", n))
	}
	nSeq := r.Pick(3000, 120000)
	for q := 0; q < nSeq; q++ {
		rng := r.Rand(fmt.Sprintf("blockseq|%d", q))
		// ---- Data
		d := data.NewData()
		model := []byte{}
		consistent := true
		var trace []string
		small := func() []byte {
			n := []int{0, 1, 2, 5, 17, 300, 4096}[rng.IntN(7)]
			b := make([]byte, n)
			for i := range b {
				b[i] = byte(rng.Uint32())
			}
			return b
		}
		wireOf := func(content []byte, count int) []byte {
			w := make([]byte, 2, 2+len(content))
			binary.LittleEndian.PutUint16(w, uint16(count))
			return append(w, content...)
		}
		for step := 0; step < 2+rng.IntN(10); step++ {
			op := rng.IntN(8)
			var p bool
			var pv any
			var st string
			switch op {
			case 0:
				b := small()
				if len(b) == 0 && rng.IntN(2) == 0 {
					trace = append(trace, "SetData(nil)")
					p, pv, st = mon.Guard(func() { d.SetData(nil) })
					model, consistent = []byte{}, true
					break
				}
				trace = append(trace, fmt.Sprintf("SetData(%d)", len(b)))
				p, pv, st = mon.Guard(func() { d.SetData(append([]byte{}, b...)) })
				model, consistent = append([]byte{}, b...), true
			case 1, 2:
				b := small()
				if len(model)+len(b) > 65535 {
					continue
				}
				trace = append(trace, fmt.Sprintf("Add(%d)", len(b)))
				if !consistent {
					model = append([]byte{}, d.Bytes...) // whatever the object holds now is the base
				}
				p, pv, st = mon.Guard(func() { d.Add(b) })
				model, consistent = append(model, b...), true
			case 3:
				b := small()
				trace = append(trace, fmt.Sprintf("Unmarshal(valid %d)", len(b)))
				var err error
				tail := small()
				p, pv, st = mon.Guard(func() { _, err = d.Unmarshal(append(wireOf(b, len(b)), tail...)) })
				if err != nil && !p {
					r.Violation("data.Data.Unmarshal:refused", fmt.Sprintf("a well-formed data block of %d bytes is refused: %v", len(b), err), map[string]any{"trace": trace})
					consistent = false
				} else {
					model, consistent = append([]byte{}, b...), true
				}
			case 4:
				b := small()
				claim := len(b) + 1 + rng.IntN(400)
				trace = append(trace, fmt.Sprintf("Unmarshal(truncated: count %d, %d present)", claim, len(b)))
				p, pv, st = mon.Guard(func() { d.Unmarshal(wireOf(b, claim)) })
				consistent = false
			case 5:
				b := small()
				trace = append(trace, fmt.Sprintf("Bytes = %d bytes (direct)", len(b)))
				d.Bytes = b
				consistent = false
			case 6:
				trace = append(trace, "Unmarshal(empty)")
				p, pv, st = mon.Guard(func() { d.Unmarshal(nil) })
				consistent = false
			default:
				trace = append(trace, "NewData")
				d = data.NewData()
				model, consistent = []byte{}, true
			}
			cs := map[string]any{"block": "Data", "trace": append([]string{}, trace...)}
			if p {
				r.Violation("data.Data:sequence:panic", fmt.Sprintf("panic %v at %s", pv, mon.TopLibFrame(st)), cs)
				break
			}
			if !consistent {
				continue
			}
			var out []byte
			var err error
			p, pv, st = mon.Guard(func() { out, err = d.Marshal() })
			r.Eval(1)
			switch {
			case p:
				r.Violation("data.Data:sequence:panic", fmt.Sprintf("Marshal: panic %v at %s", pv, mon.TopLibFrame(st)), cs)
			case err != nil:
				r.Violation("data.Data:sequence:marshal-error", "Marshal fails after an operation that establishes the content: "+err.Error(), cs)
			case len(out) < 2 || int(binary.LittleEndian.Uint16(out)) != len(out)-2:
				r.Violation("data.Data:sequence:count", fmt.Sprintf("the byte count announces %d bytes, %d follow", binary.LittleEndian.Uint16(out), len(out)-2), cs)
			case !bytes.Equal(out[2:], model):
				r.Violation("data.Data:sequence:content", fmt.Sprintf("the block carries %d bytes that are not the %d bytes established by the operations", len(out)-2, len(model)), cs)
			case int(d.Size()) != len(model) || !bytes.Equal(d.GetBytes(), model):
				r.Violation("data.Data:sequence:accessors", fmt.Sprintf("Size()=%d GetBytes()=%d bytes for a content of %d bytes", d.Size(), len(d.GetBytes()), len(model)), cs)
			}
		}
		r.Nontrivial(fmt.Sprintf("dataseq|%d", q))

		// ---- Parameters
		pb := parameters.NewParameters()
		words := []uint16{}
		consistent = true
		trace = nil
		someWords := func() []uint16 {
			n := []int{0, 1, 2, 3, 14, 60}[rng.IntN(6)]
			w := make([]uint16, n)
			for i := range w {
				w[i] = uint16(rng.Uint32())
			}
			return w
		}
		pwire := func(w []uint16, count int) []byte {
			out := []byte{byte(count)}
			for _, x := range w {
				out = append(out, byte(x>>8), byte(x))
			}
			return out
		}
		for step := 0; step < 2+rng.IntN(10); step++ {
			op := rng.IntN(8)
			var p bool
			var pv any
			var st string
			resync := func() {
				if !consistent {
					words = append([]uint16{}, pb.Words...)
				}
			}
			switch op {
			case 0, 1:
				w := uint16(rng.Uint32())
				if len(words) >= 255 {
					continue
				}
				trace = append(trace, fmt.Sprintf("AddWord(%#04x)", w))
				resync()
				p, pv, st = mon.Guard(func() { pb.AddWord(w) })
				words, consistent = append(words, w), true
			case 2:
				ws := someWords()
				odd := rng.IntN(3) == 0
				stream := pwire(ws, 0)[1:]
				var add []uint16
				add = append(add, ws...)
				if odd {
					b := byte(rng.Uint32())
					stream = append(stream, b)
					add = append(add, uint16(b)<<8)
				}
				resync()
				if len(words)+len(add) > 255 {
					continue
				}
				trace = append(trace, fmt.Sprintf("AddWordsFromBytesStream(%d bytes)", len(stream)))
				p, pv, st = mon.Guard(func() { pb.AddWordsFromBytesStream(stream) })
				words, consistent = append(words, add...), true
			case 3:
				ws := someWords()
				trace = append(trace, fmt.Sprintf("Unmarshal(valid %d words)", len(ws)))
				var err error
				p, pv, st = mon.Guard(func() { _, err = pb.Unmarshal(append(pwire(ws, len(ws)), 0xEE, 0xEE, 0xEE)) })
				if err != nil && !p {
					r.Violation("parameters.Parameters.Unmarshal:refused", fmt.Sprintf("a well-formed parameter block of %d words is refused: %v", len(ws), err), map[string]any{"trace": trace})
					consistent = false
				} else {
					words, consistent = append([]uint16{}, ws...), true
				}
			case 4:
				ws := someWords()
				claim := len(ws) + 1 + rng.IntN(100)
				trace = append(trace, fmt.Sprintf("Unmarshal(truncated: count %d, %d present)", claim, len(ws)))
				p, pv, st = mon.Guard(func() { pb.Unmarshal(pwire(ws, claim)) })
				consistent = false
			case 5:
				ws := someWords()
				trace = append(trace, fmt.Sprintf("Words = %d words (direct)", len(ws)))
				pb.Words = ws
				if rng.IntN(2) == 0 {
					wc := uint8([]int{0, 1, len(ws) + 1, 255}[rng.IntN(4)])
					trace = append(trace, fmt.Sprintf("WordCount = %d (direct)", wc))
					pb.WordCount = wc
				}
				consistent = false
			case 6:
				trace = append(trace, "Unmarshal(empty)")
				p, pv, st = mon.Guard(func() { pb.Unmarshal(nil) })
				consistent = false
			default:
				trace = append(trace, "NewParameters")
				pb = parameters.NewParameters()
				words, consistent = []uint16{}, true
			}
			cs := map[string]any{"block": "Parameters", "trace": append([]string{}, trace...)}
			if p {
				r.Violation("parameters.Parameters:sequence:panic", fmt.Sprintf("panic %v at %s", pv, mon.TopLibFrame(st)), cs)
				break
			}
			if !consistent {
				// count and content disagree (direct assignment, refused decode): Marshal refuses, or
				// whatever it emits announces what it carries
				var out []byte
				var err error
				p, pv, st = mon.Guard(func() { out, err = pb.Marshal() })
				r.Eval(1)
				if p {
					r.Violation("parameters.Parameters:sequence:panic", fmt.Sprintf("Marshal: panic %v at %s", pv, mon.TopLibFrame(st)), cs)
					break
				}
				if err == nil && (len(out) < 1 || 2*int(out[0]) != len(out)-1) {
					r.Violation("parameters.Parameters:sequence:count:inconsistent-object", fmt.Sprintf("an object whose WordCount (%d) and Words (%d) disagree is encoded as a block announcing %d words followed by %d bytes", pb.WordCount, len(pb.Words), out[0], len(out)-1), cs)
				}
				continue
			}
			var out []byte
			var err error
			p, pv, st = mon.Guard(func() { out, err = pb.Marshal() })
			r.Eval(1)
			want := pwire(words, len(words))
			switch {
			case p:
				r.Violation("parameters.Parameters:sequence:panic", fmt.Sprintf("Marshal: panic %v at %s", pv, mon.TopLibFrame(st)), cs)
			case err != nil:
				r.Violation("parameters.Parameters:sequence:marshal-error", fmt.Sprintf("a block of %d words built with the block's own operations cannot be encoded: %v", len(words), err), cs)
			case len(out) < 1 || 2*int(out[0]) != len(out)-1:
				r.Violation("parameters.Parameters:sequence:count", fmt.Sprintf("the word count announces %d words, %d bytes follow", out[0], len(out)-1), cs)
			case !bytes.Equal(out, want):
				r.Violation("parameters.Parameters:sequence:content", fmt.Sprintf("the block carries %d words that are not the %d words established by the operations", (len(out)-1)/2, len(words)), cs)
			case int(pb.Size()) != len(words) || !bytes.Equal(pb.GetBytes(), want[1:]):
				r.Violation("parameters.Parameters:sequence:accessors", fmt.Sprintf("Size()=%d GetBytes()=%d bytes for a content of %d words", pb.Size(), len(pb.GetBytes()), len(words)), cs)
			}
		}
		r.Nontrivial(fmt.Sprintf("paramseq|%d", q))
	}
}
