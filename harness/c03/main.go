// C03: SMB1 message envelope — header layout, framing equation, type dispatch, repeatable encoding.
package main

import (
	"bytes"
	"encoding/binary"
	"fmt"
	"reflect"
	"strings"
	"sync"

	"github.com/TheManticoreProject/Manticore/network/smb/smb_v10/message"
	"github.com/TheManticoreProject/Manticore/network/smb/smb_v10/message/commands"
	"github.com/TheManticoreProject/Manticore/network/smb/smb_v10/message/commands/andx"
	"github.com/TheManticoreProject/Manticore/network/smb/smb_v10/message/commands/codes"
	ci "github.com/TheManticoreProject/Manticore/network/smb/smb_v10/message/commands/command_interface"
	"github.com/TheManticoreProject/Manticore/network/smb/smb_v10/message/header"
	"github.com/TheManticoreProject/Manticore/network/smb/smb_v10/message/header/flags"
	"github.com/TheManticoreProject/Manticore/network/smb/smb_v10/message/header/flags2"
	"github.com/TheManticoreProject/Manticore/network/smb/smb_v10/message/securityfeatures"

	"verif/mon"
	"verif/smbgen"
)

var r *mon.Run

var held = mon.NewHeldRing(96)

var liveMsg = message.NewMessage()

// refHeader is the independent MS-CIFS 2.2.3.1 layout.
type refHeader struct {
	Command                         uint8
	Status                          uint32
	Flags                           uint8
	Flags2, PIDHigh                 uint16
	Sec                             [8]byte
	Reserved, TID, PIDLow, UID, MID uint16
}

func (h refHeader) encode() []byte {
	b := make([]byte, 32)
	copy(b, []byte{0xFF, 'S', 'M', 'B'})
	b[4] = h.Command
	binary.LittleEndian.PutUint32(b[5:], h.Status)
	b[9] = h.Flags
	binary.LittleEndian.PutUint16(b[10:], h.Flags2)
	binary.LittleEndian.PutUint16(b[12:], h.PIDHigh)
	copy(b[14:22], h.Sec[:])
	binary.LittleEndian.PutUint16(b[22:], h.Reserved)
	binary.LittleEndian.PutUint16(b[24:], h.TID)
	binary.LittleEndian.PutUint16(b[26:], h.PIDLow)
	binary.LittleEndian.PutUint16(b[28:], h.UID)
	binary.LittleEndian.PutUint16(b[30:], h.MID)
	return b
}

func libHeader(h refHeader, variant int) *header.Header {
	var lh *header.Header
	switch variant {
	case 0:
		lh = header.NewHeader()
		copy(lh.SecurityFeatures.(*securityfeatures.SecurityFeaturesReserved).Reserved[:], h.Sec[:])
	case 1:
		lh = header.NewHeaderWithSecurityFeaturesSecuritySignature()
		lh.SecurityFeatures.(*securityfeatures.SecurityFeaturesSecuritySignature).SetSecuritySignature(h.Sec)
	default:
		lh = header.NewHeaderWithSecurityFeaturesConnectionLess()
		cl := lh.SecurityFeatures.(*securityfeatures.SecurityFeaturesConnectionlessTransport)
		cl.Key = binary.LittleEndian.Uint32(h.Sec[0:4])
		cl.CID = binary.LittleEndian.Uint16(h.Sec[4:6])
		cl.SequenceNumber = binary.LittleEndian.Uint16(h.Sec[6:8])
	}
	lh.Command = codes.CommandCode(h.Command)
	lh.Status = h.Status
	lh.Flags = flags.Flags(h.Flags)
	lh.Flags2 = flags2.Flags2(h.Flags2)
	lh.PIDHigh, lh.Reserved, lh.TID, lh.PIDLow, lh.UID, lh.MID = h.PIDHigh, h.Reserved, h.TID, h.PIDLow, h.UID, h.MID
	return lh
}

func headerFields(lh *header.Header) (refHeader, error) {
	var h refHeader
	h.Command = uint8(lh.Command)
	h.Status = uint32(lh.Status)
	h.Flags = uint8(lh.Flags)
	h.Flags2 = uint16(lh.Flags2)
	h.PIDHigh, h.Reserved, h.TID, h.PIDLow, h.UID, h.MID = lh.PIDHigh, lh.Reserved, lh.TID, lh.PIDLow, lh.UID, lh.MID
	sb, err := lh.SecurityFeatures.Marshal()
	if err != nil || len(sb) != 8 {
		return h, fmt.Errorf("security features: %v len %d", err, len(sb))
	}
	copy(h.Sec[:], sb)
	return h, nil
}

// long-lived header objects, one per SecurityFeatures variant, re-assigned in place between
// Marshal calls (the sign-then-send flow): a stale cached encoding shows up here
var liveHeaders [3]*header.Header

func setInPlace(lh *header.Header, h refHeader, variant int) {
	switch variant {
	case 0:
		copy(lh.SecurityFeatures.(*securityfeatures.SecurityFeaturesReserved).Reserved[:], h.Sec[:])
	case 1:
		lh.SecurityFeatures.(*securityfeatures.SecurityFeaturesSecuritySignature).SetSecuritySignature(h.Sec)
	default:
		cl := lh.SecurityFeatures.(*securityfeatures.SecurityFeaturesConnectionlessTransport)
		cl.Key = binary.LittleEndian.Uint32(h.Sec[0:4])
		cl.CID = binary.LittleEndian.Uint16(h.Sec[4:6])
		cl.SequenceNumber = binary.LittleEndian.Uint16(h.Sec[6:8])
	}
	lh.Command = codes.CommandCode(h.Command)
	lh.Status = h.Status
	lh.Flags = flags.Flags(h.Flags)
	lh.Flags2 = flags2.Flags2(h.Flags2)
	lh.PIDHigh, lh.Reserved, lh.TID, lh.PIDLow, lh.UID, lh.MID = h.PIDHigh, h.Reserved, h.TID, h.PIDLow, h.UID, h.MID
}

func checkHeader(h refHeader, variant int, tag string) {
	want := h.encode()
	cs := map[string]any{"fields": fmt.Sprintf("%+v", h), "variant": variant, "ref_wire": mon.FullHex(want)}
	p, pv, st := mon.Guard(func() {
		if liveHeaders[variant] == nil {
			liveHeaders[variant] = libHeader(refHeader{}, variant)
			liveHeaders[variant].Marshal()
		}
		live := liveHeaders[variant]
		// first only the security features change (in place, behind the interface), then the rest
		prev, _ := live.Marshal()
		hs, _ := headerFields(live)
		hs.Sec = h.Sec
		setInPlace(live, hs, variant)
		g1, err1 := live.Marshal()
		r.Eval(1)
		if err1 != nil || !bytes.Equal(g1, hs.encode()) {
			r.Violation("header.Marshal:stale-after-in-place-change", fmt.Sprintf("after changing only the security features in place Marshal gives %x, want %x (previous call gave %x)", g1, hs.encode(), prev), cs)
		}
		setInPlace(live, h, variant)
		g2, err2 := live.Marshal()
		r.Eval(1)
		if err2 != nil || !bytes.Equal(g2, want) {
			r.Violation("header.Marshal:stale-after-in-place-change", fmt.Sprintf("re-assigned long-lived header encodes as %x, want %x", g2, want), cs)
		}
		lh := libHeader(h, variant)
		got, err := lh.Marshal()
		r.Eval(1)
		if err != nil {
			r.Violation("header.Marshal:error", err.Error(), cs)
			return
		}
		if ch := held.Hold(got, "header"); len(ch) > 0 {
			r.Violation("header.Marshal:held-output-changed", "bytes returned by an earlier Header.Marshal changed after later calls", cs)
		}
		if !bytes.Equal(got, want) {
			off := 0
			for off < len(got) && off < len(want) && got[off] == want[off] {
				off++
			}
			r.Violation(fmt.Sprintf("header.Marshal:layout:offset%d", off), fmt.Sprintf("header bytes differ from MS-CIFS 2.2.3.1 at offset %d: got %x want %x", off, got, want), cs)
		}
		for k := 0; k < 3; k++ {
			again, _ := lh.Marshal()
			if !bytes.Equal(again, got) {
				r.Violation("header.Marshal:not-repeatable", "second Marshal differs", cs)
			}
		}
		// decode the reference bytes followed by a body
		lh2 := header.NewHeader()
		n, err := lh2.Unmarshal(append(append([]byte{}, want...), 0, 0, 0))
		r.Eval(1)
		if err != nil || n != 32 {
			r.Violation("header.Unmarshal:error", fmt.Sprintf("n=%d err=%v on reference header", n, err), cs)
			return
		}
		back, err := headerFields(lh2)
		if err != nil {
			r.Violation("header.Unmarshal:secfeatures", err.Error(), cs)
			return
		}
		if back != h {
			f := firstDiff(back, h)
			r.Violation("header.Unmarshal:field:"+f, fmt.Sprintf("decoded %+v want %+v", back, h), cs)
		}
		// PID accessors
		pid := uint32(h.PIDHigh)<<16 | uint32(h.PIDLow)
		if uint32(lh2.GetPID()) != pid {
			r.Violation("header.GetPID:value", fmt.Sprintf("GetPID=%#x want %#x", lh2.GetPID(), pid), cs)
		}
		lh3 := header.NewHeader()
		lh3.SetPID(pid)
		if lh3.PIDHigh != h.PIDHigh || lh3.PIDLow != h.PIDLow {
			r.Violation("header.SetPID:value", fmt.Sprintf("SetPID(%#x) -> high %#x low %#x", pid, lh3.PIDHigh, lh3.PIDLow), cs)
		}
		r.Eval(2)
		// Flags is declared wider than its one octet on the wire: whatever sits above bit 7 has no
		// place in the header and must not reach any other field's octets
		lh5 := libHeader(h, variant)
		lh5.Flags |= flags.Flags(0xA500)
		g5, err5 := lh5.Marshal()
		r.Eval(1)
		if err5 == nil && !bytes.Equal(g5, want) {
			off := 0
			for off < len(g5) && off < len(want) && g5[off] == want[off] {
				off++
			}
			r.Violation("header.Marshal:flags-high-bits-leak", fmt.Sprintf("with bits above the wire octet set in Header.Flags (%#04x) the header differs at offset %d: got %x want %x", uint16(lh5.Flags), off, g5, want), cs)
		}
		// the other accessors: a header assigned through the setters encodes to the same bytes,
		// the getters of the decoded header give the decoded fields
		lh4 := libHeader(refHeader{Command: h.Command, Status: h.Status, PIDHigh: ^h.PIDHigh, Sec: h.Sec, Reserved: h.Reserved, TID: ^h.TID, PIDLow: ^h.PIDLow, UID: ^h.UID, MID: ^h.MID}, variant)
		lh4.SetFlags(h.Flags)
		lh4.SetFlags2(h.Flags2)
		lh4.SetMID(h.MID)
		lh4.SetTID(h.TID)
		lh4.SetUID(h.UID)
		lh4.SetPID(pid)
		g4, err4 := lh4.Marshal()
		r.Eval(1)
		if err4 != nil || !bytes.Equal(g4, want) {
			r.Violation("header.setters:layout", fmt.Sprintf("a header assigned through SetFlags/SetFlags2/SetMID/SetTID/SetUID/SetPID encodes as %x, want %x", g4, want), cs)
		}
		// the setters again on the same header, after it held the complement of every value (a
		// setter replaces, it does not merge with what was there)
		lh4.SetFlags(^h.Flags)
		lh4.SetFlags2(^h.Flags2)
		lh4.SetMID(^h.MID)
		lh4.SetPID(^pid)
		lh4.SetFlags(h.Flags)
		lh4.SetFlags2(h.Flags2)
		lh4.SetMID(h.MID)
		lh4.SetPID(pid)
		g4, err4 = lh4.Marshal()
		r.Eval(1)
		if err4 != nil || !bytes.Equal(g4, want) {
			r.Violation("header.setters:second-assignment", fmt.Sprintf("a header whose fields were set to the complements and then, through the same setters, to these values encodes as %x, want %x", g4, want), cs)
		}
		// a value copy of a decoded header keeps its value when the original decodes something else
		{
			orig := header.NewHeader()
			if _, e := orig.Unmarshal(append([]byte{}, want...)); e == nil {
				saved := *orig
				other := append([]byte{}, want...)
				for i := 14; i < 22; i++ {
					other[i] ^= 0xFF // other security features
				}
				other[30] ^= 0x55
				orig.Unmarshal(other)
				gs, es := saved.Marshal()
				r.Eval(1)
				if es != nil || !bytes.Equal(gs, want) {
					r.Violation("header.Unmarshal:value-copy-rewritten", fmt.Sprintf("saved := *h taken after decoding %x; after h decoded another header the copy encodes as %x (err %v)", want, gs, es), cs)
				}
			}
		}
		if lh2.GetMID() != h.MID || lh2.GetTID() != h.TID || lh2.GetUID() != h.UID {
			r.Violation("header.getters:value", fmt.Sprintf("GetMID/GetTID/GetUID = %#x %#x %#x, decoded fields %#x %#x %#x", lh2.GetMID(), lh2.GetTID(), lh2.GetUID(), h.MID, h.TID, h.UID), cs)
		}
		if lh2.IsResponse() != (h.Flags&0x80 != 0) || lh2.IsRequest() == lh2.IsResponse() {
			r.Violation("header.IsResponse:value", fmt.Sprintf("flags %#02x: IsResponse=%v IsRequest=%v", h.Flags, lh2.IsResponse(), lh2.IsRequest()), cs)
		}
		r.Eval(2)
	})
	if p {
		r.Violation("header:panic:"+mon.PanicClass(pv), fmt.Sprintf("%v at %s", pv, mon.TopLibFrame(st)), cs)
	}
	r.Nontrivial("hdr|" + tag + "|" + mon.FullHex(want))
}

// stubFeatures is a caller-supplied implementation of the SecurityFeatures interface.
type stubFeatures struct {
	out []byte
	err error
}

func (s *stubFeatures) Marshal() ([]byte, error) { return s.out, s.err }
func (s *stubFeatures) Unmarshal(b []byte) (int, error) {
	s.out = append([]byte{}, b...)
	return len(b), nil
}

// customFeatures: the eight security-features octets come from whatever implementation the header
// carries; they go out as given, and an implementation that cannot encode itself makes the header
// unencodable (an error), never a header with other octets in their place.
func customFeatures() {
	for i, sec := range [][8]byte{{1, 2, 3, 4, 5, 6, 7, 8}, {0xFF, 0xFF, 0xFF, 0xFF, 0xFF, 0xFF, 0xFF, 0xFF}, {}, {0, 0, 0, 0, 0, 0, 0, 1}} {
		h := refHeader{Command: 0x72, Flags: 0x18, Flags2: 0xC807, TID: 1, UID: 2, MID: uint16(3 + i), Sec: sec}
		lh := libHeader(h, 0)
		lh.SecurityFeatures = &stubFeatures{out: append([]byte{}, sec[:]...)}
		got, err := lh.Marshal()
		r.Eval(1)
		cs := map[string]any{"fields": fmt.Sprintf("%+v", h), "security_features": "caller-supplied implementation"}
		if err != nil || !bytes.Equal(got, h.encode()) {
			r.Violation("header.Marshal:custom-security-features:layout", fmt.Sprintf("with a caller-supplied SecurityFeatures returning % x the header is %x (err %v), want %x", sec, got, err, h.encode()), cs)
		}
		lh.SecurityFeatures = &stubFeatures{err: fmt.Errorf("cannot sign")}
		got, err = lh.Marshal()
		r.Eval(1)
		if err == nil {
			r.Violation("header.Marshal:custom-security-features:error-swallowed", fmt.Sprintf("the SecurityFeatures implementation failed to encode itself, Header.Marshal returned a header all the same: %x", got), cs)
		}
		// the same at message level: a header that cannot be encoded makes the message unencodable;
		// so does an implementation that returns other than eight octets
		for bi, bad := range []*stubFeatures{{err: fmt.Errorf("cannot sign")}, {out: []byte{1, 2, 3, 4, 5, 6, 7}}, {out: []byte{1, 2, 3, 4, 5, 6, 7, 8, 9}}, {out: nil}} {
			m := message.NewMessage()
			m.Header.SecurityFeatures = bad
			m.AddCommand(commands.NewEchoRequest())
			var wire []byte
			var merr error
			p, pv, st := mon.Guard(func() { wire, merr = m.Marshal() })
			r.Eval(1)
			switch {
			case p:
				r.Violation("message.Marshal:custom-security-features:panic", fmt.Sprintf("%v at %s", pv, mon.TopLibFrame(st)), cs)
			case merr == nil && (len(wire) < 35 || !bytes.Equal(wire[:4], []byte{0xFF, 'S', 'M', 'B'}) || len(bad.out) != 8):
				r.Violation("message.Marshal:custom-security-features:error-swallowed", fmt.Sprintf("the header's SecurityFeatures (case %d) cannot be encoded into eight octets; Message.Marshal returned %d octets %x and no error", bi, len(wire), wire), cs)
			}
		}
		r.Nontrivial(fmt.Sprintf("customsec|%d", i))
	}
}

func firstDiff(a, b refHeader) string {
	va, vb := reflect.ValueOf(a), reflect.ValueOf(b)
	for i := 0; i < va.NumField(); i++ {
		if !reflect.DeepEqual(va.Field(i).Interface(), vb.Field(i).Interface()) {
			return va.Type().Field(i).Name
		}
	}
	return "?"
}

func headers() {
	rng := r.Rand("headers")
	base := refHeader{Command: 0x72, Status: 0x01020304, Flags: 0x18, Flags2: 0x0506, PIDHigh: 0x0708, Sec: [8]byte{0x11, 0x12, 0x13, 0x14, 0x15, 0x16, 0x17, 0x18}, Reserved: 0x090A, TID: 0x0B0C, PIDLow: 0x0D0E, UID: 0x0F10, MID: 0x2122}
	for variant := 0; variant < 3; variant++ {
		checkHeader(base, variant, "base")
		checkHeader(refHeader{}, variant, "zero")
		all := refHeader{Command: 0xFF, Status: 0xFFFFFFFF, Flags: 0xFF, Flags2: 0xFFFF, PIDHigh: 0xFFFF, Sec: [8]byte{255, 255, 255, 255, 255, 255, 255, 255}, Reserved: 0xFFFF, TID: 0xFFFF, PIDLow: 0xFFFF, UID: 0xFFFF, MID: 0xFFFF}
		checkHeader(all, variant, "ones")
		// one field at a time at boundary values, others zero
		v := reflect.ValueOf(&refHeader{}).Elem()
		for i := 0; i < v.NumField(); i++ {
			for _, x := range []uint64{1, 0x80, 0xFF, 0x0102, 0x8000, 0xFFFF, 0x01020304, 0x80000000, 0xFFFFFFFF, 0xAAAAAAAA, 0x55555555} {
				h := refHeader{}
				f := reflect.ValueOf(&h).Elem().Field(i)
				if f.Kind() == reflect.Array {
					for j := 0; j < 8; j++ {
						f.Index(j).SetUint((x >> uint(8*(j%4))) & 0xFF)
					}
				} else {
					if f.Type().Bits() < 64 {
						x &= 1<<uint(f.Type().Bits()) - 1
					}
					f.SetUint(x)
				}
				checkHeader(h, variant, "single")
			}
		}
	}
	for fl := 0; fl < 256; fl++ {
		h := base
		h.Flags = uint8(fl)
		checkHeader(h, fl%3, "flags")
	}
	n := r.Pick(5000, 200000)
	for i := 0; i < n; i++ {
		var h refHeader
		h.Command, h.Status, h.Flags, h.Flags2, h.PIDHigh = uint8(rng.Uint32()), rng.Uint32(), uint8(rng.Uint32()), uint16(rng.Uint32()), uint16(rng.Uint32())
		binary.LittleEndian.PutUint64(h.Sec[:], rng.Uint64())
		h.Reserved, h.TID, h.PIDLow, h.UID, h.MID = uint16(rng.Uint32()), uint16(rng.Uint32()), uint16(rng.Uint32()), uint16(rng.Uint32()), uint16(rng.Uint32())
		checkHeader(h, i%3, "rnd")
		if i%(n/3) == 0 {
			r.Sample(map[string]any{"kind": "header", "fields": fmt.Sprintf("%+v", h), "wire": mon.Hex(h.encode())})
		}
	}
}

func camel(s string) string {
	var sb strings.Builder
	for _, p := range strings.Split(s, "_") {
		if p == "" {
			continue
		}
		sb.WriteString(strings.ToUpper(p[:1]) + strings.ToLower(p[1:]))
	}
	return sb.String()
}

// dispatch: all 256 codes x reply flag, exhaustive.
func dispatch(reqT, respT [256]string) {
	dispatched := 0
	for code := 0; code < 256; code++ {
		for _, resp := range []bool{false, true} {
			want := reqT[code]
			suffix := "Request"
			if resp {
				want, suffix = respT[code], "Response"
			}
			name, known := codes.CommandCodeNames[codes.CommandCode(code)]
			// naming rule must agree with the factory (explicit exception: WRITE_RAW replies)
			if want != "" {
				byName := camel(name) + suffix
				if !known || (byName != want && !(code == int(codes.SMB_COM_WRITE_RAW) && resp && strings.HasPrefix(want, "WriteRaw"))) {
					r.Violation(fmt.Sprintf("dispatch:naming:%02x:%s", code, suffix), fmt.Sprintf("code %#02x (%s) %s: factory yields %s, naming rule says %s", code, name, suffix, want, byName), nil)
				}
			}
			for vi, hv := range dispatchHeaders(uint8(code), resp) {
				h := hv
				fl := h.Flags &^ 0x80
				if vi > 0 {
					fl = 0xEE // only the first variant counts a (code, reply) pair as dispatched
				}
				wire := append(h.encode(), 0, 0, 0)
				m := message.NewMessage()
				var err error
				p, pv, st := mon.Guard(func() { err = m.Unmarshal(wire) })
				// the same bytes decoded into a long-lived Message that has decoded other codes
				// and the opposite direction before must designate the same type
				if !p && want != "" && err == nil {
					var err2 error
					p2, _, _ := mon.Guard(func() { err2 = liveMsg.Unmarshal(wire) })
					r.Eval(1)
					if p2 || err2 != nil || liveMsg.Command == nil || reflect.TypeOf(liveMsg.Command).Elem().Name() != want {
						got := "<nil>"
						if liveMsg.Command != nil {
							got = reflect.TypeOf(liveMsg.Command).Elem().Name()
						}
						r.Violation(fmt.Sprintf("dispatch:%02x:%s:reused-message", code, suffix), fmt.Sprintf("a Message object that decoded other messages before yields %s (err %v) where the header designates %s", got, err2, want), map[string]any{"code": code, "response": resp, "wire": mon.FullHex(wire)})
					}
				}
				r.Eval(1)
				cs := map[string]any{"code": code, "response": resp, "wire": mon.FullHex(wire)}
				key := fmt.Sprintf("dispatch:%02x:%s", code, suffix)
				if p {
					r.Violation(key+":panic", fmt.Sprintf("%v at %s", pv, mon.TopLibFrame(st)), cs)
					continue
				}
				if want == "" {
					if err == nil && m.Command != nil {
						r.Violation(key+":unexpected-type", fmt.Sprintf("no structure is defined for code %#02x %s but Unmarshal produced %T", code, suffix, m.Command), cs)
					}
					continue
				}
				if err != nil {
					r.Violation(key+":refused", "Unmarshal of an empty-bodied message failed: "+err.Error(), cs)
					continue
				}
				got := reflect.TypeOf(m.Command).Elem().Name()
				if got != want {
					r.Violation(key+":wrong-type", fmt.Sprintf("header designates %s, got %s", want, got), cs)
				}
				if uint8(m.Command.GetCommandCode()) != uint8(code) {
					r.Violation(key+":wrong-code", fmt.Sprintf("command structure reports code %#02x", m.Command.GetCommandCode()), cs)
				}
				if uint8(m.Header.Command) != uint8(code) || m.Header.IsResponse() != resp {
					r.Violation(key+":header", "decoded header does not carry the code/reply flag", cs)
				}
				if fl == 0 {
					dispatched++
					r.Nontrivial(fmt.Sprintf("dispatch|%02x|%v|%s", code, resp, got))
				}
			}
		}
	}
	r.Extra("dispatch_pairs_with_structure", dispatched)
	r.Extra("dispatch_pairs_total", 512)
}

// dispatchHeaders: the header assignments each (code, reply) cell is decoded under. The type a
// message decodes to is designated by the command code and the reply flag alone, so every other
// header field is varied over its boundary values (and seeded random values).
func dispatchHeaders(code uint8, resp bool) []refHeader {
	base := refHeader{Command: code, MID: 7, TID: 9}
	hs := []refHeader{base}
	for _, fl := range []uint8{0x18, 0x7F} {
		h := base
		h.Flags = fl
		hs = append(hs, h)
	}
	mod := func(f func(h *refHeader)) {
		h := refHeader{Command: code}
		f(&h)
		hs = append(hs, h)
	}
	mod(func(h *refHeader) {})
	mod(func(h *refHeader) { h.MID = 0xFFFF })
	mod(func(h *refHeader) { h.MID = 0xFFFE })
	mod(func(h *refHeader) { h.TID = 0xFFFF })
	mod(func(h *refHeader) { h.UID = 0xFFFF })
	mod(func(h *refHeader) { h.UID = 0xFFFE })
	mod(func(h *refHeader) { h.PIDLow, h.PIDHigh = 0xFFFF, 0xFFFF })
	mod(func(h *refHeader) { h.PIDLow = 0xFFFE })
	mod(func(h *refHeader) { h.Status = 0xC0000022 })
	mod(func(h *refHeader) { h.Status = 0xFFFFFFFF })
	mod(func(h *refHeader) { h.Status = 0x00020001 }) // a DOS class/code pair
	mod(func(h *refHeader) { h.Flags2 = 0xFFFF })
	mod(func(h *refHeader) { h.Flags2 = 0xC000 })
	mod(func(h *refHeader) { h.Flags2 = 0x0004 })
	mod(func(h *refHeader) { h.Sec = [8]byte{255, 255, 255, 255, 255, 255, 255, 255} })
	mod(func(h *refHeader) { h.Reserved = 0xFFFF })
	mod(func(h *refHeader) {
		*h = refHeader{Command: code, Status: 0xFFFFFFFF, Flags: 0x7F, Flags2: 0xFFFF, PIDHigh: 0xFFFF, Sec: [8]byte{255, 255, 255, 255, 255, 255, 255, 255}, Reserved: 0xFFFF, TID: 0xFFFF, PIDLow: 0xFFFF, UID: 0xFFFF, MID: 0xFFFF}
	})
	rng := r.Rand(fmt.Sprintf("dispatch-hdr|%02x|%v", code, resp))
	for k := 0; k < r.Pick(3, 40); k++ {
		mod(func(h *refHeader) {
			h.Status, h.Flags, h.Flags2 = rng.Uint32(), uint8(rng.Uint32())&0x7F, uint16(rng.Uint32())
			h.PIDHigh, h.TID, h.PIDLow, h.UID, h.MID = uint16(rng.Uint32()), uint16(rng.Uint32()), uint16(rng.Uint32()), uint16(rng.Uint32()), uint16(rng.Uint32())
			for i := range h.Sec {
				h.Sec[i] = byte(rng.Uint32())
			}
		})
	}
	for i := range hs {
		if resp {
			hs[i].Flags |= 0x80
		} else {
			hs[i].Flags &^= 0x80
		}
	}
	return hs
}

// framing: message length = 32 + 1 + 2*wc + 2 + bc; repeatable; decodes to the same header/type.
func firstByteDiff(a, b []byte) int {
	for i := 0; i < len(a) && i < len(b); i++ {
		if a[i] != b[i] {
			return i
		}
	}
	if len(a) < len(b) {
		return len(a)
	}
	return len(b)
}

func framing(structs []smbgen.Struct) {
	for _, s := range structs {
		rels := smbgen.Relations(s.Name)
		nIter := r.Pick(70, 1500)
		for it := 0; it < nIter; it++ {
			rng := r.Rand(fmt.Sprintf("framing|%s|%d", s.Name, it))
			mode := smbgen.ModeRandom
			if it < 4 {
				mode = smbgen.Mode(it)
			}
			maxLen := []int{6, 40, 255, 256, 700, 3000, -1}[it%7] // -1: one buffer around or beyond 2^15 bytes
			c := s.New()
			smbgen.Fill(c, rels, rng, mode, maxLen)
			// AndX structures: the link words a peer would have sent (next command, reserved, offset)
			andxWords := [][3]uint16{{0xFF, 0, 0}, {0xFF, 0, 0x0027}, {0xA2, 0, 0x0040}, {0x2E, 0x5A, 0x8001}, {0x75, 0, 0xFFFF}}[it%5]
			setAndX := func(c ci.CommandInterface) {
				if c.IsAndX() && it%5 != 0 {
					x := andx.NewAndX()
					x.AndXCommand, x.AndXReserved, x.AndXOffset = codes.CommandCode(andxWords[0]), uint8(andxWords[1]), andxWords[2]
					c.SetAndX(x)
				}
			}
			setAndX(c)
			smbgen.AlignPads(c, rels)
			if maxLen < 0 {
				// steer the data block to the top of the 16-bit byte count
				var b0 []byte
				var e0 error
				if p0, _, _ := mon.Guard(func() { b0, e0 = c.Marshal() }); !p0 && e0 == nil {
					if _, d0, ok := smbgen.Blocks(b0); ok && len(d0) >= 32760 {
						target := []int{65535, 65534, 65500, 65499, 65498, 49152}[(it/7)%6]
						if smbgen.Grow(c, rels, target-len(d0)) {
							r.Count("big_data_blocks_steered", 1)
						}
					}
				}
			}
			m := message.NewMessage()
			m.Header.MID = uint16(rng.Uint32())
			m.Header.TID = uint16(rng.Uint32())
			m.Header.Status = rng.Uint32()
			if s.Response {
				m.Header.Flags |= flags.FLAGS_REPLY
			}
			var wire []byte
			var err error
			cs := map[string]any{"struct": s.Name, "iter": it, "fields": fmt.Sprintf("%+v", reflect.ValueOf(c).Elem().Interface())}
			// the command's own encoding, taken from an identical structure before the message sees it
			var alone []byte
			{
				c2 := s.New()
				smbgen.Fill(c2, rels, r.Rand(fmt.Sprintf("framing|%s|%d", s.Name, it)), mode, maxLen)
				setAndX(c2)
				smbgen.AlignPads(c2, rels)
				var e2 error
				if p2, _, _ := mon.Guard(func() { alone, e2 = c2.Marshal() }); p2 || e2 != nil {
					alone = nil
				}
			}
			p, pv, st := mon.Guard(func() {
				m.AddCommand(c)
				wire, err = m.Marshal()
			})
			r.Eval(1)
			if p {
				r.Violation(s.Name+":message.Marshal:panic", fmt.Sprintf("%v at %s", pv, mon.TopLibFrame(st)), cs)
				continue
			}
			if err != nil && maxLen < 0 && smbgen.ByteTotal(reflect.ValueOf(c).Elem()) > 65000 {
				r.Count("big_assignments_refused_over_64k", 1)
				continue
			}
			if err != nil {
				r.Violation(s.Name+":message.Marshal:error", "a message carrying an internally consistent "+s.Name+" cannot be encoded: "+err.Error(), cs)
				continue
			}
			cs["wire"] = mon.FullHex(wire)
			for _, tag := range held.Hold(wire, s.Name) {
				r.Violation(tag+":held-output-changed", "bytes returned by an earlier Message.Marshal of "+tag+" changed after later calls (output aliases a reused buffer)", cs)
			}
			if alone != nil && maxLen >= 0 && len(wire) >= 32 && !bytes.Equal(wire[32:], alone) {
				r.Eval(1)
				r.Violation(s.Name+":framing:body-is-not-the-command", fmt.Sprintf("after the 32-byte header the message holds %d bytes that differ from the %d bytes the same %s encodes to on its own (first difference at body offset %d)", len(wire)-32, len(alone), s.Name, firstByteDiff(wire[32:], alone)), cs)
			}
			if len(wire) < 35 {
				r.Violation(s.Name+":framing:short", fmt.Sprintf("message is %d bytes", len(wire)), cs)
				continue
			}
			if wire[4] != s.Code {
				r.Violation(s.Name+":framing:command-byte", fmt.Sprintf("header command byte %#02x, structure is for %#02x", wire[4], s.Code), cs)
			}
			wc := int(wire[32])
			if len(wire) < 33+2*wc+2 {
				r.Violation(s.Name+":framing:wordcount", fmt.Sprintf("WordCount %d exceeds message of %d bytes", wc, len(wire)), cs)
				continue
			}
			bc := int(binary.LittleEndian.Uint16(wire[33+2*wc:]))
			if len(wire) != 32+1+2*wc+2+bc {
				r.Violation(s.Name+":framing:equation", fmt.Sprintf("len=%d but 32+1+2*%d+2+%d=%d", len(wire), wc, bc, 35+2*wc+bc), cs)
			}
			// the header's command code is a header field like the others: when the caller sets it
			// after attaching the command (0x00 is a code, not "unset"), it goes out as set
			if it%3 == 0 {
				for _, code := range []uint8{0x00, 0xFF, s.Code ^ 0x01} {
					keep := m.Header.Command
					m.Header.Command = codes.CommandCode(code)
					var w3 []byte
					var e3 error
					mon.Guard(func() { w3, e3 = m.Marshal() })
					m.Header.Command = keep
					r.Eval(1)
					if e3 == nil && len(w3) > 4 && w3[4] != code {
						r.Violation("message.Marshal:header-command-overridden", fmt.Sprintf("Header.Command set to %#02x with a %s attached: the header goes out with command %#02x", code, s.Name, w3[4]), cs)
					}
				}
			}
			// repeatability
			for k := 2; k <= 5; k++ {
				var again []byte
				mon.Guard(func() { again, err = m.Marshal() })
				r.Eval(1)
				if err != nil || !bytes.Equal(again, wire) {
					r.Violation(s.Name+":repeat", fmt.Sprintf("Marshal call #%d differs from the first (len %d vs %d, err %v)", k, len(again), len(wire), err), cs)
					break
				}
			}
			// decode: header equal, type as designated
			m2 := message.NewMessage()
			p, pv, st = mon.Guard(func() { err = m2.Unmarshal(wire) })
			r.Eval(1)
			if p || err != nil {
				if p {
					r.Violation(s.Name+":decode:panic", fmt.Sprintf("Message.Unmarshal of the library's own encoding panicked: %v at %s", pv, mon.TopLibFrame(st)), cs)
				} else {
					r.Violation(s.Name+":decode:refused", "Message.Unmarshal refuses the library's own encoding of an internally consistent "+s.Name+": "+err.Error(), cs)
				}
			} else {
				if got := reflect.TypeOf(m2.Command).Elem().Name(); got != s.Name && !(strings.HasPrefix(s.Name, "WriteRaw") && strings.HasPrefix(got, "WriteRaw")) {
					r.Violation(s.Name+":decode:wrong-type", "decoded as "+got, cs)
				}
				// the decoded parameter and data blocks are the blocks that were on the wire
				if pb := m2.Command.GetParameters(); pb != nil {
					if got := pb.GetBytes(); !bytes.Equal(got, wire[33:33+2*wc]) || int(pb.WordCount) != wc {
						r.Violation(s.Name+":decode:parameter-block", fmt.Sprintf("decoded parameter block (%d words) differs from the %d words on the wire", len(got)/2, wc), cs)
					}
				}
				if db := m2.Command.GetData(); db != nil {
					if got := db.GetBytes(); !bytes.Equal(got, wire[35+2*wc:]) || int(db.ByteCount) != bc {
						r.Violation(s.Name+":decode:data-block", fmt.Sprintf("decoded data block (%d bytes) differs from the %d bytes on the wire", len(got), bc), cs)
					}
				}
				h1, _ := headerFields(m.Header)
				h2, _ := headerFields(m2.Header)
				if h1 != h2 {
					r.Violation(s.Name+":decode:header:"+firstDiff(h1, h2), fmt.Sprintf("header %+v decoded as %+v", h1, h2), cs)
				}
			}
			r.Nontrivial(fmt.Sprintf("frame|%s|wc%d|bc%d", s.Name, wc, bc>>4))
			if it == 1 && (s.Name == "WriteAndxRequest" || s.Name == "EchoRequest") {
				r.Sample(map[string]any{"kind": "framing", "struct": s.Name, "wc": wc, "bc": bc, "len": len(wire), "wire": mon.Hex(wire)})
			}
		}
	}
}

// chained: a message given two commands (AddCommand twice: an AndX command and the one batched
// after it). MS-CIFS 2.2.3.1: the header's Command is the code of the FIRST command of the
// chain; the bytes after the header start with that command's blocks, so decoding designates
// the first command's type.
func chained(structs []smbgen.Struct) {
	var andxS, others []smbgen.Struct
	for _, s := range structs {
		if s.New().IsAndX() {
			andxS = append(andxS, s)
		} else if len(others) < 12 {
			others = append(others, s)
		}
	}
	for i, a := range andxS {
		for j := 0; j < 4; j++ {
			b := others[(i+j)%len(others)]
			if j == 3 {
				b = andxS[(i+1)%len(andxS)]
			}
			if a.Response != b.Response {
				continue
			}
			ca, cb := a.New(), b.New()
			smbgen.Fill(ca, smbgen.Relations(a.Name), r.Rand(fmt.Sprintf("chain|%s|%d", a.Name, j)), smbgen.ModeOne, 6)
			smbgen.Fill(cb, smbgen.Relations(b.Name), r.Rand(fmt.Sprintf("chain2|%s|%d", b.Name, j)), smbgen.ModeOne, 6)
			smbgen.AlignPads(ca, smbgen.Relations(a.Name))
			m := message.NewMessage()
			if a.Response {
				m.Header.Flags |= flags.FLAGS_REPLY
			}
			var wire []byte
			var err error
			cs := map[string]any{"first": a.Name, "second": b.Name}
			p, pv, st := mon.Guard(func() {
				m.AddCommand(ca)
				m.AddCommand(cb)
				wire, err = m.Marshal()
			})
			r.Eval(1)
			if p {
				r.Violation("chain:"+a.Name+":panic", fmt.Sprintf("%v at %s", pv, mon.TopLibFrame(st)), cs)
				continue
			}
			if err != nil || len(wire) < 33 {
				r.Count("chained_messages_not_encodable", 1)
				continue
			}
			cs["wire"] = mon.FullHex(wire)
			if wire[4] != a.Code {
				r.Violation("chain:header-command", fmt.Sprintf("a message holding %s followed by %s has header command %#02x; the first command's code is %#02x", a.Name, b.Name, wire[4], a.Code), cs)
				continue
			}
			m2 := message.NewMessage()
			p, _, _ = mon.Guard(func() { err = m2.Unmarshal(wire) })
			r.Eval(1)
			if !p && err == nil && m2.Command != nil {
				if got := reflect.TypeOf(m2.Command).Elem().Name(); got != a.Name {
					r.Violation("chain:decode:wrong-type", fmt.Sprintf("a message holding %s followed by %s decodes as %s", a.Name, b.Name, got), cs)
				}
			}
			// the same as bytes a peer would send: first block naming the second (AndXCommand,
			// AndXOffset), then the second block. Whether or not the decoder follows the chain,
			// Message.Command is the structure the header designates: the first one.
			ca2 := a.New()
			smbgen.Fill(ca2, smbgen.Relations(a.Name), r.Rand(fmt.Sprintf("chain|%s|%d", a.Name, j)), smbgen.ModeOne, 6)
			var first, second []byte
			pb, _, _ := mon.Guard(func() { second, err = cb.Marshal() })
			if !pb && err == nil {
				probe, e0, _ := func() ([]byte, error, bool) { b0, e := ca.Marshal(); return b0, e, true }()
				if e0 == nil {
					x := andx.NewAndX()
					x.AndXCommand, x.AndXOffset = codes.CommandCode(b.Code), uint16(32+len(probe))
					ca2.SetAndX(x)
					smbgen.AlignPads(ca2, smbgen.Relations(a.Name))
					pf, _, _ := mon.Guard(func() { first, err = ca2.Marshal() })
					if !pf && err == nil && len(first) == len(probe) {
						hd := refHeader{Command: a.Code, MID: 3}
						if a.Response {
							hd.Flags = 0x80
						}
						w2 := append(append(hd.encode(), first...), second...)
						m3 := message.NewMessage()
						p3, pv3, st3 := mon.Guard(func() { err = m3.Unmarshal(w2) })
						r.Eval(1)
						cs2 := map[string]any{"first": a.Name, "second": b.Name, "wire": mon.FullHex(w2)}
						switch {
						case p3:
							r.Violation("chain:decode:panic", fmt.Sprintf("%v at %s", pv3, mon.TopLibFrame(st3)), cs2)
						case err != nil || m3.Command == nil:
							r.Count("chained_wire_messages_refused", 1)
						case reflect.TypeOf(m3.Command).Elem().Name() != a.Name:
							r.Violation("chain:decode:wrong-type", fmt.Sprintf("bytes holding %s followed by %s (linked through the AndX block) decode with Message.Command = %s", a.Name, b.Name, reflect.TypeOf(m3.Command).Elem().Name()), cs2)
						}
						r.Count("chained_wire_messages", 1)
					}
				}
			}
			r.Nontrivial(fmt.Sprintf("chain|%s|%s", a.Name, b.Name))
		}
	}
}

// concurrentCallers: unrelated headers and messages encoded on different goroutines must be
// the bytes a single caller gets (no shared scratch buffers in the encoders).
func concurrentCallers(structs []smbgen.Struct) {
	var wg sync.WaitGroup
	G := 8
	per := r.Pick(3000, 40000)
	for g := 0; g < G; g++ {
		wg.Add(1)
		go func(g int) {
			defer wg.Done()
			rng := r.Rand(fmt.Sprintf("concurrent|%d", g))
			for i := 0; i < per; i++ {
				var h refHeader
				h.Command, h.Status, h.Flags, h.Flags2, h.PIDHigh = uint8(rng.Uint32()), rng.Uint32(), uint8(rng.Uint32()), uint16(rng.Uint32()), uint16(rng.Uint32())
				binary.LittleEndian.PutUint64(h.Sec[:], rng.Uint64())
				h.Reserved, h.TID, h.PIDLow, h.UID, h.MID = uint16(rng.Uint32()), uint16(rng.Uint32()), uint16(rng.Uint32()), uint16(rng.Uint32()), uint16(rng.Uint32())
				lh := libHeader(h, i%3)
				got, err := lh.Marshal()
				r.Eval(1)
				if err != nil || !bytes.Equal(got, h.encode()) {
					r.Violation("header.Marshal:concurrent", fmt.Sprintf("with other goroutines encoding other headers: got %x want %x", got, h.encode()), map[string]any{"fields": fmt.Sprintf("%+v", h)})
				}
				if i%8 == 0 {
					s := structs[(i/8+g*7)%len(structs)]
					rels := smbgen.Relations(s.Name)
					seedName := fmt.Sprintf("concurrent|%d|%d", g, i)
					c1, c2 := s.New(), s.New()
					smbgen.Fill(c1, rels, r.Rand(seedName), smbgen.ModeRandom, 60)
					smbgen.Fill(c2, rels, r.Rand(seedName), smbgen.ModeRandom, 60)
					var w1, w2 []byte
					var e1, e2 error
					mon.Guard(func() { w1, e1 = c1.Marshal() })
					mon.Guard(func() { w2, e2 = c2.Marshal() })
					r.Eval(2)
					if (e1 == nil) != (e2 == nil) || !bytes.Equal(w1, w2) {
						r.Violation(s.Name+":Marshal:concurrent", "two structures with identical field values encode differently while other goroutines encode", map[string]any{"struct": s.Name})
					}
				}
			}
		}(g)
	}
	wg.Wait()
	r.Count("concurrent_caller_goroutines", G)
}

func main() {
	r = mon.Start("C03", "exploration")
	r.Rule("Headers: boundary values per field, all 256 flag bytes, seeded random, x3 SecurityFeatures variants, against an independent MS-CIFS 2.2.3.1 codec. Dispatch: all 256 command codes x reply flag (exhaustive), 3 flag backgrounds. Framing: every structure x value classes x buffer-size classes; equation len=32+1+2wc+2+bc; Marshal repeated 5 times. Non-trivial/distinct: distinct header wire images; (code, reply) pairs that dispatch to a structure; (structure, wc, bc/16) frames.")
	r.Assume("dispatch expectation = the factory's own type for (code, reply) cross-checked with CamelCase(CommandCodeNames[code])+Request|Response (WRITE_RAW replies excepted)", "encode/decode failures of an individual structure's body are judged by C04, not here")
	structs, reqT, respT := smbgen.Enumerate()
	// race side run (./check builds this monitor with -race): only the workload in which goroutines
	// use the library at the same time; the detector's reports are filed by Finish
	if mon.SideRace() {
		concurrentCallers(structs)
		r.Finish()
	}
	headers()
	dispatch(reqT, respT)
	customFeatures()
	framing(structs)
	chained(structs)
	blockSequences()
	concurrentCallers(structs)
	r.SetExhaustive(false)
	r.Finish()
}
