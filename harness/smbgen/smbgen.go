// Package smbgen: reflection-driven enumeration, filling, comparison and slot
// probing of the SMB1 command structures the library's factories return.
// Shared by the C03, C04, C05 and C07 monitors.
package smbgen

import (
	"fmt"
	"math/rand/v2"
	"os"
	"path/filepath"
	"reflect"
	"regexp"
	"sort"
	"strings"

	"github.com/TheManticoreProject/Manticore/network/smb/smb_v10/message/commands"
	"github.com/TheManticoreProject/Manticore/network/smb/smb_v10/message/commands/codes"
	ci "github.com/TheManticoreProject/Manticore/network/smb/smb_v10/message/commands/command_interface"

	"verif/mon"
)

// Struct is one concrete command structure reachable from a factory.
type Struct struct {
	Name     string
	Code     uint8
	Response bool
	Type     reflect.Type // struct type (not pointer)
}

// New returns a fresh, Init()ed instance from the factory.
func (s Struct) New() ci.CommandInterface {
	var c ci.CommandInterface
	var err error
	if s.Response {
		c, err = commands.CreateResponseCommand(codes.CommandCode(s.Code))
	} else {
		c, err = commands.CreateRequestCommand(codes.CommandCode(s.Code))
	}
	if err != nil || c == nil {
		panic(fmt.Sprintf("factory refused %02x/%v: %v", s.Code, s.Response, err))
	}
	c.Init()
	return c
}

// Enumerate calls both factories on all 256 codes and returns the distinct
// concrete structures (first (code, reply) that yields each type), plus the full
// dispatch table code -> type name ("" when the factory refuses).
func Enumerate() (structs []Struct, reqTable, respTable [256]string) {
	seen := map[string]bool{}
	for code := 0; code < 256; code++ {
		for _, resp := range []bool{false, true} {
			var c ci.CommandInterface
			var err error
			p, _, _ := mon.Guard(func() {
				if resp {
					c, err = commands.CreateResponseCommand(codes.CommandCode(code))
				} else {
					c, err = commands.CreateRequestCommand(codes.CommandCode(code))
				}
			})
			if p || err != nil || c == nil || reflect.ValueOf(c).IsNil() {
				continue
			}
			t := reflect.TypeOf(c).Elem()
			if resp {
				respTable[code] = t.Name()
			} else {
				reqTable[code] = t.Name()
			}
			if !seen[t.Name()] {
				seen[t.Name()] = true
				structs = append(structs, Struct{Name: t.Name(), Code: uint8(code), Response: resp, Type: t})
			}
		}
	}
	sort.Slice(structs, func(i, j int) bool { return structs[i].Name < structs[j].Name })
	return
}

// ---------------------------------------------------------------- relations

// Relation says len(Slice) must equal the integer field Count (or Fixed when
// Count == "").
type Relation struct {
	Slice string
	Count string
	Fixed int
	Rest  bool   // slice takes the remainder of the block
	Kind  string // "" | "utf16z" (even length, no aligned 00 00, 00 00 terminated) | "pad01" (0 or 1 alignment byte)
}

var (
	reSliceCount = regexp.MustCompile(`c\.(\w+) = raw\w+\[offset : offset\+int\(c\.(\w+)\)\]`)
	reSliceVar   = regexp.MustCompile(`c\.(\w+) = raw\w+\[offset : offset\+(\w+)\]`)
	reVarDef     = regexp.MustCompile(`(\w+) := int\(c\.(\w+)\)`)
	reSliceRest  = regexp.MustCompile(`c\.(\w+) = raw\w+\[offset:\]`)
	reLoop       = regexp.MustCompile(`for i := 0; i < int\(c\.(\w+)\); i\+\+`)
	reAppend     = regexp.MustCompile(`c\.(\w+) = append\(c\.(\w+),`)
	reIndex      = regexp.MustCompile(`c\.(\w+)\[i\] = `)
	reUTF16z     = regexp.MustCompile(`(\w+), \w+ :?= utils\.GetNullTerminatedUnicodeString\(`)
)

// Relations extracts the length/count relations a structure's own Unmarshal
// imposes, from the source file at check time.
func Relations(name string) []Relation {
	p := filepath.Join(mon.RepoRoot(), "network/smb/smb_v10/message/commands", name+".go")
	b, err := os.ReadFile(p)
	if err != nil {
		return nil
	}
	src := string(b)
	i := strings.Index(src, ") Unmarshal(")
	if i < 0 {
		return nil
	}
	src = src[i:]
	var out []Relation
	vars := map[string]string{}
	for _, m := range reVarDef.FindAllStringSubmatch(src, -1) {
		vars[m[1]] = m[2]
	}
	for _, m := range reSliceCount.FindAllStringSubmatch(src, -1) {
		out = append(out, Relation{Slice: m[1], Count: m[2]})
	}
	for _, m := range reSliceVar.FindAllStringSubmatch(src, -1) {
		if f, ok := vars[m[2]]; ok {
			out = append(out, Relation{Slice: m[1], Count: f})
		} else if m[2] == "padLen" && strings.Contains(src, "padLen = 1") {
			out = append(out, Relation{Slice: m[1], Kind: "pad01"})
		} else if n := atoi(m[2]); n >= 0 {
			out = append(out, Relation{Slice: m[1], Fixed: n})
		}
	}
	for _, m := range reSliceRest.FindAllStringSubmatch(src, -1) {
		out = append(out, Relation{Slice: m[1], Rest: true})
	}
	for _, m := range reUTF16z.FindAllStringSubmatch(src, -1) {
		if a := regexp.MustCompile(`c\.(\w+) = \[\]types\.UCHAR\(` + m[1] + `\)`).FindStringSubmatch(src); a != nil {
			out = append(out, Relation{Slice: a[1], Kind: "utf16z"})
		}
	}
	lines := strings.Split(src, "\n")
	for li, l := range lines {
		m := reLoop.FindStringSubmatch(l)
		if m == nil {
			continue
		}
		for k := li + 1; k < len(lines) && k < li+20; k++ {
			if a := reAppend.FindStringSubmatch(lines[k]); a != nil && a[1] == a[2] {
				out = append(out, Relation{Slice: a[1], Count: m[1]})
				break
			}
			if a := reIndex.FindStringSubmatch(lines[k]); a != nil {
				out = append(out, Relation{Slice: a[1], Count: m[1]})
				break
			}
			if strings.HasPrefix(lines[k], "\t}") {
				break
			}
		}
	}
	return out
}

func atoi(s string) int {
	n := 0
	if s == "" {
		return -1
	}
	for _, c := range s {
		if c < '0' || c > '9' {
			return -1
		}
		n = n*10 + int(c-'0')
	}
	return n
}

// ---------------------------------------------------------------- filling

// Mode selects the value class used for integer leaves.
type Mode int

const (
	ModeDistinct Mode = iota // pairwise-distinct bytes, different per field
	ModeMax                  // all ones
	ModeHighBit              // only the sign bit of every integer
	ModeOne                  // 1
	ModeRandom
)

var ModeNames = []string{"distinct", "max", "highbit", "one", "random"}

type filler struct {
	rng     *rand.Rand
	mode    Mode
	counter uint64
	maxLen  int
	bigLeft int // byte slices that may still get a length around and beyond 2^15
}

func (f *filler) uintFor(bits int) uint64 {
	f.counter++
	var v uint64
	switch f.mode {
	case ModeDistinct:
		// bytes b, b+1, ... with b depending on the field ordinal (never 0)
		b := uint64(0x11 + (f.counter*0x09)%0xC0)
		for i := 0; i < bits/8; i++ {
			v |= ((b + uint64(i)*0x11) & 0xFF) << (8 * uint(i))
		}
	case ModeMax:
		v = ^uint64(0)
	case ModeHighBit:
		v = 1 << uint(bits-1)
	case ModeOne:
		v = 1
	default:
		switch f.rng.IntN(6) {
		case 0:
			v = uint64(f.rng.IntN(4))
		case 1:
			v = ^uint64(0) - uint64(f.rng.IntN(3))
		default:
			v = f.rng.Uint64()
		}
	}
	if bits < 64 {
		v &= (1 << uint(bits)) - 1
	}
	return v
}

func (f *filler) length() int {
	if f.mode != ModeRandom {
		return 1 + int(f.counter%5)
	}
	switch f.rng.IntN(5) {
	case 0:
		return 0
	case 1:
		return 1
	}
	return f.rng.IntN(f.maxLen + 1)
}

func (f *filler) nulFree(n int) []byte {
	b := make([]byte, n)
	for i := range b {
		if f.mode == ModeRandom {
			b[i] = byte(1 + f.rng.IntN(255))
		} else {
			b[i] = byte('A' + (int(f.counter)+i)%26)
		}
	}
	f.counter++
	return b
}

func (f *filler) fill(v reflect.Value, top bool) {
	t := v.Type()
	switch t.Name() {
	case "SMB_STRING":
		n := f.length()
		buf := f.nulFree(n)
		v.FieldByName("Buffer").SetBytes(buf)
		v.FieldByName("Length").SetUint(uint64(n))
		v.FieldByName("BufferFormat").SetUint(4)
		return
	case "SMB_DATE":
		v.FieldByName("Year").SetUint(1980 + f.uintFor(16)%128)
		v.FieldByName("Month").SetUint(f.uintFor(8) % 16)
		v.FieldByName("Day").SetUint(f.uintFor(8) % 32)
		return
	case "SMB_DIRECTORY_INFORMATION":
		for i := 0; i < t.NumField(); i++ {
			if t.Field(i).Name == "FileName" {
				n := 1 + int(f.uintFor(8)%12)
				name := f.nulFree(n)
				for j := range name {
					if name[j] == ' ' {
						name[j] = '_'
					}
				}
				s := v.Field(i).FieldByName("SMB_STRING")
				s.FieldByName("Buffer").SetBytes(name)
				s.FieldByName("Length").SetUint(uint64(n))
				s.FieldByName("BufferFormat").SetUint(4)
				continue
			}
			f.fill(v.Field(i), false)
		}
		return
	case "SMB_RESUME_KEY":
		f.fill(v.FieldByName("Reserved"), false)
		f.fill(v.FieldByName("ServerState"), false)
		f.fill(v.FieldByName("ClientState"), false)
		return
	}
	switch v.Kind() {
	case reflect.Uint8, reflect.Uint16, reflect.Uint32, reflect.Uint64:
		v.SetUint(f.uintFor(t.Bits()))
	case reflect.Int8, reflect.Int16, reflect.Int32, reflect.Int64:
		u := f.uintFor(t.Bits())
		sh := uint(64 - t.Bits())
		v.SetInt(int64(u<<sh) >> sh)
	case reflect.Bool:
		v.SetBool(f.uintFor(8)&1 == 1)
	case reflect.String:
		if f.mode == ModeRandom && f.rng.IntN(6) == 0 {
			v.SetString("") // an empty string is a string too (e.g. an empty dialect name)
		} else {
			v.SetString(string(f.nulFree(1 + f.length())))
		}
	case reflect.Array:
		for i := 0; i < v.Len(); i++ {
			f.fill(v.Index(i), false)
		}
	case reflect.Slice:
		n := f.length()
		if f.bigLeft > 0 && t.Elem().Kind() == reflect.Uint8 && f.rng.IntN(2) == 0 {
			f.bigLeft--
			n = []int{32767, 32768, 32769, 32760 + f.rng.IntN(25000)}[f.rng.IntN(4)]
		}
		if t.Elem().Kind() == reflect.Uint16 {
			n = n % 231 // word arrays (setup words) count against the 255-word parameter block
		}
		if t.Elem().Kind() == reflect.Struct || t.Elem().Kind() == reflect.String {
			n = n % 4
			if t.Elem().Kind() == reflect.String && n == 0 {
				n = 1
			}
		}
		if n == 0 && f.rng.IntN(2) == 0 {
			// "no content" spelled as a nil slice rather than an empty one: the same value to a codec
			v.Set(reflect.Zero(t))
			return
		}
		s := reflect.MakeSlice(t, n, n)
		for i := 0; i < n; i++ {
			f.fill(s.Index(i), false)
		}
		// near-duplicates: an element that equals its predecessor except in one leaf (two lock
		// ranges of one process that differ only in the high half of an offset, or only in a pad)
		if f.mode == ModeRandom && t.Elem().Kind() == reflect.Struct && n >= 2 && f.rng.IntN(3) == 0 {
			for i := 1; i < n; i++ {
				if f.rng.IntN(2) == 0 {
					continue
				}
				s.Index(i).Set(s.Index(i - 1))
				var leaves []reflect.Value
				var walk func(x reflect.Value)
				walk = func(x reflect.Value) {
					switch x.Kind() {
					case reflect.Uint8, reflect.Uint16, reflect.Uint32, reflect.Uint64, reflect.Int8, reflect.Int16, reflect.Int32, reflect.Int64:
						if x.CanSet() {
							leaves = append(leaves, x)
						}
					case reflect.Struct:
						if x.Type().Name() == "SMB_STRING" || x.Type().Name() == "SMB_DATE" || x.Type().Name() == "SMB_DIRECTORY_INFORMATION" || x.Type().Name() == "SMB_RESUME_KEY" {
							return // their fields are tied to one another
						}
						for k := 0; k < x.NumField(); k++ {
							if x.Type().Field(k).IsExported() {
								walk(x.Field(k))
							}
						}
					case reflect.Array:
						for k := 0; k < x.Len(); k++ {
							walk(x.Index(k))
						}
					}
				}
				walk(s.Index(i))
				if len(leaves) > 0 {
					l := leaves[f.rng.IntN(len(leaves))]
					switch l.Kind() {
					case reflect.Uint8, reflect.Uint16, reflect.Uint32, reflect.Uint64:
						l.SetUint((l.Uint() + 1 + uint64(f.rng.IntN(3))) & (1<<uint(l.Type().Bits()) - 1 | 1<<63>>uint(64-l.Type().Bits())))
					default:
						l.SetInt(^l.Int())
					}
				}
			}
		}
		v.Set(s)
	case reflect.Struct:
		for i := 0; i < t.NumField(); i++ {
			sf := t.Field(i)
			if !sf.IsExported() {
				continue
			}
			if top && sf.Anonymous && sf.Name == "Command" {
				continue
			}
			f.fill(v.Field(i), false)
		}
	case reflect.Ptr:
		if v.IsNil() {
			v.Set(reflect.New(t.Elem()))
		}
		f.fill(v.Elem(), false)
	}
}

// Fill assigns every exported field of the command (except the embedded
// Command) and then imposes the structure's own length/count relations.
// It returns the names of slice fields for which no relation was found.
func Fill(c ci.CommandInterface, rels []Relation, rng *rand.Rand, mode Mode, maxLen int) (unconstrained []string) {
	v := reflect.ValueOf(c).Elem()
	f := &filler{rng: rng, mode: mode, maxLen: maxLen}
	if maxLen < 0 { // size class "one buffer of 32 KiB and more", everything else small
		f.maxLen, f.bigLeft = 40, 1
	}
	f.fill(v, true)
	if wc := v.FieldByName("WordCount"); wc.IsValid() && wc.Kind() == reflect.Uint8 {
		wc.SetUint(0) // mirrors the framing count byte: not a free field
	}
	return ApplyRelations(v, rels)
}

// ApplyRelations makes count fields agree with slice lengths.
func ApplyRelations(v reflect.Value, rels []Relation) (unconstrained []string) {
	t := v.Type()
	related := map[string]bool{}
	// several slices may hang off the same count: give them the same length
	byCount := map[string][]string{}
	for _, r := range rels {
		if r.Count != "" {
			byCount[r.Count] = append(byCount[r.Count], r.Slice)
		}
	}
	for _, r := range rels {
		fv := v.FieldByName(r.Slice)
		if !fv.IsValid() || fv.Kind() != reflect.Slice {
			continue
		}
		related[r.Slice] = true
		switch {
		case r.Kind == "utf16z":
			// UTF-16LE code units, none of them 0x0000 (single zero bytes are fine and wanted:
			// "A" followed by U+0100 is 41 00 00 01)
			b := fv.Bytes()
			b = b[:len(b)&^1]
			for i := 0; i+1 < len(b); i += 2 {
				if b[i] == 0 && b[i+1] == 0 {
					b[i] = 0x41
				}
			}
			if len(b) >= 4 && b[0]%2 == 0 {
				copy(b, []byte{0x41, 0x00, 0x00, 0x01})
			}
			fv.SetBytes(b)
		case r.Kind == "pad01":
			if fv.Len() > 1 {
				resize(fv, fv.Len()%2)
			}
		case r.Rest:
		case r.Count == "":
			resize(fv, r.Fixed)
		default:
			cv := v.FieldByName(r.Count)
			if !cv.IsValid() {
				continue
			}
			n := v.FieldByName(byCount[r.Count][0]).Len()
			if max := uint64(1)<<uint(cv.Type().Bits()) - 1; cv.Type().Bits() < 64 && uint64(n) > max {
				n = int(max)
			}
			resize(fv, n)
			switch cv.Kind() {
			case reflect.Uint8, reflect.Uint16, reflect.Uint32, reflect.Uint64:
				cv.SetUint(uint64(n))
			case reflect.Int8, reflect.Int16, reflect.Int32, reflect.Int64:
				cv.SetInt(int64(n))
			}
		}
	}
	for i := 0; i < t.NumField(); i++ {
		sf := t.Field(i)
		if sf.Type.Kind() == reflect.Slice && sf.IsExported() && !related[sf.Name] {
			unconstrained = append(unconstrained, sf.Name)
		}
	}
	return
}

func resize(fv reflect.Value, n int) {
	if fv.Len() == n {
		return
	}
	s := reflect.MakeSlice(fv.Type(), n, n)
	reflect.Copy(s, fv)
	for i := fv.Len(); i < n; i++ {
		if s.Index(i).Kind() == reflect.Uint8 {
			s.Index(i).SetUint(uint64(0x41 + i%26))
		}
	}
	fv.Set(s)
}

// PadFields returns the slice fields that are 0-or-1-byte alignment pads.
func PadFields(rels []Relation) []string {
	var out []string
	for _, r := range rels {
		if r.Kind == "pad01" {
			out = append(out, r.Slice)
		}
	}
	return out
}

// CountFields returns the set of integer fields that are relation targets.
func CountFields(rels []Relation) map[string]bool {
	m := map[string]bool{}
	for _, r := range rels {
		if r.Count != "" {
			m[r.Count] = true
		}
	}
	return m
}

// ---------------------------------------------------------------- comparison

// Diff returns the paths of leaves on which two command values differ
// (embedded Command ignored; nil == empty slice; SMB_STRING compared on Buffer).
func Diff(a, b reflect.Value) []string {
	var out []string
	diff(a, b, "", true, &out)
	return out
}

func diff(a, b reflect.Value, path string, top bool, out *[]string) {
	t := a.Type()
	if t.Name() == "SMB_STRING" {
		ab, bb := a.FieldByName("Buffer").Bytes(), b.FieldByName("Buffer").Bytes()
		if string(ab) != string(bb) {
			*out = append(*out, path+".Buffer")
		}
		return
	}
	switch a.Kind() {
	case reflect.Struct:
		for i := 0; i < t.NumField(); i++ {
			sf := t.Field(i)
			if !sf.IsExported() || (top && sf.Anonymous && sf.Name == "Command") {
				continue
			}
			if t.Name() == "SMB_RESUME_KEY" && sf.Name == "SMB_STRING" {
				continue // derived: Marshal rebuilds it from Reserved/ServerState/ClientState
			}
			if t.Name() == "SMB_DIRECTORY_INFORMATION" && sf.Name == "FileName" {
				// 8.3 names are space-padded to 12 bytes on the wire: compared modulo trailing spaces
				ab := a.Field(i).FieldByName("SMB_STRING").FieldByName("Buffer").Bytes()
				bb := b.Field(i).FieldByName("SMB_STRING").FieldByName("Buffer").Bytes()
				if strings.TrimRight(string(ab), " ") != strings.TrimRight(string(bb), " ") {
					*out = append(*out, path+".FileName")
				}
				continue
			}
			p := sf.Name
			if path != "" {
				p = path + "." + sf.Name
			}
			diff(a.Field(i), b.Field(i), p, false, out)
		}
	case reflect.Slice, reflect.Array:
		if a.Len() != b.Len() {
			*out = append(*out, path+"#len")
			return
		}
		for i := 0; i < a.Len(); i++ {
			n := len(*out)
			diff(a.Index(i), b.Index(i), path+"[]", false, out)
			if len(*out) > n {
				return
			}
		}
	case reflect.Ptr:
		if a.IsNil() != b.IsNil() {
			*out = append(*out, path+"#nil")
			return
		}
		if !a.IsNil() {
			diff(a.Elem(), b.Elem(), path, false, out)
		}
	default:
		if !reflect.DeepEqual(a.Interface(), b.Interface()) {
			*out = append(*out, path)
		}
	}
}

// ---------------------------------------------------------------- wire helpers

// Blocks splits an encoded command into its parameter and data blocks using
// the framing of MS-CIFS 2.2.3.2/2.2.3.3; ok is false if the framing equation
// does not hold.
func Blocks(b []byte) (params, data []byte, ok bool) {
	if len(b) < 3 {
		return nil, nil, false
	}
	wc := int(b[0])
	if len(b) < 1+2*wc+2 {
		return nil, nil, false
	}
	params = b[1 : 1+2*wc]
	bc := int(b[1+2*wc]) | int(b[2+2*wc])<<8
	data = b[3+2*wc:]
	return params, data, len(data) == bc
}

// IntLeaf is a fixed-width integer field reachable from the top level.
type IntLeaf struct {
	Path  string // e.g. "FID" or "CreationTime.DwLowDateTime"
	Index [][]int
	Width int // bytes
	Top   string
}

// IntLeaves lists the fixed-width integer leaves of a command in declaration
// order (top-level integers, integers of nested fixed structs and arrays are
// given per element). Slices and strings are skipped.
func IntLeaves(t reflect.Type) []IntLeaf {
	var out []IntLeaf
	var walk func(t reflect.Type, path string, idx [][]int, top string, isTop bool)
	walk = func(t reflect.Type, path string, idx [][]int, top string, isTop bool) {
		switch t.Name() {
		case "SMB_STRING", "OEM_STRING", "SMB_DATE", "SMB_RESUME_KEY", "SMB_DIRECTORY_INFORMATION", "Dialects":
			return
		}
		switch t.Kind() {
		case reflect.Uint8, reflect.Uint16, reflect.Uint32, reflect.Uint64, reflect.Int8, reflect.Int16, reflect.Int32, reflect.Int64:
			out = append(out, IntLeaf{Path: path, Index: idx, Width: t.Bits() / 8, Top: top})
		case reflect.Struct:
			for i := 0; i < t.NumField(); i++ {
				sf := t.Field(i)
				if !sf.IsExported() || (isTop && sf.Anonymous && sf.Name == "Command") {
					continue
				}
				if isTop && sf.Name == "WordCount" {
					continue
				}
				p, tp := sf.Name, sf.Name
				if path != "" {
					p, tp = path+"."+sf.Name, top
				}
				walk(sf.Type, p, append(append([][]int{}, idx...), []int{i}), tp, false)
			}
		case reflect.Array:
			for i := 0; i < t.Len(); i++ {
				walk(t.Elem(), fmt.Sprintf("%s[%d]", path, i), append(append([][]int{}, idx...), []int{-1, i}), top, false)
			}
		}
	}
	walk(t, "", nil, "", true)
	return out
}

// Leaf resolves an IntLeaf inside a struct value.
func (l IntLeaf) Leaf(v reflect.Value) reflect.Value {
	for _, ix := range l.Index {
		if ix[0] == -1 {
			v = v.Index(ix[1])
		} else {
			v = v.Field(ix[0])
		}
	}
	return v
}

// SetBits stores the low Width bytes of u into the leaf.
func SetBits(v reflect.Value, u uint64) {
	switch v.Kind() {
	case reflect.Uint8, reflect.Uint16, reflect.Uint32, reflect.Uint64:
		if v.Type().Bits() < 64 {
			u &= (1 << uint(v.Type().Bits())) - 1
		}
		v.SetUint(u)
	default:
		sh := uint(64 - v.Type().Bits())
		v.SetInt(int64(u<<sh) >> sh)
	}
}

// GetBits reads the leaf as an unsigned value of its width.
func GetBits(v reflect.Value) uint64 {
	switch v.Kind() {
	case reflect.Uint8, reflect.Uint16, reflect.Uint32, reflect.Uint64:
		return v.Uint()
	default:
		u := uint64(v.Int())
		if v.Type().Bits() < 64 {
			u &= (1 << uint(v.Type().Bits())) - 1
		}
		return u
	}
}

// Slot is the wire position of one integer leaf in an encoded command.
type Slot struct {
	Leaf   IntLeaf
	Lo, Hi int
}

// FindSlots encodes c, then complements one integer leaf at a time and returns
// the leaves whose change touches exactly one contiguous run of Width bytes.
func FindSlots(c ci.CommandInterface, t reflect.Type) (base []byte, slots []Slot, ok bool) {
	var err error
	p, _, _ := mon.Guard(func() { base, err = c.Marshal() })
	if p || err != nil {
		return nil, nil, false
	}
	base = append([]byte{}, base...)
	for _, lf := range IntLeaves(t) {
		v := lf.Leaf(reflect.ValueOf(c).Elem())
		orig := GetBits(v)
		SetBits(v, ^orig)
		var b []byte
		p, _, _ := mon.Guard(func() { b, err = c.Marshal() })
		SetBits(v, orig)
		if p || err != nil || len(b) != len(base) {
			continue
		}
		lo, hi, n := -1, -1, 0
		for i := range b {
			if b[i] != base[i] {
				if lo < 0 {
					lo = i
				}
				hi = i + 1
				n++
			}
		}
		if n == lf.Width && hi-lo == n {
			slots = append(slots, Slot{Leaf: lf, Lo: lo, Hi: hi})
		}
	}
	// restore the encoding state of c
	mon.Guard(func() { c.Marshal() })
	return base, slots, true
}

// AlignPads sets every 0-or-1-byte alignment pad of c to the length that aligns the field
// after it on a 16-bit boundary from the start of the SMB header (32-byte header, WordCount
// byte, parameter words, 2 ByteCount bytes, then the data-block byte slices declared before
// the pad). The rule is computed here, independently of the library's decoder.
func AlignPads(c ci.CommandInterface, rels []Relation) {
	pads := PadFields(rels)
	if len(pads) == 0 {
		return
	}
	v := reflect.ValueOf(c).Elem()
	t := v.Type()
	for _, pf := range pads {
		v.FieldByName(pf).SetBytes([]byte{})
	}
	var b []byte
	var err error
	if p, _, _ := mon.Guard(func() { b, err = c.Marshal() }); p || err != nil {
		return
	}
	params, _, ok := Blocks(b)
	if !ok {
		return
	}
	for _, pf := range pads {
		before := 0
		for i := 0; i < t.NumField(); i++ {
			sf := t.Field(i)
			if sf.Name == pf {
				break
			}
			if sf.Type.Kind() == reflect.Slice && sf.Type.Elem().Kind() == reflect.Uint8 {
				before += v.Field(i).Len()
			}
		}
		if (32+1+len(params)+2+before)%2 == 1 {
			v.FieldByName(pf).SetBytes([]byte{0})
		}
	}
}

// CopyFields deep-copies every exported field (except the embedded Command) from src to dst,
// cloning slices so that dst shares no memory with src.
func CopyFields(dst, src ci.CommandInterface) {
	dv, sv := reflect.ValueOf(dst).Elem(), reflect.ValueOf(src).Elem()
	t := sv.Type()
	for i := 0; i < t.NumField(); i++ {
		sf := t.Field(i)
		if !sf.IsExported() || (sf.Anonymous && sf.Name == "Command") {
			continue
		}
		dv.Field(i).Set(deepClone(sv.Field(i)))
	}
}

func deepClone(v reflect.Value) reflect.Value {
	switch v.Kind() {
	case reflect.Slice:
		if v.IsNil() {
			return reflect.Zero(v.Type())
		}
		out := reflect.MakeSlice(v.Type(), v.Len(), v.Len())
		for i := 0; i < v.Len(); i++ {
			out.Index(i).Set(deepClone(v.Index(i)))
		}
		return out
	case reflect.Struct:
		out := reflect.New(v.Type()).Elem()
		for i := 0; i < v.NumField(); i++ {
			if v.Type().Field(i).IsExported() {
				out.Field(i).Set(deepClone(v.Field(i)))
			}
		}
		return out
	case reflect.Array:
		out := reflect.New(v.Type()).Elem()
		for i := 0; i < v.Len(); i++ {
			out.Index(i).Set(deepClone(v.Index(i)))
		}
		return out
	case reflect.Ptr:
		if v.IsNil() {
			return reflect.Zero(v.Type())
		}
		out := reflect.New(v.Type().Elem())
		out.Elem().Set(deepClone(v.Elem()))
		return out
	}
	return v
}

// ByteTotal sums the lengths of all byte slices and strings below v.
func ByteTotal(v reflect.Value) int {
	switch v.Kind() {
	case reflect.Slice:
		if v.Type().Elem().Kind() == reflect.Uint8 {
			return v.Len()
		}
		n := 0
		for i := 0; i < v.Len(); i++ {
			n += ByteTotal(v.Index(i))
		}
		return n
	case reflect.String:
		return 2 * v.Len()
	case reflect.Struct:
		n := 0
		for i := 0; i < v.NumField(); i++ {
			n += ByteTotal(v.Field(i))
		}
		return n
	case reflect.Ptr:
		if !v.IsNil() {
			return ByteTotal(v.Elem())
		}
	}
	return 0
}

// Grow resizes the largest top-level byte-slice field of c by delta bytes and makes the
// structure consistent again (counts, alignment pads). It reports whether a field was resized.
func Grow(c ci.CommandInterface, rels []Relation, delta int) bool {
	v := reflect.ValueOf(c).Elem()
	t := v.Type()
	best, bestLen := -1, 0
	for i := 0; i < t.NumField(); i++ {
		sf := t.Field(i)
		if sf.IsExported() && sf.Type.Kind() == reflect.Slice && sf.Type.Elem().Kind() == reflect.Uint8 && v.Field(i).Len() > bestLen {
			best, bestLen = i, v.Field(i).Len()
		}
	}
	if best < 0 || bestLen+delta < 0 {
		return false
	}
	for _, r := range rels {
		if r.Slice == t.Field(best).Name && (r.Kind != "" || (r.Count == "" && !r.Rest)) {
			return false // fixed-size, pad or text field: not a free blob
		}
	}
	resize(v.Field(best), bestLen+delta)
	ApplyRelations(v, rels)
	AlignPads(c, rels)
	return true
}
