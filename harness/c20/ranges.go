package main

// Long-lived range objects whose bounds are edited IN PLACE between membership calls.
//
// One IPv4Range / IPv6Range (and one subnet *IPv4, one TCPPortRange) lives for the whole sequence. Between
// membership calls its bounds are changed the ways a caller can change them without giving the range new
// pointers: one octet/group of an end assigned (`rg.End.C = 1`), every field assigned, the address an end
// points to overwritten (`*rg.Start = *x`), the two pointers swapped, MaskBits alone changed; "new pointers" is
// the control. After every edit the range is probed at and around the old and the new bounds (old bound, new
// bound, +-1, a point between the old and the new bound, 0, the top address, seeded points), with a fresh probe
// object and with one long-lived probe object whose fields are assigned. Every answer is compared with the answer
// of a FRESH range (and fresh probe) holding the same values; the fresh answer itself is judged against
// arithmetic by the stateless cases of main.go, so a disagreement here is state carried inside the objects
// (bounds converted once and remembered, a memo keyed on pointer identity). The fresh-object comparison calls are
// made in batches (about every 80 edits), not between the steps: a memo of "the ends tested last" anywhere in the
// package would be reset by the comparison calls themselves if they were interleaved.

import (
	"fmt"
	"math/rand/v2"

	"github.com/TheManticoreProject/Manticore/network/ip"

	"verif/mon"
)

func setV4(x *ip.IPv4, v uint32) {
	x.A, x.B, x.C, x.D = uint8(v>>24), uint8(v>>16), uint8(v>>8), uint8(v)
}

func v4Probes(rng *rand.Rand, prevLo, prevHi, lo, hi uint32) []uint32 {
	mid := func(a, b uint32) uint32 { return uint32((uint64(a) + uint64(b)) / 2) }
	ps := []uint32{lo - 1, lo, lo + 1, hi - 1, hi, hi + 1, prevLo, prevHi, prevLo - 1, prevHi + 1, mid(prevLo, lo), mid(prevHi, hi), mid(lo, hi), mid(prevLo, prevHi), 0, 0xFFFFFFFF}
	if rng != nil {
		ps = append(ps, rng.Uint32(), lo+uint32(rng.IntN(512)), hi-uint32(rng.IntN(512)))
	}
	return ps
}

type v4RangeSeq struct {
	rg     *ip.IPv4Range
	sn     *ip.IPv4 // the same values used as a long-lived subnet: sn = (lo, bits)
	probe  *ip.IPv4 // long-lived probe object
	lo, hi uint32
	snBits int
	step   int

	freshProbe *ip.IPv4
	pending    []v4Obs
}

// v4Obs is what the long-lived objects answered for one probe; it is judged later, in a batch, so that no call on
// any other range / address object happens between the membership calls of one step and those of the next (a memo of
// "the ends tested last" would otherwise be reset by the comparison calls themselves).
type v4Obs struct {
	step                               int
	kind                               string
	prevLo, prevHi, lo, hi, n          uint32
	snBits, mbStart, mbEnd             int
	got, gotReused, gotInRange, gotSub bool
	str                                string
	modified                           string
	panicked                           bool
	panicVal                           any
	panicAt                            string
}

// probeAll asks the long-lived range (and IsInRange on its long-lived ends, IsInSubnet on the long-lived subnet)
// about every probe. Only the long-lived objects are touched here.
func (q *v4RangeSeq) probeAll(rng *rand.Rand, kind string, prevLo, prevHi uint32) {
	for _, n := range v4Probes(rng, prevLo, prevHi, q.lo, q.hi) {
		o := v4Obs{step: q.step, kind: kind, prevLo: prevLo, prevHi: prevHi, lo: q.lo, hi: q.hi, n: n, snBits: q.snBits, mbStart: int(q.rg.Start.MaskBits), mbEnd: int(q.rg.End.MaskBits)}
		q.freshProbe.A, q.freshProbe.B, q.freshProbe.C, q.freshProbe.D = uint8(n>>24), uint8(n>>16), uint8(n>>8), uint8(n)
		fp := *q.freshProbe // a probe object never seen by the library before (a copy made here, not by a library call)
		o.panicked, o.panicVal, o.panicAt = mon.Guard(func() {
			o.got = q.rg.Contains(&fp)
			setV4(q.probe, n)
			o.gotReused = q.rg.Contains(q.probe)
			o.gotInRange = fp.IsInRange(q.rg.Start, q.rg.End)
			o.str = q.rg.String()
			o.gotSub = fp.IsInSubnet(q.sn)
		})
		if o.panicked {
			o.panicAt = mon.TopLibFrame(o.panicAt)
		}
		// plain field reads, no library call
		if s, e := q.rg.Start, q.rg.End; v4val(s) != q.lo || v4val(e) != q.hi || v4val(q.sn) != q.lo || int(q.sn.MaskBits) != q.snBits {
			o.modified = fmt.Sprintf("%s - %s, subnet %s", v4fields(s), v4fields(e), v4fields(q.sn))
			setV4(q.rg.Start, q.lo)
			setV4(q.rg.End, q.hi)
			setV4(q.sn, q.lo)
			q.sn.MaskBits = uint8(q.snBits)
		}
		q.pending = append(q.pending, o)
	}
	if len(q.pending) >= 1500 {
		q.judge()
	}
}

func v4val(x *ip.IPv4) uint32 {
	return uint32(x.A)<<24 | uint32(x.B)<<16 | uint32(x.C)<<8 | uint32(x.D)
}

// judge compares the pending observations with fresh objects holding the same values.
func (q *v4RangeSeq) judge() {
	for _, o := range q.pending {
		cs := map[string]any{"step": o.step, "edit": o.kind, "range_now": dotted(o.lo) + " - " + dotted(o.hi), "range_before_the_edit": dotted(o.prevLo) + " - " + dotted(o.prevHi), "probe": dotted(o.n), "subnet_now": fmt.Sprintf("%s/%d", dotted(o.lo), o.snBits)}
		r.Eval(5)
		if o.panicked {
			r.Violation("ip.IPv4Range.in-place-edit:panic:"+mon.PanicClass(o.panicVal)+":"+o.panicAt, fmt.Sprintf("panic %v", o.panicVal), cs)
			continue
		}
		var want, wantSub bool
		var wantStr string
		p, pv, st := mon.Guard(func() {
			fresh := &ip.IPv4Range{Start: lib4(o.lo, o.mbStart), End: lib4(o.hi, o.mbEnd)} // MaskBits is no bound but is printed
			want = fresh.Contains(lib4(o.n, 24))
			wantStr = fresh.String()
			wantSub = lib4(o.n, 9).IsInSubnet(lib4(o.lo, o.snBits))
		})
		if p {
			r.Violation("ip.IPv4Range.in-place-edit:panic:"+mon.PanicClass(pv)+":"+mon.TopLibFrame(st), fmt.Sprintf("panic %v on fresh objects", pv), cs)
			continue
		}
		if o.got != want {
			r.Violation("ip.IPv4Range.Contains:in-place-edit:"+o.kind, fmt.Sprintf("a range that held %s - %s and was edited in place (%s) to %s - %s: Contains(%s) = %v, a fresh range with the same ends says %v", dotted(o.prevLo), dotted(o.prevHi), o.kind, dotted(o.lo), dotted(o.hi), dotted(o.n), o.got, want), cs)
		} else if o.gotReused != want {
			r.Violation("ip.IPv4Range.Contains:in-place-edit:probe", fmt.Sprintf("range %s - %s: Contains of a long-lived probe object whose octets were assigned to %s = %v, of a fresh probe %v", dotted(o.lo), dotted(o.hi), dotted(o.n), o.gotReused, want), cs)
		}
		if o.gotInRange != want {
			r.Violation("ip.IPv4.IsInRange:in-place-edit:"+o.kind, fmt.Sprintf("IsInRange on two long-lived ends edited in place (%s) to %s - %s: %s gives %v, fresh ends give %v", o.kind, dotted(o.lo), dotted(o.hi), dotted(o.n), o.gotInRange, want), cs)
		}
		if o.str != wantStr {
			r.Violation("ip.IPv4Range.String:in-place-edit", fmt.Sprintf("after %s String() = %q, a fresh range with the same ends prints %q", o.kind, o.str, wantStr), cs)
		}
		if o.gotSub != wantSub {
			r.Violation("ip.IPv4.IsInSubnet:in-place-edit:"+o.kind, fmt.Sprintf("a long-lived subnet object edited in place (%s) to %s/%d: %s inside = %v, a fresh subnet object says %v", o.kind, dotted(o.lo), o.snBits, dotted(o.n), o.gotSub, wantSub), cs)
		}
		if o.modified != "" {
			r.Violation("ip.IPv4Range.Contains:operand-modified", fmt.Sprintf("after the membership calls the range reads %s, it was set to %s - %s", o.modified, dotted(o.lo), dotted(o.hi)), cs)
		}
	}
	q.pending = q.pending[:0]
}

var v4EditKinds = []string{"end-octet", "start-octet", "assign-through-pointers", "all-octets", "swap-pointers", "maskbits-only", "new-pointers"}

// edit brings the range to new bounds the way `kind` says and keeps the bookkeeping (lo, hi) in step.
func (q *v4RangeSeq) edit(kind string, a, b uint32, k int) {
	switch kind {
	case "end-octet": // one octet of the end, nothing else
		sh := uint(8 * (k % 4))
		q.hi = q.hi&^(0xFF<<sh) | (b>>sh&0xFF)<<sh
		switch k % 4 {
		case 0:
			q.rg.End.D = uint8(q.hi)
		case 1:
			q.rg.End.C = uint8(q.hi >> 8)
		case 2:
			q.rg.End.B = uint8(q.hi >> 16)
		case 3:
			q.rg.End.A = uint8(q.hi >> 24)
		}
	case "start-octet":
		sh := uint(8 * (k % 4))
		q.lo = q.lo&^(0xFF<<sh) | (a>>sh&0xFF)<<sh
		switch k % 4 {
		case 0:
			q.rg.Start.D = uint8(q.lo)
		case 1:
			q.rg.Start.C = uint8(q.lo >> 8)
		case 2:
			q.rg.Start.B = uint8(q.lo >> 16)
		case 3:
			q.rg.Start.A = uint8(q.lo >> 24)
		}
		setV4(q.sn, q.lo)
	case "assign-through-pointers":
		q.lo, q.hi = a, b
		*q.rg.Start = *lib4(a, 12)
		*q.rg.End = *lib4(b, 12)
		q.snBits = k % 33
		*q.sn = *lib4(a, q.snBits)
	case "all-octets":
		q.lo, q.hi = a, b
		setV4(q.rg.Start, a)
		setV4(q.rg.End, b)
		setV4(q.sn, a)
	case "swap-pointers": // the same two pointers, the other way round
		q.rg.Start, q.rg.End = q.rg.End, q.rg.Start
		q.lo, q.hi = q.hi, q.lo
		setV4(q.sn, q.lo)
	case "maskbits-only": // not part of a range bound; is the whole of a subnet's extent
		q.rg.Start.MaskBits = uint8(k % 33)
		q.rg.End.MaskBits = uint8((k * 7) % 33)
		q.snBits = (q.snBits + 1 + k%31) % 33
		q.sn.MaskBits = uint8(q.snBits)
	case "new-pointers": // control: what a pointer-keyed memo handles
		q.lo, q.hi = a, b
		q.rg.Start, q.rg.End = lib4(a, 24), lib4(b, 24)
		q.snBits = k % 33
		q.sn = lib4(a, q.snBits)
	}
}

func v4RangeEdits() {
	rng := r.Rand("state-ranges-v4")
	q := &v4RangeSeq{rg: &ip.IPv4Range{Start: lib4(0x0A000000, 8), End: lib4(0x0A0000FF, 8)}, sn: lib4(0x0A000000, 24), probe: lib4(0, 0), freshProbe: lib4(0, 24), lo: 0x0A000000, hi: 0x0A0000FF, snBits: 24}
	q.probeAll(nil, "fresh", q.lo, q.hi)
	// the fixed script first: widen by one octet of the end, move the window through the pointers, narrow to one
	// address, empty range (start above end), whole space, swap, new pointers, then edits again on the new pointers
	type ed struct {
		kind string
		a, b uint32
		k    int
	}
	script := []ed{
		{"end-octet", 0, 0x00000100, 1}, {"assign-through-pointers", 0xAC100000, 0xAC1FFFFF, 12}, {"start-octet", 0xAC180000, 0, 2}, {"all-octets", 0xC0A80101, 0xC0A80101, 0},
		{"all-octets", 0xC0A80200, 0xC0A80100, 0}, {"swap-pointers", 0, 0, 0}, {"assign-through-pointers", 0, 0xFFFFFFFF, 0}, {"maskbits-only", 0, 0, 5}, {"end-octet", 0, 0x7F000000, 3},
		{"start-octet", 0x0000FF00, 0, 1}, {"new-pointers", 0xC0A80100, 0xC0A801FF, 24}, {"end-octet", 0, 0x00000300, 1}, {"assign-through-pointers", 0x0A000000, 0x0A0000FF, 8}, {"end-octet", 0, 0x00000100, 1},
		{"assign-through-pointers", 0xFFFFFFFF, 0xFFFFFFFF, 32}, {"assign-through-pointers", 0, 0, 0}, {"all-octets", 0x7FFFFFFF, 0x80000000, 1}, {"swap-pointers", 0, 0, 0}, {"swap-pointers", 0, 0, 0},
	}
	for _, e := range script {
		q.step++
		pl, ph := q.lo, q.hi
		q.edit(e.kind, e.a, e.b, e.k)
		q.probeAll(nil, e.kind, pl, ph)
		r.Nontrivial(fmt.Sprintf("v4rangeedit|%d|%s|%d|%d", q.step, e.kind, q.lo, q.hi))
	}
	for i := 0; i < r.Pick(8000, 80000); i++ {
		q.step++
		kind := v4EditKinds[rng.IntN(len(v4EditKinds))]
		if kind == "new-pointers" && rng.IntN(4) != 0 {
			kind = "assign-through-pointers" // mostly keep the same pointers alive
		}
		a, b := rng.Uint32(), rng.Uint32()
		switch rng.IntN(4) {
		case 0: // a window close to the one the range holds now
			a, b = q.lo+uint32(rng.IntN(1024))-512, q.hi+uint32(rng.IntN(1024))-512
		case 1:
			if a > b {
				a, b = b, a
			}
		case 2:
			b = a + uint32(rng.IntN(70000))
		}
		pl, ph := q.lo, q.hi
		q.edit(kind, a, b, rng.IntN(1000))
		q.probeAll(rng, kind, pl, ph)
		if i%40 == 0 {
			r.Nontrivial(fmt.Sprintf("v4rangeedit|%d|%s|%d|%d", q.step, kind, q.lo, q.hi))
		}
	}
	q.judge()
}

// ---------------------------------------------------------------- IPv6

func v6Step(a v6, d int64) v6 { // a + d on the low 64 bits with carry into the high ones; enough for +-1 and small windows
	var w [8]uint32
	for i, g := range a {
		w[i] = uint32(g)
	}
	neg := d < 0
	m := uint64(d)
	if neg {
		m = uint64(-d)
	}
	for i := 7; i >= 0 && m != 0; i-- {
		part := uint32(m & 0xFFFF)
		m >>= 16
		if !neg {
			s := w[i] + part
			w[i] = s & 0xFFFF
			m += uint64(s >> 16)
		} else {
			if w[i] >= part {
				w[i] -= part
			} else {
				w[i] = w[i] + 0x10000 - part
				m++
			}
		}
	}
	var out v6
	for i := range out {
		out[i] = uint16(w[i])
	}
	return out
}

var v6EditKinds = []string{"end-group", "start-group", "assign-through-pointers", "all-groups", "swap-pointers", "new-pointers"}

func setV6(x *ip.IPv6, a v6) {
	x.A, x.B, x.C, x.D, x.E, x.F, x.G, x.H = a[0], a[1], a[2], a[3], a[4], a[5], a[6], a[7]
}

func setV6Group(x *ip.IPv6, g int, v uint16) {
	switch g {
	case 0:
		x.A = v
	case 1:
		x.B = v
	case 2:
		x.C = v
	case 3:
		x.D = v
	case 4:
		x.E = v
	case 5:
		x.F = v
	case 6:
		x.G = v
	case 7:
		x.H = v
	}
}

type v6Obs struct {
	step                   int
	kind                   string
	prevLo, prevHi, lo, hi v6
	x                      v6
	got, gotReused         bool
	gotInRange             bool
	str, modified          string
	panicked               bool
	panicVal               any
	panicAt                string
}

func v6of(x *ip.IPv6) v6 { return v6{x.A, x.B, x.C, x.D, x.E, x.F, x.G, x.H} }

// judgeV6 compares what the long-lived range answered with fresh objects holding the same values (in a batch, see v4Obs).
func judgeV6(pending []v6Obs) {
	for _, o := range pending {
		cs := map[string]any{"step": o.step, "edit": o.kind, "range_now": o.lo.full("%x") + " - " + o.hi.full("%x"), "range_before_the_edit": o.prevLo.full("%x") + " - " + o.prevHi.full("%x"), "probe": o.x.full("%x")}
		r.Eval(4)
		if o.panicked {
			r.Violation("ip.IPv6Range.in-place-edit:panic:"+mon.PanicClass(o.panicVal)+":"+o.panicAt, fmt.Sprintf("panic %v", o.panicVal), cs)
			continue
		}
		var want bool
		var wantStr string
		p, pv, st := mon.Guard(func() {
			fresh := &ip.IPv6Range{Start: o.lo.lib(), End: o.hi.lib()}
			want = fresh.Contains(o.x.lib())
			wantStr = fresh.String()
		})
		if p {
			r.Violation("ip.IPv6Range.in-place-edit:panic:"+mon.PanicClass(pv)+":"+mon.TopLibFrame(st), fmt.Sprintf("panic %v on fresh objects", pv), cs)
			continue
		}
		if o.got != want {
			r.Violation("ip.IPv6Range.Contains:in-place-edit:"+o.kind, fmt.Sprintf("a range that held %s - %s and was edited in place (%s) to %s - %s: Contains(%s) = %v, a fresh range with the same ends says %v", o.prevLo.addr(), o.prevHi.addr(), o.kind, o.lo.addr(), o.hi.addr(), o.x.addr(), o.got, want), cs)
		} else if o.gotReused != want {
			r.Violation("ip.IPv6Range.Contains:in-place-edit:probe", fmt.Sprintf("range %s - %s: Contains of a long-lived probe object whose groups were assigned to %s = %v, of a fresh probe %v", o.lo.addr(), o.hi.addr(), o.x.addr(), o.gotReused, want), cs)
		}
		if o.gotInRange != want {
			r.Violation("ip.IPv6.IsInRange:in-place-edit:"+o.kind, fmt.Sprintf("IsInRange on two long-lived ends edited in place (%s) to %s - %s: %s gives %v, fresh ends give %v", o.kind, o.lo.addr(), o.hi.addr(), o.x.addr(), o.gotInRange, want), cs)
		}
		if o.str != wantStr {
			r.Violation("ip.IPv6Range.String:in-place-edit", fmt.Sprintf("after %s String() = %q, a fresh range with the same ends prints %q", o.kind, o.str, wantStr), cs)
		}
		if o.modified != "" {
			r.Violation("ip.IPv6Range.Contains:operand-modified", fmt.Sprintf("after the membership calls the range reads %s, it was set to %s - %s", o.modified, o.lo.addr(), o.hi.addr()), cs)
		}
	}
}

func v6RangeEdits() {
	rng := r.Rand("state-ranges-v6")
	lo, hi := v6{0x2001, 0xdb8, 0, 0, 0, 0, 0, 0}, v6{0x2001, 0xdb8, 0, 0, 0, 0, 0, 0xFFFF}
	rg := &ip.IPv6Range{Start: lo.lib(), End: hi.lib()}
	probe := (v6{}).lib()
	type ed struct {
		kind string
		a, b v6
		g    int
	}
	top := v6{0xFFFF, 0xFFFF, 0xFFFF, 0xFFFF, 0xFFFF, 0xFFFF, 0xFFFF, 0xFFFF}
	script := []ed{
		{"fresh", lo, hi, 0},
		{"end-group", v6{}, v6{0, 0, 0, 0, 0, 0, 1, 0}, 6}, {"assign-through-pointers", v6{0xfe80, 0, 0, 0, 0, 0, 0, 0}, v6{0xfe80, 0, 0, 0, 0xFFFF, 0xFFFF, 0xFFFF, 0xFFFF}, 0},
		{"start-group", v6{0, 0, 0, 0, 0x8000, 0, 0, 0}, v6{}, 4}, {"all-groups", v6{1, 0, 0, 0, 0x7fff, 0xffff, 0xffff, 0xffff}, v6{1, 0, 0, 1, 0, 0, 0, 0}, 0},
		{"end-group", v6{}, v6{0, 0, 0, 0, 0, 0, 0, 0}, 3}, {"swap-pointers", v6{}, v6{}, 0}, {"assign-through-pointers", v6{}, top, 0}, {"end-group", v6{}, v6{0x7FFF, 0, 0, 0, 0, 0, 0, 0}, 0},
		{"new-pointers", v6{0x2001, 0xdb8, 1, 0, 0, 0, 0, 0}, v6{0x2001, 0xdb8, 1, 0, 0, 0, 0, 0xFF}, 0}, {"end-group", v6{}, v6{0, 0, 0, 0, 0, 0, 0, 0x1FF}, 7}, {"assign-through-pointers", top, top, 0}, {"assign-through-pointers", v6{}, v6{}, 0},
	}
	n := r.Pick(6000, 60000)
	var pending []v6Obs
	defer func() { judgeV6(pending) }()
	for i := 0; i < len(script)+n; i++ {
		prevLo, prevHi := lo, hi
		var e ed
		if i < len(script) {
			e = script[i]
		} else {
			e = ed{kind: v6EditKinds[rng.IntN(len(v6EditKinds))], a: randV6(rng), b: randV6(rng), g: rng.IntN(8)}
			if e.kind == "new-pointers" && rng.IntN(4) != 0 {
				e.kind = "assign-through-pointers"
			}
			switch rng.IntN(4) {
			case 0:
				e.a, e.b = v6Step(lo, int64(rng.IntN(1024))-512), v6Step(hi, int64(rng.IntN(1024))-512)
			case 1:
				e.b = v6Step(e.a, int64(rng.IntN(1<<20)))
			case 2:
				if e.a.addr().Compare(e.b.addr()) > 0 {
					e.a, e.b = e.b, e.a
				}
			}
		}
		switch e.kind {
		case "end-group":
			hi[e.g] = e.b[e.g]
			setV6Group(rg.End, e.g, hi[e.g])
		case "start-group":
			lo[e.g] = e.a[e.g]
			setV6Group(rg.Start, e.g, lo[e.g])
		case "assign-through-pointers":
			lo, hi = e.a, e.b
			*rg.Start = *lo.lib()
			*rg.End = *hi.lib()
		case "all-groups":
			lo, hi = e.a, e.b
			setV6(rg.Start, lo)
			setV6(rg.End, hi)
		case "swap-pointers":
			rg.Start, rg.End = rg.End, rg.Start
			lo, hi = hi, lo
		case "new-pointers":
			lo, hi = e.a, e.b
			rg.Start, rg.End = lo.lib(), hi.lib()
		}
		probes := []v6{v6Step(lo, -1), lo, v6Step(lo, 1), v6Step(hi, -1), hi, v6Step(hi, 1), prevLo, prevHi, v6Step(prevLo, -1), v6Step(prevHi, 1), {}, top}
		// a point between the old and the new end: the old end with the first differing group set halfway
		for _, pr := range [][2]v6{{prevLo, lo}, {prevHi, hi}, {lo, hi}} {
			m := pr[0]
			for g := range m {
				if pr[0][g] != pr[1][g] {
					m[g] = uint16((uint32(pr[0][g]) + uint32(pr[1][g])) / 2)
					break
				}
			}
			probes = append(probes, m)
		}
		if i >= len(script) {
			probes = append(probes, randV6(rng), v6Step(lo, int64(rng.IntN(4096))), v6Step(hi, -int64(rng.IntN(4096))))
		}
		for _, x := range probes {
			o := v6Obs{step: i, kind: e.kind, prevLo: prevLo, prevHi: prevHi, lo: lo, hi: hi, x: x}
			fp := ip.IPv6{A: x[0], B: x[1], C: x[2], D: x[3], E: x[4], F: x[5], G: x[6], H: x[7]} // built here, not by a library call
			o.panicked, o.panicVal, o.panicAt = mon.Guard(func() {
				o.got = rg.Contains(&fp)
				setV6(probe, x)
				o.gotReused = rg.Contains(probe)
				o.gotInRange = fp.IsInRange(rg.Start, rg.End)
				o.str = rg.String()
			})
			if o.panicked {
				o.panicAt = mon.TopLibFrame(o.panicAt)
			}
			if v6of(rg.Start) != lo || v6of(rg.End) != hi { // plain field reads
				o.modified = fmt.Sprintf("%x - %x", *rg.Start, *rg.End)
				setV6(rg.Start, lo)
				setV6(rg.End, hi)
			}
			pending = append(pending, o)
		}
		if len(pending) >= 1500 {
			judgeV6(pending)
			pending = pending[:0]
		}
		if i < len(script) || i%40 == 0 {
			r.Nontrivial(fmt.Sprintf("v6rangeedit|%d|%s|%s|%s", i, e.kind, lo.full("%x"), hi.full("%x")))
		}
	}
}

// A TCPPortRange has no membership method; its only reading is String(). One object, overwritten through the
// pointer and field by field between readings, against a fresh object with the same values.
func portRangeEdits() {
	rng := r.Rand("state-ranges-ports")
	pr := ip.NewTCPPortRange(1, 1024)
	_ = pr.String()
	for i := 0; i < r.Pick(4000, 40000); i++ {
		a, b := uint16(rng.IntN(65536)), uint16(rng.IntN(65536))
		if i < 6 {
			a, b = []uint16{0, 65535, 0, 80, 443, 1}[i], []uint16{0, 65535, 65535, 80, 80, 1024}[i]
		}
		kind := []string{"assign-through-pointer", "end-field", "start-field"}[i%3]
		p, pv, st := mon.Guard(func() {
			switch kind {
			case "assign-through-pointer":
				*pr = *ip.NewTCPPortRange(a, b)
			case "end-field":
				a = pr.Start
				pr.End = b
			case "start-field":
				b = pr.End
				pr.Start = a
			}
			r.Eval(1)
			if got, want := pr.String(), ip.NewTCPPortRange(a, b).String(); got != want {
				r.Violation("ip.TCPPortRange.String:in-place-edit:"+kind, fmt.Sprintf("a long-lived port range edited in place (%s) to %d-%d prints %q, a fresh one %q", kind, a, b, got, want), map[string]any{"start": a, "end": b, "edit": kind})
			}
		})
		if p {
			r.Violation("ip.TCPPortRange.in-place-edit:panic:"+mon.PanicClass(pv)+":"+mon.TopLibFrame(st), fmt.Sprintf("panic %v", pv), map[string]any{"start": a, "end": b})
		}
		if i%100 == 0 {
			r.Nontrivial(fmt.Sprintf("portrangeedit|%d|%d|%d", i, a, b))
		}
	}
}

func rangeEditWorkload() {
	v4RangeEdits()
	v6RangeEdits()
	portRangeEdits()
}
