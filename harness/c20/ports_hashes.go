package main

import (
	"fmt"
	"strconv"
	"strings"
	"sync"
	"unicode"

	"github.com/TheManticoreProject/Manticore/network/ip"
	"github.com/TheManticoreProject/Manticore/windows/credentials"

	"verif/mon"
)

// ---------------------------------------------------------------- port ranges

func portPair(a, b int) {
	cs := map[string]any{"start": a, "end": b}
	p, pv, st := mon.Guard(func() {
		x := ip.NewTCPPortRange(uint16(a), uint16(b))
		txt := x.String()
		want := strconv.Itoa(a) + "-" + strconv.Itoa(b)
		if txt != want {
			r.Violation("ip.TCPPortRange.String:value", fmt.Sprintf("String()=%q want %q", txt, want), cs)
		}
		back, err := ip.NewTCPPortRangeFromString(txt)
		r.Eval(2)
		switch {
		case err != nil || back == nil:
			r.Violation("ip.NewTCPPortRangeFromString:rejects-valid", fmt.Sprintf("NewTCPPortRangeFromString(%q): %v", txt, err), cs)
		case int(back.Start) != a || int(back.End) != b:
			r.Violation("ip.NewTCPPortRangeFromString:value", fmt.Sprintf("NewTCPPortRangeFromString(%q) = %d-%d", txt, back.Start, back.End), cs)
		}
	})
	if p {
		r.Violation("ip.TCPPortRange:panic:"+mon.PanicClass(pv)+":"+mon.TopLibFrame(st), fmt.Sprintf("panic %v on %d-%d", pv, a, b), cs)
	}
	r.Nontrivial(fmt.Sprintf("port|%d|%d", a, b))
}

func portInvalid(s, class string) {
	var got *ip.TCPPortRange
	var err error
	p, pv, st := mon.Guard(func() { got, err = ip.NewTCPPortRangeFromString(s) })
	r.Eval(1)
	cs := map[string]any{"text": s, "class": class}
	if p {
		r.Violation("ip.NewTCPPortRangeFromString:panic:"+mon.PanicClass(pv), fmt.Sprintf("panic %v at %s on %q", pv, mon.TopLibFrame(st), s), cs)
	} else if err == nil {
		r.Violation("ip.NewTCPPortRangeFromString:accepts-invalid:"+class, fmt.Sprintf("NewTCPPortRangeFromString(%q) = %v", s, got), cs)
	}
	r.Nontrivial("portbad|" + s)
}

func portWorkload() {
	rng := r.Rand("ports")
	bset := []int{0, 1, 9, 10, 99, 100, 999, 1000, 9999, 10000, 59999, 60000, 64999, 65000, 65499, 65500, 65529, 65530, 65534, 65535}
	for _, a := range bset {
		for _, b := range bset {
			portPair(a, b)
		}
	}
	// every value as start and as end (the parser compiles a 16-bit decimal grammar; walk all of it)
	var wg sync.WaitGroup
	for w := 0; w < 16; w++ {
		wg.Add(1)
		go func(w int) {
			defer wg.Done()
			for v := w; v <= 65535; v += 16 {
				portPair(v, 65535-v/2)
				portPair((v*7)%65536, v)
			}
		}(w)
	}
	wg.Wait()
	for t := 0; t < r.Pick(5000, 100000); t++ {
		portPair(rng.IntN(65536), rng.IntN(65536))
	}
	r.Sample(map[string]any{"kind": "port-range", "value": "65530-65535", "round_trip": true})
	// refused texts
	for v := 65536; v <= 65536+r.Pick(500, 40000); v++ {
		portInvalid(fmt.Sprintf("%d-80", v), "out-of-range")
		portInvalid(fmt.Sprintf("80-%d", v), "out-of-range")
	}
	for _, s := range []string{"99999-1", "1-99999", "100000-1", "1-655350", "4294967296-1", "1-18446744073709551616"} {
		portInvalid(s, "out-of-range")
	}
	for _, s := range []string{"", "-", "80", "80-", "-80", "80--90", "80-90-100", "a-b", "80-9o", "0x50-90", "80_90", "80:90", "80,90", "8 0-90", "-1-5", "1-+5", "1.5-2", "١-٢"} {
		portInvalid(s, "syntax")
	}
	// not demanded either way (blanks, leading zeros): only no panic
	for _, s := range []string{" 80-90", "80-90 ", "80 - 90", "080-90", "80-090", "00-0", "\t1-2\n"} {
		p, pv, st := mon.Guard(func() { ip.NewTCPPortRangeFromString(s) })
		r.Eval(1)
		if p {
			r.Violation("ip.NewTCPPortRangeFromString:panic:"+mon.PanicClass(pv), fmt.Sprintf("panic %v at %s on %q", pv, mon.TopLibFrame(st), s), map[string]any{"text": s})
		}
	}
}

// ---------------------------------------------------------------- LM:NT hash specifications

// refParseHashes is the independent reading of a hash specification: trim, then
// ""            -> no hashes
// H             -> NT = H
// :H            -> NT = H
// H1:H2         -> LM = H1, NT = H2
// H1:           -> LM = H1 (not demanded: may be refused)
// anything else -> malformed
func refParseHashes(s string) (lm, nt string, class string) {
	t := strings.TrimFunc(s, unicode.IsSpace)
	isH := func(x string) bool {
		if len(x) != 32 {
			return false
		}
		for _, c := range x {
			if !(c >= '0' && c <= '9' || c >= 'a' && c <= 'f' || c >= 'A' && c <= 'F') {
				return false
			}
		}
		return true
	}
	if t == "" {
		return "", "", "valid"
	}
	i := strings.IndexByte(t, ':')
	if i < 0 {
		if isH(t) {
			return "", t, "valid"
		}
		return "", "", "malformed"
	}
	l, n := t[:i], t[i+1:]
	switch {
	case l == "" && isH(n):
		return "", n, "valid"
	case isH(l) && isH(n):
		return l, n, "valid"
	case isH(l) && n == "":
		return l, "", "lm-only"
	}
	return "", "", "malformed"
}

var spaceNames = map[string]string{"": "none", " ": "sp", "\t": "tab", "\r": "cr", "\n": "lf", "\r\n": "crlf", "\v": "vt", "\f": "ff", "\u00a0": "nbsp", "\u0085": "nel", "\u2003": "emsp", "\u3000": "idsp", "\u2028": "ls", " \t ": "mixed", "   ": "sp3", "\u00a0\u2003": "nbsp+emsp"}

func hashCase(spec, form, wsLead, wsTrail string) {
	wantLM, wantNT, class := refParseHashes(spec)
	cs := map[string]any{"spec": spec, "spec_hex": mon.FullHex([]byte(spec)), "form": form, "leading": spaceNames[wsLead], "trailing": spaceNames[wsTrail]}
	where := "none"
	switch {
	case wsLead != "" && wsTrail != "":
		where = "both"
	case wsLead != "":
		where = "leading"
	case wsTrail != "":
		where = "trailing"
	}
	judge := func(entry, lm, nt string, err error) {
		switch class {
		case "valid":
			switch {
			case err != nil:
				r.Violation(entry+":rejects-valid", fmt.Sprintf("%q (%s, %s space %s) refused: %v", spec, form, where, spaceNames[wsLead]+"/"+spaceNames[wsTrail], err), cs)
			case wantLM != "" && lm == "":
				r.Violation(entry+":drops-hash:lm", fmt.Sprintf("%q (%s, white space: %s): LM hash silently discarded (got LM=%q NT=%q)", spec, form, where, lm, nt), cs)
			case wantNT != "" && nt == "":
				r.Violation(entry+":drops-hash:nt", fmt.Sprintf("%q (%s, white space: %s): NT hash silently discarded (got LM=%q NT=%q)", spec, form, where, lm, nt), cs)
			case !strings.EqualFold(lm, wantLM) || !strings.EqualFold(nt, wantNT):
				r.Violation(entry+":value", fmt.Sprintf("%q: got LM=%q NT=%q want LM=%q NT=%q", spec, lm, nt, wantLM, wantNT), cs)
			}
		case "lm-only":
			if err == nil && (!strings.EqualFold(lm, wantLM) || nt != "") {
				r.Violation(entry+":value", fmt.Sprintf("%q: got LM=%q NT=%q want LM=%q and no NT, or an error", spec, lm, nt, wantLM), cs)
			}
		case "malformed":
			if err == nil {
				r.Violation(entry+":accepts-invalid", fmt.Sprintf("%q is not a hash specification but was accepted as LM=%q NT=%q", spec, lm, nt), cs)
			}
		}
	}
	p, pv, st := mon.Guard(func() {
		lm, nt, err := credentials.ParseLMNTHashes(spec)
		r.Eval(1)
		judge("credentials.ParseLMNTHashes", lm, nt, err)
		c, err := credentials.NewCredentials("DOM", "user", "pw", spec)
		r.Eval(1)
		if err == nil && c == nil {
			r.Violation("credentials.NewCredentials:nil", "nil credentials without error", cs)
			return
		}
		if err != nil {
			judge("credentials.NewCredentials", "", "", err)
		} else {
			judge("credentials.NewCredentials", c.GetLMHash(), c.GetNTHash(), nil)
			if c.Domain != "DOM" || c.Username != "user" || c.Password != "pw" {
				r.Violation("credentials.NewCredentials:fields", fmt.Sprintf("identity fields altered: %+v", *c), cs)
			}
		}
	})
	if p {
		r.Violation("credentials.ParseLMNTHashes:panic:"+mon.PanicClass(pv), fmt.Sprintf("panic %v at %s on %q", pv, mon.TopLibFrame(st), spec), cs)
	}
	r.Nontrivial(fmt.Sprintf("hash|%s|%s|%s|%d", form, spaceNames[wsLead], spaceNames[wsTrail], len(spec)))
}

func hashWorkload() {
	rng := r.Rand("hashes")
	spaces := []string{"", " ", "\t", "\r", "\n", "\r\n", "\v", "\f", "\u00a0", "\u0085", "\u2003", "\u3000", "\u2028", " \t ", "   ", "\u00a0\u2003"}
	hexd := "0123456789abcdef"
	mk := func(seedFixed int) string {
		b := make([]byte, 32)
		for i := range b {
			if seedFixed >= 0 {
				b[i] = hexd[(i*7+seedFixed)%16]
			} else {
				b[i] = hexd[rng.IntN(16)]
			}
		}
		return string(b)
	}
	recase := func(s string, mode int) string {
		switch mode {
		case 1:
			return strings.ToUpper(s)
		case 2:
			b := []byte(s)
			for i := range b {
				if i%2 == 0 {
					b[i] = byte(unicode.ToUpper(rune(b[i])))
				}
			}
			return string(b)
		}
		return s
	}
	caseName := []string{"lower", "upper", "mixed"}
	run := func(lm, nt string) {
		forms := map[string]string{"LM:NT": lm + ":" + nt, ":NT": ":" + nt, "NT": nt, "LM:": lm + ":", "empty": ""}
		for _, fname := range []string{"LM:NT", ":NT", "NT", "LM:", "empty"} {
			for cm := 0; cm < 3; cm++ {
				body := recase(forms[fname], cm)
				for _, a := range spaces {
					for _, b := range spaces {
						hashCase(a+body+b, fname+"/"+caseName[cm], a, b)
					}
				}
			}
		}
	}
	run("aad3b435b51404eeaad3b435b51404ee", "31d6cfe0d16ae931b73c59d7e0c089c0")
	run(mk(3), mk(10))
	// long runs of white space around a specification (a pasted column, a file with trailing
	// blanks): as much not part of the hashes as one blank is
	long := map[string]string{strings.Repeat(" ", 31): "sp31", strings.Repeat(" ", 32): "sp32", strings.Repeat(" ", 64): "sp64", strings.Repeat(" ", 127): "sp127", strings.Repeat("\t", 200): "tab200",
		strings.Repeat("\u3000", 22): "idsp22", strings.Repeat("\r\n", 500): "crlf500", strings.Repeat(" ", 70000): "sp70000"}
	for w, name := range long {
		spaceNames[w] = name
	}
	for _, fname := range []string{"LM:NT", ":NT", "NT"} {
		body := map[string]string{"LM:NT": mk(1) + ":" + mk(2), ":NT": ":" + mk(4), "NT": mk(6)}[fname]
		for w := range long {
			hashCase(w+body, fname+"/lower", w, "")
			hashCase(body+w, fname+"/lower", "", w)
			hashCase(w+strings.ToUpper(body)+w, fname+"/upper", w, w)
		}
	}
	// ties between the two halves: the same 32 digits on both sides, halves that differ in one
	// digit or only in letter case, one half inside the other's text (a half is a field, not a
	// substring to search for)
	same := mk(5)
	run(same, same)
	run(same, same[:31]+"0")
	run(strings.ToUpper(same), same)
	run("31d6cfe0d16ae931b73c59d7e0c089c0", "31d6cfe0d16ae931b73c59d7e0c089c0")
	run(strings.Repeat("0", 32), strings.Repeat("0", 32))
	run(strings.Repeat("ab", 16), strings.Repeat("ba", 16))
	for t := 0; t < r.Pick(3, 40); t++ {
		run(mk(-1), mk(-1))
	}
	r.Sample(map[string]any{"kind": "hash-spec", "spec": " aad3b435b51404eeaad3b435b51404ee:31d6cfe0d16ae931b73c59d7e0c089c0\n", "want_lm": "aad3b435b51404eeaad3b435b51404ee", "want_nt": "31d6cfe0d16ae931b73c59d7e0c089c0"})
	r.Sample(map[string]any{"kind": "hash-spec", "spec": "\t31D6CFE0D16AE931B73C59D7E0C089C0", "want_lm": "", "want_nt": "31d6cfe0d16ae931b73c59d7e0c089c0 (any case)"})
	// malformed specifications must be refused, not half-accepted
	h := "31d6cfe0d16ae931b73c59d7e0c089c0"
	for _, s := range []string{":", "::", h + ":" + h + ":" + h, h[:31], h + "0", h[:31] + "g", h[:31] + ":" + h, h + ":" + h[:31], h + " :" + h, h + ": " + h, h + ":" + h[:16] + " " + h[16:], ":" + h[:31], h + ":" + h + ":", ":" + h + ":" + h, h + "\n" + h, h + ":" + h + "\n" + h, "x" + h, h + ":" + h + "x", strings.Repeat("0", 64), "０" + h[1:]} {
		for _, a := range []string{"", " ", "\n"} {
			hashCase(a+s+a, "malformed", a, a)
		}
	}
}
