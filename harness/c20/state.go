package main

// State-carry-over and aliasing monitors for C20.
//
//	receiver/argument intact - after ComputeMask, CIDRMask, String, IsInSubnet, IsInRange, Contains the
//	                 receiver and every argument must be what they were (a mask computed in place breaks the
//	                 next membership test);
//	stale fields   - the fields of an IPv4 / IPv6 / TCPPortRange that was built or parsed earlier (and already
//	                 printed once) are assigned directly; every reading must show the current fields;
//	held outputs   - the objects returned by the parsers and by ComputeMask are kept (ring of 64) and compared
//	                 with a private copy after later calls (a parser that hands out a pooled object);
//	sequences      - each text is parsed right after neighbours that share part of it (same address other
//	                 prefix length, same prefix other address, same start other end port, same NT hash other LM
//	                 hash, other letter case / white space), then the first one again: a memo keyed too coarsely
//	                 answers with a neighbour's value;
//	concurrent     - 8 goroutines parse/print/test unrelated values and must get the single-caller values
//	                 (the reference values of net/netip and of the independent hash reading).

import (
	"fmt"
	"net/netip"
	"strings"
	"sync"

	"github.com/TheManticoreProject/Manticore/network/ip"
	"github.com/TheManticoreProject/Manticore/windows/credentials"

	"verif/mon"
)

type heldObj struct {
	entry, input string
	now          func() string // reads the object the library returned
	want         string
}

var (
	heldMu   sync.Mutex
	heldRing [64]*heldObj
	heldN    int
)

func verifyHeld(e *heldObj, when string) {
	if e == nil {
		return
	}
	r.Eval(1)
	if got := e.now(); got != e.want {
		r.Violation(e.entry+":held-output-changed", fmt.Sprintf("the object returned by %s for %s read %s when it was returned and reads %s %s", e.entry, e.input, e.want, got, when),
			map[string]any{"entry": e.entry, "input": e.input, "returned": e.want, "now": got, "when": when})
		e.want = got
	}
}

func hold(entry, input string, now func() string) {
	heldMu.Lock()
	defer heldMu.Unlock()
	e := &heldObj{entry: entry, input: input, now: now, want: now()}
	slot := heldN % len(heldRing)
	verifyHeld(heldRing[slot], "64 calls later")
	if heldN > 0 {
		verifyHeld(heldRing[(heldN-1)%len(heldRing)], "after the next call")
	}
	heldRing[slot] = e
	heldN++
}

func v4fields(x *ip.IPv4) string {
	if x == nil {
		return "<nil>"
	}
	return fmt.Sprintf("{%d %d %d %d /%d}", x.A, x.B, x.C, x.D, x.MaskBits)
}

func v6fields(x *ip.IPv6) string {
	if x == nil {
		return "<nil>"
	}
	return fmt.Sprintf("%x", *x)
}

// readV4 judges every reading of x, whose fields are supposed to be (v, bits); class = failure class.
func readV4(x *ip.IPv4, v uint32, bits int, class, how string, cs map[string]any) {
	pfx := netip.PrefixFrom(addr4(v), bits)
	before := *x
	if got := x.String(); got != pfx.String() {
		r.Violation("ip.IPv4.String:"+class, fmt.Sprintf("%s: String()=%q want %q", how, got, pfx), cs)
	}
	if got := x.CIDRAddress(); got != pfx.String() {
		r.Violation("ip.IPv4.CIDRAddress:"+class, fmt.Sprintf("%s: CIDRAddress()=%q want %q", how, got, pfx), cs)
	}
	if got := x.ToUInt32(); got != v {
		r.Violation("ip.IPv4.ToUInt32:"+class, fmt.Sprintf("%s: ToUInt32()=%#x want %#x", how, got, v), cs)
	}
	if got := x.CIDRMask(); got != pfx.Masked().String() {
		r.Violation("ip.IPv4.CIDRMask:"+class, fmt.Sprintf("%s: CIDRMask()=%q want %q", how, got, pfx.Masked()), cs)
	}
	if !mon.ExportedEqual(*x, before) {
		r.Violation("ip.IPv4.CIDRMask:receiver-modified", fmt.Sprintf("%s: after String/CIDRMask the object reads %s, it was %s", how, v4fields(x), v4fields(&before)), cs)
		*x = before
	}
	m := x.ComputeMask()
	if want := v & maskOf(bits); m == nil || m.ToUInt32() != want || int(m.MaskBits) != bits {
		r.Violation("ip.IPv4.ComputeMask:"+class, fmt.Sprintf("%s: ComputeMask()=%s want %s/%d", how, v4fields(m), dotted(want), bits), cs)
	}
	if !mon.ExportedEqual(*x, before) {
		r.Violation("ip.IPv4.ComputeMask:receiver-modified", fmt.Sprintf("%s: after ComputeMask the object reads %s, it was %s", how, v4fields(x), v4fields(&before)), cs)
		*x = before
	}
	if m != nil {
		hold("ip.IPv4.ComputeMask", pfx.String(), func() string { return v4fields(m) })
	}
	// membership with x as the subnet and as the probe; neither side may change
	probe := lib4(v^0x00010203, (bits*5+3)%33)
	pb := *probe
	wantIn := pfx.Contains(addr4(v ^ 0x00010203))
	if got := probe.IsInSubnet(x); got != wantIn {
		r.Violation("ip.IPv4.IsInSubnet:"+class, fmt.Sprintf("%s: %s in it = %v want %v", how, dotted(v^0x00010203), got, wantIn), cs)
	}
	if got := x.IsInSubnet(x); !got {
		r.Violation("ip.IPv4.IsInSubnet:"+class, fmt.Sprintf("%s: not inside itself", how), cs)
	}
	lo, hi := lib4(v&maskOf(bits), 32), lib4(v|^maskOf(bits), 0)
	lob, hib := *lo, *hi
	if got := x.IsInRange(lo, hi); !got {
		r.Violation("ip.IPv4.IsInRange:"+class, fmt.Sprintf("%s: not inside [network, broadcast]", how), cs)
	}
	rg := &ip.IPv4Range{Start: lo, End: hi}
	if got := rg.Contains(x); !got {
		r.Violation("ip.IPv4Range.Contains:"+class, fmt.Sprintf("%s: [network, broadcast].Contains = false", how), cs)
	}
	if !mon.ExportedEqual(*x, before) || !mon.ExportedEqual(*probe, pb) || !mon.ExportedEqual(*lo, lob) || !mon.ExportedEqual(*hi, hib) {
		r.Violation("ip.IPv4.IsInSubnet:argument-modified", fmt.Sprintf("%s: a membership/range test changed one of its operands (%s %s %s %s)", how, v4fields(x), v4fields(probe), v4fields(lo), v4fields(hi)), cs)
		*x = before
	}
	r.Eval(10)
}

func v4State() {
	rng := r.Rand("state-v4")
	n := r.Pick(6000, 60000)
	type vb struct {
		v    uint32
		bits int
	}
	var chain []vb
	for bits := 0; bits <= 32; bits++ {
		for _, v := range []uint32{0xFFFFFFFF, 0, 0xC0A80111, 0x0A010203, 0x80000001} {
			chain = append(chain, vb{v, bits})
		}
	}
	for i := 0; i < n; i++ {
		chain = append(chain, vb{rng.Uint32(), rng.IntN(33)})
	}
	var obj *ip.IPv4 // ONE object: built once, then its fields are assigned
	for i, c := range chain {
		txt := fmt.Sprintf("%s/%d", dotted(c.v), c.bits)
		cs := map[string]any{"addr": dotted(c.v), "bits": c.bits}
		p, pv, st := mon.Guard(func() {
			// parsed object, held
			parsed := ip.NewIPv4FromString(txt)
			r.Eval(1)
			if parsed == nil {
				r.Violation("ip.NewIPv4FromString:sequence:rejects-valid", fmt.Sprintf("call #%d of a sequence: NewIPv4FromString(%q) = nil", i, txt), cs)
				return
			}
			hold("ip.NewIPv4FromString", txt, func() string { return v4fields(parsed) })
			readV4(parsed, c.v, c.bits, "sequence", fmt.Sprintf("NewIPv4FromString(%q)", txt), cs)
			// neighbours, then the same text again
			for k, nb := range []vb{{c.v, (c.bits + 1) % 33}, {c.v ^ 1, c.bits}, {c.v, 32 - c.bits}, {c.v ^ 0x80000000, c.bits}} {
				t2 := fmt.Sprintf("%s/%d", dotted(nb.v), nb.bits)
				g := ip.NewIPv4FromString(t2)
				again := ip.NewIPv4FromString(txt)
				r.Eval(2)
				rel := []string{"same-address-next-prefix-length", "same-prefix-length-next-address", "same-address-complement-prefix-length", "same-prefix-length-other-top-bit"}[k]
				if g == nil || g.ToUInt32() != nb.v || int(g.MaskBits) != nb.bits {
					r.Violation("ip.NewIPv4FromString:sequence:"+rel, fmt.Sprintf("NewIPv4FromString(%q) right after %q = %s", t2, txt, v4fields(g)), cs)
				}
				if again == nil || again.ToUInt32() != c.v || int(again.MaskBits) != c.bits {
					r.Violation("ip.NewIPv4FromString:sequence:again-after-"+rel, fmt.Sprintf("NewIPv4FromString(%q) right after %q = %s", txt, t2, v4fields(again)), cs)
				}
				if again == parsed || g == parsed {
					r.Violation("ip.NewIPv4FromString:shared-object", "two calls returned the same *IPv4", cs)
				}
			}
			// texts that are refused (or should be) in between: the same text again must still
			// give the same address
			if i%4 == 0 {
				for _, bad := range []string{txt + "/", txt + "x", "/" + txt, fmt.Sprintf("%s/%d", dotted(c.v), c.bits+33), "300." + txt, strings.Replace(txt, ".", "..", 1), strings.Replace(txt, "/", "//", 1), "", "/", dotted(c.v) + "/-1", dotted(c.v)[:len(dotted(c.v))-1] + "/" + fmt.Sprint(c.bits) + "/"} {
					mon.Guard(func() { ip.NewIPv4FromString(bad) })
					r.Count("refused_texts_between_valid_ones", 1)
				}
				again := ip.NewIPv4FromString(txt)
				r.Eval(1)
				if again == nil || again.ToUInt32() != c.v || int(again.MaskBits) != c.bits {
					r.Violation("ip.NewIPv4FromString:sequence:again-after-refused-texts", fmt.Sprintf("NewIPv4FromString(%q) right after malformed texts = %s", txt, v4fields(again)), cs)
				}
			}
			// stale: one long-lived object, fields assigned directly
			if obj == nil || i%97 == 0 {
				obj = ip.NewIPv4FromString("255.255.255.255/32")
				if obj == nil {
					obj = ip.NewIPv4(255, 255, 255, 255, 32)
				}
				_ = obj.String()
				_ = obj.CIDRMask()
			}
			obj.A, obj.B, obj.C, obj.D, obj.MaskBits = uint8(c.v>>24), uint8(c.v>>16), uint8(c.v>>8), uint8(c.v), uint8(c.bits)
			readV4(obj, c.v, c.bits, "stale-fields", fmt.Sprintf("fields assigned to %s on an object that read something else before", txt), cs)
			// one field only
			obj.MaskBits = uint8((c.bits + 7) % 33)
			readV4(obj, c.v, (c.bits+7)%33, "stale-fields", "MaskBits assigned alone", cs)
			obj.D ^= 0xFF
			readV4(obj, c.v^0xFF, (c.bits+7)%33, "stale-fields", "D assigned alone", cs)
		})
		if p {
			r.Violation("ip.IPv4.state:panic:"+mon.PanicClass(pv)+":"+mon.TopLibFrame(st), fmt.Sprintf("panic %v on %s", pv, txt), cs)
		}
		if i < 165 || i%50 == 0 {
			r.Nontrivial("v4state|" + txt)
		}
	}
}

func v6State() {
	rng := r.Rand("state-v6")
	var obj *ip.IPv6
	for i := 0; i < r.Pick(4000, 40000); i++ {
		a := randV6(rng)
		if i < 4 {
			a = []v6{{0xFFFF, 0xFFFF, 0xFFFF, 0xFFFF, 0xFFFF, 0xFFFF, 0xFFFF, 0xFFFF}, {}, {0, 0, 0, 0, 0, 0, 0, 1}, {0x2001, 0xdb8, 0, 0, 0, 0, 0, 0}}[i]
		}
		txt := a.full("%x")
		cs := map[string]any{"addr": txt}
		p, pv, st := mon.Guard(func() {
			parsed := ip.NewIPv6FromString(txt)
			r.Eval(1)
			if parsed == nil || *parsed != *a.lib() {
				r.Violation("ip.NewIPv6FromString:sequence:value", fmt.Sprintf("call #%d of a sequence: NewIPv6FromString(%q) = %s", i, txt, v6fields(parsed)), cs)
				return
			}
			hold("ip.NewIPv6FromString", txt, func() string { return v6fields(parsed) })
			b := a
			b[7] ^= 1
			g := ip.NewIPv6FromString(b.full("%x"))
			again := ip.NewIPv6FromString(txt)
			r.Eval(2)
			if g == nil || *g != *b.lib() || again == nil || *again != *a.lib() {
				r.Violation("ip.NewIPv6FromString:sequence:neighbour", fmt.Sprintf("%q, %q, %q in a row: got %s then %s", txt, b.full("%x"), txt, v6fields(g), v6fields(again)), cs)
			}
			if obj == nil {
				obj = ip.NewIPv6FromString("ffff:ffff:ffff:ffff:ffff:ffff:ffff:ffff")
				if obj == nil {
					obj = ip.NewIPv6(0xFFFF, 0xFFFF, 0xFFFF, 0xFFFF, 0xFFFF, 0xFFFF, 0xFFFF, 0xFFFF)
				}
				_ = obj.String()
			}
			*obj = *a.lib() // fields assigned; read with no call in between
			if back, err := netip.ParseAddr(obj.String()); err != nil || back != a.addr() {
				r.Violation("ip.IPv6.String:stale-fields", fmt.Sprintf("fields assigned to %s: String()=%q", a.addr(), obj.String()), cs)
			}
			u := obj.ToUInt128()
			w := a.lib().ToUInt128()
			if u != w {
				r.Violation("ip.IPv6.ToUInt128:stale-fields", fmt.Sprintf("fields assigned to %s: ToUInt128()=%x", a.addr(), u), cs)
			}
			before := *obj
			lo, hi := a, a
			lo[7], hi[7] = 0, 0xFFFF
			l, h := lo.lib(), hi.lib()
			if !obj.IsInRange(l, h) || !obj.IsInSubnet(obj) || !(&ip.IPv6Range{Start: l, End: h}).Contains(obj) {
				r.Violation("ip.IPv6.IsInRange:stale-fields", fmt.Sprintf("fields assigned to %s: not inside [%s, %s] / itself", a.addr(), lo.addr(), hi.addr()), cs)
			}
			if !mon.ExportedEqual(*obj, before) || !mon.ExportedEqual(*l, *lo.lib()) || !mon.ExportedEqual(*h, *hi.lib()) {
				r.Violation("ip.IPv6.IsInRange:argument-modified", "a range/membership test changed one of its operands", cs)
			}
			r.Eval(6)
		})
		if p {
			r.Violation("ip.IPv6.state:panic:"+mon.PanicClass(pv)+":"+mon.TopLibFrame(st), fmt.Sprintf("panic %v on %s", pv, txt), cs)
		}
		if i%20 == 0 {
			r.Nontrivial("v6state|" + txt)
		}
	}
}

func portState() {
	rng := r.Rand("state-ports")
	var obj *ip.TCPPortRange
	for i := 0; i < r.Pick(6000, 60000); i++ {
		a, b := rng.IntN(65536), rng.IntN(65536)
		if i < 6 {
			a, b = []int{65535, 0, 65535, 0, 80, 0}[i], []int{65535, 0, 0, 65535, 0, 80}[i]
		}
		txt := fmt.Sprintf("%d-%d", a, b)
		cs := map[string]any{"start": a, "end": b}
		p, pv, st := mon.Guard(func() {
			x, err := ip.NewTCPPortRangeFromString(txt)
			r.Eval(1)
			if err != nil || x == nil || int(x.Start) != a || int(x.End) != b {
				r.Violation("ip.NewTCPPortRangeFromString:sequence:value", fmt.Sprintf("call #%d of a sequence: NewTCPPortRangeFromString(%q) = %v,%v", i, txt, x, err), cs)
				return
			}
			hold("ip.NewTCPPortRangeFromString", txt, func() string { return fmt.Sprintf("%d-%d", x.Start, x.End) })
			for k, t2 := range []string{fmt.Sprintf("%d-%d", a, (b+1)%65536), fmt.Sprintf("%d-%d", (a+1)%65536, b), fmt.Sprintf("%d-%d", b, a), fmt.Sprintf("%d-0", a)} {
				g, e1 := ip.NewTCPPortRangeFromString(t2)
				again, e2 := ip.NewTCPPortRangeFromString(txt)
				r.Eval(2)
				rel := []string{"same-start-next-end", "next-start-same-end", "swapped", "same-start-end-0"}[k]
				if e1 != nil || g == nil || g.String() != t2 {
					r.Violation("ip.NewTCPPortRangeFromString:sequence:"+rel, fmt.Sprintf("NewTCPPortRangeFromString(%q) right after %q = %v,%v", t2, txt, g, e1), cs)
				}
				if e2 != nil || again == nil || int(again.Start) != a || int(again.End) != b {
					r.Violation("ip.NewTCPPortRangeFromString:sequence:again-after-"+rel, fmt.Sprintf("NewTCPPortRangeFromString(%q) right after %q = %v,%v", txt, t2, again, e2), cs)
				}
			}
			if obj == nil {
				obj, _ = ip.NewTCPPortRangeFromString("65535-65535")
				if obj == nil {
					obj = ip.NewTCPPortRange(65535, 65535)
				}
				_ = obj.String()
			}
			obj.Start, obj.End = uint16(a), uint16(b)
			if s := obj.String(); s != txt {
				r.Violation("ip.TCPPortRange.String:stale-fields", fmt.Sprintf("Start/End assigned to %s on an object printed before: String()=%q", txt, s), cs)
			}
			obj.End = uint16(a)
			if s, want := obj.String(), fmt.Sprintf("%d-%d", a, a); s != want {
				r.Violation("ip.TCPPortRange.String:stale-fields", fmt.Sprintf("End assigned alone: String()=%q want %q", s, want), cs)
			}
			r.Eval(2)
		})
		if p {
			r.Violation("ip.TCPPortRange.state:panic:"+mon.PanicClass(pv)+":"+mon.TopLibFrame(st), fmt.Sprintf("panic %v on %s", pv, txt), cs)
		}
		if i%20 == 0 {
			r.Nontrivial("portstate|" + txt)
		}
	}
}

const hexDigits = "0123456789abcdef"

func randHash(next func(int) int) string {
	b := make([]byte, 32)
	for i := range b {
		b[i] = hexDigits[next(16)]
	}
	return string(b)
}

func judgeHash(entry, class, spec string, lm, nt string, err error, cs map[string]any) {
	wantLM, wantNT, cl := refParseHashes(spec)
	if cl != "valid" {
		return
	}
	if err != nil || !strings.EqualFold(lm, wantLM) || !strings.EqualFold(nt, wantNT) {
		r.Violation(entry+":"+class, fmt.Sprintf("%q: got LM=%q NT=%q err=%v want LM=%q NT=%q", spec, lm, nt, err, wantLM, wantNT), cs)
	}
}

func hashState() {
	rng := r.Rand("state-hashes")
	for i := 0; i < r.Pick(1500, 15000); i++ {
		lm, nt, lm2, nt2 := randHash(rng.IntN), randHash(rng.IntN), randHash(rng.IntN), randHash(rng.IntN)
		first := lm + ":" + nt
		seq := []struct{ spec, rel string }{
			{first, "first"},
			{lm2 + ":" + nt, "same-nt-other-lm"}, {first, "again"},
			{lm + ":" + nt2, "same-lm-other-nt"}, {first, "again"},
			{":" + nt, "nt-only-same-nt"}, {first, "again"},
			{nt, "bare-nt"}, {":" + nt2, "nt-only-other-nt"}, {nt2, "bare-other-nt"},
			{strings.ToUpper(first), "upper-case"}, {" " + first + "\n", "white-space"}, {"", "empty"}, {first, "again"},
		}
		prev := "nothing"
		for _, s := range seq {
			cs := map[string]any{"spec": s.spec, "parsed_just_before": prev}
			p, pv, st := mon.Guard(func() {
				l, n, err := credentials.ParseLMNTHashes(s.spec)
				judgeHash("credentials.ParseLMNTHashes", "sequence:"+s.rel, s.spec, l, n, err, cs)
				c, err := credentials.NewCredentials("DOM", "user", "pw", s.spec)
				r.Eval(2)
				if err != nil || c == nil {
					judgeHash("credentials.NewCredentials", "sequence:"+s.rel, s.spec, "", "", fmt.Errorf("refused: %v", err), cs)
					return
				}
				judgeHash("credentials.NewCredentials", "sequence:"+s.rel, s.spec, c.GetLMHash(), c.GetNTHash(), nil, cs)
				hold("credentials.NewCredentials", s.spec, func() string { return fmt.Sprintf("%+v", *c) })
				// stale: fields assigned, getters read
				saveL, saveN := c.LMHash, c.NTHash
				c.LMHash, c.NTHash = lm2, nt2
				if c.GetLMHash() != lm2 || c.GetNTHash() != nt2 || !c.CanPassTheHash() {
					r.Violation("credentials.Credentials.GetNTHash:stale-fields", fmt.Sprintf("LMHash/NTHash assigned: getters read LM=%q NT=%q CanPassTheHash=%v", c.GetLMHash(), c.GetNTHash(), c.CanPassTheHash()), cs)
				}
				c.LMHash, c.NTHash = saveL, saveN // the object is held: leave it as the library returned it
			})
			if p {
				r.Violation("credentials.state:panic:"+mon.PanicClass(pv), fmt.Sprintf("panic %v at %s on %q", pv, mon.TopLibFrame(st), s.spec), cs)
			}
			prev = s.spec
		}
		if i%10 == 0 {
			r.Nontrivial("hashstate|" + first)
		}
	}
}

// ---------------------------------------------------------------- concurrent callers

func concurrentParsers() {
	n := r.Pick(30000, 300000)
	var wg sync.WaitGroup
	for w := 0; w < 8; w++ {
		wg.Add(1)
		go func() {
			defer wg.Done()
			rng := r.Rand(fmt.Sprintf("concurrent-%d", w))
			for i := 0; i < n/8; i++ {
				v, bits, probe := rng.Uint32(), rng.IntN(33), rng.Uint32()
				if i%3 == 0 {
					probe = v ^ (1 << uint(rng.IntN(32)))
				}
				pfx := netip.PrefixFrom(addr4(v), bits)
				a6 := randV6(rng)
				pa, pb := rng.IntN(65536), rng.IntN(65536)
				lm, nt := randHash(rng.IntN), randHash(rng.IntN)
				spec := []string{lm + ":" + nt, ":" + nt, nt, " " + lm + ":" + strings.ToUpper(nt) + "\t"}[i%4]
				cs := map[string]any{"cidr": pfx.String(), "probe": dotted(probe), "v6": a6.full("%x"), "ports": fmt.Sprintf("%d-%d", pa, pb), "hashes": spec, "callers": 8}
				bad := func(entry, msg string) {
					r.Violation(entry+":concurrent-callers", "8 goroutines on unrelated values: "+msg, cs)
				}
				p, pv, st := mon.Guard(func() {
					x := ip.NewIPv4FromString(pfx.String())
					if x == nil || x.ToUInt32() != v || int(x.MaskBits) != bits {
						bad("ip.NewIPv4FromString", fmt.Sprintf("%q -> %s", pfx, v4fields(x)))
						return
					}
					if s := x.String(); s != pfx.String() {
						bad("ip.IPv4.String", fmt.Sprintf("%s -> %q", pfx, s))
					}
					if s := x.CIDRMask(); s != pfx.Masked().String() {
						bad("ip.IPv4.CIDRMask", fmt.Sprintf("%s -> %q want %q", pfx, s, pfx.Masked()))
					}
					if got, want := lib4(probe, 7).IsInSubnet(x), pfx.Contains(addr4(probe)); got != want {
						bad("ip.IPv4.IsInSubnet", fmt.Sprintf("%s in %s = %v want %v", dotted(probe), pfx, got, want))
					}
					y := ip.NewIPv6FromString(a6.full("%04x"))
					if y == nil || *y != *a6.lib() {
						bad("ip.NewIPv6FromString", fmt.Sprintf("%q -> %s", a6.full("%04x"), v6fields(y)))
					} else if back, err := netip.ParseAddr(y.String()); err != nil || back != a6.addr() {
						bad("ip.IPv6.String", fmt.Sprintf("%s -> %q", a6.addr(), y.String()))
					}
					pr, err := ip.NewTCPPortRangeFromString(fmt.Sprintf("%d-%d", pa, pb))
					if err != nil || pr == nil || int(pr.Start) != pa || int(pr.End) != pb || pr.String() != fmt.Sprintf("%d-%d", pa, pb) {
						bad("ip.NewTCPPortRangeFromString", fmt.Sprintf("%d-%d -> %v,%v", pa, pb, pr, err))
					}
					l, h, err := credentials.ParseLMNTHashes(spec)
					wl, wn, _ := refParseHashes(spec)
					if err != nil || !strings.EqualFold(l, wl) || !strings.EqualFold(h, wn) {
						bad("credentials.ParseLMNTHashes", fmt.Sprintf("%q -> LM=%q NT=%q err=%v", spec, l, h, err))
					}
					r.Eval(9)
				})
				if p {
					r.Violation("concurrent:panic:"+mon.PanicClass(pv)+":"+mon.TopLibFrame(st), fmt.Sprintf("panic %v", pv), cs)
				}
			}
		}()
	}
	wg.Wait()
	r.Nontrivial(fmt.Sprintf("concurrent|%d", n))
}

func stateWorkload() {
	v4State()
	v6State()
	portState()
	hashState()
	concurrentParsers()
	heldMu.Lock()
	for _, e := range heldRing {
		verifyHeld(e, "at the end of the run")
	}
	heldMu.Unlock()
	r.Count("held_outputs", heldN)
}
