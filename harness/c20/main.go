// C20: address, port-range and hash-credential parsers match standard semantics.
package main

import (
	"encoding/binary"
	"fmt"
	"math/rand/v2"
	"net/netip"
	"strings"

	"github.com/TheManticoreProject/Manticore/network/ip"

	"verif/mon"
)

var r *mon.Run

func addr4(v uint32) netip.Addr {
	var b [4]byte
	binary.BigEndian.PutUint32(b[:], v)
	return netip.AddrFrom4(b)
}

func lib4(v uint32, bits int) *ip.IPv4 {
	return ip.NewIPv4(uint8(v>>24), uint8(v>>16), uint8(v>>8), uint8(v), uint8(bits))
}

func dotted(v uint32) string {
	return fmt.Sprintf("%d.%d.%d.%d", v>>24, (v>>16)&0xFF, (v>>8)&0xFF, v&0xFF)
}

// maskOf is written with a loop (not a shift) on purpose: independent of the library's expression.
func maskOf(bits int) uint32 {
	var m uint32
	for i := 0; i < bits; i++ {
		m |= 1 << (31 - i)
	}
	return m
}

// ---------------------------------------------------------------- IPv4 text

func ipv4Text(v uint32, bits int) {
	x := lib4(v, bits)
	pfx := netip.PrefixFrom(addr4(v), bits)
	cs := map[string]any{"addr": dotted(v), "bits": bits}
	p, pv, st := mon.Guard(func() {
		// print
		if got, want := x.String(), pfx.String(); got != want {
			r.Violation("ip.IPv4.String:value", fmt.Sprintf("String()=%q want %q", got, want), cs)
		}
		if got, want := x.CIDRAddress(), pfx.String(); got != want {
			r.Violation("ip.IPv4.CIDRAddress:value", fmt.Sprintf("CIDRAddress()=%q want %q", got, want), cs)
		}
		if got, want := x.CIDRMask(), pfx.Masked().String(); got != want {
			r.Violation("ip.IPv4.CIDRMask:value", fmt.Sprintf("CIDRMask() of %s = %q want %q", pfx, got, want), cs)
		}
		m := x.ComputeMask()
		if want := v & maskOf(bits); m == nil || m.ToUInt32() != want || int(m.MaskBits) != bits {
			r.Violation("ip.IPv4.ComputeMask:value", fmt.Sprintf("ComputeMask() of %s = %v want %s/%d", pfx, m, dotted(want), bits), cs)
		}
		if got := x.ToUInt32(); got != v {
			r.Violation("ip.IPv4.ToUInt32:value", fmt.Sprintf("ToUInt32() of %s = %#x", dotted(v), got), cs)
		}
		r.Eval(5)
		// print -> parse identity, on the library's text and on the standard text
		for i, txt := range []string{x.String(), pfx.String()} {
			back := ip.NewIPv4FromString(txt)
			r.Eval(1)
			switch {
			case back == nil:
				r.Violation("ip.NewIPv4FromString:rejects-valid", fmt.Sprintf("NewIPv4FromString(%q) = nil", txt), cs)
			case back.ToUInt32() != v || int(back.MaskBits) != bits:
				r.Violation("ip.NewIPv4FromString:value", fmt.Sprintf("NewIPv4FromString(%q) = %d.%d.%d.%d/%d", txt, back.A, back.B, back.C, back.D, back.MaskBits), cs)
			}
			if i == 0 && txt == pfx.String() {
				break
			}
		}
	})
	if p {
		r.Violation("ip.IPv4.text:panic:"+mon.PanicClass(pv)+":"+mon.TopLibFrame(st), fmt.Sprintf("panic %v on %s/%d", pv, dotted(v), bits), cs)
	}
	r.Nontrivial(fmt.Sprintf("v4text|%d|%d", v, bits))
}

// invalid CIDR texts: must come back nil, never panic
func ipv4Invalid() {
	type bad struct{ s, class string }
	var list []bad
	for _, s := range []string{"10/8", "10.0/8", "10.0.0/8", "1.2.3/24", "1/2", "0/0", "1.2.3.4.5/8", "1.2.3.4.5.6.7.8/8", "..../8", "1..3.4/8", ".1.2.3/8", "1.2.3./8"} {
		list = append(list, bad{s, "octet-count"})
	}
	for _, s := range []string{"256.0.0.1/8", "1.256.0.1/8", "1.2.256.1/8", "1.2.3.256/8", "999.1.1.1/8", "1.2.3.65536/8", "1.2.3.4294967296/8", "300.300.300.300/30"} {
		list = append(list, bad{s, "octet-range"})
	}
	for _, s := range []string{"1.2.3.4/33", "1.2.3.4/64", "1.2.3.4/128", "1.2.3.4/255", "1.2.3.4/256", "1.2.3.4/-1", "1.2.3.4/99999999999"} {
		list = append(list, bad{s, "mask-range"})
	}
	for _, s := range []string{"a.b.c.d/8", "1.2.3.x/8", "1.2.3.4/x", "1.2.3.4/", "/8", "/", "1.2.3.4/8/9", "1.2.3.4//8", "0x1.2.3.4/8", "1.2.3.-4/8", "1.2.3.4e0/8", "1.2.3.4/8x", "::1/8", "1:2:3:4/8"} {
		list = append(list, bad{s, "syntax"})
	}
	for _, b := range list {
		var got *ip.IPv4
		p, pv, st := mon.Guard(func() { got = ip.NewIPv4FromString(b.s) })
		r.Eval(1)
		cs := map[string]any{"text": b.s, "class": b.class}
		if p {
			r.Violation("ip.NewIPv4FromString:panic:"+mon.PanicClass(pv), fmt.Sprintf("panic %v at %s on %q", pv, mon.TopLibFrame(st), b.s), cs)
		} else if got != nil {
			if _, err := netip.ParsePrefix(b.s); err != nil {
				r.Violation("ip.NewIPv4FromString:accepts-invalid:"+b.class, fmt.Sprintf("NewIPv4FromString(%q) = %d.%d.%d.%d/%d, not a CIDR text (%v)", b.s, got.A, got.B, got.C, got.D, got.MaskBits, err), cs)
			}
		}
		r.Nontrivial("v4bad|" + b.s)
	}
	// texts whose acceptance is not demanded either way (bare address, leading zeros, blanks): only no panic
	for _, s := range []string{"", "1.2.3.4", "01.2.3.4/8", "1.2.3.4/08", " 1.2.3.4/8", "1.2.3.4/8 ", "1.2.3.4 /8", "+1.2.3.4/8", "1.2.3.4/+8"} {
		p, pv, st := mon.Guard(func() { ip.NewIPv4FromString(s) })
		r.Eval(1)
		if p {
			r.Violation("ip.NewIPv4FromString:panic:"+mon.PanicClass(pv), fmt.Sprintf("panic %v at %s on %q", pv, mon.TopLibFrame(st), s), map[string]any{"text": s})
		}
	}
}

// ---------------------------------------------------------------- IPv4 membership and ranges

func ipv4Subnet(subnet uint32, bits int, probe uint32, via string) {
	want := netip.PrefixFrom(addr4(subnet), bits).Contains(addr4(probe))
	// second opinion by plain arithmetic
	if arith := probe&maskOf(bits) == subnet&maskOf(bits); arith != want {
		r.Inconclusive(fmt.Sprintf("netip and mask arithmetic disagree on %s in %s/%d", dotted(probe), dotted(subnet), bits))
	}
	cs := map[string]any{"probe": dotted(probe), "subnet": dotted(subnet), "bits": bits, "via": via}
	var got, skip bool
	p, pv, st := mon.Guard(func() {
		sn := lib4(subnet, bits)
		if via == "text" {
			sn = ip.NewIPv4FromString(fmt.Sprintf("%s/%d", dotted(subnet), bits))
			if sn == nil {
				skip = true // reported by the text checks
				return
			}
		}
		// the probe's own MaskBits must not matter: give it a different one
		got = lib4(probe, (bits*7+5)%33).IsInSubnet(sn)
	})
	if skip {
		return
	}
	r.Eval(1)
	switch {
	case p:
		r.Violation("ip.IPv4.IsInSubnet:panic:"+mon.PanicClass(pv), fmt.Sprintf("panic %v at %s", pv, mon.TopLibFrame(st)), cs)
	case got && !want:
		r.Violation("ip.IPv4.IsInSubnet:false-positive", fmt.Sprintf("%s reported inside %s/%d", dotted(probe), dotted(subnet), bits), cs)
	case !got && want:
		cls := "false-negative"
		if subnet&^maskOf(bits) != 0 {
			cls = "false-negative:subnet-with-host-bits"
		}
		r.Violation("ip.IPv4.IsInSubnet:"+cls, fmt.Sprintf("%s reported outside %s/%d", dotted(probe), dotted(subnet), bits), cs)
	}
	r.Nontrivial(fmt.Sprintf("v4sub|%d|%d|%d", subnet, bits, probe))
}

func ipv4Range(x, lo, hi uint32) {
	a, s, e := addr4(x), addr4(lo), addr4(hi)
	want := a.Compare(s) >= 0 && a.Compare(e) <= 0
	cs := map[string]any{"ip": dotted(x), "start": dotted(lo), "end": dotted(hi)}
	var got, got2 bool
	p, pv, st := mon.Guard(func() {
		// the prefix lengths carried by the three addresses have no part in a range test: they
		// vary independently of one another from case to case
		h := int((x*2654435761 + lo*40503 + hi) & 0x7FFFFFFF) // non-negative also where int is 32 bits wide
		mb := [][3]int{{0, 32, 8}, {24, 24, 24}, {24, 32, 32}, {32, 24, 8}, {8, 16, 32}, {24, 8, 0}, {h % 33, (h / 33) % 33, (h / 1089) % 33}}
		m1, m2 := mb[h%len(mb)], mb[(h/7)%len(mb)]
		got = lib4(x, m1[0]).IsInRange(lib4(lo, m1[1]), lib4(hi, m1[2]))
		rg := &ip.IPv4Range{Start: lib4(lo, m2[1]), End: lib4(hi, m2[2])}
		got2 = rg.Contains(lib4(x, m2[0]))
	})
	r.Eval(2)
	if p {
		r.Violation("ip.IPv4.IsInRange:panic:"+mon.PanicClass(pv), fmt.Sprintf("panic %v at %s", pv, mon.TopLibFrame(st)), cs)
		return
	}
	if got != want {
		r.Violation("ip.IPv4.IsInRange:value", fmt.Sprintf("%s in [%s, %s] = %v want %v", dotted(x), dotted(lo), dotted(hi), got, want), cs)
	}
	if got2 != want {
		r.Violation("ip.IPv4Range.Contains:value", fmt.Sprintf("[%s, %s].Contains(%s) = %v want %v", dotted(lo), dotted(hi), dotted(x), got2, want), cs)
	}
	r.Nontrivial(fmt.Sprintf("v4rng|%d|%d|%d", x, lo, hi))
}

func bitsLen(v uint32) int {
	n := 0
	for ; v != 0; v >>= 1 {
		n++
	}
	return n
}

func ipv4Workload() {
	rng := r.Rand("ipv4")
	fixed := []uint32{0, 1, 0x7FFFFFFF, 0x80000000, 0xFFFFFFFE, 0xFFFFFFFF, 0x0A000000, 0x0A000001, 0x0B000001, 0xC0A80100, 0xC0A80111, 0xC0A801FF, 0xC0A80200, 0xAC100001, 0x7F000001, 0xE00000FC, 0x01020304, 0x00FF00FF, 0xFF00FF00, 0x55555555, 0xAAAAAAAA}
	// text: every prefix length x fixed addresses, then seeded addresses
	for bits := 0; bits <= 32; bits++ {
		for _, v := range fixed {
			ipv4Text(v, bits)
		}
		for t := 0; t < r.Pick(40, 600); t++ {
			ipv4Text(rng.Uint32(), bits)
		}
	}
	r.Sample(map[string]any{"kind": "ipv4-text", "value": "192.168.1.17/24", "String": "192.168.1.17/24", "CIDRMask": "192.168.1.0/24", "parse(String)": "must be 192.168.1.17/24"})
	ipv4Invalid()
	ipv4Mutations()

	// membership: every prefix length x base addresses x probe family, subnet as both roles
	nb := r.Pick(12, 120)
	for bits := 0; bits <= 32; bits++ {
		bases := append([]uint32{}, fixed...)
		for t := 0; t < nb; t++ {
			bases = append(bases, rng.Uint32())
		}
		m := maskOf(bits)
		for _, base := range bases {
			network := base & m
			bcast := network | ^m
			probes := []uint32{network, network - 1, network + 1, bcast, bcast - 1, bcast + 1, 0, 0xFFFFFFFF, base, ^base, base ^ 0x01000000, base ^ (1 << uint(rng.IntN(32))), rng.Uint32(), network | (rng.Uint32() &^ m)}
			if bits > 0 {
				// first differing bit exactly at the prefix boundary, and one position inside the host part
				probes = append(probes, base^(1<<uint(32-bits)))
			}
			if bits < 32 {
				probes = append(probes, base^(1<<uint(31-bits)))
			}
			for _, pr := range probes {
				ipv4Subnet(network, bits, pr, "struct")
				ipv4Subnet(base, bits, pr, "struct") // subnet written with host bits set
			}
			ipv4Subnet(network, bits, bcast, "text")
			ipv4Subnet(network, bits, bcast+1, "text")
			// roles swapped: each probe as the subnet, the network address as the probe
			for _, pr := range probes[:8] {
				ipv4Subnet(pr, bits, network, "struct")
			}
		}
	}
	r.Sample(map[string]any{"kind": "ipv4-subnet", "probe": "11.0.0.1", "subnet": "10.0.0.0/8", "expected": false})
	r.Sample(map[string]any{"kind": "ipv4-subnet", "probe": "192.168.1.200", "subnet": "192.168.1.17/24", "expected": true})

	// ranges
	for _, lo := range fixed {
		for _, hi := range fixed {
			for _, x := range []uint32{lo, hi, lo - 1, lo + 1, hi - 1, hi + 1, 0, 0xFFFFFFFF, lo/2 + hi/2} {
				ipv4Range(x, lo, hi)
			}
		}
	}
	// a range that starts on a network address and ends inside that network, its end points
	// carrying different prefix lengths: the block the start belongs to is not the range
	for bits := 1; bits <= 31; bits++ {
		for _, base := range []uint32{0x0A000000, 0xC0A80100, 0xAC100000, 0x80000000, 0xFFFFFF00} {
			network := base & maskOf(bits)
			size := ^maskOf(bits)
			for _, k := range []uint32{0, 1, size / 2, size - 1} {
				if k > size {
					continue
				}
				hi := network + k
				for _, x := range []uint32{hi, hi + 1, network + size, network + size/2 + 1, network - 1} {
					want := addr4(x).Compare(addr4(network)) >= 0 && addr4(x).Compare(addr4(hi)) <= 0
					for _, eb := range []int{32, bits, 0, 32 - bitsLen(k)} {
						if eb < 0 || eb > 32 {
							continue
						}
						var g1, g2 bool
						cs := map[string]any{"ip": dotted(x), "start": fmt.Sprintf("%s/%d", dotted(network), bits), "end": fmt.Sprintf("%s/%d", dotted(hi), eb)}
						p, pv, st := mon.Guard(func() {
							rg := &ip.IPv4Range{Start: lib4(network, bits), End: lib4(hi, eb)}
							g1 = rg.Contains(lib4(x, 32))
							g2 = lib4(x, bits).IsInRange(lib4(network, bits), lib4(hi, eb))
						})
						r.Eval(2)
						if p {
							r.Violation("ip.IPv4.IsInRange:panic:"+mon.PanicClass(pv), fmt.Sprintf("panic %v at %s", pv, mon.TopLibFrame(st)), cs)
						} else if g1 != want || g2 != want {
							r.Violation("ip.IPv4Range.Contains:value:end-points-with-prefix-lengths", fmt.Sprintf("[%s/%d, %s/%d]: Contains(%s)=%v IsInRange=%v want %v", dotted(network), bits, dotted(hi), eb, dotted(x), g1, g2, want), cs)
						}
					}
				}
			}
		}
	}
	for t := 0; t < r.Pick(20000, 400000); t++ {
		lo, hi := rng.Uint32(), rng.Uint32()
		if t%3 == 0 { // close together, differing in a low octet only
			hi = lo + uint32(rng.IntN(70000))
		}
		x := []uint32{rng.Uint32(), lo + uint32(rng.IntN(1<<16)), hi - uint32(rng.IntN(1<<16)), lo, hi, lo - 1, hi + 1}[rng.IntN(7)]
		ipv4Range(x, lo, hi)
	}
}

// ---------------------------------------------------------------- IPv6

type v6 [8]uint16

func (a v6) addr() netip.Addr {
	var b [16]byte
	for i, g := range a {
		binary.BigEndian.PutUint16(b[2*i:], g)
	}
	return netip.AddrFrom16(b)
}
func (a v6) lib() *ip.IPv6 { return ip.NewIPv6(a[0], a[1], a[2], a[3], a[4], a[5], a[6], a[7]) }
func (a v6) full(format string) string {
	parts := make([]string, 8)
	for i, g := range a {
		parts[i] = fmt.Sprintf(format, g)
	}
	return strings.Join(parts, ":")
}

func randV6(rng *rand.Rand) v6 {
	var a v6
	for i := range a {
		switch rng.IntN(5) {
		case 0:
			a[i] = 0
		case 1:
			a[i] = 0xFFFF
		case 2:
			a[i] = uint16(rng.IntN(16))
		default:
			a[i] = uint16(rng.UintN(65536))
		}
	}
	return a
}

func ipv6Text(a v6) {
	cs := map[string]any{"addr": a.full("%x")}
	p, pv, st := mon.Guard(func() {
		x := a.lib()
		txt := x.String()
		// the library's text must denote the same address (judged by net/netip) …
		if back, err := netip.ParseAddr(txt); err != nil || back != a.addr() {
			r.Violation("ip.IPv6.String:value", fmt.Sprintf("String()=%q does not denote %s (%v)", txt, a.addr(), err), cs)
		}
		u := x.ToUInt128()
		b := a.addr().As16()
		if u[0] != binary.BigEndian.Uint64(b[:8]) || u[1] != binary.BigEndian.Uint64(b[8:]) {
			r.Violation("ip.IPv6.ToUInt128:value", fmt.Sprintf("ToUInt128() of %s = %x", a.addr(), u), cs)
		}
		r.Eval(2)
		// … and parse back; so must the fully written standard forms (lower, upper, zero-padded)
		for _, form := range []string{txt, a.full("%x"), a.full("%X"), a.full("%04x"), a.addr().StringExpanded()} {
			back := ip.NewIPv6FromString(form)
			r.Eval(1)
			switch {
			case back == nil:
				r.Violation("ip.NewIPv6FromString:rejects-valid", fmt.Sprintf("NewIPv6FromString(%q) = nil", form), cs)
			case !mon.ExportedEqual(*back, *x):
				r.Violation("ip.NewIPv6FromString:value", fmt.Sprintf("NewIPv6FromString(%q) = %s", form, back.String()), cs)
			}
		}
	})
	if p {
		r.Violation("ip.IPv6.text:panic:"+mon.PanicClass(pv)+":"+mon.TopLibFrame(st), fmt.Sprintf("panic %v on %s", pv, a.full("%x")), cs)
	}
	r.Nontrivial("v6text|" + a.full("%x"))
}

func ipv6Rel(x, lo, hi v6) {
	cs := map[string]any{"ip": x.full("%x"), "start": lo.full("%x"), "end": hi.full("%x")}
	wantR := x.addr().Compare(lo.addr()) >= 0 && x.addr().Compare(hi.addr()) <= 0
	wantS := netip.PrefixFrom(lo.addr(), 128).Contains(x.addr()) // no prefix field in the library: /128 semantics
	p, pv, st := mon.Guard(func() {
		if got := x.lib().IsInRange(lo.lib(), hi.lib()); got != wantR {
			r.Violation("ip.IPv6.IsInRange:value", fmt.Sprintf("%s in [%s, %s] = %v want %v", x.addr(), lo.addr(), hi.addr(), got, wantR), cs)
		}
		rg := &ip.IPv6Range{Start: lo.lib(), End: hi.lib()}
		if got := rg.Contains(x.lib()); got != wantR {
			r.Violation("ip.IPv6Range.Contains:value", fmt.Sprintf("[%s, %s].Contains(%s) = %v want %v", lo.addr(), hi.addr(), x.addr(), got, wantR), cs)
		}
		if got := x.lib().IsInSubnet(lo.lib()); got != wantS {
			r.Violation("ip.IPv6.IsInSubnet:value", fmt.Sprintf("%s in %s/128 = %v want %v", x.addr(), lo.addr(), got, wantS), cs)
		}
		r.Eval(3)
	})
	if p {
		r.Violation("ip.IPv6.rel:panic:"+mon.PanicClass(pv)+":"+mon.TopLibFrame(st), fmt.Sprintf("panic %v", pv), cs)
	}
	r.Nontrivial("v6rel|" + x.full("%x") + "|" + lo.full("%x") + "|" + hi.full("%x"))
}

func ipv6Workload() {
	rng := r.Rand("ipv6")
	fixed := []v6{{}, {0, 0, 0, 0, 0, 0, 0, 1}, {0xFFFF, 0xFFFF, 0xFFFF, 0xFFFF, 0xFFFF, 0xFFFF, 0xFFFF, 0xFFFF}, {0x2001, 0xdb8, 0, 0, 0, 0, 0, 0}, {0x2001, 0xdb8, 0, 0, 0, 0, 0, 0xFFFF}, {0x2001, 0xdb8, 0, 0, 0, 0, 1, 0},
		{0xfe80, 0, 0, 0, 0x0202, 0xb3ff, 0xfe1e, 0x8329}, {0, 0, 0, 0, 0, 0xFFFF, 0xC0A8, 0x0101}, {0, 0, 0, 0xFFFF, 0xFFFF, 0xFFFF, 0xFFFF, 0xFFFF}, {0, 0, 0, 1, 0, 0, 0, 0}, {0x8000, 0, 0, 0, 0, 0, 0, 0}, {0x7FFF, 0xFFFF, 0xFFFF, 0xFFFF, 0xFFFF, 0xFFFF, 0xFFFF, 0xFFFF},
		{1, 0, 0, 0, 0x8000, 0, 0, 0}, {1, 0, 0, 0, 0x7FFF, 0xFFFF, 0xFFFF, 0xFFFF}, {0xa, 0xb, 0xc, 0xd, 0xe, 0xf, 0x10, 0x100}}
	for _, a := range fixed {
		ipv6Text(a)
	}
	for t := 0; t < r.Pick(5000, 100000); t++ {
		ipv6Text(randV6(rng))
	}
	r.Sample(map[string]any{"kind": "ipv6-text", "value": fixed[6].full("%x"), "forms_parsed": []string{fixed[6].full("%X"), fixed[6].full("%04x")}})
	// invalid forms must be refused (nil), never panic
	for _, s := range []string{"", ":", "1:2:3:4:5:6:7", "1:2:3:4:5:6:7:8:9", "1:2:3:4:5:6:7:g", "1:2:3:4:5:6:7:10000", "1:2:3:4:5:6:7:-1", "1:2:3:4:5:6:7:", ":2:3:4:5:6:7:8", "1.2.3.4", "1:2:3:4:5:6:7:8/64", "0x1:2:3:4:5:6:7:8", "1:2:3:4:5:6:7:1ffff"} {
		var got *ip.IPv6
		p, pv, st := mon.Guard(func() { got = ip.NewIPv6FromString(s) })
		r.Eval(1)
		if p {
			r.Violation("ip.NewIPv6FromString:panic:"+mon.PanicClass(pv), fmt.Sprintf("panic %v at %s on %q", pv, mon.TopLibFrame(st), s), map[string]any{"text": s})
		} else if got != nil {
			r.Violation("ip.NewIPv6FromString:accepts-invalid", fmt.Sprintf("NewIPv6FromString(%q) = %s", s, got.String()), map[string]any{"text": s})
		}
		r.Nontrivial("v6bad|" + s)
	}
	// compressed text is not demanded to parse; only no panic
	for _, s := range []string{"::", "::1", "2001:db8::1", "1::8", "::ffff:1.2.3.4", "fe80::1%eth0"} {
		p, pv, st := mon.Guard(func() { ip.NewIPv6FromString(s) })
		r.Eval(1)
		if p {
			r.Violation("ip.NewIPv6FromString:panic:"+mon.PanicClass(pv), fmt.Sprintf("panic %v at %s on %q", pv, mon.TopLibFrame(st), s), map[string]any{"text": s})
		}
	}
	// relations
	for _, lo := range fixed {
		for _, hi := range fixed {
			for _, x := range fixed {
				ipv6Rel(x, lo, hi)
			}
		}
	}
	for t := 0; t < r.Pick(20000, 400000); t++ {
		lo, hi, x := randV6(rng), randV6(rng), randV6(rng)
		switch rng.IntN(5) {
		case 0: // same upper half, differ in the lower 64 bits
			hi = lo
			hi[4+rng.IntN(4)] = uint16(rng.UintN(65536))
			x = lo
			x[4+rng.IntN(4)] = uint16(rng.UintN(65536))
		case 1: // x equal to a bound
			x = []v6{lo, hi}[rng.IntN(2)]
		case 2: // differ only in one group
			g := rng.IntN(8)
			hi, x = lo, lo
			hi[g] = uint16(rng.UintN(65536))
			x[g] = uint16(rng.UintN(65536))
		}
		ipv6Rel(x, lo, hi)
	}
	r.Sample(map[string]any{"kind": "ipv6-range", "ip": "1:0:0:0:8000:0:0:0", "start": "1:0:0:0:7fff:ffff:ffff:ffff", "end": "1:0:0:1:0:0:0:0", "expected": true})
}

func main() {
	r = mon.Start("C20", "exploration")
	r.Rule("IPv4: all 33 prefix lengths x (21 fixed + seeded) addresses for print/parse/mask; membership for every prefix length x base addresses x {network, network±1, broadcast, broadcast±1, 0, 255.255.255.255, bit flips at and around the prefix boundary, random} with the subnet given masked, with host bits set and through its text; ranges over fixed pairs and seeded triples. IPv6: print/parse of fixed + seeded addresses in lower, upper and zero-padded full forms, equality (/128) membership, 128-bit ranges. Ports: every value 0..65535 as start and as end, all pairs over a boundary set, seeded pairs, refused texts. Hash specs: LM:NT, :NT, NT, empty in lower/upper/mixed case wrapped in every pair of white-space prefixes/suffixes drawn from the characters strings.TrimSpace removes. Non-trivial = each distinct (value, bits), (subnet, bits, probe), (x, lo, hi), port pair, (form, case, prefix, suffix) tuple. State monitors (state.go): every method leaves receiver and arguments intact; fields of long-lived IPv4/IPv6/port-range/credential objects assigned directly and read with no call in between; returned objects held (ring of 64) and re-compared; each text parsed right after neighbours sharing part of it; 8 concurrent callers. A sample of the sequence elements counts as non-trivial. In-place edits (ranges.go): one long-lived IPv4Range / IPv6Range / subnet IPv4 / TCPPortRange whose bounds are changed between membership calls without new pointers (one octet or group of an end assigned, all fields assigned, *r.Start = *x, pointers swapped, MaskBits alone; new pointers as control), probed at and around the old and the new bounds with fresh and long-lived probe objects, every answer compared with a fresh range holding the same values; a fixed script of 19 (IPv4) and 13 (IPv6) edits first, then seeded edits.")
	r.Assume(
		"net/netip (Prefix.Contains, Prefix.Masked, Addr.Compare, ParseAddr) is the reference; IPv4 membership is cross-checked against plain mask arithmetic (else inconclusive)",
		"a subnet written with host bits set (192.168.1.17/24) denotes the same network as its masked form, as in net/netip",
		"IPv6 has no prefix field in this library: IsInSubnet is compared with /128 semantics; compressed '::' text is not required to parse",
		"IPv4 text without '/bits', with leading zeros or surrounding blanks is not demanded either way; MaskBits > 32 is outside the property",
		"port text with blanks around the numbers, reversed ranges (start > end) and open-ended forms are not demanded either way",
		"hash fields are compared case-insensitively; 'LM:' (LM hash with empty NT) may be refused with an error or accepted",
	)
	r.Extra("exhaustive_subdomains", []string{"IPv4 prefix lengths 0..32", "every port value 0..65535 as range start and as range end"})
	// race side run (./check builds this monitor with -race): only the workloads in which goroutines
	// use the library at the same time; the detector's reports are filed by Finish
	if mon.SideRace() {
		concurrentParsers()
		r.Finish()
	}
	ipv4Workload()
	ipv6Workload()
	portWorkload()
	hashWorkload()
	stateWorkload()     // state.go: operands intact, stale fields, held objects, neighbour sequences, concurrent callers
	rangeEditWorkload() // ranges.go: long-lived range / subnet objects whose bounds are edited in place between membership calls
	r.Finish()
}
