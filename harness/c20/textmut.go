package main

import (
	"fmt"
	"math/rand/v2"
	"regexp"
	"strings"

	"github.com/TheManticoreProject/Manticore/network/ip"

	"verif/mon"
)

var leadingZeros = regexp.MustCompile(`(^|[./])\+?0*([0-9])`)

// normalV4 is the most a lenient reader may forgive: blanks around the text, an explicit plus
// sign and leading zeros of a decimal number. Everything else must be there as written.
func normalV4(s string) string {
	s = strings.TrimSpace(s)
	for {
		t := leadingZeros.ReplaceAllString(s, "$1$2")
		if t == s {
			return s
		}
		s = t
	}
}

// ipv4Mutations: near-valid CIDR texts: no panic, and an accepted text whose reading is the
// canonical one (decimal, modulo normalV4) must print to text that parses back to the same
// value. Other readings of non-canonical spellings are counted in the evidence only.
func ipv4Mutations() {
	rng := r.Rand("v4-textmut")
	judge := func(s, how string) {
		var got *ip.IPv4
		p, pv, st := mon.Guard(func() { got = ip.NewIPv4FromString(s) })
		r.Eval(1)
		cs := map[string]any{"text": s, "mutation": how}
		if p {
			r.Violation("ip.NewIPv4FromString:panic:"+mon.PanicClass(pv), fmt.Sprintf("panic %v at %s on %q", pv, mon.TopLibFrame(st), s), cs)
			return
		}
		if got == nil {
			r.Count("mutated_v4_texts_refused", 1)
			return
		}
		r.Count("mutated_v4_texts_accepted", 1)
		back := fmt.Sprintf("%d.%d.%d.%d/%d", got.A, got.B, got.C, got.D, got.MaskBits)
		if back != normalV4(s) || got.MaskBits > 32 {
			// C20 speaks about texts the library prints and about membership arithmetic; what a
			// parser does with other spellings is recorded, not judged (a reader that learns the
			// netmask form or hexadecimal octets does not break the property)
			r.Count("mutated_v4_texts_accepted_in_another_reading(not judged):"+how, 1)
			return
		}
		// an accepted text in the canonical reading: value and printed form must agree with it
		if p := ip.NewIPv4FromString(back); p == nil || *p != *got {
			r.Violation("ip.NewIPv4FromString:reparse", fmt.Sprintf("NewIPv4FromString(%q) = %s, which does not parse back to the same value", s, back), cs)
		}
	}
	for k := 0; k < r.Pick(2500, 60000); k++ {
		v := rng.Uint32()
		switch k % 4 {
		case 0:
			v &= 0x0F0F0F0F // small octets, so that a lost or added digit stays in range
		case 1:
			v = v&0x07070707 | 0x08080808&rng.Uint32() // octets 0..15: octal and decimal readings differ from 8 on
		}
		base := fmt.Sprintf("%s/%d", dotted(v), rng.IntN(33))
		judge(base, "none")
		for _, m := range mutateV4(base, rng) {
			judge(m[0], m[1])
		}
		r.Nontrivial(fmt.Sprintf("v4mut|%d", k))
	}
}

func mutateV4(s string, rng *rand.Rand) [][2]string {
	var out [][2]string
	add := func(t, how string) {
		if t != s {
			out = append(out, [2]string{t, how})
		}
	}
	parts := strings.SplitN(s, "/", 2)
	oct := strings.Split(parts[0], ".")
	join := func(o []string, bits string) string { return strings.Join(o, ".") + "/" + bits }
	for i := range oct {
		for _, f := range []struct{ pre, how string }{{"0", "leading-zero"}, {"00", "leading-zero"}, {"0x", "hex-prefix"}, {"0o", "octal-prefix"}, {"0b", "binary-prefix"}, {"+", "plus-sign"}, {"-", "minus-sign"}, {" ", "inner-space"}} {
			o := append([]string{}, oct...)
			o[i] = f.pre + o[i]
			add(join(o, parts[1]), f.how)
		}
		o := append([]string{}, oct...)
		o[i] = o[i] + "_0"
		add(join(o, parts[1]), "underscore")
		o = append([]string{}, oct...)
		o[i] = o[i] + "e0"
		add(join(o, parts[1]), "exponent")
		o = append([]string{}, oct...)
		o[i] = ""
		add(join(o, parts[1]), "empty-octet")
	}
	for _, f := range []string{"0", "0x", "+", "-", " ", "0o"} {
		add(parts[0]+"/"+f+parts[1], "prefix-length-"+map[string]string{"0": "leading-zero", "0x": "hex-prefix", "+": "plus-sign", "-": "minus-sign", " ": "inner-space", "0o": "octal-prefix"}[f])
	}
	add(parts[0]+"/"+parts[1]+".0", "prefix-length-fraction")
	add(parts[0]+"/255.255.255.0", "netmask-form")
	add(parts[0]+"/"+parts[1]+"/"+parts[1], "second-slash")
	add(parts[0]+":80/"+parts[1], "port")
	add("["+parts[0]+"]/"+parts[1], "brackets")
	add("::ffff:"+s, "mapped-ipv6")
	add(parts[0]+"%eth0/"+parts[1], "zone")
	add(strings.Replace(s, ".", ",", 1), "comma")
	add(strings.Replace(s, ".", "。", 1), "ideographic-stop")
	add(strings.Replace(s, "/", "\\", 1), "backslash")
	add(s+"\x00", "nul-suffix")
	add(s+"\n", "newline-suffix")
	add(s+"\n"+s, "two-lines")
	pos := rng.IntN(len(s))
	add(s[:pos]+s[pos+1:], "char-deleted")
	add(s[:pos]+"0"+s[pos:], "char-inserted")
	add(s[:pos]+"٣"+s[pos:], "arabic-digit")
	add(s[:pos]+"３"+s[pos:], "fullwidth-digit")
	return out
}
