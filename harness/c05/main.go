// C05: SMB1 structures are emitted in the encoding MS-CIFS prescribes (little-endian
// integers of width 1/2/4/8, AndX = command/reserved/offset, per-dialect and per-string
// buffer-format framing), judged by independent little-endian writers/readers.
package main

import (
	"bytes"
	"encoding/binary"
	"fmt"
	"reflect"
	"strings"

	"github.com/TheManticoreProject/Manticore/network/smb/smb_v10/dialects"
	"github.com/TheManticoreProject/Manticore/network/smb/smb_v10/message/commands/andx"
	"github.com/TheManticoreProject/Manticore/network/smb/smb_v10/message/commands/codes"
	ci "github.com/TheManticoreProject/Manticore/network/smb/smb_v10/message/commands/command_interface"
	"github.com/TheManticoreProject/Manticore/network/smb/smb_v10/message/header"
	"github.com/TheManticoreProject/Manticore/network/smb/smb_v10/types"

	"verif/mon"
	"verif/smbgen"
)

var r *mon.Run

func le(width int, v uint64) []byte {
	b := make([]byte, 8)
	binary.LittleEndian.PutUint64(b, v)
	return b[:width]
}

func be(width int, v uint64) []byte {
	b := le(width, v)
	out := make([]byte, width)
	for i := range b {
		out[width-1-i] = b[i]
	}
	return out
}

func leUint(b []byte) uint64 {
	var v uint64
	for i := range b {
		v |= uint64(b[i]) << (8 * uint(i))
	}
	return v
}

func distinctValue(width int, salt int) uint64 {
	var v uint64
	for i := 0; i < width; i++ {
		v |= uint64((0x21+salt*7+i*0x13)&0xFF) << (8 * uint(i))
	}
	return v
}

// leafKey maps leaves that are all served by one code site onto one key.
func leafKey(s smbgen.Struct, lf smbgen.IntLeaf, class string) string {
	top, ok := s.Type.FieldByName(lf.Top)
	if ok && top.Type.Name() == "SMB_FILE_ATTRIBUTES" {
		return "types.SMB_FILE_ATTRIBUTES:" + class
	}
	return s.Name + ":" + class + ":" + lf.Path
}

func byteOrder(structs []smbgen.Struct) {
	for _, s := range structs {
		rels := smbgen.Relations(s.Name)
		for bi := 0; bi < r.Pick(4, 60); bi++ {
			byteOrderOne(s, rels, bi)
		}
	}
}

func byteOrderOne(s smbgen.Struct, rels []smbgen.Relation, bi int) {
	{
		c := s.New()
		mode := smbgen.ModeRandom
		if bi < 4 {
			mode = smbgen.Mode(bi) // byte-distinct, all-ones, sign-bit, one
		}
		smbgen.Fill(c, rels, r.Rand(fmt.Sprintf("bo|%s|%d", s.Name, bi)), mode, 5+bi%40)
		smbgen.AlignPads(c, rels)
		base, slots, ok := smbgen.FindSlots(c, s.Type)
		if !ok {
			r.Count("structs_not_encodable", 1)
			return
		}
		_ = base
		if bi == 0 {
			r.Count("integer_leaves_total", len(smbgen.IntLeaves(s.Type)))
		}
		for si, sl := range slots {
			lf := sl.Leaf
			v := lf.Leaf(reflect.ValueOf(c).Elem())
			orig := smbgen.GetBits(v)
			for k := 0; k < 2; k++ {
				val := distinctValue(lf.Width, si+k*5)
				smbgen.SetBits(v, val)
				var wire []byte
				var err error
				p, _, _ := mon.Guard(func() { wire, err = c.Marshal() })
				r.Eval(1)
				if p || err != nil || len(wire) < sl.Hi {
					continue
				}
				got := wire[sl.Lo:sl.Hi]
				cs := map[string]any{"struct": s.Name, "field": lf.Path, "value": fmt.Sprintf("%#x", val), "slot": []int{sl.Lo, sl.Hi}, "wire": mon.FullHex(wire)}
				if !bytes.Equal(got, le(lf.Width, val)) {
					// the same bytes in the other order is a byte-order matter (one of them is a pinned
					// finding); anything else is a wrong value and has its own key
					class := "value"
					what := fmt.Sprintf("field %s=%#x is encoded as % x, MS-CIFS little-endian is % x", lf.Path, val, got, le(lf.Width, val))
					if bytes.Equal(got, be(lf.Width, val)) {
						class = "byteorder"
						what += " (big-endian)"
					}
					r.Violation(leafKey(s, lf, class), what, cs)
				}
				r.Nontrivial(fmt.Sprintf("enc|%s|%s|%d|%d", s.Name, lf.Path, k, bi))
				// decode direction: reference little-endian bytes in the slot
				if lf.Width > 1 {
					val2 := distinctValue(lf.Width, si+k*5+3)
					in := append([]byte{}, wire...)
					copy(in[sl.Lo:sl.Hi], le(lf.Width, val2))
					d := s.New()
					var uerr error
					p, _, _ := mon.Guard(func() { _, uerr = d.Unmarshal(in) })
					r.Eval(1)
					if !p && uerr == nil {
						dv := smbgen.GetBits(lf.Leaf(reflect.ValueOf(d).Elem()))
						if dv != val2 {
							dclass := "decode-value"
							if bytes.Equal(le(lf.Width, dv), be(lf.Width, val2)) {
								dclass = "decode-byteorder"
							}
							r.Violation(leafKey(s, lf, dclass), fmt.Sprintf("little-endian bytes % x in the slot of %s decode to %#x, want %#x", le(lf.Width, val2), lf.Path, dv, val2),
								map[string]any{"struct": s.Name, "field": lf.Path, "wire": mon.FullHex(in)})
						}
						r.Nontrivial(fmt.Sprintf("dec|%s|%s|%d", s.Name, lf.Path, k))
					}
				}
			}
			smbgen.SetBits(v, orig)
		}
		if bi == 0 && (s.Name == "NtCreateAndxRequest" || s.Name == "SeekRequest") {
			var d []string
			for _, sl := range slots {
				d = append(d, fmt.Sprintf("%s@%d..%d", sl.Leaf.Path, sl.Lo, sl.Hi))
			}
			r.Sample(map[string]any{"kind": "slots", "struct": s.Name, "slots": d})
		}
	}
}

// AndX block: command, reserved, offset (LE16) — as first four parameter bytes and via AndX.Marshal.
func andxBlocks(structs []smbgen.Struct) {
	for oi, off := range []uint16{0x0102, 0x8001, 0x00FF, 0xFF00, 0x0304, 0x7F80} {
		cmd := byte(0xA2)
		if oi >= 4 {
			cmd = 0xFF // the chain terminator: the offset field is still a field
		}
		a := andx.NewAndX()
		a.AndXCommand, a.AndXReserved, a.AndXOffset = codes.CommandCode(cmd), 0x5A, off
		want := []byte{cmd, 0x5A, byte(off), byte(off >> 8)}
		got, err := a.Marshal()
		r.Eval(1)
		if err == nil && len(got) == 4 && !bytes.Equal(got, want) && !bytes.Equal(got, []byte{want[0], want[1], want[3], want[2]}) {
			r.Violation("andx.AndX.Marshal:value", fmt.Sprintf("AndX{cmd %02x, reserved 5a, offset %#04x} encodes as % x", cmd, off, got), map[string]any{"offset": off})
		} else if err != nil || !bytes.Equal(got, want) {
			r.Violation("andx.AndX.Marshal:offset-byteorder", fmt.Sprintf("AndX{cmd a2, reserved 5a, offset %#04x} encodes as % x, want % x", off, got, want), map[string]any{"offset": off})
		}
		b := andx.NewAndX()
		_, err = b.Unmarshal(want)
		r.Eval(1)
		swapped := off>>8 | off<<8
		if err != nil || (b.AndXOffset != off && b.AndXOffset != swapped) || b.AndXReserved != 0x5A || uint8(b.AndXCommand) != cmd {
			// not a byte-order matter (that is the pinned finding below): the field is lost or wrong
			r.Violation("andx.AndX.Unmarshal:value", fmt.Sprintf("bytes % x decode to %+v (err %v)", want, *b, err), map[string]any{"offset": off})
		} else if b.AndXOffset != off {
			r.Violation("andx.AndX.Unmarshal:offset-byteorder", fmt.Sprintf("bytes % x decode to %+v", want, *b), map[string]any{"offset": off})
		}
		for _, s := range structs {
			c := s.New()
			if !c.IsAndX() {
				continue
			}
			smbgen.Fill(c, smbgen.Relations(s.Name), r.Rand("andx|"+s.Name), smbgen.ModeDistinct, 4)
			x := andx.NewAndX()
			x.AndXCommand, x.AndXReserved, x.AndXOffset = codes.CommandCode(cmd), 0x5A, off
			c.SetAndX(x)
			var wire []byte
			p, _, _ := mon.Guard(func() { wire, err = c.Marshal() })
			r.Eval(1)
			if p || err != nil {
				continue
			}
			params, _, ok := smbgen.Blocks(wire)
			if !ok || len(params) < 4 {
				r.Violation(s.Name+":andx:missing", "AndX structure's parameter block is shorter than the AndX words", map[string]any{"wire": mon.FullHex(wire)})
				continue
			}
			if !bytes.Equal(params[:2], want[:2]) {
				r.Violation(s.Name+":andx:command-reserved", fmt.Sprintf("first parameter bytes % x, want % x", params[:4], want), map[string]any{"wire": mon.FullHex(wire)})
			} else if !bytes.Equal(params[2:4], want[2:]) && !bytes.Equal(params[2:4], []byte{want[3], want[2]}) {
				r.Violation(s.Name+":andx:offset-value", fmt.Sprintf("AndXOffset %#04x (AndXCommand %#02x) is on the wire as % x: neither byte order of the value", off, cmd, params[2:4]), map[string]any{"struct": s.Name, "wire": mon.FullHex(wire)})
			} else if !bytes.Equal(params[2:4], want[2:]) {
				r.Violation("andx.AndX.GetParameters:offset-byteorder", fmt.Sprintf("%s: AndXOffset %#04x is on the wire as % x, want % x", s.Name, off, params[2:4], want[2:]), map[string]any{"struct": s.Name, "wire": mon.FullHex(wire)})
			}
			r.Nontrivial(fmt.Sprintf("andx|%s|%04x", s.Name, off))
		}
	}
}

func refDialects(names []string) []byte {
	var b []byte
	for _, n := range names {
		b = append(b, 0x02)
		b = append(b, n...)
		b = append(b, 0)
	}
	return b
}

func dialectFraming() {
	rng := r.Rand("dialects")
	// OEM strings are byte strings: names with bytes >= 0x80, UTF-8 multi-byte sequences and
	// invalid UTF-8 must pass through unchanged
	pool := []string{"PC NETWORK PROGRAM 1.0", "LANMAN1.0", "Windows for Workgroups 3.1a", "LM1.2X002", "LANMAN2.1", "NT LM 0.12", "X", "a b c",
		"R\xe9seau 1.0", "\xc4\x80LAN", "\xff\xfeOEM\x80", "\xe2\x82\xac-DIALECT", "caf\xc3\xa9"}
	for n := 0; n <= r.Pick(12, 40); n++ {
		for t := 0; t < r.Pick(6, 60); t++ {
			var names []string
			for i := 0; i < n; i++ {
				if t == 0 {
					names = append(names, pool[i%len(pool)])
				} else {
					names = append(names, pool[rng.IntN(len(pool))]+fmt.Sprint(rng.IntN(10)))
				}
			}
			want := refDialects(names)
			d := dialects.NewDialects()
			for _, x := range names {
				d.AddDialect(x)
			}
			cs := map[string]any{"dialects": names, "ref_wire": mon.FullHex(want)}
			var got []byte
			var err error
			p, pv, st := mon.Guard(func() { got, err = d.Marshal() })
			r.Eval(1)
			if p {
				r.Violation("dialects.Marshal:panic", fmt.Sprintf("%v at %s", pv, mon.TopLibFrame(st)), cs)
			} else if err != nil || !bytes.Equal(got, want) {
				r.Violation("dialects.Marshal:framing", fmt.Sprintf("%d dialects encode as % x, MS-CIFS wants % x", n, got, want), cs)
			}
			d2 := dialects.NewDialects()
			var cnt int
			p, pv, st = mon.Guard(func() { cnt, err = d2.Unmarshal(want) })
			r.Eval(1)
			if p {
				r.Violation("dialects.Unmarshal:panic", fmt.Sprintf("%v at %s", pv, mon.TopLibFrame(st)), cs)
			} else if err != nil || cnt != len(want) || strings.Join(d2.Dialects, "\x00") != strings.Join(names, "\x00") || len(d2.Dialects) != len(names) {
				r.Violation("dialects.Unmarshal:framing", fmt.Sprintf("reference encoding of %d dialects decodes to %q (n=%d err=%v)", n, d2.Dialects, cnt, err), cs)
			}
			// a value copy of a decoded list that then decodes another negotiate request must leave the
			// original with its own dialects: it still lists and re-encodes what it decoded (C04-r9-1)
			if n >= 1 && !p && err == nil && len(d2.Dialects) == len(names) {
				other := make([]string, 0, n)
				for i := n - 1; i >= 0; i-- {
					other = append(other, "~"+names[i])
				}
				cp := *d2
				var again []byte
				var err2, err3 error
				p2, pv2, st2 := mon.Guard(func() {
					_, err2 = cp.Unmarshal(refDialects(other))
					again, err3 = d2.Marshal()
				})
				r.Eval(1)
				cs2 := map[string]any{"dialects": names, "decoded_into_copy": other, "ref_wire": mon.FullHex(want)}
				if p2 {
					r.Violation("dialects.Unmarshal:value-copy:panic", fmt.Sprintf("%v at %s", pv2, mon.TopLibFrame(st2)), cs2)
				} else if err2 == nil && (strings.Join(d2.Dialects, "\x00") != strings.Join(names, "\x00") || err3 != nil || !bytes.Equal(again, want)) {
					r.Violation("dialects.Unmarshal:value-copy-rewritten", fmt.Sprintf("after b := *a; b.Unmarshal(other list of %d), a lists %q and re-encodes as % x (err=%v); a decoded %q", n, d2.Dialects, again, err3, names), cs2)
				}
			}
			r.Nontrivial(fmt.Sprintf("dialects|%d|%d", n, t))
		}
	}
	r.Sample(map[string]any{"kind": "dialects", "names": pool[:3], "wire": mon.Hex(refDialects(pool[:3]))})
}

// string framing: every SMB_STRING a command emits must appear in the data block as
// format byte [+len16] + bytes [+ NUL] according to the format the command chose.
func refString(format byte, b []byte) []byte {
	switch format {
	case 0x01, 0x05:
		return append(append([]byte{format}, le(2, uint64(len(b)))...), b...)
	case 0x02, 0x04:
		return append(append([]byte{format}, b...), 0)
	case 0x03:
		return append(append(append([]byte{format}, le(2, uint64(len(b)))...), b...), 0)
	}
	return nil
}

func stringFraming(structs []smbgen.Struct) {
	for _, s := range structs {
		var strFields []int
		for i := 0; i < s.Type.NumField(); i++ {
			if s.Type.Field(i).Type.Name() == "SMB_STRING" {
				strFields = append(strFields, i)
			}
		}
		if len(strFields) == 0 {
			continue
		}
		for it := 0; it < r.Pick(8, 60); it++ {
			c := s.New()
			mode := smbgen.ModeRandom
			if it == 0 {
				mode = smbgen.ModeDistinct
			}
			smbgen.Fill(c, smbgen.Relations(s.Name), r.Rand(fmt.Sprintf("str|%s|%d", s.Name, it)), mode, 30)
			v := reflect.ValueOf(c).Elem()
			// make contents unique markers
			for k, fi := range strFields {
				sv := v.Field(fi).Addr().Interface().(*types.SMB_STRING)
				marker := []byte(fmt.Sprintf("<%s%d:%d>", s.Type.Field(fi).Name, k, it))
				sv.Buffer = marker
				sv.Length = uint16(len(marker))
			}
			smbgen.ApplyRelations(v, smbgen.Relations(s.Name))
			var wire []byte
			var err error
			p, _, _ := mon.Guard(func() { wire, err = c.Marshal() })
			r.Eval(1)
			if p || err != nil {
				continue
			}
			_, data, ok := smbgen.Blocks(wire)
			if !ok {
				continue
			}
			for _, fi := range strFields {
				sv := v.Field(fi).Addr().Interface().(*types.SMB_STRING)
				name := s.Type.Field(fi).Name
				want := refString(byte(sv.BufferFormat), sv.Buffer)
				cs := map[string]any{"struct": s.Name, "field": name, "format": sv.BufferFormat, "wire": mon.FullHex(wire)}
				if want == nil {
					r.Violation(s.Name+":string-framing:"+name+":format", fmt.Sprintf("string %s is emitted with buffer format %#02x, not one MS-CIFS 2.2.1 defines", name, sv.BufferFormat), cs)
					continue
				}
				if !bytes.Contains(data, want) {
					r.Violation(s.Name+":string-framing:"+name, fmt.Sprintf("data block does not contain % x (format byte, content, terminator/length) for %s", want, name), cs)
				}
				r.Nontrivial(fmt.Sprintf("str|%s|%s|%d", s.Name, name, it))
			}
		}
	}
}

// ---- hand-written subset codec (independent encoder + decoder from MS-CIFS)

type pf struct {
	path  string
	width int
}
type df struct {
	kind string // "str04", "bytes", "dialects"
	name string
}
type spec struct {
	name       string
	andx       bool
	params     []pf
	data       []df
	paramsOnly bool
}

var subset = []spec{
	{name: "EchoRequest", params: []pf{{"EchoCount", 2}}, data: []df{{"bytes", "Data"}}},
	{name: "EchoResponse", params: []pf{{"SequenceNumber", 2}}, data: []df{{"bytes", "Data"}}},
	{name: "ReadAndxRequest", andx: true, params: []pf{{"FID", 2}, {"Offset", 4}, {"MaxCountOfBytesToReturn", 2}, {"MinCountOfBytesToReturn", 2}, {"Timeout", 4}, {"Remaining", 2}}},
	{name: "WriteAndxResponse", andx: true, params: []pf{{"Count", 2}, {"Available", 2}, {"Reserved", 4}}},
	{name: "FlushRequest", params: []pf{{"FID", 2}}},
	{name: "SeekRequest", params: []pf{{"FID", 2}, {"Mode", 2}, {"Offset", 4}}},
	{name: "SeekResponse", params: []pf{{"Offset", 4}}},
	{name: "LockByteRangeRequest", params: []pf{{"FID", 2}, {"CountOfBytesToLock", 4}, {"LockOffsetInBytes", 4}}},
	{name: "UnlockByteRangeRequest", params: []pf{{"FID", 2}, {"CountOfBytesToUnlock", 4}, {"UnlockOffsetInBytes", 4}}},
	{name: "DeleteRequest", params: []pf{{"SearchAttributes.Attributes", 2}}, data: []df{{"str04", "FileName"}}},
	{name: "CheckDirectoryRequest", data: []df{{"str04", "DirectoryName"}}},
	{name: "CreateDirectoryRequest", data: []df{{"str04", "DirectoryName"}}},
	{name: "DeleteDirectoryRequest", data: []df{{"str04", "DirectoryName"}}},
	{name: "RenameRequest", params: []pf{{"SearchAttributes.Attributes", 2}}, data: []df{{"str04", "OldFileName"}, {"str04", "NewFileName"}}},
	{name: "NtCreateAndxRequest", andx: true, paramsOnly: true, params: []pf{{"Reserved", 1}, {"NameLength", 2}, {"Flags", 4}, {"RootDirectoryFID", 4}, {"DesiredAccess", 4}, {"AllocationSize.QuadPart", 8}, {"ExtFileAttributes", 4}, {"ShareAccess", 4}, {"CreateDisposition", 4}, {"CreateOptions", 4}, {"ImpersonationLevel", 4}, {"SecurityFlags", 1}}},
	{name: "TreeDisconnectRequest"},
	{name: "LogoffAndxRequest", andx: true},
	{name: "NegotiateRequest", data: []df{{"dialects", "Dialects"}}},
}

func fieldByPath(v reflect.Value, path string) reflect.Value {
	for _, p := range strings.Split(path, ".") {
		v = v.FieldByName(p)
		if !v.IsValid() {
			return v
		}
	}
	return v
}

func subsetCodec(structs []smbgen.Struct) {
	byName := map[string]smbgen.Struct{}
	for _, s := range structs {
		byName[s.Name] = s
	}
	for _, sp := range subset {
		s, ok := byName[sp.name]
		if !ok {
			r.Violation("subset:"+sp.name+":missing", "structure no longer reachable from the factories", nil)
			continue
		}
		for it := 0; it < r.Pick(30, 600); it++ {
			rng := r.Rand(fmt.Sprintf("subset|%s|%d", sp.name, it))
			c := s.New()
			v := reflect.ValueOf(c).Elem()
			var params, data []byte
			type rng2 struct {
				lo, hi int
				path   string
			}
			var pranges []rng2
			bad := false
			if sp.andx {
				params = append(params, 0xFF, 0x00, 0x00, 0x00)
				x := andx.NewAndX()
				x.AndXCommand = codes.SMB_COM_NO_ANDX_COMMAND
				c.SetAndX(x)
			}
			vals := map[string]uint64{}
			for fi, f := range sp.params {
				fv := fieldByPath(v, f.path)
				if !fv.IsValid() {
					r.Violation("subset:"+sp.name+":field-missing:"+f.path, "field not found", nil)
					bad = true
					break
				}
				val := distinctValue(f.width, fi+it)
				if it%3 == 1 {
					val = rng.Uint64()
				}
				if f.width < 8 {
					val &= 1<<uint(8*f.width) - 1
				}
				smbgen.SetBits(fv, val)
				vals[f.path] = val
				pranges = append(pranges, rng2{len(params), len(params) + f.width, f.path})
				params = append(params, le(f.width, val)...)
			}
			if bad {
				break
			}
			strs := map[string][]byte{}
			var dnames []string
			for di, d := range sp.data {
				fv := v.FieldByName(d.name)
				switch d.kind {
				case "bytes":
					b := make([]byte, rng.IntN(40))
					for i := range b {
						b[i] = byte(rng.UintN(256))
					}
					fv.SetBytes(b)
					strs[d.name] = b
					data = append(data, b...)
				case "str04":
					n := 1 + rng.IntN(20)
					b := make([]byte, n)
					for i := range b {
						b[i] = byte('a' + (i+di+it)%26)
					}
					sv := fv.Addr().Interface().(*types.SMB_STRING)
					sv.Buffer, sv.Length = b, uint16(n)
					strs[d.name] = b
					data = append(data, 0x04)
					data = append(data, b...)
					data = append(data, 0)
				case "dialects":
					n := rng.IntN(6)
					for i := 0; i < n; i++ {
						dnames = append(dnames, fmt.Sprintf("DIALECT %d.%d", i, it))
					}
					dv := fv.Addr().Interface().(*dialects.Dialects)
					dv.Dialects = dnames
					data = append(data, refDialects(dnames)...)
				}
			}
			if len(params)%2 != 0 {
				r.Inconclusive("subset spec for " + sp.name + " has an odd parameter length")
				break
			}
			ref := append([]byte{byte(len(params) / 2)}, params...)
			ref = append(ref, le(2, uint64(len(data)))...)
			ref = append(ref, data...)
			cs := map[string]any{"struct": sp.name, "iter": it, "ref_wire": mon.FullHex(ref), "values": fmt.Sprintf("%#x", vals)}
			var wire []byte
			var err error
			p, pv, st := mon.Guard(func() { wire, err = c.Marshal() })
			r.Eval(1)
			if p {
				r.Violation("subset:"+sp.name+":marshal-panic", fmt.Sprintf("%v at %s", pv, mon.TopLibFrame(st)), cs)
				continue
			}
			if err != nil {
				r.Violation("subset:"+sp.name+":marshal-error", err.Error(), cs)
				continue
			}
			cs["lib_wire"] = mon.FullHex(wire)
			lp, ld, fok := smbgen.Blocks(wire)
			switch {
			case !fok:
				r.Violation("subset:"+sp.name+":framing", "library output violates the word-count/byte-count framing", cs)
			case !bytes.Equal(lp, params):
				key := "subset:" + sp.name + ":params"
				if len(lp) != len(params) {
					key += ":length"
				} else {
					for i := range lp {
						if lp[i] != params[i] {
							for _, pr := range pranges {
								if i >= pr.lo && i < pr.hi {
									key = "subset:" + sp.name + ":params:" + pr.path
									if f, ok := s.Type.FieldByName(strings.Split(pr.path, ".")[0]); ok && f.Type.Name() == "SMB_FILE_ATTRIBUTES" && bytes.Equal(lp[pr.lo:pr.hi], be(pr.hi-pr.lo, leUint(params[pr.lo:pr.hi]))) {
										key = "types.SMB_FILE_ATTRIBUTES:byteorder" // the pinned finding: same bytes, other order
									}
								}
							}
							break
						}
					}
				}
				r.Violation(key, fmt.Sprintf("parameter block % x, independent MS-CIFS encoder gives % x", lp, params), cs)
			case !sp.paramsOnly && !bytes.Equal(ld, data):
				r.Violation("subset:"+sp.name+":data", fmt.Sprintf("data block % x, independent MS-CIFS encoder gives % x", ld, data), cs)
			}
			// decode direction: the reference encoding must be accepted to the same values
			if !sp.paramsOnly {
				d := s.New()
				var uerr error
				p, pv, st = mon.Guard(func() { _, uerr = d.Unmarshal(ref) })
				r.Eval(1)
				if p {
					r.Violation("subset:"+sp.name+":unmarshal-panic", fmt.Sprintf("%v at %s", pv, mon.TopLibFrame(st)), cs)
				} else if uerr != nil {
					r.Violation("subset:"+sp.name+":unmarshal-error", "reference encoding refused: "+uerr.Error(), cs)
				} else {
					dvv := reflect.ValueOf(d).Elem()
					for _, f := range sp.params {
						if got := smbgen.GetBits(fieldByPath(dvv, f.path)); got != vals[f.path] {
							key := "subset:" + sp.name + ":decode:" + f.path
							if tf, ok := s.Type.FieldByName(strings.Split(f.path, ".")[0]); ok && tf.Type.Name() == "SMB_FILE_ATTRIBUTES" && got == uint64(uint16(vals[f.path])>>8|uint16(vals[f.path])<<8) {
								key = "types.SMB_FILE_ATTRIBUTES:decode-byteorder" // the pinned finding: same bytes, other order
							}
							r.Violation(key, fmt.Sprintf("reference bytes decode %s as %#x, want %#x", f.path, got, vals[f.path]), cs)
						}
					}
					for _, dd := range sp.data {
						fv := dvv.FieldByName(dd.name)
						switch dd.kind {
						case "bytes":
							if !bytes.Equal(fv.Bytes(), strs[dd.name]) {
								r.Violation("subset:"+sp.name+":decode:"+dd.name, "byte buffer decoded differently", cs)
							}
						case "str04":
							if !bytes.Equal(fv.FieldByName("Buffer").Bytes(), strs[dd.name]) {
								r.Violation("subset:"+sp.name+":decode:"+dd.name, "string decoded differently", cs)
							}
						case "dialects":
							got := fv.Addr().Interface().(*dialects.Dialects).Dialects
							if strings.Join(got, "\x00") != strings.Join(dnames, "\x00") || len(got) != len(dnames) {
								r.Violation("subset:"+sp.name+":decode:"+dd.name, fmt.Sprintf("dialects decoded as %q want %q", got, dnames), cs)
							}
						}
					}
				}
			}
			r.Nontrivial(fmt.Sprintf("subset|%s|%d", sp.name, it))
			if it == 0 && (sp.name == "RenameRequest" || sp.name == "ReadAndxRequest") {
				r.Sample(map[string]any{"kind": "subset", "struct": sp.name, "ref_wire": mon.Hex(ref)})
			}
		}
	}
}

// header: byte-distinct field values against the independent layout (shared idea with C03).
func headerLE() {
	h := header.NewHeader()
	h.Command = 0x25
	h.Status = 0x01020304
	h.Flags = 0x98
	h.Flags2 = 0x0506
	h.PIDHigh, h.Reserved, h.TID, h.PIDLow, h.UID, h.MID = 0x0708, 0x090A, 0x0B0C, 0x0D0E, 0x0F10, 0x1112
	want := []byte{0xFF, 'S', 'M', 'B', 0x25, 4, 3, 2, 1, 0x98, 6, 5, 8, 7, 0, 0, 0, 0, 0, 0, 0, 0, 0x0A, 9, 0x0C, 0x0B, 0x0E, 0x0D, 0x10, 0x0F, 0x12, 0x11}
	got, err := h.Marshal()
	r.Eval(1)
	if err != nil || !bytes.Equal(got, want) {
		r.Violation("header.Marshal:byteorder", fmt.Sprintf("header % x want % x", got, want), nil)
	}
	r.Nontrivial("header|distinct")
}

var _ ci.CommandInterface

func main() {
	r = mon.Start("C05", "exploration")
	r.Rule("For every structure from the factories, every fixed-width integer leaf whose wire slot can be located (complement probe) is set to two byte-distinct values: the slot must hold the little-endian bytes at the declared width, and little-endian bytes written into the slot must decode to the value. AndX blocks with byte-distinct offset in every AndX structure; 0..N dialects; every SMB_STRING field against the MS-CIFS framing of the format the command chose; 18 structures compared byte-for-byte in both directions with a hand-written MS-CIFS codec. Non-trivial/distinct: distinct (structure, field, probe) with byte-distinct value; (structure, string field, iteration); (dialect count, iteration); (subset structure, iteration).")
	r.Assume("composite types the library models differently from MS-CIFS (8-byte SMB_TIME, NT_CREATE_ANDX FileName buffer format) are not compared byte-for-byte", "MS-CIFS PDFs are emptied in this image: the subset codec is written from knowledge of MS-CIFS 2.2.4")
	structs, _, _ := smbgen.Enumerate()
	r.Extra("structures", len(structs))
	headerLE()
	byteOrder(structs)
	andxBlocks(structs)
	dialectFraming()
	stringFraming(structs)
	subsetCodec(structs)
	r.Finish()
}
