// Independent MS-NLMP reader / writer used as the oracle of C02 and C08.
// Written from MS-NLMP §2.2.1.1 (NEGOTIATE), §2.2.1.2 (CHALLENGE), §2.2.1.3
// (AUTHENTICATE), §2.2.2.1 (AV_PAIR), §2.2.2.7 (NTLMv2_CLIENT_CHALLENGE),
// §2.2.2.10 (VERSION). It shares no code with the library under test.
//
// This file is kept byte-identical in harness/c02 and harness/c08 (builders
// may not add shared packages).
package main

import (
	"bytes"
	"encoding/binary"
	"fmt"
	"sort"
	"strings"
)

const (
	fUnicode          uint32 = 0x00000001
	fOEM              uint32 = 0x00000002
	fRequestTarget    uint32 = 0x00000004
	fSign             uint32 = 0x00000010
	fSeal             uint32 = 0x00000020
	fLMKey            uint32 = 0x00000080
	fNTLM             uint32 = 0x00000200
	fDomainSupplied   uint32 = 0x00001000
	fWsSupplied       uint32 = 0x00002000
	fAlwaysSign       uint32 = 0x00008000
	fTargetTypeDomain uint32 = 0x00010000
	fTargetTypeServer uint32 = 0x00020000
	fESS              uint32 = 0x00080000
	fTargetInfo       uint32 = 0x00800000
	fVersion          uint32 = 0x02000000
	f128              uint32 = 0x20000000
	fKeyExch          uint32 = 0x40000000
	f56               uint32 = 0x80000000
)

var nlmpSig = []byte{'N', 'T', 'L', 'M', 'S', 'S', 'P', 0}

// problem is one structural complaint; Class[:Field] becomes part of a violation key.
type problem struct{ Class, Field, Detail string }

func (p problem) Key() string {
	if p.Field == "" {
		return p.Class
	}
	return p.Class + ":" + p.Field
}

type desc struct {
	Len, Max uint16
	Off      uint32
}

func rdDesc(b []byte, at int) desc {
	return desc{binary.LittleEndian.Uint16(b[at:]), binary.LittleEndian.Uint16(b[at+2:]), binary.LittleEndian.Uint32(b[at+4:])}
}

// parsedMsg is what the independent reader recovers from a NEGOTIATE (type 1)
// or AUTHENTICATE (type 3) message.
type parsedMsg struct {
	Type    uint32
	Flags   uint32
	Fields  map[string][]byte // only fields whose descriptor is in bounds
	Descs   map[string]desc
	Order   []string
	Version []byte // the 8 bytes after the fixed part, when the message is long enough
	Total   int
}

type fieldAt struct {
	name string
	at   int
}

// readMessage checks the signature, the type and every (Len, MaxLen, Offset)
// descriptor of a client-built message.
func readMessage(b []byte, wantType uint32) (*parsedMsg, []problem) {
	var ps []problem
	add := func(c, f, d string) { ps = append(ps, problem{c, f, d}) }
	var base, flagsAt int
	var fields []fieldAt
	switch wantType {
	case 1:
		base, flagsAt = 32, 12
		fields = []fieldAt{{"DomainName", 16}, {"Workstation", 24}}
	case 3:
		base, flagsAt = 64, 60
		fields = []fieldAt{{"LmChallengeResponse", 12}, {"NtChallengeResponse", 20}, {"DomainName", 28}, {"UserName", 36}, {"Workstation", 44}, {"EncryptedRandomSessionKey", 52}}
	default:
		panic("readMessage: type")
	}
	m := &parsedMsg{Fields: map[string][]byte{}, Descs: map[string]desc{}, Total: len(b)}
	if len(b) < base {
		add("header", "short", fmt.Sprintf("%d bytes, fixed part needs %d", len(b), base))
		return m, ps
	}
	if !bytes.Equal(b[:8], nlmpSig) {
		add("header", "signature", fmt.Sprintf("%x", b[:8]))
	}
	m.Type = binary.LittleEndian.Uint32(b[8:])
	if m.Type != wantType {
		add("header", "message-type", fmt.Sprintf("got %d want %d", m.Type, wantType))
	}
	m.Flags = binary.LittleEndian.Uint32(b[flagsAt:])
	hdr := base
	if m.Flags&fVersion != 0 {
		hdr = base + 8
		if len(b) < hdr {
			add("header", "short", "VERSION negotiated but no room for the Version field")
			return m, ps
		}
	}
	minOff := len(b)
	type region struct {
		name   string
		lo, hi int
	}
	var regs []region
	for _, f := range fields {
		d := rdDesc(b, f.at)
		m.Descs[f.name] = d
		m.Order = append(m.Order, f.name)
		if d.Len != d.Max {
			add("descriptor", f.name+":maxlen", fmt.Sprintf("Len=%d MaxLen=%d", d.Len, d.Max))
		}
		if d.Len == 0 {
			continue // offset of an empty field is not interpreted by a receiver
		}
		if int64(d.Off) < int64(hdr) {
			add("descriptor", f.name+":offset-in-header", fmt.Sprintf("Offset=%d header=%d", d.Off, hdr))
			continue
		}
		if int64(d.Off)+int64(d.Len) > int64(len(b)) {
			add("descriptor", f.name+":out-of-bounds", fmt.Sprintf("Offset=%d Len=%d total=%d", d.Off, d.Len, len(b)))
			continue
		}
		lo, hi := int(d.Off), int(d.Off)+int(d.Len)
		m.Fields[f.name] = b[lo:hi]
		regs = append(regs, region{f.name, lo, hi})
		if lo < minOff {
			minOff = lo
		}
	}
	sort.Slice(regs, func(i, j int) bool { return regs[i].lo < regs[j].lo })
	for i := 1; i < len(regs); i++ {
		if regs[i].lo < regs[i-1].hi {
			add("descriptor", regs[i-1].name+"+"+regs[i].name+":overlap", fmt.Sprintf("[%d,%d) and [%d,%d)", regs[i-1].lo, regs[i-1].hi, regs[i].lo, regs[i].hi))
		}
	}
	if minOff >= base+8 && len(b) >= base+8 {
		m.Version = b[base : base+8]
		if m.Flags&fVersion == 0 && !bytes.Equal(m.Version, make([]byte, 8)) {
			add("version", "nonzero-without-flag", fmt.Sprintf("%x", m.Version))
		}
		// MS-NLMP 2.2.2.10: NTLMRevisionCurrent MUST be NTLMSSP_REVISION_W2K3 (0x0F)
		if m.Flags&fVersion != 0 && m.Version[7] != 0x0F {
			add("version", "revision", fmt.Sprintf("VERSION negotiated and the Version field is %x: NTLMRevisionCurrent is %#02x, not 0x0F", m.Version, m.Version[7]))
		}
	}
	return m, ps
}

// decodeUTF16LE is an own decoder (no unicode/utf16): ok=false on odd length or
// an unpaired surrogate.
func decodeUTF16LE(b []byte) (string, bool) {
	if len(b)%2 != 0 {
		return "", false
	}
	var sb strings.Builder
	for i := 0; i < len(b); i += 2 {
		u := rune(b[i]) | rune(b[i+1])<<8
		switch {
		case u >= 0xD800 && u <= 0xDBFF:
			if i+3 >= len(b) {
				return "", false
			}
			l := rune(b[i+2]) | rune(b[i+3])<<8
			if l < 0xDC00 || l > 0xDFFF {
				return "", false
			}
			sb.WriteRune(0x10000 + (u-0xD800)<<10 + (l - 0xDC00))
			i += 2
		case u >= 0xDC00 && u <= 0xDFFF:
			return "", false
		default:
			sb.WriteRune(u)
		}
	}
	return sb.String(), true
}

// decodeName decodes a name field in the character set the flags select
// (MS-NLMP: bit A set -> Unicode; else OEM, which this harness restricts to 7-bit ASCII).
func decodeName(b []byte, flags uint32) (string, bool) {
	if flags&fUnicode != 0 {
		return decodeUTF16LE(b)
	}
	for _, c := range b {
		if c >= 0x80 {
			return "", false
		}
	}
	return string(b), true
}

// sameName: exact, or (when fold is allowed) equal up to letter case under any
// of Go's simple case mappings.
func sameName(got, want string, fold bool) bool {
	if got == want {
		return true
	}
	if !fold {
		return false
	}
	return got == strings.ToUpper(want) || got == strings.ToLower(want) || strings.EqualFold(got, want) ||
		strings.ToUpper(got) == strings.ToUpper(want)
}

// ---- AV pairs ----------------------------------------------------------------

type avPair struct {
	ID  uint16
	Val []byte
}

// encodeAV writes the pairs followed by MsvAvEOL.
func encodeAV(pairs []avPair) []byte {
	var out []byte
	for _, p := range pairs {
		out = binary.LittleEndian.AppendUint16(out, p.ID)
		out = binary.LittleEndian.AppendUint16(out, uint16(len(p.Val)))
		out = append(out, p.Val...)
	}
	return append(out, 0, 0, 0, 0)
}

// parseAV reads AV_PAIRs up to and including MsvAvEOL and returns what follows it.
func parseAV(b []byte) (pairs []avPair, rest []byte, ok bool) {
	for {
		if len(b) < 4 {
			return pairs, nil, false
		}
		id := binary.LittleEndian.Uint16(b)
		n := int(binary.LittleEndian.Uint16(b[2:]))
		b = b[4:]
		if id == 0 {
			if n != 0 {
				return pairs, nil, false
			}
			return pairs, b, true
		}
		if n > len(b) {
			return pairs, nil, false
		}
		pairs = append(pairs, avPair{id, b[:n]})
		b = b[n:]
	}
}

// ---- CHALLENGE writer -----------------------------------------------------------

type chalSpec struct {
	Flags        uint32
	SC           [8]byte
	TargetName   []byte // already encoded in the charset of Flags
	TargetInfo   []byte // encoded AV list (nil when TARGET_INFO is not negotiated)
	Version      [8]byte
	InfoFirst    bool // payload order
	Gap0         int  // bytes between header and first payload item
	Gap1         int  // between the two payload items
	Gap2         int  // after the last
	GapFill      byte
	ZeroOffEmpty bool // an empty field carries Offset 0 instead of the running position
	// things a receiver MUST ignore (MS-NLMP 2.2.1.2, 2.2.2.10): the Reserved
	// field, MaxLen of both descriptors (added to Len here)
	Reserved    [8]byte
	MaxSkewName uint16
	MaxSkewInfo uint16
}

func (c chalSpec) build() []byte {
	h := make([]byte, 56)
	copy(h, nlmpSig)
	binary.LittleEndian.PutUint32(h[8:], 2)
	binary.LittleEndian.PutUint32(h[20:], c.Flags)
	copy(h[24:], c.SC[:])
	copy(h[48:], c.Version[:])
	payload := []byte{}
	pos := func() uint32 { return uint32(56 + len(payload)) }
	fill := func(n int) {
		for i := 0; i < n; i++ {
			payload = append(payload, c.GapFill)
		}
	}
	copy(h[32:], c.Reserved[:])
	put := func(at int, v []byte) {
		skew := c.MaxSkewName
		if at == 40 {
			skew = c.MaxSkewInfo
		}
		binary.LittleEndian.PutUint16(h[at:], uint16(len(v)))
		binary.LittleEndian.PutUint16(h[at+2:], uint16(len(v))+skew)
		off := pos()
		if len(v) == 0 && c.ZeroOffEmpty {
			off = 0
		}
		binary.LittleEndian.PutUint32(h[at+4:], off)
		payload = append(payload, v...)
	}
	fill(c.Gap0)
	if c.InfoFirst {
		put(40, c.TargetInfo)
		fill(c.Gap1)
		put(12, c.TargetName)
	} else {
		put(12, c.TargetName)
		fill(c.Gap1)
		put(40, c.TargetInfo)
	}
	fill(c.Gap2)
	return append(h, payload...)
}
