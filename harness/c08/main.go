// C08: NTLMSSP and SPNEGO tokens are structurally exact in both directions.
package main

import (
	"bytes"
	"encoding/asn1"
	"encoding/binary"
	"encoding/hex"
	"fmt"
	"math/rand/v2"
	"strings"
	"sync/atomic"
	"time"

	"github.com/TheManticoreProject/Manticore/network/smb/smb_v10/spnego"
	"github.com/TheManticoreProject/Manticore/network/smb/smb_v10/spnego/ntlm"

	"verif/gen"
	"verif/mon"
	"verif/ref"
)

var r *mon.Run

func hx(b []byte) string { return hex.EncodeToString(b) }

func hxCase(b []byte) string {
	if len(b) > 4096 {
		return fmt.Sprintf("%s…(+%d bytes)", hex.EncodeToString(b[:4096]), len(b)-4096)
	}
	return hex.EncodeToString(b)
}

// ------------------------------------------------------------- name generator --

var scripts = []struct {
	name   string
	lo, hi rune
}{
	{"ascii", 'A', 'z'}, {"latin1", 0xC0, 0xFF}, {"greek", 0x391, 0x3C9}, {"cyrillic", 0x410, 0x44F},
	{"cjk", 0x4E00, 0x4FFF}, {"deseret", 0x10400, 0x1044F}, {"emoji", 0x1F600, 0x1F64F}, {"fullwidth", 0xFF21, 0xFF5A},
}

// genName: n code points of one script (script<0: mixed); ASCII names are
// letters, digits and a few name punctuation characters.
func genName(rng *rand.Rand, n, script int) (string, string) {
	var sb strings.Builder
	sname := "mixed"
	if script >= 0 {
		sname = scripts[script].name
	}
	for i := 0; i < n; i++ {
		s := script
		if s < 0 {
			s = rng.IntN(len(scripts))
		}
		if s == 0 {
			sb.WriteByte("ABCDEFGHIJKLMNOPQRSTUVWXYZabcdefghijklmnopqrstuvwxyz0123456789.-_$ @"[rng.IntN(68)])
			continue
		}
		sb.WriteRune(scripts[s].lo + rune(rng.IntN(int(scripts[s].hi-scripts[s].lo+1))))
	}
	if n == 0 {
		sname = "empty"
	}
	return sb.String(), sname
}

func lenBucket(n int) string {
	switch {
	case n == 0:
		return "0"
	case n == 1:
		return "1"
	case n < 16:
		return "<16"
	case n < 128:
		return "<128"
	case n < 1024:
		return "<1024"
	}
	return "big"
}

func encName(s string, flags uint32) []byte {
	if flags&fUnicode != 0 {
		return ref.UTF16LE(s)
	}
	return []byte(s)
}

// checkName compares a payload field with the supplied string.
func checkName(entry, field string, m *parsedMsg, flags uint32, want string, fold bool, cs map[string]any) {
	got, present := m.Fields[field]
	if _, bad := m.Descs[field]; !bad {
		return
	}
	if want == "" {
		if present && len(got) != 0 {
			r.Violation(entry+":name:"+field, fmt.Sprintf("%s is %x for an empty string", field, got), cs)
		}
		return
	}
	if !present {
		if m.Descs[field].Len == 0 {
			r.Violation(entry+":name:"+field, fmt.Sprintf("%s has Len 0, supplied %q", field, want), cs)
		}
		return // descriptor out of bounds: already reported by the reader
	}
	s, ok := decodeName(got, flags)
	if !ok {
		r.Violation(entry+":name:"+field+":undecodable", fmt.Sprintf("%s bytes %s do not decode in the negotiated character set (flags %#x)", field, hexShort(got), flags), cs)
		return
	}
	if !sameName(s, want, fold) {
		r.Violation(entry+":name:"+field, fmt.Sprintf("%s decodes to %q, supplied %q", field, s, want), cs)
	}
}

// ------------------------------------------------------------------ NEGOTIATE --

func negotiateCase(domain, ws string, uni bool, tag string) {
	const e = "ntlm.CreateNegotiateMessage"
	cs := map[string]any{"domain": domain, "workstation": ws, "unicode": uni}
	var msg []byte
	var err error
	p, v, st := mon.Guard(func() { msg, err = ntlm.CreateNegotiateMessage(domain, ws, uni) })
	r.Eval(1)
	if p {
		r.Violation(e+":panic:"+mon.PanicClass(v), fmt.Sprintf("panic %v at %s", v, mon.TopLibFrame(st)), cs)
		return
	}
	if err != nil {
		r.Violation(e+":error", fmt.Sprint(err), cs)
		return
	}
	cs["message"] = hxCase(msg)
	hold(e, msg, cs)
	checkNegotiateBytes(e, msg, domain, ws, uni, cs)
	negotiateFieldsIndependent(e, msg, domain, ws, uni, cs)
	r.Nontrivial("neg|" + tag)
}

// negotiateFieldsIndependent: the bytes a descriptor designates are those of its own name. Whatever
// spelling the library gives a name (as supplied, upper-cased for OEM), it is the spelling the
// same name gets when the other name is absent; it does not depend on the other name.
func negotiateFieldsIndependent(e string, msg []byte, domain, ws string, uni bool, cs map[string]any) {
	if domain == "" || ws == "" || len(domain) > 2000 || len(ws) > 2000 {
		return
	}
	m, ps := readMessage(msg, 1)
	if len(ps) > 0 || m == nil {
		return
	}
	for _, f := range []struct {
		field, d, w string
	}{{"DomainName", domain, ""}, {"Workstation", "", ws}} {
		var alone []byte
		var err error
		p, _, _ := mon.Guard(func() { alone, err = ntlm.CreateNegotiateMessage(f.d, f.w, uni) })
		r.Eval(1)
		if p || err != nil {
			continue // judged where that call is the case under test
		}
		ma, pa := readMessage(alone, 1)
		if len(pa) > 0 || ma == nil {
			continue
		}
		if !bytes.Equal(ma.Fields[f.field], m.Fields[f.field]) {
			r.Violation(e+":name:"+f.field+":depends-on-other-name", fmt.Sprintf("%s is %s next to the other name and %s alone (domain %q workstation %q unicode=%v)",
				f.field, hexShort(m.Fields[f.field]), hexShort(ma.Fields[f.field]), domain, ws, uni), cs)
		}
		r.Count("negotiate_fields_compared_with_the_name_alone", 1)
	}
}

// negotiateStructureOnly: OEM mode with non-ASCII names. What the OEM bytes of such a name are
// depends on a code page and is not judged; that every descriptor designates bytes in bounds,
// past the header and not overlapping another field is judged for any input.
func negotiateStructureOnly(domain, ws string, tag string) {
	const e = "ntlm.CreateNegotiateMessage"
	cs := map[string]any{"domain": domain, "workstation": ws, "unicode": false}
	var msg []byte
	var err error
	p, v, st := mon.Guard(func() { msg, err = ntlm.CreateNegotiateMessage(domain, ws, false) })
	r.Eval(1)
	if p {
		r.Violation(e+":panic:"+mon.PanicClass(v), fmt.Sprintf("panic %v at %s", v, mon.TopLibFrame(st)), cs)
		return
	}
	if err != nil {
		return // refusing a name it cannot express in OEM is not judged
	}
	cs["message"] = hxCase(msg)
	_, ps := readMessage(msg, 1)
	for _, q := range ps {
		r.Violation(e+":oem-nonascii:"+q.Key(), q.Detail, cs)
	}
	negotiateFieldsIndependent(e, msg, domain, ws, false, cs)
	r.Nontrivial("neg-struct|" + tag)
}

func checkNegotiateBytes(e string, msg []byte, domain, ws string, uni bool, cs map[string]any) {
	m, ps := readMessage(msg, 1)
	for _, q := range ps {
		r.Violation(e+":"+q.Key(), q.Detail, cs)
	}
	if len(msg) < 32 {
		return
	}
	isU, isO := m.Flags&fUnicode != 0, m.Flags&fOEM != 0
	if isU == isO || isU != uni {
		r.Violation(e+":flags:charset", fmt.Sprintf("flags %#x for unicode=%v", m.Flags, uni), cs)
	}
	if (m.Flags&fDomainSupplied != 0) != (domain != "") {
		r.Violation(e+":flags:domain-supplied", fmt.Sprintf("flags %#x, domain %q", m.Flags, domain), cs)
	}
	if (m.Flags&fWsSupplied != 0) != (ws != "") {
		r.Violation(e+":flags:workstation-supplied", fmt.Sprintf("flags %#x, workstation %q", m.Flags, ws), cs)
	}
	checkName(e, "DomainName", m, m.Flags, domain, true, cs)
	checkName(e, "Workstation", m, m.Flags, ws, true, cs)
}

// caseVariants: spellings that are the same word as s when letter case is ignored.
func caseVariants(s string) []string {
	out := []string{s, strings.ToUpper(s), strings.ToLower(s), strings.Title(strings.ToLower(s))}
	rs := []rune(s)
	for i, c := range rs {
		// one letter replaced by a character that only folds to it
		for _, sp := range [][2]rune{{'k', '\u212a'}, {'K', '\u212a'}, {'s', '\u017f'}, {'S', '\u017f'}, {'å', '\u212b'}, {'σ', 'ς'}} {
			if c == sp[0] {
				v := append([]rune{}, rs...)
				v[i] = sp[1]
				out = append(out, string(v))
			}
		}
		if i%2 == 1 {
			rs[i] = []rune(strings.ToUpper(string(c)))[0]
		}
	}
	out = append(out, string(rs))
	return out
}

func negotiateAll() {
	rng := r.Rand("negotiate")
	fixed := []string{"", "D", "DOMAIN", "domain", "corp.example.com", "WORKSTATION-01", strings.Repeat("a", 127), strings.Repeat("B", 128), strings.Repeat("c", 255), strings.Repeat("d", 256), strings.Repeat("e", 1000)}
	fixedU := []string{"Домен", "δομή", "域名", "𐐀𐐨𐐁", "é", "ÉCOLE", strings.Repeat("界", 500), strings.Repeat("😀", 333)}
	for i, d := range fixed {
		for j, w := range fixed {
			negotiateCase(d, w, true, fmt.Sprintf("fx|u|%d|%d", i, j))
			negotiateCase(d, w, false, fmt.Sprintf("fx|o|%d|%d", i, j))
		}
	}
	for i, d := range fixedU {
		for j, w := range append(fixedU, "", "WS") {
			negotiateCase(d, w, true, fmt.Sprintf("fxu|%d|%d", i, j))
			negotiateCase(w, d, true, fmt.Sprintf("fxu2|%d|%d", i, j))
		}
	}
	// two names that are the same word in different spellings (letter case, special case mappings)
	for i, d := range []string{"Corp", "fileserver", "WORKSTATION-01", "corp.example.com", "Домен", "straße", "k", "é", "ǆ", "σς"} {
		for j, w := range caseVariants(d) {
			negotiateCase(d, w, true, fmt.Sprintf("same-word|u|%d|%d", i, j))
			negotiateCase(w, d, true, fmt.Sprintf("same-word|u2|%d|%d", i, j))
			if isASCII7(d) && isASCII7(w) {
				negotiateCase(d, w, false, fmt.Sprintf("same-word|o|%d|%d", i, j))
			} else {
				negotiateStructureOnly(d, w, fmt.Sprintf("same-word|%d|%d", i, j))
				negotiateStructureOnly(w, d, fmt.Sprintf("same-word|r|%d|%d", i, j))
			}
		}
	}
	// OEM mode, names with letters whose case mappings change the UTF-8 length (structure only)
	tricky := []string{"ı", "ſ", "ɐ", "ß", "ŉ", "ǰ", "ΐ", "İ", "K", "dıgıtal", "corp.ſub", "ɐɐɐɐ", "straße", "Ⱥ", "ⱥ", "é", "Домен"}
	for i, d := range tricky {
		for j, w := range append([]string{"", "WS", "workstation"}, tricky[:6]...) {
			negotiateStructureOnly(d, w, fmt.Sprintf("%d|%d", i, j))
			negotiateStructureOnly(w, d, fmt.Sprintf("r%d|%d", i, j))
		}
	}
	// 16-bit descriptor boundary: the longest names a descriptor can designate
	negotiateCase(strings.Repeat("x", 65535), "W", false, "max|o|d")
	negotiateCase("D", strings.Repeat("y", 65535), false, "max|o|w")
	negotiateCase(strings.Repeat("x", 32767), "W", true, "max|u|d")
	negotiateCase("D", strings.Repeat("y", 32767), true, "max|u|w")
	negotiateCase(strings.Repeat("x", 32767), strings.Repeat("y", 32767), true, "max|u|dw")
	r.Sample(map[string]any{"kind": "negotiate", "domain": "DOMAIN", "workstation": "WORKSTATION-01", "unicode": true})
	n := r.Pick(80000, 1200000)
	for t := 0; t < n; t++ {
		uni := rng.IntN(2) == 0
		sd, sw := 0, 0
		if uni {
			sd, sw = rng.IntN(len(scripts)+1)-1, rng.IntN(len(scripts)+1)-1
		}
		ld, lw := gen.Length(rng, 40), gen.Length(rng, 40)
		if rng.IntN(50) == 0 {
			ld = rng.IntN(1001)
		}
		if rng.IntN(50) == 0 {
			lw = rng.IntN(1001)
		}
		d, dn := genName(rng, ld, sd)
		w, wn := genName(rng, lw, sw)
		if rng.IntN(8) == 0 && d != "" {
			vs := caseVariants(d)
			w = vs[rng.IntN(len(vs))]
			wn = "same-word"
			if !uni && !isASCII7(w) {
				w = strings.ToLower(d)
			}
		}
		negotiateCase(d, w, uni, fmt.Sprintf("%v|%s|%s|%s|%s", uni, dn, wn, lenBucket(ld), lenBucket(lw)))
		if t%(n/2+1) == 0 {
			r.Sample(map[string]any{"kind": "negotiate", "domain": d, "workstation": w, "unicode": uni})
		}
	}
}

// ------------------------------------------------------------------ CHALLENGE --

type chalCase struct {
	spec  chalSpec
	pairs []avPair
	name  string
}

func genChallenge(rng *rand.Rand, uni bool, withVersion, withInfo, ess bool, nameLen, nPairs int, script int) chalCase {
	var c chalCase
	f := fNTLM | fAlwaysSign | f128 | f56
	if uni {
		f |= fUnicode
		if rng.IntN(4) == 0 {
			f |= fOEM // both offered: Unicode takes precedence (MS-NLMP 2.2.2.5, flags A and B)
		}
	} else {
		f |= fOEM
		script = 0
	}
	if ess {
		f |= fESS
	}
	if withVersion {
		f |= fVersion
		c.spec.Version = [8]byte{byte(rng.IntN(256)), byte(rng.IntN(256)), byte(rng.IntN(256)), byte(rng.IntN(256)), 0, 0, 0, byte(rng.IntN(256))}
		if rng.IntN(4) == 0 {
			c.spec.Version = [8]byte{10, 0, 0x63, 0x45, 0, 0, 0, 15}
		}
		if rng.IntN(3) == 0 {
			c.spec.Version[4], c.spec.Version[5], c.spec.Version[6] = 1, 2, byte(3+rng.IntN(250))
		}
	}
	c.name, _ = genName(rng, nameLen, script)
	if nameLen > 0 {
		f |= fRequestTarget
		if rng.IntN(2) == 0 {
			f |= fTargetTypeDomain
		} else {
			f |= fTargetTypeServer
		}
		c.spec.TargetName = encName(c.name, f)
	} else if rng.IntN(2) == 0 {
		// a target was asked for and the name field is empty: the name the message carries is empty
		f |= fRequestTarget
		switch rng.IntN(3) {
		case 0:
			f |= fTargetTypeDomain
		case 1:
			f |= fTargetTypeServer
		}
	}
	if withInfo {
		f |= fTargetInfo
		ids := rng.Perm(12)
		for i := 0; i < nPairs; i++ {
			id := uint16(ids[i] + 1) // 1..12 (11, 12 are beyond MsvAvChannelBindings: unknown ids must be carried too)
			if rng.IntN(20) == 0 {
				id = uint16(0x100 + rng.IntN(0xFE00) + i) // rare: arbitrary high id (distinct by construction below)
			}
			vl := []int{0, 2, 8, 16, 2 * rng.IntN(30), rng.IntN(301), 300}[rng.IntN(7)]
			c.pairs = append(c.pairs, avPair{id, gen.Bytes(rng, vl)})
		}
		// unique ids
		seen := map[uint16]bool{}
		var u []avPair
		for _, p := range c.pairs {
			if !seen[p.ID] {
				seen[p.ID] = true
				u = append(u, p)
			}
		}
		c.pairs = u
		c.spec.TargetInfo = encodeAV(c.pairs)
	}
	c.spec.Flags = f
	copy(c.spec.SC[:], gen.Bytes(rng, 8))
	if rng.IntN(8) == 0 {
		c.spec.SC = [8]byte{}
	}
	c.spec.InfoFirst = rng.IntN(2) == 0
	if rng.IntN(3) == 0 {
		c.spec.Gap0, c.spec.Gap1, c.spec.Gap2 = rng.IntN(9), rng.IntN(9), rng.IntN(9)
		c.spec.GapFill = byte(rng.IntN(256))
	}
	c.spec.ZeroOffEmpty = rng.IntN(2) == 0
	if rng.IntN(5) == 0 { // fields a receiver must ignore
		copy(c.spec.Reserved[:], gen.Bytes(rng, 8))
		c.spec.MaxSkewName, c.spec.MaxSkewInfo = uint16(rng.IntN(64)), uint16(rng.IntN(64))
		if withVersion {
			copy(c.spec.Version[4:7], gen.Bytes(rng, 3))
		}
	}
	return c
}

func (c chalCase) caseMap(raw []byte) map[string]any {
	var ps []string
	for _, p := range c.pairs {
		ps = append(ps, fmt.Sprintf("%d:%s", p.ID, hx(p.Val)))
	}
	return map[string]any{"challenge": hxCase(raw), "flags": fmt.Sprintf("%#08x", c.spec.Flags), "target_name": c.name, "pairs": ps,
		"info_first": c.spec.InfoFirst, "gaps": []int{c.spec.Gap0, c.spec.Gap1, c.spec.Gap2}}
}

// checkParsedChallenge compares what ParseChallengeMessage returned with what was written.
func checkParsedChallenge(e string, got *ntlm.ChallengeMessage, c chalCase, cs map[string]any) {
	if got.NegotiateFlags != c.spec.Flags {
		r.Violation(e+":flags", fmt.Sprintf("got %#x sent %#x", got.NegotiateFlags, c.spec.Flags), cs)
	}
	if got.ServerChallenge != c.spec.SC {
		r.Violation(e+":server-challenge", fmt.Sprintf("got %x sent %x", got.ServerChallenge, c.spec.SC), cs)
	}
	if !bytes.Equal(got.TargetName, c.spec.TargetName) {
		r.Violation(e+":target-name", fmt.Sprintf("got %s sent %s", hexShort(got.TargetName), hexShort(c.spec.TargetName)), cs)
	}
	if !bytes.Equal(got.TargetInfo, c.spec.TargetInfo) {
		r.Violation(e+":target-info", fmt.Sprintf("got %s sent %s", hexShort(got.TargetInfo), hexShort(c.spec.TargetInfo)), cs)
	}
	v := got.Version
	w := c.spec.Version
	if v.ProductMajorVersion != w[0] || v.ProductMinorVersion != w[1] || v.ProductBuild != binary.LittleEndian.Uint16(w[2:]) || v.NTLMRevision != w[7] {
		r.Violation(e+":version", fmt.Sprintf("got %d.%d build %d rev %d, sent %x", v.ProductMajorVersion, v.ProductMinorVersion, v.ProductBuild, v.NTLMRevision, w), cs)
	}
	// the three reserved octets of VERSION are carried as they came, in their order
	if v.Reserved != [3]byte{w[4], w[5], w[6]} {
		r.Violation(e+":version:reserved", fmt.Sprintf("VERSION reserved octets %x decode as %x", w[4:7], v.Reserved), cs)
	}
	if got.MessageType != 2 || !bytes.Equal(got.Signature[:], nlmpSig) {
		r.Violation(e+":header", fmt.Sprintf("type %d signature %x", got.MessageType, got.Signature), cs)
	}
}

func checkTargetInfoParse(ti []byte, pairs []avPair, cs map[string]any) {
	const e = "ntlm.ParseTargetInfo"
	var got map[uint16][]byte
	var err error
	p, v, st := mon.Guard(func() { got, err = ntlm.ParseTargetInfo(ti) })
	r.Eval(1)
	switch {
	case p:
		r.Violation(e+":panic:"+mon.PanicClass(v), fmt.Sprintf("panic %v at %s", v, mon.TopLibFrame(st)), cs)
		return
	case err != nil:
		r.Violation(e+":error", fmt.Sprintf("%v for a well-formed list of %d pairs", err, len(pairs)), cs)
		return
	}
	for _, q := range pairs {
		val, ok := got[q.ID]
		if !ok {
			r.Violation(e+":pairs:missing", fmt.Sprintf("AvId %d (%d bytes) not returned", q.ID, len(q.Val)), cs)
		} else if !bytes.Equal(val, q.Val) {
			r.Violation(e+":pairs:value", fmt.Sprintf("AvId %d: got %s sent %s", q.ID, hexShort(val), hexShort(q.Val)), cs)
		}
	}
	if len(got) > len(pairs) {
		r.Violation(e+":pairs:extra", fmt.Sprintf("%d entries returned for %d pairs", len(got), len(pairs)), cs)
	}
}

func challengeCase(c chalCase, tag string) {
	const e = "ntlm.ParseChallengeMessage"
	raw := c.spec.build()
	cs := c.caseMap(raw)
	var got *ntlm.ChallengeMessage
	var err error
	if len(raw)%3 == 0 {
		// damaged versions first (refused, or parsed as something else): the parse of the
		// well-formed message that follows must not depend on them
		for _, cut := range []int{len(raw) - 1, len(raw) / 2, 32, 12} {
			if cut > 0 && cut < len(raw) {
				mon.Guard(func() { ntlm.ParseChallengeMessage(append([]byte{}, raw[:cut]...)) })
			}
		}
		bad := append([]byte{}, raw...)
		bad[8] = 3 // another message type
		mon.Guard(func() { ntlm.ParseChallengeMessage(bad) })
		if c.spec.TargetInfo != nil && len(c.spec.TargetInfo) > 4 {
			mon.Guard(func() { ntlm.ParseTargetInfo(append([]byte{}, c.spec.TargetInfo[:len(c.spec.TargetInfo)-3]...)) })
		}
		r.Count("damaged_parses_before_a_valid_one", 1)
	}
	in := append([]byte{}, raw...) // the caller's buffer
	p, v, st := mon.Guard(func() { got, err = ntlm.ParseChallengeMessage(in) })
	r.Eval(1)
	switch {
	case p:
		r.Violation(e+":panic:"+mon.PanicClass(v), fmt.Sprintf("panic %v at %s", v, mon.TopLibFrame(st)), cs)
		return
	case err != nil || got == nil:
		r.Violation(e+":error", fmt.Sprintf("%v for a well-formed CHALLENGE", err), cs)
		return
	}
	checkParsedChallenge(e, got, c, cs)
	if c.spec.TargetInfo != nil {
		checkTargetInfoParse(got.TargetInfo, c.pairs, cs)
		// and on the bytes as written, independent of what the message parser returned
		checkTargetInfoParse(append([]byte{}, c.spec.TargetInfo...), c.pairs, cs)
		targetInfoInput(c.spec.TargetInfo, c.pairs, cs)
	}
	afterParseChallenge(e, got, c, raw, in, cs)
	r.Nontrivial("chal|" + tag)
}

func chalTag(c chalCase) string {
	return fmt.Sprintf("%#x|%s|%d|%v|%v", c.spec.Flags, lenBucket(len(c.spec.TargetName)), len(c.pairs), c.spec.InfoFirst, c.spec.Gap0+c.spec.Gap1+c.spec.Gap2 > 0)
}

func challengeAll() {
	rng := r.Rand("challenge")
	// deterministic grid: charset x VERSION x TARGET_INFO x ESS x name length x pair count
	for _, uni := range []bool{true, false} {
		for _, ver := range []bool{false, true} {
			for _, info := range []bool{false, true} {
				for _, ess := range []bool{false, true} {
					for _, nl := range []int{0, 1, 6, 255} {
						for _, np := range []int{0, 1, 5, 10} {
							if !info && np > 0 {
								continue
							}
							for rep := 0; rep < 3; rep++ {
								c := genChallenge(rng, uni, ver, info, ess, nl, np, []int{0, 3, 5}[rep])
								c.spec.InfoFirst = rep == 1
								if rep == 2 {
									c.spec.Gap0, c.spec.Gap1, c.spec.Gap2 = 8, 3, 5
								}
								challengeCase(c, chalTag(c))
							}
						}
					}
				}
			}
		}
	}
	// size classes of one AV pair and of the whole list: the 16-bit lengths around 2^15 and up
	// to the largest list a 16-bit descriptor can designate
	for bi, vls := range [][]int{{32766}, {32767}, {32768}, {32769}, {40000}, {65527}, {65000, 0, 8}, {8, 32768, 16}, {30000, 30000}, {16384, 16384, 16384}, {255, 256, 257, 65535 - 5*4 - 255 - 256 - 257}} {
		for rep := 0; rep < 2; rep++ {
			c := genChallenge(rng, rep == 0, rep == 1, true, true, []int{6, 0}[rep], 0, 0)
			c.pairs = nil
			for k, vl := range vls {
				c.pairs = append(c.pairs, avPair{uint16([]int{2, 1, 4, 3, 7, 9}[k]), gen.Bytes(rng, vl)})
			}
			c.spec.TargetInfo = encodeAV(c.pairs)
			if len(c.spec.TargetInfo) > 65535 {
				r.Inconclusive(fmt.Sprintf("big target info case %d does not fit a 16-bit descriptor", bi))
				continue
			}
			challengeCase(c, fmt.Sprintf("%s|big%d", chalTag(c), bi))
		}
	}
	// lists of very many pairs (distinct ids beyond the assigned ones; a server may send any): 255,
	// 256, 257, 300, 1000 and as many empty pairs as a 16-bit descriptor holds
	for _, np := range []int{255, 256, 257, 300, 1000, 4000, 16382} {
		for rep := 0; rep < 2; rep++ {
			c := genChallenge(rng, rep == 0, rep == 1, true, true, 5, 0, 0)
			c.pairs = nil
			for k := 0; k < np; k++ {
				vl := 0
				if np <= 1000 {
					vl = []int{0, 2, 8, 1}[k%4]
				}
				c.pairs = append(c.pairs, avPair{uint16(0x100 + k*3), gen.Bytes(rng, vl)})
			}
			c.spec.TargetInfo = encodeAV(c.pairs)
			if len(c.spec.TargetInfo) > 65535 {
				r.Inconclusive(fmt.Sprintf("target info of %d pairs does not fit a 16-bit descriptor", np))
				continue
			}
			challengeCase(c, fmt.Sprintf("%s|pairs%d", chalTag(c), np))
		}
	}
	n := r.Pick(60000, 1000000)
	for t := 0; t < n; t++ {
		uni := rng.IntN(3) != 0
		info := rng.IntN(4) != 0
		np := 0
		if info {
			np = rng.IntN(11)
		}
		nl := gen.Length(rng, 40)
		if rng.IntN(40) == 0 {
			nl = rng.IntN(1001)
		}
		c := genChallenge(rng, uni, rng.IntN(2) == 0, info, rng.IntN(2) == 0, nl, np, rng.IntN(len(scripts)+1)-1)
		challengeCase(c, chalTag(c))
		if t%(n/2+1) == 0 {
			r.Sample(c.caseMap(c.spec.build()))
		}
	}
}

// --------------------------------------------------------------- AUTHENTICATE --

// checkAuthenticateBytes: structural reader + names + the C02 verifier.
func checkAuthenticateBytes(e string, msg []byte, chFlags uint32, sc [8]byte, user, pw, domain, ws string, cs map[string]any) {
	m, ps := readMessage(msg, 3)
	for _, q := range ps {
		r.Violation(e+":"+q.Key(), q.Detail, cs)
	}
	if len(msg) < 64 {
		return
	}
	if (m.Flags&fUnicode != 0) != (chFlags&fUnicode != 0) {
		r.Violation(e+":flags:charset", fmt.Sprintf("AUTHENTICATE flags %#x, CHALLENGE flags %#x", m.Flags, chFlags), cs)
	}
	checkName(e, "DomainName", m, chFlags, domain, true, cs)
	checkName(e, "UserName", m, chFlags, user, false, cs)
	checkName(e, "Workstation", m, chFlags, ws, true, cs)
	ess := chFlags&fESS != 0
	if _, ok := m.Fields["NtChallengeResponse"]; !ok {
		r.Violation(e+":responses:nt-missing", "no readable NtChallengeResponse", cs)
		return
	}
	vps, _ := serverVerifyAuthenticate(m, sc[:], pw, ess)
	for _, q := range vps {
		r.Violation(e+":verify:"+q.Key(), fmt.Sprintf("user=%q domain=%q flags=%#x: %s", user, domain, chFlags, q.Detail), cs)
	}
}

func authTag(flags uint32, user, domain, ws, un, dn string) string {
	return fmt.Sprintf("%#x|%s|%s|%s|%s|%s", flags&(fUnicode|fOEM|fVersion|fESS|fTargetInfo), lenBucket(len(user)), lenBucket(len(domain)), lenBucket(len(ws)), un, dn)
}

func authenticateCase(c chalCase, user, pw, domain, ws string, tag string) {
	const e = "ntlm.CreateAuthenticateMessage"
	raw := c.spec.build()
	cs := c.caseMap(raw)
	cs["user"], cs["password"], cs["domain"], cs["workstation"] = user, pw, domain, ws
	// the library's own parse of the challenge feeds the builder, as in a real exchange
	var ch *ntlm.ChallengeMessage
	var err error
	p, _, _ := mon.Guard(func() { ch, err = ntlm.ParseChallengeMessage(raw) })
	if p || err != nil || ch == nil {
		return // reported by challengeCase's keys; nothing to build from
	}
	var msg []byte
	p, v, st := mon.Guard(func() { msg, err = ntlm.CreateAuthenticateMessage(ch, user, pw, domain, ws) })
	r.Eval(1)
	if p {
		r.Violation(e+":panic:"+mon.PanicClass(v), fmt.Sprintf("panic %v at %s", v, mon.TopLibFrame(st)), cs)
		return
	}
	if err != nil {
		r.Violation(e+":error", fmt.Sprint(err), cs)
		return
	}
	cs["message"] = hxCase(msg)
	hold(e, msg, cs)
	checkAuthenticateBytes(e, msg, c.spec.Flags, c.spec.SC, user, pw, domain, ws, cs)
	r.Nontrivial("auth|" + tag)
}

func genPassword(rng *rand.Rand) string {
	if rng.IntN(2) == 0 {
		return gen.ASCII7(rng, rng.IntN(20))
	}
	return gen.UnicodeString(rng, gen.Length(rng, 30), -1)
}

func authenticateAll() {
	rng := r.Rand("authenticate")
	fixedA := []string{"", "u", "User", "DOMAIN", "workstation-7", strings.Repeat("n", 128), strings.Repeat("N", 1000)}
	fixedU := []string{"Üser", "пользователь", "用户", "𐐨𐐩user", "😀"}
	for _, uni := range []bool{true, false} {
		for _, ver := range []bool{false, true} {
			for _, info := range []bool{false, true} {
				for _, ess := range []bool{false, true} {
					names := fixedA
					if uni {
						names = append(append([]string{}, fixedA...), fixedU...)
					}
					for i, u := range names {
						for j := 0; j < 4; j++ {
							d, w := names[(i+j)%len(names)], names[(i+2*j+1)%len(names)]
							c := genChallenge(rng, uni, ver, info, ess, 6, 4, 0)
							authenticateCase(c, u, fixedPasswords[(i+j)%len(fixedPasswords)], d, w, "fx|"+authTag(c.spec.Flags, u, d, w, "", ""))
						}
					}
				}
			}
		}
	}
	// names that look qualified or quoted, and letters with unusual case mappings: each is carried
	// as given (in the negotiated character set) in the field it was supplied for
	shaped := append(append(append([]string{}, gen.ShapedUsers()...), gen.ShapedDomains()...), gen.CaseSpecials()...)
	for i, u := range shaped {
		uni := isASCII7(u) && i%2 == 0
		for _, ess := range []bool{false, true} {
			c := genChallenge(rng, !uni, i%3 == 0, i%2 == 1, ess, 6, 3, 0)
			if c.spec.Flags&fUnicode == 0 && !isASCII7(u) {
				continue
			}
			d, w := shaped[(i*7+3)%len(shaped)], shaped[(i*5+1)%len(shaped)]
			if c.spec.Flags&fUnicode == 0 && (!isASCII7(d) || !isASCII7(w)) {
				d, w = "", "WS"
			}
			authenticateCase(c, u, fixedPasswords[i%len(fixedPasswords)], d, w, fmt.Sprintf("shaped|%d|%v", i, ess))
			authenticateCase(c, u, "pw", "", "", fmt.Sprintf("shaped-alone|%d|%v", i, ess))
		}
	}
	// descriptor boundary
	for _, ess := range []bool{false, true} {
		c := genChallenge(rng, false, true, true, ess, 6, 3, 0)
		authenticateCase(c, strings.Repeat("u", 65535), "Password", "D", "W", fmt.Sprintf("max|u|%v", ess))
		authenticateCase(c, "u", "Password", strings.Repeat("d", 65535), strings.Repeat("w", 65535), fmt.Sprintf("max|dw|%v", ess))
		c = genChallenge(rng, true, true, true, ess, 6, 3, 0)
		authenticateCase(c, strings.Repeat("u", 32767), "Password", strings.Repeat("d", 32767), strings.Repeat("w", 32767), fmt.Sprintf("max|udw|%v", ess))
	}
	n := r.Pick(50000, 800000)
	for t := 0; t < n; t++ {
		uni := rng.IntN(3) != 0
		info := rng.IntN(4) != 0
		c := genChallenge(rng, uni, rng.IntN(2) == 0, info, rng.IntN(2) == 0, gen.Length(rng, 20), rng.IntN(8), 0)
		su, sd, sw := 0, 0, 0
		if uni {
			su, sd, sw = rng.IntN(len(scripts)+1)-1, rng.IntN(len(scripts)+1)-1, rng.IntN(len(scripts)+1)-1
		}
		lu, ld, lw := gen.Length(rng, 30), gen.Length(rng, 30), gen.Length(rng, 30)
		if rng.IntN(60) == 0 {
			lu, ld, lw = rng.IntN(1001), rng.IntN(1001), rng.IntN(1001)
		}
		u, un := genName(rng, lu, su)
		d, dn := genName(rng, ld, sd)
		w, _ := genName(rng, lw, sw)
		authenticateCase(c, u, genPassword(rng), d, w, authTag(c.spec.Flags, u, d, w, un, dn))
		if t%(n/2+1) == 0 {
			r.Sample(map[string]any{"kind": "authenticate", "challenge_flags": fmt.Sprintf("%#08x", c.spec.Flags), "user": u, "domain": d, "workstation": w})
		}
	}
}

var fixedPasswords = []string{"", "Password", "password", "a", "14charsexactly", "fifteen-chars-x", "Pässwörd", "пароль", "密码", "p😀w"}

// --------------------------------------------------------------------- SPNEGO --

func tokenLengths(rng *rand.Rand) []int {
	var ls []int
	for n := 0; n <= 300; n++ {
		ls = append(ls, n)
	}
	for n := 65400; n <= 65700; n++ {
		ls = append(ls, n)
	}
	for s := uint(9); s <= 20; s++ {
		ls = append(ls, 1<<s-1, 1<<s, 1<<s+1)
	}
	// every total around the points where one of the nested DER lengths changes form
	for _, c := range []int{16777216 - 64} { // 3->4 length bytes (16 MiB): thorough only
		if r.Thorough() {
			for n := c; n <= c+64; n += 8 {
				ls = append(ls, n)
			}
		}
	}
	for t := 0; t < r.Pick(300, 3000); t++ {
		ls = append(ls, rng.IntN(256*1024+1))
	}
	return ls
}

func genToken(rng *rand.Rand, n int, kind int) []byte {
	b := gen.Bytes(rng, n)
	switch kind % 4 {
	case 1: // looks like DER itself
		copy(b, []byte{0x30, 0x82, 0xFF, 0xFF, 0xA0, 0x03, 0x0A, 0x01, 0x01, 0xA2, 0x84, 0x7F, 0xFF, 0xFF, 0xFF})
	case 2: // an NTLMSSP message
		copy(b, append(append([]byte{}, nlmpSig...), 2, 0, 0, 0))
	case 3:
		for i := range b {
			b[i] = 0
		}
	}
	return b
}

func spnegoInitCase(tok []byte, kind int) {
	cs := map[string]any{"token_len": len(tok), "token": hxCase(tok), "kind": kind}
	var out []byte
	var err error
	in := append([]byte{}, tok...) // the caller's buffer
	p, v, st := mon.Guard(func() { out, err = spnego.CreateNegTokenInit(in) })
	r.Eval(1)
	const e = "spnego.CreateNegTokenInit"
	if p {
		r.Violation(e+":panic:"+mon.PanicClass(v), fmt.Sprintf("panic %v at %s", v, mon.TopLibFrame(st)), cs)
		return
	}
	if err != nil {
		r.Violation(e+":error", fmt.Sprint(err), cs)
		return
	}
	hold(e, out, cs)
	wrapInput(e, out, in, tok, cs)
	checkInitBytes(e, out, tok, cs)
	extractInput("init", out, tok, false, cs)
	r.Nontrivial(fmt.Sprintf("init|%d|%d", len(tok), kind%4))
}

// checkInitBytes: DER validity, independent extraction, library extraction.
func checkInitBytes(e string, out, tok []byte, cs map[string]any) {
	cs["spnego_head"] = hexShort(out)
	in, derr := spnegoRead(out)
	if derr != nil {
		r.Violation(e+":der:"+derr.Error(), fmt.Sprintf("token of %d bytes: %v (head %s)", len(tok), derr, hexShort(out)), cs)
	} else {
		if mt, ok := in.Elems[0]; !ok || in.Inner[0] != 0x30 || !bytes.Equal(mt, derTLV(0x06, ntlmOIDContent)) {
			r.Violation(e+":mechtypes", fmt.Sprintf("mechTypes %x", mt), cs)
		}
		got, ok := in.Elems[2]
		if len(tok) > 0 && (!ok || in.Inner[2] != 0x04 || !bytes.Equal(got, tok)) {
			r.Violation(e+":mechtoken", fmt.Sprintf("independent reader finds a mechToken of %d bytes, wrapped %d", len(got), len(tok)), cs)
		}
	}
	extractCheck("init", out, tok, cs)
}

func extractCheck(kind string, wrapped, tok []byte, cs map[string]any) {
	const e = "spnego.ExtractNTLMToken"
	var got []byte
	var err error
	p, v, st := mon.Guard(func() { got, err = spnego.ExtractNTLMToken(wrapped) })
	r.Eval(1)
	switch {
	case p:
		r.Violation(e+":"+kind+":panic:"+mon.PanicClass(v), fmt.Sprintf("panic %v at %s", v, mon.TopLibFrame(st)), cs)
	case len(tok) == 0:
		if len(got) != 0 {
			r.Violation(e+":"+kind+":token", fmt.Sprintf("non-empty token %s for an empty one", hexShort(got)), cs)
		}
	case err != nil:
		r.Violation(e+":"+kind+":error", fmt.Sprintf("%v for a wrapped token of %d bytes", err, len(tok)), cs)
	case !bytes.Equal(got, tok):
		r.Violation(e+":"+kind+":token", fmt.Sprintf("extracted %d bytes (%s), wrapped %d bytes (%s)", len(got), hexShort(got), len(tok), hexShort(tok)), cs)
	}
}

var mechChoices = []struct {
	oid     asn1.ObjectIdentifier
	content []byte
}{
	{nil, nil},
	{asn1.ObjectIdentifier{1, 3, 6, 1, 4, 1, 311, 2, 2, 10}, ntlmOIDContent},
	{asn1.ObjectIdentifier{1, 2, 840, 113554, 1, 2, 2}, []byte{0x2a, 0x86, 0x48, 0x86, 0xf7, 0x12, 0x01, 0x02, 0x02}},
	{asn1.ObjectIdentifier{1, 2, 840, 48018, 1, 2, 2}, []byte{0x2a, 0x86, 0x48, 0x82, 0xf7, 0x12, 0x01, 0x02, 0x02}},
	{asn1.ObjectIdentifier{2, 5}, []byte{0x55}},
}

func spnegoRespCase(state int, mi int, tok []byte, kind int) {
	mech := mechChoices[mi]
	cs := map[string]any{"state": state, "mech": mech.oid.String(), "token_len": len(tok), "token": hxCase(tok)}
	const e = "spnego.CreateNegTokenResp"
	var out []byte
	var err error
	in := append([]byte{}, tok...) // the caller's buffer
	p, v, st := mon.Guard(func() {
		out, err = spnego.CreateNegTokenResp(asn1.Enumerated(state), mech.oid, in)
	})
	r.Eval(1)
	if p {
		r.Violation(e+":panic:"+mon.PanicClass(v), fmt.Sprintf("panic %v at %s", v, mon.TopLibFrame(st)), cs)
		return
	}
	if err != nil {
		r.Violation(e+":error", fmt.Sprint(err), cs)
		return
	}
	cs["spnego_head"] = hexShort(out)
	hold(e, out, cs)
	wrapInput(e, out, in, tok, cs)
	in2, derr := spnegoRead(out)
	if derr != nil {
		r.Violation(e+":der:"+derr.Error(), fmt.Sprintf("token of %d bytes: %v (head %s)", len(tok), derr, hexShort(out)), cs)
	} else {
		in := in2
		if got, ok := in.Elems[2]; len(tok) > 0 && (!ok || in.Inner[2] != 0x04 || !bytes.Equal(got, tok)) {
			r.Violation(e+":responsetoken", fmt.Sprintf("independent reader finds a responseToken of %d bytes, wrapped %d", len(got), len(tok)), cs)
		}
		if got, ok := in.Elems[1]; mech.oid != nil && (!ok || in.Inner[1] != 0x06 || !bytes.Equal(got, mech.content)) {
			r.Violation(e+":supportedmech", fmt.Sprintf("independent reader finds mech %x want %x", got, mech.content), cs)
		}
		if got, ok := in.Elems[0]; state != 0 && (!ok || in.Inner[0] != 0x0A || !bytes.Equal(got, derInt(state))) {
			r.Violation(e+":negstate", fmt.Sprintf("independent reader finds state %x want %d", got, state), cs)
		}
	}
	parseRespCheck(out, state, mi, tok, cs)
	extractCheck("resp", out, tok, cs)
	extractInput("resp", out, tok, true, cs)
	r.Nontrivial(fmt.Sprintf("resp|%d|%d|%d|%d", len(tok), state, mi, kind%4))
}

// derInt: minimal two's-complement content octets of a non-negative integer.
func derInt(v int) []byte {
	var b []byte
	for {
		b = append([]byte{byte(v)}, b...)
		v >>= 8
		if v == 0 {
			break
		}
	}
	if b[0]&0x80 != 0 {
		b = append([]byte{0}, b...)
	}
	return b
}

func parseRespCheck(wrapped []byte, state, mi int, tok []byte, cs map[string]any) {
	const e = "spnego.ParseNegTokenResp"
	var got *spnego.NegTokenResp
	var err error
	p, v, st := mon.Guard(func() { got, err = spnego.ParseNegTokenResp(wrapped) })
	r.Eval(1)
	switch {
	case p:
		r.Violation(e+":panic:"+mon.PanicClass(v), fmt.Sprintf("panic %v at %s", v, mon.TopLibFrame(st)), cs)
		return
	case err != nil || got == nil:
		r.Violation(e+":error", fmt.Sprintf("%v (state %d, mech %v, token %d bytes)", err, state, mechChoices[mi].oid, len(tok)), cs)
		return
	}
	if int(got.NegState) != state {
		r.Violation(e+":negstate", fmt.Sprintf("got %d sent %d", got.NegState, state), cs)
	}
	if !got.SupportedMech.Equal(mechChoices[mi].oid) && !(len(got.SupportedMech) == 0 && len(mechChoices[mi].oid) == 0) {
		r.Violation(e+":supportedmech", fmt.Sprintf("got %v sent %v", got.SupportedMech, mechChoices[mi].oid), cs)
	}
	if !bytes.Equal(got.ResponseToken, tok) {
		r.Violation(e+":responsetoken", fmt.Sprintf("got %d bytes (%s) sent %d bytes (%s)", len(got.ResponseToken), hexShort(got.ResponseToken), len(tok), hexShort(tok)), cs)
	}
}

func spnegoAll() {
	rng := r.Rand("spnego")
	ls := tokenLengths(rng)
	states := []int{0, 1, 2, 3, 4, 127, 128, 255, 256, 65535}
	for i, n := range ls {
		tok := genToken(rng, n, i)
		spnegoInitCase(tok, i)
		st := states[i%4]
		if i%11 == 0 {
			st = states[(i/11)%len(states)]
		}
		spnegoRespCase(st, (i/4)%len(mechChoices), tok, i)
		// the same NegTokenResp written by the harness's own DER writer must be read back too
		if n > 0 && i%3 == 0 {
			sb := st % 128
			own := ownNegTokenResp(sb, mechChoices[1+(i%4)].content, tok)
			cs := map[string]any{"own_writer": true, "state": sb, "token_len": n, "token": hxCase(tok), "spnego_head": hexShort(own)}
			if _, err := spnegoRead(own); err != nil {
				r.Inconclusive("the harness's own NegTokenResp does not pass the harness's own DER walker: " + err.Error())
			}
			parseRespCheck(own, sb, 1+(i%4), tok, cs)
			extractCheck("resp-own", own, tok, cs)
			extractInput("resp-own", own, tok, true, cs)
			r.Nontrivial(fmt.Sprintf("own|%d|%d", n, sb))
		}
		if i%120 == 0 {
			r.Sample(map[string]any{"kind": "spnego", "token_len": n, "state": st, "mech": mechChoices[(i/4)%len(mechChoices)].oid.String()})
		}
	}
	r.Count("spnego_token_lengths", len(ls))
}

// ----------------------------------------------------------------- end to end --

func endToEndCase(c chalCase, user, pw, domain, ws string, ownWriter bool, state int, tag string) {
	const e = "spnego.ProcessChallengeToken"
	raw := c.spec.build()
	cs := c.caseMap(raw)
	cs["user"], cs["password"], cs["domain"], cs["workstation"], cs["own_writer"], cs["state"] = user, pw, domain, ws, ownWriter, state
	var tokIn []byte
	if ownWriter {
		tokIn = ownNegTokenResp(state, ntlmOIDContent, raw)
	} else {
		var err error
		tokIn, err = spnego.CreateNegTokenResp(asn1.Enumerated(state), spnego.NtlmOID, raw)
		if err != nil {
			return // reported under spnego.CreateNegTokenResp keys
		}
	}
	uni := c.spec.Flags&fUnicode != 0
	ctxUni := uni
	if (len(raw)+len(pw))%5 == 0 && isASCII7(user) && isASCII7(domain) && isASCII7(ws) {
		// the context was created for the other character set than the server then chose: the
		// AUTHENTICATE follows the CHALLENGE (MS-NLMP 3.1.5.1.2), and the challenge kept in the context
		// is the one received
		ctxUni = !uni
		cs["context_unicode"] = ctxUni
	}
	ctx := spnego.NewAuthContext(spnego.AuthTypeNTLM, domain, user, pw, ws, ctxUni)
	if (len(raw)+len(user)+state)%2 == 1 {
		// the context written out by the caller, field by field, instead of through the constructor
		ctx = &spnego.AuthContext{Type: spnego.AuthTypeNTLM, Domain: domain, Username: user, Password: pw, Workstation: ws, UseUnicode: ctxUni}
		cs["context"] = "struct literal"
	}
	// first leg: the NEGOTIATE token of the same context
	var neg []byte
	var err error
	p, v, st := mon.Guard(func() { neg, err = ctx.CreateNegotiateToken() })
	r.Eval(1)
	if p {
		r.Violation("spnego.CreateNegotiateToken:panic:"+mon.PanicClass(v), fmt.Sprintf("panic %v at %s", v, mon.TopLibFrame(st)), cs)
	} else if err != nil {
		r.Violation("spnego.CreateNegotiateToken:error", fmt.Sprint(err), cs)
	} else if in, derr := spnegoRead(neg); derr != nil {
		r.Violation("spnego.CreateNegotiateToken:der:"+derr.Error(), hexShort(neg), cs)
	} else {
		hold("spnego.CreateNegotiateToken", neg, cs)
		checkNegotiateBytes("spnego.CreateNegotiateToken", in.Elems[2], domain, ws, ctxUni, cs)
	}
	var out []byte
	p, v, st = mon.Guard(func() { out, err = ctx.ProcessChallengeToken(tokIn) })
	r.Eval(1)
	if p {
		r.Violation(e+":panic:"+mon.PanicClass(v), fmt.Sprintf("panic %v at %s", v, mon.TopLibFrame(st)), cs)
		return
	}
	if err != nil {
		r.Violation(e+":error", fmt.Sprintf("%v (own writer %v, state %d)", err, ownWriter, state), cs)
		return
	}
	if ctx.NTLMChallenge == nil {
		r.Violation(e+":challenge-not-stored", "ctx.NTLMChallenge is nil after success", cs)
	} else {
		checkParsedChallenge(e+":challenge", ctx.NTLMChallenge, c, cs)
	}
	hold(e, out, cs)
	in, derr := spnegoRead(out)
	if derr != nil {
		r.Violation(e+":der:"+derr.Error(), hexShort(out), cs)
		return
	}
	msg, ok := in.Elems[2]
	if !ok || in.Inner[2] != 0x04 {
		r.Violation(e+":no-mechtoken", hexShort(out), cs)
		return
	}
	cs["message"] = hxCase(msg)
	checkAuthenticateBytes(e, msg, c.spec.Flags, c.spec.SC, user, pw, domain, ws, cs)
	r.Nontrivial("e2e|" + tag)
}

func endToEndAll() {
	rng := r.Rand("e2e")
	i := 0
	for _, uni := range []bool{true, false} {
		for _, ver := range []bool{false, true} {
			for _, info := range []bool{false, true} {
				for _, ess := range []bool{false, true} {
					for _, own := range []bool{false, true} {
						for _, st := range []int{0, 1, 3} {
							c := genChallenge(rng, uni, ver, info, ess, 6, 4, 0)
							u, d := "User", "Domain"
							if uni && i%2 == 0 {
								u, d = "Üser", "Домен"
							}
							endToEndCase(c, u, fixedPasswords[i%len(fixedPasswords)], d, "WS01", own, st, fmt.Sprintf("fx|%#x|%v|%d", c.spec.Flags, own, st))
							i++
						}
					}
				}
			}
		}
	}
	n := r.Pick(25000, 400000)
	for t := 0; t < n; t++ {
		uni := rng.IntN(3) != 0
		info := rng.IntN(4) != 0
		c := genChallenge(rng, uni, rng.IntN(2) == 0, info, rng.IntN(2) == 0, gen.Length(rng, 20), rng.IntN(8), 0)
		su, sd := 0, 0
		if uni {
			su, sd = rng.IntN(len(scripts)+1)-1, rng.IntN(len(scripts)+1)-1
		}
		u, un := genName(rng, gen.Length(rng, 30), su)
		d, dn := genName(rng, gen.Length(rng, 30), sd)
		w, _ := genName(rng, gen.Length(rng, 16), 0)
		own := rng.IntN(2) == 0
		st := []int{0, 1, 3}[rng.IntN(3)]
		if own && rng.IntN(4) == 0 {
			st = -1 // negState left out
		}
		endToEndCase(c, u, genPassword(rng), d, w, own, st, fmt.Sprintf("%s|%v|%d", authTag(c.spec.Flags, u, d, w, un, dn), own, st))
	}
}

// --------------------------------------------------------------- self anchors --

// anchors: the oracle's own pieces are validated on hand-written messages; a
// failure makes the run inconclusive instead of producing verdicts.
func anchors() {
	// an AUTHENTICATE laid out by hand: 72-byte header (VERSION), payload in reverse order
	h := make([]byte, 72)
	copy(h, nlmpSig)
	binary.LittleEndian.PutUint32(h[8:], 3)
	binary.LittleEndian.PutUint32(h[60:], fUnicode|fVersion|fNTLM)
	copy(h[64:], []byte{10, 0, 0x63, 0x45, 0, 0, 0, 0x0F}) // VERSION: 10.0 build 17763, NTLMSSP_REVISION_W2K3
	payload := []byte{}
	put := func(at int, v []byte) {
		binary.LittleEndian.PutUint16(h[at:], uint16(len(v)))
		binary.LittleEndian.PutUint16(h[at+2:], uint16(len(v)))
		binary.LittleEndian.PutUint32(h[at+4:], uint32(72+len(payload)))
		payload = append(payload, v...)
	}
	put(44, ref.UTF16LE("WS"))
	put(36, ref.UTF16LE("User"))
	put(28, ref.UTF16LE("DOM"))
	put(20, bytes.Repeat([]byte{2}, 24))
	put(12, bytes.Repeat([]byte{1}, 24))
	msg := append(h, payload...)
	m, ps := readMessage(msg, 3)
	if len(ps) != 0 || string(m.Fields["UserName"]) != string(ref.UTF16LE("User")) {
		r.Inconclusive(fmt.Sprintf("own reader rejects a hand-written AUTHENTICATE: %v", ps))
	}
	bad := append([]byte{}, msg...)
	binary.LittleEndian.PutUint32(bad[40:], 70) // UserName offset into the header
	if _, ps := readMessage(bad, 3); len(ps) == 0 {
		r.Inconclusive("own reader accepts an offset inside the header")
	}
	bad = append([]byte{}, msg...)
	bad[71] = 0
	if _, ps := readMessage(bad, 3); len(ps) == 0 {
		r.Inconclusive("own reader accepts a VERSION whose revision is not 0x0F")
	}
	bad = append([]byte{}, msg...)
	binary.LittleEndian.PutUint32(bad[32:], 72+2) // DomainName overlaps Workstation/UserName
	if _, ps := readMessage(bad, 3); len(ps) == 0 {
		r.Inconclusive("own reader accepts overlapping fields")
	}
	if s, ok := decodeUTF16LE(ref.UTF16LE("a𐐀é界")); !ok || s != "a𐐀é界" {
		r.Inconclusive("own UTF-16 decoder fails")
	}
	// DER walker: known-good and known-bad encodings
	if _, err := spnegoRead([]byte{0x60, 0x0a, 0x06, 0x06, 0x2b, 0x06, 0x01, 0x05, 0x05, 0x02, 0x30, 0x00}); err != nil {
		r.Inconclusive("own SPNEGO reader rejects a minimal token: " + err.Error())
	}
	if _, err := spnegoRead([]byte{0x60, 0x0b, 0x06, 0x06, 0x2b, 0x06, 0x01, 0x05, 0x05, 0x02, 0x30, 0x00}); err == nil {
		r.Inconclusive("own SPNEGO reader accepts an outer length beyond the data")
	}
	if _, _, err := derRead([]byte{0x04, 0x81, 0x05, 1, 2, 3, 4, 5}); err == nil {
		r.Inconclusive("own DER reader accepts a non-minimal length")
	}
	if _, _, err := derRead([]byte{0x04, 0x82, 0x00, 0x90}); err == nil {
		r.Inconclusive("own DER reader accepts a leading zero length byte")
	}
	if t, rest, err := derRead(append([]byte{0x04, 0x81, 0x80}, make([]byte, 129)...)); err != nil || len(t.Content) != 128 || len(rest) != 1 {
		r.Inconclusive("own DER reader fails on a 128-byte value")
	}
	tok := bytes.Repeat([]byte{7}, 200)
	own := ownNegTokenResp(1, ntlmOIDContent, tok)
	in, err := spnegoRead(own)
	if err != nil || !bytes.Equal(in.Elems[2], tok) || !bytes.Equal(in.Elems[0], []byte{1}) {
		r.Inconclusive("own SPNEGO reader fails on own writer")
	}
}

var blobClock atomic.Int64

func main() {
	r = mon.Start("C08", "exploration")
	// the clock behind the NTLMv2 client blob advances one second on every reading: a message
	// built from two readings carries a proof over another blob than the one it sends
	ntlm.VerifClock = func(time.Time) time.Time { return time.Unix(1700000000+blobClock.Add(1), 0) }
	r.Rule("NEGOTIATE and AUTHENTICATE messages built for generated domain/workstation/user strings (empty, ASCII, BMP, non-BMP; 0..1000 code points and the 65535-byte descriptor limit), both character sets, challenge flag sets crossing UNICODE/OEM x VERSION x EXTENDED_SESSIONSECURITY x TARGET_INFO, read back by an independent MS-NLMP reader; CHALLENGE messages written by an independent writer (0..10 AV pairs, values 0..300 bytes, either payload order, gaps) parsed by the library; SPNEGO wrap/extract for token lengths 0..300, 65400..65700, 2^k+-1 (k<=20), random <=256 KiB, checked by an independent DER walker; ProcessChallengeToken end to end. State carried between calls: every builder output (NEGOTIATE, AUTHENTICATE, SPNEGO wrappers, context tokens) is held in a ring (64 entries / 4 MiB) beside a private copy and re-compared after each later call and at the end; parsers and wrappers get a private input buffer that must be unchanged after the call and is then overwritten with 0xAA (fixed CHALLENGE fields, extracted SPNEGO tokens, wrapped tokens must not change); one parsed CHALLENGE serves two AUTHENTICATE messages with different credentials (challenge must stay untouched, both verify); one AuthContext processes two different challenges (second output answers the second); 8 goroutines build/extract/authenticate unrelated cases and must get the single-caller results. Non-trivial: a distinct (message kind, charset/flag class, emptiness+length bucket of each name, script) tuple, a distinct (flags, name bucket, pair count, order, gaps) challenge, a distinct (wrapper kind, token length, state, mech) SPNEGO case.")
	r.Assume(
		"OEM character set is exercised with 7-bit ASCII only",
		"names are decoded in the character set selected by the flags of the message itself (NEGOTIATE) or of the CHALLENGE (AUTHENTICATE); MS-NLMP 2.2.1.1's 'NEGOTIATE names are always OEM' is not demanded because the property says 'negotiated character set'",
		"letter case of DomainName and Workstation is not judged (Go simple case mappings); UserName must be byte-exact",
		"names longer than 65535 encoded bytes are outside the domain of a 16-bit descriptor and are not generated",
		"SPNEGO: only wrap/extract identity and DER well-formedness (definite, minimal lengths, exact total) are demanded, not RFC 4178's NegotiationToken CHOICE framing; for the empty token, 'no token found' is accepted",
		"well-formed CHALLENGE: 56-byte fixed part with the Version field always present (zero unless NTLMSSP_NEGOTIATE_VERSION), Len==MaxLen, payload after the fixed part in either order with optional gaps, AV list terminated by MsvAvEOL with unique ids",
		"ownership: ChallengeMessage.TargetName/TargetInfo and the values returned by ParseTargetInfo are views of the caller's buffer (zero-copy parse); that they change when the caller overwrites the buffer is counted (parse_challenge_payload_views_input, parse_target_info_values_view_input), not judged; the fixed-size fields, and everything the SPNEGO functions return, must be independent of the input after the call",
		"the C02 verifier applied to every AUTHENTICATE reads UserName/DomainName from the message like a server; LM responses judged for 7-bit ASCII passwords only",
	)
	// race side run (./check builds this monitor with -race): only the workloads in which goroutines
	// use the library at the same time; the detector's reports are filed by Finish
	if mon.SideRace() {
		concurrent()
		r.Finish()
	}
	anchors()
	negotiateAll()
	challengeAll()
	authenticateAll()
	spnegoAll()
	endToEndAll()
	carryOver()
	heldFinal()
	r.Finish()
}
