// Independent DER TLV walker / writer for the SPNEGO leg of C08 (X.690 §8.1,
// §10.1: definite, minimal lengths). No encoding/asn1.
package main

import (
	"errors"
	"fmt"
)

type tlv struct {
	Tag     byte // identifier octet (low-tag-number form only)
	Content []byte
	HdrLen  int
}

func (t tlv) constructed() bool { return t.Tag&0x20 != 0 }

// derRead reads one TLV from the front of b and returns what follows it.
func derRead(b []byte) (tlv, []byte, error) {
	if len(b) < 2 {
		return tlv{}, nil, errors.New("truncated:header")
	}
	t := tlv{Tag: b[0]}
	if b[0]&0x1F == 0x1F {
		return t, nil, errors.New("high-tag-number")
	}
	l := int(b[1])
	h := 2
	if l == 0x80 {
		return t, nil, errors.New("indefinite-length")
	}
	if l > 0x80 {
		n := l & 0x7F
		if n > 4 {
			return t, nil, errors.New("length-of-length>4")
		}
		if len(b) < 2+n {
			return t, nil, errors.New("truncated:length")
		}
		l = 0
		for i := 0; i < n; i++ {
			l = l<<8 | int(b[2+i])
		}
		h = 2 + n
		if b[2] == 0 || l < 0x80 {
			return t, nil, fmt.Errorf("non-minimal-length")
		}
	}
	if len(b)-h < l {
		return t, nil, errors.New("truncated:content")
	}
	t.HdrLen = h
	t.Content = b[h : h+l]
	return t, b[h+l:], nil
}

// derWalk validates every nested TLV of a constructed value (primitive values,
// in particular the OCTET STRING holding the token, are not looked into).
func derWalk(b []byte, depth int) error {
	for len(b) > 0 {
		t, rest, err := derRead(b)
		if err != nil {
			return err
		}
		if t.constructed() {
			if depth > 16 {
				return errors.New("too-deep")
			}
			if err := derWalk(t.Content, depth+1); err != nil {
				return err
			}
		}
		b = rest
	}
	return nil
}

var spnegoOIDContent = []byte{0x2b, 0x06, 0x01, 0x05, 0x05, 0x02}
var ntlmOIDContent = []byte{0x2b, 0x06, 0x01, 0x04, 0x01, 0x82, 0x37, 0x02, 0x02, 0x0a}

// spnegoInner is what the independent walker recovers from the library's
// framing 0x60 L { OID spnego, SEQUENCE { [n] EXPLICIT ... } }.
type spnegoInner struct {
	Elems map[byte][]byte // context tag number -> content of the inner TLV
	Inner map[byte]byte   // context tag number -> identifier octet of the inner TLV
}

// spnegoRead validates the whole token and returns its tagged elements. The
// error string is a stable class.
func spnegoRead(b []byte) (*spnegoInner, error) {
	outer, rest, err := derRead(b)
	if err != nil {
		return nil, fmt.Errorf("outer:%v", err)
	}
	if outer.Tag != 0x60 {
		return nil, errors.New("outer:tag")
	}
	if len(rest) != 0 {
		return nil, errors.New("outer:length-short-of-total")
	}
	if err := derWalk(outer.Content, 0); err != nil {
		return nil, fmt.Errorf("nested:%v", err)
	}
	oid, rest, _ := derRead(outer.Content)
	if oid.Tag != 0x06 || string(oid.Content) != string(spnegoOIDContent) {
		return nil, errors.New("mech-oid")
	}
	seq, rest, err := derRead(rest)
	if err != nil || seq.Tag != 0x30 {
		return nil, errors.New("body:not-a-sequence")
	}
	if len(rest) != 0 {
		return nil, errors.New("body:trailing-bytes")
	}
	in := &spnegoInner{Elems: map[byte][]byte{}, Inner: map[byte]byte{}}
	b = seq.Content
	last := -1
	for len(b) > 0 {
		e, r2, _ := derRead(b)
		if e.Tag&0xE0 != 0xA0 {
			return nil, errors.New("body:element-not-context-constructed")
		}
		n := e.Tag & 0x1F
		if int(n) <= last {
			return nil, errors.New("body:elements-out-of-order")
		}
		last = int(n)
		iv, r3, err := derRead(e.Content)
		if err != nil || len(r3) != 0 {
			return nil, errors.New("body:explicit-wrapper")
		}
		in.Elems[n] = iv.Content
		in.Inner[n] = iv.Tag
		b = r2
	}
	return in, nil
}

// ---- writer --------------------------------------------------------------------

func derLen(n int) []byte {
	switch {
	case n < 0x80:
		return []byte{byte(n)}
	case n < 0x100:
		return []byte{0x81, byte(n)}
	case n < 0x10000:
		return []byte{0x82, byte(n >> 8), byte(n)}
	case n < 0x1000000:
		return []byte{0x83, byte(n >> 16), byte(n >> 8), byte(n)}
	}
	return []byte{0x84, byte(n >> 24), byte(n >> 16), byte(n >> 8), byte(n)}
}

func derTLV(tag byte, content []byte) []byte {
	out := append([]byte{tag}, derLen(len(content))...)
	return append(out, content...)
}

// ownNegTokenResp writes a NegTokenResp in the framing the library itself uses
// (0x60 { OID, SEQUENCE { [0] ENUMERATED, [1] OID, [2] OCTET STRING } }).
func ownNegTokenResp(state int, mechContent, token []byte) []byte {
	var seq []byte
	if state >= 0 { // negState is OPTIONAL: state < 0 leaves it out
		seq = append(seq, derTLV(0xA0, derTLV(0x0A, []byte{byte(state)}))...)
	}
	if mechContent != nil {
		seq = append(seq, derTLV(0xA1, derTLV(0x06, mechContent))...)
	}
	if len(token) > 0 {
		seq = append(seq, derTLV(0xA2, derTLV(0x04, token))...)
	}
	body := append(derTLV(0x06, spnegoOIDContent), derTLV(0x30, seq)...)
	return derTLV(0x60, body)
}
