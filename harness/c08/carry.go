// State-carry-over and aliasing monitors of C08: what a builder returned must stay what it
// was while later calls run; parsers must leave their input alone and, where the library
// hands out private copies, the result must not depend on the input buffer afterwards; a
// parsed CHALLENGE / an AuthContext that was used once must serve a second use like a fresh
// one; concurrent callers get the single-caller results.
package main

import (
	"bytes"
	"encoding/asn1"
	"fmt"
	"math/rand/v2"
	"sync"

	"github.com/TheManticoreProject/Manticore/network/smb/smb_v10/spnego"
	"github.com/TheManticoreProject/Manticore/network/smb/smb_v10/spnego/ntlm"

	"verif/gen"
	"verif/mon"
)

// ---------- (a) held outputs ----------

// heldRing keeps the slices a builder returned (not copies) beside private copies, at most n
// of them and at most budget bytes (the newest two always stay), re-compares all of them when
// a new one arrives and at the end. A slice that leaves the ring is overwritten with 0x55.
type heldRing struct {
	mu     sync.Mutex
	n      int
	budget int
	bytes  int
	live   [][]byte
	priv   [][]byte
}

func (h *heldRing) changed() int {
	c := 0
	for i := range h.live {
		if !bytes.Equal(h.live[i], h.priv[i]) {
			c++
			h.priv[i] = append([]byte(nil), h.live[i]...)
		}
	}
	return c
}

func (h *heldRing) hold(out []byte) int {
	h.mu.Lock()
	defer h.mu.Unlock()
	c := h.changed()
	h.live = append(h.live, out)
	h.priv = append(h.priv, append([]byte(nil), out...))
	h.bytes += len(out)
	for len(h.live) > 2 && (len(h.live) > h.n || h.bytes > h.budget) {
		old := h.live[0]
		h.bytes -= len(old)
		for i := range old {
			old[i] = 0x55
		}
		h.live, h.priv = h.live[1:], h.priv[1:]
	}
	return c
}

var (
	ringsMu sync.Mutex
	rings   = map[string]*heldRing{}
	ringSeq []string
)

func ringOf(entry string) *heldRing {
	ringsMu.Lock()
	defer ringsMu.Unlock()
	h := rings[entry]
	if h == nil {
		h = &heldRing{n: 64, budget: 4 << 20}
		rings[entry] = h
		ringSeq = append(ringSeq, entry)
	}
	return h
}

// hold registers one builder output; all SPNEGO wrappers share one ring (they share code).
func hold(entry string, out []byte, cs map[string]any) {
	if len(out) == 0 {
		return
	}
	ring := entry
	if len(entry) > 7 && entry[:7] == "spnego." {
		ring = "spnego"
	}
	if c := ringOf(ring).hold(out); c > 0 {
		r.Violation(entry+":held-output-changed", fmt.Sprintf("%d byte slice(s) returned by earlier calls (ring %q) changed while %s ran (output aliases a reused buffer)", c, ring, entry), cs)
	}
	r.Count("held_outputs", 1)
}

func heldFinal() {
	ringsMu.Lock()
	defer ringsMu.Unlock()
	for _, e := range ringSeq {
		h := rings[e]
		h.mu.Lock()
		c := h.changed()
		h.mu.Unlock()
		if c > 0 {
			r.Violation(e+":held-output-changed", fmt.Sprintf("%d held outputs of ring %q differ from their copies at the end of the run", c, e), map[string]any{"phase": "final"})
		}
	}
}

// ---------- (b) inputs ----------

func scribble(b []byte, v byte) {
	for i := range b {
		b[i] = v
	}
}

// afterParseChallenge: in is the private buffer ParseChallengeMessage was given, raw what it
// held. The parser must not have written into it. Then the buffer is overwritten: the fixed
// fields of the result must not change. TargetName / TargetInfo are views of the input on the
// pinned tree (zero-copy parse); that is counted, not judged.
func afterParseChallenge(e string, got *ntlm.ChallengeMessage, c chalCase, raw, in []byte, cs map[string]any) {
	if !bytes.Equal(in, raw) {
		r.Violation(e+":mutates-input", "the parser wrote into the caller's CHALLENGE buffer", cs)
		return
	}
	namesOK := bytes.Equal(got.TargetName, c.spec.TargetName) && bytes.Equal(got.TargetInfo, c.spec.TargetInfo)
	scribble(in, 0xAA)
	if got.NegotiateFlags != c.spec.Flags {
		r.Violation(e+":input-scribble:flags", "NegotiateFlags changed when the caller overwrote the input buffer after the call", cs)
	}
	if got.ServerChallenge != c.spec.SC {
		r.Violation(e+":input-scribble:server-challenge", "ServerChallenge changed when the caller overwrote the input buffer after the call", cs)
	}
	v, w := got.Version, c.spec.Version
	if v.ProductMajorVersion != w[0] || v.ProductMinorVersion != w[1] || v.NTLMRevision != w[7] {
		r.Violation(e+":input-scribble:version", "Version changed when the caller overwrote the input buffer after the call", cs)
	}
	if got.MessageType != 2 || !bytes.Equal(got.Signature[:], nlmpSig) {
		r.Violation(e+":input-scribble:header", "Signature / MessageType changed when the caller overwrote the input buffer after the call", cs)
	}
	if namesOK && (!bytes.Equal(got.TargetName, c.spec.TargetName) || !bytes.Equal(got.TargetInfo, c.spec.TargetInfo)) {
		r.Count("parse_challenge_payload_views_input", 1)
	}
}

// targetInfoInput: ParseTargetInfo must not write into the list it is given.
func targetInfoInput(ti []byte, pairs []avPair, cs map[string]any) {
	const e = "ntlm.ParseTargetInfo"
	in := append([]byte{}, ti...)
	var got map[uint16][]byte
	var err error
	p, _, _ := mon.Guard(func() { got, err = ntlm.ParseTargetInfo(in) })
	r.Eval(1)
	if p || err != nil {
		return // judged by checkTargetInfoParse
	}
	if !bytes.Equal(in, ti) {
		r.Violation(e+":mutates-input", "the parser wrote into the caller's AV_PAIR list", cs)
		return
	}
	ok := true
	for _, q := range pairs {
		ok = ok && bytes.Equal(got[q.ID], q.Val)
	}
	scribble(in, 0xAA)
	for _, q := range pairs {
		if ok && len(q.Val) > 0 && !bytes.Equal(got[q.ID], q.Val) {
			r.Count("parse_target_info_values_view_input", 1)
			break
		}
	}
	if len(got) > len(pairs) {
		r.Violation(e+":input-scribble:pairs", "the number of returned pairs changed when the input was overwritten", cs)
	}
}

// extractInput: ExtractNTLMToken and ParseNegTokenResp return private copies on the pinned
// tree; the results must survive the caller overwriting the wrapped token, and the wrapped
// token must not be written to.
func extractInput(kind string, wrapped, tok []byte, isResp bool, cs map[string]any) {
	if len(tok) == 0 {
		return
	}
	in := append([]byte{}, wrapped...)
	var got []byte
	var resp *spnego.NegTokenResp
	var err, rerr error
	p, _, _ := mon.Guard(func() {
		got, err = spnego.ExtractNTLMToken(in)
		if isResp {
			resp, rerr = spnego.ParseNegTokenResp(in)
		}
	})
	r.Eval(1)
	if p || err != nil || !bytes.Equal(got, tok) {
		return // judged by extractCheck
	}
	if !bytes.Equal(in, wrapped) {
		r.Violation("spnego.ExtractNTLMToken:"+kind+":mutates-input", "the SPNEGO token handed to ExtractNTLMToken / ParseNegTokenResp was written to", cs)
		return
	}
	respOK := isResp && rerr == nil && resp != nil && bytes.Equal(resp.ResponseToken, tok)
	scribble(in, 0xAA)
	if !bytes.Equal(got, tok) {
		r.Violation("spnego.ExtractNTLMToken:"+kind+":input-scribble", "the extracted token changed when the caller overwrote the SPNEGO buffer after the call (result is a view of the input)", cs)
	}
	if respOK && !bytes.Equal(resp.ResponseToken, tok) {
		r.Violation("spnego.ParseNegTokenResp:input-scribble", "ResponseToken changed when the caller overwrote the SPNEGO buffer after the call (result is a view of the input)", cs)
	}
	// the other direction
	scribble(got, 0x11)
	if bytes.IndexByte(in, 0x11) >= 0 {
		r.Violation("spnego.ExtractNTLMToken:"+kind+":result-writes-through-to-input", "writing into the extracted token changed the caller's SPNEGO buffer", cs)
	}
}

// wrapInput: the wrappers must not write into, nor keep a view of, the token they wrap.
func wrapInput(e string, out, in, tok []byte, cs map[string]any) {
	if !bytes.Equal(in, tok) {
		r.Violation(e+":mutates-input", "the token handed to the wrapper was written to", cs)
		return
	}
	if len(tok) == 0 {
		return
	}
	before := append([]byte(nil), out...)
	scribble(in, 0xAA)
	if !bytes.Equal(out, before) {
		r.Violation(e+":input-scribble", "the wrapped token changed when the caller overwrote the inner token after the call (output is built around a view of the input)", cs)
		copy(out, before)
	}
}

// ---------- (c) reuse of a parsed challenge / of a context ----------

func snapshotChallenge(ch *ntlm.ChallengeMessage) ntlm.ChallengeMessage {
	s := *ch
	s.TargetName = append([]byte(nil), ch.TargetName...)
	s.TargetInfo = append([]byte(nil), ch.TargetInfo...)
	return s
}

func sameChallenge(a *ntlm.ChallengeMessage, b *ntlm.ChallengeMessage) bool {
	return a.NegotiateFlags == b.NegotiateFlags && a.ServerChallenge == b.ServerChallenge && a.Reserved == b.Reserved &&
		a.Version == b.Version && a.MessageType == b.MessageType && a.Signature == b.Signature &&
		bytes.Equal(a.TargetName, b.TargetName) && bytes.Equal(a.TargetInfo, b.TargetInfo)
}

type cred struct{ user, pw, domain, ws string }

// challengeReuse: one parsed CHALLENGE serves two AUTHENTICATE messages with different
// credentials; the builder must not write into the challenge (struct or raw bytes), and the
// second message must verify like the first.
func challengeReuse(c chalCase, a, b cred, tag string) {
	const e = "ntlm.CreateAuthenticateMessage"
	raw := c.spec.build()
	in := append([]byte{}, raw...)
	cs := c.caseMap(raw)
	cs["first"], cs["second"] = fmt.Sprintf("%q", a), fmt.Sprintf("%q", b)
	var ch *ntlm.ChallengeMessage
	var err error
	p, _, _ := mon.Guard(func() { ch, err = ntlm.ParseChallengeMessage(in) })
	if p || err != nil || ch == nil {
		return
	}
	snap := snapshotChallenge(ch)
	var m1, m2 []byte
	p, v, st := mon.Guard(func() {
		m1, err = ntlm.CreateAuthenticateMessage(ch, a.user, a.pw, a.domain, a.ws)
	})
	r.Eval(1)
	if p || err != nil {
		if p {
			r.Violation(e+":panic:"+mon.PanicClass(v), fmt.Sprintf("panic %v at %s", v, mon.TopLibFrame(st)), cs)
		}
		return
	}
	if !bytes.Equal(in, raw) || !sameChallenge(ch, &snap) {
		r.Violation(e+":mutates-challenge", "CreateAuthenticateMessage wrote into the parsed CHALLENGE or into the buffer it was parsed from", cs)
		return
	}
	hold(e, m1, cs)
	p, v, st = mon.Guard(func() {
		m2, err = ntlm.CreateAuthenticateMessage(ch, b.user, b.pw, b.domain, b.ws)
	})
	r.Eval(1)
	if p {
		r.Violation(e+":panic:"+mon.PanicClass(v), fmt.Sprintf("panic %v at %s", v, mon.TopLibFrame(st)), cs)
		return
	}
	if err != nil {
		r.Violation(e+":challenge-reuse:error", fmt.Sprintf("second AUTHENTICATE from the same parsed CHALLENGE: %v", err), cs)
		return
	}
	hold(e, m2, cs)
	cs["message"] = hxCase(m2)
	checkAuthenticateBytes(e+":challenge-reuse", m2, c.spec.Flags, c.spec.SC, b.user, b.pw, b.domain, b.ws, cs)
	// the first message is still the first credential's
	cs1 := c.caseMap(raw)
	cs1["message"] = hxCase(m1)
	checkAuthenticateBytes(e+":held-output", m1, c.spec.Flags, c.spec.SC, a.user, a.pw, a.domain, a.ws, cs1)
	r.Nontrivial("reuse|" + tag)
}

// contextReuse: one AuthContext processes challenge A and then challenge B (different server
// challenge, flags, target info). The second output must answer B; the stored challenge must
// be B; the caller overwriting the token afterwards must not change the stored challenge.
func contextReuse(ca, cb chalCase, k cred, ownWriter bool, tag string) {
	const e = "spnego.ProcessChallengeToken:context-reuse"
	rawA, rawB := ca.spec.build(), cb.spec.build()
	cs := cb.caseMap(rawB)
	cs["first_challenge"], cs["cred"], cs["own_writer"] = hxCase(rawA), fmt.Sprintf("%q", k), ownWriter
	wrap := func(raw []byte) []byte {
		if ownWriter {
			return ownNegTokenResp(1, ntlmOIDContent, raw)
		}
		t, err := spnego.CreateNegTokenResp(asn1.Enumerated(1), spnego.NtlmOID, raw)
		if err != nil {
			return nil
		}
		return t
	}
	tokA, tokB := wrap(rawA), wrap(rawB)
	if tokA == nil || tokB == nil {
		return
	}
	uni := cb.spec.Flags&fUnicode != 0
	ctx := spnego.NewAuthContext(spnego.AuthTypeNTLM, k.domain, k.user, k.pw, k.ws, uni)
	var outA, outB []byte
	var err error
	p, _, _ := mon.Guard(func() { outA, err = ctx.ProcessChallengeToken(tokA) })
	r.Eval(1)
	if p || err != nil {
		return // judged by endToEndCase
	}
	inB := append([]byte{}, tokB...)
	p, v, st := mon.Guard(func() { outB, err = ctx.ProcessChallengeToken(inB) })
	r.Eval(1)
	if p {
		r.Violation(e+":panic:"+mon.PanicClass(v), fmt.Sprintf("panic %v at %s", v, mon.TopLibFrame(st)), cs)
		return
	}
	if err != nil {
		r.Violation(e+":error", fmt.Sprintf("second ProcessChallengeToken on the same context: %v", err), cs)
		return
	}
	hold("spnego.ProcessChallengeToken", outA, cs)
	hold("spnego.ProcessChallengeToken", outB, cs)
	if !bytes.Equal(inB, tokB) {
		r.Violation("spnego.ProcessChallengeToken:mutates-input", "the challenge token was written to", cs)
	}
	scribble(inB, 0xAA)
	if ctx.NTLMChallenge == nil {
		r.Violation(e+":challenge-not-stored", "ctx.NTLMChallenge is nil after success", cs)
	} else {
		checkParsedChallenge(e+":challenge", ctx.NTLMChallenge, cb, cs)
	}
	in, derr := spnegoRead(outB)
	if derr != nil {
		r.Violation(e+":der:"+derr.Error(), hexShort(outB), cs)
		return
	}
	msg, ok := in.Elems[2]
	if !ok || in.Inner[2] != 0x04 {
		r.Violation(e+":no-mechtoken", hexShort(outB), cs)
		return
	}
	cs["message"] = hxCase(msg)
	checkAuthenticateBytes(e, msg, cb.spec.Flags, cb.spec.SC, k.user, k.pw, k.domain, k.ws, cs)
	// and the first output still answers A
	if inA, derr := spnegoRead(outA); derr != nil {
		r.Violation("spnego.ProcessChallengeToken:held-output-changed", "the first output no longer parses after the second call: "+derr.Error(), cs)
	} else if msgA, ok := inA.Elems[2]; ok {
		csA := ca.caseMap(rawA)
		csA["message"] = hxCase(msgA)
		checkAuthenticateBytes("spnego.ProcessChallengeToken:held-output", msgA, ca.spec.Flags, ca.spec.SC, k.user, k.pw, k.domain, k.ws, csA)
	}
	r.Nontrivial("ctxreuse|" + tag)
}

// ---------- (e) concurrent callers ----------

type ccase struct {
	c        chalCase
	k        cred
	uni      bool
	tok      []byte
	wantInit []byte // single-caller CreateNegTokenInit(tok)
	wantResp []byte
	wantNeg  []byte // single-caller CreateNegotiateMessage
}

func genCred(rng *rand.Rand, uni bool) cred {
	s := 0
	if uni {
		s = rng.IntN(len(scripts)+1) - 1
	}
	u, _ := genName(rng, gen.Length(rng, 20), s)
	d, _ := genName(rng, gen.Length(rng, 20), s)
	w, _ := genName(rng, gen.Length(rng, 12), 0)
	return cred{u, genPassword(rng), d, w}
}

// sharedChallenge: one parsed CHALLENGE, read by several goroutines that each build their own
// AUTHENTICATE from it (building one reads the challenge; nobody changes it).
func sharedChallenge() {
	const G = 8
	rng := r.Rand("shared-challenge")
	for run := 0; run < r.Pick(60, 600); run++ {
		uni := run%3 != 0
		c := genChallenge(rng, uni, run%2 == 0, true, true, 4+rng.IntN(12), 2+rng.IntN(8), 0)
		if run%5 == 0 { // a long target info: more to walk
			for k := 0; k < 30; k++ {
				c.pairs = append(c.pairs, avPair{uint16(0x200 + k), gen.Bytes(rng, 40+rng.IntN(200))})
			}
			c.spec.TargetInfo = encodeAV(c.pairs)
		}
		raw := c.spec.build()
		ch, err := ntlm.ParseChallengeMessage(append([]byte{}, raw...))
		if err != nil || ch == nil {
			continue // judged in the single-caller phases
		}
		creds := make([]cred, G)
		for g := range creds {
			creds[g] = genCred(rng, uni)
		}
		var wg sync.WaitGroup
		start := make(chan struct{})
		for g := 0; g < G; g++ {
			wg.Add(1)
			go func(k cred) {
				defer wg.Done()
				<-start
				for i := 0; i < 3; i++ {
					var msg []byte
					var err error
					p, v, st := mon.Guard(func() { msg, err = ntlm.CreateAuthenticateMessage(ch, k.user, k.pw, k.domain, k.ws) })
					acs := c.caseMap(raw)
					acs["cred"], acs["goroutines_sharing_the_challenge"] = fmt.Sprintf("%q", k), G
					switch {
					case p:
						r.Violation("ntlm.CreateAuthenticateMessage:shared-challenge:panic:"+mon.PanicClass(v), fmt.Sprintf("panic %v at %s", v, mon.TopLibFrame(st)), acs)
					case err != nil:
						r.Violation("ntlm.CreateAuthenticateMessage:shared-challenge:error", fmt.Sprint(err), acs)
					default:
						acs["message"] = hxCase(msg)
						checkAuthenticateBytes("ntlm.CreateAuthenticateMessage:shared-challenge", msg, c.spec.Flags, c.spec.SC, k.user, k.pw, k.domain, k.ws, acs)
					}
				}
			}(creds[g])
		}
		close(start)
		wg.Wait()
		r.Eval(G * 3)
		r.Nontrivial(fmt.Sprintf("shared-challenge|%d", run%40))
	}
}

func concurrent() {
	sharedChallenge()
	const G = 8
	per := r.Pick(40, 250)
	rounds := r.Pick(5, 16)
	rng := r.Rand("concurrent")
	sets := make([][]ccase, G)
	for g := range sets {
		for i := 0; i < per; i++ {
			uni := rng.IntN(3) != 0
			c := genChallenge(rng, uni, rng.IntN(2) == 0, rng.IntN(4) != 0, rng.IntN(2) == 0, gen.Length(rng, 20), rng.IntN(6), 0)
			x := ccase{c: c, k: genCred(rng, uni), uni: uni, tok: genToken(rng, []int{1, 20, 100, 126, 127, 128, 200, 400}[rng.IntN(8)]+rng.IntN(3), i)}
			var e1, e2, e3 error
			x.wantInit, e1 = spnego.CreateNegTokenInit(append([]byte{}, x.tok...))
			x.wantResp, e2 = spnego.CreateNegTokenResp(asn1.Enumerated(1), spnego.NtlmOID, append([]byte{}, x.tok...))
			x.wantNeg, e3 = ntlm.CreateNegotiateMessage(x.k.domain, x.k.ws, uni)
			if e1 != nil || e2 != nil || e3 != nil {
				continue // judged in the single-caller phases
			}
			x.wantInit, x.wantResp, x.wantNeg = append([]byte{}, x.wantInit...), append([]byte{}, x.wantResp...), append([]byte{}, x.wantNeg...)
			sets[g] = append(sets[g], x)
		}
	}
	var wg sync.WaitGroup
	for g := 0; g < G; g++ {
		wg.Add(1)
		go func(cases []ccase) {
			defer wg.Done()
			type kept struct {
				out, want []byte
				what      string
			}
			var last []kept
			keep := func(out, want []byte, what string, cs map[string]any) {
				last = append(last, kept{out, want, what})
				if len(last) > 24 {
					last = last[1:]
				}
				for i := range last {
					if !bytes.Equal(last[i].out, last[i].want) {
						r.Violation(last[i].what+":held-output-changed:concurrent-callers", "bytes returned earlier to this goroutine changed while 8 goroutines build unrelated tokens", cs)
						last[i].want = append([]byte(nil), last[i].out...)
					}
				}
			}
			for round := 0; round < rounds; round++ {
				for i := range cases {
					x := &cases[i]
					cs := map[string]any{"token": hxCase(x.tok), "cred": fmt.Sprintf("%q", x.k), "unicode": x.uni, "concurrent_callers": G}
					var o1, o2, o3, tk []byte
					var e1, e2, e3, e4 error
					p, v, st := mon.Guard(func() {
						o1, e1 = spnego.CreateNegTokenInit(append([]byte{}, x.tok...))
						o2, e2 = spnego.CreateNegTokenResp(asn1.Enumerated(1), spnego.NtlmOID, append([]byte{}, x.tok...))
						o3, e3 = ntlm.CreateNegotiateMessage(x.k.domain, x.k.ws, x.uni)
						tk, e4 = spnego.ExtractNTLMToken(append([]byte{}, x.wantResp...))
					})
					r.Eval(4)
					if p {
						r.Violation("spnego:concurrent-callers:panic:"+mon.PanicClass(v), fmt.Sprintf("panic %v at %s", v, mon.TopLibFrame(st)), cs)
						continue
					}
					if e1 != nil || !bytes.Equal(o1, x.wantInit) {
						r.Violation("spnego.CreateNegTokenInit:concurrent-callers", fmt.Sprintf("with 8 concurrent callers the output differs from the single-caller output (err=%v)", e1), cs)
					} else {
						keep(o1, x.wantInit, "spnego.CreateNegTokenInit", cs)
					}
					if e2 != nil || !bytes.Equal(o2, x.wantResp) {
						r.Violation("spnego.CreateNegTokenResp:concurrent-callers", fmt.Sprintf("with 8 concurrent callers the output differs from the single-caller output (err=%v)", e2), cs)
					} else {
						keep(o2, x.wantResp, "spnego.CreateNegTokenResp", cs)
					}
					if e3 != nil || !bytes.Equal(o3, x.wantNeg) {
						r.Violation("ntlm.CreateNegotiateMessage:concurrent-callers", fmt.Sprintf("with 8 concurrent callers the output differs from the single-caller output (err=%v)", e3), cs)
					} else {
						keep(o3, x.wantNeg, "ntlm.CreateNegotiateMessage", cs)
					}
					if e4 != nil || !bytes.Equal(tk, x.tok) {
						r.Violation("spnego.ExtractNTLMToken:concurrent-callers", fmt.Sprintf("with 8 concurrent callers the extracted token differs (err=%v)", e4), cs)
					}
					// CHALLENGE -> AUTHENTICATE, verified like a server
					raw := x.c.spec.build()
					var ch *ntlm.ChallengeMessage
					var msg []byte
					var err error
					p, v, st = mon.Guard(func() {
						ch, err = ntlm.ParseChallengeMessage(raw)
						if err == nil && ch != nil {
							msg, err = ntlm.CreateAuthenticateMessage(ch, x.k.user, x.k.pw, x.k.domain, x.k.ws)
						}
					})
					r.Eval(2)
					acs := x.c.caseMap(raw)
					acs["cred"], acs["concurrent_callers"] = fmt.Sprintf("%q", x.k), G
					if p {
						r.Violation("ntlm.CreateAuthenticateMessage:concurrent-callers:panic:"+mon.PanicClass(v), fmt.Sprintf("panic %v at %s", v, mon.TopLibFrame(st)), acs)
						continue
					}
					if err != nil || ch == nil {
						r.Violation("ntlm.CreateAuthenticateMessage:concurrent-callers:error", fmt.Sprint(err), acs)
						continue
					}
					checkParsedChallenge("ntlm.ParseChallengeMessage:concurrent-callers", ch, x.c, acs)
					acs["message"] = hxCase(msg)
					checkAuthenticateBytes("ntlm.CreateAuthenticateMessage:concurrent-callers", msg, x.c.spec.Flags, x.c.spec.SC, x.k.user, x.k.pw, x.k.domain, x.k.ws, acs)
				}
			}
		}(sets[g])
	}
	wg.Wait()
	r.Count("concurrent_cases", G*per*rounds)
}

// ---------- the phase ----------

func carryOver() {
	rng := r.Rand("carry")
	n := r.Pick(4000, 60000)
	var prev chalCase
	for t := 0; t < n; t++ {
		uni := rng.IntN(3) != 0
		info := rng.IntN(4) != 0
		c := genChallenge(rng, uni, rng.IntN(2) == 0, info, rng.IntN(2) == 0, gen.Length(rng, 20), rng.IntN(8), 0)
		a, b := genCred(rng, uni), genCred(rng, uni)
		if t%7 == 0 {
			b.pw = "" // genuine password first, empty one second
		}
		if t%11 == 0 {
			b.user, b.domain = a.user, a.domain // same identity, other password
		}
		challengeReuse(c, a, b, fmt.Sprintf("%#x|%d", c.spec.Flags&(fUnicode|fOEM|fVersion|fESS|fTargetInfo), t%7))
		if t > 0 && (prev.spec.Flags&fUnicode != 0) == uni {
			contextReuse(prev, c, a, t%2 == 0, fmt.Sprintf("%#x|%#x|%v", prev.spec.Flags&(fESS|fTargetInfo|fVersion), c.spec.Flags&(fESS|fTargetInfo|fVersion), t%2 == 0))
			contextReuse(c, prev, b, t%2 == 1, fmt.Sprintf("%#x|%#x|%v", c.spec.Flags&(fESS|fTargetInfo|fVersion), prev.spec.Flags&(fESS|fTargetInfo|fVersion), t%2 == 1))
		}
		prev = c
	}
	// small SPNEGO tokens back to back (a reused scratch buffer shows between neighbours)
	for t := 0; t < r.Pick(3000, 40000); t++ {
		tok := genToken(rng, 1+rng.IntN(400), t)
		spnegoInitCase(tok, t)
		spnegoRespCase([]int{0, 1, 3}[t%3], t%len(mechChoices), tok, t)
	}
	concurrent()
}
