package main

// Contention: many goroutines, each parsing its own texts into its own objects through one entry
// point at a time. No object is shared between callers, so every caller must get its own value
// back; a scratch area shared inside the library shows as another caller's bits.

import (
	"bytes"
	"fmt"
	"strings"
	"sync"
	"sync/atomic"

	"github.com/TheManticoreProject/Manticore/crypto/uuid"
	"github.com/TheManticoreProject/Manticore/windows/guid"

	"verif/mon"
)

func contention() {
	type entry struct {
		name  string
		ver   byte // version nibble the entry demands (0: any)
		parse func(b []byte, upper bool) ([]byte, error)
	}
	text := func(b []byte, upper bool) string {
		t := canonUUID(b)
		if upper {
			t = strings.ToUpper(t)
		}
		return t
	}
	versioned := func(ver byte, viaBytes bool) func([]byte, bool) ([]byte, error) {
		return func(b []byte, upper bool) ([]byte, error) {
			u := newVer(ver)
			var err error
			if viaBytes {
				err = u.FromBytes(append([]byte{}, b...))
			} else {
				err = u.FromString(text(b, upper))
			}
			if err != nil {
				return nil, err
			}
			return u.Marshal()
		}
	}
	entries := []entry{
		{"uuid_v1.FromString", 1, versioned(1, false)},
		{"uuid_v2.FromString", 2, versioned(2, false)},
		{"uuid_v8.FromString", 8, versioned(8, false)},
		{"uuid_v1.FromBytes", 1, versioned(1, true)},
		{"uuid_v8.FromBytes", 8, versioned(8, true)},
		{"uuid.UUID.FromString", 0, func(b []byte, upper bool) ([]byte, error) {
			var u uuid.UUID
			if err := u.FromString(text(b, upper)); err != nil {
				return nil, err
			}
			return u.Marshal()
		}},
		{"guid.FromString", 0, func(b []byte, upper bool) ([]byte, error) {
			_, want := guidWant(b)
			t := guidFormat(&want, "DNBPX"[int(b[0])%5])
			if upper && b[0]%5 != 4 {
				t = strings.ToUpper(t)
			}
			g, err := guid.FromString(t)
			if err != nil || g == nil {
				return nil, fmt.Errorf("refused %q: %v", t, err)
			}
			return g.ToBytes(), nil
		}},
	}
	const G = 64
	per := r.Pick(3000, 60000)
	for _, e := range entries {
		var wrong, refused atomic.Int64
		var once sync.Once
		var wg sync.WaitGroup
		for g := 0; g < G; g++ {
			wg.Add(1)
			go func(g int) {
				defer wg.Done()
				x := uint64(g)*0x9E3779B97F4A7C15 + 0x1234567
				b := make([]byte, 16)
				for i := 0; i < per; i++ {
					for k := 0; k < 16; k += 8 {
						x ^= x << 13
						x ^= x >> 7
						x ^= x << 17
						for j := 0; j < 8; j++ {
							b[k+j] = byte(x >> (8 * j))
						}
					}
					if e.ver != 0 {
						b[6] = b[6]&0x0F | e.ver<<4
						b[8] = b[8]&0x3F | 0x80
					}
					var got []byte
					var err error
					p, _, _ := mon.Guard(func() { got, err = e.parse(b, i%2 == 1) })
					switch {
					case p || err != nil:
						refused.Add(1)
					case !bytes.Equal(got, b):
						wrong.Add(1)
						gotCopy, want := append([]byte{}, got...), append([]byte{}, b...)
						once.Do(func() {
							r.Violation(e.name+":concurrent-callers", fmt.Sprintf("%d goroutines parsing their own values into their own objects: %s came back as %s", G, canonUUID(want), canonUUID(gotCopy)),
								map[string]any{"entry": e.name, "goroutines": G, "sent": canonUUID(want), "got": canonUUID(gotCopy)})
						})
					}
				}
			}(g)
		}
		wg.Wait()
		ev(G * per)
		r.Count("contention_calls", G*per)
		if n := refused.Load(); n > 0 {
			// acceptance is judged value by value in the main workload; here it is only counted
			r.Count("contention_calls_refused_"+e.name, int(n))
		}
		if n := wrong.Load(); n > 0 {
			r.Count("contention_wrong_values_"+e.name, int(n))
		}
		r.Nontrivial("contention|" + e.name)
	}
}
