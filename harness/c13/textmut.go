package main

import (
	"fmt"
	"math/rand/v2"
	"strings"

	"github.com/TheManticoreProject/Manticore/crypto/uuid"
	"github.com/TheManticoreProject/Manticore/windows/guid"

	"verif/mon"
)

// textMutations: near-valid GUID texts. Whatever guid.FromString accepts must be a text of one
// of the five formats, i.e. the accepted value must format back (in some format) to the text
// that was given, case-insensitively and modulo surrounding white space. A mutated text that is
// refused is fine; one that is accepted and formats back differently means the parser read
// something that is not in any supported format.
func textMutations() {
	rng := r.Rand("textmut")
	allFormats := func(g *guid.GUID) []string {
		return []string{g.ToFormatN(), g.ToFormatD(), g.ToFormatB(), g.ToFormatP(), g.ToFormatX()}
	}
	judge := func(s, how string) {
		cs := map[string]any{"text": s, "mutation": how}
		var g *guid.GUID
		var err error
		p, _, _ := mon.Guard(func() { g, err = guid.FromString(s) })
		ev(1)
		if p {
			r.Count("malformed_text_panics(not judged)", 1)
			return
		}
		if err != nil || g == nil {
			r.Count("mutated_texts_refused", 1)
			return
		}
		r.Count("mutated_texts_accepted", 1)
		want := strings.ToLower(strings.TrimSpace(s))
		for _, f := range allFormats(g) {
			if strings.ToLower(f) == want {
				return
			}
		}
		r.Violation("guid.FromString:accepts-malformed:"+how, fmt.Sprintf("FromString(%q) accepted a text that is in none of the five formats: the value formats back as %q", s, g.ToFormatD()), cs)
	}
	n := r.Pick(1500, 40000)
	for k := 0; k < n; k++ {
		// values with leading zeros in their groups, so that a shifted separator still leaves
		// every group inside its field width
		b := randValue(rng)
		if k%2 == 0 {
			for _, i := range []int{0, 4, 6, 8, 10} {
				if rng.IntN(2) == 0 {
					b[i] &= 0x0F
				}
				if rng.IntN(4) == 0 {
					b[i] = 0
				}
			}
		}
		rg := refGUIDFromRaw(b)
		for _, f := range guidFormats {
			base := recase(rg.format(f), rng.IntN(4))
			judge(base, "none")
			for _, m := range mutateText(base, rng) {
				judge(m.s, m.how)
			}
		}
		r.Nontrivial(fmt.Sprintf("textmut|%d", k))
	}
}

// uuidTextMutations: the same for the UUID text parsers (generic and versioned). A text they accept
// is, apart from letter case and hyphens, the text the value formats to.
func uuidTextMutations() {
	rng := r.Rand("uuid-textmut")
	norm := func(s string) string { return strings.ReplaceAll(strings.ToLower(s), "-", "") }
	for k := 0; k < r.Pick(1500, 30000); k++ {
		b := randValue(rng)
		for _, ver := range []byte{0, 1, 2, 8} {
			bv := b
			name := "uuid.UUID"
			if ver != 0 {
				bv = withVersion(b, ver)
				name = verName(ver)
			}
			base := recase(canonUUID(bv), rng.IntN(3))
			for _, m := range mutateText(base, rng) {
				if m.how != "high-bit-set" && m.how != "char-replaced" && m.how != "char-doubled" && m.how != "char-deleted" {
					continue
				}
				var out string
				var err error
				p, _, _ := mon.Guard(func() {
					if ver == 0 {
						var u uuid.UUID
						if err = u.FromString(m.s); err == nil {
							out = u.String()
						}
					} else {
						u := newVer(ver)
						if err = u.FromString(m.s); err == nil {
							out = u.String()
						}
					}
				})
				ev(1)
				if p || err != nil {
					r.Count("mutated_uuid_texts_refused", 1)
					continue
				}
				r.Count("mutated_uuid_texts_accepted", 1)
				if norm(out) != norm(m.s) {
					r.Violation(name+".FromString:accepts-malformed:"+m.how, fmt.Sprintf("FromString(%q) accepted the text; the value formats back as %q", m.s, out), map[string]any{"text": m.s, "mutation": m.how})
				}
			}
		}
	}
}

type mutated struct{ s, how string }

func mutateText(s string, rng *rand.Rand) []mutated {
	var out []mutated
	add := func(t, how string) {
		if t != s {
			out = append(out, mutated{t, how})
		}
	}
	b := []byte(s)
	// separators (hyphen, comma) moved by one or two places, total length unchanged
	var seps []int
	for i, c := range b {
		if c == '-' || c == ',' {
			seps = append(seps, i)
		}
	}
	for _, i := range seps {
		for _, d := range []int{-2, -1, 1, 2} {
			j := i + d
			if j <= 0 || j >= len(b)-1 {
				continue
			}
			t := append([]byte{}, b...)
			c := t[i]
			if d > 0 {
				copy(t[i:], t[i+1:j+1])
			} else {
				copy(t[j+1:i+1], t[j:i])
			}
			t[j] = c
			add(string(t), "separator-moved")
		}
	}
	if len(seps) >= 2 {
		// two separators moved in opposite directions
		t := append([]byte{}, b...)
		i, j := seps[0], seps[1]
		t[i], t[i-1] = t[i-1], t[i]
		t[j], t[j+1] = t[j+1], t[j]
		add(string(t), "separators-moved")
	}
	pos := rng.IntN(len(b))
	// one character replaced
	for _, c := range []byte{'g', 'G', ' ', '-', '0', 'x', '{', '(', ',', '+', '_', 0, 0xC3} {
		t := append([]byte{}, b...)
		t[pos] = c
		add(string(t), "char-replaced")
	}
	// one character with its high bit set (an octet beyond ASCII that is a digit or separator
	// once that bit is dropped), at the chosen place, in the first and in the last character
	for _, q := range []int{pos, 0, len(b) - 1, len(b) / 2} {
		t := append([]byte{}, b...)
		t[q] |= 0x80
		add(string(t), "high-bit-set")
	}
	// one character deleted / inserted / doubled
	add(string(append(append([]byte{}, b[:pos]...), b[pos+1:]...)), "char-deleted")
	add(string(append(append(append([]byte{}, b[:pos]...), '0'), b[pos:]...)), "char-inserted")
	add(string(append(append(append([]byte{}, b[:pos]...), b[pos]), b[pos:]...)), "char-doubled")
	// brackets
	if b[0] == '{' || b[0] == '(' {
		add("{"+s[1:len(s)-1]+")", "bracket-mismatch")
		add("("+s[1:len(s)-1]+"}", "bracket-mismatch")
		add(s[:len(s)-1], "bracket-missing")
		add(s[1:], "bracket-missing")
		add("{"+s+"}", "bracket-doubled")
		add("["+s[1:len(s)-1]+"]", "bracket-other")
	} else {
		add("["+s+"]", "bracket-other")
		add("<"+s+">", "bracket-other")
	}
	// white space inside, prefixes and suffixes
	add(s[:pos]+" "+s[pos:], "inner-space")
	add(s[:pos]+"\n"+s[pos:], "inner-space")
	add("urn:uuid:"+s, "prefix")
	add("0x"+s, "prefix")
	add(s+"\x00", "suffix")
	add(s+"0", "suffix")
	add(s+s, "doubled")
	add(s+"\n"+s, "doubled")
	add(strings.Replace(s, "0x", "0X0", 1), "hex-prefix")
	add(strings.Replace(s, "0x", "", 1), "hex-prefix")
	add(strings.Replace(s, "0x", "00", 1), "hex-prefix")
	add(strings.ReplaceAll(s, "-", ""), "separators-removed")
	add(strings.ReplaceAll(s, "-", ":"), "separators-other")
	add(strings.ReplaceAll(s, "-", "--"), "separators-doubled")
	return out
}
