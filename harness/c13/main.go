// C13: UUID/GUID text and binary forms are mutually inverse and standards-conformant.
package main

import (
	"bytes"
	"fmt"
	"math/big"
	"math/rand/v2"
	"strings"
	"sync"
	"sync/atomic"
	"time"

	"github.com/TheManticoreProject/Manticore/crypto/uuid"
	"github.com/TheManticoreProject/Manticore/crypto/uuid/uuid_v1"
	"github.com/TheManticoreProject/Manticore/crypto/uuid/uuid_v2"
	"github.com/TheManticoreProject/Manticore/crypto/uuid/uuid_v8"
	"github.com/TheManticoreProject/Manticore/windows/guid"
	ds "github.com/TheManticoreProject/Manticore/windows/ms_dtyp/common/data_structures"

	"verif/mon"
)

var r *mon.Run

// evaluations are counted with an atomic and handed to the monitor once, so that a dozen
// workers do not serialise on the monitor's mutex.
var evals atomic.Int64

func ev(n int) { evals.Add(int64(n)) }

func guard(entry string, cs any, f func()) {
	p, v, st := mon.Guard(f)
	if p {
		r.Violation(entry+":panic:"+mon.PanicClass(v), fmt.Sprintf("panic %v at %s", v, mon.TopLibFrame(st)), cs)
	}
}

// ---------------------------------------------------------------------------------
// 128-bit value set

func boundaryValues() [][]byte {
	var out [][]byte
	zero := make([]byte, 16)
	ones := bytes.Repeat([]byte{0xFF}, 16)
	out = append(out, zero, ones)
	for bit := 0; bit < 128; bit++ {
		b := make([]byte, 16)
		b[bit/8] = 0x80 >> (bit % 8)
		c := make([]byte, 16)
		for i := range c {
			c[i] = ^b[i]
		}
		out = append(out, b, c)
	}
	for pos := 0; pos < 16; pos++ {
		b := make([]byte, 16)
		b[pos] = 0xFF
		out = append(out, b)
	}
	seq := make([]byte, 16)
	rev := make([]byte, 16)
	for i := range seq {
		seq[i] = byte(i*0x11 + 0x01)
		rev[i] = byte(0xFE - i*0x11)
	}
	out = append(out, seq, rev,
		[]byte{0x19, 0xc5, 0x5c, 0x02, 0x34, 0x06, 0x11, 0xf0, 0x9c, 0xd2, 0x02, 0x42, 0xac, 0x12, 0x00, 0x02},
		[]byte{0x6b, 0xa7, 0xb8, 0x10, 0x9d, 0xad, 0x11, 0xd1, 0x80, 0xb4, 0x00, 0xc0, 0x4f, 0xd4, 0x30, 0xc8},
		[]byte{0x01, 0x23, 0x45, 0x67, 0x89, 0xab, 0xcd, 0xef, 0xfe, 0xdc, 0xba, 0x98, 0x76, 0x54, 0x32, 0x10})
	return out
}

func randValue(rng *rand.Rand) []byte {
	b := make([]byte, 16)
	for i := 0; i < 16; i += 8 {
		x := rng.Uint64()
		for j := 0; j < 8; j++ {
			b[i+j] = byte(x >> (8 * j))
		}
	}
	// a quarter of the values get sparse or dense bit patterns
	switch rng.IntN(8) {
	case 0:
		for i := range b {
			b[i] &= byte(rng.UintN(256))
		}
	case 1:
		for i := range b {
			b[i] |= byte(rng.UintN(256))
		}
	}
	return b
}

func withVersion(b []byte, ver byte) []byte {
	c := append([]byte{}, b...)
	c[6] = ver<<4 | c[6]&0x0F
	return c
}

// ---------------------------------------------------------------------------------
// generic uuid.UUID

func checkGenericUUID(b []byte, tag string) {
	cs := map[string]any{"bytes": mon.FullHex(b)}
	wv, wvar, wdata := refSplit(b)
	canon := canonUUID(b)
	guard("uuid.UUID", cs, func() {
		var u uuid.UUID
		n, err := u.Unmarshal(b)
		ev(1)
		if err != nil || n != 16 {
			r.Violation("uuid.UUID.Unmarshal:accept", fmt.Sprintf("Unmarshal(%x) = %d,%v", b, n, err), cs)
			return
		}
		// the same 16 bytes at the head of a longer buffer (a second UUID follows): 16 bytes are
		// taken, the value is the same
		{
			var u2 uuid.UUID
			n2, err2 := u2.Unmarshal(append(append([]byte{}, b...), b[3], 0xEE, b[0]))
			ev(1)
			if err2 != nil || n2 != 16 || !mon.ExportedEqual(u2, u) {
				r.Violation("uuid.UUID.Unmarshal:followed-by-more", fmt.Sprintf("Unmarshal(%x followed by 3 more bytes) = %d,%v, value %+v; alone it gives 16 and %+v", b, n2, err2, u2, u), cs)
			}
		}
		if u.Version != wv {
			r.Violation("uuid.UUID.Unmarshal:field:version", fmt.Sprintf("%s: Version=%d want %d", canon, u.Version, wv), cs)
		}
		if u.Variant != wvar {
			r.Violation("uuid.UUID.Unmarshal:field:variant", fmt.Sprintf("%s: Variant=%#x want %#x", canon, u.Variant, wvar), cs)
		}
		if u.Data != wdata {
			r.Violation("uuid.UUID.Unmarshal:field:data", fmt.Sprintf("%s: Data=%x want %x", canon, u.Data, wdata), cs)
		}
		m, err := u.Marshal()
		ev(1)
		if err != nil || !bytes.Equal(m, b) {
			r.Violation("uuid.UUID.Marshal:roundtrip", fmt.Sprintf("Marshal(Unmarshal(%x)) = %x,%v", b, m, err), cs)
		}
		if s := u.String(); s != canon {
			r.Violation("uuid.UUID.String:value", fmt.Sprintf("String()=%q want %q", s, canon), cs)
		}
		ev(1)
		for mode := 0; mode < 3; mode++ {
			var p uuid.UUID
			txt := recase(canon, mode)
			err := p.FromString(txt)
			ev(1)
			if err != nil {
				r.Violation("uuid.UUID.FromString:accept", fmt.Sprintf("FromString(%q): %v", txt, err), cs)
				continue
			}
			if p.Version != wv || p.Variant != wvar || p.Data != wdata {
				r.Violation("uuid.UUID.FromString:fields", fmt.Sprintf("FromString(%q) = {%d %#x %x}", txt, p.Version, p.Variant, p.Data), cs)
			}
			if s := p.String(); s != canon {
				r.Violation("uuid.UUID.FromString:roundtrip", fmt.Sprintf("FromString(%q).String() = %q", txt, s), cs)
			}
		}
		// field assignment -> format -> parse (independent packer)
		q := uuid.UUID{Version: wv, Variant: wvar, Data: wdata}
		m2, _ := q.Marshal()
		ev(1)
		if want := refJoin(wv, wvar, wdata); !bytes.Equal(m2, want) {
			r.Violation("uuid.UUID.Marshal:value", fmt.Sprintf("Marshal({%d %#x %x}) = %x want %x", wv, wvar, wdata, m2, want), cs)
		}
	})
	r.Nontrivial("uuid|" + tag + "|" + canon)
}

// ---------------------------------------------------------------------------------
// version-specific parsers

type verIface interface {
	Marshal() ([]byte, error)
	Unmarshal([]byte) (int, error)
	FromString(string) error
	FromBytes([]byte) error
	String() string
}

func newVer(ver byte) verIface {
	switch ver {
	case 1:
		return &uuid_v1.UUIDv1{}
	case 2:
		return &uuid_v2.UUIDv2{}
	default:
		return &uuid_v8.UUIDv8{}
	}
}

func verName(ver byte) string { return fmt.Sprintf("uuid_v%d", ver) }

func checkVersioned(b []byte, tag string) {
	orig := b[6] >> 4
	for _, ver := range []byte{1, 2, 8} {
		name := verName(ver)
		// 1. acceptance: exactly the matching version nibble
		cs0 := map[string]any{"bytes": mon.FullHex(b), "parser": name}
		guard(name+".Unmarshal", cs0, func() {
			u := newVer(ver)
			_, err := u.Unmarshal(b)
			err2 := newVer(ver).FromString(canonUUID(b))
			err3 := newVer(ver).FromBytes(b)
			ev(3)
			for i, e := range []error{err, err2, err3} {
				entry := []string{"Unmarshal", "FromString", "FromBytes"}[i]
				if (e == nil) != (orig == ver) {
					r.Violation(name+"."+entry+":accept", fmt.Sprintf("%s(%s): version nibble %d, err=%v", entry, canonUUID(b), orig, e), cs0)
				}
			}
		})
		// 2. round trip with the version nibble forced
		bv := withVersion(b, ver)
		canon := canonUUID(bv)
		cs := map[string]any{"bytes": mon.FullHex(bv), "parser": name}
		guard(name, cs, func() {
			u := newVer(ver)
			n, err := u.Unmarshal(bv)
			ev(1)
			if err != nil || n != 16 {
				r.Violation(name+".Unmarshal:accept", fmt.Sprintf("Unmarshal(%s) = %d,%v", canon, n, err), cs)
				return
			}
			{
				u2 := newVer(ver)
				n2, err2 := u2.Unmarshal(append(append([]byte{}, bv...), bv[5], 0xEE))
				ev(1)
				if m2, _ := u2.Marshal(); err2 != nil || n2 != 16 || !bytes.Equal(m2, bv) {
					r.Violation(name+".Unmarshal:followed-by-more", fmt.Sprintf("Unmarshal(%s followed by 2 more bytes) = %d,%v and re-encodes as %x", canon, n2, err2, m2), cs)
				}
			}
			checkFields(ver, u, bv, cs)
			m, err := u.Marshal()
			ev(1)
			if err != nil || !bytes.Equal(m, bv) {
				r.Violation(name+".Marshal:roundtrip", fmt.Sprintf("Marshal(Unmarshal(%s)) = %x,%v", canon, m, err), cs)
			}
			if s := u.String(); s != canon {
				r.Violation(name+".String:value", fmt.Sprintf("String()=%q want %q", s, canon), cs)
			}
			ev(1)
			for mode := 0; mode < 3; mode++ {
				p := newVer(ver)
				txt := recase(canon, mode)
				err := p.FromString(txt)
				ev(1)
				if err != nil {
					r.Violation(name+".FromString:accept", fmt.Sprintf("FromString(%q): %v", txt, err), cs)
					continue
				}
				if s := p.String(); s != canon {
					r.Violation(name+".FromString:roundtrip", fmt.Sprintf("FromString(%q).String() = %q", txt, s), cs)
				}
				pm, _ := p.Marshal()
				if !bytes.Equal(pm, bv) {
					r.Violation(name+".FromString:bytes", fmt.Sprintf("FromString(%q).Marshal() = %x", txt, pm), cs)
				}
			}
			p := newVer(ver)
			if err := p.FromBytes(bv); err != nil {
				r.Violation(name+".FromBytes:accept", fmt.Sprintf("FromBytes(%s): %v", canon, err), cs)
			} else if pm, _ := p.Marshal(); !bytes.Equal(pm, bv) {
				r.Violation(name+".FromBytes:roundtrip", fmt.Sprintf("FromBytes(%s).Marshal() = %x", canon, pm), cs)
			}
			ev(1)
		})
		if tag != "r" {
			r.Nontrivial(name + "|" + tag + "|" + canon)
		}
	}
}

// checkFields compares the parsed fields with the independent extraction.
func checkFields(ver byte, u verIface, b []byte, cs map[string]any) {
	f := refRFC(b)
	canon := canonUUID(b)
	switch x := u.(type) {
	case *uuid_v1.UUIDv1:
		ev(1)
		if x.Time != f.Time {
			r.Violation("uuid_v1.Unmarshal:field:time", fmt.Sprintf("%s: Time=%#x want %#x", canon, x.Time, f.Time), cs)
		}
		if !bytes.Equal(x.GetNodeID(), f.Node[:]) || x.NodeID != f.Node {
			r.Violation("uuid_v1.Unmarshal:field:node", fmt.Sprintf("%s: NodeID=%x want %x", canon, x.NodeID, f.Node), cs)
		}
		if x.UUID.Version != 1 {
			r.Violation("uuid_v1.Unmarshal:field:version", fmt.Sprintf("%s: Version=%d", canon, x.UUID.Version), cs)
		}
		if f.RFCVar {
			got := x.GetClockSequence()
			if got != x.ClockSeq {
				r.Violation("uuid_v1.GetClockSequence:value", fmt.Sprintf("%s: GetClockSequence()=%#x field=%#x", canon, got, x.ClockSeq), cs)
			}
			if got != f.ClockSeq {
				if f.ClockSeq >= 0x1000 && got == f.ClockSeq&0x0FFF {
					r.Violation("uuid_v1.Unmarshal:field:clock_seq:bits12-13", fmt.Sprintf("%s: ClockSeq=%#x want %#x (RFC 4122 14-bit clock sequence, bits 12-13 dropped)", canon, got, f.ClockSeq), cs)
				} else {
					r.Violation("uuid_v1.Unmarshal:field:clock_seq", fmt.Sprintf("%s: ClockSeq=%#x want %#x", canon, got, f.ClockSeq), cs)
				}
			}
		} else if x.ClockSeq != (uint16(b[8]&0x0F)<<8|uint16(b[9])) && x.ClockSeq != f.ClockSeq {
			// non-RFC variants: the clock sequence width is not defined by RFC 4122; either reading is accepted
			r.Violation("uuid_v1.Unmarshal:field:clock_seq:other-variant", fmt.Sprintf("%s: ClockSeq=%#x", canon, x.ClockSeq), cs)
		}
		// timestamp -> time
		wsec, wnsec := refInstant(f.Time)
		gt := x.GetTime()
		ev(1)
		if gt.Unix() != wsec || int64(gt.Nanosecond()) != wnsec {
			r.Violation("uuid_v1.GetTime:value", fmt.Sprintf("%s: timestamp %d: GetTime()=%s want unix %d.%09d", canon, f.Time, gt.UTC().Format(time.RFC3339Nano), wsec, wnsec), cs)
		}
	case *uuid_v2.UUIDv2:
		ev(1)
		// DCE security: time_low carries the local identifier, clock_seq_low the local domain
		wantLDN := uint32(f.Time & 0xFFFFFFFF)
		if x.LocalDomainNumber != wantLDN || x.GetLocalDomainNumber() != wantLDN {
			r.Violation("uuid_v2.Unmarshal:field:local_domain_number", fmt.Sprintf("%s: LocalDomainNumber=%#x want %#x", canon, x.LocalDomainNumber, wantLDN), cs)
		}
		if want := f.Time &^ 0xFFFFFFFF; x.Time != want { // only the upper 28 bits are carried
			r.Violation("uuid_v2.Unmarshal:field:time", fmt.Sprintf("%s: Time=%#x want %#x", canon, x.Time, want), cs)
		}
		if x.LocalDomain != b[9] || x.GetLocalDomain() != b[9] {
			r.Violation("uuid_v2.Unmarshal:field:local_domain", fmt.Sprintf("%s: LocalDomain=%#x want %#x", canon, x.LocalDomain, b[9]), cs)
		}
		if x.NodeID != f.Node || !bytes.Equal(x.GetNodeID(), f.Node[:]) {
			r.Violation("uuid_v2.Unmarshal:field:node", fmt.Sprintf("%s: NodeID=%x want %x", canon, x.NodeID, f.Node), cs)
		}
		// Clock: the library carries 4 bits (low nibble of octet 8); judged on those bits only (see assumptions)
		if x.Clock != b[8]&0x0F || x.GetClock() != x.Clock {
			r.Violation("uuid_v2.Unmarshal:field:clock", fmt.Sprintf("%s: Clock=%#x want %#x", canon, x.Clock, b[8]&0x0F), cs)
		}
		if f.RFCVar && b[8]&0x30 != 0 {
			r.Count("v2_clock_bits4_5_not_carried(observation)", 1)
		}
		wsec, wnsec := refInstant(f.Time &^ 0xFFFFFFFF)
		gt := x.GetTime()
		ev(1)
		if gt.Unix() != wsec || int64(gt.Nanosecond()) != wnsec {
			r.Violation("uuid_v2.GetTime:value", fmt.Sprintf("%s: GetTime()=%s want unix %d.%09d", canon, gt.UTC().Format(time.RFC3339Nano), wsec, wnsec), cs)
		}
	case *uuid_v8.UUIDv8:
		ev(1)
		_, wvar, wdata := refSplit(b)
		if x.Data != wdata || !bytes.Equal(x.GetData(), wdata[:]) {
			r.Violation("uuid_v8.Unmarshal:field:data", fmt.Sprintf("%s: Data=%x want %x", canon, x.Data, wdata), cs)
		}
		if x.UUID.Variant != wvar {
			r.Violation("uuid_v8.Unmarshal:field:variant", fmt.Sprintf("%s: Variant=%#x want %#x", canon, x.UUID.Variant, wvar), cs)
		}
	}
}

var d1582 = big.NewInt(122192928000000000)
var bigE7 = big.NewInt(10000000)

func refInstant(ts uint64) (sec, nsec int64) {
	d := new(big.Int).Sub(new(big.Int).SetUint64(ts), d1582)
	q, m := new(big.Int).DivMod(d, bigE7, new(big.Int))
	return q.Int64(), m.Int64() * 100
}

// ---------------------------------------------------------------------------------
// field assignment -> Marshal -> Unmarshal

var timeBoundaries = func() []uint64 {
	out := []uint64{0, 1, 1<<60 - 1, 1<<60 - 2, 1<<32 - 1, 1 << 32, 1<<48 - 1, 1 << 48, 0x0122334455667788, 133920597255298050,
		122192928000000000, 122192928000000000 - 1, 122192928000000000 + 1,
		122192928000000000 - 92233720368547758, 122192928000000000 - 92233720368547759, // 1677-09-21 int64-ns limit
		122192928000000000 + 92233720368547758, 122192928000000000 + 92233720368547759, // 2262-04-11
		5748192000000000, // 1601-01-01
		122192928000000000 - 92233720368547758 + 10000, // 1677
		122192928000000000 + 92233720368547758 + 3e14,  // 2263
	}
	for k := 0; k < 60; k++ {
		out = append(out, 1<<uint(k))
	}
	return out
}()

func checkV1Fields(ts uint64, cseq uint16, node [6]byte, viaSetters bool, tag string) {
	cs := map[string]any{"time": ts, "clock_seq": cseq, "node": mon.FullHex(node[:]), "via_setters": viaSetters}
	want := refRFCPack(1, ts, cseq, node)
	guard("uuid_v1.fields", cs, func() {
		var u uuid_v1.UUIDv1
		u.UUID.Variant = 0x8
		if viaSetters {
			wsec, wnsec := refInstant(ts)
			u.SetTime(time.Unix(wsec, wnsec))
			u.SetClockSequence(cseq)
			if err := u.SetNodeID(node[:]); err != nil {
				r.Violation("uuid_v1.SetNodeID:accept", fmt.Sprintf("SetNodeID(%x): %v", node, err), cs)
			}
			ev(1)
			if u.Time != ts {
				r.Violation("uuid_v1.SetTime:value", fmt.Sprintf("SetTime(unix %d.%09d): Time=%d want %d", wsec, wnsec, u.Time, ts), cs)
				u.Time = ts
			}
		} else {
			u.Time, u.ClockSeq, u.NodeID = ts, cseq, node
		}
		m, err := u.Marshal()
		ev(1)
		if err != nil {
			r.Violation("uuid_v1.Marshal:error", fmt.Sprintf("Marshal: %v", err), cs)
			return
		}
		hi := ""
		if cseq >= 0x1000 {
			hi = ":bits12-13"
		}
		if !bytes.Equal(m, want) {
			cls := "uuid_v1.Marshal:value"
			// which field is wrong
			switch {
			case !bytes.Equal(m[0:8], want[0:8]):
				cls += ":time"
			case !bytes.Equal(m[8:10], want[8:10]):
				cls += ":clock_seq"
				if hi != "" && m[8] == want[8]&^0x30 && m[9] == want[9] {
					cls += hi // exactly the two high clock-sequence bits are missing, nothing else
				}
			default:
				cls += ":node"
			}
			r.Violation(cls, fmt.Sprintf("Marshal(time=%#x clock_seq=%#x node=%x variant=10x) = %s want %s", ts, cseq, node, canonUUID(m), canonUUID(want)), cs)
		}
		var p uuid_v1.UUIDv1
		if _, err := p.Unmarshal(m); err != nil {
			r.Violation("uuid_v1.Unmarshal:accept", fmt.Sprintf("Unmarshal(own Marshal %x): %v", m, err), cs)
			return
		}
		ev(1)
		if p.Time != ts {
			r.Violation("uuid_v1.roundtrip:field:time", fmt.Sprintf("time %#x -> %s -> %#x", ts, canonUUID(m), p.Time), cs)
		}
		if p.ClockSeq != cseq {
			if p.ClockSeq != cseq&0x0FFF {
				hi = ""
			}
			r.Violation("uuid_v1.roundtrip:field:clock_seq"+hi, fmt.Sprintf("clock_seq %#x -> %s -> %#x", cseq, canonUUID(m), p.ClockSeq), cs)
		}
		if p.NodeID != node {
			r.Violation("uuid_v1.roundtrip:field:node", fmt.Sprintf("node %x -> %s -> %x", node, canonUUID(m), p.NodeID), cs)
		}
		if p.UUID.Variant != 0x8 && cseq < 0x1000 {
			r.Violation("uuid_v1.roundtrip:field:variant", fmt.Sprintf("variant 0x8 -> %s -> %#x", canonUUID(m), p.UUID.Variant), cs)
		}
		if viaSetters {
			wsec, wnsec := refInstant(ts)
			gt := p.GetTime()
			if gt.Unix() != wsec || int64(gt.Nanosecond()) != wnsec {
				r.Violation("uuid_v1.GetTime:roundtrip", fmt.Sprintf("SetTime(unix %d.%09d) -> %s -> GetTime()=%s", wsec, wnsec, canonUUID(m), gt.UTC().Format(time.RFC3339Nano)), cs)
			}
			ev(1)
		}
	})
	r.Nontrivial(fmt.Sprintf("v1f|%s|%x|%x|%x|%v", tag, ts, cseq, node, viaSetters))
}

func checkV2Fields(ldn uint32, ts uint64, clock, ld uint8, node [6]byte, viaSetters bool, tag string) {
	ts28 := ts &^ 0xFFFFFFFF
	cs := map[string]any{"local_domain_number": ldn, "time": ts, "time_emitted": ts28, "clock": clock, "local_domain": ld, "node": mon.FullHex(node[:]), "via_setters": viaSetters}
	guard("uuid_v2.fields", cs, func() {
		var u uuid_v2.UUIDv2
		u.UUID.Variant = 0x8
		if viaSetters {
			u.SetLocalDomainNumber(ldn)
			u.SetClock(clock)
			u.SetLocalDomain(ld)
			if err := u.SetNodeID(node[:]); err != nil {
				r.Violation("uuid_v2.SetNodeID:accept", fmt.Sprintf("SetNodeID(%x): %v", node, err), cs)
			}
			// the whole 60-bit reading of the clock is set; the low 32 bits have no place in a
			// version-2 UUID (the local domain number takes it) and must simply not be emitted
			wsec, wnsec := refInstant(ts)
			u.SetTime(time.Unix(wsec, wnsec))
			ev(1)
			if u.Time != ts && u.Time != ts28 { // keeping the whole reading or only the bits a v2 UUID carries
				r.Violation("uuid_v2.SetTime:value", fmt.Sprintf("SetTime(unix %d.%09d): Time=%d want %d (or its upper 28 bits %d)", wsec, wnsec, u.Time, ts, ts28), cs)
				u.Time = ts
			}
		} else {
			u.LocalDomainNumber, u.Time, u.Clock, u.LocalDomain, u.NodeID = ldn, ts, clock, ld, node
		}
		m, err := u.Marshal()
		ev(1)
		if err != nil {
			r.Violation("uuid_v2.Marshal:error", fmt.Sprintf("Marshal: %v", err), cs)
			return
		}
		// independent packer: RFC layout with time_low := local id, clock_seq_low := local domain, 4-bit clock in octet 8
		want := refRFCPack(2, ts28|uint64(ldn), uint16(clock&0x0F)<<8|uint16(ld), node)
		if !bytes.Equal(m, want) {
			r.Violation("uuid_v2.Marshal:value", fmt.Sprintf("Marshal(ldn=%#x time=%#x clock=%#x ld=%#x node=%x) = %s want %s", ldn, ts28, clock, ld, node, canonUUID(m), canonUUID(want)), cs)
		}
		var p uuid_v2.UUIDv2
		if _, err := p.Unmarshal(m); err != nil {
			r.Violation("uuid_v2.Unmarshal:accept", fmt.Sprintf("Unmarshal(own Marshal %x): %v", m, err), cs)
			return
		}
		ev(1)
		if p.LocalDomainNumber != ldn || p.Time != ts28 || p.Clock != clock || p.LocalDomain != ld || p.NodeID != node {
			r.Violation("uuid_v2.roundtrip:fields", fmt.Sprintf("{%#x %#x %#x %#x %x} -> %s -> {%#x %#x %#x %#x %x}", ldn, ts28, clock, ld, node, canonUUID(m), p.LocalDomainNumber, p.Time, p.Clock, p.LocalDomain, p.NodeID), cs)
		}
	})
	if tag != "r" {
		r.Nontrivial(fmt.Sprintf("v2f|%s|%x|%x|%x|%x|%x", tag, ldn, ts28, clock, ld, node))
	}
}

func checkV8Fields(data [15]byte, variant byte, tag string) {
	cs := map[string]any{"data": mon.FullHex(data[:]), "variant": variant}
	guard("uuid_v8.fields", cs, func() {
		var u uuid_v8.UUIDv8
		u.UUID.Variant = variant
		u.SetData(data[:])
		m, err := u.Marshal()
		ev(1)
		want := refJoin(8, variant, data)
		if err != nil || !bytes.Equal(m, want) {
			r.Violation("uuid_v8.Marshal:value", fmt.Sprintf("Marshal(data=%x variant=%#x) = %x,%v want %x", data, variant, m, err, want), cs)
			return
		}
		var p uuid_v8.UUIDv8
		if _, err := p.Unmarshal(m); err != nil {
			r.Violation("uuid_v8.Unmarshal:accept", fmt.Sprintf("Unmarshal(own Marshal %x): %v", m, err), cs)
			return
		}
		ev(1)
		if p.Data != data || !bytes.Equal(p.GetData(), data[:]) || p.UUID.Variant != variant {
			r.Violation("uuid_v8.roundtrip:fields", fmt.Sprintf("data %x variant %#x -> %x -> data %x variant %#x", data, variant, m, p.Data, p.UUID.Variant), cs)
		}
	})
	if tag != "r" {
		r.Nontrivial(fmt.Sprintf("v8f|%s|%x|%x", tag, data, variant))
	}
}

// ---------------------------------------------------------------------------------
// GUID

func guidFields(g *guid.GUID) string {
	return fmt.Sprintf("{A:%08x B:%04x C:%04x D:%04x E:%012x}", g.A, g.B, g.C, g.D, g.E)
}

func firstDiff(got, want *guid.GUID) string {
	switch {
	case got.A != want.A:
		return "A"
	case got.B != want.B:
		return "B"
	case got.C != want.C:
		return "C"
	case got.D != want.D:
		return "D"
	case got.E != want.E:
		return "E"
	}
	return "none"
}

var guidFormats = []byte{'N', 'D', 'B', 'P', 'X'}

// checkGUID: full = every (format, letter case, entry point) combination; otherwise every
// format through its direct parser in one seeded letter case plus one seeded format through
// FromString (FromString compiles up to five regular expressions per call).
func checkGUID(b []byte, tag string, useAlias bool, full bool, pick uint32) {
	cs := map[string]any{"raw": mon.FullHex(b)}
	rg := refGUIDFromRaw(b)
	wantG := &guid.GUID{A: rg.Data1, B: rg.Data2, C: rg.Data3,
		D: uint16(rg.Data4[0])*256 + uint16(rg.Data4[1]),
		E: new(big.Int).SetBytes(rg.Data4[2:8]).Uint64()}
	guard("guid", cs, func() {
		var g *guid.GUID
		if useAlias {
			var a ds.GUID
			a.FromRawBytes(b)
			g = &a
		} else {
			g = &guid.GUID{}
			g.FromRawBytes(b)
		}
		ev(1)
		if !g.Equal(wantG) || !mon.ExportedEqual(*g, *wantG) {
			r.Violation("guid.FromRawBytes:field:"+firstDiff(g, wantG), fmt.Sprintf("FromRawBytes(%x) = %s want %s", b, guidFields(g), guidFields(wantG)), cs)
			return
		}
		if out := g.ToBytes(); !bytes.Equal(out, b) {
			r.Violation("guid.ToBytes:roundtrip", fmt.Sprintf("ToBytes(FromRawBytes(%x)) = %x", b, out), cs)
		}
		// the GUID as the leading 16 bytes of a longer buffer (an entry of a larger structure): the
		// value read is that of the first 16 bytes
		for _, extra := range [][]byte{{0xEE}, {1, 2, 3, 4, 5, 6, 7, 8}, bytes.Repeat([]byte{0xFF}, 16)} {
			var g2 guid.GUID
			long := append(append([]byte{}, b...), extra...)
			p2, _, _ := mon.Guard(func() { g2.FromRawBytes(long) })
			ev(1)
			if !p2 && g2 != *wantG && g2 != (guid.GUID{}) {
				r.Violation("guid.FromRawBytes:longer-buffer:"+firstDiff(&g2, wantG), fmt.Sprintf("FromRawBytes(%x followed by %d more bytes) = %s want %s", b, len(extra), guidFields(&g2), guidFields(wantG)), cs)
			}
		}
		if out := wantG.ToBytes(); !bytes.Equal(out, rg.raw()) {
			r.Violation("guid.ToBytes:value", fmt.Sprintf("ToBytes(%s) = %x want %x", guidFields(wantG), out, rg.raw()), cs)
		}
		ev(2)
		texts := map[byte]string{}
		for _, f := range guidFormats {
			var s string
			switch f {
			case 'N':
				s = g.ToFormatN()
			case 'D':
				s = g.ToFormatD()
			case 'B':
				s = g.ToFormatB()
			case 'P':
				s = g.ToFormatP()
			case 'X':
				s = g.ToFormatX()
			}
			ev(1)
			want := rg.format(f)
			texts[f] = want
			if !strings.EqualFold(s, want) {
				r.Violation("guid.ToFormat"+string(f)+":value", fmt.Sprintf("ToFormat%c(%s) = %q want %q", f, guidFields(g), s, want), cs)
			}
		}
		// every text format, in every letter case, through FromString and the direct parser
		for _, f := range guidFormats {
			for mode := 0; mode < 4; mode++ {
				txt := recase(texts[f], mode)
				for via := 0; via < 2; via++ {
					if !full && (mode != int(pick%4) || (via == 0 && f != guidFormats[int(pick/4)%5])) {
						continue
					}
					var p *guid.GUID
					var err error
					entry := "guid.FromString"
					if via == 1 {
						entry = "guid.FromFormat" + string(f)
						switch f {
						case 'N':
							p, err = guid.FromFormatN(txt)
						case 'D':
							p, err = guid.FromFormatD(txt)
						case 'B':
							p, err = guid.FromFormatB(txt)
						case 'P':
							p, err = guid.FromFormatP(txt)
						case 'X':
							p, err = guid.FromFormatX(txt)
						}
					} else {
						p, err = guid.FromString(txt)
					}
					ev(1)
					if err != nil || p == nil {
						r.Violation(entry+":accept:"+string(f), fmt.Sprintf("%s(%q): %v", entry, txt, err), cs)
						continue
					}
					if !p.Equal(wantG) {
						r.Violation(entry+":field:"+string(f)+":"+firstDiff(p, wantG), fmt.Sprintf("%s(%q) = %s want %s", entry, txt, guidFields(p), guidFields(wantG)), cs)
						continue
					}
					if (mode == 0 && via == 0) || (!full && via == 1) {
						// format∘parse: same format comes back, and the same raw bytes
						var back string
						switch f {
						case 'N':
							back = p.ToFormatN()
						case 'D':
							back = p.ToFormatD()
						case 'B':
							back = p.ToFormatB()
						case 'P':
							back = p.ToFormatP()
						case 'X':
							back = p.ToFormatX()
						}
						if !strings.EqualFold(back, txt) {
							r.Violation("guid.ToFormat"+string(f)+":roundtrip", fmt.Sprintf("parse(%q) formats as %q", txt, back), cs)
						}
						if out := p.ToBytes(); !bytes.Equal(out, b) {
							r.Violation("guid.ToBytes:roundtrip:"+string(f), fmt.Sprintf("parse(%q).ToBytes() = %x want %x", txt, out, b), cs)
						}
						ev(2)
					}
				}
			}
		}
	})
	if full {
		r.Nontrivial("guid|" + tag + "|" + hexOf(b))
	}
}

// ---------------------------------------------------------------------------------
// refusals: text that is not a UUID/GUID must produce an error (a panic is counted, not judged: C07's business)

func refusals() {
	bad := []string{"", "0", "g0000000-0000-0000-0000-000000000000", "00000000-0000-0000-0000-00000000000", "00000000-0000-0000-0000-0000000000000",
		"00000000000000000000000000000000ff", "{00000000-0000-0000-0000-000000000000", "(00000000-0000-0000-0000-000000000000}",
		"{0x00000000,0x0000,0x0000,{0x00,0x00,0x00,0x00,0x00,0x00,0x00}}", "zz"}
	for _, s := range bad {
		cs := map[string]any{"text": s}
		p, _, _ := mon.Guard(func() {
			g, err := guid.FromString(s)
			ev(1)
			if err == nil {
				r.Violation("guid.FromString:refuse", fmt.Sprintf("FromString(%q) accepted as %s", s, guidFields(g)), cs)
			}
		})
		if p {
			r.Count("malformed_text_panics(not judged)", 1)
		}
		for _, ver := range []byte{0, 1, 2, 8} {
			p, _, _ := mon.Guard(func() {
				var err error
				if ver == 0 {
					var u uuid.UUID
					err = u.FromString(s)
				} else {
					err = newVer(ver).FromString(s)
				}
				ev(1)
				if err == nil {
					r.Violation(fmt.Sprintf("uuid_v%d.FromString:refuse", ver), fmt.Sprintf("FromString(%q) accepted", s), cs)
				}
			})
			if p {
				r.Count("malformed_text_panics(not judged)", 1)
			}
		}
		r.Nontrivial("refuse|" + s)
	}
	// short binary input
	for n := 0; n < 16; n++ {
		b := make([]byte, n)
		for _, ver := range []byte{0, 1, 2, 8} {
			p, _, _ := mon.Guard(func() {
				var err error
				if ver == 0 {
					var u uuid.UUID
					_, err = u.Unmarshal(b)
				} else {
					_, err = newVer(ver).Unmarshal(b)
				}
				ev(1)
				if err == nil {
					r.Violation(fmt.Sprintf("uuid_v%d.Unmarshal:refuse-short", ver), fmt.Sprintf("Unmarshal(%d bytes) accepted", n), map[string]any{"len": n})
				}
			})
			if p {
				r.Count("malformed_text_panics(not judged)", 1)
			}
		}
	}
}

// ---------------------------------------------------------------------------------

func randNode(rng *rand.Rand) (n [6]byte) {
	x := rng.Uint64()
	for i := range n {
		n[i] = byte(x >> (8 * i))
	}
	return
}

func fieldAssignments() {
	rng := r.Rand("fields")
	nodes := [][6]byte{{}, {0xFF, 0xFF, 0xFF, 0xFF, 0xFF, 0xFF}, {0x02, 0x42, 0xac, 0x12, 0x00, 0x02}, {0x80, 0, 0, 0, 0, 0x01}}
	cseqs := []uint16{0, 1, 0xFF, 0x100, 0x0AAA, 0x0CD2, 0x0FFF, 0x1000, 0x1CD2, 0x2000, 0x2AAA, 0x3000, 0x3FFF}
	for i, ts := range timeBoundaries {
		for j, c := range cseqs {
			checkV1Fields(ts, c, nodes[(i+j)%len(nodes)], false, "b")
			checkV1Fields(ts, c, nodes[(i+j+1)%len(nodes)], true, "b")
		}
		for _, clk := range []uint8{0, 1, 7, 8, 0xF} {
			for _, ld := range []uint8{0, 1, 2, 0x7F, 0x80, 0xFF} {
				ldn := []uint32{0, 1, 0x7FFFFFFF, 0x80000000, 0xFFFFFFFF, 1000}[(i+int(ld))%6]
				checkV2Fields(ldn, ts, clk, ld, nodes[(i+int(clk))%len(nodes)], (i+int(ld))%2 == 0, "b")
			}
		}
	}
	for _, variant := range []byte{0, 1, 7, 8, 9, 0xA, 0xB, 0xC, 0xE, 0xF} {
		for _, fill := range []byte{0x00, 0xFF, 0x0F, 0xF0, 0xA5} {
			var d [15]byte
			for i := range d {
				d[i] = fill
			}
			checkV8Fields(d, variant, "b")
		}
		for pos := 0; pos < 15; pos++ {
			var d [15]byte
			d[pos] = 0xFF
			checkV8Fields(d, variant, "b")
		}
	}
	n := r.Pick(40000, 400000)
	for k := 0; k < n; k++ {
		ts := rng.Uint64() & (1<<60 - 1)
		if k%4 == 0 {
			ts >>= uint(rng.IntN(60))
		}
		c := uint16(rng.UintN(1 << 14))
		if k%3 == 0 {
			c &= 0x0FFF
		}
		checkV1Fields(ts, c, randNode(rng), k%2 == 0, "r")
		ldn := rng.Uint32()
		switch k % 7 {
		case 0:
			ldn = 0 // uid/gid 0 is a local domain number like any other
		case 1:
			ldn = uint32(rng.UintN(70000))
		}
		checkV2Fields(ldn, ts, uint8(rng.UintN(16)), uint8(rng.UintN(256)), randNode(rng), k%2 == 1, "r")
		var d [15]byte
		for i := range d {
			d[i] = byte(rng.UintN(256))
		}
		checkV8Fields(d, byte(rng.UintN(16)), "r")
		if k%(n/3) == 0 {
			r.Sample(map[string]any{"kind": "v1 field assignment", "time": ts, "clock_seq": c, "text": canonUUID(refRFCPack(1, ts, c, [6]byte{1, 2, 3, 4, 5, 6}))})
		}
	}
}

func values(lo, hi int, worker int) {
	rng := r.Rand(fmt.Sprintf("values-%d", worker))
	for k := lo; k < hi; k++ {
		b := randValue(rng)
		checkGenericUUID(b, "r")
		checkVersioned(b, "r")
		checkGUID(b, "r", k%16 == 0, k%64 == 0, rng.Uint32())
	}
}

func main() {
	r = mon.Start("C13", "exploration")
	// the process's local zone is not UTC (and not a whole number of hours): code that builds or
	// reads an instant through time.Local where UTC is meant shifts every result
	time.Local = time.FixedZone("VERIF-0930", -(9*3600 + 30*60))
	r.Rule("Every 128-bit value of the boundary set (all-zero, all-ones, the 128 single-bit patterns and their complements, each octet 0xFF alone, counting patterns, published UUIDs) and seeded random values, through: generic UUID (binary and text, three letter cases), the v1/v2/v8 parsers (with the value's own version nibble for the accept/refuse decision and with the nibble forced for the round trip), GUID raw bytes and the five text formats N/D/B/P/X in four letter cases via FromString and the direct parser; plus field assignments (v1 time x clock sequence x node incl. via SetTime, v2, v8, GUID) at width boundaries and random. Non-trivial: each distinct boundary (entry family, value) pair, and each distinct random 128-bit value / v1 field tuple counted once (it passes through all families); all values except all-zero have high bits set in some field. State monitors (state.go): one parse target per type reused over a chain of boundary and random values (all-ones before all-zero, each single-bit value after its complement, refused inputs in between) and compared with a fresh target; caller buffers overwritten after parsing; fields assigned directly or through setters and formatted with no call in between; returned slices held in a ring of 64 and compared again later. Each chain element (value, predecessor) counts once.")
	r.Assume(
		"uuid.UUID's Variant is the whole high nibble of octet 8 and Data the remaining 30 nibbles in order (the library's own container; judged for losslessness and against a nibble-level reference)",
		"RFC 4122 field extraction (60-bit timestamp, 14-bit clock sequence, node) is demanded of UUIDv1 for variant-10x values; for other variants the clock sequence width is undefined and either reading is accepted",
		"UUIDv2 is judged on the fields the library carries (32-bit local id, upper 28 timestamp bits, 4-bit clock, 8-bit local domain, node); DCE's 6-bit clock sequence is not covered by the property statement (counted as an observation)",
		"field widths: v1 Time 60 bits, ClockSeq 14 bits; GUID.E 48 bits; values beyond the widths are not generated",
		"text input is the canonical form of each format; near-valid texts (moved separators, replaced/inserted/deleted characters, other brackets, prefixes) are judged for guid.FromString only: what it accepts must format back to the text given, modulo letter case and surrounding white space; the direct FromFormatD/B/P parsers and uuid.FromString place no demand on separator positions (observed, not judged)",
		"malformed text / short binary input must return an error; a panic there is counted but left to C07",
		"math/big and time.Unix of the standard library are correct",
	)
	// race side run (./check builds this monitor with -race): only the workloads in which goroutines
	// use the library at the same time; the detector's reports are filed by Finish
	if mon.SideRace() {
		contention()
		r.Eval(int(evals.Load()))
		r.Finish()
	}
	// boundary set, deterministic
	for i, b := range boundaryValues() {
		checkGenericUUID(b, "b")
		checkVersioned(b, "b")
		checkGUID(b, "b", i%2 == 0, true, 0)
		if i == 0 || i == 1 || i == 9 || i == 200 || i >= 274 {
			rg := refGUIDFromRaw(b)
			r.Sample(map[string]any{"kind": "128-bit value", "bytes": hexOf(b), "uuid_text": canonUUID(b), "guid_D": rg.format('D'), "guid_X": rg.format('X')})
		}
	}
	refusals()
	textMutations()
	uuidTextMutations()
	// NewGUID: library-generated values also round-trip
	for i := 0; i < 1000; i++ {
		g := guid.NewGUID()
		b := g.ToBytes()
		if len(b) == 16 {
			checkGUID(b, "new", false, true, 0)
		} else {
			r.Violation("guid.ToBytes:length", fmt.Sprintf("NewGUID().ToBytes() has %d bytes", len(b)), nil)
		}
	}
	var wg sync.WaitGroup
	wg.Add(1)
	go func() { defer wg.Done(); fieldAssignments() }()
	wg.Add(1)
	go func() { defer wg.Done(); stateMonitors(); setterSequences() }() // state.go: held outputs, input scribble, receiver reuse, stale fields
	n := r.Pick(50000, 1500000)
	workers := 16
	for w := 0; w < workers; w++ {
		wg.Add(1)
		go func() { defer wg.Done(); values(w*n/workers, (w+1)*n/workers, w) }()
	}
	wg.Wait()
	contention()
	r.Eval(int(evals.Load()))
	r.Finish()
}
