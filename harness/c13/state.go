package main

// State-carry-over and aliasing monitors for C13.
//
// The value checks of main.go parse every value into a fresh object and drop every result at
// once. The monitors below keep state between calls:
//
//	held outputs   - the slices returned by Marshal/ToBytes of earlier calls are kept (ring of 64)
//	                 together with a private copy and compared again after later calls and at the end;
//	input scribble - the caller's buffer is overwritten with 0xAA after Unmarshal/FromBytes/FromRawBytes;
//	                 the parsed object must not change;
//	receiver reuse - one parse target per type is used for a whole chain of values (accepted values,
//	                 refused values in between, all-ones before all-zero, ...); after each parse the target
//	                 must equal a fresh object that parsed the same input, field by field, and format alike;
//	stale fields   - fields are assigned (directly or through the setters) and String()/Marshal() is
//	                 called without any intermediate call; the output must show the current fields.
//
// The expected values come from the references of ref.go (refSplit/refJoin/refRFCPack/refGUIDFromRaw),
// never from the library.

import (
	"bytes"
	"fmt"
	"math/big"
	"math/rand/v2"
	"strings"
	"sync"
	"time"

	"github.com/TheManticoreProject/Manticore/crypto/uuid"
	"github.com/TheManticoreProject/Manticore/crypto/uuid/uuid_v1"
	"github.com/TheManticoreProject/Manticore/crypto/uuid/uuid_v2"
	"github.com/TheManticoreProject/Manticore/crypto/uuid/uuid_v8"
	"github.com/TheManticoreProject/Manticore/windows/guid"
	ds "github.com/TheManticoreProject/Manticore/windows/ms_dtyp/common/data_structures"

	"verif/mon"
)

// ---------------------------------------------------------------------------------
// held outputs

type heldOut struct {
	entry string
	out   []byte // the slice the library returned (kept alive)
	want  []byte // private copy taken at once
	input string
}

type heldRing struct {
	mu   sync.Mutex
	ring [64]*heldOut
	n    int
}

func (h *heldRing) verify(e *heldOut, when string) {
	if e == nil {
		return
	}
	ev(1)
	if !bytes.Equal(e.out, e.want) {
		r.Violation(e.entry+":held-output-changed", fmt.Sprintf("the slice returned by %s for %s read %x when it was returned and reads %x %s", e.entry, e.input, e.want, e.out, when),
			map[string]any{"entry": e.entry, "input": e.input, "returned": mon.FullHex(e.want), "now": mon.FullHex(e.out), "when": when})
		e.want = append([]byte{}, e.out...) // report once per entry
	}
}

// hold keeps out, checks the entry it evicts and the one stored just before.
func (h *heldRing) hold(entry string, out []byte, input string) {
	h.mu.Lock()
	defer h.mu.Unlock()
	e := &heldOut{entry: entry, out: out, want: append([]byte{}, out...), input: input}
	slot := h.n % len(h.ring)
	h.verify(h.ring[slot], "64 calls later")
	if h.n > 0 {
		h.verify(h.ring[(h.n-1)%len(h.ring)], "after the next call")
	}
	h.ring[slot] = e
	h.n++
}

func (h *heldRing) final() {
	h.mu.Lock()
	defer h.mu.Unlock()
	for _, e := range h.ring {
		h.verify(e, "at the end of the run")
	}
}

var held heldRing

// ---------------------------------------------------------------------------------
// receiver reuse + input scribble

func scribble(b []byte) {
	for i := range b {
		b[i] = 0xAA
	}
}

func guidWant(b []byte) (refGUID, guid.GUID) {
	rg := refGUIDFromRaw(b)
	return rg, guid.GUID{A: rg.Data1, B: rg.Data2, C: rg.Data3,
		D: uint16(rg.Data4[0])*256 + uint16(rg.Data4[1]),
		E: new(big.Int).SetBytes(rg.Data4[2:8]).Uint64()}
}

func guidFormat(g *guid.GUID, f byte) string {
	switch f {
	case 'N':
		return g.ToFormatN()
	case 'D':
		return g.ToFormatD()
	case 'B':
		return g.ToFormatB()
	case 'P':
		return g.ToFormatP()
	}
	return g.ToFormatX()
}

// reuseGUID parses a chain of raw values into ONE guid.GUID (and one ds.GUID alias).
type guidChain struct {
	g     guid.GUID
	a     ds.GUID
	prev  string
	count int
}

func (c *guidChain) step(b []byte, full bool) {
	c.count++
	for which, target := range []*guid.GUID{&c.g, &c.a} {
		cs := map[string]any{"raw": mon.FullHex(b), "previous_raw_in_same_target": c.prev, "alias": which == 1}
		guard("guid.FromRawBytes", cs, func() {
			buf := append([]byte{}, b...)
			target.FromRawBytes(buf)
			scribble(buf)
			ev(1)
			rg, want := guidWant(b)
			if *target != want || !target.Equal(&want) {
				r.Violation("guid.FromRawBytes:reused-receiver:field:"+firstDiff(target, &want),
					fmt.Sprintf("FromRawBytes(%x) into a GUID that had parsed %s before = %s, a fresh GUID gives %s", b, c.prev, guidFields(target), guidFields(&want)), cs)
			}
			out := target.ToBytes()
			ev(1)
			if !bytes.Equal(out, b) {
				r.Violation("guid.ToBytes:reused-receiver", fmt.Sprintf("ToBytes() after FromRawBytes(%x) into a reused GUID = %x", b, out), cs)
			}
			held.hold("guid.ToBytes", out, hexOf(b))
			fs := guidFormats
			if !full {
				fs = guidFormats[c.count%5 : c.count%5+1]
			}
			for _, f := range fs {
				s := guidFormat(target, f)
				ev(1)
				if w := rg.format(f); !strings.EqualFold(s, w) {
					r.Violation("guid.ToFormat"+string(f)+":reused-receiver", fmt.Sprintf("ToFormat%c after FromRawBytes(%x) into a GUID that had parsed %s before = %q want %q", f, b, c.prev, s, w), cs)
				}
			}
		})
	}
	c.prev = hexOf(b)
}

// uuidChain: one target per parser type.
type uuidChain struct {
	gen  uuid.UUID
	v1   uuid_v1.UUIDv1
	v2   uuid_v2.UUIDv2
	v8   uuid_v8.UUIDv8
	prev map[string]string
	n    int
}

var parseEntries = []string{"Unmarshal", "FromString", "FromBytes"}

func (c *uuidChain) stepGeneric(b []byte) {
	c.n++
	via := c.n % 2
	entry := "uuid.UUID." + []string{"Unmarshal", "FromString"}[via]
	cs := map[string]any{"bytes": mon.FullHex(b), "previous_in_same_target": c.prev["gen"], "entry": entry}
	guard(entry, cs, func() {
		var err error
		buf := append([]byte{}, b...)
		if via == 0 {
			_, err = c.gen.Unmarshal(buf)
		} else {
			err = c.gen.FromString(recase(canonUUID(b), c.n%3))
		}
		scribble(buf)
		ev(1)
		if err != nil {
			r.Violation(entry+":reused-receiver:accept", fmt.Sprintf("%s(%s) into a reused UUID: %v", entry, canonUUID(b), err), cs)
			return
		}
		wv, wvar, wdata := refSplit(b)
		if c.gen.Version != wv || c.gen.Variant != wvar || c.gen.Data != wdata {
			r.Violation(entry+":reused-receiver:fields", fmt.Sprintf("%s(%s) into a UUID that had parsed %s before = {%d %#x %x} want {%d %#x %x}", entry, canonUUID(b), c.prev["gen"], c.gen.Version, c.gen.Variant, c.gen.Data, wv, wvar, wdata), cs)
		}
		if s := c.gen.String(); s != canonUUID(b) {
			r.Violation("uuid.UUID.String:reused-receiver", fmt.Sprintf("String() after %s(%s) into a reused UUID = %q", entry, canonUUID(b), s), cs)
		}
		m, _ := c.gen.Marshal()
		ev(2)
		if !bytes.Equal(m, b) {
			r.Violation("uuid.UUID.Marshal:reused-receiver", fmt.Sprintf("Marshal() after %s(%s) into a reused UUID = %x", entry, canonUUID(b), m), cs)
		}
		held.hold("uuid.UUID.Marshal", m, canonUUID(b))
	})
	c.prev["gen"] = canonUUID(b)
}

// stepVersioned: optionally a refused parse of a value with another version nibble first (what a
// stream decoder meets), then the value with the nibble forced; the reused target must then be
// identical to a fresh target that parsed the same input.
func (c *uuidChain) stepVersioned(b []byte, rng *rand.Rand) {
	for _, ver := range []byte{1, 2, 8} {
		name := verName(ver)
		var target, fresh verIface
		switch ver {
		case 1:
			target, fresh = &c.v1, &uuid_v1.UUIDv1{}
		case 2:
			target, fresh = &c.v2, &uuid_v2.UUIDv2{}
		default:
			target, fresh = &c.v8, &uuid_v8.UUIDv8{}
		}
		if rng.IntN(4) == 0 {
			other := withVersion(b, []byte{4, 1, 2, 8, 0, 15}[rng.IntN(6)])
			if other[6]>>4 != ver {
				mon.Guard(func() { _ = target.FromBytes(other) }) // refused; what it leaves behind must not matter
			}
		}
		bv := withVersion(b, ver)
		canon := canonUUID(bv)
		via := rng.IntN(3)
		entry := name + "." + parseEntries[via]
		cs := map[string]any{"bytes": mon.FullHex(bv), "previous_in_same_target": c.prev[name], "entry": entry}
		guard(entry, cs, func() {
			parse := func(u verIface, buf []byte) error {
				switch via {
				case 0:
					_, err := u.Unmarshal(buf)
					return err
				case 1:
					return u.FromString(recase(canon, c.n%3))
				}
				return u.FromBytes(buf)
			}
			buf := append([]byte{}, bv...)
			err := parse(target, buf)
			scribble(buf)
			errF := parse(fresh, append([]byte{}, bv...))
			ev(2)
			if err != nil || errF != nil {
				if err != nil && errF == nil {
					r.Violation(entry+":reused-receiver:accept", fmt.Sprintf("%s(%s) into a reused target: %v (a fresh target accepts it)", entry, canon, err), cs)
				}
				return
			}
			same := false
			switch ver {
			case 1:
				same = mon.ExportedEqual(c.v1, *fresh.(*uuid_v1.UUIDv1))
			case 2:
				same = mon.ExportedEqual(c.v2, *fresh.(*uuid_v2.UUIDv2))
			default:
				same = mon.ExportedEqual(c.v8, *fresh.(*uuid_v8.UUIDv8))
			}
			if !same {
				r.Violation(entry+":reused-receiver:fields", fmt.Sprintf("%s(%s) into a target that had parsed %s before = %+v, a fresh target gives %+v", entry, canon, c.prev[name], target, fresh), cs)
			}
			if s := target.String(); s != canon {
				r.Violation(name+".String:reused-receiver", fmt.Sprintf("String() after %s(%s) into a reused target = %q", entry, canon, s), cs)
			}
			m, _ := target.Marshal()
			ev(2)
			if !bytes.Equal(m, bv) {
				r.Violation(name+".Marshal:reused-receiver", fmt.Sprintf("Marshal() after %s(%s) into a reused target = %x", entry, canon, m), cs)
			}
			held.hold(name+".Marshal", m, canon)
			// the getters of the reused target
			switch x := target.(type) {
			case *uuid_v1.UUIDv1:
				f := refRFC(bv)
				if x.Time != f.Time || x.NodeID != f.Node || !bytes.Equal(x.GetNodeID(), f.Node[:]) || x.GetClockSequence() != f.ClockSeq&0x0FFF {
					r.Violation(entry+":reused-receiver:getters", fmt.Sprintf("%s: Time=%#x ClockSeq=%#x NodeID=%x", canon, x.Time, x.ClockSeq, x.NodeID), cs)
				}
			case *uuid_v2.UUIDv2:
				f := refRFC(bv)
				if x.GetLocalDomainNumber() != uint32(f.Time&0xFFFFFFFF) || x.Time != f.Time&^0xFFFFFFFF || x.GetClock() != bv[8]&0x0F || x.GetLocalDomain() != bv[9] || !bytes.Equal(x.GetNodeID(), f.Node[:]) {
					r.Violation(entry+":reused-receiver:getters", fmt.Sprintf("%s: %+v", canon, x), cs)
				}
			case *uuid_v8.UUIDv8:
				_, _, wdata := refSplit(bv)
				if !bytes.Equal(x.GetData(), wdata[:]) {
					r.Violation(entry+":reused-receiver:getters", fmt.Sprintf("%s: GetData()=%x", canon, x.GetData()), cs)
				}
			}
		})
		c.prev[name] = canon
	}
}

// ---------------------------------------------------------------------------------
// stale derived fields: assign, then format without an intermediate call

type v1set struct {
	ts   uint64
	cseq uint16 // < 0x1000 (the 12-bit model of the library, see the known findings)
	node [6]byte
}

type v2set struct {
	ldn   uint32
	ts    uint64 // upper 28 bits
	low   uint32 // low 32 bits of the clock reading assigned to Time: never emitted
	clock uint8
	ld    uint8
	node  [6]byte
}

func (s v1set) want() []byte { return refRFCPack(1, s.ts, s.cseq, s.node) }
func (s v2set) want() []byte {
	return refRFCPack(2, s.ts|uint64(s.ldn), uint16(s.clock&0x0F)<<8|uint16(s.ld), s.node)
}

func randV1(rng *rand.Rand) v1set {
	return v1set{ts: rng.Uint64() & (1<<60 - 1), cseq: uint16(rng.UintN(1 << 12)), node: randNode(rng)}
}

func randV2(rng *rand.Rand) v2set {
	return v2set{low: rng.Uint32() * uint32(rng.UintN(2)), ldn: rng.Uint32() * uint32(1-rng.UintN(8)/7), ts: rng.Uint64() & (1<<60 - 1) &^ 0xFFFFFFFF, clock: uint8(rng.UintN(16)), ld: uint8(rng.UintN(256)), node: randNode(rng)}
}

func staleV1(sets []v1set, parsed []byte) {
	cs := map[string]any{"sets": fmt.Sprintf("%+v", sets), "parsed_first": mon.FullHex(parsed)}
	guard("uuid_v1.stale", cs, func() {
		var u uuid_v1.UUIDv1
		state := "a zero value"
		if parsed != nil {
			if _, err := u.Unmarshal(parsed); err != nil {
				return
			}
			state = "a value that parsed " + canonUUID(parsed)
		}
		u.UUID.Variant = 0x8
		for i, s := range sets {
			how := "direct field assignment"
			switch i % 3 {
			case 0:
				u.Time, u.ClockSeq, u.NodeID = s.ts, s.cseq, s.node
			case 1:
				how = "the setters"
				wsec, wnsec := refInstant(s.ts)
				u.SetTime(time.Unix(wsec, wnsec))
				u.SetClockSequence(s.cseq)
				u.SetNodeID(s.node[:])
			case 2: // only one field changes
				u.NodeID = s.node
				s.ts, s.cseq = sets[i-1].ts, sets[i-1].cseq
			}
			want := s.want()
			// String() first, with no Marshal() since the assignment
			if i%2 == 0 {
				got := u.String()
				ev(1)
				if got != canonUUID(want) {
					r.Violation("uuid_v1.String:stale-fields", fmt.Sprintf("assignment #%d by %s on %s, then String() with no call in between = %q, the fields say %q", i, how, state, got, canonUUID(want)), cs)
				}
			}
			m, err := u.Marshal()
			ev(1)
			if err != nil || !bytes.Equal(m, want) {
				r.Violation("uuid_v1.Marshal:stale-fields", fmt.Sprintf("assignment #%d by %s on %s, then Marshal() = %x,%v, the fields say %x", i, how, state, m, err, want), cs)
			}
			held.hold("uuid_v1.Marshal", m, canonUUID(want))
			if got := u.String(); got != canonUUID(want) {
				r.Violation("uuid_v1.String:after-marshal", fmt.Sprintf("assignment #%d, Marshal(), String() = %q want %q", i, got, canonUUID(want)), cs)
			}
			ev(1)
		}
	})
}

func staleV2(sets []v2set, parsed []byte) {
	cs := map[string]any{"sets": fmt.Sprintf("%+v", sets), "parsed_first": mon.FullHex(parsed)}
	guard("uuid_v2.stale", cs, func() {
		var u uuid_v2.UUIDv2
		state := "a zero value"
		if parsed != nil {
			if _, err := u.Unmarshal(parsed); err != nil {
				return
			}
			state = "a value that parsed " + canonUUID(parsed)
		}
		u.UUID.Variant = 0x8
		for i, s := range sets {
			how := "direct field assignment"
			switch i % 3 {
			case 0:
				u.LocalDomainNumber, u.Time, u.Clock, u.LocalDomain, u.NodeID = s.ldn, s.ts|uint64(s.low), s.clock, s.ld, s.node
			case 1:
				how = "the setters"
				u.SetLocalDomainNumber(s.ldn)
				u.SetClock(s.clock)
				u.SetLocalDomain(s.ld)
				u.SetNodeID(s.node[:])
				wsec, wnsec := refInstant(s.ts | uint64(s.low))
				u.SetTime(time.Unix(wsec, wnsec))
			case 2:
				how = "SetLocalDomain/SetLocalDomainNumber only"
				u.SetLocalDomain(s.ld)
				u.SetLocalDomainNumber(s.ldn)
				s.ts, s.clock, s.node = sets[i-1].ts, sets[i-1].clock, sets[i-1].node
			}
			want := s.want()
			if i%2 == 0 {
				got := u.String()
				ev(1)
				if got != canonUUID(want) {
					r.Violation("uuid_v2.String:stale-fields", fmt.Sprintf("assignment #%d by %s on %s, then String() with no call in between = %q, the fields say %q", i, how, state, got, canonUUID(want)), cs)
				}
			}
			m, err := u.Marshal()
			ev(1)
			if err != nil || !bytes.Equal(m, want) {
				r.Violation("uuid_v2.Marshal:stale-fields", fmt.Sprintf("assignment #%d by %s on %s, then Marshal() = %x,%v, the fields say %x", i, how, state, m, err, want), cs)
			}
			held.hold("uuid_v2.Marshal", m, canonUUID(want))
			if got := u.String(); got != canonUUID(want) {
				r.Violation("uuid_v2.String:after-marshal", fmt.Sprintf("assignment #%d, Marshal(), String() = %q want %q", i, got, canonUUID(want)), cs)
			}
			ev(1)
		}
	})
}

func staleV8(datas [][15]byte, variant byte, parsed []byte) {
	cs := map[string]any{"datas": fmt.Sprintf("%x", datas), "variant": variant, "parsed_first": mon.FullHex(parsed)}
	guard("uuid_v8.stale", cs, func() {
		var u uuid_v8.UUIDv8
		state := "a zero value"
		if parsed != nil {
			if _, err := u.Unmarshal(parsed); err != nil {
				return
			}
			state = "a value that parsed " + canonUUID(parsed)
		}
		for i, d := range datas {
			u.UUID.Variant = (variant + byte(i)) & 0xF
			how := "SetData"
			if i%2 == 0 {
				u.SetData(d[:])
			} else {
				how = "direct field assignment"
				u.Data = d
			}
			want := refJoin(8, u.UUID.Variant, d)
			if i%3 != 1 {
				got := u.String()
				ev(1)
				if got != canonUUID(want) {
					r.Violation("uuid_v8.String:stale-fields", fmt.Sprintf("assignment #%d by %s on %s, then String() with no call in between = %q, the fields say %q", i, how, state, got, canonUUID(want)), cs)
				}
			}
			m, err := u.Marshal()
			ev(1)
			if err != nil || !bytes.Equal(m, want) {
				r.Violation("uuid_v8.Marshal:stale-fields", fmt.Sprintf("assignment #%d by %s on %s, then Marshal() = %x,%v, the fields say %x", i, how, state, m, err, want), cs)
			}
			held.hold("uuid_v8.Marshal", m, canonUUID(want))
		}
	})
}

func staleGeneric(vals [][]byte) {
	cs := map[string]any{"values": fmt.Sprintf("%x", vals)}
	guard("uuid.UUID.stale", cs, func() {
		var u uuid.UUID
		for i, b := range vals {
			u.Version, u.Variant, u.Data = refSplit(b)
			if i%2 == 0 {
				got := u.String()
				ev(1)
				if got != canonUUID(b) {
					r.Violation("uuid.UUID.String:stale-fields", fmt.Sprintf("assignment #%d, then String() = %q, the fields say %q", i, got, canonUUID(b)), cs)
				}
			}
			m, err := u.Marshal()
			ev(1)
			if err != nil || !bytes.Equal(m, b) {
				r.Violation("uuid.UUID.Marshal:stale-fields", fmt.Sprintf("assignment #%d, then Marshal() = %x,%v, the fields say %x", i, m, err, b), cs)
			}
			held.hold("uuid.UUID.Marshal", m, canonUUID(b))
		}
	})
}

func staleGUID(vals [][]byte) {
	cs := map[string]any{"values": fmt.Sprintf("%x", vals)}
	guard("guid.stale", cs, func() {
		var g guid.GUID
		for i, b := range vals {
			rg, want := guidWant(b)
			g.A, g.B, g.C, g.D, g.E = want.A, want.B, want.C, want.D, want.E
			f := guidFormats[i%5]
			s := guidFormat(&g, f)
			ev(1)
			if !strings.EqualFold(s, rg.format(f)) {
				r.Violation("guid.ToFormat"+string(f)+":stale-fields", fmt.Sprintf("assignment #%d, then ToFormat%c = %q, the fields say %q", i, f, s, rg.format(f)), cs)
			}
			out := g.ToBytes()
			ev(1)
			if !bytes.Equal(out, b) {
				r.Violation("guid.ToBytes:stale-fields", fmt.Sprintf("assignment #%d, then ToBytes() = %x, the fields say %x", i, out, b), cs)
			}
			held.hold("guid.ToBytes", out, hexOf(b))
		}
	})
}

// ---------------------------------------------------------------------------------

// sharedResults: a parser that returns a pointer must return an object of its own every time —
// parse a text, overwrite the result through its own methods/fields, parse the same text again
// (and a different spelling of the same value): the second result must be the value of the text.
func sharedResults(vals [][]byte) {
	parsers := []struct {
		name string
		f    func(string) (*guid.GUID, error)
		fmt  byte
	}{{"guid.FromString", guid.FromString, 'D'}, {"guid.FromFormatN", guid.FromFormatN, 'N'}, {"guid.FromFormatD", guid.FromFormatD, 'D'},
		{"guid.FromFormatB", guid.FromFormatB, 'B'}, {"guid.FromFormatP", guid.FromFormatP, 'P'}, {"guid.FromFormatX", guid.FromFormatX, 'X'}}
	other := []byte{0xF0, 0xE1, 0xD2, 0xC3, 0xB4, 0xA5, 0x96, 0x87, 0x78, 0x69, 0x5A, 0x4B, 0x3C, 0x2D, 0x1E, 0x0F}
	for vi, b := range vals {
		_, want := guidWant(b)
		for _, p := range parsers {
			text := guidFormat(&want, p.fmt)
			if vi%2 == 1 {
				text = strings.ToUpper(text)
			}
			cs := map[string]any{"text": text, "parser": p.name}
			var g1, g2 *guid.GUID
			var e1, e2 error
			pan, pv, st := mon.Guard(func() {
				g1, e1 = p.f(text)
				if e1 == nil && g1 != nil {
					g1.FromRawBytes(other) // the caller reuses what it was given
					g1.A ^= 0xFFFFFFFF
				}
				g2, e2 = p.f(text)
			})
			r.Eval(2)
			switch {
			case pan:
				r.Violation(p.name+":shared-result:panic", fmt.Sprintf("%v at %s", pv, mon.TopLibFrame(st)), cs)
			case e1 != nil || e2 != nil || g2 == nil:
				// acceptance is judged by the main workload
			case g1 == g2:
				r.Violation(p.name+":shared-result", "two parses of the same text returned the same object: the caller's changes to the first result reach the second", cs)
			case !mon.ExportedEqual(*g2, want):
				r.Violation(p.name+":shared-result", fmt.Sprintf("after the first result of parsing %q was overwritten by its owner, a second parse of the same text yields %s", text, guidFormat(g2, 'D')), cs)
			}
		}
		r.Nontrivial("shared-result|" + hexOf(b))
	}
}

func stateMonitors() {
	sharedResults(boundaryValues()[:40])
	rng := r.Rand("state")
	gc := &guidChain{prev: "nothing"}
	uc := &uuidChain{prev: map[string]string{"gen": "nothing", "uuid_v1": "nothing", "uuid_v2": "nothing", "uuid_v8": "nothing"}}

	// boundary chain, deterministic: all-ones right before all-zero, every single-bit value after
	// its complement (big-then-small), then the whole boundary set in its own order
	bv := boundaryValues()
	chain := [][]byte{bv[1], bv[0], bv[1], bv[len(bv)-1], bv[0]}
	for i := 2; i+1 < 2+256; i += 2 {
		chain = append(chain, bv[i+1], bv[i])
	}
	chain = append(chain, bv...)
	for _, b := range chain {
		gc.step(b, true)
		uc.stepGeneric(b)
		uc.stepVersioned(b, rng)
		r.Nontrivial("chain|" + hexOf(b) + "|" + gc.prev)
	}
	nodes := [][6]byte{{}, {0xFF, 0xFF, 0xFF, 0xFF, 0xFF, 0xFF}, {0x02, 0x42, 0xac, 0x12, 0x00, 0x02}}
	published := []byte{0x00, 0x00, 0x03, 0xe8, 0x34, 0x06, 0x21, 0xf0, 0x9c, 0x00, 0x02, 0x42, 0xac, 0x12, 0x00, 0x02}
	for i, ts := range timeBoundaries {
		ts &= 1<<60 - 1
		a := v1set{ts, 0x0FFF, nodes[1]}
		b := v1set{timeBoundaries[(i+7)%len(timeBoundaries)] & (1<<60 - 1), 0, nodes[0]}
		c := v1set{0, 0x0CD2, nodes[2]}
		staleV1([]v1set{a, b, c, a}, nil)
		staleV1([]v1set{b, a, c}, withVersion(published, 1))
		a2 := v2set{0xFFFFFFFF, ts &^ 0xFFFFFFFF, uint32(ts), 0xF, 0xFF, nodes[1]}
		b2 := v2set{0, b.ts &^ 0xFFFFFFFF, 0xFFFFFFFF, 0, 0, nodes[0]}
		c2 := v2set{1000, 0, 0x12345678, 0xC, 0, nodes[2]}
		staleV2([]v2set{a2, b2, c2, a2}, nil)
		staleV2([]v2set{b2, a2, c2}, published)
		r.Nontrivial(fmt.Sprintf("stale|b|%x", ts))
	}
	for i := 0; i+3 < len(bv); i += 3 {
		var d [3][15]byte
		for k := range d {
			copy(d[k][:], bv[i+k][:15])
		}
		staleV8(d[:], byte(i), nil)
		staleV8(d[:], byte(i), withVersion(bv[i+1], 8))
		staleGeneric(bv[i : i+3])
		staleGUID(bv[i : i+3])
	}

	// seeded random remainder
	n := r.Pick(20000, 200000)
	for k := 0; k < n; k++ {
		b := randValue(rng)
		if k%5 == 0 { // small after big: sparse values
			for i := range b {
				if rng.IntN(3) > 0 {
					b[i] = 0
				}
			}
		}
		gc.step(b, k%16 == 0)
		uc.stepGeneric(b)
		uc.stepVersioned(b, rng)
		if k%4 == 0 {
			var parsed []byte
			if k%8 == 0 {
				parsed = randValue(rng)
			}
			s1 := []v1set{randV1(rng), randV1(rng), randV1(rng)}
			s2 := []v2set{randV2(rng), randV2(rng), randV2(rng)}
			if parsed != nil {
				staleV1(s1, withVersion(parsed, 1))
				staleV2(s2, withVersion(parsed, 2))
			} else {
				staleV1(s1, nil)
				staleV2(s2, nil)
			}
			var d [3][15]byte
			for i := range d {
				copy(d[i][:], randValue(rng))
			}
			if parsed != nil {
				parsed = withVersion(parsed, 8)
			}
			staleV8(d[:], byte(rng.UintN(16)), parsed)
			vs := [][]byte{randValue(rng), randValue(rng), b}
			staleGeneric(vs)
			staleGUID(vs)
		}
		if k%(n/2) == 1 {
			r.Sample(map[string]any{"kind": "reused parse target", "raw": hexOf(b), "previous": gc.prev})
		}
	}
	held.final()
	r.Count("state_chain_values", len(chain)+n)
	r.Count("held_outputs", held.n)
}

// ---------------------------------------------------------------------------------
// setter sequences: one setter at a time, in any order, on one long-lived object. Each setter
// changes its own field and nothing else, whatever the object held before (times go backwards
// as well as forwards, a parsed value may come first).
func setterSequences() {
	n := r.Pick(6000, 120000)
	for q := 0; q < n; q++ {
		rng := r.Rand(fmt.Sprintf("setterseq|%d", q))
		pickTS := func() uint64 {
			switch rng.IntN(4) {
			case 0:
				return timeBoundaries[rng.IntN(len(timeBoundaries))] & (1<<60 - 1)
			case 1:
				return (rng.Uint64() & (1<<60 - 1)) >> uint(rng.IntN(60))
			}
			return rng.Uint64() & (1<<60 - 1)
		}
		// ---- version 1
		{
			var u uuid_v1.UUIDv1
			m := v1set{}
			var trace []string
			if q%3 == 0 {
				m = randV1(rng)
				if _, err := u.Unmarshal(m.want()); err != nil {
					continue
				}
				trace = append(trace, "Unmarshal("+canonUUID(m.want())+")")
			} else {
				u.UUID.Variant = 0x8
			}
			for step := 0; step < 2+rng.IntN(7); step++ {
				switch rng.IntN(3) {
				case 0:
					m.ts = pickTS()
					sec, nsec := refInstant(m.ts)
					trace = append(trace, fmt.Sprintf("SetTime(%#x)", m.ts))
					u.SetTime(time.Unix(sec, nsec))
				case 1:
					m.cseq = []uint16{0, 1, 0x0FFF, 0x0FFE, uint16(rng.UintN(1 << 12))}[rng.IntN(5)]
					trace = append(trace, fmt.Sprintf("SetClockSequence(%#x)", m.cseq))
					u.SetClockSequence(m.cseq)
				default:
					m.node = randNode(rng)
					trace = append(trace, fmt.Sprintf("SetNodeID(%x)", m.node))
					u.SetNodeID(m.node[:])
				}
				cs := map[string]any{"version": 1, "trace": append([]string{}, trace...)}
				want := m.want()
				var out []byte
				var err error
				var txt string
				fieldsBefore := fmt.Sprintf("Time=%#x ClockSeq=%#x NodeID=%x", u.Time, u.ClockSeq, u.NodeID)
				p, pv, st := mon.Guard(func() {
					if step%2 == 0 {
						txt = u.String()
						out, err = u.Marshal()
					} else {
						out, err = u.Marshal()
						txt = u.String()
					}
				})
				ev(2)
				if fieldsAfter := fmt.Sprintf("Time=%#x ClockSeq=%#x NodeID=%x", u.Time, u.ClockSeq, u.NodeID); !p && fieldsAfter != fieldsBefore {
					r.Violation("uuid_v1.setters:fields-changed-by-formatting", fmt.Sprintf("after %s, String()/Marshal() changed the caller-set fields from %s to %s", trace[len(trace)-1], fieldsBefore, fieldsAfter), cs)
				}
				switch {
				case p:
					r.Violation("uuid_v1.setters:panic", fmt.Sprintf("panic %v at %s", pv, mon.TopLibFrame(st)), cs)
				case err != nil || !bytes.Equal(out, want):
					r.Violation("uuid_v1.setters:sequence", fmt.Sprintf("after %s the value is %s, the fields set so far say %s", trace[len(trace)-1], canonUUID(out), canonUUID(want)), cs)
				case txt != canonUUID(want):
					r.Violation("uuid_v1.setters:sequence:text", fmt.Sprintf("after %s String() = %q, the fields set so far say %q", trace[len(trace)-1], txt, canonUUID(want)), cs)
				case u.GetClockSequence() != m.cseq || !bytes.Equal(u.GetNodeID(), m.node[:]):
					r.Violation("uuid_v1.setters:sequence:getters", fmt.Sprintf("after %s the getters give clock_seq %#x node %x, set were %#x %x", trace[len(trace)-1], u.GetClockSequence(), u.GetNodeID(), m.cseq, m.node), cs)
				}
			}
		}
		// ---- version 2
		{
			var u uuid_v2.UUIDv2
			m := v2set{}
			var trace []string
			if q%3 == 1 {
				m = randV2(rng)
				m.low = 0
				if _, err := u.Unmarshal(m.want()); err != nil {
					continue
				}
				trace = append(trace, "Unmarshal("+canonUUID(m.want())+")")
			} else {
				u.UUID.Variant = 0x8
			}
			for step := 0; step < 2+rng.IntN(8); step++ {
				switch rng.IntN(5) {
				case 0:
					full := pickTS()
					m.ts, m.low = full&^0xFFFFFFFF, uint32(full)
					sec, nsec := refInstant(full)
					trace = append(trace, fmt.Sprintf("SetTime(%#x)", full))
					u.SetTime(time.Unix(sec, nsec))
				case 1:
					m.clock = uint8(rng.UintN(16))
					trace = append(trace, fmt.Sprintf("SetClock(%#x)", m.clock))
					u.SetClock(m.clock)
				case 2:
					m.ld = uint8(rng.UintN(256))
					trace = append(trace, fmt.Sprintf("SetLocalDomain(%#x)", m.ld))
					u.SetLocalDomain(m.ld)
				case 3:
					m.ldn = []uint32{0, 1, 1000, 0xFFFFFFFF, rng.Uint32()}[rng.IntN(5)]
					trace = append(trace, fmt.Sprintf("SetLocalDomainNumber(%#x)", m.ldn))
					u.SetLocalDomainNumber(m.ldn)
				default:
					m.node = randNode(rng)
					trace = append(trace, fmt.Sprintf("SetNodeID(%x)", m.node))
					u.SetNodeID(m.node[:])
				}
				cs := map[string]any{"version": 2, "trace": append([]string{}, trace...)}
				want := m.want()
				var out []byte
				var err error
				var txt string
				fieldsBefore := fmt.Sprintf("Time=%#x Clock=%#x LocalDomain=%#x LocalDomainNumber=%#x NodeID=%x", u.Time, u.Clock, u.LocalDomain, u.LocalDomainNumber, u.NodeID)
				p, pv, st := mon.Guard(func() {
					if step%2 == 0 {
						txt = u.String()
						out, err = u.Marshal()
					} else {
						out, err = u.Marshal()
						txt = u.String()
					}
				})
				ev(2)
				if fieldsAfter := fmt.Sprintf("Time=%#x Clock=%#x LocalDomain=%#x LocalDomainNumber=%#x NodeID=%x", u.Time, u.Clock, u.LocalDomain, u.LocalDomainNumber, u.NodeID); !p && fieldsAfter != fieldsBefore {
					r.Violation("uuid_v2.setters:fields-changed-by-formatting", fmt.Sprintf("after %s, String()/Marshal() changed the caller-set fields from %s to %s", trace[len(trace)-1], fieldsBefore, fieldsAfter), cs)
				}
				switch {
				case p:
					r.Violation("uuid_v2.setters:panic", fmt.Sprintf("panic %v at %s", pv, mon.TopLibFrame(st)), cs)
				case err != nil || !bytes.Equal(out, want):
					r.Violation("uuid_v2.setters:sequence", fmt.Sprintf("after %s the value is %s, the fields set so far say %s", trace[len(trace)-1], canonUUID(out), canonUUID(want)), cs)
				case txt != canonUUID(want):
					r.Violation("uuid_v2.setters:sequence:text", fmt.Sprintf("after %s String() = %q, the fields set so far say %q", trace[len(trace)-1], txt, canonUUID(want)), cs)
				case u.GetClock() != m.clock || u.GetLocalDomain() != m.ld || u.GetLocalDomainNumber() != m.ldn || !bytes.Equal(u.GetNodeID(), m.node[:]):
					r.Violation("uuid_v2.setters:sequence:getters", fmt.Sprintf("after %s the getters give clock %#x domain %#x number %#x node %x, set were %#x %#x %#x %x", trace[len(trace)-1], u.GetClock(), u.GetLocalDomain(), u.GetLocalDomainNumber(), u.GetNodeID(), m.clock, m.ld, m.ldn, m.node), cs)
				}
			}
		}
		// a value copy (b := a) changed and formatted is another value: a still formats as itself,
		// and what a returned before is still what it was
		{
			a2 := randV2(rng)
			var a uuid_v2.UUIDv2
			if _, err := a.Unmarshal(a2.want()); err == nil {
				first, _ := a.Marshal()
				keep := append([]byte{}, first...)
				b := a
				b.SetLocalDomainNumber(^a2.ldn)
				b.SetNodeID([]byte{9, 8, 7, 6, 5, 4})
				b.SetClock(a2.clock ^ 0x05)
				bOut, _ := b.Marshal()
				_ = b.String()
				again, err := a.Marshal()
				ev(3)
				cs := map[string]any{"version": 2, "value": canonUUID(a2.want())}
				if err != nil || !bytes.Equal(again, a2.want()) || a.String() != canonUUID(a2.want()) {
					r.Violation("uuid_v2.Marshal:value-copy-writes-through", fmt.Sprintf("a holds %s; b := a; b changed and formatted as %s: a now formats as %s", canonUUID(a2.want()), canonUUID(bOut), canonUUID(again)), cs)
				}
				if !bytes.Equal(first, keep) {
					r.Violation("uuid_v2.Marshal:held-output-changed:value-copy", "bytes returned by a.Marshal() changed when a value copy of a was formatted", cs)
				}
			}
			a1 := randV1(rng)
			var c uuid_v1.UUIDv1
			if _, err := c.Unmarshal(a1.want()); err == nil {
				first, _ := c.Marshal()
				keep := append([]byte{}, first...)
				d := c
				d.SetClockSequence(a1.cseq ^ 0x0155)
				d.SetNodeID([]byte{1, 1, 2, 3, 5, 8})
				dOut, _ := d.Marshal()
				_ = d.String()
				again, err := c.Marshal()
				ev(3)
				cs := map[string]any{"version": 1, "value": canonUUID(a1.want())}
				if err != nil || !bytes.Equal(again, a1.want()) || c.String() != canonUUID(a1.want()) {
					r.Violation("uuid_v1.Marshal:value-copy-writes-through", fmt.Sprintf("a holds %s; b := a; b changed and formatted as %s: a now formats as %s", canonUUID(a1.want()), canonUUID(dOut), canonUUID(again)), cs)
				}
				if !bytes.Equal(first, keep) {
					r.Violation("uuid_v1.Marshal:held-output-changed:value-copy", "bytes returned by a.Marshal() changed when a value copy of a was formatted", cs)
				}
			}
		}
		r.Nontrivial(fmt.Sprintf("setterseq|%d", q))
	}
}
