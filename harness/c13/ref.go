package main

// Independent reference for C13.
//
// RFC 4122 §4.1.2 (network byte order):
//
//	octets 0-3 time_low | 4-5 time_mid | 6-7 time_hi_and_version (version = 4 msb of octet 6)
//	octet 8 clock_seq_hi_and_reserved (variant in the msbs; for variant 10x the low 6 bits
//	are clock_seq bits 8..13) | octet 9 clock_seq_low | octets 10-15 node
//	timestamp = time_low | time_mid<<32 | (time_hi & 0x0FFF)<<48, 100 ns since 1582-10-15
//
// MS-DTYP §2.3.4.2 GUID packet: Data1 (uint32 LE) Data2 (uint16 LE) Data3 (uint16 LE)
// Data4 (8 octets, as is). Text: Data1-Data2-Data3-Data4[0..1]-Data4[2..7], hex.
//
// The library's generic uuid.UUID keeps Version (nibble 12 of the 32 hex nibbles),
// Variant (nibble 16) and Data = the remaining 30 nibbles in order; the reference
// below works on nibbles so that it shares no shifting code with the library.

import (
	"math/big"
	"strings"
)

const hexdigits = "0123456789abcdef"

func nibbles(b []byte) []byte {
	out := make([]byte, 0, len(b)*2)
	for _, x := range b {
		out = append(out, x/16, x%16)
	}
	return out
}

func fromNibbles(n []byte) []byte {
	out := make([]byte, len(n)/2)
	for i := range out {
		out[i] = n[2*i]*16 + n[2*i+1]
	}
	return out
}

// refSplit: 16 octets -> version nibble, variant nibble, 15 data octets.
func refSplit(b []byte) (ver, variant byte, data [15]byte) {
	n := nibbles(b[:16])
	ver, variant = n[12], n[16]
	rest := append(append(append([]byte{}, n[:12]...), n[13:16]...), n[17:]...)
	copy(data[:], fromNibbles(rest))
	return
}

// refJoin is the inverse of refSplit.
func refJoin(ver, variant byte, data [15]byte) []byte {
	d := nibbles(data[:])
	n := append([]byte{}, d[:12]...)
	n = append(n, ver%16)
	n = append(n, d[12:15]...)
	n = append(n, variant%16)
	n = append(n, d[15:]...)
	return fromNibbles(n)
}

func hexOf(b []byte) string {
	var sb strings.Builder
	for _, x := range b {
		sb.WriteByte(hexdigits[x/16])
		sb.WriteByte(hexdigits[x%16])
	}
	return sb.String()
}

// canonUUID is the 8-4-4-4-12 text of 16 octets in network order.
func canonUUID(b []byte) string {
	h := hexOf(b[:16])
	return h[0:8] + "-" + h[8:12] + "-" + h[12:16] + "-" + h[16:20] + "-" + h[20:32]
}

type rfcFields struct {
	Version  byte
	Time     uint64 // 60 bits
	RFCVar   bool   // variant bits are 10x
	ClockSeq uint16 // 14 bits (meaningful when RFCVar)
	Node     [6]byte
}

func refRFC(b []byte) rfcFields {
	var f rfcFields
	f.Version = b[6] / 16
	tl := new(big.Int).SetBytes(b[0:4])
	tm := new(big.Int).SetBytes(b[4:6])
	th := new(big.Int).SetBytes([]byte{b[6] % 16, b[7]})
	t := new(big.Int).Lsh(th, 48)
	t.Add(t, new(big.Int).Lsh(tm, 32))
	t.Add(t, tl)
	f.Time = t.Uint64()
	f.RFCVar = b[8]/64 == 2
	f.ClockSeq = uint16(b[8]%64)*256 + uint16(b[9])
	copy(f.Node[:], b[10:16])
	return f
}

// refRFCPack builds the 16 octets of a version-v, variant-10x UUID from RFC fields.
func refRFCPack(ver byte, time60 uint64, clock14 uint16, node [6]byte) []byte {
	b := make([]byte, 16)
	t := new(big.Int).SetUint64(time60)
	tb := t.FillBytes(make([]byte, 8)) // big-endian 64 bits: [hi4bits+..]
	// tb[0..1] = bits 63..48, tb[2..3] = bits 47..32 (time_mid), tb[4..7] = time_low
	copy(b[0:4], tb[4:8])
	copy(b[4:6], tb[2:4])
	b[6] = ver*16 + tb[0]%16
	b[7] = tb[1]
	b[8] = 128 + byte(clock14/256)%64
	b[9] = byte(clock14 % 256)
	copy(b[10:], node[:])
	return b
}

// GUID reference ------------------------------------------------------------------

type refGUID struct {
	Data1 uint32
	Data2 uint16
	Data3 uint16
	Data4 [8]byte
}

func refGUIDFromRaw(b []byte) refGUID {
	var g refGUID
	g.Data1 = uint32(b[0]) + uint32(b[1])*256 + uint32(b[2])*65536 + uint32(b[3])*16777216
	g.Data2 = uint16(b[4]) + uint16(b[5])*256
	g.Data3 = uint16(b[6]) + uint16(b[7])*256
	copy(g.Data4[:], b[8:16])
	return g
}

func (g refGUID) raw() []byte {
	b := make([]byte, 16)
	b[0], b[1], b[2], b[3] = byte(g.Data1%256), byte(g.Data1/256%256), byte(g.Data1/65536%256), byte(g.Data1/16777216)
	b[4], b[5] = byte(g.Data2%256), byte(g.Data2/256)
	b[6], b[7] = byte(g.Data3%256), byte(g.Data3/256)
	copy(b[8:], g.Data4[:])
	return b
}

func (g refGUID) groups() (a, b, c, d, e string) {
	a = hexOf([]byte{byte(g.Data1 / 16777216), byte(g.Data1 / 65536 % 256), byte(g.Data1 / 256 % 256), byte(g.Data1 % 256)})
	b = hexOf([]byte{byte(g.Data2 / 256), byte(g.Data2 % 256)})
	c = hexOf([]byte{byte(g.Data3 / 256), byte(g.Data3 % 256)})
	d = hexOf(g.Data4[0:2])
	e = hexOf(g.Data4[2:8])
	return
}

// format returns the .NET Guid.ToString(fmt) text, lower case.
func (g refGUID) format(f byte) string {
	a, b, c, d, e := g.groups()
	switch f {
	case 'N':
		return a + b + c + d + e
	case 'D':
		return a + "-" + b + "-" + c + "-" + d + "-" + e
	case 'B':
		return "{" + a + "-" + b + "-" + c + "-" + d + "-" + e + "}"
	case 'P':
		return "(" + a + "-" + b + "-" + c + "-" + d + "-" + e + ")"
	case 'X':
		var parts []string
		for _, x := range g.Data4 {
			parts = append(parts, "0x"+hexOf([]byte{x}))
		}
		return "{0x" + a + ",0x" + b + ",0x" + c + ",{" + strings.Join(parts, ",") + "}}"
	}
	return ""
}

// recase: mode 0 lower, 1 upper (hex digits only; the 'x' of 0x stays lower so that the
// documented X format is kept), 2 alternating, 3 fully upper including 'X'.
func recase(s string, mode int) string {
	if mode == 0 {
		return s
	}
	b := []byte(s)
	k := 0
	for i, c := range b {
		if c >= 'a' && c <= 'f' {
			if mode == 1 || mode == 3 || k%2 == 0 {
				b[i] = c - 32
			}
			k++
		}
		if c == 'x' && mode == 3 {
			b[i] = 'X'
		}
	}
	return string(b)
}
